(* Proofs about model/Num.v: decimal parsing with saturation, the ms -> Duration
   conversion and the RDY / REQ / DPUB / HTTP-defer range decisions, all stated
   against the MATHEMATICAL value [dec_value] of the digit string. *)
From Coq Require Import List NArith ZArith Bool Lia ZifyBool ZifyN.
From NSQV Require Import model.Judge model.Num.
Import ListNotations.

(* ------------------------------------------------------------------ digits *)
Lemma is_digit_range : forall c, is_digit c = true <-> (48 <= c <= 57)%N.
Proof. intro c. unfold is_digit. lia. Qed.

Lemma b10_from_cons : forall acc c r, b10_from acc (c :: r) =
  if is_digit c then
    if (((max_u64 - (c - 48)) / 10) <? acc)%N then b10_from max_u64 r
    else b10_from (acc * 10 + (c - 48))%N r
  else None.
Proof. reflexivity. Qed.

Lemma all_digits_cons : forall c r, all_digits (c :: r) = is_digit c && all_digits r.
Proof. reflexivity. Qed.

Lemma dec_value_from_cons : forall acc c r,
  dec_value_from acc (c :: r) = dec_value_from (acc * 10 + (c - 48))%N r.
Proof. reflexivity. Qed.

Lemma dec_value_from_ge : forall b acc, (acc <= dec_value_from acc b)%N.
Proof.
  induction b as [|c r IH]; intro acc.
  - cbn. lia.
  - rewrite dec_value_from_cons. specialize (IH (acc * 10 + (c - 48))%N). lia.
Qed.

Lemma dec_value_from_mono : forall b a a', (a <= a')%N ->
  (dec_value_from a b <= dec_value_from a' b)%N.
Proof.
  induction b as [|c r IH]; intros a a' H.
  - exact H.
  - rewrite !dec_value_from_cons. apply IH. lia.
Qed.

(* [None] exactly when some byte is not a digit -- for EVERY byte string and every
   accumulator (so also after saturation) *)
Lemma b10_from_none_iff : forall b acc, b10_from acc b = None <-> all_digits b = false.
Proof.
  induction b as [|c r IH]; intro acc.
  - cbn. split; discriminate.
  - rewrite b10_from_cons, all_digits_cons. destruct (is_digit c) eqn:D; cbn [andb].
    + destruct ((max_u64 - (c - 48)) / 10 <? acc)%N; apply IH.
    + split; reflexivity.
Qed.

Theorem b10_none_iff : forall p, byte_to_base10 p = None <-> all_digits p = false.
Proof. intro p. apply b10_from_none_iff. Qed.

(* the saturation test is exactly "acc*10+v does not fit" *)
Lemma sat_test : forall acc v, (v <= 9)%N ->
  (((max_u64 - v) / 10 <? acc)%N = true <-> (max_u64 < acc * 10 + v)%N).
Proof.
  intros acc v Hv. unfold max_u64 in *.
  rewrite N.ltb_lt.
  pose proof (N.div_mod (18446744073709551615 - v) 10 ltac:(lia)) as E.
  pose proof (N.mod_lt (18446744073709551615 - v) 10 ltac:(lia)) as L.
  lia.
Qed.

Lemma b10_from_saturated : forall b, all_digits b = true ->
  b10_from max_u64 b = Some max_u64.
Proof.
  induction b as [|c r IH]; intro H.
  - reflexivity.
  - rewrite b10_from_cons. rewrite all_digits_cons in H. apply andb_true_iff in H. destruct H as [D R]. rewrite D.
    apply is_digit_range in D.
    assert (T : ((max_u64 - (c - 48)) / 10 <? max_u64)%N = true).
    { apply sat_test; unfold max_u64; lia. }
    rewrite T. apply IH, R.
Qed.

Lemma b10_from_digits : forall b acc, all_digits b = true -> (acc <= max_u64)%N ->
  b10_from acc b = Some (N.min (dec_value_from acc b) max_u64).
Proof.
  induction b as [|c r IH]; intros acc H A.
  - cbn. f_equal. lia.
  - rewrite b10_from_cons, dec_value_from_cons. rewrite all_digits_cons in H. apply andb_true_iff in H. destruct H as [D R]. rewrite D.
    apply is_digit_range in D.
    destruct ((max_u64 - (c - 48)) / 10 <? acc)%N eqn:T.
    + apply sat_test in T; [|lia].
      rewrite b10_from_saturated by exact R. f_equal.
      pose proof (dec_value_from_ge r (acc * 10 + (c - 48))%N). lia.
    + assert (~ (max_u64 < acc * 10 + (c - 48))%N).
      { intro X. apply sat_test in X; [|lia]. congruence. }
      apply IH; [exact R | lia].
Qed.

Theorem b10_digits : forall p, all_digits p = true ->
  byte_to_base10 p = Some (N.min (dec_value p) max_u64).
Proof. intros p H. apply b10_from_digits; [exact H | unfold max_u64; lia]. Qed.

(* leading zeros do not change the value: any number of them *)
Lemma dec_value_leading_zeros : forall k p, dec_value (repeat 48%N k ++ p) = dec_value p.
Proof.
  unfold dec_value. induction k as [|k IH]; intro p; cbn; [reflexivity|apply IH].
Qed.

Lemma all_digits_leading_zeros : forall k p,
  all_digits (repeat 48%N k ++ p) = all_digits p.
Proof. induction k as [|k IH]; intro p; cbn; [reflexivity|apply IH]. Qed.

(* ------------------------------------------------------------------ ms -> Duration *)
Definition ms_ns (p : bytes) : Z := (Z.of_N (dec_value p) * ns_per_ms)%Z.

Lemma ms_to_duration_spec : forall n,
  ms_to_duration n = Z.min (Z.of_N n * ns_per_ms) max_i64.
Proof.
  intro n. unfold ms_to_duration, max_i64, ns_per_ms.
  change (9223372036854775807 / 1000000)%Z with 9223372036854%Z.
  destruct (Z.of_N n >? 9223372036854)%Z eqn:E; lia.
Qed.

Lemma ms_to_duration_min : forall v,
  ms_to_duration (N.min v max_u64) = Z.min (Z.of_N v * ns_per_ms) max_i64.
Proof.
  intro v. rewrite ms_to_duration_spec. rewrite N2Z.inj_min.
  unfold max_u64, max_i64, ns_per_ms. lia.
Qed.

(* ------------------------------------------------------------------ REQ *)
Theorem req_param_spec : forall max_req p, (0 <= max_req <= max_i64)%Z ->
  req_param max_req p =
    if all_digits p then ReqDelay (Z.min (ms_ns p) max_req) else ReqInvalid.
Proof.
  intros max_req p H. unfold req_param, ms_ns.
  destruct (all_digits p) eqn:D.
  - rewrite (b10_digits p D), ms_to_duration_min. f_equal.
    unfold max_i64, ns_per_ms in *.
    set (v := Z.of_N (dec_value p)). assert (0 <= v)%Z by (subst v; lia).
    destruct (Z.min (v * 1000000) 9223372036854775807 <? 0)%Z eqn:A; [lia|].
    destruct (Z.min (v * 1000000) 9223372036854775807 >? max_req)%Z eqn:B; lia.
  - apply b10_none_iff in D. rewrite D. reflexivity.
Qed.

(* ------------------------------------------------------------------ DPUB *)
(* NB: stated for max_req < max_i64.  At max_req = max_i64 (MaxReqTimeout = math.MaxInt64 ns,
   about 292 years) the saturated Duration is indistinguishable from a legitimate maximum:
   see [dpub_edge_at_max_i64] below. *)
Theorem dpub_param_spec : forall max_req p, (0 <= max_req < max_i64)%Z ->
  dpub_param max_req p =
    if all_digits p && (ms_ns p <=? max_req)%Z then DpubDelay (ms_ns p) else DpubInvalid.
Proof.
  intros max_req p H. unfold dpub_param, ms_ns.
  destruct (all_digits p) eqn:D; cbn [andb].
  - rewrite (b10_digits p D), ms_to_duration_min.
    unfold max_i64, ns_per_ms in *.
    set (v := Z.of_N (dec_value p)). assert (0 <= v)%Z by (subst v; lia).
    destruct (v * 1000000 <=? max_req)%Z eqn:E;
    destruct (Z.min (v * 1000000) 9223372036854775807 <? 0)%Z eqn:A;
    destruct (Z.min (v * 1000000) 9223372036854775807 >? max_req)%Z eqn:B;
    cbn [orb]; try lia; try reflexivity.
    all: try (f_equal; lia). all: try (exfalso; lia).
  - apply b10_none_iff in D. rewrite D. reflexivity.
Qed.

(* ------------------------------------------------------------------ HTTP defer *)
Theorem http_defer_spec : forall max_req parsed, (0 <= max_req < max_i64)%Z ->
  http_defer max_req parsed =
    match parsed with
    | None => DpubInvalid
    | Some di => if ((0 <=? di) && (di * ns_per_ms <=? max_req))%Z
                 then DpubDelay (di * ns_per_ms) else DpubInvalid
    end.
Proof.
  intros max_req [di|] H; [|reflexivity]. unfold http_defer.
  destruct (di <? 0)%Z eqn:N0.
  - replace (0 <=? di)%Z with false by lia. reflexivity.
  - replace (0 <=? di)%Z with true by lia. cbn [andb].
    rewrite ms_to_duration_spec. rewrite Z2N.id by lia.
    unfold max_i64, ns_per_ms in *.
    destruct (di * 1000000 <=? max_req)%Z eqn:E;
    destruct (Z.min (di * 1000000) 9223372036854775807 <? 0)%Z eqn:A;
    destruct (Z.min (di * 1000000) 9223372036854775807 >? max_req)%Z eqn:B;
    cbn [orb]; try lia; try reflexivity.
    all: try (f_equal; lia). all: try (exfalso; lia).
Qed.

(* ------------------------------------------------------------------ RDY *)
Theorem rdy_param_spec : forall max_rdy p, (0 <= max_rdy <= max_i64)%Z ->
  rdy_param max_rdy p =
    if all_digits p && (Z.of_N (dec_value p) <=? max_rdy)%Z
    then RdyOk (Z.of_N (dec_value p)) else RdyInvalid.
Proof.
  intros max_rdy p H. unfold rdy_param.
  destruct (all_digits p) eqn:D; cbn [andb].
  - rewrite (b10_digits p D). unfold u64_to_i64. rewrite N2Z.inj_min.
    unfold max_u64, max_i64, two64Z in *.
    change (Z.of_N 18446744073709551615) with 18446744073709551615%Z.
    set (v := Z.of_N (dec_value p)).
    assert (0 <= v)%Z by (subst v; lia).
    set (m := Z.min v 18446744073709551615).
    assert (M : m = Z.min v 18446744073709551615) by reflexivity. clearbody m.
    destruct (m <=? 9223372036854775807)%Z eqn:F.
    + destruct (v <=? max_rdy)%Z eqn:E;
      destruct (m <? 0)%Z eqn:A; destruct (m >? max_rdy)%Z eqn:B;
      cbn [orb]; try lia; try reflexivity.
      all: try (f_equal; lia). all: try (exfalso; lia).
    + destruct (v <=? max_rdy)%Z eqn:E;
      destruct (m - 18446744073709551616 <? 0)%Z eqn:A;
      destruct (m - 18446744073709551616 >? max_rdy)%Z eqn:B;
      cbn [orb]; try lia; try reflexivity.
  - apply b10_none_iff in D. rewrite D. reflexivity.
Qed.

(* an accepted REQ / DPUB / defer / RDY value is always in range *)
Corollary req_delay_in_range : forall max_req p d, (0 <= max_req <= max_i64)%Z ->
  req_param max_req p = ReqDelay d -> (0 <= d <= max_req)%Z.
Proof.
  intros max_req p d H E. rewrite req_param_spec in E by exact H.
  destruct (all_digits p); [|discriminate]. injection E as <-. unfold ms_ns, ns_per_ms. lia.
Qed.

Corollary dpub_delay_in_range : forall max_req p d, (0 <= max_req < max_i64)%Z ->
  dpub_param max_req p = DpubDelay d -> (0 <= d <= max_req)%Z /\ d = ms_ns p.
Proof.
  intros max_req p d H E. rewrite dpub_param_spec in E by exact H.
  destruct (all_digits p && (ms_ns p <=? max_req)%Z) eqn:C; [|discriminate].
  injection E as <-. unfold ms_ns, ns_per_ms in *. lia.
Qed.

(* the one configuration excluded above: with max_req = max_i64 a delay whose value in ns
   exceeds max_req is accepted (as max_i64 ns) *)
Lemma dpub_edge_at_max_i64 :
  let p := [57;50;50;51;51;55;50;48;51;54;56;53;53]%N (* "9223372036855" *) in
  (ms_ns p > max_i64)%Z /\ dpub_param max_i64 p = DpubDelay max_i64.
Proof. vm_compute. split; reflexivity. Qed.

Theorem leading_zeros_irrelevant : forall k p,
  dec_value (repeat 48%N k ++ p) = dec_value p /\
  all_digits (repeat 48%N k ++ p) = all_digits p.
Proof. intros. split; [apply dec_value_leading_zeros | apply all_digits_leading_zeros]. Qed.
