(* C02: exclusive ownership.  With fresh message ids (C12), on every channel each id
   occurs at most once among {queued, in flight, deferred, finished, emptied, dropped},
   and never both on a channel and in its topic's queue.  Proved by counting. *)
From Coq Require Import List ListDec NArith ZArith Bool Lia Permutation.
From RecordUpdate Require Import RecordUpdate.
From NSQV Require Import model.Core proofs.CoreBase proofs.CoreOwes proofs.CoreTopicInv.
Import ListNotations.
Open Scope N_scope.

Definition cnt (x : N) (l : list N) : nat := count_occ N.eq_dec l x.
Definition cs (x : N) (ch : chan) : nat := cnt x (seen ch).
Definition tqids (tp : topic) : list N := map m_id (t_queue tp).

Lemma cnt_app x l l' : cnt x (l ++ l') = (cnt x l + cnt x l')%nat.
Proof. apply count_occ_app. Qed.
Lemma cnt_cons x y l : cnt x (y :: l) = ((if N.eq_dec y x then 1 else 0) + cnt x l)%nat.
Proof. unfold cnt. cbn. destruct (N.eq_dec y x); reflexivity. Qed.
Lemma cnt_nil x : cnt x [] = 0%nat.
Proof. reflexivity. Qed.

(* counting through the two removal functions *)
Lemma remove_msg_cnt id q m q' : remove_msg id q = Some (m, q') ->
  forall x, cnt x (map m_id q) = ((if N.eq_dec (m_id m) x then 1 else 0) + cnt x (map m_id q'))%nat.
Proof.
  revert m q'. induction q as [|a q IH]; intros m q' H x; cbn in H; [discriminate|].
  destruct (m_id a =? id).
  - inversion H; subst. cbn [map]. apply cnt_cons.
  - destruct (remove_msg id q) as [[z r]|] eqn:E; [|discriminate]. inversion H; subst.
    cbn [map]. rewrite !cnt_cons. rewrite (IH _ _ eq_refl x). lia.
Qed.

Lemma remove_ifl_cnt id l e l' : remove_ifl id l = Some (e, l') ->
  forall x, cnt x (map (fun e => m_id (i_msg e)) l)
          = ((if N.eq_dec (m_id (i_msg e)) x then 1 else 0) + cnt x (map (fun e => m_id (i_msg e)) l'))%nat.
Proof.
  revert e l'. induction l as [|a l IH]; intros e l' H x; cbn in H; [discriminate|].
  destruct (m_id (i_msg a) =? id).
  - inversion H; subst. cbn [map]. apply cnt_cons.
  - destruct (remove_ifl id l) as [[z r]|] eqn:E; [|discriminate]. inversion H; subst.
    cbn [map]. rewrite !cnt_cons. rewrite (IH _ _ eq_refl x). lia.
Qed.

Arguments cnt : simpl never.
Ltac cs_unfold := unfold cs, seen in *; cbn in *;
                  repeat rewrite ?cnt_app, ?cnt_cons, ?cnt_nil, ?map_app in *; cbn in *;
                  repeat rewrite ?cnt_app, ?cnt_cons, ?cnt_nil in *;
                  repeat match goal with
                         | |- context [N.eq_dec ?a ?b] => destruct (N.eq_dec a b)
                         | H : context [N.eq_dec ?a ?b] |- _ => destruct (N.eq_dec a b)
                         end; subst; try congruence.

Lemma cs_put cfg m ch x : cs x (chan_put cfg m ch) = ((if N.eq_dec (m_id m) x then 1 else 0) + cs x ch)%nat.
Proof. unfold chan_put. destruct (c_eph ch && _); cs_unfold; lia. Qed.

(* a channel transformer that only moves ids around *)
Definition CntQ (f : chan -> chan) : Prop := forall ch x, cs x (f ch) = cs x ch.

Lemma CntQ_clients g : CntQ (fun ch => ch <| c_clients ::= g |>).
Proof. intros ch x. reflexivity. Qed.
Lemma CntQ_paused p : CntQ (fun ch => ch <| c_paused := p |>).
Proof. intros ch x. reflexivity. Qed.

Lemma CntQ_deliver k id dl now : CntQ (ch_deliver k id dl now).
Proof.
  intros ch x. unfold ch_deliver. destruct (remove_msg id (c_queue ch)) as [[m q']|] eqn:E; [|reflexivity].
  pose proof (remove_msg_cnt _ _ _ _ E x) as H. cs_unfold; lia.
Qed.

Lemma CntQ_fin k id : CntQ (ch_fin k id).
Proof.
  intros ch x. unfold ch_fin. destruct (remove_ifl id (c_ifl ch)) as [[e l']|] eqn:E; [|reflexivity].
  destruct (i_cid e =? k); [|reflexivity].
  pose proof (remove_ifl_cnt _ _ _ _ E x) as H.
  destruct (remove_ifl_ids _ _ _ _ E) as [Hid _]. cs_unfold; try rewrite Hid in *; cs_unfold; lia.
Qed.

Lemma CntQ_req cfg k id d now : CntQ (ch_req cfg k id d now).
Proof.
  intros ch x. unfold ch_req. destruct (remove_ifl id (c_ifl ch)) as [[e l']|] eqn:E; [|reflexivity].
  destruct (i_cid e =? k); [|reflexivity].
  pose proof (remove_ifl_cnt _ _ _ _ E x) as H.
  destruct (d =? 0)%Z.
  - rewrite cs_put. cs_unfold; lia.
  - cs_unfold; lia.
Qed.

Lemma CntQ_touch cfg k id now tmo : CntQ (ch_touch cfg k id now tmo).
Proof.
  intros ch x. unfold ch_touch. destruct (remove_ifl id (c_ifl ch)) as [[e l']|] eqn:E; [|reflexivity].
  destruct (i_cid e =? k); [|reflexivity].
  pose proof (remove_ifl_cnt _ _ _ _ E x) as H. cs_unfold; lia.
Qed.

Lemma CntQ_empty : CntQ ch_empty.
Proof. intros ch x. unfold ch_empty. cs_unfold; lia. Qed.

Lemma partition_cnt {A} (p : A -> bool) (g : A -> N) (l : list A) x :
  cnt x (map g l) = (cnt x (map g (fst (partition p l))) + cnt x (map g (snd (partition p l))))%nat.
Proof.
  induction l as [|a l IH]; cbn; [reflexivity|].
  destruct (partition p l) as [y n]. cbn [fst snd] in IH.
  destruct (p a); cbn [fst snd map]; rewrite !cnt_cons, IH; lia.
Qed.

Lemma fold_ifl_cs cfg (ex : list ifl) : forall (ch : chan) x,
  cs x (fold_left (fun (ch : chan) (e : ifl) => chan_put cfg (i_msg e) (ch <| c_timeout ::= N.succ |>)) ex ch)
  = (cnt x (map (fun e => m_id (i_msg e)) ex) + cs x ch)%nat.
Proof.
  induction ex as [|e ex IH]; intros ch x; cbn [fold_left map]; [reflexivity|].
  rewrite IH, cs_put, cnt_cons.
  match goal with |- context [cs x ?c0] => change (cs x c0) with (cs x ch) end. lia.
Qed.

Lemma fold_dfr_cs cfg (ex : list dfr) : forall (ch : chan) x,
  cs x (fold_left (fun (ch : chan) (e : dfr) => chan_put cfg (d_msg e) ch) ex ch)
  = (cnt x (map (fun e => m_id (d_msg e)) ex) + cs x ch)%nat.
Proof.
  induction ex as [|e ex IH]; intros ch x; cbn [fold_left map]; [reflexivity|].
  rewrite IH, cs_put, cnt_cons. lia.
Qed.

Lemma CntQ_scan_ifl cfg now : CntQ (ch_scan_ifl cfg now).
Proof.
  intros ch x. unfold ch_scan_ifl, expired_ifl.
  pose proof (partition_cnt (fun e => (i_deadline e <=? now)%Z) (fun e => m_id (i_msg e)) (c_ifl ch) x) as Hp.
  destruct (partition _ (c_ifl ch)) as [ex keep]. cbn [fst snd] in Hp. cbv beta iota.
  rewrite fold_ifl_cs. cs_unfold; lia.
Qed.

Lemma CntQ_scan_dfr cfg now : CntQ (ch_scan_dfr cfg now).
Proof.
  intros ch x. unfold ch_scan_dfr, expired_dfr.
  pose proof (partition_cnt (fun e => (d_release e <=? now)%Z) (fun e => m_id (d_msg e)) (c_dfr ch) x) as Hp.
  destruct (partition _ (c_dfr ch)) as [ex keep]. cbn [fst snd] in Hp. cbv beta iota.
  rewrite fold_dfr_cs. cs_unfold; lia.
Qed.

Lemma cs_receive cfg now m ch x :
  cs x (chan_receive cfg now m ch) = ((if N.eq_dec (m_id m) x then 1 else 0) + cs x ch)%nat.
Proof.
  unfold chan_receive. destruct (m_defer m =? 0)%Z.
  - rewrite cs_put. reflexivity.
  - cs_unfold; lia.
Qed.

Lemma fold_receive_cs cfg now (q : list msg) : forall ch x,
  cs x (fold_left (fun ch m => chan_receive cfg now m ch) q ch) = (cnt x (map m_id q) + cs x ch)%nat.
Proof.
  induction q as [|m q IH]; intros ch x; cbn [fold_left map]; [reflexivity|].
  rewrite IH, cs_receive, cnt_cons. lia.
Qed.

(* ---------- the topic-level invariant ---------- *)
Definition UniqueTopic (tp : topic) : Prop :=
  (forall x, (cnt x (tqids tp) <= 1)%nat) /\
  Forall (fun ch => forall x, (cnt x (tqids tp) + cs x ch <= 1)%nat) (t_chans tp).

(* ids about to be published are new to the topic *)
Definition fresh_for (ids : list N) (tp : topic) : Prop :=
  NoDup ids /\ forall x, In x ids -> cnt x (tqids tp) = 0%nat /\ Forall (fun ch => cs x ch = 0%nat) (t_chans tp).

Lemma UT_chan tp c f : CntQ f -> UniqueTopic tp -> UniqueTopic (upd_chan_in tp c f).
Proof.
  intros HQ [H1 H2]. unfold UniqueTopic, upd_chan_in, tqids. cbn. split; [exact H1|].
  apply Forall_map_if; [exact H2|]. intros ch Hch _ x. rewrite HQ. apply Hch.
Qed.

Lemma UT_pump cfg now tp : UniqueTopic tp -> UniqueTopic (pump cfg now tp).
Proof.
  intros [H1 H2]. unfold pump. destruct (t_paused tp); [split; assumption|].
  destruct (t_chans tp) as [|c0 cl] eqn:E; [rewrite <- E in H2; split; assumption|].
  unfold UniqueTopic, tqids. cbn. split; [intros x; rewrite cnt_nil; lia|]. rewrite E.
  rewrite Forall_forall in *. intros ch' Hin. apply in_map_iff in Hin. destruct Hin as [ch [<- Hin]].
  intros x. rewrite cnt_nil, fold_receive_cs. specialize (H2 ch Hin x). unfold tqids in H2. lia.
Qed.

Lemma UT_new t eph : UniqueTopic (new_topic t eph).
Proof. split; [intros x; unfold tqids; cbn; rewrite cnt_nil; lia|constructor]. Qed.

Lemma UT_paused tp p : UniqueTopic tp -> UniqueTopic (tp <| t_paused := p |>).
Proof. intros H. exact H. Qed.

Lemma UT_emptyq tp : UniqueTopic tp -> UniqueTopic (tp <| t_queue := [] |> <| t_mem := 0 |>).
Proof.
  intros [H1 H2]. unfold UniqueTopic, tqids. cbn. split; [intros x; rewrite cnt_nil; lia|].
  eapply Forall_impl; [|exact H2]. cbn. intros ch Hch x. specialize (Hch x). unfold tqids in Hch. rewrite cnt_nil. lia.
Qed.

Lemma UT_filter tp p : UniqueTopic tp -> UniqueTopic (tp <| t_chans ::= filter p |>).
Proof. intros [H1 H2]. split; [exact H1|]. cbn. apply Forall_filter. exact H2. Qed.

Lemma UT_add_chan tp c eph : find_chan tp c = None -> UniqueTopic tp ->
  UniqueTopic (tp <| t_chans ::= fun l => l ++ [new_chan c eph] |>).
Proof.
  intros _ [H1 H2]. split; [exact H1|]. cbn. apply Forall_app_one; [exact H2|].
  intros x. unfold cs, seen. cbn. rewrite cnt_nil. specialize (H1 x). unfold tqids in *. cbn in *. lia.
Qed.

Lemma UT_counts tp n b : UniqueTopic tp -> UniqueTopic (tp <| t_msgcount ::= N.add n |> <| t_bytes ::= N.add b |>).
Proof. intros H. exact H. Qed.

Lemma topic_put_tq cfg m tp x :
  t_chans (topic_put cfg m tp) = t_chans tp /\
  (cnt x (tqids (topic_put cfg m tp)) <= cnt x (tqids tp) + (if N.eq_dec (m_id m) x then 1 else 0))%nat.
Proof.
  unfold topic_put. destruct (pump_runs tp); [|destruct (t_mem tp <? memcap cfg); [|destruct (t_eph tp)]];
    unfold tqids; cbn; rewrite ?map_app, ?cnt_app; cbn; rewrite ?cnt_cons, ?cnt_nil; split; try reflexivity; lia.
Qed.

Lemma UT_pub cfg defer ids : forall tp, fresh_for ids tp -> UniqueTopic tp ->
  UniqueTopic (fold_left (fun tp id => topic_put cfg (mkMsg id 0 defer) tp) ids tp).
Proof.
  induction ids as [|i ids IH]; intros tp [Hnd Hfresh] HU; cbn [fold_left]; [exact HU|].
  apply IH.
  - (* the remaining ids are still fresh after putting i *)
    inversion Hnd as [|? ? Hni Hnd']; subst. split; [exact Hnd'|].
    intros x Hx. destruct (Hfresh x (or_intror Hx)) as [F1 F2].
    destruct (topic_put_tq cfg (mkMsg i 0 defer) tp x) as [Hc Hq]. rewrite Hc. split; [|exact F2].
    cbn [m_id] in Hq. destruct (N.eq_dec i x) as [->|]; [contradiction|]. lia.
  - (* uniqueness after putting i *)
    destruct HU as [H1 H2]. destruct (Hfresh i (or_introl eq_refl)) as [F1 F2].
    split.
    + intros x. destruct (topic_put_tq cfg (mkMsg i 0 defer) tp x) as [_ Hq]. cbn [m_id] in Hq.
      destruct (N.eq_dec i x) as [->|]; [lia|]. specialize (H1 x). lia.
    + destruct (topic_put_tq cfg (mkMsg i 0 defer) tp i) as [Hc _]. rewrite Hc.
      rewrite Forall_forall in *. intros ch Hin x.
      destruct (topic_put_tq cfg (mkMsg i 0 defer) tp x) as [_ Hq]. cbn [m_id] in Hq.
      destruct (N.eq_dec i x) as [->|]; [specialize (F2 ch Hin); lia|]. specialize (H2 ch Hin x). lia.
Qed.

Theorem unique_step cfg s o :
  pub_ok fresh_for s o -> AllTopics UniqueTopic s -> AllTopics UniqueTopic (fst (step cfg s o)).
Proof.
  apply (step_AllTopics cfg UniqueTopic CntQ).
  - apply CntQ_clients.
  - apply CntQ_paused.
  - apply CntQ_deliver.
  - apply CntQ_fin.
  - apply CntQ_req.
  - apply CntQ_touch.
  - apply CntQ_empty.
  - apply CntQ_scan_ifl.
  - apply CntQ_scan_dfr.
  - apply UT_new.
  - apply UT_chan.
  - apply UT_pump.
  - apply UT_paused.
  - apply UT_emptyq.
  - apply UT_filter.
  - apply UT_add_chan.
  - apply UT_counts.
  - intros defer ids tp. apply UT_pub.
Qed.

(* ---------- every id in the state has been issued ---------- *)
Definition Known (issued : list N) (tp : topic) : Prop :=
  (forall x, (0 < cnt x (tqids tp))%nat -> In x issued) /\
  Forall (fun ch => forall x, (0 < cs x ch)%nat -> In x issued) (t_chans tp).

Lemma Known_mono issued issued' tp : incl issued issued' -> Known issued tp -> Known issued' tp.
Proof.
  intros Hi [H1 H2]. split; [intros x Hx; apply Hi, H1, Hx|].
  eapply Forall_impl; [|exact H2]. cbn. intros ch Hch x Hx. apply Hi, Hch, Hx.
Qed.

Lemma KN_chan issued tp c f : CntQ f -> Known issued tp -> Known issued (upd_chan_in tp c f).
Proof.
  intros HQ [H1 H2]. split; [exact H1|]. unfold upd_chan_in. cbn.
  apply Forall_map_if; [exact H2|]. intros ch Hch _ x. rewrite HQ. apply Hch.
Qed.

Lemma KN_pump issued cfg now tp : Known issued tp -> Known issued (pump cfg now tp).
Proof.
  intros [H1 H2]. unfold pump. destruct (t_paused tp); [split; assumption|].
  destruct (t_chans tp) as [|c0 cl] eqn:E; [rewrite <- E in H2; split; assumption|].
  unfold Known, tqids. cbn. split; [intros x Hx; rewrite cnt_nil in Hx; lia|]. rewrite E.
  rewrite Forall_forall in *. intros ch' Hin. apply in_map_iff in Hin. destruct Hin as [ch [<- Hin]].
  intros x. rewrite fold_receive_cs. intros Hx.
  destruct (Nat.eq_dec (cnt x (map m_id (t_queue tp))) 0) as [Z|NZ].
  - apply (H2 ch Hin x). lia.
  - apply H1. unfold tqids. lia.
Qed.

Lemma KN_pub issued cfg defer ids : forall tp, incl ids issued -> Known issued tp ->
  Known issued (fold_left (fun tp id => topic_put cfg (mkMsg id 0 defer) tp) ids tp).
Proof.
  induction ids as [|i ids IH]; intros tp Hi HK; cbn [fold_left]; [exact HK|].
  apply IH; [intros y Hy; apply Hi; right; exact Hy|].
  destruct HK as [H1 H2]. split.
  - intros x Hx. destruct (topic_put_tq cfg (mkMsg i 0 defer) tp x) as [_ Hq]. cbn [m_id] in Hq.
    destruct (N.eq_dec i x) as [<-|]; [apply Hi; left; reflexivity|]. apply H1. lia.
  - destruct (topic_put_tq cfg (mkMsg i 0 defer) tp i) as [Hc _]. rewrite Hc. exact H2.
Qed.

Theorem known_step cfg issued s o :
  (match o with OPub _ _ ids _ _ _ => incl ids issued | _ => True end) ->
  AllTopics (Known issued) s -> AllTopics (Known issued) (fst (step cfg s o)).
Proof.
  intros Ho. apply (step_AllTopics cfg (Known issued) CntQ) with (okpub := fun ids _ => incl ids issued).
  - apply CntQ_clients.
  - apply CntQ_paused.
  - apply CntQ_deliver.
  - apply CntQ_fin.
  - apply CntQ_req.
  - apply CntQ_touch.
  - apply CntQ_empty.
  - apply CntQ_scan_ifl.
  - apply CntQ_scan_dfr.
  - intros t eph. split; [intros x Hx; unfold tqids in Hx; cbn in Hx; rewrite cnt_nil in Hx; lia|constructor].
  - intros tp c f. apply KN_chan.
  - intros now tp. apply KN_pump.
  - intros tp p H. exact H.
  - intros tp [H1 H2]. split; [intros x Hx; unfold tqids in Hx; cbn in Hx; rewrite cnt_nil in Hx; lia|exact H2].
  - intros tp p [H1 H2]. split; [exact H1|]. cbn. apply Forall_filter, H2.
  - intros tp c eph _ [H1 H2]. split; [exact H1|]. cbn. apply Forall_app_one; [exact H2|].
    intros x Hx. unfold cs, seen in Hx. cbn in Hx. rewrite cnt_nil in Hx. lia.
  - intros tp n b H. exact H.
  - intros defer ids tp Hi. apply KN_pub. exact Hi.
  - destruct o; cbn; try exact I. intros tp _ _. exact Ho.
Qed.

(* ---------- histories with fresh ids ---------- *)
Fixpoint nodupb (l : list N) : bool :=
  match l with
  | [] => true
  | x :: r => negb (existsb (N.eqb x) r) && nodupb r
  end.

Lemma nodupb_NoDup l : nodupb l = true -> NoDup l.
Proof.
  induction l as [|x r IH]; cbn; intros H; constructor.
  - apply andb_prop in H. destruct H as [H _]. apply negb_true_iff in H. intros Hin.
    assert (existsb (N.eqb x) r = true) by (apply existsb_exists; exists x; split; [exact Hin|apply N.eqb_refl]). congruence.
  - apply andb_prop in H. destruct H as [_ H]. apply IH, H.
Qed.

Fixpoint fresh_history (issued : list N) (ops : list op) : bool :=
  match ops with
  | [] => true
  | o :: rest =>
      match o with
      | OPub _ _ ids _ _ _ =>
          nodupb ids
          && forallb (fun x => negb (existsb (N.eqb x) issued)) ids
          && fresh_history (ids ++ issued) rest
      | _ => fresh_history issued rest
      end
  end.

Lemma not_issued_cnt issued tp x :
  Known issued tp -> ~ In x issued -> cnt x (tqids tp) = 0%nat /\ Forall (fun ch => cs x ch = 0%nat) (t_chans tp).
Proof.
  intros [H1 H2] Hn. split.
  - destruct (cnt x (tqids tp)) eqn:E; [reflexivity|]. exfalso. apply Hn, H1. lia.
  - eapply Forall_impl; [|exact H2]. cbn. intros ch Hch.
    destruct (cs x ch) eqn:E; [reflexivity|]. exfalso. apply Hn, Hch. lia.
Qed.

Theorem unique_history cfg : forall ops issued s,
  fresh_history issued ops = true ->
  AllTopics UniqueTopic s -> AllTopics (Known issued) s ->
  AllTopics UniqueTopic (run cfg s ops).
Proof.
  induction ops as [|o ops IH]; intros issued s Hf HU HK; cbn [run fold_left]; [exact HU|].
  change (fold_left (fun s o => fst (step cfg s o)) ops (fst (step cfg s o))) with (run cfg (fst (step cfg s o)) ops).
  destruct o; cbn [fresh_history] in Hf;
    try (apply (IH issued); [exact Hf|apply unique_step; [exact I|exact HU]|apply known_step; [exact I|exact HK]]).
  (* OPub *)
  apply andb_prop in Hf. destruct Hf as [Hf Hrest]. apply andb_prop in Hf. destruct Hf as [Hnd Hnew].
  apply (IH (ids ++ issued)); [exact Hrest| |].
  - apply unique_step; [|exact HU]. cbn. intros tp Hin Ht.
    split; [apply nodupb_NoDup, Hnd|].
    intros x Hx. rewrite forallb_forall in Hnew. specialize (Hnew x Hx). apply negb_true_iff in Hnew.
    assert (Hni : ~ In x issued).
    { intros Hi. assert (existsb (N.eqb x) issued = true) by (apply existsb_exists; exists x; split; [exact Hi|apply N.eqb_refl]). congruence. }
    assert (HKe : AllTopics (Known issued) (ensure_topic s t teph)).
    { unfold ensure_topic. destruct (find_topic s t); [exact HK|]. unfold AllTopics. cbn.
      apply Forall_app_one; [exact HK|]. split; [intros y Hy; unfold tqids in Hy; cbn in Hy; rewrite cnt_nil in Hy; lia|constructor]. }
    unfold AllTopics in HKe. rewrite Forall_forall in HKe. apply (not_issued_cnt issued tp x (HKe tp Hin) Hni).
  - apply known_step; [cbn; apply incl_appl, incl_refl|].
    unfold AllTopics in *. eapply Forall_impl; [|exact HK]. cbn. intros tp. apply Known_mono. apply incl_appr, incl_refl.
Qed.

Theorem unique_reachable cfg ops : fresh_history [] ops = true -> AllTopics UniqueTopic (run cfg init ops).
Proof. intros H. apply (unique_history cfg ops [] init H); constructor. Qed.

(* ---------- what uniqueness means ---------- *)
Lemma cnt_le1_NoDup l : (forall x, (cnt x l <= 1)%nat) -> NoDup l.
Proof. intros H. apply (NoDup_count_occ N.eq_dec). exact H. Qed.

Lemma cnt_pos_in x l : In x l -> (0 < cnt x l)%nat.
Proof. intros H. apply (count_occ_In N.eq_dec). exact H. Qed.

Theorem unique_meaning tp ch : UniqueTopic tp -> In ch (t_chans tp) ->
  NoDup (map (fun e => m_id (i_msg e)) (c_ifl ch)) /\
  (forall e, In e (c_ifl ch) -> ~ In (m_id (i_msg e)) (map m_id (c_queue ch)) /\ ~ In (m_id (i_msg e)) (c_fin ch)) /\
  (forall m, In m (c_queue ch) -> ~ In (m_id m) (c_fin ch)).
Proof.
  intros [_ H2] Hin. rewrite Forall_forall in H2. specialize (H2 ch Hin).
  assert (Hs : forall x, (cs x ch <= 1)%nat) by (intros x; specialize (H2 x); lia).
  split; [|split].
  - apply cnt_le1_NoDup. intros x. specialize (Hs x). cs_unfold; lia.
  - intros e He. assert (Hp := cnt_pos_in _ _ (in_map (fun e => m_id (i_msg e)) _ _ He)).
    specialize (Hs (m_id (i_msg e))). split; intros Hx; apply cnt_pos_in in Hx; cs_unfold; lia.
  - intros m Hm Hx. assert (Hp := cnt_pos_in _ _ (in_map m_id _ _ Hm)). apply cnt_pos_in in Hx.
    specialize (Hs (m_id m)). cs_unfold; lia.
Qed.
