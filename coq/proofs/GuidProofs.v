(* Proofs about model/Guid.v (C12). *)
From Coq Require Import List ZArith Bool Lia.
From NSQV Require Import gen.Consts model.Guid.
Import ListNotations.
Open Scope Z_scope.

(* ---------- strictly increasing ids, for every clock stream ---------- *)

Fixpoint StrictInc (lo : Z) (l : list Z) : Prop :=
  match l with
  | [] => True
  | x :: r => lo < x /\ StrictInc x r
  end.

Lemma StrictInc_weaken lo lo' l : lo' <= lo -> StrictInc lo l -> StrictInc lo' l.
Proof. destruct l as [|x r]; cbn; [auto|]. intros H [H1 H2]. split; [lia|assumption]. Qed.

Lemma new_guid_cases s ts :
  let '(s', r) := new_guid s ts in
  g_node s' = g_node s /\
  match r with
  | GId id => g_lastid s < id /\ g_lastid s' = id
  | _ => g_lastid s' = g_lastid s
  end.
Proof.
  unfold new_guid.
  destruct (ts <? g_lastts s); [cbn; auto|].
  destruct ((g_lastts s =? ts) && _) eqn:E; [cbn; auto|].
  match goal with |- context [?a <=? ?b] => destruct (Z.leb_spec a b) end; cbn.
  - auto.
  - split; [reflexivity|]. split; [lia|reflexivity].
Qed.

Lemma new_guid_lastid_mono s ts : g_lastid s <= g_lastid (fst (new_guid s ts)).
Proof.
  pose proof (new_guid_cases s ts) as H. destruct (new_guid s ts) as [s' r]. cbn.
  destruct H as [_ H]. destruct r; lia.
Qed.

Theorem calls_strict s clock : StrictInc (g_lastid s) (ids_of (calls s clock)).
Proof.
  revert s. induction clock as [|ts rest IH]; intros s; cbn; [exact I|].
  pose proof (new_guid_cases s ts) as H. destruct (new_guid s ts) as [s' r].
  destruct H as [_ H]. specialize (IH s'). cbn [ids_of flat_map].
  destruct r as [id| | |]; cbn [app].
  - destruct H as [Hlt Heq]. cbn. split; [assumption|]. rewrite <- Heq. exact IH.
  - rewrite H in IH. exact IH.
  - rewrite H in IH. exact IH.
  - rewrite H in IH. exact IH.
Qed.

Lemma generate_id_spec s clock :
  let '(s', r, rest) := generate_id s clock in
  g_lastid s <= g_lastid s' /\
  match r with Some id => g_lastid s < id /\ g_lastid s' = id | None => True end.
Proof.
  revert s. induction clock as [|ts rest IH]; intros s; cbn; [split; [lia|exact I]|].
  pose proof (new_guid_cases s ts) as H. destruct (new_guid s ts) as [s1 r]. destruct H as [_ H].
  destruct r as [id| | |].
  - destruct H as [Hlt Heq]. split; [lia|]. split; assumption.
  - specialize (IH s1). destruct (generate_id s1 rest) as [[s2 r2] rest2]. destruct IH as [Hm Hr].
    rewrite H in *. split; [assumption|]. destruct r2; [|exact I]. assumption.
  - specialize (IH s1). destruct (generate_id s1 rest) as [[s2 r2] rest2]. destruct IH as [Hm Hr].
    rewrite H in *. split; [assumption|]. destruct r2; [|exact I]. assumption.
  - specialize (IH s1). destruct (generate_id s1 rest) as [[s2 r2] rest2]. destruct IH as [Hm Hr].
    rewrite H in *. split; [assumption|]. destruct r2; [|exact I]. assumption.
Qed.

Theorem issue_strict fuel s clock : StrictInc (g_lastid s) (issue fuel s clock).
Proof.
  revert s clock. induction fuel as [|f IH]; intros s clock; cbn; [exact I|].
  pose proof (generate_id_spec s clock) as H.
  destruct (generate_id s clock) as [[s' r] rest]. destruct H as [_ H].
  destruct r as [id|]; [|exact I]. destruct H as [Hlt Heq]. cbn. split; [assumption|].
  rewrite <- Heq. apply IH.
Qed.

Lemma StrictInc_lower lo l : StrictInc lo l -> Forall (fun x => lo < x) l.
Proof.
  revert lo. induction l as [|x r IH]; intros lo H; constructor.
  - destruct H; assumption.
  - destruct H as [H1 H2]. specialize (IH x H2).
    eapply Forall_impl; [|exact IH]. cbn. intros; lia.
Qed.

Lemma StrictInc_NoDup lo l : StrictInc lo l -> NoDup l.
Proof.
  revert lo. induction l as [|x r IH]; intros lo H; constructor.
  - destruct H as [_ H2]. apply StrictInc_lower in H2. intros Hin.
    rewrite Forall_forall in H2. specialize (H2 x Hin). lia.
  - destruct H as [_ H2]. eapply IH; eassumption.
Qed.

Theorem issue_NoDup fuel s clock : NoDup (issue fuel s clock).
Proof. eapply StrictInc_NoDup. apply issue_strict. Qed.

Theorem error_keeps_lastid s ts :
  match snd (new_guid s ts) with
  | GId _ => True
  | _ => g_lastid (fst (new_guid s ts)) = g_lastid s
  end.
Proof.
  pose proof (new_guid_cases s ts) as H. destruct (new_guid s ts) as [s' r]. cbn.
  destruct H as [_ H]. destruct r; auto.
Qed.

(* ---------- bit layout ---------- *)

Definition layout (ts node seq : Z) : Z := (ts - nsqd_twepoch) * 4194304 + node * 4096 + seq.

Lemma wrap64_small z : - two63 <= z < two63 -> wrap64 z = z.
Proof.
  unfold wrap64, two63, two64. intros H.
  destruct (Z_lt_le_dec z 0).
  - replace (z mod 18446744073709551616) with (z + 18446744073709551616).
    + destruct (Z.ltb_spec (z + 18446744073709551616) 9223372036854775808); lia.
    + apply Z.mod_unique with (q := -1); lia.
  - rewrite Z.mod_small by lia. destruct (Z.ltb_spec z 9223372036854775808); lia.
Qed.

Lemma lor_disjoint_add a b k :
  0 <= k -> 0 <= b < 2 ^ k -> Z.lor (a * 2 ^ k) b = a * 2 ^ k + b.
Proof.
  intros Hk Hb.
  assert (Hland : Z.land (a * 2 ^ k) b = 0).
  { apply Z.bits_inj'. intros n Hn. rewrite Z.land_spec, Z.bits_0.
    destruct (Z_lt_le_dec n k) as [Hlt|Hge].
    - rewrite Z.mul_pow2_bits_low by lia. reflexivity.
    - destruct (Z.eq_dec b 0) as [->|Hb0]; [rewrite Z.bits_0; apply andb_false_r|].
      rewrite (Z.bits_above_log2 b n); [apply andb_false_r|lia|].
      apply Z.log2_lt_pow2; [lia|]. apply Z.lt_le_trans with (2 ^ k); [lia|].
      apply Z.pow_le_mono_r; lia. }
  rewrite <- Z.lxor_lor by assumption. symmetry. apply Z.add_nocarry_lxor. assumption.
Qed.

Theorem mk_id_layout ts node seq :
  0 <= node < 1024 -> 0 <= seq < 4096 -> 0 <= ts - nsqd_twepoch < 2199023255552 ->
  mk_id ts node seq = layout ts node seq.
Proof.
  intros Hn Hs Ht. unfold mk_id, layout.
  unfold nsqd_timestampShift, nsqd_nodeIDShift.
  rewrite (wrap64_small (ts - nsqd_twepoch)) by (unfold two63; lia).
  rewrite !Z.shiftl_mul_pow2 by lia.
  rewrite (wrap64_small ((ts - nsqd_twepoch) * 2 ^ 22)) by (unfold two63; lia).
  rewrite (wrap64_small (node * 2 ^ 12)) by (unfold two63; lia).
  rewrite (lor_disjoint_add (ts - nsqd_twepoch) (node * 2 ^ 12) 22)
    by (change (2 ^ 12) with 4096; change (2 ^ 22) with 4194304; lia).
  replace ((ts - nsqd_twepoch) * 2 ^ 22 + node * 2 ^ 12)
    with (((ts - nsqd_twepoch) * 1024 + node) * 2 ^ 12)
    by (change (2 ^ 22) with (1024 * 2 ^ 12); ring).
  rewrite lor_disjoint_add by (change (2 ^ 12) with 4096; lia).
  change (2 ^ 12) with 4096. ring.
Qed.

(* the timestamp/sequence discipline alone orders the ids, without the lastID guard *)
Theorem layout_lex_mono ts1 seq1 ts2 seq2 node :
  0 <= seq1 < 4096 -> 0 <= seq2 < 4096 -> 0 <= node < 1024 ->
  (ts1 < ts2 \/ (ts1 = ts2 /\ seq1 < seq2)) ->
  layout ts1 node seq1 < layout ts2 node seq2.
Proof. unfold layout. intros. lia. Qed.

Lemma seq_mask_range x : 0 <= Z.land x nsqd_sequenceMask < 4096.
Proof.
  unfold nsqd_sequenceMask. change 4095 with (Z.ones 12). rewrite Z.land_ones by lia.
  change (2 ^ 12) with 4096. apply Z.mod_pos_bound. lia.
Qed.

(* ---------- progress: a later millisecond always yields an id ---------- *)

Definition in_range (ts : Z) : Prop := nsqd_twepoch < ts /\ ts - nsqd_twepoch < 2199023255552.

Definition Inv (s : gstate) : Prop :=
  0 <= g_node s < 1024 /\ 0 <= g_seq s < 4096 /\
  g_lastid s < layout (Z.max (g_lastts s + 1) (nsqd_twepoch + 1)) (g_node s) 0.

Lemma Inv_init node : 0 <= node < 1024 -> Inv (mkG node 0 0 0).
Proof. intros H. unfold Inv, layout, nsqd_twepoch. cbn [g_node g_seq g_lastts g_lastid]. lia. Qed.

Lemma layout_ts_mono a b node seq : a <= b -> layout a node seq <= layout b node seq.
Proof. unfold layout. lia. Qed.

Lemma Inv_step s ts : Inv s -> in_range ts -> Inv (fst (new_guid s ts)).
Proof.
  intros (Hn & Hs & Hl) [Hr1 Hr2]. unfold new_guid.
  destruct (Z.ltb_spec ts (g_lastts s)); [cbn [fst]; unfold Inv; auto|].
  set (seq' := if g_lastts s =? ts then Z.land (wrap64 (g_seq s + 1)) nsqd_sequenceMask else 0).
  assert (Hseq' : 0 <= seq' < 4096).
  { unfold seq'. destruct (g_lastts s =? ts); [apply seq_mask_range|lia]. }
  destruct ((g_lastts s =? ts) && (seq' =? 0)).
  - cbn [fst]. unfold Inv. cbn [g_node g_seq g_lastts g_lastid]. auto.
  - destruct (Z.leb_spec (mk_id ts (g_node s) seq') (g_lastid s)); cbn [fst]; unfold Inv;
      cbn [g_node g_seq g_lastts g_lastid].
    + split; [assumption|]. split; [assumption|].
      eapply Z.lt_le_trans; [exact Hl|]. apply layout_ts_mono. lia.
    + split; [assumption|]. split; [assumption|].
      rewrite mk_id_layout by lia. unfold layout. lia.
Qed.

Theorem progress s ts :
  Inv s -> in_range ts -> g_lastts s < ts ->
  exists id, snd (new_guid s ts) = GId id /\ id = layout ts (g_node s) 0.
Proof.
  intros (Hn & Hs & Hl) [Hr1 Hr2] Hlt. unfold new_guid.
  destruct (Z.ltb_spec ts (g_lastts s)); [lia|].
  destruct (Z.eqb_spec (g_lastts s) ts); [lia|]. cbn [andb].
  rewrite mk_id_layout by lia.
  destruct (Z.leb_spec (layout ts (g_node s) 0) (g_lastid s)) as [Hle|Hgt].
  - exfalso. assert (layout (Z.max (g_lastts s + 1) (nsqd_twepoch + 1)) (g_node s) 0 <= layout ts (g_node s) 0).
    { apply layout_ts_mono. lia. } lia.
  - eexists. split; reflexivity.
Qed.

(* ---------- Hex ---------- *)

Lemma hex_digits_length k u : length (hex_digits k u) = k.
Proof. revert u. induction k as [|k IH]; intros u; cbn; [reflexivity|]. rewrite app_length, IH. cbn. lia. Qed.

Theorem hex_length g : length (hex g) = 16%nat.
Proof. apply hex_digits_length. Qed.

Lemma hex_digit_inj a b : 0 <= a < 16 -> 0 <= b < 16 -> hex_digit a = hex_digit b -> a = b.
Proof.
  unfold hex_digit. intros Ha Hb.
  destruct (Z.ltb_spec a 10); destruct (Z.ltb_spec b 10); lia.
Qed.

Lemma hex_digits_inj k : forall u v, 0 <= u -> 0 <= v ->
  hex_digits k u = hex_digits k v -> u mod 16 ^ Z.of_nat k = v mod 16 ^ Z.of_nat k.
Proof.
  induction k as [|k IH]; intros u v Hu Hv H.
  - cbn. rewrite !Z.mod_1_r. reflexivity.
  - cbn [hex_digits] in H. apply app_inj_tail in H. destruct H as [H1 H2].
    apply hex_digit_inj in H2; try (apply Z.mod_pos_bound; lia).
    apply IH in H1; try (apply Z.div_pos; lia).
    rewrite Nat2Z.inj_succ, Z.pow_succ_r by lia.
    rewrite !Z.rem_mul_r by lia. rewrite H1, H2. reflexivity.
Qed.

Theorem hex_injective a b :
  - two63 <= a < two63 -> - two63 <= b < two63 -> hex a = hex b -> a = b.
Proof.
  unfold hex. intros Ha Hb H.
  apply hex_digits_inj in H; try (apply Z.mod_pos_bound; unfold two64; lia).
  change (16 ^ Z.of_nat 16) with two64 in H. rewrite !Z.mod_mod in H by (unfold two64; lia).
  unfold two63, two64 in *.
  assert (Ea : a mod 18446744073709551616 = if a <? 0 then a + 18446744073709551616 else a).
  { destruct (Z.ltb_spec a 0).
    - symmetry. apply Z.mod_unique with (q := -1); lia.
    - apply Z.mod_small. lia. }
  assert (Eb : b mod 18446744073709551616 = if b <? 0 then b + 18446744073709551616 else b).
  { destruct (Z.ltb_spec b 0).
    - symmetry. apply Z.mod_unique with (q := -1); lia.
    - apply Z.mod_small. lia. }
  rewrite Ea, Eb in H. destruct (Z.ltb_spec a 0); destruct (Z.ltb_spec b 0); lia.
Qed.

Theorem node_id_ok_spec id : node_id_ok id = true <-> 0 <= id < 1024.
Proof.
  unfold node_id_ok. destruct (Z.ltb_spec id 0); destruct (Z.geb_spec id 1024); cbn; split; intros; try lia; try discriminate; reflexivity.
Qed.

Definition code_of_res (r : gres) : Z :=
  match r with GId _ => 0 | GTimeBackwards => 1 | GSequenceExpired => 2 | GIDBackwards => 3 end.
