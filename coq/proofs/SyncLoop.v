(* C16 — the lookup loop: what one lookupPeer.Command does to one link under every
   fault script, what connectCallback registers, how a delivered notification changes
   a connection's registrations, and the state invariant [Inv] preserved by every
   operation of the model outside the hazard region. *)
From Coq Require Import List NArith ZArith Bool Lia Arith.
From RecordUpdate Require Import RecordUpdate.
From NSQV Require Import gen.Consts gen.SyncTab model.Judge model.Sync proofs.SyncBase proofs.SyncInv.
Import ListNotations.
Open Scope nat_scope.
Open Scope bool_scope.

Definition apply_cmds (cms : list cmd) (R : list key) : list key :=
  fold_left (fun R cm => lk_apply cm R) cms R.
Definition apply_opt (cm : option cmd) (R : list key) : list key :=
  match cm with Some x => lk_apply x R | None => R end.

(* ------------------------------------------------------------------ one exchange *)
Lemma exchange_frame c cm k :
  let k' := fst (exchange c cm k) in
  k_conf k' = k_conf k /\ l_up k' = l_up k /\ l_accept k' = l_accept k /\
  k_info k' = k_info k /\ l_http k' = l_http k.
Proof.
  unfold exchange.
  destruct (l_alive k); [destruct (l_reply k) as [|[|bs|] r]|];
  match goal with |- context [read_response_bounded c ?b] => destruct (read_response_bounded c b) end;
  try destruct (g_close c); cbn; auto.
Qed.

Lemma exchange_alive c cm k :
  g_neg c = true -> g_close c = true ->
  let k' := fst (exchange c cm k) in
  l_alive k' = true ->
  l_alive k = true /\ l_regs k' = lk_apply cm (l_regs k) /\ k_state k' = k_state k /\
  exists b, snd (exchange c cm k) = XOk b.
Proof.
  intros G1 G2. unfold exchange.
  destruct (l_alive k) eqn:A; [destruct (l_reply k) as [|[|bs|] r]|];
  match goal with |- context [read_response_bounded c ?b] =>
    pose proof (rrb_no_panic c b G1) as NP; destruct (read_response_bounded c b) end;
  rewrite ?G2; cbn; intros H; try discriminate; try congruence; eauto 6.
Qed.

Lemma send_all_frame c cms : forall k,
  let k' := fst (send_all c cms k) in
  k_conf k' = k_conf k /\ l_up k' = l_up k /\ l_accept k' = l_accept k /\ l_http k' = l_http k.
Proof.
  induction cms as [|cm r IH]; intros k; cbn; auto.
  pose proof (exchange_frame c cm k) as F. cbn in F.
  destruct (exchange c cm k) as [k1 [b| |]]; cbn in *; try tauto.
  specialize (IH k1). cbn in IH. destruct IH as (A & B & C & D). destruct F as (A' & B' & C' & _ & D').
  repeat split; congruence.
Qed.

Lemma send_all_alive c cms : forall k,
  g_neg c = true -> g_close c = true ->
  let k' := fst (send_all c cms k) in
  l_alive k' = true ->
  l_alive k = true /\ l_regs k' = apply_cmds cms (l_regs k) /\ k_state k' = k_state k /\
  exists b, snd (send_all c cms k) = XOk b.
Proof.
  induction cms as [|cm r IH]; intros k G1 G2; cbn.
  - intros H. eauto 6.
  - pose proof (exchange_alive c cm k G1 G2) as E. cbn in E.
    destruct (exchange c cm k) as [k1 [b| |]] eqn:X; cbn in *.
    + intros H. destruct (IH k1 G1 G2 H) as (A & B & S & C).
      destruct (E A) as (A' & B' & S' & _). split; auto. split; [|split; [congruence|auto]].
      rewrite B, B'. reflexivity.
    + intros H. destruct (E H) as (_ & _ & _ & b & Hb). discriminate.
    + intros H. destruct (E H) as (_ & _ & _ & b & Hb). discriminate.
Qed.

Lemma close_peer_alive k : l_alive (close_peer k) = false.
Proof. reflexivity. Qed.

Lemma callback_alive c rc k :
  g_neg c = true -> g_close c = true ->
  let k' := fst (callback c rc k) in
  l_alive k' = true ->
  l_alive k = true /\ l_regs k' = apply_cmds rc (l_regs k) /\ k_state k' = k_state k /\
  exists b, snd (callback c rc k) = XOk b.
Proof.
  intros G1 G2. unfold callback.
  pose proof (exchange_alive c CIdentify k G1 G2) as E. cbn in E.
  destruct (exchange c CIdentify k) as [k1 [b| |]] eqn:X; cbn in *.
  - destruct (bytes_eqb b einvalid_body); cbn; try discriminate.
    destruct (json_parse b) as [info|]; cbn; try discriminate.
    intros H.
    pose proof (send_all_alive c rc (k1 <| k_info ::= (fun known => known || info) |>) G1 G2) as S. cbn in S.
    destruct (S H) as (A & B & T & C). destruct (E A) as (A' & B' & T' & _).
    split; auto. split; [|split; [cbn in T; congruence|auto]]. rewrite B. cbn. rewrite B'. reflexivity.
  - intros H. destruct (E H) as (_ & _ & _ & b & Hb). discriminate.
  - intros H. destruct (E H) as (_ & _ & _ & b & Hb). discriminate.
Qed.

Lemma callback_frame c rc k :
  let k' := fst (callback c rc k) in
  k_conf k' = k_conf k /\ l_up k' = l_up k /\ l_accept k' = l_accept k /\ l_http k' = l_http k.
Proof.
  unfold callback.
  pose proof (exchange_frame c CIdentify k) as F. cbn in F.
  destruct (exchange c CIdentify k) as [k1 [b| |]]; cbn in *; try tauto.
  destruct (bytes_eqb b einvalid_body); cbn; try tauto.
  destruct (json_parse b) as [info|]; cbn; try tauto.
  pose proof (send_all_frame c rc (k1 <| k_info ::= (fun known => known || info) |>)) as S. cbn in S.
  destruct S as (A & B & C & D). destruct F as (A' & B' & C' & _ & D'). repeat split; congruence.
Qed.

Lemma connect_alive c rc k :
  g_neg c = true -> g_close c = true ->
  (l_alive k = true -> k_state k = st_connected) ->
  let k' := fst (connect c rc k) in
  l_alive k' = true ->
  (k_state k = st_connected /\ k' = k) \/
  (k_state k <> st_connected /\ l_regs k' = apply_cmds rc [] /\ k_state k' = st_connected /\
   exists b, snd (connect c rc k) = XOk b).
Proof.
  intros G1 G2 LK. unfold connect.
  destruct (Z.eqb_spec (k_state k) st_connected) as [E|E]; cbn.
  - intros _. left. auto.
  - destruct (negb (l_up k)); cbn.
    { intros H. exfalso. auto. }
    destruct (l_accept k) as [|[|] r]; cbn.
    + intros H.
      match type of H with context [callback c rc ?kk] =>
        destruct (callback_alive c rc kk G1 G2 H) as (A & B & S & C) end.
      right. cbn in *. auto.
    + intros H. exfalso. auto.
    + intros H.
      match type of H with context [callback c rc ?kk] =>
        destruct (callback_alive c rc kk G1 G2 H) as (A & B & S & C) end.
      cbn in A. exfalso. auto.
Qed.

Lemma connect_frame c rc k :
  let k' := fst (connect c rc k) in
  k_conf k' = k_conf k /\ l_up k' = l_up k /\ l_http k' = l_http k.
Proof.
  unfold connect.
  destruct (k_state k =? st_connected)%Z; cbn; auto.
  destruct (negb (l_up k)); cbn; auto.
  destruct (l_accept k) as [|[|] r]; cbn; auto;
  match goal with |- context [callback c rc ?kk] =>
    pose proof (callback_frame c rc kk) as F; cbn in F; tauto end.
Qed.

Lemma command_alive c rc cm k :
  g_neg c = true -> g_close c = true ->
  (l_alive k = true -> k_state k = st_connected) ->
  let k' := fst (command c rc cm k) in
  l_alive k' = true ->
  k_state k' = st_connected /\
  ((k_state k = st_connected /\ l_alive k = true /\ l_regs k' = apply_opt cm (l_regs k)) \/
   (k_state k <> st_connected /\ l_regs k' = apply_opt cm (apply_cmds rc []))).
Proof.
  intros G1 G2 LK. unfold command.
  pose proof (connect_alive c rc k G1 G2 LK) as CA. cbn in CA.
  destruct (connect c rc k) as [k1 r] eqn:X. cbn [fst snd] in *.
  unfold finish.
  destruct r as [b| |]; cbn.
  - destruct (Z.eqb_spec (k_state k1) st_connected) as [E1|E1]; cbn.
    + destruct cm as [x|]; cbn.
      * intros H. pose proof (exchange_alive c x k1 G1 G2 H) as (A & B & S & _).
        split; [congruence|].
        destruct (CA A) as [[E ->]|(E & B' & _)].
        -- left. auto.
        -- right. split; auto. rewrite B, B'. reflexivity.
      * intros H. split; auto.
        destruct (CA H) as [[E ->]|(E & B' & _)]; [left|right]; auto.
    + intros H. destruct (CA H) as [[E ->]|(E & B' & S' & _)]; congruence.
  - intros H. destruct (CA H) as [[E ->]|(E & B' & S' & b & Hb)]; try discriminate.
    (* an error with the peer left connected and alive cannot happen: the peer was connected before *)
    exfalso. unfold connect in X. apply Z.eqb_eq in E. rewrite E in X. inversion X.
  - intros H. destruct (CA H) as [[E ->]|(E & B' & S' & b & Hb)]; try discriminate.
    exfalso. unfold connect in X. apply Z.eqb_eq in E. rewrite E in X. inversion X.
Qed.

Lemma command_frame c rc cm k :
  let k' := fst (command c rc cm k) in
  k_conf k' = k_conf k /\ l_up k' = l_up k /\ l_http k' = l_http k.
Proof.
  unfold command. pose proof (connect_frame c rc k) as F. cbn in F.
  destruct (connect c rc k) as [k1 r]. cbn [fst snd] in *. unfold finish.
  destruct r; cbn; auto.
  destruct (k_state k1 =? st_connected)%Z; cbn; auto.
  destruct cm as [x|]; cbn; auto.
  pose proof (exchange_frame c x k1) as F'. cbn in F'. destruct F' as (A & B & _ & _ & D).
  destruct F as (A' & B' & D'). repeat split; congruence.
Qed.

(* ------------------------------------------------------------------ what connectCallback registers *)
Definition reg_keys (k : key) : list key :=
  match k with KT t => [KT t] | KC t c => [KC t c; KT t] end.

Lemma lk_apply_reg k R x : In x (lk_apply (CReg k) R) <-> In x (reg_keys k) \/ In x R.
Proof. destruct k; cbn; tauto. Qed.

Lemma apply_cmds_regs cms :
  (forall cm, In cm cms -> exists k, cm = CReg k) ->
  forall R x, In x (apply_cmds cms R) <-> In x R \/ exists k, In (CReg k) cms /\ In x (reg_keys k).
Proof.
  induction cms as [|cm r IH]; intros A R x; cbn.
  - split; auto. intros [H|(k & [] & _)]; auto.
  - destruct (A cm (or_introl eq_refl)) as (k & ->).
    unfold apply_cmds in IH. rewrite IH by (intros; apply A; right; auto).
    rewrite lk_apply_reg. split.
    + intros [[H|H]|(k' & H1 & H2)]; auto.
      * right. exists k. auto.
      * right. exists k'. auto.
    + intros [H|(k' & [H1|H1] & H2)]; auto.
      * inversion H1; subst. auto.
      * right. exists k'. auto.
Qed.

Lemma In_reg_chans c l i j :
  g_skip_exiting c = true ->
  (In j (reg_chans c l i) <-> In j (chans_of l i) /\ o_exit (getO l j) = false).
Proof.
  intros G. unfold reg_chans. rewrite filter_In, G. cbn [andb]. rewrite negb_true_iff. tauto.
Qed.

Lemma In_registrations c l cm :
  g_reg_topics c = true -> g_reg_chans c = true -> g_skip_exiting c = true -> g_bare_no_live c = true ->
  (In cm (registrations c l) <->
   exists i, i < length l /\ is_topic (getO l i) = true /\ o_map (getO l i) = true /\ o_exit (getO l i) = false /\
     ((reg_chans c l i = [] /\ cm = CReg (KT (o_t (getO l i)))) \/
      (exists j, In j (reg_chans c l i) /\ cm = CReg (KC (o_t (getO l j)) (o_c (getO l j)))))).
Proof.
  intros G1 G2 G3 G4. unfold registrations. rewrite in_flat_map. rewrite G1, G2, G3, G4. cbn [andb orb]. split.
  - intros (i & Hi & H). apply In_ids in Hi. exists i. split; auto.
    destruct (is_topic (getO l i)); cbn [andb] in H; [|destruct H].
    destruct (o_map (getO l i)); cbn [andb] in H; [|destruct H].
    destruct (o_exit (getO l i)); cbn [negb] in H; [destruct H|].
    split; auto. split; auto. split; auto.
    destruct (reg_chans c l i) as [|j0 js] eqn:C.
    + left. destruct H as [H|[]]. auto.
    + right. apply in_map_iff in H. destruct H as (j & E & Hj). exists j. auto.
  - intros (i & Hi & T & M & X & H). exists i. split. apply In_ids; auto.
    rewrite T, M, X. cbn [andb negb].
    destruct H as [[C ->]|(j & Hj & ->)].
    + rewrite C. left. reflexivity.
    + destruct (reg_chans c l i) as [|j0 js] eqn:C; [destruct Hj|].
      apply in_map_iff. exists j. auto.
Qed.

Lemma registrations_are_regs c l cm : In cm (registrations c l) -> exists k, cm = CReg k.
Proof.
  unfold registrations. rewrite in_flat_map. intros (i & _ & H).
  destruct (is_topic (getO l i) && o_map (getO l i) && negb (g_skip_exiting c && o_exit (getO l i))); [|destruct H].
  destruct (reg_chans c l i) as [|j0 js].
  - destruct (g_reg_topics c && _); [|destruct H]. destruct H as [<-|[]]. eauto.
  - destruct (g_reg_chans c); [|destruct H]. apply in_map_iff in H. destruct H as (j & <- & _). eauto.
Qed.

(* connectCallback registers exactly the live objects: J holds for the fresh connection
   whatever is pending *)
Lemma cb_J c l b :
  g_reg_topics c = true -> g_reg_chans c = true -> g_skip_exiting c = true -> g_bare_no_live c = true ->
  WF l b -> J l b (apply_cmds (registrations c l) []).
Proof.
  intros G1 G2 G3 G4 W. pose proof W as (W1 & W2 & W3 & W4 & W5 & W6).
  assert (R : forall x, In x (apply_cmds (registrations c l) []) <->
                        exists k, In (CReg k) (registrations c l) /\ In x (reg_keys k)).
  { intros x. rewrite apply_cmds_regs by apply registrations_are_regs. cbn. tauto. }
  split.
  - intros i L. left. apply R. pose proof (live_lt _ _ L) as Li.
    apply live_spec in L. destruct L as [Le Lp]. pose proof (W2 _ Le) as Mi.
    destruct (o_parent (getO l i)) as [p|] eqn:Pi.
    + destruct (W3 _ _ Pi) as (Lpl & Pp & Tp).
      pose proof (Lp p eq_refl) as Ep. pose proof (W2 _ Ep) as Mp.
      exists (KC (o_t (getO l i)) (o_c (getO l i))). split.
      * apply In_registrations; auto. exists p. split; auto. split. apply is_topic_spec; auto. split; auto. split; auto.
        right. exists i. split; auto. apply In_reg_chans; auto. split; auto.
        apply In_chans_of. split; auto. split; auto. apply is_chan_of_spec; auto.
      * unfold key_of. rewrite Pi. left. reflexivity.
    + destruct (reg_chans c l i) as [|j0 js] eqn:C.
      * exists (KT (o_t (getO l i))). split.
        -- apply In_registrations; auto. exists i. split; auto. split. apply is_topic_spec; auto. split; auto.
        -- unfold key_of. rewrite Pi. left. reflexivity.
      * assert (Hj : In j0 (reg_chans c l i)) by (rewrite C; left; reflexivity).
        pose proof Hj as Hj'. apply In_reg_chans in Hj'; auto. destruct Hj' as (Hj' & _).
        apply In_chans_of in Hj'. destruct Hj' as (Lj & Cj & Mj).
        apply is_chan_of_spec in Cj. destruct (W3 _ _ Cj) as (_ & _ & Tj).
        exists (KC (o_t (getO l j0)) (o_c (getO l j0))). split.
        -- apply In_registrations; auto. exists i. split; auto. split. apply is_topic_spec; auto. split; auto. split; auto.
           right. exists j0. auto.
        -- unfold key_of. rewrite Pi, Tj. right. left. reflexivity.
  - intros x Hx. apply R in Hx. destruct Hx as (k & Hk & Hx).
    apply In_registrations in Hk; auto. destruct Hk as (i & Li & Ti & Mi & Ei & Hk).
    apply is_topic_spec in Ti. left.
    assert (Li' : live l i). { apply live_spec. split; auto. intros p E; congruence. }
    assert (Ki : key_of (getO l i) = KT (o_t (getO l i))). { unfold key_of. rewrite Ti. reflexivity. }
    destruct Hk as [[C E]|(j & Hj & E)]; inversion E; subst k; clear E.
    + destruct Hx as [<-|[]]. exists i. auto.
    + apply In_reg_chans in Hj; auto. destruct Hj as (Hj & Ej).
      apply In_chans_of in Hj. destruct Hj as (Lj & Cj & Mj). apply is_chan_of_spec in Cj.
      destruct (W3 _ _ Cj) as (_ & _ & Tj).
      destruct Hx as [<-|[<-|[]]].
      * exists j. split. apply live_spec. split; auto. intros p E. rewrite Cj in E. inversion E; subst; auto.
        unfold key_of. rewrite Cj. reflexivity.
      * exists i. split; auto. rewrite Ki, Tj. reflexivity.
Qed.

(* ------------------------------------------------------------------ a delivered notification *)
Lemma unreg_filter x R :
  o_exit x = true -> lk_apply (CUnreg (key_of x)) R = filter (fun k => negb (removes x k)) R.
Proof.
  intros E. unfold key_of, removes. rewrite E. destruct (o_parent x); cbn; apply filter_ext; intros; reflexivity.
Qed.

Lemma deliver_K2 l b b' id :
  (forall y, In y b' -> In y b) -> (forall y, In y b -> y <> id -> In y b') ->
  K2 l b ->
  (o_exit (getO l id) = false -> forall e, In e b -> conflicts (getO l e) (getO l id) = false) ->
  K2 l b'.
Proof.
  intros S1 S2 K Hz e j He C L.
  pose proof (K e j (S1 _ He) C L) as Hj.
  destruct (Nat.eq_dec j id) as [->|N]; auto.
  apply live_spec in L. destruct L as [Le _].
  rewrite (Hz Le e (S1 _ He)) in C. discriminate.
Qed.

Definition deliver_cmd (x : obj) : cmd := if o_exit x then CUnreg (key_of x) else CReg (key_of x).

Lemma deliver_J l b b' id R :
  (forall y, In y b' -> In y b) -> (forall y, In y b -> y <> id -> In y b') ->
  WF l b -> K2 l b -> In id b ->
  (o_exit (getO l id) = false ->
     forall p, o_parent (getO l id) = Some p -> o_exit (getO l p) = true ->
       exists e, In e b /\ is_topic (getO l e) = true /\ o_exit (getO l e) = true /\ o_t (getO l e) = o_t (getO l id)) ->
  J l b R -> J l b' (lk_apply (deliver_cmd (getO l id)) R).
Proof.
  intros S1 S2 W K Hid Hz [J1 J2]. pose proof W as (W1 & W2 & W3 & W4 & W5 & W6).
  unfold deliver_cmd. destruct (o_exit (getO l id)) eqn:Ex.
  - (* UNREGISTER *)
    rewrite unreg_filter by auto. split.
    + intros i L. pose proof L as L0. apply live_spec in L0. destruct L0 as [Le _].
      assert (Ni : i <> id) by (intros ->; congruence).
      destruct (removes (getO l id) (key_of (getO l i))) eqn:Rm.
      * right. apply S2; auto. apply (K id i Hid); auto.
      * destruct (J1 i L) as [H|H]; auto. left. apply filter_In. split; auto. rewrite Rm. reflexivity.
    + intros k Hk. apply filter_In in Hk. destruct Hk as [Hk Rm]. apply negb_true_iff in Rm.
      destruct (J2 k Hk) as [H|(e & He & Re)]; auto.
      right. exists e. split; auto. apply S2; auto. intros ->. congruence.
  - (* REGISTER *)
    specialize (Hz eq_refl).
    assert (Sup : forall k, In k (reg_keys (key_of (getO l id))) ->
       (exists i, live l i /\ key_of (getO l i) = k) \/ (exists e, In e b' /\ removes (getO l e) k = true)).
    { intros k Hk. destruct (o_parent (getO l id)) as [p|] eqn:Pid.
      - destruct (W3 _ _ Pid) as (Lp & Pp & Tp).
        destruct (o_exit (getO l p)) eqn:Ep.
        + destruct (Hz p eq_refl Ep) as (e & He & Te & Ee & Ne).
          right. exists e. split. apply S2; auto. intros ->; congruence.
          apply is_topic_spec in Te. unfold removes. rewrite Ee, Te. cbn.
          unfold key_of in Hk. rewrite Pid in Hk. destruct Hk as [<-|[<-|[]]]; cbn; rewrite Ne; apply N.eqb_refl.
        + left. unfold key_of in Hk. rewrite Pid in Hk. destruct Hk as [<-|[<-|[]]].
          * exists id. split. apply live_spec. split; auto. intros q E. rewrite Pid in E. inversion E; subst; auto.
            unfold key_of. rewrite Pid. reflexivity.
          * exists p. split. apply live_spec. split; auto. intros q E. congruence.
            unfold key_of. rewrite Pp, Tp. reflexivity.
      - left. unfold key_of in Hk. rewrite Pid in Hk. destruct Hk as [<-|[]].
        exists id. split. apply live_spec. split; auto. intros q E. congruence.
        unfold key_of. rewrite Pid. reflexivity. }
    split.
    + intros i L. destruct (Nat.eq_dec i id) as [->|N].
      * left. apply lk_apply_reg. left. destruct (key_of (getO l id)); cbn; auto.
      * destruct (J1 i L) as [H|H]; auto. left. apply lk_apply_reg. auto.
    + intros k Hk. apply lk_apply_reg in Hk. destruct Hk as [Hk|Hk]; auto.
      destruct (J2 k Hk) as [H|(e & He & Re)]; auto.
      right. exists e. split; auto. apply S2; auto. intros ->.
      unfold removes in Re. rewrite Ex in Re. discriminate.
Qed.

(* ------------------------------------------------------------------ the state invariant *)
Definition LK (k : link) : Prop := l_alive k = true -> k_state k = st_connected /\ k_conf k = true.

(* [Q] selects the links whose registrations are tracked *)
Definition Inv_on (Q : nat -> Prop) (s : st) : Prop :=
  WF (objs s) (bag s) /\ K2 (objs s) (bag s) /\
  forall n k, Q n -> nth_error (links s) n = Some k ->
    LK k /\ (l_alive k = true -> J (objs s) (bag s) (l_regs k)).
Definition Inv : st -> Prop := Inv_on (fun _ => True).

Lemma ensure_links_nth m : forall ls n k,
  nth_error (ensure_links m ls) n = Some k ->
  nth_error ls n = Some k \/ (nth_error ls n = None /\ k = fresh_link).
Proof.
  induction m as [|m IH]; intros ls n k H; cbn in H; auto.
  destruct ls as [|k0 r]; destruct n as [|n]; cbn in *.
  - inversion H; subst. auto.
  - destruct (IH [] n k H) as [A|[A B]]; auto. destruct n; discriminate.
  - auto.
  - apply IH; auto.
Qed.

Lemma Inv_init : Inv init.
Proof.
  unfold Inv, Inv_on, init; cbn. split; [|split].
  - unfold WF. wf_split; cbn; try tauto.
    + intros i. destruct i; discriminate.
    + intros i p. destruct i; discriminate.
    + intros i p. destruct i; discriminate.
    + intros t i j. destruct i; discriminate.
    + intros p c i j. destruct i; discriminate.
  - intros e j [].
  - intros n k _ H. destruct n; discriminate.
Qed.

Lemma on_links_inv f : forall ls a ls',
  on_links f a ls = Some ls' ->
  length ls' = length ls /\
  forall n k', nth_error ls' n = Some k' ->
    exists k, nth_error ls n = Some k /\ k' = fst (f (a + n) k).
Proof.
  induction ls as [|k r IH]; intros a ls'; cbn.
  - intros H; inversion H; subst. split; auto. intros n k' E. destruct n; discriminate.
  - destruct (f a k) as [k1 x] eqn:F.
    destruct (on_links f (S a) r) as [r'|] eqn:O.
    + intros H. assert (ls' = k1 :: r') by (destruct x; congruence). subst.
      destruct (IH _ _ O) as [L N]. split. cbn; congruence.
      intros n k' E. destruct n as [|n]; cbn in *.
      * inversion E; subst. exists k. rewrite Nat.add_0_r, F. auto.
      * destruct (N n k' E) as (k0 & A & B). exists k0. split; auto.
        replace (a + S n) with (S a + n) by lia. auto.
    + destruct x; discriminate.
Qed.

Lemma mem_In i l : mem i l = true <-> In i l.
Proof.
  unfold mem. rewrite existsb_exists. split.
  - intros (x & H & E). apply Nat.eqb_eq in E. subst; auto.
  - intros H. exists i. split; auto. apply Nat.eqb_refl.
Qed.

Lemma bag_has_false s p : bag_has s p = false -> forall e, In e (bag s) -> p (getO (objs s) e) = false.
Proof.
  unfold bag_has. intros H e He. destruct (p (getO (objs s) e)) eqn:E; auto.
  rewrite <- not_true_iff_false in H. exfalso. apply H. apply existsb_exists. eauto.
Qed.

Lemma bag_has_true s p : bag_has s p = true -> exists e, In e (bag s) /\ p (getO (objs s) e) = true.
Proof. unfold bag_has. intros H. apply existsb_exists in H. auto. Qed.

Lemma notif_cmd_good c o : g_unreg_topic c = true -> g_unreg_chan c = true -> notif_cmd c o = deliver_cmd o.
Proof.
  intros G1 G2. unfold notif_cmd, deliver_cmd. rewrite G1, G2.
  destruct (is_topic o), (o_exit o); reflexivity.
Qed.

(* one Command on one configured link keeps the link invariant *)
Lemma link_cmd c l b b' cm k :
  good_cfg c -> WF l b -> k_conf k = true -> LK k ->
  (l_alive k = true -> J l b (l_regs k)) ->
  (forall R, J l b R -> J l b' (apply_opt cm R)) ->
  let k' := fst (command c (registrations c l) cm k) in
  LK k' /\ (l_alive k' = true -> J l b' (l_regs k')).
Proof.
  intros (G1 & G2 & G3 & G4 & G5 & G6 & _) W C L HJ T k'.
  assert (LKs : l_alive k = true -> k_state k = st_connected) by (intros A; apply L; auto).
  pose proof (command_alive c (registrations c l) cm k G1 G2 LKs) as CA. cbn in CA. fold k' in CA.
  pose proof (command_frame c (registrations c l) cm k) as (F1 & _). fold k' in F1.
  split.
  - intros A. destruct (CA A) as (S & _). split; auto. congruence.
  - intros A. destruct (CA A) as (_ & [(E & A0 & R)|(E & R)]); rewrite R; apply T; auto.
    apply cb_J; auto.
Qed.

Lemma WF_sub l b b' : (forall y, In y b' -> In y b) -> WF l b -> WF l b'.
Proof. intros S (W1 & W). split; auto. Qed.

Lemma loop_step_Inv Q c s o s' :
  good_cfg c -> Inv_on Q s -> hazard s o = false -> loop_step c s o = Run s' -> Inv_on Q s'.
Proof.
  intros G (W & K & HL) Hz X. pose proof G as (G1 & G2 & G3 & G4 & G5 & G6 & G7 & G8 & G9 & _).
  destruct o; cbn [loop_step] in X; try (inversion X; subst; split; auto; fail).
  - (* Deliver *)
    cbn [hazard] in Hz.
    destruct (nth_error (bag s) i) as [id|] eqn:Ei; [|inversion X; subst; split; auto].
    match type of X with context [on_links ?f 0 ?ls] => destruct (on_links f 0 ls) as [ls'|] eqn:O; [|discriminate] end.
    inversion X; subst s'; clear X. cbn [objs bag links].
    rewrite notif_cmd_good in O by auto.
    set (x := getO (objs s) id) in *.
    assert (Hid : In id (bag s)) by (eapply nth_error_In; eauto).
    assert (S1 : forall y, In y (remove_at i (bag s)) -> In y (bag s)) by (intros; eapply remove_at_In; eauto).
    assert (S2 : forall y, In y (bag s) -> y <> id -> In y (remove_at i (bag s))) by (intros; eapply In_remove_at; eauto).
    assert (HzA : o_exit x = false -> forall e, In e (bag s) -> conflicts (getO (objs s) e) x = false).
    { intros E. rewrite E in Hz. cbn in Hz. apply orb_false_iff in Hz. destruct Hz as [A _].
      intros e He. apply (bag_has_false s (fun e => conflicts e x) A e He). }
    assert (HzB : o_exit x = false -> forall p, o_parent x = Some p -> o_exit (getO (objs s) p) = true ->
       exists e, In e (bag s) /\ is_topic (getO (objs s) e) = true /\ o_exit (getO (objs s) e) = true /\ o_t (getO (objs s) e) = o_t x).
    { intros E p Pp Ep. rewrite E in Hz. cbn in Hz. apply orb_false_iff in Hz. destruct Hz as [_ B].
      rewrite Pp, Ep in B. cbn in B. apply negb_false_iff in B. apply bag_has_true in B.
      destruct B as (e & He & Pe). rewrite !andb_true_iff in Pe. destruct Pe as [[P1 P2] P3].
      apply N.eqb_eq in P3. exists e. auto. }
    split; [eapply WF_sub; eauto|]. split; [eapply deliver_K2; eauto|].
    intros n k' Qn Hk'. destruct (on_links_inv _ _ _ _ O) as [_ N]. destruct (N n k' Hk') as (k & Hk & ->).
    destruct (HL n k Qn Hk) as [L HJ]. cbn.
    destruct (k_conf k) eqn:C.
    + apply (link_cmd c (objs s) (bag s) (remove_at i (bag s)) (Some (deliver_cmd x)) k); auto.
      intros R HR. cbn. eapply deliver_J; eauto.
    + cbn. split; auto. intros A. destruct (L A) as [_ C']. congruence.
  - (* Tick *)
    match type of X with context [on_links ?f 0 ?ls] => destruct (on_links f 0 ls) as [ls'|] eqn:O; [|discriminate] end.
    inversion X; subst s'; clear X. cbn [objs bag links].
    split; auto. split; auto.
    intros n k' Qn Hk'. destruct (on_links_inv _ _ _ _ O) as [_ N]. destruct (N n k' Hk') as (k & Hk & ->).
    destruct (HL n k Qn Hk) as [L HJ]. cbn.
    destruct (k_conf k) eqn:C.
    + apply (link_cmd c (objs s) (bag s) (bag s) (Some CPing) k); auto.
    + cbn. split; auto.
  - (* Reconfigure *)
    match type of X with context [on_links ?f 0 ?ls] => destruct (on_links f 0 ls) as [ls'|] eqn:O; [|discriminate] end.
    inversion X; subst s'; clear X. cbn [objs bag links].
    split; auto. split; auto.
    intros n k' Qn Hk'. destruct (on_links_inv _ _ _ _ O) as [_ N]. destruct (N n k' Hk') as (k & Hk & ->).
    cbn [Nat.add].
    assert (Hk0 : LK k /\ (l_alive k = true -> J (objs s) (bag s) (l_regs k))).
    { destruct (ensure_links_nth _ _ _ _ Hk) as [A|[A ->]].
      - eapply HL; eauto.
      - split; intros B; discriminate. }
    destruct Hk0 as (L & HJ).
    destruct (mem n addrs) eqn:Mn.
    + destruct (k_conf k) eqn:C; cbn. { split; auto. }
      assert (NA : l_alive k = false).
      { destruct (l_alive k) eqn:A; auto. destruct (L A). congruence. }
      apply (link_cmd c (objs s) (bag s) (bag s) None (k <| k_conf := true |>)).
      { auto. } { auto. } { reflexivity. }
      { intros A. cbn in A. congruence. }
      { cbn. intros A. congruence. }
      { intros R HR. exact HR. }
    + destruct (k_conf k) eqn:C; cbn.
      * split. intros A; discriminate. intros A; discriminate.
      * split; auto.
Qed.

(* ------------------------------------------------------------------ faults and the full step *)
Lemma nth_error_upd {A} (l : list A) i x n :
  nth_error (upd l i x) n =
  if n =? i then match nth_error l n with Some _ => Some x | None => None end else nth_error l n.
Proof.
  revert i n; induction l as [|a l IH]; intros i n; cbn.
  - destruct (n =? i); destruct n; reflexivity.
  - destruct i as [|i], n as [|n]; cbn; auto.
Qed.

Lemma upd_link_inv a f ls n k' :
  nth_error (upd_link a f ls) n = Some k' ->
  exists k, nth_error ls n = Some k /\ (k' = k \/ k' = f k).
Proof.
  unfold upd_link. destruct (nth_error ls a) as [ka|] eqn:E; eauto.
  rewrite nth_error_upd. destruct (Nat.eqb_spec n a) as [->|N]; eauto.
  rewrite E. intros H; inversion H; subst. eauto.
Qed.

Lemma fault_step_Inv Q s o : Inv_on Q s -> Inv_on Q (fault_step s o).
Proof.
  intros (W & K & HL).
  assert (A : forall a f,
     (forall k, LK k -> LK (f k)) ->
     (forall k, l_alive (f k) = true -> l_alive k = true /\ l_regs (f k) = l_regs k) ->
     Inv_on Q (s <| links ::= upd_link a f |>)).
  { intros a f F1 F2. split; auto. split; auto. cbn.
    intros n k' Qn Hk'. destruct (upd_link_inv _ _ _ _ _ Hk') as (k & Hk & [->| ->]).
    - eapply HL; eauto.
    - destruct (HL n k Qn Hk) as [L HJ]. split; auto.
      intros B. destruct (F2 k B) as [B1 B2]. rewrite B2. auto. }
  destruct o; cbn [fault_step]; try (split; auto; fail); apply A; unfold LK; cbn; auto; try discriminate.
Qed.

Lemma step_Inv Q c s o s' :
  good_cfg c -> Inv_on Q s -> hazard s o = false -> step c s o = Run s' -> Inv_on Q s'.
Proof.
  intros G H Hz X. unfold step in X.
  destruct (is_loop_op o) eqn:Lo.
  - eapply loop_step_Inv; eauto.
  - destruct (is_fault_op o) eqn:Fo.
    + inversion X; subst. apply fault_step_Inv; auto.
    + inversion X; subst; clear X. destruct H as (W & K & HL).
      set (x := mkDs (objs s) (dats s) (bag s)).
      split. { apply (data_step_WF c (links s) o x); auto. }
      split. { apply (data_step_K2 c (links s) o x); auto. }
      cbn. intros n k Qn Hk. destruct (HL n k Qn Hk) as [L HJ]. split; auto.
      intros A. apply (data_step_J c (links s) o x); auto.
Qed.

Lemma run_cons c s o r : run c (Run s) (o :: r) = run c (step c s o) r.
Proof. reflexivity. Qed.

Lemma run_Inv Q c : good_cfg c -> forall os s s',
  Inv_on Q s -> hazard_free c (Run s) os = true -> run c (Run s) os = Run s' -> Inv_on Q s'.
Proof.
  intros G. induction os as [|o r IH]; intros s s' H Hz X.
  - inversion X; subst; auto.
  - rewrite run_cons in X. cbn [hazard_free] in Hz. apply andb_true_iff in Hz. destruct Hz as [Hz1 Hz2]. apply negb_true_iff in Hz1.
    destruct (step c s o) as [s1|] eqn:S.
    + apply (IH s1 s'); auto. eapply step_Inv; eauto.
    + rewrite run_crashed in X. discriminate.
Qed.

(* the structural part does not need the schedule to be hazard free *)
Lemma step_WF c s o s' :
  WF (objs s) (bag s) -> step c s o = Run s' -> WF (objs s') (bag s').
Proof.
  intros W X. unfold step in X. destruct (is_loop_op o) eqn:Lo.
  - unfold loop_step in X. destruct o; try discriminate.
    + destruct (nth_error (bag s) i) eqn:E; [|inversion X; subst; auto].
      match type of X with context [on_links ?f 0 ?ls] => destruct (on_links f 0 ls); [|discriminate] end.
      inversion X; subst. cbn. apply (WF_sub _ (bag s)); auto. intros y Hy; eapply remove_at_In; eauto.
    + match type of X with context [on_links ?f 0 ?ls] => destruct (on_links f 0 ls); [|discriminate] end.
      inversion X; subst. auto.
    + match type of X with context [on_links ?f 0 ?ls] => destruct (on_links f 0 ls); [|discriminate] end.
      inversion X; subst. auto.
  - destruct (is_fault_op o).
    + inversion X; subst. destruct o; cbn; auto.
    + inversion X; subst; clear X. cbn.
      apply (data_step_WF c (links s) o (mkDs (objs s) (dats s) (bag s))). auto.
Qed.

Lemma run_WF c : forall os s s',
  WF (objs s) (bag s) -> run c (Run s) os = Run s' -> WF (objs s') (bag s').
Proof.
  induction os as [|o r IH]; intros s s' W X.
  - inversion X; subst; auto.
  - rewrite run_cons in X. destruct (step c s o) as [s1|] eqn:S.
    + apply (IH s1 s'); auto. eapply step_WF; eauto.
    + rewrite run_crashed in X. discriminate.
Qed.
