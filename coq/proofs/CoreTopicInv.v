(* A master lemma for topic-level invariants of model/Core.v (used by CoreUnique):
   a predicate on topics that is preserved by every topic-level transformer the step
   function uses is an invariant of [step]; the publish case takes a side condition. *)
From Coq Require Import List NArith ZArith Bool Lia.
From RecordUpdate Require Import RecordUpdate.
From NSQV Require Import model.Core proofs.CoreBase.
Import ListNotations.
Open Scope N_scope.

Section TopicInvariant.
  Context (cfg : config) (TP : topic -> Prop).
  (* which channel transformers are admissible *)
  Context (Q : (chan -> chan) -> Prop).
  Context (Q_clients : forall g, Q (fun ch => ch <| c_clients ::= g |>)).
  Context (Q_paused : forall p, Q (fun ch => ch <| c_paused := p |>)).
  Context (Q_deliver : forall k id dl now, Q (ch_deliver k id dl now)).
  Context (Q_fin : forall k id, Q (ch_fin k id)).
  Context (Q_req : forall k id d now, Q (ch_req cfg k id d now)).
  Context (Q_touch : forall k id now tmo, Q (ch_touch cfg k id now tmo)).
  Context (Q_empty : Q ch_empty).
  Context (Q_scan_ifl : forall now, Q (ch_scan_ifl cfg now)).
  Context (Q_scan_dfr : forall now, Q (ch_scan_dfr cfg now)).

  Context (TP_new : forall t eph, TP (new_topic t eph)).
  Context (TP_chan : forall tp c f, Q f -> TP tp -> TP (upd_chan_in tp c f)).
  Context (TP_pump : forall now tp, TP tp -> TP (pump cfg now tp)).
  Context (TP_paused : forall tp p, TP tp -> TP (tp <| t_paused := p |>)).
  Context (TP_emptyq : forall tp, TP tp -> TP (tp <| t_queue := [] |> <| t_mem := 0 |>)).
  Context (TP_filter : forall tp p, TP tp -> TP (tp <| t_chans ::= filter p |>)).
  Context (TP_add_chan : forall tp c eph, find_chan tp c = None -> TP tp ->
                                      TP (tp <| t_chans ::= fun l => l ++ [new_chan c eph] |>)).
  Context (TP_counts : forall tp n b, TP tp -> TP (tp <| t_msgcount ::= N.add n |> <| t_bytes ::= N.add b |>)).
  (* publishing: the side condition [okpub] is supplied per operation *)
  Context (okpub : list N -> topic -> Prop).
  Context (TP_pub : forall defer ids tp, okpub ids tp -> TP tp ->
                                    TP (fold_left (fun tp id => topic_put cfg (mkMsg id 0 defer) tp) ids tp)).

  Lemma AT_upd_topic s t f : AllTopics TP s -> (forall tp, TP tp -> TP (f tp)) -> AllTopics TP (upd_topic s t f).
  Proof. apply AllTopics_upd_topic. Qed.

  Lemma AT_upd_chan s t c f : Q f -> AllTopics TP s -> AllTopics TP (upd_chan s t c f).
  Proof. intros HQ H. unfold upd_chan. apply AT_upd_topic; [exact H|]. intros tp Htp. apply TP_chan; assumption. Qed.

  Lemma AT_clients s l : AllTopics TP (s <| s_clients := l |>) <-> AllTopics TP s.
  Proof. reflexivity. Qed.
  Lemma AT_upd_client s k f : AllTopics TP (upd_client s k f) <-> AllTopics TP s.
  Proof. reflexivity. Qed.
  Lemma AT_close_clients ks s : AllTopics TP (close_clients ks s) <-> AllTopics TP s.
  Proof. reflexivity. Qed.
  Lemma AT_fold_dec ks (ex : list ifl) : forall s,
    AllTopics TP (fold_left (fun s e => dec_ifl ks (i_cid e) s) ex s) <-> AllTopics TP s.
  Proof.
    induction ex as [|e ex IH]; intros s; cbn; [reflexivity|]. rewrite IH.
    unfold dec_ifl. destruct (existsb _ ks); reflexivity.
  Qed.

  Lemma AT_filter s p : AllTopics TP s -> AllTopics TP (s <| s_topics ::= filter p |>).
  Proof. unfold AllTopics. cbn. apply Forall_filter. Qed.

  Lemma AT_ensure_topic s t eph : AllTopics TP s -> AllTopics TP (ensure_topic s t eph).
  Proof.
    intros H. unfold ensure_topic. destruct (find_topic s t); [exact H|].
    unfold AllTopics. cbn. apply Forall_app_one; [exact H|apply TP_new].
  Qed.

  Lemma AT_ensure_chan s t c teph ceph : AllTopics TP s -> AllTopics TP (ensure_chan s t c teph ceph).
  Proof.
    intros H. unfold ensure_chan. apply AT_upd_topic; [apply AT_ensure_topic, H|].
    intros tp Htp. destruct (find_chan tp c) eqn:E; [exact Htp|]. apply TP_add_chan; assumption.
  Qed.

  Lemma AT_pump_topic now s t : AllTopics TP s -> AllTopics TP (pump_topic cfg now s t).
  Proof. intros H. unfold pump_topic. apply AT_upd_topic; [exact H|]. intros tp. apply TP_pump. Qed.

  Lemma AT_unsubscribe kl s : AllTopics TP s -> AllTopics TP (unsubscribe kl s).
  Proof.
    intros H. unfold unsubscribe. destruct (k_sub kl) as [[t c]|]; [|exact H].
    apply AT_filter. apply AT_upd_topic.
    - apply AT_upd_chan; [apply Q_clients|exact H].
    - intros tp Htp. apply TP_filter, Htp.
  Qed.

  Definition pub_ok (s : state) (o : op) : Prop :=
    match o with
    | OPub t teph ids _ _ _ => forall tp, In tp (s_topics (ensure_topic s t teph)) -> t_id tp = t -> okpub ids tp
    | _ => True
    end.

  Lemma step_AllTopics s o : pub_ok s o -> AllTopics TP s -> AllTopics TP (fst (step cfg s o)).
  Proof.
    intros Hp H. destruct o; cbn [step].
    - cbn [fst]. apply AT_ensure_topic, H.
    - destruct (find_topic s t); cbn [fst]; [|exact H]. apply AT_pump_topic, AT_ensure_chan, H.
    - (* OPub *)
      cbn [fst]. apply AT_pump_topic. cbn in Hp.
      pose proof (AT_ensure_topic s t teph H) as H1.
      unfold upd_topic, AllTopics. cbn. unfold AllTopics in H1.
      rewrite Forall_forall in *. intros tp' Hin. apply in_map_iff in Hin. destruct Hin as [tp [<- Hin]].
      destruct (N.eqb_spec (t_id tp) t) as [E|E]; [|apply H1, Hin].
      apply TP_counts. apply TP_pub; [apply Hp; assumption|apply H1, Hin].
    - destruct (find_client s k); cbn [fst]; [exact H|]. apply AT_clients, H.
    - destruct (find_client s k) as [kl|]; cbn [fst]; [|exact H].
      destruct ((k_state kl =? st_init) && k_alive kl); cbn [fst]; [|exact H].
      apply AT_pump_topic. apply AT_upd_client. apply AT_upd_chan; [apply Q_clients|apply AT_ensure_chan, H].
    - destruct (find_client s k) as [kl|]; cbn [fst]; [|exact H].
      destruct (k_state kl =? st_closing); cbn [fst]; [exact H|].
      destruct (k_state kl =? st_subscribed); cbn [fst]; [|exact H]. apply AT_upd_client, H.
    - destruct (find_client s k) as [kl|]; cbn [fst]; [|exact H].
      destruct (k_sub kl) as [[t c]|]; cbn [fst]; [|exact H].
      destruct (get_chan s t c) as [ch|]; cbn [fst]; [|exact H].
      destruct (deliverable s kl ch id); cbn [fst]; [|exact H].
      apply AT_upd_client. apply AT_upd_chan; [apply Q_deliver|exact H].
    - destruct (answering s k) as [[[[[kl t] c] ch]|]|]; cbn [fst]; try exact H.
      destruct (holds ch k id); cbn [fst]; [|exact H].
      apply AT_upd_client. apply AT_upd_chan; [apply Q_fin|exact H].
    - destruct (answering s k) as [[[[[kl t] c] ch]|]|]; cbn [fst]; try exact H.
      destruct (holds ch k id); cbn [fst]; [|exact H].
      apply AT_upd_client. apply AT_upd_chan; [apply Q_req|exact H].
    - destruct (answering s k) as [[[[[kl t] c] ch]|]|]; cbn [fst]; try exact H.
      destruct (holds ch k id); cbn [fst]; [|exact H].
      apply AT_upd_chan; [apply Q_touch|exact H].
    - destruct (find_client s k) as [kl|]; cbn [fst]; [|exact H].
      destruct (k_state kl =? st_subscribed); cbn [fst]; [|exact H]. apply AT_upd_client, H.
    - destruct (find_client s k) as [kl|]; cbn [fst]; [|exact H].
      apply AT_upd_client. apply AT_unsubscribe, H.
    - destruct (get_chan s t c); cbn [fst]; [|exact H]. apply AT_upd_chan; [apply Q_paused|exact H].
    - destruct (find_topic s t); cbn [fst]; [|exact H]. apply AT_pump_topic.
      apply AT_upd_topic; [exact H|]. intros tp Htp. apply TP_paused, Htp.
    - destruct (get_chan s t c); cbn [fst]; [|exact H]. apply AT_clients. apply AT_upd_chan; [apply Q_empty|exact H].
    - destruct (find_topic s t); cbn [fst]; [|exact H].
      apply AT_upd_topic; [exact H|]. intros tp Htp. apply TP_emptyq, Htp.
    - destruct (find_topic s t) as [tp|]; cbn [fst]; [|exact H].
      destruct (find_chan tp c) as [ch|]; cbn [fst]; [|exact H].
      unfold drop_empty_eph_topic. apply AT_filter.
      apply AT_upd_topic; [apply AT_close_clients, H|]. intros tp' Htp'. apply TP_filter, Htp'.
    - destruct (find_topic s t) as [tp|]; cbn [fst]; [|exact H].
      apply AT_filter. apply AT_close_clients, H.
    - destruct (get_chan s t c) as [ch|]; cbn [fst]; [|exact H].
      apply AT_fold_dec. apply AT_upd_chan; [apply Q_scan_ifl|exact H].
    - destruct (get_chan s t c) as [ch|]; cbn [fst]; [|exact H].
      apply AT_upd_chan; [apply Q_scan_dfr|exact H].
  Qed.
End TopicInvariant.
