(* Proofs about model/Deadline.v, part 1: the deadline arithmetic, the negotiated
   msg_timeout range and strconv.ParseInt as used by /pub?defer=. *)
From Coq Require Import List ZArith NArith Bool Lia ZifyBool ZifyN.
From NSQV Require Import model.Judge model.Num model.Heap model.Deadline proofs.NumProofs.
Import ListNotations.
Open Scope Z_scope.

Ltac Zify.zify_post_hook ::= Z.to_euclidean_division_equations.

(* ------------------------------------------------------------------ TOUCH *)
(* the code's comparison is exactly "the smaller of the two" *)
Lemma touch_deadline_min : forall now mt delivery max_msg,
  touch_deadline now mt delivery max_msg = Z.min (now + mt) (delivery + max_msg).
Proof. intros. unfold touch_deadline. destruct (now + mt - delivery >=? max_msg) eqn:E; lia. Qed.

Lemma touch_deadline_cap : forall now mt delivery max_msg,
  touch_deadline now mt delivery max_msg <= delivery + max_msg.
Proof. intros. rewrite touch_deadline_min. lia. Qed.

(* never early: a TOUCH at [now] never yields a deadline before now + msg_timeout unless
   that is beyond the cap *)
Lemma touch_deadline_not_early : forall now mt delivery max_msg,
  now + mt <= delivery + max_msg -> touch_deadline now mt delivery max_msg = now + mt.
Proof. intros. rewrite touch_deadline_min. lia. Qed.

(* a message's deadline after delivery and any sequence of accepted TOUCHes
   [(now_1, mt_1); ...] *)
Definition deadline_after (delivery timeout max_msg : Z) (touches : list (Z * Z)) : Z :=
  fold_left (fun _ '(now, mt) => touch_deadline now mt delivery max_msg) touches
            (start_deadline delivery timeout).

Theorem touch_cap_any_sequence : forall delivery timeout max_msg touches,
  timeout <= max_msg ->
  deadline_after delivery timeout max_msg touches <= delivery + max_msg.
Proof.
  intros delivery timeout max_msg touches H. unfold deadline_after.
  assert (G : forall l d, d <= delivery + max_msg ->
            fold_left (fun _ '(now, mt) => touch_deadline now mt delivery max_msg) l d
            <= delivery + max_msg).
  { induction l as [|[now mt] r IH]; intros d Hd; cbn [fold_left]; [exact Hd|].
    apply IH, touch_deadline_cap. }
  apply G. unfold start_deadline. lia.
Qed.

(* ... and it is exactly the specification's value: the last TOUCH re-bases it *)
Theorem deadline_after_spec : forall delivery timeout max_msg touches,
  deadline_after delivery timeout max_msg touches =
    match rev touches with
    | [] => delivery + timeout
    | (now, mt) :: _ => Z.min (now + mt) (delivery + max_msg)
    end.
Proof.
  intros. unfold deadline_after. rewrite <- fold_left_rev_right.
  destruct (rev touches) as [|[now mt] r]; cbn [fold_right]; [reflexivity|].
  apply touch_deadline_min.
Qed.

(* ------------------------------------------------------------------ IDENTIFY msg_timeout *)
Theorem set_msg_timeout_spec : forall max_msg cur v,
  set_msg_timeout max_msg cur v =
    if v =? 0 then Some cur
    else if (1000 <=? v) && (v * 1000000 <=? max_msg) then Some (v * 1000000)
    else None.
Proof.
  intros. unfold set_msg_timeout. destruct (v =? 0); [reflexivity|].
  replace ((1000 <=? v) && (v <=? max_msg ÷ 1000000)) with ((1000 <=? v) && (v * 1000000 <=? max_msg));
    [reflexivity|].
  destruct (1000 <=? v) eqn:A; cbn [andb]; [|reflexivity].
  destruct (v * 1000000 <=? max_msg) eqn:B; destruct (v <=? max_msg ÷ 1000000) eqn:C; try reflexivity; exfalso; lia.
Qed.

Corollary set_msg_timeout_accept_iff : forall max_msg cur v,
  (exists t, set_msg_timeout max_msg cur v = Some t) <->
  (v = 0 \/ (1000 <= v /\ v * 1000000 <= max_msg)).
Proof.
  intros. rewrite set_msg_timeout_spec.
  destruct (v =? 0) eqn:A; [split; [lia | eauto]|].
  destruct ((1000 <=? v) && (v * 1000000 <=? max_msg)) eqn:B.
  - split; [lia | eauto].
  - split; [intros [t X]; discriminate | lia].
Qed.

(* whatever the client negotiates, its msg_timeout stays within max_msg_timeout provided
   the configured default does *)
Corollary set_msg_timeout_bounded : forall max_msg cur v t,
  0 <= cur <= max_msg -> set_msg_timeout max_msg cur v = Some t -> 0 <= t <= max_msg.
Proof.
  intros max_msg cur v t H E. rewrite set_msg_timeout_spec in E.
  destruct (v =? 0); [injection E as <-; exact H|].
  destruct ((1000 <=? v) && (v * 1000000 <=? max_msg)) eqn:B; [|discriminate].
  injection E as <-. lia.
Qed.

(* ------------------------------------------------------------------ ParseInt and /pub?defer= *)
(* the text of an optionally signed decimal integer *)
Definition split_sign (s : bytes) : bool * bytes :=
  match s with
  | c :: r => if N.eqb c 43 then (false, r) else if N.eqb c 45 then (true, r) else (false, s)
  | [] => (false, [])
  end.
Definition int_text (s : bytes) : bool :=
  let '(_, body) := split_sign s in
  negb (match body with [] => true | _ => false end) && all_digits body.
Definition int_value (s : bytes) : Z :=
  let '(neg, body) := split_sign s in
  if neg then - Z.of_N (dec_value body) else Z.of_N (dec_value body).

Lemma parse_int64_spec : forall s,
  parse_int64 s =
    if int_text s && (- 9223372036854775808 <=? int_value s) && (int_value s <=? 9223372036854775807)
    then Some (int_value s) else None.
Proof.
  intro s. unfold parse_int64, int_text, int_value, split_sign.
  destruct s as [|c r]; [reflexivity|].
  destruct (N.eqb c 43) eqn:E1; [|destruct (N.eqb c 45) eqn:E2].
  - destruct r as [|c' r']; [reflexivity|]. cbn [negb andb].
    destruct (all_digits (c' :: r')); [|reflexivity]. cbn [andb].
    set (v := Z.of_N (dec_value (c' :: r'))). assert (0 <= v) by (subst v; lia).
    destruct (v <? 9223372036854775808) eqn:A;
    destruct (-9223372036854775808 <=? v) eqn:B; destruct (v <=? 9223372036854775807) eqn:C;
    cbn [andb]; try reflexivity; exfalso; lia.
  - destruct r as [|c' r']; [reflexivity|]. cbn [negb andb].
    destruct (all_digits (c' :: r')); [|reflexivity]. cbn [andb].
    set (v := Z.of_N (dec_value (c' :: r'))). assert (0 <= v) by (subst v; lia).
    destruct (v <=? 9223372036854775808) eqn:A;
    destruct (-9223372036854775808 <=? - v) eqn:B; destruct (- v <=? 9223372036854775807) eqn:C;
    cbn [andb]; try reflexivity; exfalso; lia.
  - cbn [negb andb].
    destruct (all_digits (c :: r)); [|reflexivity]. cbn [andb].
    set (v := Z.of_N (dec_value (c :: r))). assert (0 <= v) by (subst v; lia).
    destruct (v <? 9223372036854775808) eqn:A;
    destruct (-9223372036854775808 <=? v) eqn:B; destruct (v <=? 9223372036854775807) eqn:C;
    cbn [andb]; try reflexivity; exfalso; lia.
Qed.

(* /pub?defer=s is accepted exactly when s is the text of an integer v with
   0 <= v ms <= max_req, for every spelling (sign, leading zeros, any length) *)
Theorem http_defer_raw_spec : forall max_req s, 0 <= max_req < max_i64 ->
  http_defer_raw max_req s =
    if int_text s && (0 <=? int_value s) && (int_value s * ns_per_ms <=? max_req)
    then DpubDelay (int_value s * ns_per_ms) else DpubInvalid.
Proof.
  intros max_req s H. unfold http_defer_raw. rewrite http_defer_spec by exact H.
  rewrite parse_int64_spec. unfold max_i64, ns_per_ms in *.
  destruct (int_text s); cbn [andb]; [|reflexivity].
  set (v := int_value s).
  destruct (-9223372036854775808 <=? v) eqn:A; destruct (v <=? 9223372036854775807) eqn:B;
  destruct (0 <=? v) eqn:C; destruct (v * 1000000 <=? max_req) eqn:D; cbn [andb];
  rewrite ?C, ?D; cbn [andb]; try reflexivity; exfalso; lia.
Qed.
