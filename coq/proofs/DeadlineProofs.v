(* Proofs about model/Deadline.v, part 1: the deadline arithmetic, the negotiated
   msg_timeout range and strconv.ParseInt as used by /pub?defer=. *)
From Coq Require Import List ZArith NArith Bool Lia ZifyBool ZifyN.
From NSQV Require Import model.Judge model.Num model.Heap model.Deadline proofs.NumProofs.
Import ListNotations.
Open Scope Z_scope.

Ltac Zify.zify_post_hook ::= Z.to_euclidean_division_equations.

(* ------------------------------------------------------------------ TOUCH *)
(* the code's comparison is exactly "the smaller of the two" *)
Lemma touch_deadline_min : forall now mt delivery max_msg,
  touch_deadline now mt delivery max_msg = Z.min (now + mt) (delivery + max_msg).
Proof. intros. unfold touch_deadline. destruct (now + mt - delivery >=? max_msg) eqn:E; lia. Qed.

Lemma touch_deadline_cap : forall now mt delivery max_msg,
  touch_deadline now mt delivery max_msg <= delivery + max_msg.
Proof. intros. rewrite touch_deadline_min. lia. Qed.

(* never early: a TOUCH at [now] never yields a deadline before now + msg_timeout unless
   that is beyond the cap *)
Lemma touch_deadline_not_early : forall now mt delivery max_msg,
  now + mt <= delivery + max_msg -> touch_deadline now mt delivery max_msg = now + mt.
Proof. intros. rewrite touch_deadline_min. lia. Qed.

(* a message's deadline after delivery and any sequence of accepted TOUCHes
   [(now_1, mt_1); ...] *)
Definition deadline_after (delivery timeout max_msg : Z) (touches : list (Z * Z)) : Z :=
  fold_left (fun _ '(now, mt) => touch_deadline now mt delivery max_msg) touches
            (start_deadline delivery timeout).

Theorem touch_cap_any_sequence : forall delivery timeout max_msg touches,
  timeout <= max_msg ->
  deadline_after delivery timeout max_msg touches <= delivery + max_msg.
Proof.
  intros delivery timeout max_msg touches H. unfold deadline_after.
  assert (G : forall l d, d <= delivery + max_msg ->
            fold_left (fun _ '(now, mt) => touch_deadline now mt delivery max_msg) l d
            <= delivery + max_msg).
  { induction l as [|[now mt] r IH]; intros d Hd; cbn [fold_left]; [exact Hd|].
    apply IH, touch_deadline_cap. }
  apply G. unfold start_deadline. lia.
Qed.

(* ... and it is exactly the specification's value: the last TOUCH re-bases it *)
Theorem deadline_after_spec : forall delivery timeout max_msg touches,
  deadline_after delivery timeout max_msg touches =
    match rev touches with
    | [] => delivery + timeout
    | (now, mt) :: _ => Z.min (now + mt) (delivery + max_msg)
    end.
Proof.
  intros. unfold deadline_after. rewrite <- fold_left_rev_right.
  destruct (rev touches) as [|[now mt] r]; cbn [fold_right]; [reflexivity|].
  apply touch_deadline_min.
Qed.

(* ------------------------------------------------------------------ IDENTIFY msg_timeout *)
Theorem set_msg_timeout_spec : forall max_msg cur v,
  set_msg_timeout max_msg cur v =
    if v =? 0 then Some cur
    else if (1000 <=? v) && (v * 1000000 <=? max_msg) then Some (v * 1000000)
    else None.
Proof.
  intros. unfold set_msg_timeout. destruct (v =? 0); [reflexivity|].
  replace ((1000 <=? v) && (v <=? max_msg ÷ 1000000)) with ((1000 <=? v) && (v * 1000000 <=? max_msg));
    [reflexivity|].
  destruct (1000 <=? v) eqn:A; cbn [andb]; [|reflexivity].
  destruct (v * 1000000 <=? max_msg) eqn:B; destruct (v <=? max_msg ÷ 1000000) eqn:C; try reflexivity; exfalso; lia.
Qed.

Corollary set_msg_timeout_accept_iff : forall max_msg cur v,
  (exists t, set_msg_timeout max_msg cur v = Some t) <->
  (v = 0 \/ (1000 <= v /\ v * 1000000 <= max_msg)).
Proof.
  intros. rewrite set_msg_timeout_spec.
  destruct (v =? 0) eqn:A; [split; [lia | eauto]|].
  destruct ((1000 <=? v) && (v * 1000000 <=? max_msg)) eqn:B.
  - split; [lia | eauto].
  - split; [intros [t X]; discriminate | lia].
Qed.

(* whatever the client negotiates, its msg_timeout stays within max_msg_timeout provided
   the configured default does *)
Corollary set_msg_timeout_bounded : forall max_msg cur v t,
  0 <= cur <= max_msg -> set_msg_timeout max_msg cur v = Some t -> 0 <= t <= max_msg.
Proof.
  intros max_msg cur v t H E. rewrite set_msg_timeout_spec in E.
  destruct (v =? 0); [injection E as <-; exact H|].
  destruct ((1000 <=? v) && (v * 1000000 <=? max_msg)) eqn:B; [|discriminate].
  injection E as <-. lia.
Qed.

(* ------------------------------------------------------------------ ParseInt and /pub?defer= *)
(* the text of an optionally signed decimal integer *)
Definition split_sign (s : bytes) : bool * bytes :=
  match s with
  | c :: r => if N.eqb c 43 then (false, r) else if N.eqb c 45 then (true, r) else (false, s)
  | [] => (false, [])
  end.
Definition int_text (s : bytes) : bool :=
  let '(_, body) := split_sign s in
  negb (match body with [] => true | _ => false end) && all_digits body.
Definition int_value (s : bytes) : Z :=
  let '(neg, body) := split_sign s in
  if neg then - Z.of_N (dec_value body) else Z.of_N (dec_value body).

Lemma parse_int64_spec : forall s,
  parse_int64 s =
    if int_text s && (- 9223372036854775808 <=? int_value s) && (int_value s <=? 9223372036854775807)
    then Some (int_value s) else None.
Proof.
  intro s. unfold parse_int64, int_text, int_value, split_sign.
  destruct s as [|c r]; [reflexivity|].
  destruct (N.eqb c 43) eqn:E1; [|destruct (N.eqb c 45) eqn:E2].
  - destruct r as [|c' r']; [reflexivity|]. cbn [negb andb].
    destruct (all_digits (c' :: r')); [|reflexivity]. cbn [andb].
    set (v := Z.of_N (dec_value (c' :: r'))). assert (0 <= v) by (subst v; lia).
    destruct (v <? 9223372036854775808) eqn:A;
    destruct (-9223372036854775808 <=? v) eqn:B; destruct (v <=? 9223372036854775807) eqn:C;
    cbn [andb]; try reflexivity; exfalso; lia.
  - destruct r as [|c' r']; [reflexivity|]. cbn [negb andb].
    destruct (all_digits (c' :: r')); [|reflexivity]. cbn [andb].
    set (v := Z.of_N (dec_value (c' :: r'))). assert (0 <= v) by (subst v; lia).
    destruct (v <=? 9223372036854775808) eqn:A;
    destruct (-9223372036854775808 <=? - v) eqn:B; destruct (- v <=? 9223372036854775807) eqn:C;
    cbn [andb]; try reflexivity; exfalso; lia.
  - cbn [negb andb].
    destruct (all_digits (c :: r)); [|reflexivity]. cbn [andb].
    set (v := Z.of_N (dec_value (c :: r))). assert (0 <= v) by (subst v; lia).
    destruct (v <? 9223372036854775808) eqn:A;
    destruct (-9223372036854775808 <=? v) eqn:B; destruct (v <=? 9223372036854775807) eqn:C;
    cbn [andb]; try reflexivity; exfalso; lia.
Qed.

(* /pub?defer=s is accepted exactly when s is the text of an integer v with
   0 <= v ms <= max_req, for every spelling (sign, leading zeros, any length) *)
Theorem http_defer_raw_spec : forall max_req s, 0 <= max_req < max_i64 ->
  http_defer_raw max_req s =
    if int_text s && (0 <=? int_value s) && (int_value s * ns_per_ms <=? max_req)
    then DpubDelay (int_value s * ns_per_ms) else DpubInvalid.
Proof.
  intros max_req s H. unfold http_defer_raw. rewrite http_defer_spec by exact H.
  rewrite parse_int64_spec. unfold max_i64, ns_per_ms in *.
  destruct (int_text s); cbn [andb]; [|reflexivity].
  set (v := int_value s).
  destruct (-9223372036854775808 <=? v) eqn:A; destruct (v <=? 9223372036854775807) eqn:B;
  destruct (0 <=? v) eqn:C; destruct (v * 1000000 <=? max_req) eqn:D; cbn [andb];
  rewrite ?C, ?D; cbn [andb]; try reflexivity; exfalso; lia.
Qed.

(* ================================================================== part 2: the channel machine *)
From Coq Require Import Permutation Arith.
From NSQV Require Import proofs.HeapProofs.

Definition ids_if (l : list msg) : list Z := map m_id l.
Definition vals (q : pq) : list Z := map snd (keys (arr q)).

(* the in-flight half and the deferred half of the invariant: each heap is well-formed
   and holds exactly the ids of its map, once each *)
Definition InvIF (c : chan) : Prop :=
  hwf (c_ifq c) /\ cap_ok (c_ifq c) /\ NoDup (ids_if (c_inflight c)) /\
  Permutation (vals (c_ifq c)) (ids_if (c_inflight c)).
Definition InvDF (c : chan) : Prop :=
  hwf (c_dfq c) /\ cap_ok (c_dfq c) /\ NoDup (c_deferred c) /\
  Permutation (vals (c_dfq c)) (c_deferred c).
Definition Inv (c : chan) : Prop := InvIF c /\ InvDF c.

(* ------------------------------------------------------------------ the maps *)
Lemma find_msg_some : forall id l m, find_msg id l = Some m -> In m l /\ m_id m = id.
Proof.
  induction l as [|a r IH]; intros m H; cbn in H; [discriminate|].
  destruct (m_id a =? id) eqn:E.
  - injection H as <-. split; [now left | lia].
  - destruct (IH m H). split; [now right | assumption].
Qed.

Lemma find_msg_none : forall id l, find_msg id l = None -> ~ In id (ids_if l).
Proof.
  induction l as [|a r IH]; intros H; cbn in *; [tauto|].
  destruct (m_id a =? id) eqn:E; [discriminate|]. intros [X|X]; [lia | now apply IH].
Qed.

Lemma find_msg_in : forall id l, In id (ids_if l) -> exists m, find_msg id l = Some m.
Proof.
  induction l as [|a r IH]; intros H; cbn in *; [tauto|].
  destruct (m_id a =? id) eqn:E; [eauto|]. destruct H as [X|X]; [lia | now apply IH].
Qed.

Lemma del_msg_perm : forall id l m, find_msg id l = Some m ->
  Permutation (ids_if l) (id :: ids_if (del_msg id l)).
Proof.
  induction l as [|a r IH]; intros m H; cbn in *; [discriminate|].
  destruct (m_id a =? id) eqn:E.
  - replace (m_id a) with id by lia. reflexivity.
  - cbn. etransitivity; [apply perm_skip, (IH m H) | apply perm_swap].
Qed.

Lemma del_msg_incl : forall id l m, In m (del_msg id l) -> In m l.
Proof.
  induction l as [|a r IH]; intros m H; cbn in *; [tauto|].
  destruct (m_id a =? id); [now right|]. destruct H as [X|X]; [now left | right; now apply IH].
Qed.

Lemma mem_id_iff : forall id l, mem_id id l = true <-> In id l.
Proof.
  intros. unfold mem_id. rewrite existsb_exists. split.
  - intros [x [A B]]. replace id with x by lia. exact A.
  - intro H. exists id. split; [exact H | lia].
Qed.

Lemma del_id_perm : forall id l, In id l -> Permutation l (id :: del_id id l).
Proof.
  induction l as [|a r IH]; intros H; cbn in *; [tauto|].
  destruct (a =? id) eqn:E.
  - replace a with id by lia. reflexivity.
  - destruct H as [X|X]; [lia|]. etransitivity; [apply perm_skip, (IH X) | apply perm_swap].
Qed.

Lemma NoDup_perm_tail : forall (x : Z) l l', NoDup l -> Permutation l (x :: l') ->
  NoDup l' /\ ~ In x l'.
Proof.
  intros x l l' N Pm. assert (N' : NoDup (x :: l')) by (eapply Permutation_NoDup; eauto).
  inversion N'; auto.
Qed.

(* ------------------------------------------------------------------ heap entries by id *)
Lemma vals_perm : forall q q', Permutation (keys (arr q)) (keys (arr q')) -> Permutation (vals q) (vals q').
Proof. intros. unfold vals. now apply Permutation_map. Qed.

Lemma find_item_pos : forall id l it, find_item id l = Some it ->
  exists k, (k < length l)%nat /\ get l k = it /\ val it = id.
Proof.
  unfold find_item. induction l as [|a r IH]; intros it H; cbn in H; [discriminate|].
  destruct (val a =? id) eqn:E.
  - injection H as <-. exists 0%nat. cbn. repeat split; lia.
  - destruct (IH it H) as [k [A [B C]]]. exists (S k). cbn. repeat split; try lia; assumption.
Qed.

Lemma find_item_in : forall id l, In id (map snd (keys l)) -> exists it, find_item id l = Some it.
Proof.
  unfold find_item. induction l as [|a r IH]; intros H; cbn in *; [tauto|].
  destruct (val a =? id) eqn:E; [eauto|]. destruct H as [X|X]; [lia | now apply IH].
Qed.

Lemma removed_vals : forall q i x q', removed q i x q' ->
  Permutation (vals q) (val x :: vals q').
Proof.
  intros q i x q' [_ [_ [Pm _]]]. unfold vals.
  change (val x :: map snd (keys (arr q'))) with (map snd (key x :: keys (arr q'))).
  now apply Permutation_map.
Qed.

Lemma removed_cap_ok_if : forall q i x q', cap_ok q -> if_remove q i = Some (x, q') -> cap_ok q'.
Proof.
  intros q i x q' [C1 C2] E. destruct (if_remove_any q i x q' E) as [_ [[_ [_ [_ L]]] _]].
  assert (cap q' = cap q).
  { rewrite if_remove_shape in E.
    destruct ((i <? 0) || (Z.of_nat (length (arr q)) <=? i)); [discriminate|].
    cbv zeta in E. injection E as _ <-. reflexivity. }
  split; lia.
Qed.

(* ------------------------------------------------------------------ popInFlightMessage *)
Lemma pop_inflight_spec : forall c client id, InvIF c ->
  match pop_inflight c client id with
  | PopErr => True
  | PopBroken => False
  | PopOk m c1 =>
      find_msg id (c_inflight c) = Some m /\ m_client m = client /\ m_id m = id /\
      InvIF c1 /\ c_inflight c1 = del_msg id (c_inflight c) /\
      c_deferred c1 = c_deferred c /\ c_dfq c1 = c_dfq c /\
      ~ In id (ids_if (c_inflight c1)) /\
      (exists k x, removed (c_ifq c) k x (c_ifq c1) /\ val x = id)
  end.
Proof.
  intros c client id [Hq [Cq [Nd Pm]]]. unfold pop_inflight.
  destruct (find_msg id (c_inflight c)) as [m|] eqn:F; [|exact I].
  destruct (m_client m =? client) eqn:O; cbn [negb]; [|exact I].
  destruct (find_msg_some _ _ _ F) as [Min Mid].
  pose proof (del_msg_perm _ _ _ F) as Dp.
  assert (Hin : In id (vals (c_ifq c))).
  { eapply Permutation_in; [apply Permutation_sym, Pm|].
    eapply Permutation_in; [apply Permutation_sym, Dp|]. now left. }
  destruct (find_item_in id (arr (c_ifq c)) Hin) as [it Fi]. rewrite Fi.
  destruct (find_item_pos _ _ _ Fi) as [k [Hk [Gk Vk]]].
  assert (Ik : idx it = Z.of_nat k) by (rewrite <- Gk; apply Hq; exact Hk).
  replace (idx it =? -1) with false by lia.
  destruct (if_remove (c_ifq c) (idx it)) as [[x q']|] eqn:R.
  2:{ assert (exists r, if_remove (c_ifq c) (idx it) = Some r) as [r Er]
        by (apply if_remove_defined; lia). congruence. }
  destruct (if_remove_wf _ _ _ _ Hq R) as [Hq' Rm].
  rewrite Ik, Nat2Z.id in Rm.
  assert (Vx : val x = id).
  { destruct Rm as [K _]. rewrite Gk in K. unfold key in K. injection K as _ K. lia. }
  pose proof (removed_vals _ _ _ _ Rm) as Pv. rewrite Vx in Pv.
  destruct (NoDup_perm_tail id _ _ Nd Dp) as [Nd' Nin].
  repeat split; cbn [c_inflight c_ifq c_deferred c_dfq]; try assumption; try lia; try apply Hq'.
  - eapply removed_cap_ok_if; eauto.
  - eapply removed_cap_ok_if; eauto.
  - apply Permutation_cons_inv with (a := id).
    etransitivity; [apply Permutation_sym, Pv|]. etransitivity; [exact Pm | exact Dp].
  - exists k, x. split; assumption.
Qed.

(* ------------------------------------------------------------------ pushInFlightMessage + heap push *)
Lemma push_inflight_spec : forall c m p, InvIF c ->
  match push_inflight c m p with
  | None => In (m_id m) (ids_if (c_inflight c))
  | Some c1 =>
      InvIF c1 /\ c_inflight c1 = m :: c_inflight c /\
      c_deferred c1 = c_deferred c /\ c_dfq c1 = c_dfq c /\
      Permutation (keys (arr (c_ifq c1))) ((p, m_id m) :: keys (arr (c_ifq c)))
  end.
Proof.
  intros c m p [Hq [Cq [Nd Pm]]]. unfold push_inflight.
  destruct (find_msg (m_id m) (c_inflight c)) as [m'|] eqn:F.
  - destruct (find_msg_some _ _ _ F) as [A B]. rewrite <- B. unfold ids_if. now apply in_map.
  - destruct (if_push_total (c_ifq c) p (m_id m) Cq) as [q' [E Cq']]. rewrite E.
    destruct (if_push_wf _ _ _ _ Hq E) as [Hq' Pk].
    repeat split; cbn [c_inflight c_ifq c_deferred c_dfq]; try assumption; try apply Hq'; try apply Cq'.
    + cbn. constructor; [now apply find_msg_none | exact Nd].
    + unfold vals. etransitivity; [apply Permutation_map, Pk|]. cbn. now constructor.
Qed.

(* ------------------------------------------------------------------ StartDeferredTimeout *)
Lemma start_deferred_spec : forall c now id delay, InvDF c ->
  let '(c1, x) := start_deferred c now id delay in
  x <> Broken /\ InvDF c1 /\ c_inflight c1 = c_inflight c /\ c_ifq c1 = c_ifq c /\
  (x = Ok -> Permutation (keys (arr (c_dfq c1))) ((now + delay, id) :: keys (arr (c_dfq c)))) /\
  (x <> Ok -> c1 = c).
Proof.
  intros c now id delay [Hq [Cq [Nd Pm]]]. unfold start_deferred.
  destruct (mem_id id (c_deferred c)) eqn:M.
  - split; [discriminate|]. split; [exact (conj Hq (conj Cq (conj Nd Pm)))|].
    split; [reflexivity|]. split; [reflexivity|]. split; [discriminate | reflexivity].
  - destruct (ch_push_total (c_dfq c) (start_deadline now delay) id Cq) as [q' [E Cq']]. rewrite E.
    destruct (ch_push_wf _ _ _ _ Hq E) as [Hq' Pk].
    split; [discriminate|]. split; [|split; [reflexivity|split; [reflexivity|split]]].
    + split; [exact Hq'|]. split; [exact Cq'|]. cbn [c_deferred c_dfq]. split.
      * constructor; [|exact Nd]. intro X. apply mem_id_iff in X. congruence.
      * unfold vals. etransitivity; [apply Permutation_map, Pk|]. cbn. now constructor.
    + intros _. exact Pk.
    + intro X. congruence.
Qed.

(* ------------------------------------------------------------------ capacity through PeekAndShift *)
Lemma shrink_ok : forall c n, (1 <= c)%nat -> (n <= c)%nat -> (0 < n)%nat ->
  (1 <= shrink c n)%nat /\ (n - 1 <= shrink c n)%nat.
Proof.
  intros c n H1 H2 H3. unfold shrink.
  destruct ((n <? c / 2)%nat && (25 <? c)%nat) eqn:E; [|lia].
  apply andb_true_iff in E. destruct E as [A B].
  apply Nat.ltb_lt in A. apply Nat.ltb_lt in B.
  assert (12 <= c / 2)%nat by (apply Nat.div_le_lower_bound; lia). lia.
Qed.

Lemma if_pop_core_cap : forall q, arr q <> [] -> cap (snd (if_pop_core q)) = shrink (cap q) (length (arr q)).
Proof. intros q _. unfold if_pop_core. cbv zeta. destruct (take_last _). reflexivity. Qed.

Lemma ch_remove_core_cap : forall q i, cap (snd (ch_remove_core q i)) = shrink (cap q) (length (arr q)).
Proof. intros q i. unfold ch_remove_core. cbv zeta. destruct (take_last _). reflexivity. Qed.

Lemma if_peek_cap_ok : forall q t, cap_ok q -> cap_ok (snd (if_peek q t)).
Proof.
  intros q t CO. pose proof CO as [C1 C2]. destruct (if_peek q t) as [[d|x] q'] eqn:E.
  - unfold if_peek in E. destruct (arr q) as [|a r] eqn:EA.
    + injection E as _ <-. exact CO.
    + destruct (pri a >? t); [injection E as _ <-; exact CO|].
      destruct (if_pop_core q). discriminate.
  - destruct (if_peek_never_early q t x q' E) as [_ [_ [_ [_ L]]]].
    assert (Ne : arr q <> []) by (intro X; rewrite X in L; cbn in L; lia).
    assert (Cq : cap q' = shrink (cap q) (length (arr q))).
    { pose proof (if_pop_core_cap q Ne) as X.
      unfold if_peek in E. destruct (arr q) as [|a r] eqn:EA; [congruence|].
      destruct (pri a >? t); [discriminate|].
      destruct (if_pop_core q) as [y q1].
      injection E as _ <-. exact X. }
    cbn [snd]. destruct (shrink_ok (cap q) (length (arr q)) C1 C2 ltac:(lia)). split; lia.
Qed.

Lemma ch_peek_cap_ok : forall q t, cap_ok q -> cap_ok (snd (ch_peek q t)).
Proof.
  intros q t CO. pose proof CO as [C1 C2]. destruct (ch_peek q t) as [[d|x] q'] eqn:E.
  - unfold ch_peek in E. destruct (arr q) as [|a r] eqn:EA.
    + injection E as _ <-. exact CO.
    + destruct (pri a >? t); [injection E as _ <-; exact CO|].
      destruct (ch_remove_core q 0). discriminate.
  - destruct (ch_peek_never_early q t x q' E) as [_ [_ [_ [_ L]]]].
    assert (Cq : cap q' = shrink (cap q) (length (arr q))).
    { pose proof (ch_remove_core_cap q 0) as X.
      unfold ch_peek in E. destruct (arr q) as [|a r] eqn:EA; [discriminate|].
      destruct (pri a >? t); [discriminate|].
      destruct (ch_remove_core q 0) as [y q1].
      injection E as _ <-. exact X. }
    cbn [snd]. destruct (shrink_ok (cap q) (length (arr q)) C1 C2 ltac:(lia)). split; lia.
Qed.

(* ------------------------------------------------------------------ the scan loops of the channel *)
(* with map and heap in step, the channel's loop is the queue's scan and keeps them in step *)
Lemma scan_inflight_spec : forall f mp q t,
  hwf q -> cap_ok q -> NoDup (ids_if mp) -> Permutation (vals q) (ids_if mp) ->
  let '(mp', q', ids) := scan_inflight f mp q t in
  q' = snd (scan if_peek f q t) /\ ids = map val (fst (scan if_peek f q t)) /\
  hwf q' /\ cap_ok q' /\ NoDup (ids_if mp') /\ Permutation (vals q') (ids_if mp') /\
  (forall m, In m mp' -> In m mp).
Proof.
  induction f as [|f IH]; intros mp q t Hq Cq Nd Pm; cbn [scan_inflight scan].
  - repeat split; auto; try apply Hq; try apply Cq.
  - pose proof (if_peek_spec q t Hq) as Sp. pose proof (if_peek_cap_ok q t Cq) as Cp.
    destruct (if_peek q t) as [[d|x] q1] eqn:Pk; cbn [snd] in Cp.
    + destruct Sp as [-> _]. repeat split; auto; try apply Hq; try apply Cq.
    + destruct Sp as [Hq1 _].
      destruct (if_peek_never_early q t x q1 Pk) as [_ Rm].
      pose proof (removed_vals _ _ _ _ Rm) as Pv.
      assert (Hin : In (val x) (ids_if mp)).
      { eapply Permutation_in; [exact Pm|]. eapply Permutation_in; [apply Permutation_sym, Pv|]. now left. }
      destruct (find_msg_in _ _ Hin) as [m F]. rewrite F.
      pose proof (del_msg_perm _ _ _ F) as Dp.
      destruct (NoDup_perm_tail _ _ _ Nd Dp) as [Nd' _].
      assert (Pm' : Permutation (vals q1) (ids_if (del_msg (val x) mp))).
      { apply Permutation_cons_inv with (a := val x).
        etransitivity; [apply Permutation_sym, Pv|]. etransitivity; [exact Pm | exact Dp]. }
      specialize (IH (del_msg (val x) mp) q1 t Hq1 Cp Nd' Pm').
      destruct (scan_inflight f (del_msg (val x) mp) q1 t) as [[mp2 q2] ids2].
      destruct (scan if_peek f q1 t) as [o q3]. cbn [fst snd] in *.
      destruct IH as [A [B [C [D [E [F' G]]]]]].
      repeat split; auto; try apply C; try apply D.
      * now rewrite B.
      * intros m' Hm'. eapply del_msg_incl, G, Hm'.
Qed.

Lemma scan_deferred_spec : forall f mp q t,
  hwf q -> cap_ok q -> NoDup mp -> Permutation (vals q) mp ->
  let '(mp', q', ids) := scan_deferred f mp q t in
  q' = snd (scan ch_peek f q t) /\ ids = map val (fst (scan ch_peek f q t)) /\
  hwf q' /\ cap_ok q' /\ NoDup mp' /\ Permutation (vals q') mp'.
Proof.
  induction f as [|f IH]; intros mp q t Hq Cq Nd Pm; cbn [scan_deferred scan].
  - repeat split; auto; try apply Hq; try apply Cq.
  - pose proof (ch_peek_spec q t Hq) as Sp. pose proof (ch_peek_cap_ok q t Cq) as Cp.
    destruct (ch_peek q t) as [[d|x] q1] eqn:Pk; cbn [snd] in Cp.
    + destruct Sp as [-> _]. repeat split; auto; try apply Hq; try apply Cq.
    + destruct Sp as [Hq1 _].
      destruct (ch_peek_never_early q t x q1 Pk) as [_ Rm].
      pose proof (removed_vals _ _ _ _ Rm) as Pv.
      assert (Hin : In (val x) mp).
      { eapply Permutation_in; [exact Pm|]. eapply Permutation_in; [apply Permutation_sym, Pv|]. now left. }
      replace (mem_id (val x) mp) with true by (symmetry; now apply mem_id_iff).
      pose proof (del_id_perm _ _ Hin) as Dp.
      destruct (NoDup_perm_tail _ _ _ Nd Dp) as [Nd' _].
      assert (Pm' : Permutation (vals q1) (del_id (val x) mp)).
      { apply Permutation_cons_inv with (a := val x).
        etransitivity; [apply Permutation_sym, Pv|]. etransitivity; [exact Pm | exact Dp]. }
      specialize (IH (del_id (val x) mp) q1 t Hq1 Cp Nd' Pm').
      destruct (scan_deferred f (del_id (val x) mp) q1 t) as [[mp2 q2] ids2].
      destruct (scan ch_peek f q1 t) as [o q3]. cbn [fst snd] in *.
      destruct IH as [A [B [C [D [E F']]]]].
      repeat split; auto; try apply C; try apply D. now rewrite B.
Qed.

(* ------------------------------------------------------------------ every step keeps the invariant *)
Lemma InvDF_ext : forall c c1, c_deferred c1 = c_deferred c -> c_dfq c1 = c_dfq c -> InvDF c -> InvDF c1.
Proof. intros c c1 A B H. unfold InvDF in *. now rewrite A, B. Qed.
Lemma InvIF_ext : forall c c1, c_inflight c1 = c_inflight c -> c_ifq c1 = c_ifq c -> InvIF c -> InvIF c1.
Proof. intros c c1 A B H. unfold InvIF in *. now rewrite A, B. Qed.

Theorem inv_empty : forall capacity, (1 <= capacity)%nat -> Inv (empty_chan capacity).
Proof.
  intros capacity H. unfold empty_chan.
  assert (E : hwf (mkPq [] capacity)) by (split; intros k Hk; cbn in Hk; lia).
  assert (C : cap_ok (mkPq [] capacity)) by (split; cbn; lia).
  split; (split; [exact E|]; split; [exact C|]; split; [constructor | reflexivity]).
Qed.

Section MachineProofs.
Variable max_msg : Z.

Theorem step_inv : forall c o, Inv c ->
  Inv (fst (step max_msg c o)) /\ snd (step max_msg c o) <> Broken.
Proof.
  intros c o [HI HD]. destruct o as [now id cl timeout|now id cl mt|id cl|now id cl delay|now id delay|t|t];
    cbn [step].
  - (* StartInFlightTimeout *)
    pose proof (push_inflight_spec c (mkMsg id cl now) (start_deadline now timeout) HI) as S.
    destruct (push_inflight c _ _) as [c1|]; cbn [fst snd].
    + destruct S as [A [_ [B [C _]]]]. split; [split; [exact A | eapply InvDF_ext; eauto] | discriminate].
    + split; [split; assumption | discriminate].
  - (* TouchMessage *)
    pose proof (pop_inflight_spec c cl id HI) as S.
    destruct (pop_inflight c cl id) as [| |m c1]; cbn [fst snd]; [split; [split; assumption|discriminate] | contradiction |].
    destruct S as [_ [_ [Mid [HI1 [_ [D1 [D2 [Nin _]]]]]]]].
    pose proof (push_inflight_spec c1 m (touch_deadline now mt (m_delivery m) max_msg) HI1) as S2.
    destruct (push_inflight c1 m _) as [c2|]; cbn [fst snd].
    + destruct S2 as [A [_ [B [C _]]]].
      split; [split; [exact A | eapply InvDF_ext; [| |exact HD]; congruence] | discriminate].
    + rewrite Mid in S2. contradiction.
  - (* FinishMessage *)
    pose proof (pop_inflight_spec c cl id HI) as S.
    destruct (pop_inflight c cl id) as [| |m c1]; cbn [fst snd]; [split; [split; assumption|discriminate] | contradiction |].
    destruct S as [_ [_ [_ [HI1 [_ [D1 [D2 _]]]]]]].
    split; [split; [exact HI1 | eapply InvDF_ext; eauto] | discriminate].
  - (* RequeueMessage *)
    pose proof (pop_inflight_spec c cl id HI) as S.
    destruct (pop_inflight c cl id) as [| |m c1]; cbn [fst snd]; [split; [split; assumption|discriminate] | contradiction |].
    destruct S as [_ [_ [_ [HI1 [_ [D1 [D2 _]]]]]]].
    assert (HD1 : InvDF c1) by (eapply InvDF_ext; eauto).
    destruct (delay =? 0); cbn [fst snd]; [split; [split; assumption | discriminate]|].
    pose proof (start_deferred_spec c1 now id delay HD1) as S2.
    destruct (start_deferred c1 now id delay) as [c2 x]. cbn [fst snd].
    destruct S2 as [NB [HD2 [E1 [E2 _]]]].
    split; [split; [eapply InvIF_ext; eauto | exact HD2] | exact NB].
  - (* PutMessageDeferred *)
    pose proof (start_deferred_spec c now id delay HD) as S2.
    destruct (start_deferred c now id delay) as [c2 x]. cbn [fst snd].
    destruct S2 as [NB [HD2 [E1 [E2 _]]]].
    split; [split; [eapply InvIF_ext; eauto | exact HD2] | exact NB].
  - (* processInFlightQueue *)
    destruct HI as [Hq [Cq [Nd Pm]]].
    pose proof (scan_inflight_spec (S (length (arr (c_ifq c)))) (c_inflight c) (c_ifq c) t Hq Cq Nd Pm) as S.
    destruct (scan_inflight _ _ _ _) as [[mp q'] ids]. cbn [fst snd].
    destruct S as [_ [_ [A [B [C [D _]]]]]].
    split; [split; [repeat split; cbn; try assumption; try apply A; try apply B | exact HD] | discriminate].
  - (* processDeferredQueue *)
    destruct HD as [Hq [Cq [Nd Pm]]].
    pose proof (scan_deferred_spec (S (length (arr (c_dfq c)))) (c_deferred c) (c_dfq c) t Hq Cq Nd Pm) as S.
    destruct (scan_deferred _ _ _ _) as [[mp q'] ids]. cbn [fst snd].
    destruct S as [_ [_ [A [B [C D]]]]].
    split; [split; [exact HI | repeat split; cbn; try assumption; try apply A; try apply B] | discriminate].
Qed.

(* ... hence every history from the empty channel: no step is ever Broken (no Go panic,
   map and heap never out of step), and the invariant holds at every state *)
Theorem run_inv : forall ops c, Inv c ->
  Inv (fst (run max_msg c ops)) /\ ~ In Broken (snd (run max_msg c ops)).
Proof.
  induction ops as [|o r IH]; intros c H; cbn [run].
  - split; [exact H | intros []].
  - destruct (step_inv c o H) as [H1 NB].
    destruct (step max_msg c o) as [c1 x]. cbn [fst snd] in *.
    destruct (IH c1 H1) as [H2 NB2]. destruct (run max_msg c1 r) as [c2 xs]. cbn [fst snd] in *.
    split; [exact H2|]. intros [X|X]; [now apply NB | now apply NB2].
Qed.

End MachineProofs.

(* ------------------------------------------------------------------ never early / exactly the due ones, at the channel *)
(* whatever the state (no invariant needed): every message a timeout scan at t puts back on
   the queue had a heap entry with deadline <= t *)
Theorem scan_inflight_never_early : forall f mp q t,
  let '(_, _, ids) := scan_inflight f mp q t in
  forall id, In id ids -> exists p, In (p, id) (keys (arr q)) /\ p <= t.
Proof.
  induction f as [|f IH]; intros mp q t; cbn [scan_inflight]; [intros id []|].
  destruct (if_peek q t) as [[d|x] q1] eqn:Pk; [intros id []|].
  destruct (if_peek_never_early q t x q1 Pk) as [Le Rm].
  destruct (find_msg (val x) mp); [|intros id []].
  specialize (IH (del_msg (val x) mp) q1 t).
  destruct (scan_inflight f (del_msg (val x) mp) q1 t) as [[mp2 q2] ids2].
  destruct Rm as [K [_ [Pm _]]].
  intros id [<-|Hin].
  - exists (pri x). split; [|exact Le].
    eapply Permutation_in; [apply Permutation_sym, Pm|]. now left.
  - destruct (IH id Hin) as [p [A B]]. exists p. split; [|exact B].
    eapply Permutation_in; [apply Permutation_sym, Pm|]. now right.
Qed.

Theorem scan_deferred_never_early : forall f mp q t,
  let '(_, _, ids) := scan_deferred f mp q t in
  forall id, In id ids -> exists p, In (p, id) (keys (arr q)) /\ p <= t.
Proof.
  induction f as [|f IH]; intros mp q t; cbn [scan_deferred]; [intros id []|].
  destruct (ch_peek q t) as [[d|x] q1] eqn:Pk; [intros id []|].
  destruct (ch_peek_never_early q t x q1 Pk) as [Le Rm].
  destruct (mem_id (val x) mp); [|intros id []].
  specialize (IH (del_id (val x) mp) q1 t).
  destruct (scan_deferred f (del_id (val x) mp) q1 t) as [[mp2 q2] ids2].
  destruct Rm as [K [_ [Pm _]]].
  intros id [<-|Hin].
  - exists (pri x). split; [|exact Le].
    eapply Permutation_in; [apply Permutation_sym, Pm|]. now left.
  - destruct (IH id Hin) as [p [A B]]. exists p. split; [|exact B].
    eapply Permutation_in; [apply Permutation_sym, Pm|]. now right.
Qed.

Lemma map_snd_keys : forall l, map snd (keys l) = map val l.
Proof. intro l. unfold keys. rewrite map_map. reflexivity. Qed.

Section MachineProofs2.
Variable max_msg : Z.

(* with the invariant: one timeout scan at t releases EXACTLY the in-flight messages whose
   deadline is <= t, and exactly the others stay in flight *)
Theorem scan_inflight_exact : forall c t, Inv c ->
  exists ids, snd (step max_msg c (ScanInFlight t)) = Ready ids /\
  let c' := fst (step max_msg c (ScanInFlight t)) in
  Permutation ids (map snd (filter (due t) (keys (arr (c_ifq c))))) /\
  Permutation (keys (arr (c_ifq c'))) (filter (not_due t) (keys (arr (c_ifq c)))) /\
  Permutation (ids_if (c_inflight c')) (map snd (filter (not_due t) (keys (arr (c_ifq c))))).
Proof.
  intros c t [[Hq [Cq [Nd Pm]]] _]. cbn [step].
  pose proof (scan_inflight_spec (S (length (arr (c_ifq c)))) (c_inflight c) (c_ifq c) t Hq Cq Nd Pm) as S.
  destruct (scan_inflight _ _ _ _) as [[mp q'] ids]. cbn [fst snd c_ifq c_inflight].
  destruct S as [Eq [Ei [_ [_ [_ [Pm' _]]]]]].
  destruct (scan if_peek (S (length (arr (c_ifq c)))) (c_ifq c) t) as [outs q''] eqn:Sc. cbn [fst snd] in *.
  destruct (if_scan_complete (c_ifq c) t outs q'' Hq Sc) as [A [B _]].
  exists ids. split; [reflexivity|]. subst q' ids. split; [|split].
  - rewrite <- map_snd_keys. now apply Permutation_map.
  - exact B.
  - etransitivity; [apply Permutation_sym, Pm'|]. unfold vals. now apply Permutation_map.
Qed.

Theorem scan_deferred_exact : forall c t, Inv c ->
  exists ids, snd (step max_msg c (ScanDeferred t)) = Ready ids /\
  let c' := fst (step max_msg c (ScanDeferred t)) in
  Permutation ids (map snd (filter (due t) (keys (arr (c_dfq c))))) /\
  Permutation (keys (arr (c_dfq c'))) (filter (not_due t) (keys (arr (c_dfq c)))) /\
  Permutation (c_deferred c') (map snd (filter (not_due t) (keys (arr (c_dfq c))))).
Proof.
  intros c t [_ [Hq [Cq [Nd Pm]]]]. cbn [step].
  pose proof (scan_deferred_spec (S (length (arr (c_dfq c)))) (c_deferred c) (c_dfq c) t Hq Cq Nd Pm) as S.
  destruct (scan_deferred _ _ _ _) as [[mp q'] ids]. cbn [fst snd c_dfq c_deferred].
  destruct S as [Eq [Ei [_ [_ [_ Pm']]]]].
  destruct (scan ch_peek (S (length (arr (c_dfq c)))) (c_dfq c) t) as [outs q''] eqn:Sc. cbn [fst snd] in *.
  destruct (ch_scan_complete (c_dfq c) t outs q'' Hq Sc) as [A [B _]].
  exists ids. split; [reflexivity|]. subst q' ids. split; [|split].
  - rewrite <- map_snd_keys. now apply Permutation_map.
  - exact B.
  - etransitivity; [apply Permutation_sym, Pm'|]. unfold vals. now apply Permutation_map.
Qed.

(* ------------------------------------------------------------------ which deadline an operation sets *)
Lemma unique_deadline : forall q p p' id, NoDup (vals q) ->
  In (p, id) (keys (arr q)) -> In (p', id) (keys (arr q)) -> p = p'.
Proof.
  intros q p p' id. unfold vals. induction (keys (arr q)) as [|[a b] r IH]; intros N A B; [destruct A|].
  cbn in N. inversion N as [|? ? Nin N']. subst.
  destruct A as [A|A]; destruct B as [B|B].
  - congruence.
  - injection A as -> ->. exfalso. apply Nin. now apply (in_map snd) in B.
  - injection B as -> ->. exfalso. apply Nin. now apply (in_map snd) in A.
  - now apply IH.
Qed.

Lemma inv_vals_nodup : forall c, Inv c -> NoDup (vals (c_ifq c)) /\ NoDup (vals (c_dfq c)).
Proof.
  intros c [[_ [_ [N1 P1]]] [_ [_ [N2 P2]]]].
  split; eapply Permutation_NoDup; [apply Permutation_sym, P1 | exact N1 | apply Permutation_sym, P2 | exact N2].
Qed.

(* StartInFlightTimeout: deadline = now + timeout, deliveryTS = now *)
Theorem start_sets_deadline : forall c now id cl timeout c', Inv c ->
  step max_msg c (StartInFlight now id cl timeout) = (c', Ok) ->
  In (now + timeout, id) (keys (arr (c_ifq c'))) /\ In (mkMsg id cl now) (c_inflight c').
Proof.
  intros c now id cl timeout c' [HI _] E. cbn [step] in E.
  pose proof (push_inflight_spec c (mkMsg id cl now) (start_deadline now timeout) HI) as S.
  destruct (push_inflight c _ _) as [c1|]; [|discriminate]. injection E as <-.
  destruct S as [_ [A [_ [_ B]]]]. split.
  - eapply Permutation_in; [apply Permutation_sym, B|]. now left.
  - rewrite A. now left.
Qed.

(* TouchMessage: deadline = min(now + msg_timeout, deliveryTS + max-msg-timeout) *)
Theorem touch_sets_deadline : forall c now id cl mt c', Inv c ->
  step max_msg c (Touch now id cl mt) = (c', Ok) ->
  exists m, find_msg id (c_inflight c) = Some m /\ m_client m = cl /\
    In (Z.min (now + mt) (m_delivery m + max_msg), id) (keys (arr (c_ifq c'))) /\
    In m (c_inflight c').
Proof.
  intros c now id cl mt c' [HI _] E. cbn [step] in E.
  pose proof (pop_inflight_spec c cl id HI) as S.
  destruct (pop_inflight c cl id) as [| |m c1]; try discriminate; try contradiction.
  destruct S as [F [O [Mid [HI1 _]]]].
  pose proof (push_inflight_spec c1 m (touch_deadline now mt (m_delivery m) max_msg) HI1) as S2.
  destruct (push_inflight c1 m _) as [c2|]; [|discriminate]. injection E as <-.
  destruct S2 as [_ [A [_ [_ B]]]]. exists m. repeat split; try assumption.
  - rewrite <- touch_deadline_min, <- Mid.
    eapply Permutation_in; [apply Permutation_sym, B|]. now left.
  - rewrite A. now left.
Qed.

(* a deferred publish / a delayed requeue: release time = now + delay *)
Theorem putdef_sets_deadline : forall c now id delay c', Inv c ->
  step max_msg c (PutDeferred now id delay) = (c', Ok) ->
  In (now + delay, id) (keys (arr (c_dfq c'))).
Proof.
  intros c now id delay c' [_ HD] E. cbn [step] in E.
  pose proof (start_deferred_spec c now id delay HD) as S. rewrite E in S.
  destruct S as [_ [_ [_ [_ [B _]]]]].
  eapply Permutation_in; [apply Permutation_sym, B; reflexivity|]. now left.
Qed.

Theorem requeue_sets_deadline : forall c now id cl delay c', Inv c -> delay <> 0 ->
  step max_msg c (Requeue now id cl delay) = (c', Ok) ->
  In (now + delay, id) (keys (arr (c_dfq c'))).
Proof.
  intros c now id cl delay c' [HI HD] Nz E. cbn [step] in E.
  pose proof (pop_inflight_spec c cl id HI) as S.
  destruct (pop_inflight c cl id) as [| |m c1]; try discriminate; try contradiction.
  destruct S as [_ [_ [_ [_ [_ [D1 [D2 _]]]]]]].
  replace (delay =? 0) with false in E by lia.
  assert (HD1 : InvDF c1) by (eapply InvDF_ext; eauto).
  pose proof (start_deferred_spec c1 now id delay HD1) as S. rewrite E in S.
  destruct S as [_ [_ [_ [_ [B _]]]]].
  eapply Permutation_in; [apply Permutation_sym, B; reflexivity|]. now left.
Qed.

(* ------------------------------------------------------------------ the TOUCH cap as a state invariant *)
Definition Capped (c : chan) : Prop :=
  forall p v m, In (p, v) (keys (arr (c_ifq c))) -> In m (c_inflight c) -> m_id m = v ->
    p <= m_delivery m + max_msg.

Definition op_ok (o : op) : Prop :=
  match o with StartInFlight _ _ _ timeout => timeout <= max_msg | _ => True end.

Lemma pop_capped : forall c cl id m c1, InvIF c -> Capped c ->
  pop_inflight c cl id = PopOk m c1 -> Capped c1.
Proof.
  intros c cl id m c1 HI Cp E. pose proof (pop_inflight_spec c cl id HI) as S. rewrite E in S.
  destruct S as [_ [_ [_ [_ [Dl [_ [_ [_ [k [x [[_ [_ [Pm _]]] _]]]]]]]]]]].
  intros p v m' A B C. apply (Cp p v m'); [|rewrite Dl in B; eapply del_msg_incl; eauto|exact C].
  eapply Permutation_in; [apply Permutation_sym, Pm|]. now right.
Qed.

Lemma push_capped : forall c m p c1, InvIF c -> Capped c -> p <= m_delivery m + max_msg ->
  push_inflight c m p = Some c1 -> Capped c1.
Proof.
  intros c m p c1 HI Cp Hp E. pose proof (push_inflight_spec c m p HI) as S. rewrite E in S.
  destruct S as [[_ [_ [Nd _]]] [A [_ [_ B]]]]. rewrite A in Nd. cbn in Nd.
  inversion Nd as [|? ? Nin _]. subst.
  destruct HI as [_ [_ [_ Pm]]].
  intros p' v m' X Y Z. rewrite A in Y.
  apply (Permutation_in _ B) in X.
  destruct X as [X|X]; destruct Y as [Y|Y].
  - injection X as <- <-. subst m'. exact Hp.
  - injection X as <- <-. exfalso. apply Nin. rewrite <- Z. unfold ids_if. now apply in_map.
  - subst m'. exfalso. apply Nin. eapply Permutation_in; [exact Pm|].
    unfold vals. rewrite Z. change v with (snd (p', v)). now apply in_map.
  - now apply (Cp p' v m').
Qed.

Theorem step_capped : forall c o, Inv c -> Capped c -> op_ok o -> Capped (fst (step max_msg c o)).
Proof.
  intros c o [HI HD] Cp Ok.
  destruct o as [now id cl timeout|now id cl mt|id cl|now id cl delay|now id delay|t|t]; cbn [step].
  - destruct (push_inflight c _ _) as [c1|] eqn:E; cbn [fst]; [|exact Cp].
    eapply push_capped; [exact HI | exact Cp | | exact E]. cbn in *. unfold start_deadline. lia.
  - pose proof (pop_inflight_spec c cl id HI) as S.
    destruct (pop_inflight c cl id) as [| |m c1] eqn:E; cbn [fst]; try exact Cp.
    destruct S as [_ [_ [_ [HI1 _]]]].
    pose proof (pop_capped _ _ _ _ _ HI Cp E) as Cp1.
    destruct (push_inflight c1 m _) as [c2|] eqn:E2; cbn [fst]; [|exact Cp1].
    eapply push_capped; [exact HI1 | exact Cp1 | apply touch_deadline_cap | exact E2].
  - destruct (pop_inflight c cl id) as [| |m c1] eqn:E; cbn [fst]; try exact Cp.
    eapply pop_capped; eauto.
  - pose proof (pop_inflight_spec c cl id HI) as S.
    destruct (pop_inflight c cl id) as [| |m c1] eqn:E; cbn [fst]; try exact Cp.
    pose proof (pop_capped _ _ _ _ _ HI Cp E) as Cp1.
    destruct (delay =? 0); cbn [fst]; [exact Cp1|].
    destruct S as [_ [_ [_ [_ [_ [D1 [D2 _]]]]]]].
    assert (HD1 : InvDF c1) by (eapply InvDF_ext; eauto).
    pose proof (start_deferred_spec c1 now id delay HD1) as S2.
    destruct (start_deferred c1 now id delay) as [c2 x]. cbn [fst].
    destruct S2 as [_ [_ [E1 [E2 _]]]]. unfold Capped in *. now rewrite E1, E2.
  - pose proof (start_deferred_spec c now id delay HD) as S2.
    destruct (start_deferred c now id delay) as [c2 x]. cbn [fst].
    destruct S2 as [_ [_ [E1 [E2 _]]]]. unfold Capped in *. now rewrite E1, E2.
  - destruct HI as [Hq [Cq [Nd Pm]]].
    pose proof (scan_inflight_spec (S (length (arr (c_ifq c)))) (c_inflight c) (c_ifq c) t Hq Cq Nd Pm) as S.
    destruct (scan_inflight _ _ _ _) as [[mp q'] ids]. cbn [fst].
    destruct S as [Eq [_ [_ [_ [_ [_ Sub]]]]]].
    destruct (scan if_peek (S (length (arr (c_ifq c)))) (c_ifq c) t) as [outs q''] eqn:Sc. cbn [snd] in Eq.
    destruct (if_scan_complete (c_ifq c) t outs q'' Hq Sc) as [_ [B _]]. subst q'.
    intros p v m A B' C. cbn [c_ifq c_inflight] in *.
    apply (Cp p v m); [|now apply Sub|exact C].
    apply (Permutation_in _ B) in A. apply filter_In in A. tauto.
  - destruct (scan_deferred _ _ _ _) as [[mp q'] ids]. cbn [fst]. exact Cp.
Qed.

(* every history from a state satisfying the invariants, with every negotiated
   msg_timeout <= max-msg-timeout: at every state every in-flight deadline is
   <= deliveryTS + max-msg-timeout, whatever the TOUCH pattern *)
Theorem run_capped : forall ops c, Inv c -> Capped c -> Forall op_ok ops ->
  Capped (fst (run max_msg c ops)).
Proof.
  induction ops as [|o r IH]; intros c H Cp Ok; cbn [run]; [exact Cp|].
  inversion Ok as [|? ? O1 O2]. subst.
  pose proof (step_capped c o H Cp O1) as Cp1. destruct (step_inv max_msg c o H) as [H1 _].
  destruct (step max_msg c o) as [c1 x]. cbn [fst] in *.
  specialize (IH c1 H1 Cp1 O2). destruct (run max_msg c1 r) as [c2 xs]. exact IH.
Qed.

Lemma capped_empty : forall capacity, Capped (empty_chan capacity).
Proof. intros capacity p v m []. Qed.

End MachineProofs2.

(* ------------------------------------------------------------------ from the empty channel *)
Theorem reachable_inv : forall max_msg capacity ops, (1 <= capacity)%nat ->
  Inv (fst (run max_msg (empty_chan capacity) ops)) /\
  ~ In Broken (snd (run max_msg (empty_chan capacity) ops)).
Proof. intros. apply run_inv, inv_empty. assumption. Qed.

Theorem reachable_capped : forall max_msg capacity ops, (1 <= capacity)%nat ->
  Forall (op_ok max_msg) ops -> Capped max_msg (fst (run max_msg (empty_chan capacity) ops)).
Proof. intros. apply run_capped; [now apply inv_empty | apply capped_empty | assumption]. Qed.
