(* Proofs about model/PathLock.v (the data-path lock clause of C06).

   For every life program that passes the static check [life_ok] -- every step that concerns
   the data path is made while the flock is held, the flock is given up only when no
   background goroutine is left -- and for EVERY schedule of any number of daemon processes
   on one data path (starts, steps, background writes, SIGKILLs in any interleaving):
     - no process ever touches the path, or has background goroutines running, without
       holding the flock (no_clash);
     - a process that is past its flock and not yet done with the path IS the flock owner,
       hence at most one process uses the path at any instant (user_owns, exclusive);
     - while one uses it, the flock step of any other process fails and ends that process,
       leaving the user and the lock as they were (second_refused).
   The life program built from the source table passes the check (life_src_ok). *)
From Coq Require Import List String Bool Arith Lia.
From NSQV Require Import gen.MetaShape model.MetaSrc model.PathLock.
Import ListNotations.

Lemma upd_same : forall f d v, upd f d v d = v.
Proof. intros. unfold upd. now rewrite Nat.eqb_refl. Qed.
Lemma upd_other : forall f d v x, x <> d -> upd f d v x = f x.
Proof.
  intros f d v x H. unfold upd. destruct (Nat.eqb x d) eqn:E; auto.
  apply Nat.eqb_eq in E. contradiction.
Qed.

Definition holds_o (o : option nat) (d : nat) : bool :=
  match o with Some x => Nat.eqb x d | None => false end.
Lemma holds_eq : forall w d, holds w d = holds_o (owner w) d.
Proof. reflexivity. Qed.
Lemma release_eq : forall w d, release w d = if holds_o (owner w) d then None else owner w.
Proof. reflexivity. Qed.
Lemma rel_other : forall o d d', d' <> d -> holds_o (if holds_o o d then None else o) d' = holds_o o d'.
Proof.
  intros o d d' N. destruct o as [x|]; simpl; auto.
  destruct (Nat.eqb x d) eqn:E; simpl; auto.
  apply Nat.eqb_eq in E; subst. symmetry. apply Nat.eqb_neq. auto.
Qed.
Lemma rel_self : forall o d, holds_o (if holds_o o d then None else o) d = false.
Proof.
  intros o d. destruct o as [x|]; simpl; auto.
  destruct (Nat.eqb x d) eqn:E; simpl; auto.
Qed.
Lemma holds_o_true : forall o d, holds_o o d = true -> o = Some d.
Proof.
  intros o d H. destruct o as [x|]; simpl in H; [|discriminate].
  apply Nat.eqb_eq in H. now subst.
Qed.

Definition proc_ok (o : option nat) (d : nat) (p : proc) : Prop :=
  ok_from (holds_o o d) (bg p) (todo p) = true /\ (bg p = true -> holds_o o d = true).

Record Inv (w : world) : Prop := mkInv {
  inv_clash : clash w = false;
  inv_owner : forall o, owner w = Some o -> procs w o <> None;
  inv_procs : forall d p, procs w d = Some p -> proc_ok (owner w) d p }.

Lemma inv_init : Inv linit.
Proof. constructor; simpl; auto; discriminate. Qed.

(* a process disappears (exit or SIGKILL): the kernel drops its flock *)
Lemma inv_remove : forall w d, Inv w -> Inv (mkW (upd (procs w) d None) (release w d) (clash w)).
Proof.
  intros w d [Hc Ho Hp]. constructor; simpl; auto.
  - intros o Eo. rewrite release_eq in Eo.
    destruct (holds_o (owner w) d) eqn:Eh; [discriminate|].
    assert (o <> d) as N.
    { intro; subst. rewrite Eo in Eh. simpl in Eh. rewrite Nat.eqb_refl in Eh. discriminate. }
    rewrite upd_other by auto. auto.
  - intros d' p'. destruct (Nat.eq_dec d' d) as [->|N].
    + rewrite upd_same. discriminate.
    + rewrite upd_other by auto. intro E. unfold proc_ok.
      rewrite release_eq, rel_other by auto. apply Hp; auto.
Qed.

(* process d goes on to q, the flock stays where it is *)
Lemma inv_set : forall w d q c,
  Inv w -> c = false -> proc_ok (owner w) d q -> Inv (mkW (upd (procs w) d (Some q)) (owner w) c).
Proof.
  intros w d q c [Hc Ho Hp] Ec Hq. constructor; simpl; auto.
  - intros o Eo. destruct (Nat.eq_dec o d) as [->|N].
    + rewrite upd_same. discriminate.
    + rewrite upd_other by auto. auto.
  - intros d' p'. destruct (Nat.eq_dec d' d) as [->|N].
    + rewrite upd_same. intro E. inversion E; subst. exact Hq.
    + rewrite upd_other by auto. apply Hp.
Qed.

Lemma inv_step : forall life, life_ok life = true ->
  forall w e, Inv w -> Inv (lstep_ life w e).
Proof.
  intros life Hl w e HI. pose proof HI as [Hc Ho Hp].
  destruct e as [d|d|d|d]; unfold lstep_.
  - (* start *)
    destruct (procs w d) as [p|] eqn:Ed; [exact HI|].
    apply inv_set; auto. split; simpl; [|discriminate].
    assert (holds_o (owner w) d = false) as ->.
    { destruct (owner w) as [o|] eqn:Eo; simpl; auto.
      destruct (Nat.eqb o d) eqn:E; auto.
      apply Nat.eqb_eq in E; subst. exfalso. apply (Ho d); auto. }
    exact Hl.
  - (* step *)
    destruct (procs w d) as [p|] eqn:Ed; [|exact HI].
    destruct (Hp d p Ed) as [Hok Hbg].
    destruct (todo p) as [|[k s] r] eqn:Et; [apply inv_remove; exact HI|].
    destruct k; cbv zeta; simpl in Hok.
    + (* flock *)
      apply andb_prop in Hok. destruct Hok as [Hok Hr].
      apply andb_prop in Hok. destruct Hok as [Hh Hb].
      destruct (owner w) as [o|] eqn:Eo.
      * (* busy: the process ends *)
        simpl in Hh. apply negb_true_iff in Hh. apply Nat.eqb_neq in Hh.
        constructor; simpl; auto.
        -- intros o' Eo'. inversion Eo'; subst o'. rewrite upd_other by auto. apply Ho; auto.
        -- intros d' p'. destruct (Nat.eq_dec d' d) as [->|N].
           ++ rewrite upd_same. discriminate.
           ++ rewrite upd_other by auto. apply Hp.
      * constructor; simpl; auto.
        -- intros o' Eo'. inversion Eo'; subst o'. rewrite upd_same. discriminate.
        -- intros d' p'. destruct (Nat.eq_dec d' d) as [->|N].
           ++ rewrite upd_same. intro E. inversion E; subst. split; simpl; rewrite Nat.eqb_refl; auto.
           ++ rewrite upd_other by auto. intro E. specialize (Hp d' p' E). unfold proc_ok in *. simpl in *.
              assert (Nat.eqb d d' = false) as -> by (apply Nat.eqb_neq; auto). exact Hp.
    + (* touch *)
      apply andb_prop in Hok. destruct Hok as [Hh Hr].
      apply inv_set; auto.
      * rewrite Hc, holds_eq, Hh. reflexivity.
      * split; simpl; [exact Hr | exact Hbg].
    + (* spawn *)
      apply andb_prop in Hok. destruct Hok as [Hh Hr].
      apply inv_set; auto.
      * rewrite Hc, holds_eq, Hh. reflexivity.
      * split; simpl; [exact Hr | intros _; exact Hh].
    + (* join *)
      apply inv_set; auto. split; simpl; [exact Hok | discriminate].
    + (* unflock *)
      apply andb_prop in Hok. destruct Hok as [Hb Hr]. apply negb_true_iff in Hb.
      constructor; simpl.
      * rewrite Hc, Hb. reflexivity.
      * intros o Eo. rewrite release_eq in Eo.
        destruct (holds_o (owner w) d) eqn:Eh; [discriminate|].
        destruct (Nat.eq_dec o d) as [->|N].
        -- rewrite upd_same. discriminate.
        -- rewrite upd_other by auto. auto.
      * intros d' p'. destruct (Nat.eq_dec d' d) as [->|N].
        -- rewrite upd_same. intro E. inversion E; subst. unfold proc_ok. simpl.
           rewrite release_eq, rel_self, Hb. split; [exact Hr|discriminate].
        -- rewrite upd_other by auto. intro E. unfold proc_ok.
           rewrite release_eq, rel_other by auto. apply Hp; auto.
    + (* other *)
      apply inv_set; auto. split; simpl; [exact Hok | exact Hbg].
  - (* background write *)
    destruct (procs w d) as [p|] eqn:Ed; [|exact HI].
    destruct (bg p) eqn:Eb; [|exact HI].
    destruct (Hp d p Ed) as [_ Hbg].
    constructor; simpl; auto.
    rewrite Hc, holds_eq, (Hbg Eb). reflexivity.
  - (* kill *)
    destruct (procs w d) as [p|] eqn:Ed; [|exact HI].
    apply inv_remove; exact HI.
Qed.

Lemma inv_run : forall life, life_ok life = true ->
  forall evs w, Inv w -> Inv (lrun_ life w evs).
Proof.
  intros life Hl evs. induction evs as [|e r IH]; intros w HI; simpl; auto.
  apply IH. apply inv_step; auto.
Qed.

(* a process past its flock that still needs the path holds the flock *)
Lemma ok_needs : forall l h,
  existsb is_flock l = false -> existsb touchy l = true -> ok_from h false l = true -> h = true.
Proof.
  induction l as [|[k s] r IH]; intros h Hf Ht Hok; simpl in *; [discriminate|].
  destruct k; unfold is_flock, touchy in *; simpl in *.
  - discriminate.
  - apply andb_prop in Hok. destruct Hok as [Hh _]. exact Hh.
  - apply andb_prop in Hok. destruct Hok as [Hh _]. exact Hh.
  - eapply IH; eauto.
  - specialize (IH false Hf Ht Hok). discriminate.
  - eapply IH; eauto.
Qed.

Lemma inv_user_owns : forall w d, Inv w -> in_use w d -> owner w = Some d.
Proof.
  intros w d [Hc Ho Hp] [p [Ed [Hpast Hneeds]]].
  destruct (Hp d p Ed) as [Hok Hbg].
  apply holds_o_true.
  unfold needs in Hneeds. destruct (bg p) eqn:Eb; [auto|].
  simpl in Hneeds. unfold past in Hpast. apply negb_true_iff in Hpast.
  eapply ok_needs; eauto.
Qed.

(* ---------------------------------------------------------------- the source's program *)
Lemma dirlock_src_true : dirlock_src = true.
Proof. vm_compute. reflexivity. Qed.
Lemma life_src_ok : life_ok life_src = true.
Proof. vm_compute. reflexivity. Qed.
Lemma lock_shape : dirlock_src = true /\ life_ok life_src = true.
Proof. exact (conj dirlock_src_true life_src_ok). Qed.

Lemma inv_reach : forall evs, Inv (lrun linit evs).
Proof. intro evs. apply inv_run. exact life_src_ok. exact inv_init. Qed.

Lemma path_no_clash : forall evs, clash (lrun linit evs) = false.
Proof. intro evs. apply (inv_clash _ (inv_reach evs)). Qed.

Lemma path_user_owns : forall evs d, in_use (lrun linit evs) d -> owner (lrun linit evs) = Some d.
Proof. intros evs d. apply inv_user_owns. apply inv_reach. Qed.

Lemma path_exclusive : forall evs d1 d2,
  in_use (lrun linit evs) d1 -> in_use (lrun linit evs) d2 -> d1 = d2.
Proof.
  intros evs d1 d2 H1 H2.
  apply path_user_owns in H1. apply path_user_owns in H2.
  rewrite H1 in H2. now inversion H2.
Qed.

Lemma path_second_refused : forall evs d1 d2 p s r,
  let w := lrun linit evs in
  in_use w d1 -> d2 <> d1 -> procs w d2 = Some p -> todo p = (LsFlock, s) :: r ->
  let w' := lstep_src w (EvStep d2) in
  procs w' d2 = None /\ procs w' d1 = procs w d1 /\ owner w' = Some d1 /\ clash w' = false.
Proof.
  intros evs d1 d2 p s r w Hu N Ed Et w'.
  pose proof (path_user_owns evs d1 Hu) as Eo. fold w in Eo.
  pose proof (path_no_clash evs) as Hc. fold w in Hc.
  subst w'. unfold lstep_src, lstep_. rewrite Ed, Et, Eo. simpl.
  rewrite upd_same. rewrite upd_other by auto. auto.
Qed.

(* ---------------------------------------------------------------- witnesses *)
(* one daemon up to serving: 1 start, then its steps up to and including Main *)
Definition boot_steps : nat := List.length (map classify_new new_path_calls ++ map classify_start start_calls).
Definition up_to_serving (d : nat) : list lev := EvStart d :: repeat (EvStep d) boot_steps.
Definition whole_life (d : nat) : list lev := EvStart d :: repeat (EvStep d) (S (List.length life_src)).

Definition exit_early_unlock : list string :=
  ["n.Lock"; "n.PersistMetadata"; "topic.Close"; "n.Unlock"; "n.dl.Unlock"; "point:exit:topics-closed";
   "close:exitChan"; "n.waitGroup.Wait"; "n.ctxCancel"]%string.
Definition life_early : list lstep := life_of new_path_calls start_calls exit_early_unlock.

Lemma witness_refused_while_serving :
  let w := lrun linit (up_to_serving 0 ++ up_to_serving 1) in
  serving w 0 = true /\ procs w 1 = None /\ owner w = Some 0 /\ clash w = false.
Proof. vm_compute. repeat split; reflexivity. Qed.

Lemma witness_takeover_after_exit_and_kill :
  let w := lrun linit (whole_life 0 ++ up_to_serving 1 ++ [EvKill 1] ++ up_to_serving 2) in
  procs w 0 = None /\ procs w 1 = None /\ serving w 2 = true /\ owner w = Some 2 /\ clash w = false.
Proof. vm_compute. repeat split; reflexivity. Qed.

(* were the flock given up before the background goroutines are joined, the check fails and
   a second daemon serves while the first one's goroutines still run *)
Lemma witness_early_unlock_refuted :
  life_ok life_early = false /\
  let w := lrun_ life_early linit (EvStart 0 :: repeat (EvStep 0) (boot_steps + 6) ++ up_to_serving 1 ++ [EvBg 0]) in
  serving w 0 = true /\ serving w 1 = true /\ owner w = Some 1 /\ clash w = true.
Proof. vm_compute. repeat split; reflexivity. Qed.
