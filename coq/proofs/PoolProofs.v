(* Pooled serialisation buffers (model/Pool.v): when every user of the pool gives its
   buffer back only after its last read of the buffer's memory, then -- for EVERY number of
   concurrent users, EVERY record, EVERY interleaving of their steps, EVERY choice the pool
   makes and EVERY way the sinks cut the writes -- what a user's sink receives is a prefix of
   that user's own record, and the whole record once the user is done.  Under the other
   discipline (release before the write) a three-step interleaving delivers another
   message's bytes.  The discipline of the Go source is the generated table gen/PoolUse.v. *)
From Coq Require Import List Arith Bool NArith Lia String.
From NSQV Require Import model.Judge model.Pool gen.PoolUse.
Import ListNotations.
Open Scope nat_scope.
Open Scope list_scope.
Notation length := List.length (only parsing).

(* ------------------------------------------------------------------ lists *)
Lemma remove_nth_in : forall l k x, In x (remove_nth k l) -> In x l.
Proof.
  induction l as [|a l IH]; intros k x H; destruct k; simpl in *; auto.
  destruct H as [H|H]; [left; exact H | right; eapply IH; exact H].
Qed.

Lemma remove_nth_nodup : forall l k, NoDup l -> NoDup (remove_nth k l).
Proof.
  induction l as [|a l IH]; intros k H; destruct k; simpl; auto.
  - inversion H; assumption.
  - inversion H as [|? ? Hn Hd]; subst. constructor.
    + intro Hi. apply Hn. eapply remove_nth_in; exact Hi.
    + apply IH; assumption.
Qed.

Lemma remove_nth_notin : forall l k b, NoDup l -> nth_error l k = Some b -> ~ In b (remove_nth k l).
Proof.
  induction l as [|a l IH]; intros k b Hd Hn; destruct k; simpl in *; try discriminate.
  - inversion Hn; subst. inversion Hd; assumption.
  - inversion Hd as [|? ? Hna Hdl]; subst. intros [H|H].
    + subst. apply Hna. eapply nth_error_In; exact Hn.
    + eapply IH; eauto.
Qed.

Lemma firstn_plus : forall (A : Type) a b (l : list A),
  firstn (a + b) l = firstn a l ++ firstn b (skipn a l).
Proof.
  induction a as [|a IH]; intros b l; simpl; auto.
  destruct l; simpl.
  - now rewrite firstn_nil.
  - now rewrite IH.
Qed.

(* reading a stretch of one's own record out of an array whose prefix is that record *)
Lemma read_own : forall (h r : bytes) off n,
  firstn (length r) h = r -> off + n <= length r ->
  firstn n (skipn off h) = firstn n (skipn off r).
Proof.
  intros h r off n Hh Hle.
  pose proof (firstn_skipn (length r) h) as E. rewrite Hh in E.
  rewrite <- E at 1.
  rewrite skipn_app. replace (off - length r) with 0 by lia. simpl (skipn 0 _).
  rewrite firstn_app. rewrite skipn_length.
  replace (n - (length r - off)) with 0 by lia. simpl (firstn 0 _).
  apply app_nil_r.
Qed.

Lemma overwrite_prefix : forall old new : bytes, firstn (length new) (overwrite old new) = new.
Proof.
  intros. unfold overwrite. rewrite firstn_app. rewrite Nat.sub_diag. simpl.
  rewrite firstn_all. apply app_nil_r.
Qed.

Lemma upd_same : forall (A : Type) (f : nat -> A) k v, upd f k v k = v.
Proof. intros. unfold upd. now rewrite Nat.eqb_refl. Qed.

Lemma upd_other : forall (A : Type) (f : nat -> A) k v x, x <> k -> upd f k v x = f x.
Proof. intros. unfold upd. destruct (Nat.eqb_spec x k); congruence. Qed.

(* ------------------------------------------------------------------ the invariant *)
Definition user_ok (h : nat -> bytes) (u : puser) : Prop :=
  match u_pc u with
  | PIdle => u_owns u = None /\ u_out u = []
  | PGot b => u_owns u = Some b /\ u_out u = []
  | PFilled b off =>
      u_owns u = Some b /\ firstn (length (u_rec u)) (h b) = u_rec u /\
      off <= length (u_rec u) /\ u_out u = firstn off (u_rec u)
  | PDone => u_owns u = None /\ u_out u = u_rec u
  end.

Record pool_inv (s : pstate) : Prop := mkInv {
  (* the pool never holds a buffer twice *)
  pi_nodup : NoDup (p_free s);
  pi_free_lt : forall b, In b (p_free s) -> b < p_fresh s;
  (* a checked-out buffer exists and is not in the pool *)
  pi_owned : forall t b, u_owns (p_users s t) = Some b -> b < p_fresh s /\ ~ In b (p_free s);
  (* and nobody else has it *)
  pi_excl : forall t1 t2 b, u_owns (p_users s t1) = Some b -> u_owns (p_users s t2) = Some b -> t1 = t2;
  pi_user : forall t, user_ok (p_heap s) (p_users s t)
}.

Lemma pinit_inv : forall recs, pool_inv (pinit recs).
Proof.
  intros recs. constructor; simpl.
  - constructor.
  - intros b [].
  - intros t b H; discriminate.
  - intros t1 t2 b H; discriminate.
  - intros t. unfold user_ok; simpl. auto.
Qed.

(* a user that is not stepped and whose buffer's array is not written stays ok *)
Lemma user_ok_heap : forall h h' u,
  (forall b, u_owns u = Some b -> h' b = h b) -> user_ok h u -> user_ok h' u.
Proof.
  intros h h' u Hh Hu. unfold user_ok in *. destruct (u_pc u) as [|b|b off|]; auto.
  destruct Hu as [Ho [Hp [Hl Hout]]]. rewrite (Hh b Ho). auto.
Qed.

Lemma pstep_inv : forall s t k, pool_inv s -> pool_inv (pstep true s t k).
Proof.
  intros s t k [Hnd Hlt Hown Hex Hus].
  pose proof (Hus t) as Hut. unfold user_ok in Hut. unfold pstep.
  destruct (u_pc (p_users s t)) as [|b|b off|] eqn:Epc.
  - (* bufferPoolGet *)
    destruct Hut as [Hno Hout].
    destruct (nth_error (p_free s) k) as [b|] eqn:En.
    + assert (Hbin : In b (p_free s)) by (eapply nth_error_In; exact En).
      constructor; simpl.
      * apply remove_nth_nodup; assumption.
      * intros b' Hin. apply Hlt. eapply remove_nth_in; exact Hin.
      * intros t' b'. unfold upd. destruct (Nat.eqb_spec t' t) as [->|Hne]; simpl.
        -- intros E; inversion E; subst b'. split; [apply Hlt; assumption | apply remove_nth_notin; assumption].
        -- intros E. destruct (Hown _ _ E) as [A B]. split; [assumption|].
           intro Hi. apply B. eapply remove_nth_in; exact Hi.
      * intros t1 t2 b'. unfold upd.
        destruct (Nat.eqb_spec t1 t) as [->|H1]; destruct (Nat.eqb_spec t2 t) as [->|H2]; simpl; intros E1 E2; auto.
        -- inversion E1; subst b'. exfalso. destruct (Hown _ _ E2) as [_ B]. apply B; assumption.
        -- inversion E2; subst b'. exfalso. destruct (Hown _ _ E1) as [_ B]. apply B; assumption.
        -- eapply Hex; eassumption.
      * intros t'. unfold upd. destruct (Nat.eqb_spec t' t) as [->|Hne].
        -- unfold user_ok; simpl. split; [reflexivity | assumption].
        -- apply Hus.
    + (* a new buffer *)
      constructor; simpl.
      * assumption.
      * intros b' Hin. apply Hlt in Hin. lia.
      * intros t' b'. unfold upd. destruct (Nat.eqb_spec t' t) as [->|Hne]; simpl.
        -- intros E; inversion E; subst b'. split; [lia|]. intro Hi. apply Hlt in Hi. lia.
        -- intros E. destruct (Hown _ _ E) as [A B]. split; [lia | assumption].
      * intros t1 t2 b'. unfold upd.
        destruct (Nat.eqb_spec t1 t) as [->|H1]; destruct (Nat.eqb_spec t2 t) as [->|H2]; simpl; intros E1 E2; auto.
        -- inversion E1; subst b'. exfalso. destruct (Hown _ _ E2) as [A _]. lia.
        -- inversion E2; subst b'. exfalso. destruct (Hown _ _ E1) as [A _]. lia.
        -- eapply Hex; eassumption.
      * intros t'. unfold upd at 2. destruct (Nat.eqb_spec t' t) as [->|Hne].
        -- unfold user_ok; simpl. split; [reflexivity | assumption].
        -- eapply user_ok_heap; [|apply Hus].
           intros b' E. destruct (Hown _ _ E) as [A _]. apply upd_other. lia.
  - (* msg.WriteTo(buf) *)
    destruct Hut as [Ho Hout].
    constructor; simpl.
    + assumption.
    + assumption.
    + intros t' b'. unfold upd. destruct (Nat.eqb_spec t' t) as [->|Hne]; simpl.
      * intros E; inversion E; subst b'. apply (Hown _ _ Ho).
      * apply Hown.
    + intros t1 t2 b'. unfold upd.
      destruct (Nat.eqb_spec t1 t) as [->|H1]; destruct (Nat.eqb_spec t2 t) as [->|H2]; simpl; intros E1 E2; auto.
      * inversion E1; subst b'. symmetry. eapply Hex; eassumption.
      * inversion E2; subst b'. eapply Hex; eassumption.
      * eapply Hex; eassumption.
    + intros t'. unfold upd at 2. destruct (Nat.eqb_spec t' t) as [->|Hne].
      * unfold user_ok; simpl. rewrite upd_same.
        split; [reflexivity|]. split; [apply overwrite_prefix|]. split; [lia | assumption].
      * eapply user_ok_heap; [|apply Hus].
        intros b' E. apply upd_other. intro Hb; subst b'. apply Hne. eapply Hex; eassumption.
  - (* one write of the sink *)
    destruct Hut as [Ho [Hp [Hl Hout]]].
    set (n := Nat.min (S k) (length (u_rec (p_users s t)) - off)).
    assert (Hn : off + n <= length (u_rec (p_users s t))) by (unfold n; lia).
    assert (Hread : u_out (p_users s t) ++ firstn n (skipn off (p_heap s b)) =
                    firstn (off + n) (u_rec (p_users s t))).
    { rewrite (read_own _ _ _ _ Hp Hn). rewrite Hout. symmetry. apply firstn_plus. }
    destruct (Nat.leb_spec (length (u_rec (p_users s t))) (off + n)) as [Hfin|Hmore].
    + (* the last one, then the deferred bufferPoolPut *)
      destruct (Hown _ _ Ho) as [Hb Hnf].
      constructor; simpl.
      * constructor; assumption.
      * intros b' [E|Hin]; [subst; assumption | apply Hlt; assumption].
      * intros t' b'. unfold upd. destruct (Nat.eqb_spec t' t) as [->|Hne]; simpl.
        -- discriminate.
        -- intros E. destruct (Hown _ _ E) as [A B]. split; [assumption|].
           intros [Eb|Hi]; [|apply B; assumption]. subst b'. apply Hne. eapply Hex; eassumption.
      * intros t1 t2 b'. unfold upd.
        destruct (Nat.eqb_spec t1 t) as [->|H1]; destruct (Nat.eqb_spec t2 t) as [->|H2]; simpl; intros E1 E2;
          auto; try discriminate.
        eapply Hex; eassumption.
      * intros t'. unfold upd. destruct (Nat.eqb_spec t' t) as [->|Hne].
        -- unfold user_ok; simpl. split; [reflexivity|]. rewrite Hread.
           replace (off + n) with (length (u_rec (p_users s t))) by lia. apply firstn_all.
        -- apply Hus.
    + constructor; simpl.
      * assumption.
      * assumption.
      * intros t' b'. unfold upd. destruct (Nat.eqb_spec t' t) as [->|Hne]; simpl.
        -- intros E. rewrite Ho in E. inversion E; subst b'. apply (Hown _ _ Ho).
        -- apply Hown.
      * intros t1 t2 b'. unfold upd.
        destruct (Nat.eqb_spec t1 t) as [->|H1]; destruct (Nat.eqb_spec t2 t) as [->|H2]; simpl; intros E1 E2; auto.
        -- symmetry. eapply Hex; eassumption.
        -- eapply Hex; eassumption.
        -- eapply Hex; eassumption.
      * intros t'. unfold upd. destruct (Nat.eqb_spec t' t) as [->|Hne].
        -- unfold user_ok; simpl. split; [assumption|]. split; [assumption|]. split; [lia | assumption].
        -- apply Hus.
  - constructor; assumption.
Qed.

Lemma prun_inv : forall sched s, pool_inv s -> pool_inv (prun true s sched).
Proof.
  induction sched as [|[t k] r IH]; intros s I; simpl; auto.
  apply IH. apply pstep_inv. assumption.
Qed.

(* a step never changes which record a user serialises *)
Lemma pstep_rec : forall late s t k t', u_rec (p_users (pstep late s t k) t') = u_rec (p_users s t').
Proof.
  intros late s t k t'. unfold pstep.
  destruct (u_pc (p_users s t)) as [|b|b off|].
  - destruct (nth_error (p_free s) k); simpl; unfold upd; destruct (Nat.eqb_spec t' t) as [->|]; reflexivity.
  - destruct late; simpl; unfold upd; destruct (Nat.eqb_spec t' t) as [->|]; reflexivity.
  - destruct (Nat.leb _ _); [destruct late|]; simpl; unfold upd; destruct (Nat.eqb_spec t' t) as [->|]; reflexivity.
  - reflexivity.
Qed.

Lemma prun_rec : forall late sched s t', u_rec (p_users (prun late s sched) t') = u_rec (p_users s t').
Proof.
  induction sched as [|[t k] r IH]; intros s t'; simpl; auto.
  rewrite IH. apply pstep_rec.
Qed.

(* ------------------------------------------------------------------ the property *)
Theorem Pool_isolation : forall (recs : nat -> bytes) (sched : list (nat * nat)) (t : nat),
  let s := prun true (pinit recs) sched in
  (exists n, u_out (p_users s t) = firstn n (recs t)) /\
  (u_pc (p_users s t) = PDone -> u_out (p_users s t) = recs t).
Proof.
  intros recs sched t s.
  assert (I : pool_inv s) by (apply prun_inv, pinit_inv).
  assert (R : u_rec (p_users s t) = recs t) by (unfold s; rewrite prun_rec; reflexivity).
  pose proof (pi_user s I t) as U. unfold user_ok in U. rewrite R in U.
  destruct (u_pc (p_users s t)) as [|b|b off|]; split; try discriminate.
  - exists 0. destruct U as [_ ->]. reflexivity.
  - exists 0. destruct U as [_ ->]. reflexivity.
  - exists off. destruct U as [_ [_ [_ ->]]]. reflexivity.
  - exists (length (recs t)). destruct U as [_ ->]. symmetry. apply firstn_all.
  - intros _. apply U.
Qed.

(* the pool is used as a pool: two users, one after the other, the second gets the first
   one's buffer back (its array still holds the first record), both sinks get their own *)
Definition ex_recs (t : nat) : bytes := match t with O => [1; 2; 3; 4; 5]%N | _ => [9; 8; 7]%N end.
Definition ex_seq : list (nat * nat) :=
  [(0, 0); (0, 0); (0, 1); (0, 7); (1, 0); (1, 0); (1, 0); (1, 0); (1, 0)].

Lemma Pool_example_reuse :
  let s := prun true (pinit ex_recs) ex_seq in
  u_pc (p_users s 0) = PDone /\ u_out (p_users s 0) = ex_recs 0 /\
  u_pc (p_users s 1) = PDone /\ u_out (p_users s 1) = ex_recs 1 /\
  p_fresh s = 1 /\ p_free s = [0].
Proof. vm_compute. repeat split. Qed.

(* an interleaving in which the first user's write is cut in two and the second user runs
   in between, on a buffer of its own *)
Definition ex_interleaved : list (nat * nat) :=
  [(0, 0); (0, 0); (0, 1); (1, 0); (1, 0); (1, 9); (0, 9)].

Lemma Pool_example_interleaved :
  let s := prun true (pinit ex_recs) ex_interleaved in
  u_out (p_users s 0) = ex_recs 0 /\ u_out (p_users s 1) = ex_recs 1 /\ p_fresh s = 2.
Proof. vm_compute. repeat split. Qed.

(* releasing before the write: the same interleaving hands the second record's bytes to the
   first user's sink *)
Lemma Pool_early_release_refuted :
  exists recs sched t,
    let s := prun false (pinit recs) sched in
    u_pc (p_users s t) = PDone /\ u_out (p_users s t) <> recs t.
Proof.
  exists ex_recs, ex_interleaved, 0. vm_compute. split; [reflexivity | discriminate].
Qed.

(* ------------------------------------------------------------------ the source *)
(* the functions of package nsqd that take a buffer from the pool are the two the model
   describes, each releases it after the last use of its memory; bufferPoolPut resets the
   buffer and hands it to the pool, bufferPoolGet takes one from the pool *)
Definition src_late : bool := forallb snd pu_users.

Lemma Pool_source_discipline :
  pu_users = [("SendMessage"%string, true); ("writeMessageToBackend"%string, true)] /\
  src_late = true /\
  pu_put_calls = ["b.Reset"%string; "bp.Put"%string] /\ pu_get_is_pool_get = true.
Proof. repeat split; reflexivity. Qed.

Theorem Pool_isolation_source : forall (recs : nat -> bytes) (sched : list (nat * nat)) (t : nat),
  let s := prun src_late (pinit recs) sched in
  (exists n, u_out (p_users s t) = firstn n (recs t)) /\
  (u_pc (p_users s t) = PDone -> u_out (p_users s t) = recs t).
Proof.
  assert (E : src_late = true) by apply Pool_source_discipline.
  rewrite E. exact Pool_isolation.
Qed.
