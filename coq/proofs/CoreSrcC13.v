(* C13: the source-order facts of proofs/CoreSrcDefs.v this property relies on, each checked
   against the skeleton regenerated from /repo (one lemma per function, so that a failure names it). *)
From Coq Require Import List String.
From NSQV Require Import gen.CoreShape proofs.CoreSrcDefs.
Import ListNotations.
Open Scope string_scope.

Lemma src_clientV2_SendingMessage : shape_clientV2_SendingMessage = expect_clientV2_SendingMessage.
Proof. reflexivity. Qed.
Lemma src_clientV2_FinishedMessage : shape_clientV2_FinishedMessage = expect_clientV2_FinishedMessage.
Proof. reflexivity. Qed.
Lemma src_clientV2_TimedOutMessage : shape_clientV2_TimedOutMessage = expect_clientV2_TimedOutMessage.
Proof. reflexivity. Qed.
Lemma src_clientV2_RequeuedMessage : shape_clientV2_RequeuedMessage = expect_clientV2_RequeuedMessage.
Proof. reflexivity. Qed.
Lemma src_Channel_processInFlightQueue : shape_Channel_processInFlightQueue = expect_Channel_processInFlightQueue.
Proof. reflexivity. Qed.
Lemma src_Channel_FinishMessage : shape_Channel_FinishMessage = expect_Channel_FinishMessage.
Proof. reflexivity. Qed.
Lemma src_Channel_PutMessage : shape_Channel_PutMessage = expect_Channel_PutMessage.
Proof. reflexivity. Qed.
Lemma src_Channel_PutMessageDeferred : shape_Channel_PutMessageDeferred = expect_Channel_PutMessageDeferred.
Proof. reflexivity. Qed.
Lemma src_Topic_PutMessage : shape_Topic_PutMessage = expect_Topic_PutMessage.
Proof. reflexivity. Qed.
Lemma src_Topic_PutMessages : shape_Topic_PutMessages = expect_Topic_PutMessages.
Proof. reflexivity. Qed.
Lemma src_protocolV2_FIN : shape_protocolV2_FIN = expect_protocolV2_FIN.
Proof. reflexivity. Qed.
Lemma src_protocolV2_REQ : shape_protocolV2_REQ = expect_protocolV2_REQ.
Proof. reflexivity. Qed.

Lemma src_C13 : src_facts_C13.
Proof. unfold src_facts_C13. repeat split; first [exact src_clientV2_SendingMessage | exact src_clientV2_FinishedMessage | exact src_clientV2_TimedOutMessage | exact src_clientV2_RequeuedMessage | exact src_Channel_processInFlightQueue | exact src_Channel_FinishMessage | exact src_Channel_PutMessage | exact src_Channel_PutMessageDeferred | exact src_Topic_PutMessage | exact src_Topic_PutMessages | exact src_protocolV2_FIN | exact src_protocolV2_REQ]. Qed.
