(* The byte layout that the Go sources of Message.WriteTo, decodeMessage,
   SendFramedResponse and doMPUB spell out (regenerated from the repository on every
   run into gen/WireLayout.v) is the layout model/Wire.v is written against.
   A finite table: checked by computation. *)
From Coq Require Import List ZArith String.
From NSQV Require Import gen.Consts gen.WireLayout.
Import ListNotations.
Open Scope string_scope.
Open Scope Z_scope.

Definition expected_msg_fields : list (string * Z * Z * Z * bool) :=
  [("Timestamp", 0, 8, 8, true); ("Attempts", 8, 10, 2, true)].

Theorem source_layout_is_modelled :
  (* WriteTo: one 10-byte header = 8-byte big-endian Timestamp, 2-byte big-endian Attempts;
     then the ID, then the Body *)
  wl_enc_hdr_len = 10 /\ wl_enc_puts = expected_msg_fields /\ wl_enc_writes = ["buf"; "ID"; "Body"] /\
  (* decodeMessage: refuses len(b) < minValidMsgLength; reads the same fields at the same
     offsets; ID = b[10:10+MsgIDLength]; Body = b[10+MsgIDLength:] *)
  wl_dec_guard_op = "<" /\ wl_dec_min = nsqd_minValidMsgLength /\ wl_dec_gets = expected_msg_fields /\
  wl_dec_id = (wl_enc_hdr_len, wl_enc_hdr_len + nsqd_MsgIDLength) /\
  wl_dec_body_lo = wl_enc_hdr_len + nsqd_MsgIDLength /\
  nsqd_minValidMsgLength = wl_dec_body_lo /\
  (* SendFramedResponse: size = len(data) + 4 in a 4-byte big-endian word, the frame type
     in a 4-byte big-endian word, the data *)
  wl_frame_extra = 4 /\ wl_frame_word = 4 /\
  wl_frame_puts = [("size", 0, 4, 4, true); ("frameType", 0, 4, 4, true)] /\
  wl_frame_writes = ["size"; "frameType"; "data"] /\
  (* doMPUB text mode reads up to '\n' and trims a trailing '\n' *)
  wl_text_mpub_delims = [10; 10] /\
  nsqd_frameTypeMessage = 2.
Proof. repeat split; reflexivity. Qed.
