(* Generic preservation lemmas for the nested topic/channel/client structure of
   model/Core.v, used by every core invariant. *)
From Coq Require Import List NArith ZArith Bool Lia.
From RecordUpdate Require Import RecordUpdate.
From NSQV Require Import model.Core.
Import ListNotations.
Open Scope N_scope.

(* a predicate holds of every channel of every topic *)
Definition AllChans (P : chan -> Prop) (s : state) : Prop :=
  Forall (fun tp => Forall P (t_chans tp)) (s_topics s).

Definition AllTopics (P : topic -> Prop) (s : state) : Prop := Forall P (s_topics s).

Lemma Forall_map_if {A} (P : A -> Prop) (p : A -> bool) (f : A -> A) (l : list A) :
  Forall P l -> (forall x, P x -> p x = true -> P (f x)) ->
  Forall P (map (fun x => if p x then f x else x) l).
Proof.
  intros H Hf. induction H as [|x l Hx Hl IH]; cbn; constructor; [|exact IH].
  destruct (p x) eqn:E; [apply Hf; assumption|assumption].
Qed.

Lemma Forall_filter {A} (P : A -> Prop) (p : A -> bool) (l : list A) :
  Forall P l -> Forall P (filter p l).
Proof.
  intros H. induction H as [|x l Hx Hl IH]; cbn; [constructor|].
  destruct (p x); [constructor; assumption|assumption].
Qed.

Lemma Forall_app_one {A} (P : A -> Prop) (l : list A) (x : A) :
  Forall P l -> P x -> Forall P (l ++ [x]).
Proof. intros Hl Hx. apply Forall_app. split; [assumption|constructor; [assumption|constructor]]. Qed.

Lemma AllTopics_upd_topic (P : topic -> Prop) s t f :
  AllTopics P s -> (forall tp, P tp -> P (f tp)) -> AllTopics P (upd_topic s t f).
Proof.
  intros H Hf. unfold AllTopics, upd_topic. cbn.
  apply Forall_map_if; [exact H|]. intros x Hx _. apply Hf, Hx.
Qed.

Lemma AllChans_upd_topic (P : chan -> Prop) s t f :
  AllChans P s -> (forall tp, Forall P (t_chans tp) -> Forall P (t_chans (f tp))) ->
  AllChans P (upd_topic s t f).
Proof.
  intros H Hf. unfold AllChans, upd_topic. cbn.
  apply Forall_map_if; [exact H|]. intros x Hx _. apply Hf, Hx.
Qed.

Lemma AllChans_upd_chan (P : chan -> Prop) s t c f :
  AllChans P s -> (forall ch, P ch -> P (f ch)) -> AllChans P (upd_chan s t c f).
Proof.
  intros H Hf. unfold upd_chan. apply AllChans_upd_topic; [exact H|].
  intros tp Htp. unfold upd_chan_in. cbn. apply Forall_map_if; [exact Htp|].
  intros x Hx _. apply Hf, Hx.
Qed.

Lemma AllChans_clients (P : chan -> Prop) s l : AllChans P (s <| s_clients := l |>) <-> AllChans P s.
Proof. unfold AllChans. cbn. reflexivity. Qed.

Lemma AllChans_upd_client (P : chan -> Prop) s k f : AllChans P (upd_client s k f) <-> AllChans P s.
Proof. unfold upd_client, AllChans. cbn. reflexivity. Qed.

Lemma AllChans_close_clients (P : chan -> Prop) ks s : AllChans P (close_clients ks s) <-> AllChans P s.
Proof. unfold close_clients, AllChans. cbn. reflexivity. Qed.

Lemma AllChans_dec_ifl (P : chan -> Prop) ks h s : AllChans P (dec_ifl ks h s) <-> AllChans P s.
Proof. unfold dec_ifl. destruct (existsb _ ks); [apply AllChans_upd_client|reflexivity]. Qed.

Lemma AllChans_fold_dec_ifl (P : chan -> Prop) ks (ex : list ifl) s :
  AllChans P (fold_left (fun s e => dec_ifl ks (i_cid e) s) ex s) <-> AllChans P s.
Proof.
  revert s. induction ex as [|e ex IH]; intros s; cbn; [reflexivity|].
  rewrite IH. apply AllChans_dec_ifl.
Qed.

Lemma AllChans_topics_filter (P : chan -> Prop) s p :
  AllChans P s -> AllChans P (s <| s_topics ::= filter p |>).
Proof. unfold AllChans. cbn. apply Forall_filter. Qed.

Lemma AllChans_ensure_topic (P : chan -> Prop) s t eph : AllChans P s -> AllChans P (ensure_topic s t eph).
Proof.
  intros H. unfold ensure_topic. destruct (find_topic s t); [exact H|].
  unfold AllChans. cbn. apply Forall_app_one; [exact H|]. cbn. constructor.
Qed.

Lemma AllChans_ensure_chan (P : chan -> Prop) s t c teph ceph :
  AllChans P s -> P (new_chan c ceph) -> AllChans P (ensure_chan s t c teph ceph).
Proof.
  intros H Hn. unfold ensure_chan. apply AllChans_upd_topic; [apply AllChans_ensure_topic, H|].
  intros tp Htp. destruct (find_chan tp c); [exact Htp|]. cbn.
  apply Forall_app_one; assumption.
Qed.

(* the topic pump: every queued message goes through chan_receive on every channel *)
Lemma pump_chans (P : chan -> Prop) cfg now tp :
  (forall m ch, P ch -> P (chan_receive cfg now m ch)) ->
  Forall P (t_chans tp) -> Forall P (t_chans (pump cfg now tp)).
Proof.
  intros Hr H. unfold pump. destruct (t_paused tp); [exact H|].
  destruct (t_chans tp) as [|c0 cs] eqn:E; [rewrite E; constructor|].
  cbn. rewrite E.
  assert (Hfold : forall q ch, P ch -> P (fold_left (fun ch m => chan_receive cfg now m ch) q ch)).
  { induction q as [|m q IH]; intros ch Hch; cbn; [exact Hch|]. apply IH, Hr, Hch. }
  rewrite <- E in H |- *. clear E.
  induction H as [|x l Hx Hl IH]; cbn; constructor; [apply Hfold, Hx|exact IH].
Qed.

Lemma AllChans_pump_topic (P : chan -> Prop) cfg now s t :
  (forall m ch, P ch -> P (chan_receive cfg now m ch)) ->
  AllChans P s -> AllChans P (pump_topic cfg now s t).
Proof.
  intros Hr H. unfold pump_topic. apply AllChans_upd_topic; [exact H|].
  intros tp Htp. apply pump_chans; assumption.
Qed.

Lemma topic_put_chans cfg m tp : t_chans (topic_put cfg m tp) = t_chans tp.
Proof.
  unfold topic_put. destruct (pump_runs tp); [reflexivity|].
  destruct (t_mem tp <? memcap cfg); [reflexivity|]. destruct (t_eph tp); reflexivity.
Qed.

Lemma fold_topic_put_chans cfg defer ids tp :
  t_chans (fold_left (fun tp id => topic_put cfg (mkMsg id 0 defer) tp) ids tp) = t_chans tp.
Proof.
  revert tp. induction ids as [|i ids IH]; intros tp; cbn; [reflexivity|].
  rewrite IH. apply topic_put_chans.
Qed.

Lemma AllChans_unsubscribe (P : chan -> Prop) kl s :
  (forall ch f, P ch -> P (ch <| c_clients ::= f |>)) ->
  AllChans P s -> AllChans P (unsubscribe kl s).
Proof.
  intros Hc H. unfold unsubscribe. destruct (k_sub kl) as [[t c]|]; [|exact H].
  apply AllChans_topics_filter. apply AllChans_upd_topic.
  - apply AllChans_upd_chan; [exact H|]. intros ch Hch. apply Hc, Hch.
  - intros tp Htp. cbn. apply Forall_filter, Htp.
Qed.

(* The master lemma: a channel predicate that is established by [new_chan] and preserved
   by every channel-local transformer is an invariant of [step]. *)
Section ChanInvariant.
  Context (cfg : config) (P : chan -> Prop).
  Context (P_new : forall c eph, P (new_chan c eph)).
  Context (P_receive : forall now m ch, P ch -> P (chan_receive cfg now m ch)).
  Context (P_clients : forall ch f, P ch -> P (ch <| c_clients ::= f |>)).
  Context (P_paused : forall ch p, P ch -> P (ch <| c_paused := p |>)).
  Context (P_deliver : forall k id dl now ch, P ch -> P (ch_deliver k id dl now ch)).
  Context (P_fin : forall k id ch, P ch -> P (ch_fin k id ch)).
  Context (P_req : forall k id d now ch, P ch -> P (ch_req cfg k id d now ch)).
  Context (P_touch : forall k id now tmo ch, P ch -> P (ch_touch cfg k id now tmo ch)).
  Context (P_empty : forall ch, P ch -> P (ch_empty ch)).
  Context (P_scan_ifl : forall now ch, P ch -> P (ch_scan_ifl cfg now ch)).
  Context (P_scan_dfr : forall now ch, P ch -> P (ch_scan_dfr cfg now ch)).

  Lemma step_AllChans s o : AllChans P s -> AllChans P (fst (step cfg s o)).
  Proof.
    intros H. destruct o; cbn [step].
    - (* OCreateTopic *) cbn. apply AllChans_ensure_topic, H.
    - (* OCreateChan *)
      destruct (find_topic s t); cbn; [|exact H].
      apply AllChans_pump_topic; [intros; apply P_receive; assumption|].
      apply AllChans_ensure_chan; [exact H|apply P_new].
    - (* OPub *) cbn. apply AllChans_pump_topic; [intros; apply P_receive; assumption|].
      apply AllChans_upd_topic; [apply AllChans_ensure_topic, H|].
      intros tp Htp. cbn. rewrite fold_topic_put_chans. exact Htp.
    - (* OConnect *) destruct (find_client s k); cbn; [exact H|]. apply AllChans_clients, H.
    - (* OSub *)
      destruct (find_client s k) as [kl|]; cbn; [|exact H].
      destruct ((k_state kl =? st_init) && k_alive kl); cbn; [|exact H].
      apply AllChans_pump_topic; [intros; apply P_receive; assumption|].
      apply AllChans_upd_client. apply AllChans_upd_chan.
      + apply AllChans_ensure_chan; [exact H|apply P_new].
      + intros ch Hch. apply P_clients, Hch.
    - (* ORdy *)
      destruct (find_client s k) as [kl|]; cbn; [|exact H].
      destruct (k_state kl =? st_closing); cbn; [exact H|].
      destruct (k_state kl =? st_subscribed); cbn; [|exact H].
      apply AllChans_upd_client, H.
    - (* ODeliver *)
      destruct (find_client s k) as [kl|]; cbn; [|exact H].
      destruct (k_sub kl) as [[t c]|]; cbn; [|exact H].
      destruct (get_chan s t c) as [ch|]; cbn; [|exact H].
      destruct (deliverable s kl ch id); cbn; [|exact H].
      apply AllChans_upd_client. apply AllChans_upd_chan; [exact H|].
      intros ch' Hch'. apply P_deliver, Hch'.
    - (* OFin *)
      destruct (answering s k) as [[[[[kl t] c] ch]|]|]; cbn; try exact H.
      destruct (holds ch k id); cbn; [|exact H].
      apply AllChans_upd_client. apply AllChans_upd_chan; [exact H|]. intros; apply P_fin; assumption.
    - (* OReq *)
      destruct (answering s k) as [[[[[kl t] c] ch]|]|]; cbn; try exact H.
      destruct (holds ch k id); cbn; [|exact H].
      apply AllChans_upd_client. apply AllChans_upd_chan; [exact H|]. intros; apply P_req; assumption.
    - (* OTouch *)
      destruct (answering s k) as [[[[[kl t] c] ch]|]|]; cbn; try exact H.
      destruct (holds ch k id); cbn; [|exact H].
      apply AllChans_upd_chan; [exact H|]. intros; apply P_touch; assumption.
    - (* OCls *)
      destruct (find_client s k) as [kl|]; cbn; [|exact H].
      destruct (k_state kl =? st_subscribed); cbn; [|exact H].
      apply AllChans_upd_client, H.
    - (* ODisconnect *)
      destruct (find_client s k) as [kl|]; cbn; [|exact H].
      apply AllChans_upd_client. apply AllChans_unsubscribe; [exact P_clients|exact H].
    - (* OPauseChan *)
      destruct (get_chan s t c); cbn; [|exact H].
      apply AllChans_upd_chan; [exact H|]. intros; apply P_paused; assumption.
    - (* OPauseTopic *)
      destruct (find_topic s t); cbn; [|exact H].
      apply AllChans_pump_topic; [intros; apply P_receive; assumption|].
      apply AllChans_upd_topic; [exact H|]. intros tp Htp. exact Htp.
    - (* OEmptyChan *)
      destruct (get_chan s t c); cbn; [|exact H].
      apply AllChans_clients. apply AllChans_upd_chan; [exact H|]. intros; apply P_empty; assumption.
    - (* OEmptyTopic *)
      destruct (find_topic s t); cbn; [|exact H].
      apply AllChans_upd_topic; [exact H|]. intros tp Htp. exact Htp.
    - (* ODeleteChan *)
      destruct (find_topic s t) as [tp|]; cbn; [|exact H].
      destruct (find_chan tp c) as [ch|]; cbn; [|exact H].
      unfold drop_empty_eph_topic. apply AllChans_topics_filter.
      apply AllChans_upd_topic; [apply AllChans_close_clients, H|].
      intros tp' Htp'. cbn. apply Forall_filter, Htp'.
    - (* ODeleteTopic *)
      destruct (find_topic s t) as [tp|]; cbn; [|exact H].
      apply AllChans_topics_filter. apply AllChans_close_clients, H.
    - (* OScanInFlight *)
      destruct (get_chan s t c) as [ch|]; cbn; [|exact H].
      apply AllChans_fold_dec_ifl. apply AllChans_upd_chan; [exact H|].
      intros; apply P_scan_ifl; assumption.
    - (* OScanDeferred *)
      destruct (get_chan s t c) as [ch|]; cbn; [|exact H].
      apply AllChans_upd_chan; [exact H|]. intros; apply P_scan_dfr; assumption.
  Qed.

  Lemma run_AllChans ops : forall s, AllChans P s -> AllChans P (run cfg s ops).
  Proof.
    induction ops as [|o ops IH]; intros s H; cbn; [exact H|].
    apply IH. apply step_AllChans, H.
  Qed.

  Lemma AllChans_init : AllChans P init.
  Proof. unfold AllChans, init. cbn. constructor. Qed.

  Theorem reachable_AllChans ops : AllChans P (run cfg init ops).
  Proof. apply run_AllChans, AllChans_init. Qed.
End ChanInvariant.
