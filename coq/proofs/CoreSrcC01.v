(* C01: the source-order facts of proofs/CoreSrcDefs.v this property relies on, each checked
   against the skeleton regenerated from /repo (one lemma per function, so that a failure names it). *)
From Coq Require Import List String.
From NSQV Require Import gen.CoreShape proofs.CoreSrcDefs.
Import ListNotations.
Open Scope string_scope.

Lemma src_Channel_put : shape_Channel_put = expect_Channel_put.
Proof. reflexivity. Qed.
Lemma src_Channel_PutMessage : shape_Channel_PutMessage = expect_Channel_PutMessage.
Proof. reflexivity. Qed.
Lemma src_Channel_PutMessageDeferred : shape_Channel_PutMessageDeferred = expect_Channel_PutMessageDeferred.
Proof. reflexivity. Qed.
Lemma src_Channel_StartInFlightTimeout : shape_Channel_StartInFlightTimeout = expect_Channel_StartInFlightTimeout.
Proof. reflexivity. Qed.
Lemma src_Channel_StartDeferredTimeout : shape_Channel_StartDeferredTimeout = expect_Channel_StartDeferredTimeout.
Proof. reflexivity. Qed.
Lemma src_Channel_pushInFlightMessage : shape_Channel_pushInFlightMessage = expect_Channel_pushInFlightMessage.
Proof. reflexivity. Qed.
Lemma src_Channel_processInFlightQueue : shape_Channel_processInFlightQueue = expect_Channel_processInFlightQueue.
Proof. reflexivity. Qed.
Lemma src_Channel_processDeferredQueue : shape_Channel_processDeferredQueue = expect_Channel_processDeferredQueue.
Proof. reflexivity. Qed.
Lemma src_Channel_RequeueMessage : shape_Channel_RequeueMessage = expect_Channel_RequeueMessage.
Proof. reflexivity. Qed.
Lemma src_Channel_TouchMessage : shape_Channel_TouchMessage = expect_Channel_TouchMessage.
Proof. reflexivity. Qed.
Lemma src_Topic_messagePump : shape_Topic_messagePump = expect_Topic_messagePump.
Proof. reflexivity. Qed.
Lemma src_Topic_put : shape_Topic_put = expect_Topic_put.
Proof. reflexivity. Qed.
Lemma src_Topic_PutMessage : shape_Topic_PutMessage = expect_Topic_PutMessage.
Proof. reflexivity. Qed.
Lemma src_Topic_PutMessages : shape_Topic_PutMessages = expect_Topic_PutMessages.
Proof. reflexivity. Qed.
Lemma src_Topic_GetChannel : shape_Topic_GetChannel = expect_Topic_GetChannel.
Proof. reflexivity. Qed.
Lemma src_pump_deliver : drop_until "if len(b) != 0 {" shape_protocolV2_messagePump = expect_pump_deliver.
Proof. reflexivity. Qed.
Lemma src_pump_loop_head : seg "for {" "call client.IsReadyForMessages" shape_protocolV2_messagePump = expect_pump_loop_head.
Proof. reflexivity. Qed.

Lemma src_C01 : src_facts_C01.
Proof. unfold src_facts_C01. repeat split; first [exact src_Channel_put | exact src_Channel_PutMessage | exact src_Channel_PutMessageDeferred | exact src_Channel_StartInFlightTimeout | exact src_Channel_StartDeferredTimeout | exact src_Channel_pushInFlightMessage | exact src_Channel_processInFlightQueue | exact src_Channel_processDeferredQueue | exact src_Channel_RequeueMessage | exact src_Channel_TouchMessage | exact src_Topic_messagePump | exact src_Topic_put | exact src_Topic_PutMessage | exact src_Topic_PutMessages | exact src_Topic_GetChannel | exact src_pump_deliver | exact src_pump_loop_head]. Qed.
