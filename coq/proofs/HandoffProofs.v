From Coq Require Import List Bool Arith Lia.
From NSQV Require Import model.Handoff.
Import ListNotations.

(* ---------- what is true of every mover in every reachable state (locked movers) ---------- *)
Definition loc_eqb (a b : loc) : bool :=
  match a, b with
  | Outside, Outside | InSrc, InSrc | InHand, InHand | InDst, InDst | Flushed, Flushed => true
  | _, _ => false
  end.

Definition coherent (m : mover) : bool :=
  match m_st m with
  | MS0 | MS1 | MS2 | MSref1 | MSref => loc_eqb (m_loc m) (start_loc (m_kind m)) || loc_eqb (m_loc m) Flushed
  | MS3 => loc_eqb (m_loc m) InHand
  | MS4 | MS5 | MSdone => loc_eqb (m_loc m) InDst || loc_eqb (m_loc m) Flushed
  end.

Definition in_zone (m : mover) : bool := match m_st m with MS2 | MS3 | MS4 => true | _ => false end.

Definition mgoodb (fl w sl fd : bool) (m : mover) : bool :=
  match m_kind m with Bare => false | _ => true end
  && (negb sl || negb (in_zone m))
  && (negb w || negb (holds m))
  && coherent m
  && (negb fd || (negb (loc_eqb (m_loc m) InDst) && negb (loc_eqb (m_loc m) InHand)
                  && match m_kind m with Move => loc_eqb (m_loc m) Flushed | _ => true end)).

Ltac brute_mover m :=
  destruct m as [k s l]; destruct k, s, l; cbn in *; try discriminate; try reflexivity.

Lemma mstep_good fl w sl fd m m' :
  (sl = true -> fl = true) -> (fd = true -> sl = true) ->
  mgoodb fl w sl fd m = true -> mstep fl w m = Some m' -> mgoodb fl w sl fd m' = true.
Proof.
  intros Hsf Hfs G S. destruct m as [k s l].
  destruct fl, w, sl, fd; try (specialize (Hsf eq_refl); discriminate); try (specialize (Hfs eq_refl); discriminate);
    destruct k, s, l; cbn in *; try discriminate; inversion S; subst; reflexivity.
Qed.

Lemma setflag_good fl w sl fd m :
  mgoodb fl w sl fd m = true -> mgoodb true w (sl || w) fd m = true.
Proof. destruct fl, w, sl, fd; brute_mover m. Qed.

Lemma lockw_good fl w sl fd m :
  mgoodb fl w sl fd m = true -> holds m = false -> mgoodb fl true (sl || fl) fd m = true.
Proof. destruct fl, w, sl, fd; brute_mover m. Qed.

Lemma unlockw_good fl w sl fd m :
  mgoodb fl w sl fd m = true -> mgoodb fl false sl fd m = true.
Proof. destruct fl, w, sl, fd; brute_mover m. Qed.

Lemma flush_good fl w fd m :
  mgoodb fl w true fd m = true -> mgoodb fl w true true (flush_mover m) = true.
Proof. destruct fl, w, fd; brute_mover m. Qed.

Lemma good_not_in_hand fl w sl fd m :
  mgoodb fl w sl fd m = true -> sl || w = true -> in_hand m = false.
Proof. destruct fl, w, sl, fd; brute_mover m. Qed.

Lemma good_not_lost fl w sl fd m st :
  flushdone st = fd -> mgoodb fl w sl fd m = true -> lost st m = false.
Proof. intros <-. unfold lost. destruct (flushdone st), fl, w, sl; brute_mover m. Qed.

(* ---------- the invariant ---------- *)
Record Inv (st : state) : Prop := {
  i_sf : sealed st = true -> flag st = true;
  i_fs : flushdone st = true -> sealed st = true;
  i_ok : ok_rest (rest st) (flag st) (fw st) (fr st) (sealed st) = true;
  i_mv : forallb (mgoodb (flag st) (fw st) (sealed st) (flushdone st)) (movers st) = true;
  i_ms : missed st = false }.

Lemma forallb_upd {A} (P : A -> bool) i (x : A) l :
  forallb P l = true -> P x = true -> forallb P (upd i (fun _ => x) l) = true.
Proof.
  revert i. induction l as [|a l IH]; intros i H Hx; cbn; [destruct i; reflexivity|].
  cbn in H. apply andb_prop in H. destruct H as [Ha Hl].
  destruct i; cbn; [rewrite Hx, Hl; reflexivity|rewrite Ha, IH; auto].
Qed.

Lemma forallb_nth {A} (P : A -> bool) i l x : forallb P l = true -> nth_error l i = Some x -> P x = true.
Proof. intros H E. rewrite forallb_forall in H. apply H. eapply nth_error_In, E. Qed.

Lemma forallb_impl {A} (P Q : A -> bool) l : (forall x, P x = true -> Q x = true) -> forallb P l = true -> forallb Q l = true.
Proof. intros I. rewrite !forallb_forall. auto. Qed.

Lemma forallb_map {A B} (P : B -> bool) (f : A -> B) l : forallb P (map f l) = forallb (fun x => P (f x)) l.
Proof. induction l as [|a l IH]; cbn; [reflexivity|rewrite IH; reflexivity]. Qed.

Lemma no_hand fl w sl fd l :
  forallb (mgoodb fl w sl fd) l = true -> sl || w = true -> existsb in_hand l = false.
Proof.
  intros H S. induction l as [|a l IH]; cbn; [reflexivity|]. cbn in H. apply andb_prop in H. destruct H as [Ha Hl].
  rewrite (good_not_in_hand _ _ _ _ _ Ha S), IH; auto.
Qed.

Lemma discard_good fl w sl fd m :
  mgoodb fl w sl fd m = true -> sl || w = true -> mgoodb fl w sl fd (flush_mover m) = true.
Proof. destruct fl, w, sl, fd; brute_mover m. Qed.

Lemma step_Inv st who : Inv st -> Inv (step st who).
Proof.
  intros HI. pose proof HI as [Hsf Hfs Hok Hmv Hms]. destruct who as [i|]; unfold step.
  - (* a mover *)
    destruct (nth_error (movers st) i) as [m|] eqn:E; [|exact HI].
    destruct (mstep (flag st) (fw st) m) as [m'|] eqn:S; [|exact HI].
    split; cbn; try assumption. apply forallb_upd; [exact Hmv|].
    eapply mstep_good; [exact Hsf|exact Hfs| |exact S]. eapply forallb_nth; eauto.
  - (* the closer *)
    unfold fstep. destruct (rest st) as [|ins r] eqn:R; [exact HI|].
    destruct ins as [|[|]|[|]| |]; cbn in Hok.
    + (* FSetFlag *) split; cbn.
      * reflexivity.
      * intros H. rewrite Hfs by exact H. reflexivity.
      * exact Hok.
      * eapply forallb_impl; [|exact Hmv]. intros x. apply setflag_good.
      * exact Hms.
    + (* FLock RMode *) destruct (fw st) eqn:W; [exact HI|].
      apply andb_prop in Hok. destruct Hok as [_ Hok]. split; cbn; rewrite ?W; auto.
    + (* FLock WMode *)
      destruct (forallb (fun m => negb (holds m)) (movers st) && negb (fr st) && negb (fw st)) eqn:En;
        [|exact HI].
      apply andb_prop in En. destruct En as [En _]. apply andb_prop in En. destruct En as [En _].
      apply andb_prop in Hok. destruct Hok as [_ Hok].
      split; cbn.
      * intros H. apply orb_prop in H. destruct H as [H|H]; auto.
      * intros H. rewrite Hfs by exact H. reflexivity.
      * exact Hok.
      * rewrite forallb_forall in *. intros x Hx. eapply lockw_good; [apply Hmv, Hx|].
        specialize (En x Hx). destruct (holds x); [discriminate|reflexivity].
      * exact Hms.
    + (* FUnlock RMode *) apply andb_prop in Hok. destruct Hok as [_ Hok]. split; cbn; auto.
    + (* FUnlock WMode *) apply andb_prop in Hok. destruct Hok as [_ Hok]. split; cbn; auto.
      eapply forallb_impl; [|exact Hmv]. intros x. apply unlockw_good.
    + (* FFlush *) apply andb_prop in Hok. destruct Hok as [Hs Hok]. split; cbn; auto.
      * rewrite forallb_map. rewrite Hs in Hmv. eapply forallb_impl; [|exact Hmv]. intros x. rewrite Hs. apply flush_good.
      * rewrite Hms. cbn. apply no_hand with (1 := Hmv). rewrite Hs. reflexivity.
    + (* FDiscard *) apply andb_prop in Hok. destruct Hok as [Hw Hok]. split; cbn; auto.
      * rewrite forallb_map. eapply forallb_impl; [|exact Hmv]. intros x Hx.
        apply discard_good; [exact Hx|exact Hw].
      * rewrite Hms. cbn. apply no_hand with (1 := Hmv). exact Hw.
Qed.

Lemma run_Inv sched : forall st, Inv st -> Inv (run st sched).
Proof. induction sched as [|w sched IH]; intros st H; cbn; [exact H|]. apply IH, step_Inv, H. Qed.

Definition locked (k : kind) : bool := match k with Bare => false | _ => true end.

Lemma init_Inv ks prog : forallb locked ks = true -> ok_prog prog = true -> Inv (init ks prog).
Proof.
  intros Hk Hp. split; [discriminate|discriminate|exact Hp| |reflexivity].
  unfold init. cbn [movers flag fw fr sealed flushdone rest]. rewrite forallb_map. eapply forallb_impl; [|exact Hk]. intros k Hl. destruct k; try discriminate; reflexivity.
Qed.

(* ANY number of publishers and movers that follow the protocol, a closer whose program is in
   order, ANY schedule: at no moment has a handed-over message been missed by the flush. *)
Theorem handoff_safe ks prog sched m :
  forallb locked ks = true -> ok_prog prog = true ->
  In m (movers (run (init ks prog) sched)) -> lost (run (init ks prog) sched) m = false.
Proof.
  intros Hk Hp Hin. destruct (run_Inv sched _ (init_Inv ks prog Hk Hp)) as [_ _ _ Hmv _].
  rewrite forallb_forall in Hmv. eapply good_not_lost; [reflexivity|apply Hmv, Hin].
Qed.

(* .. and no flush or discard ever runs while a message is in somebody's hand *)
Theorem handoff_never_missed ks prog sched :
  forallb locked ks = true -> ok_prog prog = true -> missed (run (init ks prog) sched) = false.
Proof. intros Hk Hp. apply (run_Inv sched _ (init_Inv ks prog Hk Hp)). Qed.

(* the programs of the source, with the write lock, are in order; with the read lock they are not *)
Lemma topic_exit_ok : ok_prog (topic_exit_prog WMode) = true. Proof. reflexivity. Qed.
Lemma channel_exit_ok : ok_prog (channel_exit_prog WMode) = true. Proof. reflexivity. Qed.
Lemma channel_empty_ok : ok_prog (channel_empty_prog WMode) = true. Proof. reflexivity. Qed.
Lemma topic_exit_read_not_ok : ok_prog (topic_exit_prog RMode) = false. Proof. reflexivity. Qed.

(* F20 before its repair: the closer of a topic takes the READ lock.  One publisher, this
   schedule: the publisher passes the check, the closer runs to its end, the publisher puts
   and is acknowledged - the message is not in what was flushed. *)
Definition f20_schedule : list (option nat) :=
  [Some 0; Some 0; None; None; None; None; Some 0; Some 0; Some 0]%nat.
Theorem read_lock_closer_refuted :
  exists sched m, In m (movers (run (init [Publish] (topic_exit_prog RMode)) sched))
                  /\ lost (run (init [Publish] (topic_exit_prog RMode)) sched) m = true.
Proof. exists f20_schedule. eexists. split; [left; reflexivity|]. vm_compute. reflexivity. Qed.

(* the same schedule against the repaired closer: it waits at Lock, the message is flushed *)
Example write_lock_same_schedule :
  let st := run (init [Publish] (topic_exit_prog WMode)) (f20_schedule ++ [None; None; None]) in
  map m_loc (movers st) = [Flushed] /\ flushdone st = true.
Proof. vm_compute. split; reflexivity. Qed.

(* K3: a mover that takes no lock (the consumer pump between its receive from the channel's
   queue and the registration in flight) against the channel's closer *)
Definition k3_schedule : list (option nat) := [Some 0; None; None; None; None; Some 0]%nat.
Theorem bare_mover_refuted :
  exists sched m, In m (movers (run (init [Bare] (channel_exit_prog WMode)) sched))
                  /\ lost (run (init [Bare] (channel_exit_prog WMode)) sched) m = true.
Proof. exists k3_schedule. eexists. split; [left; reflexivity|]. vm_compute. reflexivity. Qed.

(* F18 before its repair: Channel.Empty took no lock at all.  A requeue in progress has popped
   its message, the discard runs, the requeue puts: the message outlives the Empty. *)
Theorem unlocked_empty_refuted :
  exists sched, let st := run (init [Move] [FDiscard]) sched in
                missed st = true /\ map m_loc (movers st) = [InDst] /\ rest st = [].
Proof. exists [Some 0; Some 0; Some 0; None; Some 0; Some 0; Some 0]%nat. vm_compute. repeat split; reflexivity. Qed.

(* liveness of the model itself (so that safety is not bought by blocking): when every thread
   is given enough turns, everything ends and every acknowledged / moved message is flushed *)
Example all_done_somewhere :
  let st := run (init [Publish; Move; Move] (channel_exit_prog WMode))
                [Some 0; Some 1; Some 0; Some 1; None; Some 1; Some 1; Some 0; Some 0; Some 1; Some 1; Some 0;
                 None; None; None; None; Some 2; Some 2; Some 2; Some 2]%nat in
  map m_st (movers st) = [MSdone; MSdone; MSref] /\ map m_loc (movers st) = [Flushed; Flushed; Flushed]
  /\ rest st = [] /\ flushdone st = true.
Proof. vm_compute. repeat split; reflexivity. Qed.
