(* C12: the source-order facts of proofs/CoreSrcDefs.v this property relies on, each checked
   against the skeleton regenerated from /repo (one lemma per function, so that a failure names it). *)
From Coq Require Import List String.
From NSQV Require Import gen.CoreShape proofs.CoreSrcDefs.
Import ListNotations.
Open Scope string_scope.

Lemma src_NSQD_GetTopic : shape_NSQD_GetTopic = expect_NSQD_GetTopic.
Proof. reflexivity. Qed.

Lemma src_C12 : src_facts_C12.
Proof. unfold src_facts_C12. repeat split; first [exact src_NSQD_GetTopic]. Qed.
