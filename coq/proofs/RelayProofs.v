(* Proofs about model/Relay.v (C20). *)
From Coq Require Import List NArith Bool Lia.
From NSQV Require Import model.Judge model.Relay.
Import ListNotations.
Open Scope N_scope.

Lemma read_bytes_spec (d : N) (inp : bytes) :
  forall line eof rest, read_bytes d inp = (line, eof, rest) ->
    (eof = true /\ rest = [] /\ line = inp /\ ~ In d inp /\ split_on d inp = [inp]) \/
    (eof = false /\ exists pre, line = pre ++ [d] /\ ~ In d pre /\
        inp = pre ++ d :: rest /\ split_on d inp = pre :: split_on d rest /\
        (length rest < length inp)%nat).
Proof.
  induction inp as [|b r IH]; intros line eof rest H; cbn in H.
  - inversion H; subst. left. repeat split; auto.
  - destruct (N.eqb_spec b d) as [Hbd|Hbd].
    + inversion H; subst. right. split; [reflexivity|]. exists []. cbn.
      rewrite N.eqb_refl. repeat split; auto.
    + destruct (read_bytes d r) as [[l e] r'] eqn:Hr. inversion H; subst; clear H.
      destruct (IH l eof rest eq_refl) as [(He & Hrest & Hl & Hnin & Hsp) | (He & pre & Hl & Hnin & Hinp & Hsp & Hlen)].
      * left. subst. repeat split; auto.
        -- intros [Hx|Hx]; [congruence|contradiction].
        -- cbn. destruct (N.eqb_spec b d); [congruence|]. rewrite Hsp. reflexivity.
      * right. split; [assumption|]. exists (b :: pre). subst l. repeat split.
        -- intros [Hx|Hx]; [congruence|contradiction].
        -- rewrite Hinp. reflexivity.
        -- cbn. destruct (N.eqb_spec b d); [congruence|]. rewrite Hsp. reflexivity.
        -- cbn. lia.
Qed.

Lemma trim_terminated (d : N) (pre : bytes) : trim_delim d (pre ++ [d]) = pre.
Proof.
  unfold trim_delim, last_is. rewrite rev_app_distr. cbn. rewrite N.eqb_refl.
  apply removelast_last.
Qed.

Lemma trim_unterminated (d : N) (l : bytes) : ~ In d l -> trim_delim d l = l.
Proof.
  intros Hn. unfold trim_delim, last_is. destruct (rev l) as [|x xs] eqn:Hr; [reflexivity|].
  destruct (N.eqb_spec x d) as [->|]; [|reflexivity].
  exfalso. apply Hn. apply in_rev. rewrite Hr. left. reflexivity.
Qed.

Lemma out_is_filter (l : bytes) :
  match l with [] => [] | _ => [l] end = filter nonempty [l].
Proof. destruct l; reflexivity. Qed.

Lemma to_nsq_loop_spec (d : N) :
  forall fuel inp, (length inp < fuel)%nat ->
    to_nsq_loop fuel d inp = Some (split_nonempty d inp).
Proof.
  induction fuel as [|f IH]; intros inp Hlen; [lia|].
  cbn [to_nsq_loop]. destruct (read_bytes d inp) as [[line eof] rest] eqn:Hrb.
  destruct (read_bytes_spec d inp _ _ _ Hrb)
    as [(He & Hrest & Hl & Hnin & Hsp) | (He & pre & Hl & Hnin & Hinp & Hsp & Hlt)]; subst eof.
  - subst line. rewrite trim_unterminated by assumption.
    unfold split_nonempty. rewrite Hsp. rewrite out_is_filter. reflexivity.
  - subst line. rewrite trim_terminated. rewrite IH by lia.
    unfold split_nonempty. rewrite Hsp. cbn [filter].
    destruct pre; reflexivity.
Qed.

Theorem to_nsq_records_spec (d : N) (inp : bytes) :
  to_nsq_records d inp = Some (split_nonempty d inp).
Proof. unfold to_nsq_records. apply to_nsq_loop_spec. lia. Qed.

(* The specification itself characterised: joining non-empty delimiter-free
   records with the delimiter (with or without a trailing one) splits back. *)
Fixpoint join (d : N) (rs : list bytes) : bytes :=
  match rs with
  | [] => []
  | [r] => r
  | r :: rs' => r ++ d :: join d rs'
  end.

Definition good_record (d : N) (r : bytes) : Prop := r <> [] /\ ~ In d r.

Lemma split_on_app_nodelim (d : N) (r rest : bytes) :
  ~ In d r -> split_on d (r ++ d :: rest) = r :: split_on d rest.
Proof.
  induction r as [|b r IH]; intros Hn; cbn.
  - rewrite N.eqb_refl. reflexivity.
  - destruct (N.eqb_spec b d) as [->|]; [exfalso; apply Hn; left; reflexivity|].
    rewrite IH; [reflexivity|]. intros Hx. apply Hn. right. assumption.
Qed.

Lemma split_on_nodelim (d : N) (r : bytes) : ~ In d r -> split_on d r = [r].
Proof.
  induction r as [|b r IH]; intros Hn; cbn; [reflexivity|].
  destruct (N.eqb_spec b d) as [->|]; [exfalso; apply Hn; left; reflexivity|].
  rewrite IH; [reflexivity|]. intros Hx. apply Hn. right. assumption.
Qed.

Lemma split_nonempty_join (d : N) (rs : list bytes) :
  Forall (good_record d) rs -> split_nonempty d (join d rs) = rs.
Proof.
  unfold split_nonempty.
  induction rs as [|r rs IH]; intros Hall; [reflexivity|].
  inversion Hall as [|? ? [Hne Hnd] Hrest]; subst.
  destruct rs as [|r2 rs'].
  - cbn [join]. rewrite split_on_nodelim by assumption. cbn. destruct r; [contradiction|reflexivity].
  - change (join d (r :: r2 :: rs')) with (r ++ d :: join d (r2 :: rs')).
    rewrite split_on_app_nodelim by assumption. cbn [filter].
    destruct r as [|b r']; [contradiction|]. cbn [nonempty]. f_equal. apply IH. assumption.
Qed.

Lemma split_nonempty_join_terminated (d : N) (rs : list bytes) :
  Forall (good_record d) rs -> split_nonempty d (join d rs ++ [d]) = rs.
Proof.
  unfold split_nonempty.
  induction rs as [|r rs IH]; intros Hall.
  - cbn. rewrite N.eqb_refl. reflexivity.
  - inversion Hall as [|? ? [Hne Hnd] Hrest]; subst.
    destruct rs as [|r2 rs'].
    + cbn [join]. rewrite split_on_app_nodelim by assumption. cbn.
      destruct r; [contradiction|reflexivity].
    + change (join d (r :: r2 :: rs') ++ [d]) with ((r ++ d :: join d (r2 :: rs')) ++ [d]).
      rewrite <- app_assoc. cbn [app]. rewrite split_on_app_nodelim by assumption. cbn [filter].
      destruct r as [|b r']; [contradiction|]. cbn [nonempty]. f_equal. apply IH. assumption.
Qed.

Theorem to_nsq_roundtrip (d : N) (rs : list bytes) :
  Forall (good_record d) rs ->
  to_nsq_records d (join d rs) = Some rs /\ to_nsq_records d (join d rs ++ [d]) = Some rs.
Proof.
  intros H. rewrite !to_nsq_records_spec.
  rewrite split_nonempty_join, split_nonempty_join_terminated by assumption. split; reflexivity.
Qed.

Theorem published_per_dest_spec (n : nat) (d : N) (inp : bytes) :
  published_per_dest n d inp = Some (repeat (split_nonempty d inp) n).
Proof. unfold published_per_dest. rewrite to_nsq_records_spec. reflexivity. Qed.
