(* C14 in the property's own words, for every history: the answers of the model equal the
   plain registry's predicates, and the consequences the property names (disconnect,
   tombstone locality / lapse / clearing, ephemeral keys). *)
From Coq Require Import List NArith ZArith Bool Lia.
From NSQV Require Import model.Judge model.Names model.Lookupd model.LookupSpec
  proofs.LookupdBase proofs.LookupdRefine proofs.LookupdShape proofs.LookupdQueries.
Import ListNotations.
Open Scope bool_scope.

(* ------------------------------------------------------------------ answers respect == *)
Lemma recent_req a b i p : req a b -> recent i a p = recent i b p.
Proof. intros (H1 & H2 & _). unfold recent. rewrite H1, H2. reflexivity. Qed.

Lemma hidden_req a b l t p : req a b -> hidden l a t p = hidden l b t p.
Proof. intros (H1 & _ & _ & _ & H5). unfold hidden. rewrite H1, H5. reflexivity. Qed.

Lemma lookup_producer_req a b i l t p : req a b -> lookup_producer i l a t p = lookup_producer i l b t p.
Proof.
  intros H. unfold lookup_producer, registered. rewrite (recent_req _ _ i p H), (hidden_req _ _ l t p H).
  destruct H as (_ & _ & _ & H4 & _). rewrite H4. reflexivity.
Qed.

Lemma lookup_found_req a b t : req a b -> lookup_found a t = lookup_found b t.
Proof. intros (_ & _ & H3 & _). apply H3. Qed.

Lemma lookup_channel_req a b t c : req a b -> lookup_channel a t c = lookup_channel b t c.
Proof. intros (_ & _ & H3 & _). apply H3. Qed.

Lemma topic_listed_req a b t : req a b -> topic_listed a t = topic_listed b t.
Proof. intros (_ & _ & H3 & _). apply H3. Qed.

Lemma node_listed_req a b i p : req a b -> node_listed i a p = node_listed i b p.
Proof.
  intros H. unfold node_listed. rewrite (recent_req _ _ i p H). destruct H as (_ & _ & _ & H4 & _).
  rewrite H4. reflexivity.
Qed.

Lemma node_topic_req a b p t : req a b -> node_topic a p t = node_topic b p t.
Proof. intros (_ & _ & _ & H4 & _). apply H4. Qed.

Lemma node_tomb_req a b l p t : req a b -> node_tomb l a p t = node_tomb l b p t.
Proof. intros H. apply hidden_req. assumption. Qed.

(* ------------------------------------------------------------------ every history *)
Section History.
  Variable h : list op.
  Let s := run init h.
  Let r := g_run g_init h.

  Lemma hist_req : req (abs s) r.
  Proof. apply refine_history. Qed.
  Lemma hist_shape : shape s.
  Proof. apply shape_run. apply shape_init. Qed.

  Theorem history_topics t : In t (q_topics s) <-> topic_listed r t = true.
  Proof. rewrite q_topics_spec. rewrite (topic_listed_req _ _ t hist_req). tauto. Qed.

  Theorem history_topics_nodup : NoDup (q_topics s).
  Proof. apply q_topics_nodup. apply hist_shape. Qed.

  Theorem history_channels t c :
    is_star t = false -> (In c (q_channels s t) <-> lookup_channel r t c = true).
  Proof. intros Hs. rewrite (q_channels_spec _ _ _ Hs). rewrite (lookup_channel_req _ _ t c hist_req). tauto. Qed.

  Theorem history_channels_nodup t : is_star t = false -> NoDup (q_channels s t).
  Proof. intros Hs. apply q_channels_nodup; [assumption|apply hist_shape]. Qed.

  Theorem history_lookup_found i l t :
    is_star t = false -> (q_lookup i l s t = None <-> lookup_found r t = false).
  Proof. intros Hs. rewrite (q_lookup_found _ i l _ Hs). rewrite (lookup_found_req _ _ t hist_req). tauto. Qed.

  Theorem history_lookup_producers i l t p :
    is_star t = false ->
    (In p (lookup_producers i l s t) <-> lookup_found r t = true /\ lookup_producer i l r t p = true).
  Proof.
    intros Hs. rewrite <- (lookup_found_req _ _ t hist_req), <- (lookup_producer_req _ _ i l t p hist_req).
    destruct (lookup_found (abs s) t) eqn:F.
    - rewrite (q_lookup_producers_spec _ i l t p hist_shape Hs F). tauto.
    - apply (q_lookup_found s i l t Hs) in F. unfold lookup_producers. rewrite F. cbn. split; [tauto|intros [? _]; discriminate].
  Qed.

  Theorem history_lookup_producers_nodup i l t : is_star t = false -> NoDup (lookup_producers i l s t).
  Proof. intros Hs. apply q_lookup_producers_nodup; [apply hist_shape|assumption]. Qed.

  Theorem history_nodes i l p :
    In p (map fst (q_nodes i l s)) <-> node_listed i r p = true.
  Proof. rewrite (q_nodes_listed _ i l p hist_shape). rewrite (node_listed_req _ _ i p hist_req). tauto. Qed.

  Theorem history_node_topics i l p t b :
    In p (map fst (q_nodes i l s)) ->
    (In (t, b) (node_topics i l s p) <-> node_topic r p t = true /\ b = node_tomb l r p t).
  Proof.
    intros Hin. rewrite (q_nodes_topics _ i l p t b hist_shape Hin).
    rewrite (node_topic_req _ _ p t hist_req), (node_tomb_req _ _ l p t hist_req). tauto.
  Qed.
End History.

(* ------------------------------------------------------------------ in words *)
(* a topic's producers = connected /\ recently pinged /\ registered /\ not tombstoned *)
Theorem lookup_producer_words i l r t p :
  lookup_producer i l r t p = true <->
  (exists c, find_peer p (g_nodes r) = Some c /\ (g_now r - c_last c <= i)%Z) /\
  registered r p t = true /\
  ~ (exists at_, g_tomb r t p = Some at_ /\ (g_now r - at_ < l)%Z).
Proof.
  unfold lookup_producer, recent, hidden. split.
  - intros H. apply andb_true_iff in H as [H Hh]. apply andb_true_iff in H as [Hr Hc].
    destruct (find_peer p (g_nodes r)) as [c|]; [|discriminate]. split; [|split].
    + exists c. split; [reflexivity|]. apply Z.leb_le. assumption.
    + assumption.
    + intros [at_ [E Hlt]]. rewrite E in Hh. apply negb_true_iff in Hh. apply Z.ltb_ge in Hh. lia.
  - intros [[c [E Hle]] [Hr Hn]]. rewrite E, Hr. cbn. apply Z.leb_le in Hle. rewrite Hle. cbn.
    destruct (g_tomb r t p) as [at_|]; [|reflexivity]. apply negb_true_iff. apply Z.ltb_ge.
    destruct (Z.lt_ge_cases (g_now r - at_) l) as [Hlt|Hge]; [|assumption].
    exfalso. apply Hn. exists at_. split; [reflexivity|assumption].
Qed.

(* ------------------------------------------------------------------ disconnect *)
Theorem disconnect_gone_lookup r i l t p : lookup_producer i l (g_disconnect r p) t p = false.
Proof.
  unfold g_disconnect. destruct (connected r p) eqn:C.
  - unfold lookup_producer, registered. cbn. rewrite N.eqb_refl. rewrite andb_false_r. reflexivity.
  - unfold lookup_producer, recent. unfold connected in C. destruct (find_peer p (g_nodes r)); [discriminate|].
    rewrite andb_false_r. reflexivity.
Qed.

Theorem disconnect_gone_nodes r i p : node_listed i (g_disconnect r p) p = false.
Proof.
  unfold g_disconnect. destruct (connected r p) eqn:C.
  - unfold node_listed. cbn. rewrite N.eqb_refl. rewrite andb_false_r. reflexivity.
  - unfold node_listed, recent. unfold connected in C. destruct (find_peer p (g_nodes r)); [discriminate|].
    rewrite andb_false_r. reflexivity.
Qed.

Theorem disconnect_others_untouched r i l t p q :
  q <> p -> lookup_producer i l (g_disconnect r p) t q = lookup_producer i l r t q.
Proof.
  intros Hne. unfold g_disconnect. destruct (connected r p); [|reflexivity].
  unfold lookup_producer, registered, recent, hidden. cbn. rewrite find_peer_drop.
  destruct (N.eqb_spec q p); [contradiction|]. rewrite andb_true_r. reflexivity.
Qed.

Theorem disconnect_keeps_keys r p k : g_key (g_disconnect r p) k = g_key r k.
Proof. unfold g_disconnect. destruct (connected r p); reflexivity. Qed.

(* on the model itself: after Disconnect p, p is in no producer list *)
Theorem model_disconnect_gone s i l t p :
  shape s -> is_star t = false -> ~ In p (lookup_producers i l (disconnect s p) t).
Proof.
  intros Hsh Hs Hin.
  assert (shape (disconnect s p)) as Hsh' by (apply shape_disconnect; assumption).
  destruct (lookup_found (abs (disconnect s p)) t) eqn:F.
  - apply (q_lookup_producers_spec _ i l t p Hsh' Hs F) in Hin.
    rewrite (lookup_producer_req _ _ i l t p (refine_disconnect s p)) in Hin.
    rewrite disconnect_gone_lookup in Hin. discriminate.
  - apply (q_lookup_found _ i l t Hs) in F. unfold lookup_producers in Hin. rewrite F in Hin. contradiction.
Qed.

(* ------------------------------------------------------------------ tombstones *)
(* a tombstone changes the mark of (u, q) only when u is the named topic, q is registered
   for it and q's broadcast_address:http_port is the named node *)
Theorem tombstone_only_named r t c node u q :
  bytes_eqb u t && registered r q t && g_node_matches r node q = false ->
  g_tomb (g_tombstone r (QArgs (Some t) c (Some node))) u q = g_tomb r u q.
Proof. intros H. cbn. destruct (is_valid_name t); [|reflexivity]. cbn. rewrite H. reflexivity. Qed.

Theorem tombstone_keeps_registrations r q k p :
  g_prod (g_tombstone r q) k p = g_prod r k p /\ g_key (g_tombstone r q) k = g_key r k
  /\ g_nodes (g_tombstone r q) = g_nodes r.
Proof. destruct q as [|[t|] c [node|]]; cbn; auto. destruct (is_valid_name t); cbn; auto. Qed.

Theorem tombstone_hides r t c node q i l :
  is_valid_name t = true ->
  registered r q t = true -> g_node_matches r node q = true -> (0 < l)%Z ->
  lookup_producer i l (g_tombstone r (QArgs (Some t) c (Some node))) t q = false.
Proof.
  intros V Hr Hn Hl. unfold lookup_producer, hidden. cbn. rewrite V. cbn. rewrite bytes_eqb_refl, Hr, Hn. cbn.
  rewrite Z.sub_diag. apply Z.ltb_lt in Hl. rewrite Hl. cbn. rewrite andb_false_r. reflexivity.
Qed.

Theorem tombstone_lapses r t q at_ d l :
  g_tomb r t q = Some at_ -> (l <= g_now r + d - at_)%Z ->
  hidden l (g_step r (Advance d)) t q = false.
Proof. intros E H. unfold hidden. cbn. rewrite E. apply Z.ltb_ge. assumption. Qed.

(* UNREGISTER of the topic by that producer drops the mark; REGISTER does not touch it *)
Theorem unregister_clears r p t :
  connected r p = true -> check_names t [] = None ->
  g_tomb (g_unregister r p t []) t p = None.
Proof.
  intros C V. unfold g_unregister. rewrite C, V. cbn. rewrite bytes_eqb_refl, N.eqb_refl. reflexivity.
Qed.

Theorem register_keeps_tombstones r p t c u q :
  connected r p = true -> check_names t c = None ->
  g_tomb (g_register r p t c) u q = g_tomb r u q.
Proof. intros C V. unfold g_register. rewrite C, V. reflexivity. Qed.

Theorem unregister_channel_keeps_tombstones r p t c u q :
  connected r p = true -> check_names t c = None -> nonempty c = true ->
  g_tomb (g_unregister r p t c) u q = g_tomb r u q.
Proof. intros C V N. unfold g_unregister. rewrite C, V, N. reflexivity. Qed.

(* ------------------------------------------------------------------ ephemeral keys *)
Theorem ephemeral_topic_leaves_with_last r p t :
  connected r p = true -> check_names t [] = None ->
  has_ephemeral_suffix t = true -> others r (topic_key t) p = false ->
  g_key (g_unregister r p t []) (topic_key t) = false.
Proof.
  intros C V E O. unfold g_unregister. rewrite C, V. cbn. rewrite O, E, reg_eqb_refl. cbn.
  rewrite andb_false_r. reflexivity.
Qed.

Theorem topic_key_stays r p t :
  connected r p = true -> check_names t [] = None ->
  has_ephemeral_suffix t = false \/ others r (topic_key t) p = true ->
  g_key (g_unregister r p t []) (topic_key t) = g_key r (topic_key t).
Proof.
  intros C V H. unfold g_unregister. rewrite C, V. cbn.
  destruct H as [-> | ->]; cbn; rewrite ?andb_false_r, ?andb_true_r; cbn; rewrite ?andb_true_r; reflexivity.
Qed.

(* ------------------------------------------------------------------ any tombstone request *)
(* On the model itself, for every topic argument (an invalid one, the wildcard included,
   is refused since the fix and changes nothing): a tombstone request never changes who is
   registered where, and a mark that changes belongs to a producer that is registered for
   that topic and whose broadcast_address:http_port is the named node. *)
Local Arguments has_prod : simpl never.

Lemma a_tomb_tombstone_in k0 id tm m t p :
  a_tomb (tombstone_in k0 id tm m) t p =
  if reg_eqb k0 (topic_key t) && N.eqb p id && a_prod m (topic_key t) p then Some tm else a_tomb m t p.
Proof.
  unfold a_tomb, a_prod. rewrite get_tombstone_in. destruct (reg_eqb k0 (topic_key t)); cbn [andb]; [|reflexivity].
  destruct (get (topic_key t) m) as [ps|]; cbn [option_map]; [|rewrite andb_false_r; reflexivity].
  rewrite find_map_id by (intros pr; destruct (N.eqb (p_id pr) id); reflexivity).
  destruct (find (fun pr => N.eqb (p_id pr) p) ps) as [pr|] eqn:F; cbn [option_map].
  - assert (has_prod p ps = true) as ->.
    { destruct (has_prod p ps) eqn:Hp; [reflexivity|]. apply find_none_has_prod in Hp. congruence. }
    rewrite andb_true_r. apply find_some in F as [_ F]. apply N.eqb_eq in F. rewrite F.
    destruct (N.eqb p id); reflexivity.
  - apply find_none_has_prod in F. rewrite F, andb_false_r. reflexivity.
Qed.

Lemma a_prod_tombstone_in k0 id tm m k q : a_prod (tombstone_in k0 id tm m) k q = a_prod m k q.
Proof.
  unfold a_prod. rewrite get_tombstone_in. destruct (reg_eqb k0 k); [|reflexivity].
  destruct (get k m); cbn [option_map]; [|reflexivity]. apply has_prod_map_id.
  intros pr. destruct (N.eqb (p_id pr) id); reflexivity.
Qed.

Lemma a_tomb_fold_tombstone tm (l : list (reg * producer)) : forall m t p,
  a_tomb (fold_left (fun m (kp : reg * producer) => tombstone_in (fst kp) (p_id (snd kp)) tm m) l m) t p =
  if existsb (fun kp : reg * producer => reg_eqb (fst kp) (topic_key t) && N.eqb p (p_id (snd kp))) l
     && a_prod m (topic_key t) p
  then Some tm else a_tomb m t p.
Proof.
  induction l as [|kp l IH]; intros m t p; cbn [fold_left existsb]; [reflexivity|].
  rewrite IH, a_tomb_tombstone_in, a_prod_tombstone_in.
  destruct (reg_eqb (fst kp) (topic_key t) && N.eqb p (p_id (snd kp))); cbn [orb andb].
  - destruct (a_prod m (topic_key t) p); [|rewrite andb_false_r; reflexivity].
    rewrite andb_true_r. destruct (existsb _ l); reflexivity.
  - reflexivity.
Qed.

Theorem tombstone_any_request s t c node u p :
  let s' := fst (h_tombstone s (QArgs (Some t) c (Some node))) in
  (forall k q, a_prod (db s') k q = a_prod (db s) k q) /\
  (a_tomb (db s') u p <> a_tomb (db s) u p ->
   a_tomb (db s') u p = Some (now s) /\ a_prod (db s) (topic_key u) p = true /\ node_matches s node p = true).
Proof.
  cbn zeta. unfold h_tombstone. destruct (negb (is_valid_name t)); cbn [fst db set_db];
    [split; [reflexivity|intros H; contradiction]|]. split.
  - intros k q. apply a_prod_fold_tombstone.
  - rewrite a_tomb_fold_tombstone.
    destruct (existsb _ _) eqn:E; cbn [andb]; [|intros H; contradiction].
    destruct (a_prod (db s) (topic_key u) p) eqn:P; [|intros H; contradiction].
    intros _. split; [reflexivity|]. split; [reflexivity|].
    apply existsb_exists in E as [kp [Hin Hk]]. apply filter_In in Hin as [_ Hn].
    apply andb_true_iff in Hk as [_ Hk]. apply N.eqb_eq in Hk. rewrite Hk. exact Hn.
Qed.

(* ------------------------------------------------------------------ what the key sets are NOT *)
(* The "obvious" listing rule - a topic / channel is listed iff some connected producer
   registered it or an admin created it - is not what nsqlookupd implements, and the plain
   registry records that instead of idealising it: keys persist after their producers are
   gone (registration_db.go RemoveProducer: "this leaves keys in the DB even if they have
   empty lists"), and the one exception, "#ephemeral keys are removed when empty", is applied
   only by an UNREGISTER naming exactly that key. *)
Definition no_admin_create (h : list op) : bool :=
  forallb (fun o => match o with HCreateTopic _ | HCreateChannel _ => false | _ => true end) h.

Definition obvious_channel_listing : Prop :=
  forall h t c, no_admin_create h = true -> In c (q_channels (run init h) t) ->
    exists p, connected (g_run g_init h) p = true /\ subscribed (g_run g_init h) p t c = true.
Definition obvious_topic_listing : Prop :=
  forall h t, no_admin_create h = true -> In t (q_topics (run init h)) ->
    exists p, connected (g_run g_init h) p = true /\ registered (g_run g_init h) p t = true.
Definition ephemeral_removed_when_empty : Prop :=
  forall h k, no_admin_create h = true ->
    has_ephemeral_suffix (match r_cat k with CChannel => r_sub k | _ => r_key k end) = true ->
    g_key (g_run g_init h) k = true ->
    exists p, connected (g_run g_init h) p = true /\ g_prod (g_run g_init h) k p = true.

Definition w_info : pinfo := mkInfo [104]%N 4150%Z 4151%Z [49]%N.
Definition w_t : name := [116]%N.
Definition w_c : name := [99]%N.
Definition w_eph : name := ([101]%N ++ ephemeral_suffix)%list.
Definition w_ceph : name := ([99]%N ++ ephemeral_suffix)%list.
(* H1: a durable topic and channel stay listed after their only producer is gone *)
Definition stale_durable : list op := [Identify 0%N w_info; Register 0%N w_t w_c; Disconnect 0%N].
(* H2: an #ephemeral topic (and channel) stays listed when its last producer disconnects *)
Definition stale_ephemeral_disconnect : list op := [Identify 0%N w_info; Register 0%N w_eph w_ceph; Disconnect 0%N].
(* H3: an #ephemeral channel stays listed when its last producer UNREGISTERs the topic *)
Definition stale_ephemeral_channel : list op := [Identify 0%N w_info; Register 0%N w_t w_ceph; Unregister 0%N w_t []].

Lemma no_connected_after h :
  g_nodes (g_run g_init h) = [] -> forall p, connected (g_run g_init h) p = false.
Proof. intros E p. unfold connected. rewrite E. reflexivity. Qed.

Theorem obvious_channel_listing_refuted : ~ obvious_channel_listing.
Proof.
  intros H. destruct (H stale_durable w_t w_c eq_refl) as [p [C _]]; [vm_compute; auto|].
  rewrite no_connected_after in C by reflexivity. discriminate.
Qed.

Theorem obvious_topic_listing_refuted : ~ obvious_topic_listing.
Proof.
  intros H. destruct (H stale_durable w_t eq_refl) as [p [C _]]; [vm_compute; auto|].
  rewrite no_connected_after in C by reflexivity. discriminate.
Qed.

Theorem ephemeral_removed_when_empty_refuted :
  ~ ephemeral_removed_when_empty /\
  (* both ways: by a disconnect (topic and channel key) and by UNREGISTER of the topic (channel key) *)
  g_key (g_run g_init stale_ephemeral_disconnect) (topic_key w_eph) = true /\
  g_key (g_run g_init stale_ephemeral_disconnect) (chan_key w_eph w_ceph) = true /\
  g_key (g_run g_init stale_ephemeral_channel) (chan_key w_t w_ceph) = true /\
  (forall p, g_prod (g_run g_init stale_ephemeral_channel) (chan_key w_t w_ceph) p = false).
Proof.
  split; [|repeat split; try (vm_compute; reflexivity)].
  - intros H. destruct (H stale_ephemeral_disconnect (topic_key w_eph) eq_refl) as [p [C _]];
      [vm_compute; reflexivity|vm_compute; reflexivity|].
    rewrite no_connected_after in C by reflexivity. discriminate.
  - intros p. cbn. destruct (N.eqb p 0); reflexivity.
Qed.

(* the model (= the code, by correspondence) shows the same in its answers *)
Example stale_keys_in_answers :
  q_topics (run init stale_durable) = [w_t] /\ q_channels (run init stale_durable) w_t = [w_c] /\
  q_lookup 300 45 (run init stale_durable) w_t = Some ([w_c], []) /\
  q_topics (run init stale_ephemeral_disconnect) = [w_eph] /\
  q_channels (run init stale_ephemeral_channel) w_t = [w_ceph] /\
  (* whereas naming the key removes it *)
  q_channels (run init [Identify 0%N w_info; Register 0%N w_t w_ceph; Unregister 0%N w_t w_ceph]) w_t = [].
Proof. vm_compute. repeat split; reflexivity. Qed.
