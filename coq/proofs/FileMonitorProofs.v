(* The C19 monitor (FileOS.monitor_trace), which judges what the implementation did, is
   true on every trace the model can emit. *)
From Coq Require Import List ZArith NArith Bool Lia Permutation.
From NSQV Require Import model.Judge model.FileOS model.FileLogger proofs.FileOSProofs proofs.FileLoggerProofs proofs.FileLoggerUnique.
Import ListNotations.
Open Scope bool_scope.

Lemma prefixb_app : forall a b, prefixb a (a ++ b) = true.
Proof. induction a as [|x a IH]; intros b; cbn [prefixb app]; auto. rewrite N.eqb_refl. apply IH. Qed.

Lemma infixb_app : forall pre p post, infixb p (pre ++ p ++ post) = true.
Proof.
  induction pre as [|x pre IH]; intros p post; cbn [app].
  - pose proof (prefixb_app p post) as H. destruct (p ++ post) eqn:E; cbn [infixb]; rewrite H; reflexivity.
  - cbn [infixb]. destruct (prefixb p (x :: pre ++ p ++ post)); auto.
Qed.

Lemma infixb_nil_l : forall s, infixb [] s = true.
Proof. destruct s; reflexivity. Qed.

Lemma covered_durable_has : forall fs m, covered fs m -> durable_has fs m = true.
Proof.
  intros fs m [k [f [Hk Hin]]]. unfold durable_has. apply existsb_exists.
  destruct (lookup_some_split _ _ _ Hk) as [l1 [l2 [E _]]]. exists (k, f). split.
  - rewrite E. apply in_or_app. right. left. reflexivity.
  - simpl. destruct (in_flat _ _ Hin) as [pre [post Hf]]. rewrite Hf. simpl. apply infixb_app.
Qed.

Lemma ext_ext_b : forall f f', ext f f' -> ext_b f f' = true.
Proof.
  intros f f' [[a Ha] [b Hb]]. unfold ext_b. rewrite Ha, Hb, !flat_app, !prefixb_app. reflexivity.
Qed.

Lemma in_lookup : forall fs k f, NoDup (keys fs) -> In (k, f) fs -> lookup fs k = Some f.
Proof.
  induction fs as [|[k0 f0] r IH]; intros k f K H; simpl in *; [contradiction|].
  inversion K; subst. destruct H as [H | H].
  - inversion H; subst. rewrite key_eqb_refl. reflexivity.
  - rewrite key_eqb_neq; auto. intro; subst. apply H2. unfold keys. apply in_map_iff. exists (k0, f). auto.
Qed.

Lemma lookup_in : forall fs k f, lookup fs k = Some f -> In (k, f) fs.
Proof.
  intros fs k f H. destruct (lookup_some_split _ _ _ H) as [l1 [l2 [E _]]]. rewrite E.
  apply in_or_app. right. left. reflexivity.
Qed.

Lemma fs_le_leb : forall fs fs', NoDup (keys fs) -> fs_le fs fs' -> fs_leb fs fs' = true.
Proof.
  intros fs fs' K H. unfold fs_leb. apply forallb_forall. intros [k f] Hin. cbn [fst snd].
  destruct (H k f (in_lookup _ _ _ K Hin)) as [[f' [H1 E1]] | [Hw [k' [f' [Ho [H1 E1]]]]]].
  - rewrite H1. rewrite (ext_ext_b _ _ E1). reflexivity.
  - apply orb_true_iff. right. rewrite Hw. apply existsb_exists. exists (k', f'). split. apply lookup_in. exact H1.
    cbn [fst snd]. rewrite Ho. simpl. apply ext_ext_b. exact E1.
Qed.

(* ---------- file names stay distinct under every operation ---------- *)
Lemma keys_update_nodup : forall fs k f, NoDup (keys fs) -> NoDup (keys (update fs k f)).
Proof.
  intros fs k f K. destruct (lookup fs k) as [f0|] eqn:L.
  - destruct (lookup_some_split _ _ _ L) as [l1 [l2 [E N]]]. subst fs. rewrite update_present; auto.
    unfold keys in *. rewrite map_app in *. exact K.
  - rewrite update_absent; auto. unfold keys. rewrite map_app. simpl.
    apply (Permutation_NoDup (Permutation_cons_append (map fst fs) k)). constructor; auto.
    apply lookup_none_keys. exact L.
Qed.

Lemma keys_remove_nodup : forall fs k, NoDup (keys fs) -> NoDup (keys (remove fs k)).
Proof.
  induction fs as [|[k0 f0] r IH]; intros k K; simpl; auto.
  inversion K; subst. destruct (key_eqb k k0); auto. simpl. constructor; auto.
  intro H. apply H1. clear -H. induction r as [|[k1 f1] r IHr]; simpl in *; auto.
  destruct (key_eqb k k1); simpl in *; auto. destruct H; auto.
Qed.

Lemma apply_op_keys : forall fs o, NoDup (keys fs) -> NoDup (keys (apply_op fs o)).
Proof.
  intros fs o K. destruct o; simpl; auto.
  - destruct ok; auto. destruct (lookup fs k); [destruct trunc; auto|]; apply keys_update_nodup; auto.
  - unfold append_vol. destruct (lookup fs k); auto. apply keys_update_nodup; auto.
  - unfold append_vol. destruct (lookup fs k); auto. apply keys_update_nodup; auto.
  - destruct (lookup fs k); auto. apply keys_update_nodup; auto.
  - destruct ok; auto. destruct (lookup fs src); auto. destruct (lookup fs dst); auto. apply keys_update_nodup; auto.
  - apply keys_remove_nodup; auto.
  - destruct (lookup fs src); auto. apply keys_remove_nodup. apply keys_update_nodup; auto.
Qed.

Lemma replay_keys : forall tr fs, NoDup (keys fs) -> NoDup (keys (replay fs tr)).
Proof. induction tr as [|o tr IH]; intros fs K; simpl; auto. apply IH. apply apply_op_keys. exact K. Qed.

Lemma monitor_trace_app : forall a fs b,
  monitor_trace fs (a ++ b) = monitor_trace fs a && monitor_trace (replay fs a) b.
Proof.
  induction a as [|o a IH]; intros fs b; simpl; auto. rewrite IH.
  destruct (match o with OFin m => durable_has fs m | _ => true end); simpl; auto.
  destruct (if safe_op o then true else fs_leb fs (apply_op fs o)); simpl; auto.
Qed.

Lemma all_ok_monitor : forall fs0 rt, NoDup (keys fs0) -> all_ok fs0 rt -> monitor_trace fs0 (rev rt) = true.
Proof.
  intros fs0. induction rt as [|o r IH]; intros K H; simpl; auto.
  destruct H as [HP [Hle Hr]]. rewrite monitor_trace_app, IH; auto. simpl.
  assert (Kr : NoDup (keys (replay fs0 (rev r)))) by (apply replay_keys; exact K).
  assert (F : match o with OFin m => durable_has (replay fs0 (rev r)) m | _ => true end = true).
  { destruct o; auto. apply covered_durable_has.
    simpl in HP. rewrite replay_app in HP. simpl in HP. apply HP.
    rewrite fins_app. apply in_or_app. right. left. reflexivity. }
  rewrite F. simpl.
  destruct (safe_op o); auto. simpl in Hle. rewrite replay_app in Hle. simpl in Hle.
  rewrite (fs_le_leb _ _ Kr Hle). reflexivity.
Qed.

(* The property monitor that judges observed traces accepts every trace of the model:
   for every configuration, distinct pre-existing names and every event history. *)
Theorem monitor_accepts_model : forall c fs0 es, NoDup (keys fs0) ->
  monitor_trace fs0 (trace (run c fs0 es)) = true.
Proof.
  intros c fs0 es K. destruct (run_inv c fs0 es) as [[_ [_ [Hok _]]] _].
  unfold trace. apply all_ok_monitor; auto.
Qed.
