(* Proofs about model/Admin.v and the regenerated tables of gen/AdminRoutes.v (C17). *)
From Coq Require Import String List NArith Bool Lia PeanoNat.
From NSQV Require Import model.Judge model.Names gen.AdminRoutes model.Admin.
Import ListNotations.
Open Scope list_scope.
Open Scope N_scope.

(* ------------------------------------------------------------------ equality tests *)

Lemma bytes_eqb_eq : forall a b : bytes, bytes_eqb a b = true <-> a = b.
Proof.
  unfold bytes_eqb. induction a as [|x a IH]; destruct b as [|y b]; simpl; split; intro H;
    try reflexivity; try discriminate.
  - apply andb_true_iff in H. destruct H as [H1 H2]. apply N.eqb_eq in H1. apply IH in H2. subst. reflexivity.
  - inversion H; subst. apply andb_true_iff. split. apply N.eqb_refl. apply IH. reflexivity.
Qed.

Lemma bytes_eqb_refl : forall a, bytes_eqb a a = true.
Proof. intro a. apply bytes_eqb_eq. reflexivity. Qed.

Lemma existsb_bytes_In : forall x l, existsb (bytes_eqb x) l = true <-> In x l.
Proof.
  intros x l. rewrite existsb_exists. split.
  - intros [y [Hy He]]. apply bytes_eqb_eq in He. subst. exact Hy.
  - intro H. exists x. split. exact H. apply bytes_eqb_refl.
Qed.

Lemma existsb_bytes_false : forall x l, existsb (bytes_eqb x) l = false <-> ~ In x l.
Proof.
  intros x l. split.
  - intros H Hi. apply existsb_bytes_In in Hi. rewrite Hi in H. discriminate.
  - intro H. destruct (existsb (bytes_eqb x) l) eqn:E; [|reflexivity].
    apply existsb_bytes_In in E. contradiction.
Qed.

(* ------------------------------------------------------------------ identity *)

Theorem is_authorized_spec : forall admins user,
  is_authorized admins user = true <-> admins = [] \/ In user admins.
Proof.
  intros admins user. destruct admins as [|a r].
  - simpl. split; auto.
  - unfold is_authorized. rewrite existsb_bytes_In. split.
    + intro H. right. exact H.
    + intros [H|H]. discriminate. exact H.
Qed.

Theorem not_authorized_spec : forall admins user,
  is_authorized admins user = false <-> admins <> [] /\ ~ In user admins.
Proof.
  intros admins user. split.
  - intro H. split.
    + intro E. subst. discriminate.
    + intro Hi. assert (is_authorized admins user = true) by (apply is_authorized_spec; right; exact Hi).
      rewrite H in H0. discriminate.
  - intros [H1 H2]. destruct (is_authorized admins user) eqn:E; [|reflexivity].
    apply is_authorized_spec in E. destruct E; contradiction.
Qed.

(* look-alikes are refused like any other value: only membership counts *)
Corollary lookalike_refused : forall admins user,
  admins <> [] -> (forall a, In a admins -> a <> user) -> is_authorized admins user = false.
Proof.
  intros admins user Hne Hd. apply not_authorized_spec. split. exact Hne.
  intro Hi. apply (Hd user Hi). reflexivity.
Qed.

(* the header lookup: absent header = empty identity *)
Lemma header_get_absent : forall hs key,
  (forall kv, In kv hs -> fst kv <> canon_key key) -> header_get hs key = [].
Proof.
  intros hs key H. unfold header_get.
  destruct (find (fun kv => bytes_eqb (fst kv) (canon_key key)) hs) eqn:E; [|reflexivity].
  apply find_some in E. destruct E as [Hi He]. apply bytes_eqb_eq in He. exfalso. exact (H p Hi He).
Qed.

(* ------------------------------------------------------------------ the generated tables *)

Lemma routes_table_ok : forallb route_ok admin_routes = true.
Proof. vm_compute. reflexivity. Qed.

Lemma ci_table_current : ci_actions = ci_model.
Proof. reflexivity. Qed.

Lemma ci_post_loops_current :
  ci_post_loops = [("nsqlookupdPOST", "[]string", "http://%s/%s?%s"); ("producersPOST", "Producers", "http://%s/%s?%s")]%string.
Proof. reflexivity. Qed.

(* the shape of isAuthorizedAdminRequest the model was written against *)
Lemma auth_shape_current :
  admin_auth_shape = ["call s.nsqadmin.getOpts"; "len(adminUsers) == 0"; "return true"; "call s.nsqadmin.getOpts";
                      "call req.Header.Get"; "range adminUsers"; "v == user"; "return true"; "return false"]%string.
Proof. reflexivity. Qed.

(* every action a handler step names is in the action table *)
Lemma handler_actions_known :
  forallb (fun r => match handler_steps (ar_handler r) with
                    | Some ss => forallb (fun s => match s with
                                                   | SCi n _ => match assoc_str n ci_model with Some _ => true | None => false end
                                                   | _ => true end) ss
                    | None => false end) admin_routes = true.
Proof. vm_compute. reflexivity. Qed.

(* no two registrations for the same method and path *)
Fixpoint keys_nodup (l : list aroute) : bool :=
  match l with
  | [] => true
  | r :: t => negb (existsb (route_matches (ar_method r) (ar_path r)) t) && keys_nodup t
  end.
Lemma routes_keys_nodup : keys_nodup admin_routes = true.
Proof. vm_compute. reflexivity. Qed.

(* ... so every route of the table is the one the router finds for its own key *)
Lemma every_route_found :
  forallb (fun r => match find_route admin_routes (ar_method r) (ar_path r) with
                    | RHandler r' => list_eqb aev_eqb (ar_events r') (ar_events r) && String.eqb (ar_handler r') (ar_handler r)
                    | _ => false end) admin_routes = true.
Proof. vm_compute. reflexivity. Qed.

Lemma found_route_in : forall routes m p r, find_route routes m p = RHandler r -> In r routes.
Proof.
  intros routes m p r H. unfold find_route in H.
  destruct (find (route_matches m p) routes) eqn:E.
  - inversion H; subst. apply find_some in E. tauto.
  - destruct (existsb _ routes); destruct (String.eqb m "OPTIONS"); discriminate.
Qed.

Lemma found_route_ok : forall m p r, find_route admin_routes m p = RHandler r -> route_ok r = true.
Proof.
  intros m p r H. apply found_route_in in H.
  pose proof routes_table_ok as T. rewrite forallb_forall in T. apply T. exact H.
Qed.

Lemma amut_is_mut : forall evs, existsb is_amut evs = true -> existsb is_mut evs = true.
Proof.
  intros evs H. apply existsb_exists in H. destruct H as [e [Hi He]].
  apply existsb_exists. exists e. split. exact Hi. destruct e; simpl in *; try discriminate; reflexivity.
Qed.

Lemma swap_is_mut : forall evs, existsb (aev_eqb ASwap) evs = true -> existsb is_mut evs = true.
Proof.
  intros evs H. apply existsb_exists in H. destruct H as [e [Hi He]].
  apply existsb_exists. exists e. split. exact Hi. destruct e; simpl in *; try discriminate; reflexivity.
Qed.

(* ------------------------------------------------------------------ C17: refused before anything happens *)

Definition refused : outcome := mkOut 403 false [] false.

(* a route that reaches a mutating clusterinfo call: without an admin identity the
   answer is 403, no upstream request, nothing swapped -- whatever the rest of the
   request (body, parameters, world) is *)
Theorem guarded_refused : forall cfg w p r rq,
  find_route admin_routes (rq_method rq) p = RHandler r ->
  existsb is_amut (ar_events r) = true ->
  authorized cfg rq = false ->
  handle cfg w admin_routes p rq = refused.
Proof.
  intros cfg w p r rq Hf Hm Ha.
  pose proof (found_route_ok _ _ _ Hf) as Hok.
  unfold handle. rewrite Hf.
  unfold route_ok in Hok. unfold state_changing in Hok. rewrite (amut_is_mut _ Hm) in Hok.
  apply andb_true_iff in Hok. destruct Hok as [_ Hok].
  destruct (handler_steps (ar_handler r)) as [ss|]; [|discriminate].
  apply andb_true_iff in Hok. destruct Hok as [_ Hg].
  unfold steps_gate_first in Hg.
  destruct ss as [|s ss]; [discriminate|].
  destruct s; try discriminate.
  - simpl. unfold run_step. rewrite Ha. reflexivity.
  - rewrite Hm in Hg. rewrite andb_false_r in Hg. discriminate.
Qed.

(* the same for the routes that swap nsqadmin's options (/config): outside the
   configured CIDR the answer is 403 and nothing is swapped *)
Theorem config_refused : forall cfg w p r rq c ip,
  find_route admin_routes (rq_method rq) p = RHandler r ->
  existsb (aev_eqb ASwap) (ar_events r) = true ->
  cf_cidr cfg = Some c -> rq_remote rq = Some ip -> cidr_contains c ip = false ->
  handle cfg w admin_routes p rq = refused.
Proof.
  intros cfg w p r rq c ip Hf Hs Hc Hr Hn.
  pose proof (found_route_ok _ _ _ Hf) as Hok.
  unfold handle. rewrite Hf.
  unfold route_ok in Hok. unfold state_changing in Hok. rewrite (swap_is_mut _ Hs) in Hok.
  apply andb_true_iff in Hok. destruct Hok as [_ Hok].
  destruct (handler_steps (ar_handler r)) as [ss|]; [|discriminate].
  apply andb_true_iff in Hok. destruct Hok as [_ Hg].
  unfold steps_gate_first in Hg.
  destruct ss as [|s ss]; [discriminate|].
  destruct s; try discriminate.
  - rewrite Hs in Hg. rewrite andb_false_r in Hg. discriminate.
  - simpl. unfold run_step, config_gate. rewrite Hc, Hr, Hn. reflexivity.
Qed.

(* ------------------------------------------------------------------ C17: read-only views never answer 403 *)

Lemma run_action_status : forall w n a,
  o_status (run_action w n a) = 200 \/ o_status (run_action w n a) = 502 \/ o_status (run_action w n a) = 500.
Proof.
  intros w n a. unfold run_action. destruct (assoc_str n ci_model).
  - unfold ci_outcome. destruct (ci_hard _); simpl; auto.
  - simpl. auto.
Qed.

Lemma do_action_not_403 : forall w n a s o, do_action w n a s = Done o -> o_status o <> 403.
Proof.
  intros w n a s o H. unfold do_action in H.
  destruct (o_status (run_action w n a) =? 200) eqn:E; [discriminate|].
  inversion H; subst; simpl.
  destruct (run_action_status w n a) as [K|[K|K]]; rewrite K; discriminate.
Qed.

Lemma run_step_no_gate_not_403 : forall cfg w rq s st o,
  is_gate_step st = false -> run_step cfg w rq s st = Done o -> o_status o <> 403.
Proof.
  intros cfg w rq s st o Hg H.
  destruct st; simpl in Hg; try discriminate Hg; simpl in H; try discriminate H.
  - destruct (rq_body rq); inversion H; subst; simpl; discriminate.
  - destruct (is_valid_name _); inversion H; subst; simpl; discriminate.
  - destruct (_ && _); inversion H; subst; simpl; discriminate.
  - eapply do_action_not_403. exact H.
  - destruct (action_name _ _).
    + eapply do_action_not_403. exact H.
    + inversion H; subst; simpl; discriminate.
  - destruct (String.eqb (rq_method rq) "PUT"); [|discriminate H].
    destruct (rq_put rq); destruct (rq_opt rq); inversion H; subst; simpl; discriminate.
  - destruct (rq_opt rq); inversion H; subst; simpl; discriminate.
Qed.

Lemma run_steps_no_gate_not_403 : forall cfg w rq ss s,
  forallb (fun st => negb (is_gate_step st)) ss = true -> o_status (run_steps cfg w rq s ss) <> 403.
Proof.
  intros cfg w rq ss. induction ss as [|st ss IH]; intros s H; simpl.
  - discriminate.
  - simpl in H. apply andb_true_iff in H. destruct H as [H1 H2].
    destruct (run_step cfg w rq s st) eqn:E.
    + apply IH. exact H2.
    + eapply run_step_no_gate_not_403; [|exact E]. apply negb_true_iff. exact H1.
Qed.

Theorem readonly_never_403 : forall cfg w p rq,
  match find_route admin_routes (rq_method rq) p with
  | RHandler r => state_changing r = false
  | _ => True
  end ->
  o_status (handle cfg w admin_routes p rq) <> 403.
Proof.
  intros cfg w p rq H. unfold handle.
  destruct (find_route admin_routes (rq_method rq) p) eqn:Hf; simpl; try discriminate.
  pose proof (found_route_ok _ _ _ Hf) as Hok. unfold route_ok in Hok. rewrite H in Hok.
  apply andb_true_iff in Hok. destruct Hok as [_ Hok].
  destruct (handler_steps (ar_handler r)) as [ss|]; [|discriminate].
  apply andb_true_iff in Hok. destruct Hok as [_ Hg].
  apply run_steps_no_gate_not_403. exact Hg.
Qed.

(* ------------------------------------------------------------------ C17: an admin identity is as good as no admin list *)

Definition open_cfg (cfg : acfg) : acfg := mkCfg [] (cf_header cfg) (cf_cidr cfg).

Lemma run_step_open : forall cfg w rq s st,
  authorized cfg rq = true -> run_step cfg w rq s st = run_step (open_cfg cfg) w rq s st.
Proof.
  intros cfg w rq s st Ha. destruct st; simpl; try reflexivity.
  rewrite Ha. reflexivity.
Qed.

Lemma run_steps_open : forall cfg w rq ss s,
  authorized cfg rq = true -> run_steps cfg w rq s ss = run_steps (open_cfg cfg) w rq s ss.
Proof.
  intros cfg w rq ss. induction ss as [|st ss IH]; intros s Ha; simpl.
  - reflexivity.
  - rewrite (run_step_open _ _ _ _ _ Ha). destruct (run_step (open_cfg cfg) w rq s st).
    + apply IH. exact Ha.
    + reflexivity.
Qed.

Theorem authorized_as_open : forall cfg w routes p rq,
  authorized cfg rq = true -> handle cfg w routes p rq = handle (open_cfg cfg) w routes p rq.
Proof.
  intros cfg w routes p rq Ha. unfold handle.
  destruct (find_route routes (rq_method rq) p); try reflexivity.
  destruct (handler_steps (ar_handler r)); [|reflexivity].
  apply run_steps_open. exact Ha.
Qed.

(* ------------------------------------------------------------------ fan-out of the actions *)

Definition is_post (c : ucall) : bool := match uc_kind c with UPost => true | UGet => false end.
Definition posts (l : list ucall) : list ucall := filter is_post l.

Lemma posts_app : forall a b, posts (a ++ b) = posts a ++ posts b.
Proof. intros a b. unfold posts. apply filter_app. Qed.

Lemma qs_call_kind : forall k ad uri qs a, uc_kind (qs_call k ad uri qs a) = k.
Proof.
  intros k ad uri qs a. unfold qs_call.
  destruct (String.eqb qs "topic=%s"); [reflexivity|].
  destruct (String.eqb qs "topic=%s&channel=%s"); [reflexivity|].
  destruct (String.eqb qs "topic=%s&node=%s"); reflexivity.
Qed.

Lemma posts_map_post : forall uri qs a l,
  posts (map (fun ad => qs_call UPost ad uri qs a) l) = map (fun ad => qs_call UPost ad uri qs a) l.
Proof.
  intros uri qs a l. induction l as [|x l IH]; simpl. reflexivity.
  unfold is_post at 1. rewrite qs_call_kind. simpl. f_equal. exact IH.
Qed.

Lemma posts_all_get : forall l, (forall c, In c l -> uc_kind c = UGet) -> posts l = [].
Proof.
  induction l as [|x l IH]; intro H; simpl. reflexivity.
  unfold is_post at 1. rewrite (H x (or_introl eq_refl)). apply IH. intros c Hc. apply H. right. exact Hc.
Qed.

Lemma lookupd_calls_get : forall w t, posts (lr_calls (get_lookupd_topic_producers w t)) = [].
Proof.
  intros w t. apply posts_all_get. intros c Hc. unfold get_lookupd_topic_producers in Hc.
  assert (In c (map (fun x : bytes * lookup_ans => mkCall UGet (fst x) "lookup" t [] []) (w_lookupds w))) as Hin.
  { destruct (Nat.eqb _ _); exact Hc. }
  apply in_map_iff in Hin. destruct Hin as [x [Hx _]]. subst. reflexivity.
Qed.

Lemma nsqd_calls_get : forall w t, posts (lr_calls (get_nsqd_topic_producers w t)) = [].
Proof.
  intros w t. apply posts_all_get. intros c Hc. unfold get_nsqd_topic_producers in Hc.
  assert (In c (flat_map (nsqd_calls t) (w_nsqds w))) as Hin.
  { destruct (Nat.eqb _ _); exact Hc. }
  apply in_flat_map in Hin. destruct Hin as [x [_ Hx]]. unfold nsqd_calls in Hx.
  destruct Hx as [Hx|Hx]. subst; reflexivity.
  destruct (snd x) as [|h i]; [contradiction|]. destruct h; [|contradiction].
  destruct Hx as [Hx|[]]. subst; reflexivity.
Qed.

Lemma topic_producers_calls_get : forall w t, posts (lr_calls (get_topic_producers w t)) = [].
Proof.
  intros w t. unfold get_topic_producers. destruct (w_lookupds w).
  apply nsqd_calls_get. apply lookupd_calls_get.
Qed.

Lemma node_calls_get : forall w n, posts (lr_calls (get_node_producer w n)) = [].
Proof.
  intros w n. unfold get_node_producer. destruct (w_node w); reflexivity.
Qed.

(* de-duplication *)
Lemma dedup_In : forall l seen x, In x (dedup seen l) <-> In x l /\ ~ In x seen.
Proof.
  induction l as [|y l IH]; intros seen x; simpl.
  - tauto.
  - destruct (existsb (bytes_eqb y) seen) eqn:E.
    + rewrite IH. apply existsb_bytes_In in E. split.
      * intros [H1 H2]. tauto.
      * intros [[H|H] H2]. subst. contradiction. tauto.
    + apply existsb_bytes_false in E. simpl. rewrite IH. simpl. split.
      * intros [H|[H1 H2]]. subst. tauto. tauto.
      * intros [[H|H] H2]. left; exact H.
        destruct (list_eq_dec N.eq_dec y x) as [e|ne]. left; exact e.
        right. split. exact H. intros [K|K]; contradiction.
Qed.

Lemma dedup_NoDup : forall l seen, NoDup (dedup seen l).
Proof.
  induction l as [|y l IH]; intro seen; simpl.
  - constructor.
  - destruct (existsb (bytes_eqb y) seen). apply IH.
    constructor. rewrite dedup_In. simpl. tauto. apply IH.
Qed.

(* nsqlookupd mode: the producers acted upon are exactly the duplicate-free union of
   what the answering nsqlookupds list; a hard error iff none answers *)
Theorem lookupd_producers_union : forall w t ps,
  lr_producers (get_lookupd_topic_producers w t) = Some ps ->
  NoDup ps /\ forall x, In x ps <-> exists l qs, In (l, LProducers qs) (w_lookupds w) /\ In x qs.
Proof.
  intros w t ps H. unfold get_lookupd_topic_producers in H.
  destruct (Nat.eqb _ _); simpl in H; [discriminate|]. inversion H; subst. split.
  - apply dedup_NoDup.
  - intro x. rewrite dedup_In. rewrite in_flat_map. split.
    + intros [[u [Hu Hx]] _]. destruct u as [l ans]. simpl in Hx. destruct ans; [contradiction|].
      exists l, ps. split; assumption.
    + intros [l [qs [Hl Hx]]]. split; [|tauto]. exists (l, LProducers qs). split. exact Hl. exact Hx.
Qed.

Lemma filter_len_le : forall (A : Type) (f : A -> bool) l, (length (filter f l) <= length l)%nat.
Proof. intros A f. induction l as [|y l IH]; simpl. lia. destruct (f y); simpl; lia. Qed.

Lemma filter_length_all : forall (A : Type) (f : A -> bool) l,
  length (filter f l) = length l <-> forall x, In x l -> f x = true.
Proof.
  intros A f. induction l as [|y l IH]; simpl.
  - split; [intros _ x []|reflexivity].
  - destruct (f y) eqn:E; simpl.
    + split.
      * intros H x [Hx|Hx]. subst; exact E. apply IH. lia. exact Hx.
      * intro H. f_equal. apply IH. intros x Hx. apply H. right; exact Hx.
    + split.
      * intro H. pose proof (filter_len_le A f l). lia.
      * intro H. specialize (H y (or_introl eq_refl)). congruence.
Qed.

Theorem lookupd_hard_iff_all_fail : forall w t,
  lr_producers (get_lookupd_topic_producers w t) = None <->
  forall x, In x (w_lookupds w) -> snd x = LFail.
Proof.
  intros w t. unfold get_lookupd_topic_producers.
  destruct (Nat.eqb (length (filter lookupd_failed (w_lookupds w))) (length (w_lookupds w))) eqn:E; simpl.
  - apply Nat.eqb_eq in E. pose proof (proj1 (filter_length_all _ lookupd_failed (w_lookupds w)) E) as E'.
    split; [|reflexivity].
    intros _ x Hx. specialize (E' x Hx). rename E' into E2. clear E. rename E2 into E. unfold lookupd_failed in E. destruct (snd x); [reflexivity|discriminate].
  - apply Nat.eqb_neq in E. split; [discriminate|].
    intro H. exfalso. apply E. apply (proj2 (filter_length_all _ lookupd_failed (w_lookupds w))). intros x Hx. unfold lookupd_failed. rewrite (H x Hx). reflexivity.
Qed.

(* direct mode: the producers are the configured nsqds that have the topic and answer /info *)
Theorem nsqd_producers_spec : forall w t ps,
  lr_producers (get_nsqd_topic_producers w t) = Some ps ->
  forall x, In x ps <-> exists ad b p, In (ad, NStats true (Some (b, p))) (w_nsqds w) /\
                                      x = match b with [] => ad | _ => join_host_port b p end.
Proof.
  intros w t ps H x. unfold get_nsqd_topic_producers in H.
  destruct (Nat.eqb _ _); simpl in H; [discriminate|]. inversion H; subst. clear H.
  rewrite in_flat_map. split.
  - intros [[ad ans] [Hu Hx]]. unfold nsqd_producer in Hx. simpl in Hx.
    destruct ans as [|h i]; [contradiction|]. destruct h; [|contradiction].
    destruct i as [[b p]|]; [|contradiction]. destruct Hx as [Hx|[]].
    exists ad, b, p. split. exact Hu. symmetry. exact Hx.
  - intros [ad [b [p [Hi Hx]]]]. exists (ad, NStats true (Some (b, p))). split. exact Hi.
    unfold nsqd_producer. simpl. left. symmetry. exact Hx.
Qed.

(* one evaluation lemma per family of actions; the look-ups stay folded *)
Arguments get_topic_producers : simpl never.
Arguments get_lookupd_topic_producers : simpl never.
Arguments get_node_producer : simpl never.

Definition post_to (uri qs : string) (a : aargs) (addrs : list bytes) : list ucall :=
  map (fun ad => qs_call UPost ad uri qs a) addrs.

Definition lookupd_addrs (w : world) : list bytes := map fst (w_lookupds w).

(* one-step rules of the action interpreter *)
Lemma cond_always : forall a, cond_holds "" a = Some true.
Proof. reflexivity. Qed.

Definition has_channel (a : aargs) : bool := negb (Nat.eqb (length (a_channel a)) 0).

Lemma cond_channel : forall a, cond_holds "len(channelName) > 0" a = Some (has_channel a).
Proof. reflexivity. Qed.

Lemma step_hard : forall w a calls ps errs s,
  ci_step w a (mkCi calls ps errs true) s = mkCi calls ps errs true.
Proof. reflexivity. Qed.

Lemma step_skip : forall w a st c x, cond_holds c a = Some false -> ci_step w a st (c, x) = st.
Proof. intros w a st c x H. unfold ci_step. destruct (ci_hard st); [reflexivity|]. simpl. rewrite H. reflexivity. Qed.

Lemma step_addrs : forall w a calls ps errs c uri qs, cond_holds c a = Some true ->
  ci_step w a (mkCi calls ps errs false) (c, CAddrsPost uri qs) =
  mkCi (calls ++ post_to uri qs a (lookupd_addrs w)) ps (errs + post_errs w (lookupd_addrs w))%nat false.
Proof. intros w a calls ps errs c uri qs H. unfold ci_step. simpl. rewrite H. reflexivity. Qed.

Lemma step_producers : forall w a calls ps errs c uri qs, cond_holds c a = Some true ->
  ci_step w a (mkCi calls ps errs false) (c, CProducersPost uri qs) =
  mkCi (calls ++ post_to uri qs a ps) ps (errs + post_errs w ps)%nat false.
Proof. intros w a calls ps errs c uri qs H. unfold ci_step. simpl. rewrite H. reflexivity. Qed.

Lemma step_get : forall w a calls ps errs c m r, cond_holds c a = Some true -> run_get w m a = Some r ->
  ci_step w a (mkCi calls ps errs false) (c, CGet m) =
  match lr_producers r with
  | None => mkCi (calls ++ lr_calls r) [] errs true
  | Some ps' => mkCi (calls ++ lr_calls r) ps' (errs + lr_errs r)%nat false
  end.
Proof. intros w a calls ps errs c m r H Hr. unfold ci_step. simpl. rewrite H, Hr. reflexivity. Qed.

Lemma run_get_topic : forall w a, run_get w "GetTopicProducers" a = Some (get_topic_producers w (a_topic a)).
Proof. reflexivity. Qed.
Lemma run_get_lookupd : forall w a, run_get w "GetLookupdTopicProducers" a = Some (get_lookupd_topic_producers w (a_topic a)).
Proof. reflexivity. Qed.
Lemma run_get_node : forall w a, run_get w "GetNSQDProducers" a = Some (get_node_producer w (a_node a)).
Proof. reflexivity. Qed.

(* pause / unpause / empty of a topic or channel *)
Lemma producer_action_eval : forall w a uri qs,
  let r := get_topic_producers w (a_topic a) in
  let st := run_ci w a [(""%string, CGet "GetTopicProducers"); (""%string, CProducersPost uri qs)] in
  match lr_producers r with
  | None => ci_hard st = true /\ ci_calls st = lr_calls r
  | Some ps => ci_hard st = false /\ ci_calls st = lr_calls r ++ post_to uri qs a ps /\
               ci_errs st = (lr_errs r + post_errs w ps)%nat
  end.
Proof.
  intros w a uri qs. cbv zeta. unfold run_ci. cbn [fold_left].
  rewrite (step_get _ _ _ _ _ _ _ _ (cond_always a) (run_get_topic w a)).
  destruct (lr_producers (get_topic_producers w (a_topic a))) as [ps|].
  - rewrite (step_producers _ _ _ _ _ _ _ _ (cond_always a)). simpl. repeat split; reflexivity.
  - rewrite step_hard. simpl. split; reflexivity.
Qed.

(* delete topic / delete channel: the nsqlookupds, then the producers found before *)
Lemma delete_action_eval : forall w a uri qs,
  let r := get_topic_producers w (a_topic a) in
  let st := run_ci w a [(""%string, CGet "GetTopicProducers"); (""%string, CAddrsPost uri qs); (""%string, CProducersPost uri qs)] in
  match lr_producers r with
  | None => ci_hard st = true /\ ci_calls st = lr_calls r
  | Some ps => ci_hard st = false /\
               ci_calls st = (lr_calls r ++ post_to uri qs a (lookupd_addrs w)) ++ post_to uri qs a ps /\
               ci_errs st = (lr_errs r + post_errs w (lookupd_addrs w) + post_errs w ps)%nat
  end.
Proof.
  intros w a uri qs. cbv zeta. unfold run_ci. cbn [fold_left].
  rewrite (step_get _ _ _ _ _ _ _ _ (cond_always a) (run_get_topic w a)).
  destruct (lr_producers (get_topic_producers w (a_topic a))) as [ps|].
  - rewrite (step_addrs _ _ _ _ _ _ _ _ (cond_always a)).
    rewrite (step_producers _ _ _ _ _ _ _ _ (cond_always a)). simpl. repeat split; reflexivity.
  - rewrite !step_hard. simpl. split; reflexivity.
Qed.

(* create: topic on every nsqlookupd; with a channel also the channel on every
   nsqlookupd and on every producer the nsqlookupds list for the topic *)
Lemma create_action_eval : forall w a,
  let r := get_lookupd_topic_producers w (a_topic a) in
  let st := run_ci w a [(""%string, CAddrsPost "topic/create" "topic=%s");
                        ("len(channelName) > 0"%string, CAddrsPost "channel/create" "topic=%s&channel=%s");
                        ("len(channelName) > 0"%string, CGet "GetLookupdTopicProducers");
                        ("len(channelName) > 0"%string, CProducersPost "channel/create" "topic=%s&channel=%s")] in
  if has_channel a then
    match lr_producers r with
    | None => ci_hard st = true /\
              ci_calls st = (post_to "topic/create" "topic=%s" a (lookupd_addrs w) ++
                             post_to "channel/create" "topic=%s&channel=%s" a (lookupd_addrs w)) ++ lr_calls r
    | Some ps => ci_hard st = false /\
                 ci_calls st = ((post_to "topic/create" "topic=%s" a (lookupd_addrs w) ++
                                 post_to "channel/create" "topic=%s&channel=%s" a (lookupd_addrs w)) ++ lr_calls r) ++
                               post_to "channel/create" "topic=%s&channel=%s" a ps
    end
  else ci_hard st = false /\ ci_calls st = post_to "topic/create" "topic=%s" a (lookupd_addrs w).
Proof.
  intros w a. cbv zeta. unfold run_ci. cbn [fold_left].
  rewrite (step_addrs _ _ _ _ _ _ _ _ (cond_always a)).
  pose proof (cond_channel a) as Hc.
  destruct (has_channel a).
  - rewrite (step_addrs _ _ _ _ _ _ _ _ Hc).
    rewrite (step_get _ _ _ _ _ _ _ _ Hc (run_get_lookupd w a)).
    destruct (lr_producers (get_lookupd_topic_producers w (a_topic a))) as [ps|].
    + rewrite (step_producers _ _ _ _ _ _ _ _ Hc). simpl. split; reflexivity.
    + rewrite step_hard. simpl. split; reflexivity.
  - rewrite !(step_skip _ _ _ _ _ Hc). simpl. split; reflexivity.
Qed.

(* tombstone: every nsqlookupd, then topic/delete on the node itself *)
Lemma tombstone_action_eval : forall w a,
  let r := get_node_producer w (a_node a) in
  let st := run_ci w a [(""%string, CAddrsPost "topic/tombstone" "topic=%s&node=%s");
                        (""%string, CGet "GetNSQDProducers");
                        (""%string, CProducersPost "topic/delete" "topic=%s")] in
  match lr_producers r with
  | None => ci_hard st = true /\
            ci_calls st = post_to "topic/tombstone" "topic=%s&node=%s" a (lookupd_addrs w) ++ lr_calls r
  | Some ps => ci_hard st = false /\
               ci_calls st = (post_to "topic/tombstone" "topic=%s&node=%s" a (lookupd_addrs w) ++ lr_calls r) ++
                             post_to "topic/delete" "topic=%s" a ps
  end.
Proof.
  intros w a. cbv zeta. unfold run_ci. cbn [fold_left].
  rewrite (step_addrs _ _ _ _ _ _ _ _ (cond_always a)).
  rewrite (step_get _ _ _ _ _ _ _ _ (cond_always a) (run_get_node w a)).
  destruct (lr_producers (get_node_producer w (a_node a))) as [ps|].
  - rewrite (step_producers _ _ _ _ _ _ _ _ (cond_always a)). simpl. split; reflexivity.
  - rewrite step_hard. simpl. split; reflexivity.
Qed.

(* ---- the statements about run_action (what a handler runs) *)

Definition producer_actions : list (string * string * string) :=
  [("PauseTopic", "topic/pause", "topic=%s"); ("UnPauseTopic", "topic/unpause", "topic=%s");
   ("EmptyTopic", "topic/empty", "topic=%s");
   ("PauseChannel", "channel/pause", "topic=%s&channel=%s"); ("UnPauseChannel", "channel/unpause", "topic=%s&channel=%s");
   ("EmptyChannel", "channel/empty", "topic=%s&channel=%s")]%string.

Definition delete_actions : list (string * string * string) :=
  [("DeleteTopic", "topic/delete", "topic=%s"); ("DeleteChannel", "channel/delete", "topic=%s&channel=%s")]%string.

Lemma nat_eqb0_warn : forall n, negb (Nat.eqb n 0) = true <-> n <> 0%nat.
Proof. intro n. rewrite negb_true_iff. rewrite Nat.eqb_neq. tauto. Qed.

Theorem allowed_producer_actions : forall w a name uri qs,
  In (name, uri, qs) producer_actions ->
  let r := get_topic_producers w (a_topic a) in
  let o := run_action w name a in
  match lr_producers r with
  | None => o_status o = 502 /\ posts (o_calls o) = []
  | Some ps => o_status o = 200 /\ posts (o_calls o) = post_to uri qs a ps /\
               (o_warn o = true <-> (lr_errs r + post_errs w ps)%nat <> 0%nat)
  end.
Proof.
  intros w a name uri qs Hin. cbv zeta.
  assert (run_action w name a =
          ci_outcome (run_ci w a [(""%string, CGet "GetTopicProducers"); (""%string, CProducersPost uri qs)])) as Hr.
  { simpl in Hin. repeat (destruct Hin as [Hin|Hin]; [inversion Hin; subst; reflexivity|]). contradiction. }
  rewrite Hr. pose proof (producer_action_eval w a uri qs) as H. cbv zeta in H.
  destruct (lr_producers (get_topic_producers w (a_topic a))) as [ps|].
  - destruct H as [H1 [H2 H3]]. unfold ci_outcome. rewrite H1. simpl. split; [reflexivity|]. split.
    + rewrite H2, posts_app, topic_producers_calls_get. simpl. apply posts_map_post.
    + rewrite H3. apply nat_eqb0_warn.
  - destruct H as [H1 H2]. unfold ci_outcome. rewrite H1. simpl. split; [reflexivity|].
    rewrite H2. apply topic_producers_calls_get.
Qed.

Theorem allowed_delete_actions : forall w a name uri qs,
  In (name, uri, qs) delete_actions ->
  let r := get_topic_producers w (a_topic a) in
  let o := run_action w name a in
  match lr_producers r with
  | None => o_status o = 502 /\ posts (o_calls o) = []
  | Some ps => o_status o = 200 /\
               posts (o_calls o) = post_to uri qs a (lookupd_addrs w) ++ post_to uri qs a ps /\
               (o_warn o = true <-> (lr_errs r + post_errs w (lookupd_addrs w) + post_errs w ps)%nat <> 0%nat)
  end.
Proof.
  intros w a name uri qs Hin. cbv zeta.
  assert (run_action w name a =
          ci_outcome (run_ci w a [(""%string, CGet "GetTopicProducers"); (""%string, CAddrsPost uri qs);
                                  (""%string, CProducersPost uri qs)])) as Hr.
  { simpl in Hin. repeat (destruct Hin as [Hin|Hin]; [inversion Hin; subst; reflexivity|]). contradiction. }
  rewrite Hr. pose proof (delete_action_eval w a uri qs) as H. cbv zeta in H.
  destruct (lr_producers (get_topic_producers w (a_topic a))) as [ps|].
  - destruct H as [H1 [H2 H3]]. unfold ci_outcome. rewrite H1. simpl. split; [reflexivity|]. split.
    + rewrite H2, !posts_app, topic_producers_calls_get. simpl. unfold post_to. rewrite !posts_map_post. reflexivity.
    + rewrite H3. apply nat_eqb0_warn.
  - destruct H as [H1 H2]. unfold ci_outcome. rewrite H1. simpl. split; [reflexivity|].
    rewrite H2. apply topic_producers_calls_get.
Qed.

Theorem allowed_create : forall w a,
  let r := get_lookupd_topic_producers w (a_topic a) in
  let o := run_action w "CreateTopicChannel" a in
  if has_channel a then
    match lr_producers r with
    | None => o_status o = 502 /\
              posts (o_calls o) = post_to "topic/create" "topic=%s" a (lookupd_addrs w) ++
                                  post_to "channel/create" "topic=%s&channel=%s" a (lookupd_addrs w)
    | Some ps => o_status o = 200 /\
                 posts (o_calls o) = (post_to "topic/create" "topic=%s" a (lookupd_addrs w) ++
                                      post_to "channel/create" "topic=%s&channel=%s" a (lookupd_addrs w)) ++
                                     post_to "channel/create" "topic=%s&channel=%s" a ps
    end
  else o_status o = 200 /\ posts (o_calls o) = post_to "topic/create" "topic=%s" a (lookupd_addrs w).
Proof.
  intros w a. cbv zeta.
  change (run_action w "CreateTopicChannel" a) with
    (ci_outcome (run_ci w a [(""%string, CAddrsPost "topic/create" "topic=%s");
                        ("len(channelName) > 0"%string, CAddrsPost "channel/create" "topic=%s&channel=%s");
                        ("len(channelName) > 0"%string, CGet "GetLookupdTopicProducers");
                        ("len(channelName) > 0"%string, CProducersPost "channel/create" "topic=%s&channel=%s")])).
  pose proof (create_action_eval w a) as H. cbv zeta in H.
  destruct (has_channel a).
  - destruct (lr_producers (get_lookupd_topic_producers w (a_topic a))) as [ps|].
    + destruct H as [H1 H2]. unfold ci_outcome. rewrite H1. simpl. split; [reflexivity|].
      rewrite H2, !posts_app, lookupd_calls_get. unfold post_to. rewrite !posts_map_post. rewrite app_nil_r. reflexivity.
    + destruct H as [H1 H2]. unfold ci_outcome. rewrite H1. simpl. split; [reflexivity|].
      rewrite H2, !posts_app, lookupd_calls_get. unfold post_to. rewrite !posts_map_post. rewrite app_nil_r. reflexivity.
  - destruct H as [H1 H2]. unfold ci_outcome. rewrite H1. simpl. split; [reflexivity|].
    rewrite H2. unfold post_to. apply posts_map_post.
Qed.

Theorem allowed_tombstone : forall w a,
  let r := get_node_producer w (a_node a) in
  let o := run_action w "TombstoneNodeForTopic" a in
  match lr_producers r with
  | None => o_status o = 502 /\
            posts (o_calls o) = post_to "topic/tombstone" "topic=%s&node=%s" a (lookupd_addrs w)
  | Some ps => o_status o = 200 /\
               posts (o_calls o) = post_to "topic/tombstone" "topic=%s&node=%s" a (lookupd_addrs w) ++
                                   post_to "topic/delete" "topic=%s" a ps
  end.
Proof.
  intros w a. cbv zeta.
  change (run_action w "TombstoneNodeForTopic" a) with
    (ci_outcome (run_ci w a [(""%string, CAddrsPost "topic/tombstone" "topic=%s&node=%s");
                        (""%string, CGet "GetNSQDProducers");
                        (""%string, CProducersPost "topic/delete" "topic=%s")])).
  pose proof (tombstone_action_eval w a) as H. cbv zeta in H.
  destruct (lr_producers (get_node_producer w (a_node a))) as [ps|].
  - destruct H as [H1 H2]. unfold ci_outcome. rewrite H1. simpl. split; [reflexivity|].
    rewrite H2, !posts_app, node_calls_get. unfold post_to. rewrite !posts_map_post. rewrite app_nil_r. reflexivity.
  - destruct H as [H1 H2]. unfold ci_outcome. rewrite H1. simpl. split; [reflexivity|].
    rewrite H2, !posts_app, node_calls_get. unfold post_to. rewrite !posts_map_post. rewrite app_nil_r. reflexivity.
Qed.

(* every nsqlookupd / producer in a post_to list is posted to, once per occurrence *)
Lemma post_to_In : forall uri qs a addrs ad, In ad addrs -> In (qs_call UPost ad uri qs a) (post_to uri qs a addrs).
Proof. intros. unfold post_to. apply in_map_iff. exists ad. split; [reflexivity|assumption]. Qed.

Lemma post_to_addr : forall uri qs a addrs c, In c (post_to uri qs a addrs) -> In (uc_addr c) addrs.
Proof.
  intros uri qs a addrs c H. unfold post_to in H. apply in_map_iff in H. destruct H as [ad [He Hi]]. subst.
  unfold qs_call. destruct (String.eqb qs "topic=%s"); [exact Hi|].
  destruct (String.eqb qs "topic=%s&channel=%s"); [exact Hi|].
  destruct (String.eqb qs "topic=%s&node=%s"); exact Hi.
Qed.

(* ---- the handlers with an admin identity (or no admin list): the action runs with the
   request's arguments *)
Arguments run_action : simpl never.
Theorem delete_topic_handler_runs : forall cfg w rq,
  rq_method rq = "DELETE"%string -> authorized cfg rq = true ->
  let o := run_action w "DeleteTopic" (mkArgs (rq_topic rq) (rq_channel rq) []) in
  handle cfg w admin_routes "/api/topics/:topic" rq =
  mkOut (o_status o) (if o_status o =? 200 then o_warn o else false) (o_calls o) false.
Proof.
  intros cfg w rq Hm Ha. cbv zeta. unfold handle. rewrite Hm.
  change (find_route admin_routes "DELETE" "/api/topics/:topic") with
    (RHandler (mkRoute "DELETE" "/api/topics/:topic" "deleteTopicHandler" "" [AGuard; AMut "DeleteTopic"; ANotify])).
  simpl. rewrite Ha. unfold do_action.
  remember (run_action w "DeleteTopic" (mkArgs (rq_topic rq) (rq_channel rq) [])) as o.
  destruct (o_status o =? 200) eqn:E; simpl.
  - apply N.eqb_eq in E. rewrite E. reflexivity.
  - reflexivity.
Qed.

Theorem topic_action_handler_runs : forall cfg w rq t c act name,
  rq_method rq = "POST"%string -> authorized cfg rq = true ->
  rq_body rq = BodyJson t c act -> rq_channel rq = [] ->
  action_name act false = Some name ->
  let o := run_action w name (mkArgs (rq_topic rq) [] []) in
  handle cfg w admin_routes "/api/topics/:topic" rq =
  mkOut (o_status o) (if o_status o =? 200 then o_warn o else false) (o_calls o) false.
Proof.
  intros cfg w rq t c act name Hm Ha Hb Hc Hn. cbv zeta. unfold handle. rewrite Hm.
  change (find_route admin_routes "POST" "/api/topics/:topic") with
    (RHandler (mkRoute "POST" "/api/topics/:topic" "topicActionHandler" ""
       [AGuard; ADecode; AMut "PauseChannel"; ANotify; AMut "PauseTopic"; AMut "UnPauseChannel";
        AMut "UnPauseTopic"; AMut "EmptyChannel"; AMut "EmptyTopic"])).
  simpl. rewrite Ha. rewrite Hb. simpl. rewrite Hc. simpl. rewrite Hn.
  unfold do_action.
  remember (run_action w name (mkArgs (rq_topic rq) [] [])) as o.
  destruct (o_status o =? 200) eqn:E; simpl.
  - apply N.eqb_eq in E. rewrite E. reflexivity.
  - reflexivity.
Qed.

(* ------------------------------------------------------------------ the CIDR test is a bit-prefix comparison *)

Lemma mask_of_bits : forall width p i, p <= width ->
  N.testbit (mask_of width p) i = (width - p <=? i) && (i <? width).
Proof.
  intros width p i Hp. unfold mask_of.
  destruct (N.ltb_spec i (width - p)) as [Hlt|Hge].
  - rewrite N.shiftl_spec_low by exact Hlt.
    destruct (N.leb_spec (width - p) i); [lia|reflexivity].
  - rewrite N.shiftl_spec_high' by exact Hge.
    destruct (N.leb_spec (width - p) i); [|lia]. simpl.
    destruct (N.ltb_spec i width) as [Hw|Hw].
    + apply N.ones_spec_low. lia.
    + apply N.ones_spec_high. lia.
Qed.

Lemma land_eqb_bits : forall n x m,
  (N.land n m =? N.land x m) = true <-> forall i, N.testbit m i = true -> N.testbit n i = N.testbit x i.
Proof.
  intros n x m. rewrite N.eqb_eq. split.
  - intros H i Hm. assert (N.testbit (N.land n m) i = N.testbit (N.land x m) i) as K by (rewrite H; reflexivity).
    rewrite !N.land_spec, Hm, !andb_true_r in K. exact K.
  - intro H. apply N.bits_inj. intro i. rewrite !N.land_spec.
    destruct (N.testbit m i) eqn:Hm.
    + rewrite (H i Hm). reflexivity.
    + rewrite !andb_false_r. reflexivity.
Qed.

(* IPv4 network a/p against an IPv4 (or IPv4-mapped) client address x: the top p bits agree *)
Theorem cidr4_contains_prefix : forall a p ip x, p <= 32 -> to4 ip = IP4 x ->
  cidr_contains (C4 a p) ip = true <-> forall i, 32 - p <= i < 32 -> N.testbit a i = N.testbit x i.
Proof.
  intros a p ip x Hp Hx. unfold cidr_contains, net_norm. cbv beta iota. rewrite Hx. rewrite land_eqb_bits. split.
  - intros H i Hi. specialize (H i). rewrite mask_of_bits in H by exact Hp.
    assert ((32 - p <=? i) && (i <? 32) = true) as K.
    { apply andb_true_iff. split. apply N.leb_le. lia. apply N.ltb_lt. lia. }
    specialize (H K). rewrite N.land_spec, mask_of_bits, K, andb_true_r in H by exact Hp. exact H.
  - intros H i Hm. rewrite mask_of_bits in Hm by exact Hp.
    rewrite N.land_spec, mask_of_bits, Hm, andb_true_r by exact Hp.
    apply andb_true_iff in Hm. destruct Hm as [H1 H2]. apply N.leb_le in H1. apply N.ltb_lt in H2.
    apply H. lia.
Qed.

(* ... and an IPv6 client that is not IPv4-mapped is never inside an IPv4 network *)
Theorem cidr4_excludes_v6 : forall a p ip x, to4 ip = IP6 x -> cidr_contains (C4 a p) ip = false.
Proof. intros a p ip x Hx. unfold cidr_contains, net_norm. cbv beta iota. rewrite Hx. reflexivity. Qed.

(* IPv6 network a/p whose masked address is not IPv4-mapped *)
Theorem cidr6_contains_prefix : forall a p ip x, p <= 128 ->
  to4 (IP6 (N.land a (mask_of 128 p))) = IP6 (N.land a (mask_of 128 p)) -> to4 ip = IP6 x ->
  cidr_contains (C6 a p) ip = true <-> forall i, 128 - p <= i < 128 -> N.testbit a i = N.testbit x i.
Proof.
  intros a p ip x Hp Hn Hx. unfold cidr_contains. unfold net_norm. rewrite Hn. cbv beta iota. rewrite Hx. rewrite land_eqb_bits. split.
  - intros H i Hi. specialize (H i). rewrite mask_of_bits in H by exact Hp.
    assert ((128 - p <=? i) && (i <? 128) = true) as K.
    { apply andb_true_iff. split. apply N.leb_le. lia. apply N.ltb_lt. lia. }
    specialize (H K). rewrite N.land_spec, mask_of_bits, K, andb_true_r in H by exact Hp. exact H.
  - intros H i Hm. rewrite mask_of_bits in Hm by exact Hp.
    rewrite N.land_spec, mask_of_bits, Hm, andb_true_r by exact Hp.
    apply andb_true_iff in Hm. destruct Hm as [H1 H2]. apply N.leb_le in H1. apply N.ltb_lt in H2.
    apply H. lia.
Qed.

Theorem config_gate_spec : forall allow remote,
  config_gate allow remote = GatePass <->
  allow = None \/ exists c ip, allow = Some c /\ remote = Some ip /\ cidr_contains c ip = true.
Proof.
  intros allow remote. unfold config_gate. destruct allow as [c|].
  - destruct remote as [ip|].
    + destruct (cidr_contains c ip) eqn:E; split.
      * intros _. right. exists c, ip. auto.
      * reflexivity.
      * discriminate.
      * intros [H|[c' [ip' [H1 [H2 H3]]]]]. discriminate. inversion H1; inversion H2; subst. congruence.
    + split. discriminate. intros [H|[c' [ip' [H1 [H2 H3]]]]]; discriminate.
  - split; auto.
Qed.

(* /config is served (the gate lets the request through to the option logic) iff no CIDR
   is configured or the client address is inside it; otherwise nothing is swapped *)
Theorem config_served_iff : forall cfg w rq,
  (rq_method rq = "GET"%string \/ rq_method rq = "PUT"%string) ->
  let o := handle cfg w admin_routes "/config/:opt" rq in
  (config_gate (cf_cidr cfg) (rq_remote rq) = GatePass ->
     o = run_steps cfg w rq init_hst [SPutSwap; SGetOpt] /\ o_status o <> 403) /\
  (config_gate (cf_cidr cfg) (rq_remote rq) <> GatePass -> o_swapped o = false /\ o_calls o = [] /\
     (o_status o = 403 \/ o_status o = 400)).
Proof.
  intros cfg w rq Hm. cbv zeta.
  assert (handle cfg w admin_routes "/config/:opt" rq = run_steps cfg w rq init_hst [SCidr; SPutSwap; SGetOpt]) as Hh.
  { unfold handle. destruct Hm as [Hm|Hm]; rewrite Hm; reflexivity. }
  rewrite Hh.
  change (run_steps cfg w rq init_hst [SCidr; SPutSwap; SGetOpt]) with
    (match run_step cfg w rq init_hst SCidr with
     | Done o => o
     | Continue s' => run_steps cfg w rq s' [SPutSwap; SGetOpt] end).
  change (run_step cfg w rq init_hst SCidr) with
    (match config_gate (cf_cidr cfg) (rq_remote rq) with
     | GatePass => Continue init_hst
     | GateBadRemote => refuse 400 init_hst
     | GateForbidden => refuse 403 init_hst
     end).
  split.
  - intro Hg. rewrite Hg. split. reflexivity. apply run_steps_no_gate_not_403. reflexivity.
  - intro Hg. destruct (config_gate (cf_cidr cfg) (rq_remote rq)); [contradiction| |]; simpl; auto.
Qed.

(* ------------------------------------------------------------------ the statements as C17 words them *)

Lemma authorized_false_iff : forall cfg rq,
  authorized cfg rq = false <-> cf_admins cfg <> [] /\ ~ In (identity cfg rq) (cf_admins cfg).
Proof. intros cfg rq. unfold authorized. apply not_authorized_spec. Qed.

Lemma authorized_true_iff : forall cfg rq,
  authorized cfg rq = true <-> cf_admins cfg = [] \/ In (identity cfg rq) (cf_admins cfg).
Proof. intros cfg rq. unfold authorized. apply is_authorized_spec. Qed.

Theorem guarded_refused_full : forall cfg w p r rq,
  find_route admin_routes (rq_method rq) p = RHandler r ->
  existsb is_amut (ar_events r) = true ->
  cf_admins cfg <> [] -> ~ In (identity cfg rq) (cf_admins cfg) ->
  handle cfg w admin_routes p rq = refused.
Proof.
  intros cfg w p r rq Hf Hm H1 H2. eapply guarded_refused; eauto.
  apply authorized_false_iff. split; assumption.
Qed.

Theorem authorized_as_open_full : forall cfg w p rq,
  cf_admins cfg = [] \/ In (identity cfg rq) (cf_admins cfg) ->
  handle cfg w admin_routes p rq = handle (open_cfg cfg) w admin_routes p rq.
Proof. intros cfg w p rq H. apply authorized_as_open. apply authorized_true_iff. exact H. Qed.

(* the routes the table classifies as state-changing, by method and path *)
Definition state_changing_keys : list (string * string) :=
  map (fun r => (ar_method r, ar_path r)) (filter state_changing admin_routes).

(* ------------------------------------------------------------------ the other state-changing handlers *)
Arguments is_valid_name : simpl never.

Definition after_action (o : outcome) : outcome :=
  mkOut (o_status o) (if o_status o =? 200 then o_warn o else false) (o_calls o) false.

Lemma do_action_result : forall w name a ss cfg rq,
  (forall s, run_steps cfg w rq s ss = mkOut 200 (h_warn s) (h_calls s) (h_swapped s)) ->
  match do_action w name a init_hst with
  | Done o => o
  | Continue s' => run_steps cfg w rq s' ss
  end = after_action (run_action w name a).
Proof.
  intros w name a ss cfg rq Hss. unfold do_action, after_action.
  remember (run_action w name a) as o.
  destruct (o_status o =? 200) eqn:E; simpl.
  - rewrite Hss. simpl. apply N.eqb_eq in E. rewrite E. reflexivity.
  - reflexivity.
Qed.

Lemma notify_only : forall cfg w rq s, run_steps cfg w rq s [SNotify] = mkOut 200 (h_warn s) (h_calls s) (h_swapped s).
Proof. reflexivity. Qed.

Theorem create_handler_runs : forall cfg w rq t c a,
  rq_method rq = "POST"%string -> authorized cfg rq = true -> rq_body rq = BodyJson t c a ->
  is_valid_name t = true -> (c = [] \/ is_valid_name c = true) ->
  handle cfg w admin_routes "/api/topics" rq = after_action (run_action w "CreateTopicChannel" (mkArgs t c [])).
Proof.
  intros cfg w rq t c a Hm Ha Hb Ht Hc. unfold handle. rewrite Hm.
  change (find_route admin_routes "POST" "/api/topics") with
    (RHandler (mkRoute "POST" "/api/topics" "createTopicChannelHandler" ""
       [AGuard; ADecode; AValid "IsValidTopicName"; AValid "IsValidChannelName"; AMut "CreateTopicChannel"; ANotify])).
  simpl. rewrite Ha. rewrite Hb. simpl. rewrite Ht.
  cbv beta iota delta [body_channel body_topic body_action h_body h_calls h_warn h_swapped].
  assert (negb (Nat.eqb (length c) 0) && negb (is_valid_name c) = false) as Hv.
  { destruct Hc as [Hc|Hc]. subst; reflexivity. rewrite Hc. apply andb_false_r. }
  rewrite Hv.
  cbv beta iota delta [body_channel body_topic body_action h_body h_calls h_warn h_swapped].
  unfold do_action, after_action. remember (run_action w "CreateTopicChannel" (mkArgs t c [])) as o.
  destruct (o_status o =? 200) eqn:E; simpl.
  - apply N.eqb_eq in E. rewrite E. reflexivity.
  - reflexivity.
Qed.

(* an invalid topic (or channel) name is refused before anything is sent upstream *)
Theorem create_handler_validates : forall cfg w rq t c a,
  rq_method rq = "POST"%string -> authorized cfg rq = true -> rq_body rq = BodyJson t c a ->
  (is_valid_name t = false \/ (c <> [] /\ is_valid_name c = false)) ->
  handle cfg w admin_routes "/api/topics" rq = mkOut 400 false [] false.
Proof.
  intros cfg w rq t c a Hm Ha Hb Hv. unfold handle. rewrite Hm.
  change (find_route admin_routes "POST" "/api/topics") with
    (RHandler (mkRoute "POST" "/api/topics" "createTopicChannelHandler" ""
       [AGuard; ADecode; AValid "IsValidTopicName"; AValid "IsValidChannelName"; AMut "CreateTopicChannel"; ANotify])).
  simpl. rewrite Ha. rewrite Hb. simpl.
  cbv beta iota delta [body_channel body_topic body_action h_body h_calls h_warn h_swapped].
  destruct (is_valid_name t) eqn:Et.
  - destruct Hv as [Hv|[Hc Hv]]; [discriminate|].
    cbv beta iota delta [body_channel body_topic body_action h_body h_calls h_warn h_swapped]. rewrite Hv.
    destruct c; [contradiction|]. reflexivity.
  - reflexivity.
Qed.

Theorem delete_channel_handler_runs : forall cfg w rq,
  rq_method rq = "DELETE"%string -> authorized cfg rq = true ->
  handle cfg w admin_routes "/api/topics/:topic/:channel" rq =
  after_action (run_action w "DeleteChannel" (mkArgs (rq_topic rq) (rq_channel rq) [])).
Proof.
  intros cfg w rq Hm Ha. unfold handle. rewrite Hm.
  change (find_route admin_routes "DELETE" "/api/topics/:topic/:channel") with
    (RHandler (mkRoute "DELETE" "/api/topics/:topic/:channel" "deleteChannelHandler" "" [AGuard; AMut "DeleteChannel"; ANotify])).
  simpl. rewrite Ha. unfold do_action, after_action.
  remember (run_action w "DeleteChannel" (mkArgs (rq_topic rq) (rq_channel rq) [])) as o.
  destruct (o_status o =? 200) eqn:E; simpl.
  - apply N.eqb_eq in E. rewrite E. reflexivity.
  - reflexivity.
Qed.

Theorem channel_action_handler_runs : forall cfg w rq t c act name,
  rq_method rq = "POST"%string -> authorized cfg rq = true ->
  rq_body rq = BodyJson t c act -> rq_channel rq <> [] ->
  action_name act true = Some name ->
  handle cfg w admin_routes "/api/topics/:topic/:channel" rq =
  after_action (run_action w name (mkArgs (rq_topic rq) (rq_channel rq) [])).
Proof.
  intros cfg w rq t c act name Hm Ha Hb Hc Hn. unfold handle. rewrite Hm.
  change (find_route admin_routes "POST" "/api/topics/:topic/:channel") with
    (RHandler (mkRoute "POST" "/api/topics/:topic/:channel" "channelActionHandler" ""
       [AGuard; ADecode; AMut "PauseChannel"; ANotify; AMut "PauseTopic"; AMut "UnPauseChannel";
        AMut "UnPauseTopic"; AMut "EmptyChannel"; AMut "EmptyTopic"])).
  simpl. rewrite Ha. rewrite Hb. simpl.
  destruct (rq_channel rq) as [|x r] eqn:Ec; [contradiction|]. simpl. rewrite Hn.
  unfold do_action, after_action.
  remember (run_action w name (mkArgs (rq_topic rq) (x :: r) [])) as o.
  destruct (o_status o =? 200) eqn:E; simpl.
  - apply N.eqb_eq in E. rewrite E. reflexivity.
  - reflexivity.
Qed.

(* an action other than pause / unpause / empty is refused with nothing sent *)
Theorem action_handler_validates : forall cfg w rq t c act,
  rq_method rq = "POST"%string -> authorized cfg rq = true -> rq_body rq = BodyJson t c act ->
  action_name act (negb (Nat.eqb (length (rq_channel rq)) 0)) = None ->
  handle cfg w admin_routes "/api/topics/:topic" rq = mkOut 400 false [] false.
Proof.
  intros cfg w rq t c act Hm Ha Hb Hn. unfold handle. rewrite Hm.
  change (find_route admin_routes "POST" "/api/topics/:topic") with
    (RHandler (mkRoute "POST" "/api/topics/:topic" "topicActionHandler" ""
       [AGuard; ADecode; AMut "PauseChannel"; ANotify; AMut "PauseTopic"; AMut "UnPauseChannel";
        AMut "UnPauseTopic"; AMut "EmptyChannel"; AMut "EmptyTopic"])).
  simpl. rewrite Ha. rewrite Hb. simpl. rewrite Hn. reflexivity.
Qed.

Theorem tombstone_handler_runs : forall cfg w rq t c a,
  rq_method rq = "DELETE"%string -> authorized cfg rq = true -> rq_body rq = BodyJson t c a ->
  is_valid_name t = true ->
  handle cfg w admin_routes "/api/nodes/:node" rq =
  after_action (run_action w "TombstoneNodeForTopic" (mkArgs t [] (rq_node rq))).
Proof.
  intros cfg w rq t c a Hm Ha Hb Ht. unfold handle. rewrite Hm.
  change (find_route admin_routes "DELETE" "/api/nodes/:node") with
    (RHandler (mkRoute "DELETE" "/api/nodes/:node" "tombstoneNodeForTopicHandler" ""
       [AGuard; ADecode; AValid "IsValidTopicName"; AMut "TombstoneNodeForTopic"; ANotify])).
  simpl. rewrite Ha. rewrite Hb. simpl. rewrite Ht.
  cbv beta iota delta [body_channel body_topic body_action h_body h_calls h_warn h_swapped].
  unfold do_action, after_action.
  remember (run_action w "TombstoneNodeForTopic" (mkArgs t [] (rq_node rq))) as o.
  destruct (o_status o =? 200) eqn:E; simpl.
  - apply N.eqb_eq in E. rewrite E. reflexivity.
  - reflexivity.
Qed.

(* an undecodable body is refused with nothing sent (after the identity check) *)
Theorem bad_body_refused : forall cfg w rq p r,
  find_route admin_routes (rq_method rq) p = RHandler r ->
  In (ar_handler r) ["createTopicChannelHandler"; "tombstoneNodeForTopicHandler"; "topicActionHandler"; "channelActionHandler"]%string ->
  authorized cfg rq = true -> rq_body rq = BodyBad ->
  handle cfg w admin_routes p rq = mkOut 400 false [] false.
Proof.
  intros cfg w rq p r Hf Hin Ha Hb. unfold handle. rewrite Hf. simpl in Hin.
  destruct Hin as [H|[H|[H|[H|[]]]]]; rewrite <- H; simpl; rewrite Ha; rewrite Hb; reflexivity.
Qed.
