(* C08: the source-order facts of proofs/CoreSrcDefs.v this property relies on, each checked
   against the skeleton regenerated from /repo (one lemma per function, so that a failure names it). *)
From Coq Require Import List String.
From NSQV Require Import gen.CoreShape proofs.CoreSrcDefs.
Import ListNotations.
Open Scope string_scope.

Lemma src_Channel_Empty : shape_Channel_Empty = expect_Channel_Empty.
Proof. reflexivity. Qed.
Lemma src_Channel_empty : shape_Channel_empty = expect_Channel_empty.
Proof. reflexivity. Qed.
Lemma src_Channel_exit : shape_Channel_exit = expect_Channel_exit.
Proof. reflexivity. Qed.
Lemma src_Channel_AddClient : shape_Channel_AddClient = expect_Channel_AddClient.
Proof. reflexivity. Qed.
Lemma src_Channel_RemoveClient : shape_Channel_RemoveClient = expect_Channel_RemoveClient.
Proof. reflexivity. Qed.
Lemma src_Topic_DeleteExistingChannel : shape_Topic_DeleteExistingChannel = expect_Topic_DeleteExistingChannel.
Proof. reflexivity. Qed.
Lemma src_NSQD_DeleteExistingTopic : shape_NSQD_DeleteExistingTopic = expect_NSQD_DeleteExistingTopic.
Proof. reflexivity. Qed.
Lemma src_NSQD_GetTopic : shape_NSQD_GetTopic = expect_NSQD_GetTopic.
Proof. reflexivity. Qed.
Lemma src_protocolV2_FIN : shape_protocolV2_FIN = expect_protocolV2_FIN.
Proof. reflexivity. Qed.

Lemma src_C08 : src_facts_C08.
Proof. unfold src_facts_C08. repeat split; first [exact src_Channel_Empty | exact src_Channel_empty | exact src_Channel_exit | exact src_Channel_AddClient | exact src_Channel_RemoveClient | exact src_Topic_DeleteExistingChannel | exact src_NSQD_DeleteExistingTopic | exact src_NSQD_GetTopic | exact src_protocolV2_FIN]. Qed.
