(* Proofs about model/Meta.v (C06), part 2: names and thread ids are unique; an
   acknowledged pause/unpause of a topic is in nsqd.dat and stays there. *)
From Coq Require Import List NArith Bool Arith Lia.
From NSQV Require Import model.Judge model.Names model.Meta proofs.MetaProofs.
Import ListNotations.
Open Scope nat_scope.
Open Scope bool_scope.

(* ------------------------------------------------------------------ thread ids are unique *)
Definition Inv6 (s : st) : Prop := NoDup (map fst (threads s)).

Lemma get_thread_none_iff : forall i ths, get_thread i ths = None <-> ~ In i (map fst ths).
Proof.
  intros i ths. induction ths as [|[k p] ths IH]; cbn; [tauto|].
  destruct (N.eqb_spec k i) as [->|Hne].
  - split; [discriminate|]. intros H. exfalso. apply H. left. reflexivity.
  - rewrite IH. split; intros H; [intros [E|E]; [congruence|contradiction]|tauto].
Qed.

Lemma set_thread_fst : forall i p ths, map fst (set_thread i p ths) = map fst ths.
Proof.
  intros i p ths. induction ths as [|[k q] ths IH]; cbn; [reflexivity|].
  destruct (N.eqb_spec k i) as [->|Hne]; cbn; [reflexivity|]. rewrite IH. reflexivity.
Qed.

Lemma del_thread_nodup : forall i ths, NoDup (map fst ths) -> NoDup (map fst (del_thread i ths)) /\
  (forall j, In j (map fst (del_thread i ths)) -> In j (map fst ths)) /\ ~ In i (map fst (del_thread i ths)).
Proof.
  intros i ths. induction ths as [|[k q] ths IH]; cbn; intros H; [repeat split; auto; constructor|].
  inversion H; subst. destruct (N.eqb_spec k i) as [->|Hne]; cbn.
  - repeat split; auto.
  - destruct (IH H3) as (A & B & C). repeat split.
    + constructor; [intros Hin; apply H2; apply B; exact Hin|exact A].
    + intros j [E|Hin]; [left; exact E|right; apply B; exact Hin].
    + intros [E|Hin]; [congruence|contradiction].
Qed.

Lemma put_thread_nodup : forall i p ths, NoDup (map fst ths) -> NoDup (map fst (put_thread i p ths)).
Proof.
  intros i p ths H. unfold put_thread. destruct p; [apply del_thread_nodup; exact H|rewrite set_thread_fst; exact H].
Qed.

Lemma get_set_thread_same : forall i p ths p0, get_thread i ths = Some p0 -> get_thread i (set_thread i p ths) = Some p.
Proof.
  intros i p ths p0. induction ths as [|[k q] ths IH]; cbn; [discriminate|].
  destruct (N.eqb_spec k i) as [->|Hne]; cbn.
  - rewrite N.eqb_refl. reflexivity.
  - destruct (N.eqb_spec k i); [contradiction|]. exact IH.
Qed.

Lemma get_set_thread_other : forall i j p ths, j <> i -> get_thread j (set_thread i p ths) = get_thread j ths.
Proof.
  intros i j p ths Hne. induction ths as [|[k q] ths IH]; cbn; [reflexivity|].
  destruct (N.eqb_spec k i) as [->|Hki]; cbn.
  - destruct (N.eqb_spec i j); [congruence|reflexivity].
  - destruct (N.eqb_spec k j); [reflexivity|exact IH].
Qed.

Lemma get_del_thread_other : forall i j ths, j <> i -> get_thread j (del_thread i ths) = get_thread j ths.
Proof.
  intros i j ths Hne. induction ths as [|[k q] ths IH]; cbn; [reflexivity|].
  destruct (N.eqb_spec k i) as [->|Hki]; cbn.
  - destruct (N.eqb_spec i j); [congruence|reflexivity].
  - destruct (N.eqb_spec k j); [reflexivity|exact IH].
Qed.

Lemma get_put_thread_other : forall i j p ths, j <> i -> get_thread j (put_thread i p ths) = get_thread j ths.
Proof.
  intros. unfold put_thread. destruct p; [apply get_del_thread_other|apply get_set_thread_other]; assumption.
Qed.

Lemma get_put_thread_same : forall i p ths p0, NoDup (map fst ths) -> get_thread i ths = Some p0 ->
  get_thread i (put_thread i p ths) = match p with [] => None | _ => Some p end.
Proof.
  intros i p ths p0 Hnd Hget. unfold put_thread. destruct p.
  - apply get_thread_none_iff. apply del_thread_nodup. exact Hnd.
  - eapply get_set_thread_same. exact Hget.
Qed.

Lemma get_del_thread_same : forall i ths, NoDup (map fst ths) -> get_thread i (del_thread i ths) = None.
Proof. intros i ths H. apply get_thread_none_iff. apply del_thread_nodup. exact H. Qed.

Lemma get_thread_app_other : forall i j p ths, j <> i -> get_thread j (ths ++ [(i, p)]) = get_thread j ths.
Proof.
  intros i j p ths Hne. induction ths as [|[k q] ths IH]; cbn.
  - destruct (N.eqb_spec i j); [congruence|reflexivity].
  - destruct (N.eqb_spec k j); [reflexivity|exact IH].
Qed.

Lemma Inv6_exec : forall pad s i m rest, Inv6 s -> Inv6 (exec pad s i m rest).
Proof.
  intros pad s i m rest I. unfold Inv6 in *.
  assert (P : forall p, NoDup (map fst (put_thread i p (threads s)))) by (intros; apply put_thread_nodup; exact I).
  destruct m; cbn [exec];
    repeat match goal with
           | |- context [if ?c then _ else _] => destruct c
           | |- context [match ?c with Some _ => _ | None => _ end] => destruct c
           end; cbn; rewrite ?spawn_threads; cbn; try apply P; try exact I.
  rewrite set_thread_fst. exact I.
Qed.

Lemma persist_step_threads : forall s j k,
  threads (persist_step s j k) = threads s \/
  exists i rest, j_owner j = Some i /\ get_thread i (threads s) = Some (MAwait :: rest) /\
                 threads (persist_step s j k) = put_thread i rest (threads s) /\ lock (persist_step s j k) = None.
Proof.
  intros s j k. unfold persist_step. destruct (j_phase j).
  - destruct (first_unread (j_slots j)); left; reflexivity.
  - destruct (lookup (j_tmp j) (tmps (fs s))) as [c|]; [|left; reflexivity]. destruct (Nat.eqb _ _); left; reflexivity.
  - destruct (lookup (j_tmp j) (tmps (fs s))); left; reflexivity.
  - left. reflexivity.
  - destruct (lookup (j_tmp j) (tmps (fs s))) as [c|]; [|left; reflexivity].
    destruct (j_owner j) as [i|]; [|left; reflexivity]. cbn.
    destruct (get_thread i (threads s)) as [[|[] rest]|] eqn:E; try (left; reflexivity).
    right. exists i, rest. auto.
Qed.

Lemma Inv6_step : forall s e, Inv6 s -> Inv6 (step s e).
Proof.
  intros s e I. destruct e as [i o|i| |k|kf| |]; rewrite step_fixed; cbn [step_].
  - destruct (up s); [|exact I]. destruct (get_thread i (threads s)) eqn:E; [exact I|].
    unfold Inv6. cbn. rewrite map_app. cbn. apply NoDup_snoc; [exact I|]. apply get_thread_none_iff. exact E.
  - destruct (get_thread i (threads s)) as [[|m rest]|]; try exact I. apply Inv6_exec. exact I.
  - destruct (lock s); [exact I|]. destruct (pending s); exact I.
  - destruct (lock s) as [j|]; [|exact I]. unfold Inv6.
    destruct (persist_step_threads s j k) as [->|(i & rest & _ & _ & -> & _)]; [exact I|apply put_thread_nodup; exact I].
  - destruct (lock s) as [j|]; [|exact I]. unfold Inv6.
    destruct (fail_step_fields s j kf) as [->|(_ & _ & _ & _ & _ & _ & _ & _ & _ & [->|(i & rest & _ & _ & ->)])];
      [exact I|exact I|apply put_thread_nodup; exact I].
  - destruct (up s); [|exact I]. constructor.
  - destruct (up s || broken s); [exact I|]. unfold restart.
    destruct (dat (fs s)) as [c|]; [destruct (complete c); [destruct (load (f_doc c) (next_id s))|]|]; constructor.
Qed.

(* ------------------------------------------------------------------ topic names are unique *)
Definition Inv5 (s : st) : Prop := NoDup (map t_name (live_ s)).

Lemma find_topic_none : forall n l, find_topic n l = None -> ~ In n (map t_name l).
Proof.
  intros n l H Hin. apply in_map_iff in Hin. destruct Hin as (t & E & Hin).
  unfold find_topic in H. eapply find_none in H; [|exact Hin]. cbn in H. rewrite E, name_eqb_refl in H. discriminate.
Qed.

Lemma load_topics_names : forall d acc nid, NoDup (map t_name acc) -> NoDup (map t_name (fst (load_topics d acc nid))).
Proof.
  induction d as [|e d IH]; intros acc nid H; cbn; [exact H|].
  destruct (valid (dt_name e)); [|apply IH; exact H].
  destruct (find_topic (dt_name e) acc) as [tp|] eqn:E.
  - destruct (load_chans (dt_chans e) (t_chans tp) nid) as [cs nid']. apply IH.
    rewrite upd_topic_names; [exact H|]. intros t. split; reflexivity.
  - destruct (load_chans (dt_chans e) [] (N.succ nid)) as [cs nid']. apply IH.
    rewrite map_app. cbn. apply NoDup_snoc; [exact H|]. apply find_topic_none. exact E.
Qed.

Lemma Inv5_step : forall s e, Inv5 s -> Inv5 (step s e).
Proof.
  intros s e I. unfold Inv5 in *. destruct e as [i o|i| |k|kf| |]; rewrite step_fixed; cbn [step_].
  - destruct (up s); [|exact I]. destruct (get_thread i (threads s)); exact I.
  - destruct (get_thread i (threads s)) as [[|m rest]|] eqn:Hth; try exact I.
    destruct (exec_live_change true s i m rest) as [_ [E|[(g & n & f & Hf & E)|[(t & E & _ & Hnone & _)|(t & E & _)]]]]; rewrite E.
    + exact I.
    + rewrite upd_topic_names; assumption.
    + rewrite map_app. cbn. apply NoDup_snoc; [exact I|]. apply find_topic_none. exact Hnone.
    + apply NoDup_map_filter. exact I.
  - destruct (lock s); [exact I|]. destruct (pending s); exact I.
  - destruct (lock s) as [j|]; [|exact I]. unfold persist_step.
    destruct (j_phase j).
    + destruct (first_unread (j_slots j)); exact I.
    + destruct (lookup (j_tmp j) (tmps (fs s))) as [c|]; [|exact I]. destruct (Nat.eqb _ _); exact I.
    + destruct (lookup (j_tmp j) (tmps (fs s))); exact I.
    + exact I.
    + destruct (lookup (j_tmp j) (tmps (fs s))) as [c|]; [|exact I].
      destruct (j_owner j) as [i|]; [|exact I]. cbn.
      destruct (get_thread i (threads s)) as [[|[] rest]|]; exact I.
  - destruct (lock s) as [j|]; [|exact I].
    destruct (fail_step_fields s j kf) as [->|(_ & _ & -> & _)]; exact I.
  - destruct (up s); [|exact I]. constructor.
  - destruct (up s || broken s); [exact I|]. unfold restart.
    destruct (dat (fs s)) as [c|]; [|constructor].
    destruct (complete c); [|constructor]. unfold load.
    pose proof (load_topics_names (f_doc c) [] (next_id s)) as L.
    destruct (load_topics (f_doc c) [] (next_id s)) as [l nid]. cbn in *. apply L. constructor.
Qed.

Record InvB (s : st) : Prop := { ib1 : Inv1 s; ib5 : Inv5 s; ib6 : Inv6 s }.
Lemma InvB_step : forall s e, InvB s -> InvB (step s e).
Proof. intros s e [A B C]. constructor; [apply Inv1_step|apply Inv5_step|apply Inv6_step]; assumption. Qed.
Lemma InvB_init : InvB init.
Proof. constructor; [apply Inv1_init|constructor|constructor]. Qed.
Lemma InvB_run : forall evs, InvB (run init evs).
Proof. intros. apply run_invariant; [apply InvB_step|apply InvB_init]. Qed.

(* ------------------------------------------------------------------ an acknowledged topic pause is durable *)
Section PauseTopic.
Variable t : name.
Variable b : bool.
Variable i : N.
Hypothesis Hkeep : eph t = false.
Hypothesis Hvalid : valid t = true.

Definition touches_op (o : op) : bool :=
  match o with
  | OCreateTopic x | ODeleteTopic x | OPauseTopic x _ => name_eqb x t
  | _ => false
  end.
Definition touches_micro (m : micro) : bool :=
  match m with
  | MEnter o => touches_op o
  | MInsertTopic x | MRemoveTopic x | MFlipTopic _ x _ => name_eqb x t
  | _ => false
  end.
Definition calm (p : list micro) : Prop := forall m, In m p -> touches_micro m = false.
Definition quiet (s : st) : Prop := forall j p, In (j, p) (threads s) -> j <> i -> calm p.

Definition live_flag (l : live) : Prop :=
  (exists tp, In tp l /\ t_name tp = t) /\ (forall tp, In tp l -> t_name tp = t -> t_paused tp = b).
Definition doc_flag (d : doc) : Prop :=
  (exists e, In e d /\ dt_name e = t) /\ (forall e, In e d -> dt_name e = t -> dt_paused e = b).
Definition job_flag (j : job) : Prop :=
  match j_phase j with
  | PSnap => (exists g o, In (g, t, o) (j_slots j)) /\ (forall g e, In (g, t, Some e) (j_slots j) -> dt_paused e = b)
  | _ => doc_flag (j_doc j)
  end.
Definition Stable (s : st) : Prop :=
  (exists c, dat (fs s) = Some c /\ doc_flag (f_doc c)) /\
  (up s = true -> live_flag (live_ s)) /\
  (forall j, lock s = Some j -> job_flag j).

(* ---- calm programs stay calm *)
Lemma calm_app : forall p q, calm p -> calm q -> calm (p ++ q).
Proof. intros p q Hp Hq m Hin. apply in_app_or in Hin. destruct Hin; auto. Qed.
Lemma calm_tail : forall m p, calm (m :: p) -> calm p.
Proof. intros m p H x Hx. apply H. right. exact Hx. Qed.
Lemma calm_skip_drop : forall p, calm p -> calm (skip_drop p).
Proof. intros [|[] p] H; cbn; try exact H. eapply calm_tail. exact H. Qed.

Lemma calm_enter : forall pad o l, touches_op o = false -> calm (enter pad o l).
Proof.
  intros pad o l H m Hin. destruct o; cbn in *.
  - destruct (valid t0); [destruct (find_topic t0 l)|]; cbn in Hin;
      repeat (destruct Hin as [<-|Hin]; [cbn; auto|]); try contradiction.
  - destruct (find_topic t0 l); cbn in Hin.
    + destruct (pad && negb (eph t0)); cbn in Hin; repeat (destruct Hin as [<-|Hin]; [cbn; auto|]); contradiction.
    + repeat (destruct Hin as [<-|Hin]; [cbn; auto|]); contradiction.
  - destruct (find_topic t0 l); cbn in Hin; repeat (destruct Hin as [<-|Hin]; [cbn; auto|]); contradiction.
  - destruct (valid t0 && valid c); [destruct (find_topic t0 l)|]; cbn in Hin;
      repeat (destruct Hin as [<-|Hin]; [cbn; auto|]); contradiction.
  - destruct (valid t0 && valid c); [destruct (find_topic t0 l)|]; cbn in Hin;
      repeat (destruct Hin as [<-|Hin]; [cbn; auto|]); contradiction.
  - destruct (valid t0 && valid c); [destruct (find_topic t0 l)|]; cbn in Hin;
      repeat (destruct Hin as [<-|Hin]; [cbn; auto|]); contradiction.
  - repeat (destruct Hin as [<-|Hin]; [cbn; auto|]); contradiction.
Qed.

Lemma calm_found_chan : forall pad g x c a l, calm (found_chan pad g x c a l).
Proof.
  intros pad g x c a l m Hin. unfold found_chan in Hin.
  destruct (get_topic g x l) as [tp|]; [|destruct Hin as [<-|[]]; reflexivity].
  destruct (find_chan c (t_chans tp)) as [ch|]; [|destruct Hin as [<-|[]]; reflexivity].
  destruct a; cbn in Hin.
  - destruct (pad && negb (eph c) && negb (eph x)); cbn in Hin;
      repeat (destruct Hin as [<-|Hin]; [reflexivity|]); contradiction.
  - repeat (destruct Hin as [<-|Hin]; [reflexivity|]); contradiction.
Qed.
End PauseTopic.

(* ------------------------------------------------------------------ what a micro-step does to live, in detail *)
Definition keeps_paused (f : topic -> topic) : Prop := forall tp, t_paused (f tp) = t_paused tp.

Definition live_detail (s s' : st) (m : micro) : Prop :=
  live_ s' = live_ s
  \/ (exists g n f, live_ s' = upd_topic g n f (live_ s) /\ keeps_idname f /\
                    (keeps_paused f \/ exists b', m = MFlipTopic g n b' /\ f = set_tpaused b'))
  \/ (exists x nid, live_ s' = live_ s ++ [mkT nid x false false []] /\ find_topic x (live_ s) = None)
  \/ (exists x, m = MRemoveTopic x /\ live_ s' = remove_topic x (live_ s)).

Ltac ld_same := left; cbn; rewrite ?spawn_live; reflexivity.
Ltac ld_upd := right; left; cbn; rewrite ?spawn_live; cbn; eexists _, _, _; split; [reflexivity|]; split;
  [intros ?tp; split; reflexivity
  |first [left; intros ?tp; reflexivity | right; eexists; split; reflexivity]].

Lemma exec_live_detail : forall pad s i m rest, live_detail s (exec pad s i m rest) m.
Proof.
  intros pad s i m rest. destruct m; cbn [exec].
  - destruct (lock_free s); ld_same.
  - ld_same.
  - destruct (lock_free s); [|ld_same]. destruct (find_topic t (live_ s)) eqn:EF; [ld_same|].
    right; right; left. exists t, (next_id s). cbn. rewrite spawn_live. cbn. auto.
  - destruct (get_topic g t (live_ s)) as [tp|]; [|ld_same].
    destruct (find_chan c (t_chans tp)); [ld_same|]. ld_upd.
  - destruct (get_topic g t (live_ s)) as [tp|]; [|ld_same]. destruct (t_exiting tp); [ld_same|]. ld_upd.
  - destruct (get_topic g t (live_ s)) as [tp|]; [|ld_same]. ld_upd.
  - destruct (lock_free s); [|ld_same]. right; right; right. exists t. auto.
  - destruct (get_topic g t (live_ s)) as [tp|]; [|ld_same].
    destruct (find (is_chan h c) (t_chans tp)) as [ch|]; [|ld_same]. destruct (c_exiting ch); [ld_same|]. ld_upd.
  - ld_upd.
  - ld_upd.
  - ld_upd.
  - destruct (lock_free s); ld_same.
  - ld_same.
  - ld_same.
Qed.

(* the thread list after a micro-step of thread i *)
Lemma exec_threads : forall pad s i m rest,
  threads (exec pad s i m rest) = threads s \/
  (exists p, threads (exec pad s i m rest) = put_thread i p (threads s) /\
     (p = rest \/ p = skip_drop rest \/ (exists o, m = MEnter o /\ p = enter pad o (live_ s) ++ rest) \/
      (exists g x c a, m = MFindChan g x c a /\ p = found_chan pad g x c a (live_ s) ++ rest))) \/
  (m = MSync /\ lock s = None /\ threads (exec pad s i m rest) = set_thread i (MAwait :: rest) (threads s)).
Proof.
  intros pad s i m rest. destruct m; cbn [exec];
    repeat match goal with
           | |- context [lock_free s] => unfold lock_free; destruct (lock s) eqn:?EL
           | |- context [if ?c then _ else _] => destruct c
           | |- context [match ?c with Some _ => _ | None => _ end] => destruct c
           end; cbn; rewrite ?spawn_threads; cbn;
    try (left; reflexivity);
    try (right; left; eexists; split; [reflexivity|]; auto; fail).
  - right; left. eexists; split; [reflexivity|]. right; right; left. eauto.
  - right; left. eexists; split; [reflexivity|]. right; right; right. eauto 8.
  - right; right. auto.
Qed.

Lemma nodup_map_inj {A B} (f : A -> B) (l : list A) (x y : A) :
  NoDup (map f l) -> In x l -> In y l -> f x = f y -> x = y.
Proof.
  induction l as [|z l IH]; intros Hnd Hx Hy E; [contradiction|]. cbn in Hnd.
  inversion Hnd as [|? ? H1 H2]. destruct Hx as [Hx|Hx], Hy as [Hy|Hy].
  - congruence.
  - exfalso. apply H1. rewrite Hx, E. apply in_map. exact Hy.
  - exfalso. apply H1. rewrite Hy, <- E. apply in_map. exact Hx.
  - apply IH; assumption.
Qed.

Section PauseTopic2.
Variable t : name.
Variable b : bool.
Variable i : N.
Hypothesis Hkeep : eph t = false.
Hypothesis Hvalid : valid t = true.

Let LF := live_flag t b.
Let DF := doc_flag t b.
Let JF := job_flag t b.

(* ---- live_flag under the changes a micro-step can make *)
Lemma live_flag_upd_keep : forall g n f l, keeps_idname f -> keeps_paused f -> LF l -> LF (upd_topic g n f l).
Proof.
  intros g n f l Hk Hp [[tp [Hin Hn]] Hall]. split.
  - exists (if is_topic g n tp then f tp else tp). split.
    + unfold upd_topic. apply in_map_iff. exists tp. auto.
    + destruct (is_topic g n tp); [destruct (Hk tp) as [_ ->]|]; exact Hn.
  - intros tp' Hin' Hn'. unfold upd_topic in Hin'. apply in_map_iff in Hin'. destruct Hin' as (t0 & E & Hin0).
    destruct (is_topic g n t0); subst tp'.
    + rewrite Hp. apply Hall; [exact Hin0|]. destruct (Hk t0) as [_ <-]. exact Hn'.
    + apply Hall; assumption.
Qed.

Lemma live_flag_upd_other : forall g n f l, keeps_idname f -> n <> t -> LF l -> LF (upd_topic g n f l).
Proof.
  intros g n f l Hk Hne [[tp [Hin Hn]] Hall].
  assert (Hnot : forall t0, t_name t0 = t -> is_topic g n t0 = false).
  { intros t0 E. destruct (is_topic g n t0) eqn:Ei; [|reflexivity]. apply is_topic_spec in Ei. destruct Ei. congruence. }
  split.
  - exists tp. split; [|exact Hn]. unfold upd_topic. apply in_map_iff. exists tp. rewrite (Hnot tp Hn). auto.
  - intros tp' Hin' Hn'. unfold upd_topic in Hin'. apply in_map_iff in Hin'. destruct Hin' as (t0 & E & Hin0).
    destruct (is_topic g n t0) eqn:Ei; subst tp'.
    + exfalso. apply is_topic_spec in Ei. destruct Ei as [_ Ei]. destruct (Hk t0) as [_ E']. congruence.
    + apply Hall; assumption.
Qed.

Lemma live_flag_snoc : forall l x, t_name x <> t -> LF l -> LF (l ++ [x]).
Proof.
  intros l x Hne [[tp [Hin Hn]] Hall]. split.
  - exists tp. split; [apply in_or_app; left; exact Hin|exact Hn].
  - intros tp' Hin' Hn'. apply in_app_or in Hin'. destruct Hin' as [H|[H|[]]]; [apply Hall; assumption|subst; contradiction].
Qed.

Lemma live_flag_remove : forall l x, x <> t -> LF l -> LF (remove_topic x l).
Proof.
  intros l x Hne [[tp [Hin Hn]] Hall]. split.
  - exists tp. split; [|exact Hn]. apply filter_In. split; [exact Hin|].
    destruct (name_eqb (t_name tp) x) eqn:E; [apply name_eqb_eq in E; congruence|reflexivity].
  - intros tp' Hin' Hn'. apply filter_In in Hin'. apply Hall; tauto.
Qed.

Lemma live_flag_present : forall l, LF l -> exists tp, find_topic t l = Some tp.
Proof.
  intros l [[tp [Hin Hn]] _]. unfold find_topic. destruct (find (fun x => name_eqb (t_name x) t) l) eqn:E; [eauto|].
  exfalso. eapply find_none in E; [|exact Hin]. cbn in E. rewrite Hn, name_eqb_refl in E. discriminate.
Qed.

(* a step of a thread whose head does not touch t keeps the flag *)
Lemma live_flag_exec : forall pad s j m rest,
  touches_micro t m = false -> LF (live_ s) -> LF (live_ (exec pad s j m rest)).
Proof.
  intros pad s j m rest Hm H.
  destruct (exec_live_detail pad s j m rest) as [E|[(g & n & f & E & Hk & Hp)|[(x & nid & E & Hnone)|(x & Em & E)]]]; rewrite E.
  - exact H.
  - destruct Hp as [Hp|(b' & Em & Ef)].
    + apply live_flag_upd_keep; assumption.
    + subst m. cbn in Hm. apply live_flag_upd_other; [exact Hk| |exact H]. apply name_eqb_neq. exact Hm.
  - apply live_flag_snoc; [|exact H]. cbn. intros ->. destruct (live_flag_present _ H) as [tp Hf]. congruence.
  - subst m. cbn in Hm. apply live_flag_remove; [|exact H]. apply name_eqb_neq. exact Hm.
Qed.

(* ---- quiet is preserved *)
Lemma quiet_exec : forall pad s j m rest,
  quiet t i s -> get_thread j (threads s) = Some (m :: rest) -> quiet t i (exec pad s j m rest).
Proof.
  intros pad s j m rest Hq Hget k q Hin Hk.
  assert (Hold : forall q', In (k, q') (threads s) -> calm t q') by (intros q' H; eapply Hq; eauto).
  destruct (exec_threads pad s j m rest) as [E|[(p & E & Hp)|(Em & _ & E)]]; rewrite E in Hin.
  - apply Hold. exact Hin.
  - destruct (in_put_thread _ _ _ _ _ Hin) as [H|(-> & -> & _)]; [apply Hold; exact H|].
    assert (Hc : calm t (m :: rest)) by (apply Hold; apply get_thread_in; exact Hget).
    pose proof (calm_tail t _ _ Hc) as Hr.
    destruct Hp as [->|[->|[(o & -> & ->)|(g & x & c & a & -> & ->)]]].
    + exact Hr.
    + apply calm_skip_drop. exact Hr.
    + apply calm_app; [|exact Hr]. apply calm_enter. apply (Hc (MEnter o)). left. reflexivity.
    + apply calm_app; [|exact Hr]. apply calm_found_chan.
  - assert (Hin' : In (k, q) (put_thread j (MAwait :: rest) (threads s))) by exact Hin.
    destruct (in_put_thread _ _ _ _ _ Hin') as [H|(-> & -> & _)]; [apply Hold; exact H|].
    assert (Hc : calm t (m :: rest)) by (apply Hold; apply get_thread_in; exact Hget).
    intros x [<-|Hx]; [reflexivity|]. apply Hc. right. exact Hx.
Qed.

(* per-thread version: the program of thread k stays calm *)
Lemma calm_exec : forall pad s j m rest k,
  (forall q', In (k, q') (threads s) -> calm t q') ->
  get_thread j (threads s) = Some (m :: rest) ->
  forall q, In (k, q) (threads (exec pad s j m rest)) -> calm t q.
Proof.
  intros pad s j m rest k Hold Hget q Hin.
  destruct (exec_threads pad s j m rest) as [E|[(p & E & Hp)|(Em & _ & E)]]; rewrite E in Hin.
  - apply Hold. exact Hin.
  - destruct (in_put_thread _ _ _ _ _ Hin) as [H|(-> & -> & _)]; [apply Hold; exact H|].
    assert (Hc : calm t (m :: rest)) by (apply Hold; apply get_thread_in; exact Hget).
    pose proof (calm_tail t _ _ Hc) as Hr.
    destruct Hp as [->|[->|[(o & -> & ->)|(g & x & c & a & -> & ->)]]].
    + exact Hr.
    + apply calm_skip_drop. exact Hr.
    + apply calm_app; [|exact Hr]. apply calm_enter. apply (Hc (MEnter o)). left. reflexivity.
    + apply calm_app; [|exact Hr]. apply calm_found_chan.
  - assert (Hin' : In (k, q) (put_thread j (MAwait :: rest) (threads s))) by exact Hin.
    destruct (in_put_thread _ _ _ _ _ Hin') as [H|(-> & -> & _)]; [apply Hold; exact H|].
    assert (Hc : calm t (m :: rest)) by (apply Hold; apply get_thread_in; exact Hget).
    intros x [<-|Hx]; [reflexivity|]. apply Hc. right. exact Hx.
Qed.

(* ---- the topic object stays in the map while nobody touches it *)
Definition HT (g : N) (l : live) : Prop := exists tp, In tp l /\ t_id tp = g /\ t_name tp = t.

Lemma has_topic_exec : forall pad s j m rest g,
  touches_micro t m = false -> HT g (live_ s) -> HT g (live_ (exec pad s j m rest)).
Proof.
  intros pad s j m rest g Hm (tp & Hin & Hg & Hn).
  destruct (exec_live_detail pad s j m rest) as [E|[(g' & n & f & E & Hk & _)|[(x & nid & E & _)|(x & Em & E)]]]; rewrite E.
  - exists tp. auto.
  - exists (if is_topic g' n tp then f tp else tp). split; [unfold upd_topic; apply in_map_iff; exists tp; auto|].
    destruct (is_topic g' n tp); [destruct (Hk tp) as [-> ->]|]; auto.
  - exists tp. split; [apply in_or_app; left; exact Hin|auto].
  - subst m. cbn in Hm. exists tp. split; [|auto]. apply filter_In. split; [exact Hin|].
    rewrite Hn. destruct (name_eqb t x) eqn:E'; [|reflexivity].
    apply name_eqb_eq in E'. subst x. rewrite name_eqb_refl in Hm. discriminate.
Qed.

(* ---- jobs *)
Lemma new_job_flag : forall o l lo, LF l -> JF (new_job o l lo).
Proof.
  intros o l lo [[tp [Hin Hn]] _]. unfold JF, job_flag, new_job. cbn. split.
  - exists (t_id tp), None. apply in_map_iff. exists tp. split; [unfold slot_of; rewrite Hn; reflexivity|].
    apply filter_In. split; [exact Hin|]. unfold keep_topic. rewrite Hn, Hkeep. reflexivity.
  - intros g e H. exfalso. eapply slots_new_unfilled. exact H.
Qed.

Lemma job_flag_persist : forall s j k,
  Inv1 s -> lock s = Some j -> LF (live_ s) -> JF j ->
  let s' := persist_step s j k in
  (forall j', lock s' = Some j' -> JF j' /\ j_owner j' = j_owner j /\ dat (fs s') = dat (fs s)) /\
  (lock s' = None -> exists c, dat (fs s') = Some c /\ DF (f_doc c)) /\
  live_ s' = live_ s /\ up s' = up s /\ acks s' = acks s.
Proof.
  intros s j k I Hl Hlf Hjf s'. subst s'.
  destruct (i1_job s I j Hl) as [Hup Hok].
  destruct (i1_hist s I Hup) as [r Hr].
  unfold persist_step. unfold job_ok in Hok. unfold JF, job_flag in Hjf.
  destruct (j_phase j) eqn:Eph.
  - destruct Hok as [Hs Hf]. destruct Hjf as [(g0 & o0 & Hin0) Hall].
    destruct (first_unread (j_slots j)) as [i0|] eqn:Efu.
    + cbn. split; [|split; [discriminate|auto]].
      intros j' Hj'. inversion Hj'; subst j'. cbn. split; [|auto]. unfold JF, job_flag. cbn. split.
      * assert (H : In (g0, t) (map fst (j_slots j))) by (apply in_map_iff; exists (g0, t, o0); auto).
        match goal with |- context [fill ?l ?ii ?sl] => rewrite <- (fill_fst l ii sl) in H end. apply in_map_iff in H. destruct H as ([[g1 n1] o1] & E & H).
        cbn in E. inversion E; subst. eauto.
      * intros g e Hin. destruct (fill_in _ _ _ _ _ _ Hin) as [Hold|[Hin' Hrd]]; [apply (Hall g e Hold)|].
        rewrite Hs in Hin'. destruct (read_slot_ok s g t e (ex_intro _ r Hr) Hin' Hrd) as (_ & _ & tp & Hget & ->).
        destruct (get_topic_some _ _ _ _ Hget) as (Hin1 & _ & Hn1). cbn. apply Hlf; assumption.
    + cbn. split; [|split; [discriminate|auto]].
      intros j' Hj'. inversion Hj'; subst j'. cbn. split; [|auto]. unfold JF, job_flag. cbn.
      pose proof (first_unread_none _ Efu) as Hfilled. split.
      * destruct o0 as [e0|]; [|specialize (Hfilled _ Hin0); discriminate].
        exists e0. split; [|apply (Hf g0 t e0 Hin0)].
        clear - Hin0. induction (j_slots j) as [|[[g n] o] sl IH]; [contradiction|].
        cbn. apply in_or_app. destruct Hin0 as [E|H]; [inversion E; subst; left; left; reflexivity|right; apply IH; exact H].
      * intros e He Hn. destruct (slot_doc_in _ _ He) as (g & n & Hin). destruct (Hf g n e Hin) as [En _].
        assert (En' : n = t) by congruence. rewrite En' in Hin. apply (Hall g e Hin).
  - destruct Hok as (c & Hlk & Hdoc & Hfh). rewrite Hlk.
    destruct (Nat.eqb _ _); cbn.
    + split; [|split; [discriminate|auto]]. intros j' Hj'. inversion Hj'; subst j'. cbn. auto.
    + split; [|split; [rewrite Hl; discriminate|auto]].
      intros j' Hj'. rewrite Hl in Hj'. inversion Hj'; subst j'. unfold JF, job_flag. rewrite Eph. auto.
  - destruct Hok as (c & Hlk & Hdoc & Hc & Hfh). rewrite Hlk. cbn.
    split; [|split; [discriminate|auto]]. intros j' Hj'. inversion Hj'; subst j'. cbn. auto.
  - cbn. split; [|split; [discriminate|auto]]. intros j' Hj'. inversion Hj'; subst j'. cbn. auto.
  - destruct Hok as (c & Hlk & Hdoc & Hc & Hsy & Hfh). rewrite Hlk.
    set (s1 := w_lo (w_lock (w_fs s (mkFS (Some c) (delete (j_tmp j) (tmps (fs s))))) None) (j_lo j)).
    assert (G : forall ths, let s' := w_threads s1 ths in
              (forall j', lock s' = Some j' -> JF j' /\ j_owner j' = j_owner j /\ dat (fs s') = dat (fs s)) /\
              (lock s' = None -> exists c0, dat (fs s') = Some c0 /\ DF (f_doc c0)) /\
              live_ s' = live_ s /\ up s' = up s /\ acks s' = acks s).
    { intros ths. cbn. split; [discriminate|]. split; [|auto]. intros _. exists c. split; [reflexivity|]. rewrite Hdoc. exact Hjf. }
    destruct (j_owner j) as [i0|]; [|apply (G (threads s1))].
    destruct (get_thread i0 (threads s1)) as [[|[] rest]|]; apply (G (threads s1)).
Qed.

(* ---- restart: what the file says about t is what the daemon starts with *)
Lemma find_topic_some : forall n l tp, find_topic n l = Some tp -> In tp l /\ t_name tp = n.
Proof.
  intros n l tp H. unfold find_topic in H. apply find_some in H. destruct H as [H1 H2].
  apply name_eqb_eq in H2. auto.
Qed.

Lemma load_topics_flag : forall d acc nid,
  (forall x, In x acc -> t_name x = t -> t_paused x = b) ->
  (forall e, In e d -> dt_name e = t -> dt_paused e = b) ->
  ((exists x, In x acc /\ t_name x = t) \/ (exists e, In e d /\ dt_name e = t)) ->
  LF (fst (load_topics d acc nid)).
Proof.
  induction d as [|e d IH]; intros acc nid Hacc Hd Hex; cbn.
  - split; [|exact Hacc]. destruct Hex as [H|(e & [] & _)]. exact H.
  - assert (Hd' : forall e', In e' d -> dt_name e' = t -> dt_paused e' = b) by (intros; apply Hd; [right|]; assumption).
    destruct (valid (dt_name e)) eqn:Ev.
    + destruct (find_topic (dt_name e) acc) as [tp|] eqn:Ef.
      * destruct (find_topic_some _ _ _ Ef) as [Htp Hn].
        destruct (load_chans (dt_chans e) (t_chans tp) nid) as [cs nid'].
        apply IH; [|exact Hd'|].
        -- intros x Hin Hx. unfold upd_topic in Hin. apply in_map_iff in Hin. destruct Hin as (x0 & E & Hin0).
           destruct (is_topic (t_id tp) (t_name tp) x0) eqn:Ei; subst x; [|apply Hacc; assumption].
           cbn in *. apply is_topic_spec in Ei. destruct Ei as [_ Ei].
           rewrite (Hacc x0 Hin0 Hx). rewrite (Hd e (or_introl eq_refl)); [destruct b; reflexivity|congruence].
        -- destruct Hex as [(x & Hin & Hx)|(e' & [->|Hin] & He')].
           ++ left. exists (if is_topic (t_id tp) (t_name tp) x then set_chans cs (set_tpaused (t_paused x || dt_paused e) x) else x).
              split; [unfold upd_topic; apply in_map_iff; exists x; auto|]. destruct (is_topic _ _ x); exact Hx.
           ++ left. exists (set_chans cs (set_tpaused (t_paused tp || dt_paused e') tp)).
              split; [|cbn; congruence]. unfold upd_topic. apply in_map_iff. exists tp. split; [|exact Htp].
              assert (E : is_topic (t_id tp) (t_name tp) tp = true) by (apply is_topic_spec; auto). rewrite E. reflexivity.
           ++ right. eauto.
      * destruct (load_chans (dt_chans e) [] (N.succ nid)) as [cs nid'].
        apply IH; [|exact Hd'|].
        -- intros x Hin Hx. apply in_app_or in Hin. destruct Hin as [Hin|[<-|[]]]; [apply Hacc; assumption|].
           cbn in *. apply Hd; [left; reflexivity|exact Hx].
        -- destruct Hex as [(x & Hin & Hx)|(e' & [->|Hin] & He')].
           ++ left. exists x. split; [apply in_or_app; left; exact Hin|exact Hx].
           ++ left. eexists. split; [apply in_or_app; right; left; reflexivity|exact He'].
           ++ right. eauto.
    + apply IH; [exact Hacc|exact Hd'|].
      destruct Hex as [H|(e' & [->|Hin] & He')]; [left; exact H| |right; eauto].
      rewrite He' in Ev. congruence.
Qed.

Lemma load_flag : forall d nid, DF d -> LF (fst (load d nid)).
Proof.
  intros d nid [Hex Hall]. unfold load. apply load_topics_flag; [intros x []|exact Hall|right; exact Hex].
Qed.

(* ---- once the flag is in the file, in the live state and in every running job, and no
   request touches t, it stays so: across any steps, kills and restarts *)
Definition calm_all (s : st) : Prop := forall j p, In (j, p) (threads s) -> calm t p.
Definition StableQ (s : st) : Prop := Stable t b s /\ calm_all s.
Definition ev_quiet (e : ev) : Prop :=
  match e with EStart _ o => touches_op t o = false | EFault _ => False | _ => True end.

Lemma up_of_thread : forall s j p, Inv1 s -> get_thread j (threads s) = Some p -> up s = true.
Proof.
  intros s j p I H. destruct (up s) eqn:E; [reflexivity|]. destruct (i1_down s I E) as (_ & Ht & _).
  rewrite Ht in H. discriminate.
Qed.

Lemma StableQ_step : forall s e, InvB s -> StableQ s -> ev_quiet e -> StableQ (step s e).
Proof.
  intros s e [I1 I5 I6] HS He.
  destruct e as [j o|j| |k|kf| |]; rewrite step_fixed; cbn [step_].
  - (* EStart *)
    destruct (up s) eqn:Hup; [|exact HS].
    destruct (get_thread j (threads s)); [exact HS|].
    destruct HS as [[S1 [S2 S3]] Hc].
    split; [split; [exact S1|split; [intros _; exact (S2 Hup)|exact S3]]|].
    intros k p Hin. cbn in Hin. apply in_app_or in Hin. destruct Hin as [Hin|[Hin|[]]]; [eapply Hc; exact Hin|].
    inversion Hin; subst. intros m [<-|[]]. exact He.
  - (* EStep *)
    destruct (get_thread j (threads s)) as [[|m rest]|] eqn:Hget; try exact HS.
    destruct HS as [[S1 [S2 S3]] Hc].
    pose proof (up_of_thread s j _ I1 Hget) as Hup.
    assert (Hm : touches_micro t m = false).
    { apply (Hc j (m :: rest)); [apply get_thread_in; exact Hget|left; reflexivity]. }
    destruct (exec_shape_holds true s j m rest) as (Eup & _ & Efs & _ & Hlock).
    split; [split; [|split]|].
    + rewrite Efs. exact S1.
    + intros _. apply live_flag_exec; [exact Hm|apply S2; exact Hup].
    + intros j' Hj'. destruct Hlock as [E|(_ & E & _)].
      * apply S3. rewrite <- E. exact Hj'.
      * rewrite E in Hj'. inversion Hj'; subst j'. apply new_job_flag. apply S2. exact Hup.
    + intros k q Hin. eapply calm_exec; [|exact Hget|exact Hin]. intros q' Hq'. eapply Hc. exact Hq'.
  - (* ETask *)
    destruct (lock s) eqn:Hl; [exact HS|].
    destruct (pending s) as [|p] eqn:Hp; [exact HS|].
    destruct HS as [[S1 [S2 S3]] Hc].
    assert (Hup : up s = true).
    { destruct (up s) eqn:E; [reflexivity|]. destruct (i1_down s I1 E) as (_ & _ & H0). congruence. }
    split; [split; [exact S1|split; [intros _; exact (S2 Hup)|]]|exact Hc].
    intros j' Hj'. cbn in Hj'. inversion Hj'; subst j'. apply new_job_flag. apply S2. exact Hup.
  - (* EPersist *)
    destruct (lock s) as [j|] eqn:Hl; [|exact HS].
    destruct HS as [[S1 [S2 S3]] Hc].
    destruct (i1_job s I1 j Hl) as [Hup _].
    destruct (job_flag_persist s j k I1 Hl (S2 Hup) (S3 j Hl)) as (A & B & C & D & _).
    split; [split; [|split]|].
    + destruct (lock (persist_step s j k)) as [j'|] eqn:El'.
      * destruct (A j' eq_refl) as (_ & _ & Ed). rewrite Ed. exact S1.
      * apply B. reflexivity.
    + rewrite C, D. exact S2.
    + intros j' Hj'. apply (A j' Hj').
    + intros k0 q Hin. destruct (persist_step_threads s j k) as [E|(i0 & rest & _ & Hg & E & _)]; rewrite E in Hin.
      * eapply Hc. exact Hin.
      * destruct (in_put_thread _ _ _ _ _ Hin) as [H|(-> & -> & _)]; [eapply Hc; exact H|].
        eapply calm_tail. eapply Hc. apply get_thread_in. exact Hg.
  - (* EFault: excluded *)
    destruct He.
  - (* EKill *)
    destruct (up s); [|exact HS]. destruct HS as [[S1 [S2 S3]] Hc].
    split; [split; [exact S1|split; [discriminate|discriminate]]|]. intros j p [].
  - (* ERestart *)
    destruct (up s || broken s) eqn:E; [exact HS|]. destruct HS as [[S1 [S2 S3]] Hc].
    destruct S1 as (c & Hc1 & Hdf). unfold restart. rewrite Hc1.
    destruct (i1_dat s I1 c Hc1) as (Hcomp & _ & _). rewrite Hcomp.
    pose proof (load_flag (f_doc c) (next_id s) Hdf) as HL.
    destruct (load (f_doc c) (next_id s)) as [l nid]. cbn in HL.
    split; [split; [exists c; auto|split]|].
    + intros _. exact HL.
    + intros j' Hj'. cbn in Hj'. inversion Hj'; subst j'. apply new_job_flag. exact HL.
    + intros j p [].
Qed.

(* ---- following the pausing request (thread i) from its arrival to its answer *)
Definition not_acked (s : st) : Prop := ~ In (i, 200%N) (acks s).
Inductive phase (s : st) : Prop :=
| Ph0 : get_thread i (threads s) = Some [MEnter (OPauseTopic t b)] -> phase s
| Ph404 : get_thread i (threads s) = Some [MAck 404%N] -> phase s
| Ph1 : forall g, get_thread i (threads s) = Some [MFlipTopic g t b; MSync; MAck 200%N] -> HT g (live_ s) -> phase s
| Ph2 : get_thread i (threads s) = Some [MSync; MAck 200%N] -> LF (live_ s) -> phase s
| Ph3 : forall j, get_thread i (threads s) = Some [MAwait; MAck 200%N] -> LF (live_ s) ->
                  lock s = Some j -> j_owner j = Some i -> JF j -> phase s
| PhDead : get_thread i (threads s) = None -> phase s.
Definition Pre (s : st) : Prop := not_acked s /\ quiet t i s /\ phase s.
Definition Track (s : st) : Prop := Pre s \/ StableQ s.
Definition ev_ok (e : ev) : Prop :=
  match e with EStart j o => j <> i /\ touches_op t o = false | EFault _ => False | _ => True end.

Lemma exec_acks : forall pad s j m rest,
  acks (exec pad s j m rest) = acks s \/ exists st, m = MAck st /\ acks (exec pad s j m rest) = (j, st) :: acks s.
Proof.
  intros pad s j m rest. destruct m; cbn [exec];
    repeat match goal with
           | |- context [if ?c then _ else _] => destruct c
           | |- context [match ?c with Some _ => _ | None => _ end] => destruct c
           end; cbn; rewrite ?(fun b s => proj1 (proj2 (proj2 (proj2 (proj2 (proj2 (proj2 (proj2 (proj2 (spawn_fields b s)))))))))); cbn;
    try (left; reflexivity).
  right. eauto.
Qed.

Lemma get_thread_exec_other : forall pad s j m rest k,
  k <> j -> get_thread k (threads (exec pad s j m rest)) = get_thread k (threads s).
Proof.
  intros pad s j m rest k Hne.
  destruct (exec_threads pad s j m rest) as [E|[(p & E & _)|(_ & _ & E)]]; rewrite E.
  - reflexivity.
  - apply get_put_thread_other. exact Hne.
  - apply get_set_thread_other. exact Hne.
Qed.

Lemma persist_step_frame : forall s j k,
  live_ (persist_step s j k) = live_ s /\ acks (persist_step s j k) = acks s /\ up (persist_step s j k) = up s.
Proof.
  intros s j k. unfold persist_step. destruct (j_phase j).
  - destruct (first_unread (j_slots j)); cbn; auto.
  - destruct (lookup (j_tmp j) (tmps (fs s))) as [c|]; [|auto]. destruct (Nat.eqb _ _); cbn; auto.
  - destruct (lookup (j_tmp j) (tmps (fs s))); cbn; auto.
  - cbn. auto.
  - destruct (lookup (j_tmp j) (tmps (fs s))) as [c|]; [|auto].
    destruct (j_owner j) as [i0|]; [|cbn; auto]. cbn.
    destruct (get_thread i0 (threads s)) as [[|[] rest]|]; cbn; auto.
Qed.

Lemma persist_commit_pops : forall s j k i0 rest,
  lock s = Some j -> lock (persist_step s j k) = None -> j_owner j = Some i0 ->
  get_thread i0 (threads s) = Some (MAwait :: rest) ->
  threads (persist_step s j k) = put_thread i0 rest (threads s).
Proof.
  intros s j k i0 rest Hl Hn Ho Hg. unfold persist_step in *. destruct (j_phase j).
  - destruct (first_unread (j_slots j)); cbn in Hn; discriminate.
  - destruct (lookup (j_tmp j) (tmps (fs s))) as [c|]; [|congruence]. destruct (Nat.eqb _ _); cbn in Hn; congruence.
  - destruct (lookup (j_tmp j) (tmps (fs s))); cbn in Hn; congruence.
  - cbn in Hn. discriminate.
  - destruct (lookup (j_tmp j) (tmps (fs s))) as [c|]; [|congruence].
    rewrite Ho. cbn. rewrite Hg. reflexivity.
Qed.

Lemma flip_flag : forall g l, NoDup (map t_name l) -> HT g l -> LF (upd_topic g t (set_tpaused b) l).
Proof.
  intros g l Hnd (tp & Hin & Hg & Hn). split.
  - exists (set_tpaused b tp). split; [|exact Hn]. unfold upd_topic. apply in_map_iff. exists tp. split; [|exact Hin].
    assert (E : is_topic g t tp = true) by (apply is_topic_spec; auto). rewrite E. reflexivity.
  - intros x Hx Hxn. unfold upd_topic in Hx. apply in_map_iff in Hx. destruct Hx as (x0 & E & Hin0).
    assert (x0 = tp).
    { assert (Hn0 : t_name x0 = t) by (destruct (is_topic g t x0); rewrite <- E in Hxn; exact Hxn).
      apply (nodup_map_inj t_name l); auto. congruence. }
    subst x0. assert (E' : is_topic g t tp = true) by (apply is_topic_spec; auto). rewrite E' in E. subst x. reflexivity.
Qed.

Lemma quiet_put_self : forall s s' p,
  quiet t i s -> threads s' = put_thread i p (threads s) -> quiet t i s'.
Proof.
  intros s s' p Hq E j q Hin Hne. rewrite E in Hin.
  destruct (in_put_thread _ _ _ _ _ Hin) as [H|(E' & _)]; [eapply Hq; eauto|contradiction].
Qed.

Lemma Pre_step_other : forall s j m rest,
  InvB s -> Pre s -> j <> i -> get_thread j (threads s) = Some (m :: rest) -> Pre (exec true s j m rest).
Proof.
  intros s j m rest [I1 I5 I6] (Hna & Hq & Hph) Hne Hget.
  assert (Hcalm : calm t (m :: rest)) by (eapply Hq; [apply get_thread_in; exact Hget|exact Hne]).
  assert (Hm : touches_micro t m = false) by (apply Hcalm; left; reflexivity).
  assert (Hgi : get_thread i (threads (exec true s j m rest)) = get_thread i (threads s)).
  { apply get_thread_exec_other. intros E. apply Hne. symmetry. exact E. }
  split; [|split].
  - unfold not_acked. destruct (exec_acks true s j m rest) as [->|(st & _ & ->)]; [exact Hna|].
    intros [H|H]; [inversion H; congruence|contradiction].
  - apply quiet_exec; assumption.
  - destruct Hph as [H|H|g H H1|H H1|j0 H H1 H2 H3 H4|H].
    + apply Ph0. rewrite Hgi. exact H.
    + apply Ph404. rewrite Hgi. exact H.
    + apply (Ph1 _ g); [rewrite Hgi; exact H|apply has_topic_exec; assumption].
    + apply Ph2; [rewrite Hgi; exact H|apply live_flag_exec; assumption].
    + apply (Ph3 _ j0); [rewrite Hgi; exact H|apply live_flag_exec; assumption| |exact H3|exact H4].
      destruct (exec_shape_holds true s j m rest) as (_ & _ & _ & _ & [E|(E & _)]); [rewrite E; exact H2|congruence].
    + apply PhDead. rewrite Hgi. exact H.
Qed.

Lemma Pre_step_self : forall s, InvB s -> Pre s -> Pre (step s (EStep i)).
Proof.
  intros s [I1 I5 I6] (Hna & Hq & Hph). rewrite step_fixed. cbn [step_].
  destruct Hph as [H|H|g H H1|H H1|j0 H H1 H2 H3 H4|H]; rewrite H.
  - (* MEnter *)
    cbn [exec]. unfold lock_free. destruct (lock s) eqn:El; [split; [exact Hna|split; [exact Hq|apply Ph0; exact H]]|].
    split; [exact Hna|split].
    + eapply quiet_put_self; [exact Hq|reflexivity].
    + cbn [enter]. destruct (find_topic t (live_ s)) as [tp|] eqn:Ef.
      * destruct (find_topic_some _ _ _ Ef) as [Hin Hn].
        apply (Ph1 _ (t_id tp)); [cbn; eapply get_set_thread_same; exact H|].
        exists tp. auto.
      * apply Ph404. cbn. eapply get_set_thread_same; exact H.
  - (* MAck 404 *)
    cbn [exec]. split; [|split].
    + unfold not_acked. cbn. intros [E|E]; [inversion E|contradiction].
    + eapply quiet_put_self; [exact Hq|reflexivity].
    + apply PhDead. cbn. apply get_del_thread_same. exact I6.
  - (* MFlipTopic *)
    cbn [exec]. split; [exact Hna|split].
    + eapply quiet_put_self; [exact Hq|reflexivity].
    + apply Ph2; [cbn; eapply get_set_thread_same; exact H|].
      cbn. apply flip_flag; assumption.
  - (* MSync *)
    cbn [exec]. unfold lock_free. destruct (lock s) eqn:El; [split; [exact Hna|split; [exact Hq|apply Ph2; assumption]]|].
    split; [exact Hna|split].
    + eapply quiet_put_self with (p := [MAwait; MAck 200%N]); [exact Hq|reflexivity].
    + eapply Ph3; [cbn; eapply get_set_thread_same; exact H|exact H1|reflexivity|reflexivity|apply new_job_flag; exact H1].
  - (* MAwait *)
    cbn [exec]. split; [exact Hna|split; [exact Hq|eapply Ph3; eassumption]].
  - split; [exact Hna|split; [exact Hq|apply PhDead; exact H]].
Qed.

Lemma Track_step : forall s e, InvB s -> Track s -> ev_ok e -> Track (step s e).
Proof.
  intros s e IB [HP|HS] He.
  2:{ right. apply StableQ_step; [exact IB|exact HS|]. destruct e; cbn in *; tauto. }
  destruct e as [j o|j| |k|kf| |].
  - (* EStart *)
    left. destruct He as [Hne Ho]. rewrite step_fixed. cbn [step_].
    destruct (up s); [|exact HP]. destruct (get_thread j (threads s)) eqn:Hgj; [exact HP|].
    destruct HP as (Hna & Hq & Hph). split; [exact Hna|split].
    + intros k q Hin Hk. cbn in Hin. apply in_app_or in Hin. destruct Hin as [Hin|[Hin|[]]]; [eapply Hq; eauto|].
      inversion Hin; subst. intros m [<-|[]]. exact Ho.
    + assert (Hgi : get_thread i (threads (w_threads s (threads s ++ [(j, [MEnter o])]))) = get_thread i (threads s)).
      { cbn. apply get_thread_app_other. intros E. apply Hne. symmetry. exact E. }
      destruct Hph as [H|H|g H H1|H H1|j0 H H1 H2 H3 H4|H].
      * apply Ph0. rewrite Hgi. exact H.
      * apply Ph404. rewrite Hgi. exact H.
      * apply (Ph1 _ g); [rewrite Hgi; exact H|exact H1].
      * apply Ph2; [rewrite Hgi; exact H|exact H1].
      * apply (Ph3 _ j0); [rewrite Hgi; exact H|exact H1|exact H2|exact H3|exact H4].
      * apply PhDead. rewrite Hgi. exact H.
  - (* EStep *)
    left. destruct (N.eqb_spec j i) as [->|Hne]; [apply Pre_step_self; assumption|].
    rewrite step_fixed. cbn [step_]. destruct (get_thread j (threads s)) as [[|m rest]|] eqn:Hget; try exact HP.
    apply Pre_step_other; assumption.
  - (* ETask *)
    left. rewrite step_fixed. cbn [step_]. destruct (lock s) eqn:Hl; [exact HP|]. destruct (pending s) eqn:Hp; [exact HP|].
    destruct HP as (Hna & Hq & Hph). split; [exact Hna|split; [exact Hq|]].
    destruct Hph as [H|H|g H H1|H H1|j0 H H1 H2 H3 H4|H].
    + apply Ph0. exact H.
    + apply Ph404. exact H.
    + apply (Ph1 _ g); assumption.
    + apply Ph2; assumption.
    + congruence.
    + apply PhDead. exact H.
  - (* EPersist *)
    rewrite step_fixed. cbn [step_]. destruct (lock s) as [j|] eqn:Hl; [|left; exact HP].
    destruct IB as [I1 I5 I6]. destruct HP as (Hna & Hq & Hph).
    destruct (persist_step_frame s j k) as (Elive & Eacks & Eup).
    assert (Hother : forall p0, get_thread i (threads s) = p0 ->
              (forall rest, p0 <> Some (MAwait :: rest)) ->
              get_thread i (threads (persist_step s j k)) = p0 /\ quiet t i (persist_step s j k)).
    { intros p0 Hp0 Hna'. destruct (persist_step_threads s j k) as [E|(i0 & rest & _ & Hg & E & _)].
      - split; [rewrite E; exact Hp0|]. intros k0 q Hin. rewrite E in Hin. eapply Hq. exact Hin.
      - assert (Hi0 : i0 <> i). { intros ->. apply (Hna' rest). congruence. }
        split; [rewrite E; rewrite get_put_thread_other; [exact Hp0|intros E'; apply Hi0; symmetry; exact E']|].
        intros k0 q Hin Hk0. rewrite E in Hin.
        destruct (in_put_thread _ _ _ _ _ Hin) as [H|(-> & -> & _)]; [eapply Hq; eauto|].
        eapply calm_tail. eapply Hq; [apply get_thread_in; exact Hg|exact Hk0]. }
    destruct Hph as [H|H|g H H1|H H1|j0 H H1 H2 H3 H4|H].
    + left. destruct (Hother _ H) as [A B]; [intros rest; discriminate|].
      split; [unfold not_acked; rewrite Eacks; exact Hna|split; [exact B|apply Ph0; exact A]].
    + left. destruct (Hother _ H) as [A B]; [intros rest; discriminate|].
      split; [unfold not_acked; rewrite Eacks; exact Hna|split; [exact B|apply Ph404; exact A]].
    + left. destruct (Hother _ H) as [A B]; [intros rest; discriminate|].
      split; [unfold not_acked; rewrite Eacks; exact Hna|split; [exact B|apply (Ph1 _ g); [exact A|rewrite Elive; exact H1]]].
    + left. destruct (Hother _ H) as [A B]; [intros rest; discriminate|].
      split; [unfold not_acked; rewrite Eacks; exact Hna|split; [exact B|apply Ph2; [exact A|rewrite Elive; exact H1]]].
    + (* the job of thread i *)
      rewrite Hl in H2. inversion H2; subst j0.
      destruct (job_flag_persist s j k I1 Hl H1 H4) as (A & B & C & D & _).
      destruct (lock (persist_step s j k)) as [j'|] eqn:El'.
      * left. destruct (A j' eq_refl) as (Hjf & Ho & _).
        destruct (persist_step_threads s j k) as [E|(i0 & rest & _ & _ & _ & Hn)]; [|congruence].
        split; [unfold not_acked; rewrite Eacks; exact Hna|split].
        -- intros k0 q Hin. rewrite E in Hin. eapply Hq. exact Hin.
        -- apply (Ph3 _ j'); [rewrite E; exact H|rewrite C; exact H1|exact El'|congruence|exact Hjf].
      * right. pose proof (persist_commit_pops s j k i [MAck 200%N] Hl El' H3 H) as Eth.
        split; [split; [apply B; reflexivity|split; [intros _; rewrite C; exact H1|intros j' Hj'; congruence]]|].
        intros k0 q Hin. rewrite Eth in Hin.
        destruct (in_put_thread _ _ _ _ _ Hin) as [Hin'|(-> & -> & _)].
        -- destruct (N.eqb_spec k0 i) as [->|Hk0]; [|eapply Hq; eauto].
           assert (q = [MAwait; MAck 200%N]).
           { pose proof (get_thread_in _ _ _ H) as Hin2.
             assert (Hf : snd (i, q) = snd (i, [MAwait; MAck 200%N])); [|exact Hf].
             f_equal. apply (nodup_map_inj fst (threads s)); auto. }
           subst q. intros m [<-|[<-|[]]]; reflexivity.
        -- intros m [<-|[]]. reflexivity.
    + left. destruct (Hother _ H) as [A B]; [intros rest; discriminate|].
      split; [unfold not_acked; rewrite Eacks; exact Hna|split; [exact B|apply PhDead; exact A]].
  - (* EFault: excluded *)
    destruct He.
  - (* EKill *)
    left. rewrite step_fixed. cbn [step_]. destruct (up s); [|exact HP]. destruct HP as (Hna & Hq & Hph).
    split; [exact Hna|split; [intros k q []|apply PhDead; reflexivity]].
  - (* ERestart *)
    left. rewrite step_fixed. cbn [step_]. destruct (up s || broken s) eqn:E; [exact HP|]. destruct HP as (Hna & Hq & Hph).
    assert (G : forall s', acks s' = acks s -> threads s' = [] -> Pre s').
    { intros s' Ea Et. split; [unfold not_acked; rewrite Ea; exact Hna|split; [intros k q Hin; rewrite Et in Hin; contradiction|]].
      apply PhDead. rewrite Et. reflexivity. }
    unfold restart. destruct (dat (fs s)) as [c|]; [|apply G; reflexivity].
    destruct (complete c); [|apply G; reflexivity].
    destruct (load (f_doc c) (next_id s)) as [l nid]. apply G; reflexivity.
Qed.

Lemma Track_run : forall evs s, InvB s -> Track s -> Forall ev_ok evs -> Track (run s evs).
Proof.
  induction evs as [|e evs IH]; intros s IB HT Hall; cbn; [exact HT|].
  inversion Hall; subst. apply IH; [apply InvB_step; exact IB|apply Track_step; assumption|assumption].
Qed.

(* C06_pause_acked (topic): a pause/unpause request for a valid non-ephemeral topic t arrives
   in any reachable state; from then on no OTHER request creates, deletes or (un)pauses t
   (anything else may happen, in any interleaving, including kills and restarts).  If the
   request is answered 200 then from that moment on nsqd.dat holds t with that flag. *)
Lemma pause_acked_topic : forall pre evs,
  let s0 := run init pre in
  get_thread i (threads s0) = Some [MEnter (OPauseTopic t b)] ->
  quiet t i s0 -> ~ In (i, 200%N) (acks s0) ->
  Forall ev_ok evs ->
  let s := run s0 evs in
  In (i, 200%N) (acks s) ->
  exists c, dat (fs s) = Some c /\ complete c = true /\
            (exists e, In e (f_doc c) /\ dt_name e = t) /\
            (forall e, In e (f_doc c) -> dt_name e = t -> dt_paused e = b).
Proof.
  intros pre evs s0 Hget Hq Hna Hall s Hack.
  assert (IB0 : InvB s0) by apply InvB_run.
  assert (T0 : Track s0) by (left; split; [exact Hna|split; [exact Hq|apply Ph0; exact Hget]]).
  pose proof (Track_run evs s0 IB0 T0 Hall) as [(Hna' & _)|[[(c & Hc & Hdf) _] _]].
  - contradiction.
  - exists c. split; [exact Hc|]. split; [|exact Hdf].
    assert (IB : InvB s) by (unfold s, s0; rewrite <- run_app; apply InvB_run).
    destruct (i1_dat s (ib1 s IB) c Hc) as (? & _). assumption.
Qed.
End PauseTopic2.
