(* Proofs about the acknowledgement model (RelayAck.v). *)
From Coq Require Import List NArith Bool Arith Lia.
From NSQV Require Import model.Judge model.RelayAck.
Import ListNotations.
Open Scope bool_scope.
Open Scope nat_scope.

Lemma bytes_eqb_refl : forall b : bytes, bytes_eqb b b = true.
Proof.
  unfold bytes_eqb. induction b as [|x b IH]; simpl; auto. rewrite N.eqb_refl, IH. reflexivity.
Qed.

Definition is_pub (x : ev) : bool := match x with EPub _ _ _ => true | _ => false end.

(* ---------- one delivery ---------- *)
Lemma pub_seq_spec : forall t e b dests k evs ok k',
  pub_seq t e b dests k = (evs, ok, k') ->
  forallb is_pub evs = true /\
  (ok = true -> k <= k' /\ length evs = length dests /\ forallb (pub_ok t b) evs = true) /\
  (ok = false -> exists pre x kf, evs = pre ++ [x] /\ pub_bad t b x = true /\
                                  k <= kf /\ k' = S kf /\ accepted t (oracle e kf) = false).
Proof.
  induction dests as [|d r IH]; intros k evs ok k' H; simpl in H.
  - inversion H; subst. split; [reflexivity|]. split; intro Hk; [auto | discriminate].
  - destruct (accepted t (oracle e k)) eqn:A.
    + destruct (pub_seq t e b r (S k)) as [[evs1 ok1] k1] eqn:P. inversion H; subst.
      destruct (IH _ _ _ _ P) as [H1 [H2 H3]]. split; [simpl; exact H1|]. split.
      * intro Hk. destruct (H2 Hk) as [Ha [Hb Hc]]. split; [lia|]. split; [simpl; lia|].
        simpl. rewrite bytes_eqb_refl, A, Hc. reflexivity.
      * intro Hk. destruct (H3 Hk) as [pre [x [kf [E1 [E2 [E3 [E4 E5]]]]]]].
        exists (EPub d b (oracle e k) :: pre), x, kf. rewrite E1. repeat split; auto. lia.
    + inversion H; subst. split; [reflexivity|]. split; [intro Hk; discriminate|].
      intros _. exists [], (EPub d b (oracle e k)), k. simpl. rewrite bytes_eqb_refl, A.
      repeat split; auto.
Qed.

Lemma targets_len : forall c e rr d, 0 < ndest c ->
  0 < length (targets c e rr d) /\
  (effective_mode c = MAll -> length (targets c e rr d) = ndest c).
Proof.
  intros c e rr d Hn. unfold targets. destruct (effective_mode c); simpl; split; auto; try discriminate.
  - rewrite seq_length. exact Hn.
  - intros _. apply seq_length.
Qed.

(* ---------- the trace is a sequence of delivery blocks ---------- *)
Definition block (c : rcfg) (e : env) (s : rstate) : list ev :=
  match queue s with
  | [] => []
  | (m, a) :: q =>
      if gives_up c a then [EGiveUp m] else
      let '(evs, fin, k') := handle c e m (reqs s) (rrc s) (dels s) in
      evs ++ [if fin then EFin m else EReq m]
  end.

Fixpoint blocks (fuel : nat) (c : rcfg) (e : env) (s : rstate) : list ev :=
  match fuel with
  | O => []
  | S f => block c e s ++ blocks f c e (rstep c e s)
  end.

Lemma rstep_rtr : forall c e s, rtr (rstep c e s) = rtr s ++ block c e s.
Proof.
  intros c e s. unfold rstep, block. destruct (queue s) as [|[m a] q].
  - rewrite app_nil_r. reflexivity.
  - destruct (gives_up c a); [reflexivity|].
    destruct (handle c e m (reqs s) (rrc s) (dels s)) as [[evs fin] k']. reflexivity.
Qed.

Lemma relay_rtr : forall fuel c e s, rtr (relay fuel c e s) = rtr s ++ blocks fuel c e s.
Proof.
  induction fuel as [|f IH]; intros c e s; simpl.
  - rewrite app_nil_r. reflexivity.
  - rewrite IH, rstep_rtr, app_assoc. reflexivity.
Qed.

Lemma ack_ok_pubs : forall al c evs cur r, forallb is_pub evs = true ->
  ack_gen al c cur (evs ++ r) = ack_gen al c (cur ++ evs) r.
Proof.
  intros al c. induction evs as [|x evs IH]; intros cur r H; simpl.
  - rewrite app_nil_r. reflexivity.
  - simpl in H. apply andb_true_iff in H. destruct H as [Hx H]. destruct x; try discriminate.
    rewrite IH; auto. rewrite <- app_assoc. reflexivity.
Qed.

Lemma handle_spec : forall c e m k rr d evs fin k', 0 < ndest c ->
  handle c e m k rr d = (evs, fin, k') ->
  forallb is_pub evs = true /\
  (plain c = true ->
     (fin = true -> negb (Nat.eqb (length evs) 0) = true /\ forallb (pub_ok (tool_ c) (snd m)) evs = true /\
                    (effective_mode c = MAll -> length evs = ndest c)) /\
     (fin = false -> exists pre x, evs = pre ++ [x] /\ pub_bad (tool_ c) (snd m) x = true)).
Proof.
  intros c e m k rr d evs fin k' Hn H. unfold handle in H. unfold plain.
  destruct (filter c) as [f|] eqn:F.
  - split; [|intro; discriminate].
    destruct (sampling c && coin e d). inversion H; reflexivity.
    destruct (f (snd m)); try (inversion H; reflexivity).
    destruct (pub_seq_spec _ _ _ _ _ _ _ _ H) as [H1 _]. exact H1.
  - destruct (sampling c) eqn:S; simpl in H.
    + split; [|intro; discriminate]. destruct (coin e d). inversion H; reflexivity.
      destruct (pub_seq_spec _ _ _ _ _ _ _ _ H) as [H1 _]. exact H1.
    + destruct (pub_seq_spec _ _ _ _ _ _ _ _ H) as [H1 [H2 H3]]. split; [exact H1|]. intros _.
      destruct (targets_len c e rr d Hn) as [T1 T2]. split.
      * intro Hf. destruct (H2 Hf) as [_ [Hl Hp]]. split; [|split]; auto.
        -- rewrite Hl. destruct (length (targets c e rr d)); [lia | reflexivity].
        -- intro Hm. rewrite Hl. auto.
      * intro Hf. destruct (H3 Hf) as [pre [x [kf [E1 [E2 _]]]]]. exists pre, x. auto.
Qed.

Lemma block_ok : forall al c e s r, 0 < ndest c -> (al = true \/ max_attempts c = 0) ->
  ack_gen al c [] (block c e s ++ r) = ack_gen al c [] r.
Proof.
  intros al c e s r Hn Hal. unfold block. destruct (queue s) as [|[m a] q]; [reflexivity|].
  destruct (gives_up c a) eqn:G.
  { destruct Hal as [-> | Hm]. reflexivity. unfold gives_up in G. rewrite Hm in G. discriminate. }
  destruct (handle c e m (reqs s) (rrc s) (dels s)) as [[evs fin] k'] eqn:H.
  destruct (handle_spec _ _ _ _ _ _ _ _ _ Hn H) as [H1 H2].
  rewrite <- app_assoc. rewrite ack_ok_pubs; auto. simpl app.
  destruct (plain c) eqn:P.
  - destruct (H2 eq_refl) as [Hf Hr]. destruct fin; simpl; rewrite P.
    + destruct (Hf eq_refl) as [A [B C]]. rewrite A, B. simpl.
      destruct (effective_mode c) eqn:M; auto. rewrite C; auto. rewrite Nat.eqb_refl. reflexivity.
    + destruct (Hr eq_refl) as [pre [x [E1 E2]]]. rewrite E1, rev_app_distr. simpl. rewrite E2. reflexivity.
  - destruct fin; simpl; rewrite P; reflexivity.
Qed.

Lemma blocks_ok : forall al fuel c e s, 0 < ndest c -> (al = true \/ max_attempts c = 0) ->
  ack_gen al c [] (blocks fuel c e s) = true.
Proof.
  intros al. induction fuel as [|f IH]; intros c e s Hn Hal; simpl; auto. rewrite block_ok; auto.
Qed.

(* For every destination behaviour, every hostpool choice sequence, every sampling coin
   sequence, every message list and every number of deliveries: the trace satisfies the
   acknowledgement rule. *)
Theorem finish_only_on_success : forall c e msgs fuel, 0 < ndest c -> max_attempts c = 0 ->
  ack_ok c [] (rtr (relay fuel c e (rinit msgs))) = true.
Proof.
  intros c e msgs fuel Hn Hm. rewrite relay_rtr. simpl. apply blocks_ok; auto.
Qed.

(* ... and for any max_attempts, outside the give-ups of the client library *)
Theorem finish_only_on_success_outside : forall c e msgs fuel, 0 < ndest c ->
  ack_ok_outside c [] (rtr (relay fuel c e (rinit msgs))) = true.
Proof.
  intros c e msgs fuel Hn. rewrite relay_rtr. simpl. apply blocks_ok; auto.
Qed.

(* what ack_ok says about a finish, spelled out: in a plain configuration a finish of m is
   immediately preceded by a non-empty run of requests, all carrying exactly m's body and
   all accepted *)
Lemma ack_ok_fin : forall al c tr cur pre m post, plain c = true ->
  ack_gen al c cur tr = true -> tr = pre ++ EFin m :: post ->
  exists pre1 run, cur ++ pre = pre1 ++ run /\ run <> [] /\
                   forallb (pub_ok (tool_ c) (snd m)) run = true.
Proof.
  intros al c tr. induction tr as [|x tr IH]; intros cur pre m post P H E.
  - destruct pre; discriminate.
  - destruct pre as [|y pre].
    + simpl in E. injection E as Ex Et. subst x tr. simpl in H. rewrite P in H.
      apply andb_true_iff in H. destruct H as [H _]. apply andb_true_iff in H. destruct H as [H _].
      apply andb_true_iff in H. destruct H as [H1 H2].
      exists [], cur. rewrite app_nil_r. split; [reflexivity|]. split; auto.
      intro Hc. subst cur. simpl in H1. discriminate.
    + simpl in E. injection E as Ex H1. subst y. destruct x as [d b a | m' | m' | m'].
      * simpl in H. destruct (IH _ _ _ _ P H H1) as [pre1 [run [E1 [E2 E3]]]].
        exists pre1, run. rewrite <- E1, <- app_assoc. auto.
      * simpl in H. apply andb_true_iff in H. destruct H as [_ H].
        destruct (IH _ _ _ _ P H H1) as [pre1 [run [E1 [E2 E3]]]].
        exists (cur ++ EFin m' :: pre1), run. simpl in E1. rewrite E1, <- app_assoc. auto.
      * simpl in H. apply andb_true_iff in H. destruct H as [_ H].
        destruct (IH _ _ _ _ P H H1) as [pre1 [run [E1 [E2 E3]]]].
        exists (cur ++ EReq m' :: pre1), run. simpl in E1. rewrite E1, <- app_assoc. auto.
      * simpl in H. apply andb_true_iff in H. destruct H as [_ H].
        destruct (IH _ _ _ _ P H H1) as [pre1 [run [E1 [E2 E3]]]].
        exists (cur ++ EGiveUp m' :: pre1), run. simpl in E1. rewrite E1, <- app_assoc. auto.
Qed.

Theorem fin_has_accepted_publish : forall c e msgs fuel pre m post, 0 < ndest c -> plain c = true ->
  rtr (relay fuel c e (rinit msgs)) = pre ++ EFin m :: post ->
  exists pre1 d a pre2,
    pre = pre1 ++ EPub d (snd m) a :: pre2 /\ accepted (tool_ c) a = true /\
    forallb (pub_ok (tool_ c) (snd m)) pre2 = true.
Proof.
  intros c e msgs fuel pre m post Hn P E.
  pose proof (finish_only_on_success_outside c e msgs fuel Hn) as H.
  destruct (ack_ok_fin true c _ [] pre m post P H E) as [pre1 [run [E1 [E2 E3]]]].
  simpl in E1. destruct run as [|x run]; [contradiction|].
  simpl in E3. apply andb_true_iff in E3. destruct E3 as [Hx Hr].
  destruct x as [d b a| | |]; try discriminate. simpl in Hx. apply andb_true_iff in Hx. destruct Hx as [Hb Ha].
  assert (b = snd m).
  { clear -Hb. revert Hb. unfold bytes_eqb. generalize (snd m). induction b as [|x b IH]; intros [|y l] H; simpl in H; try discriminate; auto.
    apply andb_true_iff in H. destruct H as [H1 H2]. apply N.eqb_eq in H1. f_equal; auto. }
  subst b. exists pre1, d, a, run. auto.
Qed.

(* ---------- at-least-once when the destination eventually accepts ---------- *)
Lemma relay_empty : forall fuel c e s, queue s = [] -> relay fuel c e s = s.
Proof.
  induction fuel as [|f IH]; intros c e s H; simpl; auto.
  assert (rstep c e s = s) by (unfold rstep; rewrite H; reflexivity). rewrite H0. auto.
Qed.

Lemma in_rtr_mono : forall fuel c e s x, In x (rtr s) -> In x (rtr (relay fuel c e s)).
Proof. intros. rewrite relay_rtr. apply in_or_app. auto. Qed.

Definition delivered (c : rcfg) (tr : list ev) (m : rmsg) : Prop :=
  In (EFin m) tr /\
  (sampling c = false -> exists d a, In (EPub d (snd m) a) tr /\ accepted (tool_ c) a = true).

Lemma eventual_gen : forall fuel c e N s,
  filter c = None -> 0 < ndest c -> max_attempts c = 0 ->
  (forall k, N <= k -> accepted (tool_ c) (oracle e k) = true) ->
  (N - reqs s) + length (queue s) <= fuel ->
  queue (relay fuel c e s) = [] /\
  forall m, In m (map fst (queue s)) -> delivered c (rtr (relay fuel c e s)) m.
Proof.
  induction fuel as [|f IH]; intros c e N s Hf Hn Hmax Hacc Hpot.
  - simpl. assert (length (queue s) = 0) by lia. destruct (queue s); [|discriminate].
    split; auto. intros m [].
  - destruct (queue s) as [|[m at_] q] eqn:Q.
    + rewrite relay_empty; auto. split; auto. intros m [].
    + simpl relay.
      assert (G : gives_up c at_ = false) by (unfold gives_up; rewrite Hmax; reflexivity).
      destruct (handle c e m (reqs s) (rrc s) (dels s)) as [[evs fin] k'] eqn:H.
      set (s' := mkR (if fin then q else q ++ [(m, S at_)]) k' (S (rrc s)) (S (dels s))
                     (rtr s ++ evs ++ [if fin then EFin m else EReq m])).
      assert (Hstep : rstep c e s = s') by (unfold rstep; rewrite Q, G, H; reflexivity).
      rewrite Hstep.
      (* facts about this delivery *)
      assert (Hk : reqs s <= k' /\ (fin = false -> k' <= N /\ reqs s < k') /\
                   (fin = true -> sampling c = false ->
                      exists d a, In (EPub d (snd m) a) evs /\ accepted (tool_ c) a = true)).
      { unfold handle in H. rewrite Hf in H.
        destruct (sampling c && coin e (dels s)) eqn:SC.
        - inversion H; subst. split; [lia|]. split; [intro; discriminate|].
          intros _ Hs. rewrite Hs in SC. discriminate.
        - destruct (pub_seq_spec _ _ _ _ _ _ _ _ H) as [H1 [H2 H3]]. split; [|split].
          + destruct fin. destruct (H2 eq_refl); auto. destruct (H3 eq_refl) as [_ [_ [kf [_ [_ [A [B _]]]]]]]. lia.
          + intro Hfin. destruct (H3 Hfin) as [_ [_ [kf [_ [_ [A [B C]]]]]]].
            assert (kf < N). { destruct (le_lt_dec N kf) as [L|L]; auto. rewrite (Hacc kf L) in C. discriminate. }
            lia.
          + intros Hfin _. destruct (H2 Hfin) as [_ [Hl Hp]].
            destruct (targets_len c e (rrc s) (dels s) Hn) as [T _].
            destruct evs as [|x evs]; [simpl in Hl; lia|].
            simpl in Hp. apply andb_true_iff in Hp. destruct Hp as [Hx _].
            destruct x as [d b a| | |]; try discriminate. simpl in Hx. apply andb_true_iff in Hx. destruct Hx as [Hb Ha].
            assert (b = snd m).
            { clear -Hb. revert Hb. unfold bytes_eqb. generalize (snd m). induction b as [|x b IHb]; intros [|y l] Hq; simpl in Hq; try discriminate; auto.
              apply andb_true_iff in Hq. destruct Hq as [Q1 Q2]. apply N.eqb_eq in Q1. f_equal; auto. }
            subst b. exists d, a. split; auto. left. reflexivity. }
      destruct Hk as [K1 [K2 K3]].
      assert (Hpot' : (N - reqs s') + length (queue s') <= f).
      { unfold s'. simpl. simpl in Hpot. destruct fin.
        - lia.
        - destruct (K2 eq_refl). rewrite app_length. simpl. lia. }
      destruct (IH c e N s' Hf Hn Hmax Hacc Hpot') as [A B]. split; [exact A|].
      intros x Hx. simpl in Hx. destruct Hx as [<- | Hx].
      * destruct fin.
        -- split.
           ++ apply in_rtr_mono. unfold s'. simpl. apply in_or_app. right. apply in_or_app. right. left. reflexivity.
           ++ intro Hs. destruct (K3 eq_refl Hs) as [d [a [I1 I2]]]. exists d, a. split; auto.
              apply in_rtr_mono. unfold s'. simpl. apply in_or_app. right. apply in_or_app. left. exact I1.
        -- apply B. unfold s'. simpl. rewrite map_app. apply in_or_app. right. left. reflexivity.
      * apply B. unfold s'. simpl. destruct fin; auto. rewrite map_app. apply in_or_app. left. exact Hx.
Qed.

(* If from some request index N on the destination accepts, then (with max_attempts = 0)
   after N + |msgs| deliveries nothing is owed any more, every source message has been
   finished and (when no sampling is configured) a request carrying exactly its body was
   accepted. *)
Theorem eventual : forall c e msgs N,
  filter c = None -> 0 < ndest c -> max_attempts c = 0 ->
  (forall k, N <= k -> accepted (tool_ c) (oracle e k) = true) ->
  let s := relay (N + length msgs) c e (rinit msgs) in
  queue s = [] /\ forall m, In m msgs -> delivered c (rtr s) m.
Proof.
  intros c e msgs N Hf Hn Hmax Hacc.
  destruct (eventual_gen (N + length msgs) c e N (rinit msgs) Hf Hn Hmax Hacc) as [A B].
  { simpl. rewrite map_length. lia. }
  split; [exact A|]. intros m Hm. apply B. simpl. rewrite map_map. simpl. rewrite map_id. exact Hm.
Qed.

(* ---------- the known finding: go-nsq's max_attempts ---------- *)
Definition kf_cfg (t : tool) : rcfg := mkRcfg t MRoundRobin 1 None false 5.
Definition kf_env (t : tool) : env :=
  mkEnv (fun _ => match t with ToNsq => AErr | _ => AStatus 500 end) (fun _ => 0) (fun _ => false).
Definition kf_msg : rmsg := (1%N, [109%N]).

Lemma give_up_witness : forall t,
  ack_ok (kf_cfg t) [] (rtr (relay 6 (kf_cfg t) (kf_env t) (rinit [kf_msg]))) = false /\
  queue (relay 6 (kf_cfg t) (kf_env t) (rinit [kf_msg])) = [] /\
  In (EGiveUp kf_msg) (rtr (relay 6 (kf_cfg t) (kf_env t) (rinit [kf_msg]))).
Proof. intros [| |]; vm_compute; repeat split; auto 20. Qed.

Theorem finish_only_on_success_refuted :
  ~ (forall c e msgs fuel, 0 < ndest c -> ack_ok c [] (rtr (relay fuel c e (rinit msgs))) = true).
Proof.
  intro H. specialize (H (kf_cfg HttpPost) (kf_env HttpPost) [kf_msg] 6).
  destruct (give_up_witness HttpPost) as [W _]. rewrite W in H. assert (0 < 1) by lia. specialize (H H0). discriminate.
Qed.

(* ---------- outside the finding: a give-up needs max_attempts failed deliveries ---------- *)
Definition is_req (m : rmsg) (x : ev) : bool :=
  match x with EReq m' => N.eqb (fst m) (fst m') && bytes_eqb (snd m) (snd m') | _ => false end.
Definition nreq (m : rmsg) (tr : list ev) : nat := length (List.filter (is_req m) tr).
Definition is_giveup (x : ev) : bool := match x with EGiveUp _ => true | _ => false end.

Lemma nreq_app : forall m a b, nreq m (a ++ b) = nreq m a + nreq m b.
Proof. intros. unfold nreq. rewrite filter_app, app_length. reflexivity. Qed.

Lemma is_req_refl : forall m, is_req m (EReq m) = true.
Proof. intros [i b]. simpl. rewrite N.eqb_refl, bytes_eqb_refl. reflexivity. Qed.

Definition att_inv (c : rcfg) (s : rstate) : Prop :=
  (forall m a, In (m, a) (queue s) -> a <= S (nreq m (rtr s))) /\
  (forall m, In (EGiveUp m) (rtr s) -> 0 < max_attempts c /\ max_attempts c <= nreq m (rtr s)).

Lemma rstep_att : forall c e s, att_inv c s -> att_inv c (rstep c e s).
Proof.
  intros c e s [I1 I2]. unfold rstep. destruct (queue s) as [|[m a] q] eqn:Q.
  { split; [intros m a Hin; rewrite Q in Hin; destruct Hin | exact I2]. }
  destruct (gives_up c a) eqn:G.
  - split; simpl.
    + intros m' a' Hin. rewrite nreq_app. specialize (I1 m' a' (or_intror Hin)). lia.
    + intros m' Hin. rewrite nreq_app. apply in_app_or in Hin. destruct Hin as [Hin | [Hin | []]].
      * destruct (I2 m' Hin). split; auto. lia.
      * inversion Hin; subst m'. unfold gives_up in G. apply andb_true_iff in G. destruct G as [G1 G2].
        apply Nat.ltb_lt in G1. apply Nat.ltb_lt in G2. specialize (I1 m a (or_introl eq_refl)). split; auto. lia.
  - destruct (handle c e m (reqs s) (rrc s) (dels s)) as [[evs fin] k'] eqn:H. split; simpl.
    + intros m' a' Hin. rewrite !nreq_app. destruct fin.
      * specialize (I1 m' a' (or_intror Hin)). lia.
      * apply in_app_or in Hin. destruct Hin as [Hin | [Hin | []]].
        -- specialize (I1 m' a' (or_intror Hin)). lia.
        -- injection Hin as Em Ea. subst m' a'. specialize (I1 m a (or_introl eq_refl)).
           assert (R1 : nreq m [EReq m] = 1) by (unfold nreq; cbn [List.filter]; rewrite is_req_refl; reflexivity).
           rewrite R1. lia.
    + intros m' Hin. rewrite !nreq_app. apply in_app_or in Hin. destruct Hin as [Hin | Hin].
      * destruct (I2 m' Hin). split; auto. lia.
      * exfalso. apply in_app_or in Hin. destruct Hin as [Hin | [Hin | []]].
        -- unfold handle in H. assert (P : forallb is_pub evs = true).
           { destruct (sampling c && coin e (dels s)). inversion H; reflexivity.
             destruct (match filter c with Some f => f (snd m) | None => FPass (snd m) end); try (inversion H; reflexivity).
             destruct (pub_seq_spec _ _ _ _ _ _ _ _ H) as [P _]. exact P. }
           rewrite forallb_forall in P. specialize (P _ Hin). discriminate.
        -- destruct fin; discriminate.
Qed.

Lemma relay_att : forall fuel c e s, att_inv c s -> att_inv c (relay fuel c e s).
Proof. induction fuel as [|f IH]; intros; simpl; auto. apply IH. apply rstep_att. assumption. Qed.

Lemma rinit_att : forall c msgs, att_inv c (rinit msgs).
Proof.
  intros c msgs. split; simpl.
  - intros m a Hin. apply in_map_iff in Hin. destruct Hin as [x [Hx _]]. inversion Hx. lia.
  - intros m [].
Qed.

(* the client library gives a message up only after max_attempts requeues of it *)
Theorem giveup_needs_failures : forall c e msgs fuel m,
  In (EGiveUp m) (rtr (relay fuel c e (rinit msgs))) ->
  0 < max_attempts c /\ max_attempts c <= nreq m (rtr (relay fuel c e (rinit msgs))).
Proof.
  intros c e msgs fuel m H. destruct (relay_att fuel c e _ (rinit_att c msgs)) as [_ I2]. auto.
Qed.

Lemma ack_gen_no_giveup : forall c tr cur, forallb (fun x => negb (is_giveup x)) tr = true ->
  ack_gen false c cur tr = ack_gen true c cur tr.
Proof.
  intros c. induction tr as [|x tr IH]; intros cur H; simpl; auto.
  simpl in H. apply andb_true_iff in H. destruct H as [Hx H].
  destruct x; simpl in Hx; try discriminate; rewrite ?IH; auto.
Qed.

(* the full acknowledgement rule holds on every run in which no message is requeued
   max_attempts times (or max_attempts = 0: finish_only_on_success) *)
Theorem finish_only_on_success_holds_outside : forall c e msgs fuel, 0 < ndest c ->
  (forall m, nreq m (rtr (relay fuel c e (rinit msgs))) < max_attempts c) ->
  ack_ok c [] (rtr (relay fuel c e (rinit msgs))) = true.
Proof.
  intros c e msgs fuel Hn Hlt. unfold ack_ok. rewrite ack_gen_no_giveup.
  - apply finish_only_on_success_outside. exact Hn.
  - apply forallb_forall. intros x Hx. destruct x; auto. exfalso.
    destruct (giveup_needs_failures c e msgs fuel m Hx) as [_ H]. specialize (Hlt m). lia.
Qed.

(* ---------- tie to the repository under test (coq/gen/RelayCfg.v, regenerated every run) ---------- *)
From Coq Require Import String.
From NSQV Require Import gen.RelayCfg.

(* the configuration the tools actually run with: no filter, no sampling, and the client
   library's default max_attempts, which neither tool overrides *)
Definition tool_cfg (t : tool) (m : rmode) (nd : nat) : rcfg :=
  mkRcfg t m nd None false go_nsq_default_max_attempts.

Definition ack_full : Prop :=
  forall t m nd e msgs fuel, 0 < nd ->
    ack_ok (tool_cfg t m nd) [] (rtr (relay fuel (tool_cfg t m nd) e (rinit msgs))) = true.

Lemma ack_full_refuted : ~ ack_full.
Proof.
  intro H. specialize (H HttpPost MRoundRobin 1 (kf_env HttpPost) [kf_msg] (S go_nsq_default_max_attempts)).
  assert (L : 0 < 1) by lia. specialize (H L). vm_compute in H. discriminate.
Qed.

Lemma ack_full_refuted_nsq :
  ack_ok (tool_cfg ToNsq MHostPool 1) []
    (rtr (relay (S go_nsq_default_max_attempts) (tool_cfg ToNsq MHostPool 1) (kf_env ToNsq) (rinit [kf_msg]))) = false.
Proof. vm_compute. reflexivity. Qed.

Lemma tools_use_library_default :
  nsq_to_nsq_assigns_max_attempts = false /\ nsq_to_http_assigns_max_attempts = false /\
  0 < go_nsq_default_max_attempts.
Proof. repeat split. vm_compute. lia. Qed.

(* the status tests of PostPublisher / GetPublisher are the ones [accepted] transcribes *)
Lemma status_tests_as_modelled :
  post_error_test = "resp.StatusCode < 200 || resp.StatusCode >= 300"%string /\
  get_error_test = "resp.StatusCode != 200"%string.
Proof. split; reflexivity. Qed.

Lemma accepted_post_iff : forall c, accepted HttpPost (AStatus c) = negb ((c <? 200)%N || (300 <=? c)%N).
Proof.
  intro c. simpl. destruct (N.leb_spec 200 c), (N.ltb_spec c 300), (N.ltb_spec c 200), (N.leb_spec 300 c); simpl; auto; lia.
Qed.

Lemma accepted_get_iff : forall c, accepted HttpGet (AStatus c) = negb (negb (c =? 200)%N).
Proof. intro c. simpl. destruct (c =? 200)%N; reflexivity. Qed.
