(* Structural invariant of the RegistrationDB model: registration keys are unique, a
   connection appears at most once under a key, no key is the wildcard, and only
   producers stored under a topic key can carry a tombstone.  Preserved by every step. *)
From Coq Require Import List NArith ZArith Bool Lia.
From NSQV Require Import model.Judge model.Names model.Lookupd model.LookupSpec
  proofs.LookupdBase proofs.LookupdRefine.
Import ListNotations.
Open Scope bool_scope.
Local Arguments has_prod : simpl never.
Local Arguments drop_prod : simpl never.

Definition good (k : reg) (ps : list producer) : Prop :=
  NoDup (map p_id ps) /\ is_star (r_key k) = false /\
  (r_cat k <> CTopic -> forall pr, In pr ps -> p_tomb pr = false).

Definition shape_g (m : dbmap) : Prop := forall k ps, get k m = Some ps -> good k ps.
Definition keys_nodup (m : dbmap) : Prop := NoDup (map fst m).
Definition shape (s : state) : Prop := shape_g (db s) /\ keys_nodup (db s).

Lemma NoDup_app_singleton {A} (l : list A) x : NoDup l -> ~ In x l -> NoDup (l ++ [x]).
Proof.
  induction l as [|y l IH]; cbn; intros H Hn.
  - constructor; [intros []|constructor].
  - inversion H as [|? ? Hy Hd]; subst. constructor.
    + intros Hin. apply in_app_or in Hin as [Hin|[->|[]]]; [contradiction|]. apply Hn. left. reflexivity.
    + apply IH; [assumption|]. intros Hin. apply Hn. right. assumption.
Qed.

(* ------------------------------------------------------------------ keys *)
Lemma keys_upd k f (m : dbmap) : map fst (upd k f m) = map fst m.
Proof.
  induction m as [|[k0 ps] m IH]; cbn; [reflexivity|].
  destruct (reg_eqb k0 k); cbn; [reflexivity|rewrite IH; reflexivity].
Qed.

Lemma keys_nodup_snoc k v (m : dbmap) : keys_nodup m -> get k m = None -> keys_nodup (m ++ [(k, v)]).
Proof.
  unfold keys_nodup. intros H G. rewrite map_app. cbn.
  apply NoDup_app_singleton; [assumption|].
  intros Hin. apply in_keys_get in Hin. unfold has_key in Hin. rewrite G in Hin. discriminate.
Qed.

Lemma NoDup_filter_map {A B} (f : A -> B) (g : A -> bool) (l : list A) :
  NoDup (map f l) -> NoDup (map f (filter g l)).
Proof.
  induction l as [|x l IH]; cbn; [auto|]. intros H. inversion H as [|? ? Hn Hd]; subst.
  destruct (g x); cbn; [|auto]. constructor; [|auto].
  intros Hin. apply Hn. apply in_map_iff in Hin as [y [Hy Hin]]. apply filter_In in Hin as [Hin _].
  apply in_map_iff. exists y. split; assumption.
Qed.

Lemma keys_nodup_remove_registration k (m : dbmap) : keys_nodup m -> keys_nodup (remove_registration k m).
Proof. apply NoDup_filter_map. Qed.

Lemma keys_nodup_upd k f (m : dbmap) : keys_nodup m -> keys_nodup (upd k f m).
Proof. unfold keys_nodup. rewrite keys_upd. auto. Qed.

Lemma keys_nodup_add_registration k (m : dbmap) : keys_nodup m -> keys_nodup (add_registration k m).
Proof.
  unfold add_registration, has_key. intros H. destruct (get k m) eqn:G; [assumption|].
  apply keys_nodup_snoc; assumption.
Qed.

Lemma keys_nodup_add_producer k pr (m : dbmap) : keys_nodup m -> keys_nodup (fst (add_producer k pr m)).
Proof.
  unfold add_producer. intros H. destruct (get k m) eqn:G.
  - destruct (has_prod (p_id pr) l); cbn; [assumption|apply keys_nodup_upd; assumption].
  - cbn. apply keys_nodup_snoc; assumption.
Qed.

Lemma keys_nodup_remove_producer k id (m : dbmap) : keys_nodup m -> keys_nodup (fst (fst (remove_producer k id m))).
Proof.
  unfold remove_producer. intros H. destruct (get k m); cbn; [apply keys_nodup_upd|]; assumption.
Qed.

Lemma keys_nodup_fold_remove_producer id l : forall m,
  keys_nodup m -> keys_nodup (fold_left (fun m r => fst (fst (remove_producer r id m))) l m).
Proof.
  induction l as [|r l IH]; intros m H; cbn; [assumption|]. apply IH. apply keys_nodup_remove_producer. assumption.
Qed.

Lemma keys_nodup_remove_all l : forall m, keys_nodup m -> keys_nodup (remove_all l m).
Proof.
  unfold remove_all. induction l as [|r l IH]; intros m H; cbn; [assumption|].
  apply IH. apply keys_nodup_remove_registration. assumption.
Qed.

Lemma keys_nodup_fold_tombstone t (l : list (reg * producer)) : forall m,
  keys_nodup m ->
  keys_nodup (fold_left (fun m (kp : reg * producer) => tombstone_in (fst kp) (p_id (snd kp)) t m) l m).
Proof.
  induction l as [|kp l IH]; intros m H; cbn; [assumption|]. apply IH. apply keys_nodup_upd. assumption.
Qed.

Lemma in_get (m : dbmap) k ps : keys_nodup m -> (In (k, ps) m <-> get k m = Some ps).
Proof.
  unfold keys_nodup. induction m as [|[k0 ps0] m IH]; cbn; intros H.
  - split; [tauto|discriminate].
  - inversion H as [|? ? Hn Hd]; subst. destruct (reg_eqb_spec k0 k) as [->|Hne].
    + split.
      * intros [E|Hin]; [inversion E; reflexivity|]. exfalso. apply Hn. apply in_map_iff. exists (k, ps). auto.
      * intros E. inversion E; subst. left. reflexivity.
    + rewrite <- (IH Hd). split; [intros [E|Hin]; [inversion E; congruence|assumption]|auto].
Qed.

(* ------------------------------------------------------------------ entries *)
Lemma shape_g_snoc k v (m : dbmap) : shape_g m -> get k m = None -> good k v -> shape_g (m ++ [(k, v)]).
Proof.
  intros H G Hv k' ps'. rewrite (get_snoc _ _ _ _ G). destruct (reg_eqb_spec k k') as [->|].
  - intros E. inversion E; subst. assumption.
  - apply H.
Qed.

Lemma shape_g_upd k f (m : dbmap) :
  shape_g m -> (forall ps, get k m = Some ps -> good k ps -> good k (f ps)) -> shape_g (upd k f m).
Proof.
  intros H Hf k' ps'. rewrite get_upd. destruct (reg_eqb_spec k k') as [->|]; [|apply H].
  destruct (get k' m) as [ps|] eqn:G; cbn; [|discriminate]. intros E. inversion E; subst.
  apply Hf; [reflexivity|]. apply H. assumption.
Qed.

Lemma shape_g_remove_registration k (m : dbmap) : shape_g m -> shape_g (remove_registration k m).
Proof.
  intros H k' ps'. rewrite get_remove_registration. destruct (reg_eqb k k'); [discriminate|apply H].
Qed.

Lemma map_id_drop id ps : NoDup (map p_id ps) -> NoDup (map p_id (drop_prod id ps)).
Proof. apply NoDup_filter_map. Qed.

Lemma good_drop k id ps : good k ps -> good k (drop_prod id ps).
Proof.
  intros (H1 & H2 & H3). repeat split; [apply map_id_drop; assumption|assumption|].
  intros Hc pr Hin. apply (H3 Hc). unfold drop_prod in Hin. apply filter_In in Hin as [Hin _]. assumption.
Qed.

Lemma good_snoc k p ps :
  good k ps -> has_prod p ps = false -> good k (ps ++ [mkProd p false 0]).
Proof.
  intros (H1 & H2 & H3) Hp. repeat split; [|assumption|].
  - rewrite map_app. cbn. apply NoDup_app_singleton; [assumption|].
    intros Hin. apply in_map_iff in Hin as [pr [Hid Hin]].
    assert (has_prod p ps = true) by (apply has_prod_in; exists pr; auto). congruence.
  - intros Hc pr Hin. apply in_app_or in Hin as [Hin|[<-|[]]]; [apply (H3 Hc); assumption|reflexivity].
Qed.

Lemma good_single k p : is_star (r_key k) = false -> good k [mkProd p false 0].
Proof.
  intros H. repeat split; [|assumption|].
  - cbn. constructor; [intros []|constructor].
  - intros _ pr [<-|[]]. reflexivity.
Qed.

Lemma good_nil k : is_star (r_key k) = false -> good k [].
Proof. intros H. repeat split; [constructor|assumption|intros _ ? []]. Qed.

Lemma good_mark k (f : producer -> producer) ps :
  (forall pr, p_id (f pr) = p_id pr) -> r_cat k = CTopic -> good k ps -> good k (map f ps).
Proof.
  intros Hf Hc (H1 & H2 & H3). repeat split; [|assumption|].
  - rewrite map_map. rewrite (map_ext _ p_id Hf). assumption.
  - intros Hn. contradiction.
Qed.

Lemma shape_g_add_registration k (m : dbmap) :
  shape_g m -> is_star (r_key k) = false -> shape_g (add_registration k m).
Proof.
  unfold add_registration, has_key. intros H Hs. destruct (get k m) eqn:G; [assumption|].
  apply shape_g_snoc; [assumption|assumption|apply good_nil; assumption].
Qed.

Lemma shape_g_add_producer k p (m : dbmap) :
  shape_g m -> is_star (r_key k) = false -> shape_g (fst (add_producer k (mkProd p false 0) m)).
Proof.
  unfold add_producer. intros H Hs. destruct (get k m) as [ps|] eqn:G.
  - cbn [p_id]. destruct (has_prod p ps) eqn:Hp; cbn [fst]; [assumption|].
    apply shape_g_upd; [assumption|]. intros ps' G' Hg. rewrite G in G'. inversion G'; subst.
    apply good_snoc; assumption.
  - cbn [fst]. apply shape_g_snoc; [assumption|assumption|apply good_single; assumption].
Qed.

Lemma shape_g_remove_producer k id (m : dbmap) : shape_g m -> shape_g (fst (fst (remove_producer k id m))).
Proof.
  unfold remove_producer. intros H. destruct (get k m) eqn:G; cbn [fst]; [|assumption].
  apply shape_g_upd; [assumption|]. intros ps _ Hg. apply good_drop. assumption.
Qed.

Lemma shape_g_fold_remove_producer id l : forall m,
  shape_g m -> shape_g (fold_left (fun m r => fst (fst (remove_producer r id m))) l m).
Proof.
  induction l as [|r l IH]; intros m H; cbn; [assumption|]. apply IH. apply shape_g_remove_producer. assumption.
Qed.

Lemma shape_g_remove_all l : forall m, shape_g m -> shape_g (remove_all l m).
Proof.
  unfold remove_all. induction l as [|r l IH]; intros m H; cbn; [assumption|].
  apply IH. apply shape_g_remove_registration. assumption.
Qed.

Lemma shape_g_fold_tombstone t (l : list (reg * producer)) : forall m,
  (forall kp, In kp l -> r_cat (fst kp) = CTopic) ->
  shape_g m ->
  shape_g (fold_left (fun m (kp : reg * producer) => tombstone_in (fst kp) (p_id (snd kp)) t m) l m).
Proof.
  induction l as [|kp l IH]; intros m Hc H; cbn [fold_left]; [assumption|].
  apply IH; [intros kp' Hin; apply Hc; right; assumption|].
  unfold tombstone_in. apply shape_g_upd; [assumption|]. intros ps _ Hg.
  apply good_mark; [|apply Hc; left; reflexivity|assumption].
  intros pr. destruct (N.eqb (p_id pr) (p_id (snd kp))); reflexivity.
Qed.

(* the registrations FindProducers looks into all have the requested category *)
Lemma dedup_by_id_in seen l kp : In kp (dedup_by_id seen l) -> In kp l.
Proof.
  revert seen. induction l as [|[k pr] l IH]; intros seen; cbn; [tauto|].
  destruct (existsb (N.eqb (p_id pr)) seen).
  - intros H. right. apply (IH _ H).
  - intros [H|H]; [left; assumption|right; apply (IH _ H)].
Qed.

Lemma find_producers_k_cat c key sub (m : dbmap) kp :
  In kp (find_producers_k c key sub m) -> r_cat (fst kp) = c.
Proof.
  unfold find_producers_k. destruct (need_filter key sub).
  - intros H. apply dedup_by_id_in in H. apply in_flat_map in H as [e [He Hin]].
    apply filter_In in He as [_ He]. apply in_map_iff in Hin as [pr [<- _]]. cbn.
    unfold is_match in He. apply andb_true_iff in He as [He _]. apply andb_true_iff in He as [He _].
    apply cat_eqb_eq in He. symmetry. assumption.
  - destruct (get (mkReg c key sub) m); [|intros []].
    intros H. apply in_map_iff in H as [pr [<- _]]. reflexivity.
Qed.

(* ------------------------------------------------------------------ every step *)
Lemma shape_disconnect s p : shape s -> shape (disconnect s p).
Proof.
  intros [H1 H2]. unfold disconnect. destruct (is_node s p); [|split; assumption].
  split; cbn [db]; unfold disconnect_db.
  - apply shape_g_fold_remove_producer. assumption.
  - apply keys_nodup_fold_remove_producer. assumption.
Qed.

Lemma check_names_ok t c : check_names t c = None ->
  is_star t = false /\ (nonempty c = true -> is_valid_name c = true).
Proof.
  unfold check_names. destruct (is_valid_name t) eqn:Vt; cbn; [|discriminate].
  destruct (nonempty c); cbn.
  - destruct (is_valid_name c); cbn; [|discriminate]. intros _. split; [apply valid_not_star; assumption|auto].
  - intros _. split; [apply valid_not_star; assumption|discriminate].
Qed.

Lemma shape_step s o : shape s -> shape (fst (step s o)).
Proof.
  intros Hs. pose proof Hs as [H1 H2]. destruct o; cbn [step].
  - (* identify *)
    unfold tcp_identify, fail. destruct (is_node s p); cbn [fst]; [apply shape_disconnect; assumption|].
    destruct (fields_missing i); cbn [fst]; [apply shape_disconnect; assumption|].
    destruct (add_producer client_key (mkProd p false 0) (db s)) as [m b] eqn:A.
    assert (m = fst (add_producer client_key (mkProd p false 0) (db s))) as -> by (rewrite A; reflexivity).
    cbn [fst]. split; cbn [db]; [apply shape_g_add_producer; [assumption|reflexivity]|apply keys_nodup_add_producer; assumption].
  - (* register *)
    unfold tcp_register, fail. destruct (is_node s p); cbn [negb fst]; [|apply shape_disconnect; assumption].
    destruct (check_names t c) eqn:CN; cbn [fst]; [apply shape_disconnect; assumption|].
    destruct (check_names_ok _ _ CN) as [Ht Hc].
    split; cbn [db].
    + apply shape_g_add_producer; [|exact Ht]. destruct (nonempty c); [|assumption].
      apply shape_g_add_producer; [assumption|exact Ht].
    + apply keys_nodup_add_producer. destruct (nonempty c); [|assumption]. apply keys_nodup_add_producer. assumption.
  - (* unregister *)
    unfold tcp_unregister, fail. destruct (is_node s p); cbn [negb fst]; [|apply shape_disconnect; assumption].
    destruct (check_names t c); cbn [fst]; [apply shape_disconnect; assumption|].
    destruct (nonempty c).
    + destruct (remove_producer (chan_key t c) p (db s)) as [[m1 rem] nleft] eqn:R.
      assert (m1 = fst (fst (remove_producer (chan_key t c) p (db s)))) as -> by (rewrite R; reflexivity).
      destruct (Nat.eqb nleft 0 && has_ephemeral_suffix c); split; cbn [db].
      * apply shape_g_remove_registration, shape_g_remove_producer; assumption.
      * apply keys_nodup_remove_registration, keys_nodup_remove_producer; assumption.
      * apply shape_g_remove_producer; assumption.
      * apply keys_nodup_remove_producer; assumption.
    + set (m1 := fold_left _ _ _).
      destruct (remove_producer (topic_key t) p m1) as [[m2 rem] nleft] eqn:R.
      assert (m2 = fst (fst (remove_producer (topic_key t) p m1))) as -> by (rewrite R; reflexivity).
      assert (shape_g m1) by (apply shape_g_fold_remove_producer; assumption).
      assert (keys_nodup m1) by (apply keys_nodup_fold_remove_producer; assumption).
      destruct (Nat.eqb nleft 0 && has_ephemeral_suffix t); split; cbn [db].
      * apply shape_g_remove_registration, shape_g_remove_producer; assumption.
      * apply keys_nodup_remove_registration, keys_nodup_remove_producer; assumption.
      * apply shape_g_remove_producer; assumption.
      * apply keys_nodup_remove_producer; assumption.
  - (* ping *)
    unfold tcp_ping. cbn [fst]. destruct (is_node s p); split; assumption.
  - apply shape_disconnect. assumption.
  - (* create topic *)
    unfold h_create_topic. destruct q as [|[t|] c n]; cbn [fst]; try assumption.
    destruct (is_valid_name t) eqn:V; cbn [negb fst]; [|assumption].
    split; cbn [db set_db]; [apply shape_g_add_registration; [assumption|apply valid_not_star; assumption]
                            |apply keys_nodup_add_registration; assumption].
  - (* delete topic *)
    unfold h_delete_topic. destruct q as [|[t|] c n]; cbn [fst]; try assumption.
    destruct (negb (is_valid_name t)); cbn [fst]; [assumption|].
    split; cbn [db set_db]; [repeat apply shape_g_remove_all|repeat apply keys_nodup_remove_all]; assumption.
  - (* create channel *)
    unfold h_create_channel. destruct q as [|t c n]; cbn [fst]; try assumption.
    destruct (topic_channel_args t c) as [[t' c']|] eqn:TC; cbn [fst]; [|assumption].
    destruct (topic_channel_args_valid _ _ _ _ TC) as [Vt Vc].
    split; cbn [db set_db].
    + apply shape_g_add_registration; [apply shape_g_add_registration; [assumption|]|]; apply valid_not_star; assumption.
    + repeat apply keys_nodup_add_registration. assumption.
  - (* delete channel *)
    unfold h_delete_channel. destruct q as [|t c n]; cbn [fst]; try assumption.
    destruct (topic_channel_args t c) as [[t' c']|]; cbn [fst]; [|assumption].
    destruct (find_registrations CChannel t' c' (db s)) eqn:F; cbn [fst]; [assumption|].
    split; cbn [db set_db]; [apply shape_g_remove_all|apply keys_nodup_remove_all]; assumption.
  - (* tombstone *)
    unfold h_tombstone. destruct q as [|[t|] c [node|]]; cbn [fst]; try assumption;
      destruct (negb (is_valid_name t)); cbn [fst]; try assumption.
    split; cbn [db set_db].
    + apply shape_g_fold_tombstone; [|assumption]. intros kp Hin. apply filter_In in Hin as [Hin _].
      apply (find_producers_k_cat _ _ _ _ _ Hin).
    + apply keys_nodup_fold_tombstone. assumption.
  - split; assumption.
Qed.

Lemma shape_init : shape init.
Proof. split; [intros k ps H; discriminate|constructor]. Qed.

Lemma shape_run h : forall s, shape s -> shape (run s h).
Proof.
  induction h as [|o h IH]; intros s H; [assumption|]. apply IH. apply shape_step. assumption.
Qed.
