(* C05: the source-order facts of proofs/CoreSrcDefs.v this property relies on, each checked
   against the skeleton regenerated from /repo (one lemma per function, so that a failure names it). *)
From Coq Require Import List String.
From NSQV Require Import gen.CoreShape proofs.CoreSrcDefs.
Import ListNotations.
Open Scope string_scope.

Lemma src_protocolV2_FIN : shape_protocolV2_FIN = expect_protocolV2_FIN.
Proof. reflexivity. Qed.
Lemma src_protocolV2_REQ : shape_protocolV2_REQ = expect_protocolV2_REQ.
Proof. reflexivity. Qed.
Lemma src_protocolV2_TOUCH : shape_protocolV2_TOUCH = expect_protocolV2_TOUCH.
Proof. reflexivity. Qed.
Lemma src_protocolV2_CLS : shape_protocolV2_CLS = expect_protocolV2_CLS.
Proof. reflexivity. Qed.
Lemma src_protocolV2_SendMessage : shape_protocolV2_SendMessage = expect_protocolV2_SendMessage.
Proof. reflexivity. Qed.
Lemma src_Channel_put : shape_Channel_put = expect_Channel_put.
Proof. reflexivity. Qed.
Lemma src_Channel_PutMessage : shape_Channel_PutMessage = expect_Channel_PutMessage.
Proof. reflexivity. Qed.
Lemma src_Channel_PutMessageDeferred : shape_Channel_PutMessageDeferred = expect_Channel_PutMessageDeferred.
Proof. reflexivity. Qed.
Lemma src_Channel_StartInFlightTimeout : shape_Channel_StartInFlightTimeout = expect_Channel_StartInFlightTimeout.
Proof. reflexivity. Qed.
Lemma src_Channel_StartDeferredTimeout : shape_Channel_StartDeferredTimeout = expect_Channel_StartDeferredTimeout.
Proof. reflexivity. Qed.
Lemma src_Channel_FinishMessage : shape_Channel_FinishMessage = expect_Channel_FinishMessage.
Proof. reflexivity. Qed.
Lemma src_Channel_RequeueMessage : shape_Channel_RequeueMessage = expect_Channel_RequeueMessage.
Proof. reflexivity. Qed.
Lemma src_Channel_TouchMessage : shape_Channel_TouchMessage = expect_Channel_TouchMessage.
Proof. reflexivity. Qed.
Lemma src_Channel_pushInFlightMessage : shape_Channel_pushInFlightMessage = expect_Channel_pushInFlightMessage.
Proof. reflexivity. Qed.
Lemma src_Channel_popInFlightMessage : shape_Channel_popInFlightMessage = expect_Channel_popInFlightMessage.
Proof. reflexivity. Qed.
Lemma src_Channel_processInFlightQueue : shape_Channel_processInFlightQueue = expect_Channel_processInFlightQueue.
Proof. reflexivity. Qed.
Lemma src_Channel_processDeferredQueue : shape_Channel_processDeferredQueue = expect_Channel_processDeferredQueue.
Proof. reflexivity. Qed.
Lemma src_Channel_flush : shape_Channel_flush = expect_Channel_flush.
Proof. reflexivity. Qed.
Lemma src_Channel_exit : shape_Channel_exit = expect_Channel_exit.
Proof. reflexivity. Qed.
Lemma src_Channel_Empty : shape_Channel_Empty = expect_Channel_Empty.
Proof. reflexivity. Qed.
Lemma src_Channel_empty : shape_Channel_empty = expect_Channel_empty.
Proof. reflexivity. Qed.
Lemma src_Channel_AddClient : shape_Channel_AddClient = expect_Channel_AddClient.
Proof. reflexivity. Qed.
Lemma src_Channel_RemoveClient : shape_Channel_RemoveClient = expect_Channel_RemoveClient.
Proof. reflexivity. Qed.
Lemma src_Topic_messagePump : shape_Topic_messagePump = expect_Topic_messagePump.
Proof. reflexivity. Qed.
Lemma src_Topic_put : shape_Topic_put = expect_Topic_put.
Proof. reflexivity. Qed.
Lemma src_Topic_PutMessage : shape_Topic_PutMessage = expect_Topic_PutMessage.
Proof. reflexivity. Qed.
Lemma src_Topic_PutMessages : shape_Topic_PutMessages = expect_Topic_PutMessages.
Proof. reflexivity. Qed.
Lemma src_Topic_flush : shape_Topic_flush = expect_Topic_flush.
Proof. reflexivity. Qed.
Lemma src_Topic_exit : shape_Topic_exit = expect_Topic_exit.
Proof. reflexivity. Qed.
Lemma src_Topic_GetChannel : shape_Topic_GetChannel = expect_Topic_GetChannel.
Proof. reflexivity. Qed.
Lemma src_Topic_DeleteExistingChannel : shape_Topic_DeleteExistingChannel = expect_Topic_DeleteExistingChannel.
Proof. reflexivity. Qed.
Lemma src_NSQD_GetTopic : shape_NSQD_GetTopic = expect_NSQD_GetTopic.
Proof. reflexivity. Qed.
Lemma src_NSQD_DeleteExistingTopic : shape_NSQD_DeleteExistingTopic = expect_NSQD_DeleteExistingTopic.
Proof. reflexivity. Qed.
Lemma src_NSQD_Exit : shape_NSQD_Exit = expect_NSQD_Exit.
Proof. reflexivity. Qed.
Lemma src_clientV2_SetReadyCount : shape_clientV2_SetReadyCount = expect_clientV2_SetReadyCount.
Proof. reflexivity. Qed.
Lemma src_clientV2_IsReadyForMessages : shape_clientV2_IsReadyForMessages = expect_clientV2_IsReadyForMessages.
Proof. reflexivity. Qed.
Lemma src_clientV2_SendingMessage : shape_clientV2_SendingMessage = expect_clientV2_SendingMessage.
Proof. reflexivity. Qed.
Lemma src_clientV2_FinishedMessage : shape_clientV2_FinishedMessage = expect_clientV2_FinishedMessage.
Proof. reflexivity. Qed.
Lemma src_clientV2_TimedOutMessage : shape_clientV2_TimedOutMessage = expect_clientV2_TimedOutMessage.
Proof. reflexivity. Qed.
Lemma src_clientV2_RequeuedMessage : shape_clientV2_RequeuedMessage = expect_clientV2_RequeuedMessage.
Proof. reflexivity. Qed.
Lemma src_clientV2_StartClose : shape_clientV2_StartClose = expect_clientV2_StartClose.
Proof. reflexivity. Qed.
Lemma src_clientV2_Empty : shape_clientV2_Empty = expect_clientV2_Empty.
Proof. reflexivity. Qed.
Lemma src_Channel_initPQ : shape_Channel_initPQ = expect_Channel_initPQ.
Proof. reflexivity. Qed.
Lemma src_protocolV2_NewClient : shape_protocolV2_NewClient = expect_protocolV2_NewClient.
Proof. reflexivity. Qed.
Lemma src_Channel_doPause : shape_Channel_doPause = expect_Channel_doPause.
Proof. reflexivity. Qed.
Lemma src_Topic_doPause : shape_Topic_doPause = expect_Topic_doPause.
Proof. reflexivity. Qed.
Lemma src_Channel_popDeferredMessage : shape_Channel_popDeferredMessage = expect_Channel_popDeferredMessage.
Proof. reflexivity. Qed.
Lemma src_Channel_pushDeferredMessage : shape_Channel_pushDeferredMessage = expect_Channel_pushDeferredMessage.
Proof. reflexivity. Qed.
Lemma src_Channel_addToInFlightPQ : shape_Channel_addToInFlightPQ = expect_Channel_addToInFlightPQ.
Proof. reflexivity. Qed.
Lemma src_Channel_addToDeferredPQ : shape_Channel_addToDeferredPQ = expect_Channel_addToDeferredPQ.
Proof. reflexivity. Qed.
Lemma src_pump_loop_head : seg "for {" "call client.IsReadyForMessages" shape_protocolV2_messagePump = expect_pump_loop_head.
Proof. reflexivity. Qed.
Lemma src_pump_not_ready : seg "if subChannel == nil || !client.IsReadyForMessages() {" "call client.writeLock.Lock" shape_protocolV2_messagePump = expect_pump_not_ready.
Proof. reflexivity. Qed.
Lemma src_pump_deliver : drop_until "if len(b) != 0 {" shape_protocolV2_messagePump = expect_pump_deliver.
Proof. reflexivity. Qed.
Lemma src_pump_sources : cases_of shape_protocolV2_messagePump = expect_pump_sources.
Proof. reflexivity. Qed.

Lemma src_C05 : src_facts_C05.
Proof. unfold src_facts_C05. repeat split; first [exact src_protocolV2_FIN | exact src_protocolV2_REQ | exact src_protocolV2_TOUCH | exact src_protocolV2_CLS | exact src_protocolV2_SendMessage | exact src_Channel_put | exact src_Channel_PutMessage | exact src_Channel_PutMessageDeferred | exact src_Channel_StartInFlightTimeout | exact src_Channel_StartDeferredTimeout | exact src_Channel_FinishMessage | exact src_Channel_RequeueMessage | exact src_Channel_TouchMessage | exact src_Channel_pushInFlightMessage | exact src_Channel_popInFlightMessage | exact src_Channel_processInFlightQueue | exact src_Channel_processDeferredQueue | exact src_Channel_flush | exact src_Channel_exit | exact src_Channel_Empty | exact src_Channel_empty | exact src_Channel_AddClient | exact src_Channel_RemoveClient | exact src_Topic_messagePump | exact src_Topic_put | exact src_Topic_PutMessage | exact src_Topic_PutMessages | exact src_Topic_flush | exact src_Topic_exit | exact src_Topic_GetChannel | exact src_Topic_DeleteExistingChannel | exact src_NSQD_GetTopic | exact src_NSQD_DeleteExistingTopic | exact src_NSQD_Exit | exact src_clientV2_SetReadyCount | exact src_clientV2_IsReadyForMessages | exact src_clientV2_SendingMessage | exact src_clientV2_FinishedMessage | exact src_clientV2_TimedOutMessage | exact src_clientV2_RequeuedMessage | exact src_clientV2_StartClose | exact src_clientV2_Empty | exact src_Channel_initPQ | exact src_protocolV2_NewClient | exact src_Channel_doPause | exact src_Topic_doPause | exact src_Channel_popDeferredMessage | exact src_Channel_pushDeferredMessage | exact src_Channel_addToInFlightPQ | exact src_Channel_addToDeferredPQ | exact src_pump_loop_head | exact src_pump_not_ready | exact src_pump_deliver | exact src_pump_sources]. Qed.
