(* C05: the source-order facts of proofs/CoreSrcDefs.v this property relies on, each checked
   against the skeleton regenerated from /repo (one lemma per function, so that a failure names it). *)
From Coq Require Import List String.
From NSQV Require Import gen.CoreShape proofs.CoreSrcDefs.
Import ListNotations.
Open Scope string_scope.

Lemma src_Topic_messagePump : shape_Topic_messagePump = expect_Topic_messagePump.
Proof. reflexivity. Qed.
Lemma src_Channel_flush : shape_Channel_flush = expect_Channel_flush.
Proof. reflexivity. Qed.
Lemma src_Channel_exit : shape_Channel_exit = expect_Channel_exit.
Proof. reflexivity. Qed.
Lemma src_Topic_flush : shape_Topic_flush = expect_Topic_flush.
Proof. reflexivity. Qed.
Lemma src_Topic_exit : shape_Topic_exit = expect_Topic_exit.
Proof. reflexivity. Qed.
Lemma src_NSQD_Exit : shape_NSQD_Exit = expect_NSQD_Exit.
Proof. reflexivity. Qed.
Lemma src_Channel_RequeueMessage : shape_Channel_RequeueMessage = expect_Channel_RequeueMessage.
Proof. reflexivity. Qed.
Lemma src_Channel_processInFlightQueue : shape_Channel_processInFlightQueue = expect_Channel_processInFlightQueue.
Proof. reflexivity. Qed.
Lemma src_Channel_processDeferredQueue : shape_Channel_processDeferredQueue = expect_Channel_processDeferredQueue.
Proof. reflexivity. Qed.
Lemma src_Channel_PutMessage : shape_Channel_PutMessage = expect_Channel_PutMessage.
Proof. reflexivity. Qed.
Lemma src_Topic_PutMessage : shape_Topic_PutMessage = expect_Topic_PutMessage.
Proof. reflexivity. Qed.
Lemma src_Topic_PutMessages : shape_Topic_PutMessages = expect_Topic_PutMessages.
Proof. reflexivity. Qed.

Lemma src_C05 : src_facts_C05.
Proof. unfold src_facts_C05. repeat split; first [exact src_Topic_messagePump | exact src_Channel_flush | exact src_Channel_exit | exact src_Topic_flush | exact src_Topic_exit | exact src_NSQD_Exit | exact src_Channel_RequeueMessage | exact src_Channel_processInFlightQueue | exact src_Channel_processDeferredQueue | exact src_Channel_PutMessage | exact src_Topic_PutMessage | exact src_Topic_PutMessages]. Qed.
