(* C15: the registry never holds an invalid name.  [names_ok] (model/LookupNames.v) holds
   initially and is kept by every well-behaved command, by every byte stream on a
   connection and by every HTTP request; in a state with [names_ok] the views /topics,
   /channels (hence the channel list of /lookup) and /debug list valid names only. *)
From Coq Require Import List NArith ZArith Bool Lia String.
From NSQV Require Import model.Judge model.Names model.Lookupd model.LookupSpec model.LookupProto model.LookupNames
  proofs.LookupdBase proofs.LookupProtoProofs proofs.LookupHttpFrame.
Import ListNotations.
Open Scope bool_scope.
Open Scope list_scope.

Local Notation KO := db_names_ok.

Lemma ko_app m m' : KO (m ++ m') = KO m && KO m'.
Proof. apply forallb_app. Qed.

Lemma ko_upd k f m : KO (upd k f m) = KO m.
Proof.
  induction m as [|[k' ps] m IH]; [reflexivity|]. cbn [upd].
  destruct (reg_eqb k' k); cbn; [reflexivity|]. unfold KO in IH. cbn. rewrite IH. reflexivity.
Qed.

Lemma ko_filter (f : reg * list producer -> bool) m : KO m = true -> KO (filter f m) = true.
Proof.
  unfold KO. rewrite !forallb_forall. intros H x Hx. apply filter_In in Hx as [Hx _]. apply H. assumption.
Qed.

Lemma ko_add_registration k m : key_ok k = true -> KO m = true -> KO (add_registration k m) = true.
Proof.
  intros Hk Hm. unfold add_registration. destruct (has_key k m); [assumption|].
  rewrite ko_app, Hm. cbn. rewrite Hk. reflexivity.
Qed.

Lemma ko_add_producer k pr m : key_ok k = true -> KO m = true -> KO (fst (add_producer k pr m)) = true.
Proof.
  intros Hk Hm. unfold add_producer. destruct (get k m) as [ps|].
  - destruct (has_prod (p_id pr) ps); cbn [fst]; [assumption|]. rewrite ko_upd. assumption.
  - cbn [fst]. rewrite ko_app, Hm. cbn. rewrite Hk. reflexivity.
Qed.

Lemma ko_remove_producer k id m : KO m = true -> KO (fst (fst (remove_producer k id m))) = true.
Proof.
  intros Hm. unfold remove_producer. destruct (get k m); cbn [fst]; [rewrite ko_upd|]; assumption.
Qed.

Lemma ko_remove_registration k m : KO m = true -> KO (remove_registration k m) = true.
Proof. apply ko_filter. Qed.

Lemma ko_fold_remove_producer id l : forall m,
  KO m = true -> KO (fold_left (fun m r => fst (fst (remove_producer r id m))) l m) = true.
Proof.
  induction l as [|r l IH]; intros m Hm; [assumption|]. cbn [fold_left]. apply IH, ko_remove_producer, Hm.
Qed.

Lemma ko_remove_all l : forall m, KO m = true -> KO (remove_all l m) = true.
Proof.
  unfold remove_all. induction l as [|r l IH]; intros m Hm; [assumption|]. cbn [fold_left].
  apply IH, ko_remove_registration, Hm.
Qed.

Lemma ko_fold_tombstone t (l : list (reg * producer)) : forall m,
  KO m = true -> KO (fold_left (fun m kp => tombstone_in (fst kp) (p_id (snd kp)) t m) l m) = true.
Proof.
  induction l as [|r l IH]; intros m Hm; [assumption|]. cbn [fold_left]. apply IH.
  unfold tombstone_in. rewrite ko_upd. assumption.
Qed.

(* ---- the operations *)
Lemma names_ok_disconnect s p : names_ok s = true -> names_ok (disconnect s p) = true.
Proof.
  unfold names_ok, disconnect. intros H. destruct (is_node s p); [|assumption]. cbn [db].
  unfold disconnect_db. apply ko_fold_remove_producer. assumption.
Qed.

Lemma check_names_none t c : check_names t c = None ->
  is_valid_name t = true /\ (nonempty c = true -> is_valid_name c = true).
Proof.
  unfold check_names. destruct (is_valid_name t); cbn; [|discriminate].
  destruct (nonempty c); cbn; [|intros _; split; [reflexivity|discriminate]].
  destruct (is_valid_name c); cbn; [intros _; split; reflexivity|discriminate].
Qed.

Lemma names_ok_register s p t c : names_ok s = true -> names_ok (fst (tcp_register s p t c)) = true.
Proof.
  intros H. unfold tcp_register. destruct (negb (is_node s p)); [apply names_ok_disconnect, H|].
  destruct (check_names t c) eqn:E; [apply names_ok_disconnect, H|].
  apply check_names_none in E as [Ht Hc]. unfold names_ok. cbn [fst db].
  apply ko_add_producer; [exact Ht|].
  destruct (nonempty c); [|exact H].
  apply ko_add_producer; [|exact H]. unfold key_ok. cbn. rewrite Ht, (Hc eq_refl). reflexivity.
Qed.

Lemma names_ok_unregister s p t c : names_ok s = true -> names_ok (fst (tcp_unregister s p t c)) = true.
Proof.
  intros H. unfold tcp_unregister. destruct (negb (is_node s p)); [apply names_ok_disconnect, H|].
  destruct (check_names t c) eqn:E; [apply names_ok_disconnect, H|].
  unfold names_ok in *. cbn [fst db].
  destruct (nonempty c).
  - pose proof (ko_remove_producer (chan_key t c) p (db s) H) as H1.
    destruct (remove_producer (chan_key t c) p (db s)) as [[m1 b] nleft]. cbn [fst] in H1.
    destruct (Nat.eqb nleft 0 && has_ephemeral_suffix c); [apply ko_remove_registration|]; exact H1.
  - pose proof (ko_fold_remove_producer p (find_registrations CChannel t star (db s)) (db s) H) as H1.
    pose proof (ko_remove_producer (topic_key t) p _ H1) as H2.
    destruct (remove_producer (topic_key t) p _) as [[m2 b] nleft]. cbn [fst] in H2.
    destruct (Nat.eqb nleft 0 && has_ephemeral_suffix t); [apply ko_remove_registration|]; exact H2.
Qed.

Lemma names_ok_identify s p i : names_ok s = true -> names_ok (fst (tcp_identify s p i)) = true.
Proof.
  intros H. unfold tcp_identify. destruct (is_node s p); [apply names_ok_disconnect, H|].
  destruct (fields_missing i); [apply names_ok_disconnect, H|].
  pose proof (ko_add_producer client_key (mkProd p false 0) (db s) eq_refl H) as H1.
  destruct (add_producer client_key (mkProd p false 0) (db s)) as [m b]. exact H1.
Qed.

Lemma names_ok_create_topic s q : names_ok s = true -> names_ok (fst (h_create_topic s q)) = true.
Proof.
  intros H. unfold h_create_topic. destruct q as [|[t|] c n]; try exact H.
  destruct (is_valid_name t) eqn:E; cbn [negb fst]; [|exact H].
  unfold names_ok, set_db. cbn [db]. apply ko_add_registration; [exact E|exact H].
Qed.

Lemma names_ok_delete_topic s q : names_ok s = true -> names_ok (fst (h_delete_topic s q)) = true.
Proof.
  intros H. unfold h_delete_topic. destruct q as [|[t|] c n]; try exact H.
  destruct (negb (is_valid_name t)); [exact H|]. unfold names_ok, set_db. cbn [fst db].
  apply ko_remove_all, ko_remove_all, H.
Qed.

Lemma topic_channel_args_some ot oc t c : topic_channel_args ot oc = Some (t, c) ->
  is_valid_name t = true /\ is_valid_name c = true.
Proof.
  unfold topic_channel_args. destruct ot as [t'|]; [|discriminate].
  destruct (is_valid_name t') eqn:Et; cbn; [|discriminate]. destruct oc as [c'|]; [|discriminate].
  destruct (is_valid_name c') eqn:Ec; cbn; [|discriminate]. intros X; inversion X; subst. split; assumption.
Qed.

Lemma names_ok_create_channel s q : names_ok s = true -> names_ok (fst (h_create_channel s q)) = true.
Proof.
  intros H. unfold h_create_channel. destruct q as [|ot oc n]; [exact H|].
  destruct (topic_channel_args ot oc) as [[t c]|] eqn:E; [|exact H].
  apply topic_channel_args_some in E as [Ht Hc]. unfold names_ok, set_db. cbn [fst db].
  apply ko_add_registration; [exact Ht|]. apply ko_add_registration; [|exact H].
  unfold key_ok. cbn. rewrite Ht, Hc. reflexivity.
Qed.

Lemma names_ok_delete_channel s q : names_ok s = true -> names_ok (fst (h_delete_channel s q)) = true.
Proof.
  intros H. unfold h_delete_channel. destruct q as [|ot oc n]; [exact H|].
  destruct (topic_channel_args ot oc) as [[t c]|]; [|exact H].
  destruct (find_registrations CChannel t c (db s)) as [|r l] eqn:E; [exact H|].
  unfold names_ok, set_db. cbn [fst db]. apply ko_remove_all, H.
Qed.

Lemma names_ok_tombstone s q : names_ok s = true -> names_ok (fst (h_tombstone s q)) = true.
Proof.
  intros H. unfold h_tombstone. destruct q as [|[t|] c n]; try exact H.
  destruct (negb (is_valid_name t)); [exact H|]. destruct n as [node|]; [|exact H].
  unfold names_ok, set_db. cbn [fst db]. apply ko_fold_tombstone, H.
Qed.

Theorem names_ok_step s o : names_ok s = true -> names_ok (fst (step s o)) = true.
Proof.
  intros H. destruct o; cbn [step].
  - pose proof (names_ok_identify s p i H). destruct (tcp_identify s p i); assumption.
  - pose proof (names_ok_register s p t c H). destruct (tcp_register s p t c); assumption.
  - pose proof (names_ok_unregister s p t c H). destruct (tcp_unregister s p t c); assumption.
  - unfold tcp_ping. cbn [fst]. destruct (is_node s p); exact H.
  - apply names_ok_disconnect, H.
  - pose proof (names_ok_create_topic s q H). destruct (h_create_topic s q); assumption.
  - pose proof (names_ok_delete_topic s q H). destruct (h_delete_topic s q); assumption.
  - pose proof (names_ok_create_channel s q H). destruct (h_create_channel s q); assumption.
  - pose proof (names_ok_delete_channel s q H). destruct (h_delete_channel s q); assumption.
  - pose proof (names_ok_tombstone s q H). destruct (h_tombstone s q); assumption.
  - exact H.
Qed.

Theorem names_ok_run ops : forall s, names_ok s = true -> names_ok (run s ops) = true.
Proof.
  unfold run. induction ops as [|o ops IH]; intros s H; [exact H|]. cbn [fold_left]. apply IH, names_ok_step, H.
Qed.

Theorem names_ok_conn decode s p input s' fs :
  names_ok s = true -> exec_conn decode s p input = Done s' fs -> names_ok s' = true.
Proof.
  intros H E. destruct (conn_is_ops _ _ _ _ _ _ E) as [ops [_ ->]]. apply names_ok_run, H.
Qed.

Theorem names_ok_http s m path q s' st :
  names_ok s = true -> http_exec s m path q = (s', st) -> names_ok s' = true.
Proof.
  intros H E. apply http_exec_handler in E.
  destruct E as [->|[_ [[_ ->]|[[_ ->]|[[_ ->]|[[_ ->]|[_ ->]]]]]]].
  - exact H.
  - apply names_ok_create_topic, H.
  - apply names_ok_delete_topic, H.
  - apply names_ok_create_channel, H.
  - apply names_ok_delete_channel, H.
  - apply names_ok_tombstone, H.
Qed.

(* ---- what the views of such a state list *)
Lemma names_ok_key s k : names_ok s = true -> In k (map fst (db s)) -> key_ok k = true.
Proof.
  unfold names_ok, db_names_ok. rewrite forallb_forall. intros H Hk.
  apply in_map_iff in Hk as [e [<- He]]. apply H, He.
Qed.

Lemma in_find_registrations c key sub m k :
  In k (find_registrations c key sub m) -> In k (map fst m) /\ r_cat k = c.
Proof.
  unfold find_registrations. destruct (need_filter key sub).
  - intros H. apply filter_In in H as [H1 H2]. split; [assumption|].
    unfold is_match in H2. apply andb_true_iff in H2 as [H2 _]. apply andb_true_iff in H2 as [H2 _].
    apply cat_eqb_eq in H2. symmetry. assumption.
  - destruct (has_key (mkReg c key sub) m) eqn:E; [|intros []].
    intros [<-|[]]. split; [apply in_keys_get; assumption|reflexivity].
Qed.

Theorem views_list_valid_names s : names_ok s = true ->
  (forall t, In t (q_topics s) -> is_valid_name t = true) /\
  (forall t c, In c (q_channels s t) -> is_valid_name c = true) /\
  (forall inactive lifetime t chs ps c,
     q_lookup inactive lifetime s t = Some (chs, ps) -> In c chs -> is_valid_name c = true) /\
  (forall k p b, In (k, p, b) (q_debug s) -> key_ok k = true).
Proof.
  intros H.
  assert (Hch : forall t c, In c (q_channels s t) -> is_valid_name c = true).
  { intros t c Hc. unfold q_channels, subkeys in Hc. apply in_map_iff in Hc as [k [<- Hk]].
    apply in_find_registrations in Hk as [Hk Hcat]. pose proof (names_ok_key s k H Hk) as K.
    unfold key_ok in K. rewrite Hcat in K. apply andb_true_iff in K as [_ K]. exact K. }
  repeat split.
  - intros t Ht. unfold q_topics, keys in Ht. apply in_map_iff in Ht as [k [<- Hk]].
    apply in_find_registrations in Hk as [Hk Hcat]. pose proof (names_ok_key s k H Hk) as K.
    unfold key_ok in K. rewrite Hcat in K. exact K.
  - exact Hch.
  - intros inactive lifetime t chs ps c E Hc. unfold q_lookup in E.
    destruct (find_registrations CTopic t [] (db s)); [discriminate|]. inversion E; subst. eapply Hch, Hc.
  - intros k p b Hin. unfold q_debug in Hin. apply in_flat_map in Hin as [e [He Hin]].
    apply in_map_iff in Hin as [pr [Epr _]]. inversion Epr; subst.
    apply (names_ok_key s (fst e) H). apply in_map. exact He.
Qed.

Theorem names_ok_init : names_ok init = true.
Proof. reflexivity. Qed.

(* the names the seeded change C15-m8 let through: 65..74 bytes ending in "#ephemeral" *)
Definition xs (n : nat) : bytes := repeat 120%N n.
Theorem long_ephemeral_names_invalid :
  is_valid_name (xs 54 ++ ephemeral_suffix) = true /\ is_valid_name (xs 55 ++ ephemeral_suffix) = false /\
  is_valid_name (xs 64 ++ ephemeral_suffix) = false /\ is_valid_name (xs 64) = true /\ is_valid_name (xs 65) = false /\
  is_valid_name ephemeral_suffix = false.
Proof. vm_compute. repeat split. Qed.
(* ---- HTTP: an invalid name is refused with 400 by every route that takes one, and nothing changes *)
Theorem http_invalid_topic_refused s path t c n :
  In path ["/topic/create"; "/topic/delete"; "/channel/create"; "/channel/delete"; "/topic/tombstone"]%string ->
  is_valid_name t = false ->
  http_exec s "POST" path (QArgs (Some t) c n) = (s, SCode 400).
Proof.
  intros Hp Ht. cbn in Hp. repeat (destruct Hp as [<-|Hp]; [|]); try contradiction;
    unfold http_exec; cbn [find_route routes String.eqb Ascii.eqb Bool.eqb andb];
    unfold h_create_topic, h_delete_topic, h_create_channel, h_delete_channel, h_tombstone, topic_channel_args;
    rewrite Ht; reflexivity.
Qed.

Theorem http_invalid_channel_refused s path t c n :
  In path ["/channel/create"; "/channel/delete"]%string ->
  is_valid_name c = false ->
  http_exec s "POST" path (QArgs (Some t) (Some c) n) = (s, SCode 400).
Proof.
  intros Hp Hc. cbn in Hp. repeat (destruct Hp as [<-|Hp]; [|]); try contradiction;
    unfold http_exec; cbn [find_route routes String.eqb Ascii.eqb Bool.eqb andb];
    unfold h_create_channel, h_delete_channel, topic_channel_args;
    rewrite Hc; destruct (is_valid_name t); reflexivity.
Qed.
