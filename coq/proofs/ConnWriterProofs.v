(* The shared buffered writer of a client connection (model/ConnWriter.v): when every site
   that uses the writer holds writeLock around its use, then -- for EVERY number of
   goroutines, EVERY program of sends and flushes, EVERY interleaving of their steps and
   EVERY way the transport cuts the writes -- what the transport has been handed, followed
   by what a flush in progress has still to hand over and by what is buffered, is the
   concatenation of whole frames, each goroutine's frames exactly once and in that
   goroutine's order; and no goroutine ever sees a short write.  With the lock missing from
   the timed flush alone, a thirteen-step interleaving puts bytes on the wire twice.  The
   discipline of the Go source is the generated table gen/WriteLock.v. *)
From Coq Require Import List Arith Bool NArith Lia.
From NSQV Require Import model.Judge model.Pool model.ConnWriter proofs.PoolProofs.
Import ListNotations.
Open Scope nat_scope.
Open Scope list_scope.
Notation length := List.length (only parsing).

(* ------------------------------------------------------------------ lists *)
Lemma logged_app : forall t l1 l2, logged t (l1 ++ l2) = logged t l1 ++ logged t l2.
Proof. intros. unfold logged. now rewrite filter_app, map_app. Qed.

Lemma logged_one_same : forall t fr, logged t [(t, fr)] = [fr].
Proof. intros. unfold logged. simpl. now rewrite Nat.eqb_refl. Qed.

Lemma logged_one_other : forall t t' fr, t' <> t -> logged t' [(t, fr)] = [].
Proof.
  intros. unfold logged. simpl. destruct (Nat.eqb_spec t t'); [congruence | reflexivity].
Qed.

Lemma firstn_skipn_split : forall (A : Type) (l : list A) a b,
  firstn b (skipn a l) ++ skipn (a + b) l = skipn a l.
Proof.
  intros A l a. revert l. induction a as [|a IH]; intros l b; simpl.
  - apply firstn_skipn.
  - destruct l as [|x l]; simpl.
    + rewrite firstn_nil. reflexivity.
    + apply IH.
Qed.

Lemma firstn_app_exact : forall (A : Type) (l r : list A), firstn (length l) (l ++ r) = l.
Proof.
  intros. rewrite firstn_app, Nat.sub_diag, firstn_all. simpl. apply app_nil_r.
Qed.

(* ------------------------------------------------------------------ the invariant *)
(* what goroutine t has still to put into the buffer *)
Definition pending (th : wthread) : list bytes :=
  match t_phase th with
  | WFlush _ _ => frames_of (tl (t_jobs th))
  | _ => frames_of (t_jobs th)
  end.

Record winv (progs : nat -> list wjob) (s : wstate) : Prop := mkWInv {
  (* a goroutine past its Lock holds the lock *)
  wi_excl : forall t, t_phase (w_threads s t) <> WStart -> w_lock s = Some t;
  wi_jobs : forall t, t_phase (w_threads s t) <> WStart -> t_jobs (w_threads s t) <> [];
  (* a flush in progress took the whole buffer as it still is *)
  wi_flush : forall t n sent, t_phase (w_threads s t) = WFlush n sent -> n = length (w_buf s) /\ sent <= n;
  wi_stream : w_wire s ++ skipn (sent_of s) (w_buf s) = concat (map snd (w_log s));
  wi_nofail : forall t, t_failed (w_threads s t) = false;
  wi_prog : forall t, frames_of (progs t) = logged t (w_log s) ++ pending (w_threads s t)
}.

Lemma winit_inv : forall progs, winv progs (winit progs).
Proof.
  intros progs. constructor; simpl; auto; intros; try congruence; try discriminate.
Qed.

Section Locked.
Variable locks : nat -> bool.
Hypothesis Hall : forall site, locks site = true.
Variable progs : nat -> list wjob.

Ltac upd_cases t t' :=
  destruct (Nat.eq_dec t' t) as [->|Hne];
  [ rewrite ?upd_same in * | rewrite ?(upd_other _ _ _ _ _ Hne) in * ].

Lemma wstep_inv : forall s t k, winv progs s -> winv progs (wstep locks s t k).
Proof.
  intros s t k Hinv. pose proof Hinv as [Hex Hjobs Hfl Hst Hnf Hpr].
  unfold wstep. cbv zeta.
  destruct (t_jobs (w_threads s t)) as [|j rest] eqn:Ejobs.
  { exact Hinv. }
  rewrite Hall.
  destruct (t_phase (w_threads s t)) as [| |n sent] eqn:Eph.
  - (* Lock *)
    destruct (w_lock s) as [h|] eqn:Elock.
    { exact Hinv. }
    assert (Hnone : forall t', t_phase (w_threads s t') = WStart).
    { intros t'. destruct (t_phase (w_threads s t')) eqn:E; auto;
        assert (X : None = Some t') by (apply Hex; rewrite E; discriminate); discriminate. }
    constructor; simpl.
    + intros t'. upd_cases t t'; simpl; auto; try (intro Hc; exfalso; apply Hc; apply Hnone).
    + intros t'. upd_cases t t'; simpl; auto; try (intros _; congruence).
    + intros t' n sent. upd_cases t t'; simpl; [discriminate | apply Hfl].
    + unfold sent_of in *. simpl. rewrite upd_same. simpl. rewrite Elock in Hst. exact Hst.
    + intros t'. upd_cases t t'; simpl; auto.
    + intros t'. upd_cases t t'; auto.
      rewrite (Hpr t). unfold pending. simpl. rewrite Eph, Ejobs. reflexivity.
  - (* inside, nothing written yet *)
    assert (Hlock : w_lock s = Some t) by (apply Hex; rewrite Eph; discriminate).
    assert (Hothers : forall t', t' <> t -> t_phase (w_threads s t') = WStart).
    { intros t' Hne. destruct (t_phase (w_threads s t')) eqn:E; auto;
        assert (X : Some t = Some t') by (rewrite <- Hlock; apply Hex; rewrite E; discriminate);
        inversion X; congruence. }
    assert (Hsent0 : sent_of s = 0) by (unfold sent_of; rewrite Hlock, Eph; reflexivity).
    rewrite Hsent0 in Hst. simpl in Hst.
    destruct j as [site fr fl | site].
    + (* SendFramedResponse *)
      destruct fl.
      * constructor; simpl.
        -- intros t'. upd_cases t t'; simpl; auto; try (intro Hc; exfalso; apply Hc; apply Hothers; assumption).
        -- intros t'. upd_cases t t'; simpl; auto; try (intros _; congruence).
        -- intros t' n sent. upd_cases t t'; simpl.
           ++ intro H. inversion H; subst. split; [reflexivity | lia].
           ++ intro H. rewrite (Hothers t' Hne) in H. discriminate.
        -- unfold sent_of. simpl. rewrite Hlock, upd_same. simpl.
           rewrite map_app, concat_app. simpl. rewrite app_nil_r.
           rewrite app_assoc, Hst. reflexivity.
        -- intros t'. upd_cases t t'; simpl; auto.
        -- intros t'. rewrite logged_app. upd_cases t t'.
           ++ rewrite logged_one_same. rewrite (Hpr t). unfold pending. simpl.
              rewrite Eph, Ejobs. simpl. rewrite <- app_assoc. reflexivity.
           ++ rewrite (logged_one_other _ _ _ Hne), app_nil_r. apply Hpr.
      * unfold release. rewrite Hall.
        constructor; simpl.
        -- intros t'. upd_cases t t'; simpl; try congruence; auto; try (intro Hc; exfalso; apply Hc; apply Hothers; assumption).
        -- intros t'. upd_cases t t'; simpl; try congruence; auto.
        -- intros t' n sent. upd_cases t t'; simpl; [discriminate|].
           intro H. rewrite (Hothers t' Hne) in H. discriminate.
        -- unfold sent_of. simpl.
           rewrite map_app, concat_app. simpl. rewrite app_nil_r.
           rewrite app_assoc, Hst. reflexivity.
        -- intros t'. upd_cases t t'; simpl; auto.
        -- intros t'. rewrite logged_app. upd_cases t t'.
           ++ rewrite logged_one_same. rewrite (Hpr t). unfold pending. simpl.
              rewrite Eph, Ejobs. simpl. rewrite <- app_assoc. reflexivity.
           ++ rewrite (logged_one_other _ _ _ Hne), app_nil_r. apply Hpr.
    + (* Flush begins *)
      constructor; simpl.
      * intros t'. upd_cases t t'; simpl; auto; try (intro Hc; exfalso; apply Hc; apply Hothers; assumption).
      * intros t'. upd_cases t t'; simpl; auto; try (intros _; congruence).
      * intros t' n sent. upd_cases t t'; simpl.
        -- intro H. inversion H; subst. split; [reflexivity | lia].
        -- intro H. rewrite (Hothers t' Hne) in H. discriminate.
      * unfold sent_of. simpl. rewrite Hlock, upd_same. simpl. exact Hst.
      * intros t'. upd_cases t t'; simpl; auto.
      * intros t'. upd_cases t t'; auto.
        rewrite (Hpr t). unfold pending. simpl. rewrite Eph, Ejobs. reflexivity.
  - (* inside Flush *)
    assert (Hlock : w_lock s = Some t) by (apply Hex; rewrite Eph; discriminate).
    assert (Hothers : forall t', t' <> t -> t_phase (w_threads s t') = WStart).
    { intros t' Hne. destruct (t_phase (w_threads s t')) eqn:E; auto;
        assert (X : Some t = Some t') by (rewrite <- Hlock; apply Hex; rewrite E; discriminate);
        inversion X; congruence. }
    assert (Hsent : sent_of s = sent) by (unfold sent_of; rewrite Hlock, Eph; reflexivity).
    rewrite Hsent in Hst. clear Hsent.
    destruct (Hfl t n sent Eph) as [Hn Hle].
    destruct (Nat.ltb_spec sent n) as [Hlt|Hge].
    + (* the transport takes another piece *)
      set (len := Nat.min (S k) (n - sent)).
      assert (Hlen : sent + len <= n) by (unfold len; lia).
      constructor; simpl.
      * intros t'. upd_cases t t'; simpl; auto; try (intro Hc; exfalso; apply Hc; apply Hothers; assumption).
      * intros t'. upd_cases t t'; simpl; auto; try (intros _; congruence).
      * intros t' n' sent'. upd_cases t t'; simpl.
        -- intro H. inversion H; subst. split; [reflexivity | assumption].
        -- intro H. rewrite (Hothers t' Hne) in H. discriminate.
      * unfold sent_of. simpl. rewrite Hlock, upd_same. simpl.
        rewrite Hn at 1. rewrite firstn_app_exact.
        rewrite <- app_assoc. rewrite firstn_skipn_split. exact Hst.
      * intros t'. upd_cases t t'; simpl; auto.
      * intros t'. upd_cases t t'; auto.
        rewrite (Hpr t). unfold pending. simpl. rewrite Eph, Ejobs. reflexivity.
    + (* Flush returns *)
      assert (Esn : sent = n) by lia. subst sent.
      assert (Hshort : Nat.ltb n (length (w_buf s)) = false) by (apply Nat.ltb_ge; lia).
      rewrite Hshort. unfold release. rewrite Hall.
      constructor; simpl.
      * intros t'. upd_cases t t'; simpl; try congruence; auto; try (intro Hc; exfalso; apply Hc; apply Hothers; assumption).
      * intros t'. upd_cases t t'; simpl; try congruence; auto.
      * intros t' n' sent'. upd_cases t t'; simpl; [discriminate|].
        intro H. rewrite (Hothers t' Hne) in H. discriminate.
      * unfold sent_of. simpl. exact Hst.
      * intros t'. upd_cases t t'; simpl; auto.
      * intros t'. upd_cases t t'; auto.
        rewrite (Hpr t). unfold pending. simpl. rewrite Eph, Ejobs. reflexivity.
Qed.

Lemma wrun_inv : forall sched s, winv progs s -> winv progs (wrun locks s sched).
Proof.
  induction sched as [|[t k] sched IH]; intros s H; simpl; auto.
  apply IH. apply wstep_inv. exact H.
Qed.

End Locked.

Theorem ConnWriter_serialised : forall (locks : nat -> bool) (progs : nat -> list wjob) (sched : list (nat * nat)),
  (forall site, locks site = true) ->
  let s := wrun locks (winit progs) sched in
  w_wire s ++ skipn (sent_of s) (w_buf s) = concat (map snd (w_log s)) /\
  (forall t, exists k, logged t (w_log s) = firstn k (frames_of (progs t))) /\
  (forall t, t_jobs (w_threads s t) = [] -> logged t (w_log s) = frames_of (progs t)) /\
  (forall t, t_failed (w_threads s t) = false) /\
  (w_lock s = None -> w_buf s = [] -> w_wire s = concat (map snd (w_log s))).
Proof.
  intros locks progs sched Hall s.
  assert (Hinv : winv progs s) by (apply wrun_inv; [exact Hall | apply winit_inv]).
  destruct Hinv as [Hex Hjobs Hfl Hst Hnf Hpr].
  repeat split.
  - exact Hst.
  - intros t. exists (length (logged t (w_log s))). rewrite (Hpr t). now rewrite firstn_app_exact.
  - intros t Hdone. rewrite (Hpr t). unfold pending.
    destruct (t_phase (w_threads s t)) eqn:E.
    + rewrite Hdone. simpl. now rewrite app_nil_r.
    + exfalso. apply (Hjobs t); [rewrite E; discriminate | exact Hdone].
    + exfalso. apply (Hjobs t); [rewrite E; discriminate | exact Hdone].
  - exact Hnf.
  - intros Hl Hb. unfold sent_of in Hst. rewrite Hl, Hb in Hst. simpl in Hst.
    now rewrite app_nil_r in Hst.
Qed.

(* ------------------------------------------------------------------ examples *)
(* goroutine 0 = the pump: one message frame left in the buffer, then the timed flush;
   goroutine 1 = the IOLoop: the response to a command of the same connection *)
Definition ex_wmsg_frame : bytes := [0; 0; 0; 7; 0; 0; 0; 2; 77; 83; 71]%N.
Definition ex_wok_frame : bytes := [0; 0; 0; 6; 0; 0; 0; 0; 79; 75]%N.
Definition ex_wprogs (t : nat) : list wjob :=
  match t with
  | 0 => [JSend site_send ex_wmsg_frame false; JFlush site_flush_timed]
  | 1 => [JSend site_send ex_wok_frame true]
  | _ => []
  end.

(* the pump's flush has handed over 4 bytes when the IOLoop wants to answer: it waits for
   the lock (its two attempts are no-ops), then its frame follows the message frame *)
Definition ex_wsched : list (nat * nat) :=
  [(0, 0); (0, 0); (0, 0); (0, 0); (0, 3); (1, 0); (1, 0); (0, 99); (0, 0); (1, 0); (1, 0); (1, 99); (1, 0)].

Lemma ConnWriter_example_locked :
  let s := wrun (fun _ => true) (winit ex_wprogs) ex_wsched in
  w_wire s = ex_wmsg_frame ++ ex_wok_frame /\ w_buf s = [] /\ w_lock s = None /\
  t_jobs (w_threads s 0) = [] /\ t_jobs (w_threads s 1) = [] /\
  w_log s = [(0, ex_wmsg_frame); (1, ex_wok_frame)].
Proof. vm_compute. repeat split; reflexivity. Qed.

(* the same programs and the same schedule with the lock missing from the timed flush
   only: the IOLoop appends its frame behind the message frame while the pump's flush is
   under way and flushes the buffer itself *)
Definition locks_but_timed (site : nat) : bool := negb (Nat.eqb site site_flush_timed).

Lemma ConnWriter_timed_flush_unlocked_refuted :
  exists progs sched,
    let s := wrun locks_but_timed (winit progs) sched in
    (forall t, t_jobs (w_threads s t) = []) /\ w_buf s = [] /\ w_lock s = None /\
    w_wire s <> concat (map snd (w_log s)) /\
    length (w_wire s) > length (concat (map snd (w_log s))) /\
    t_failed (w_threads s 0) = true.
Proof.
  exists ex_wprogs, ex_wsched. cbv zeta.
  split; [|split; [|split; [|split; [|split]]]].
  - intros [|[|t]]; vm_compute; reflexivity.
  - vm_compute. reflexivity.
  - vm_compute. reflexivity.
  - intro H. apply (f_equal (@List.length N)) in H. vm_compute in H. discriminate.
  - vm_compute. lia.
  - vm_compute. reflexivity.
Qed.
