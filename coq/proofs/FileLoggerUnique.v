(* "In exactly one file": the ghost message tags written by the logger stay pairwise
   distinct across all files (and the open gzip member) at every event boundary, provided
   the delivered message ids are distinct, the pre-existing files have distinct names and
   carry no tags.  (Inside Close the link/unlink hand-off holds the content under two names
   for one instant; that is why this is stated at event boundaries.  For the same reason
   the fault schedule must not fail an unlink(2) of the hand-off: link(2) succeeded, the
   work-dir name could not be removed, the logger exits, and the file keeps its two names
   -- see [two_names_after_failed_unlink] in props/C19.v.) *)
From Coq Require Import List ZArith NArith Bool Lia Permutation.
From NSQV Require Import model.Judge model.FileOS model.FileLogger proofs.FileOSProofs proofs.FileLoggerProofs.
Import ListNotations.
Open Scope bool_scope.

Definition tags (cs : list chunk) : list N :=
  flat_map (fun c => match fst c with Some i => [i] | None => [] end) cs.
Definition fs_tags (fs : fsT) : list N := flat_map (fun kf => tags (content (snd kf))) fs.
Definition keys (fs : fsT) : list key := map fst fs.
Definition alltags (s : st) : list N := fs_tags (fs s) ++ tags (gzbuf s).

Lemma tags_app : forall a b, tags (a ++ b) = tags a ++ tags b.
Proof. intros. unfold tags. apply flat_map_app. Qed.

Lemma lookup_none_keys : forall fs k, lookup fs k = None <-> ~ In k (keys fs).
Proof.
  induction fs as [|[k0 f0] r IH]; intros k; simpl.
  - split; auto.
  - destruct (key_eqb k k0) eqn:E.
    + apply key_eqb_eq in E. subst. split; [discriminate | intro H; exfalso; apply H; auto].
    + rewrite IH. split.
      * intros H [H1 | H1]; auto. subst. rewrite key_eqb_refl in E. discriminate.
      * intros H H1. apply H. auto.
Qed.

Lemma lookup_some_split : forall fs k f, lookup fs k = Some f ->
  exists l1 l2, fs = l1 ++ (k, f) :: l2 /\ lookup l1 k = None.
Proof.
  induction fs as [|[k0 f0] r IH]; intros k f H; simpl in H; try discriminate.
  destruct (key_eqb k k0) eqn:E.
  - apply key_eqb_eq in E. subst. inversion H; subst. exists [], r. auto.
  - destruct (IH _ _ H) as [l1 [l2 [E1 E2]]]. exists ((k0, f0) :: l1), l2. subst. split; auto.
    simpl. rewrite E. exact E2.
Qed.

Lemma update_absent : forall fs k f, lookup fs k = None -> update fs k f = fs ++ [(k, f)].
Proof.
  induction fs as [|[k0 f0] r IH]; intros k f H; simpl in *; auto.
  destruct (key_eqb k k0); try discriminate. rewrite IH; auto.
Qed.

Lemma update_present : forall l1 l2 k f0 f, lookup l1 k = None ->
  update (l1 ++ (k, f0) :: l2) k f = l1 ++ (k, f) :: l2.
Proof.
  induction l1 as [|[k0 g] r IH]; intros l2 k f0 f H; simpl in *.
  - rewrite key_eqb_refl. reflexivity.
  - destruct (key_eqb k k0); try discriminate. rewrite IH; auto.
Qed.

Lemma remove_absent : forall fs k, ~ In k (keys fs) -> remove fs k = fs.
Proof.
  induction fs as [|[k0 f0] r IH]; intros k H; simpl in *; auto.
  rewrite key_eqb_neq; [|intro; subst; apply H; auto]. rewrite IH; auto.
Qed.

Lemma remove_present : forall l1 l2 k f0, NoDup (keys (l1 ++ (k, f0) :: l2)) ->
  remove (l1 ++ (k, f0) :: l2) k = l1 ++ l2.
Proof.
  induction l1 as [|[k0 g] r IH]; intros l2 k f0 H; simpl in *.
  - rewrite key_eqb_refl. inversion H; subst. apply remove_absent. exact H2.
  - inversion H; subst. rewrite key_eqb_neq.
    + rewrite IH; auto.
    + intro; subst. apply H2. unfold keys. rewrite map_app. apply in_or_app. right. left. reflexivity.
Qed.

Lemma fs_tags_app : forall a b, fs_tags (a ++ b) = fs_tags a ++ fs_tags b.
Proof. intros. unfold fs_tags. apply flat_map_app. Qed.

Lemma NoDup_app_l : forall (A : Type) (a b : list A), NoDup (a ++ b) -> NoDup a.
Proof.
  induction a as [|x a IH]; intros b H; simpl in *. constructor.
  inversion H; subst. constructor. intro Hx. apply H2. apply in_or_app. auto. eapply IH; eauto.
Qed.

Lemma fs_tags_cons : forall k f r, fs_tags ((k, f) :: r) = tags (content f) ++ fs_tags r.
Proof. reflexivity. Qed.

(* ---------- the invariant ---------- *)
Definition TI (X : list N) (s : st) : Prop :=
  NoDup (keys (fs s)) /\ NoDup (alltags s) /\ incl (alltags s) X.

Lemma TI_weaken : forall X Y s, incl X Y -> TI X s -> TI Y s.
Proof. intros X Y s H [A [B C]]. split; auto. split; auto. eapply incl_tran; eauto. Qed.

(* s' holds a sub-multiset of the tags of s *)
Lemma TI_sub : forall X s s' l, NoDup (keys (fs s')) -> Permutation (alltags s) (alltags s' ++ l) ->
  TI X s -> TI X s'.
Proof.
  intros X s s' l K P [A [B C]]. split; auto. split.
  - apply (Permutation_NoDup P) in B. apply NoDup_app_l in B. exact B.
  - intros x Hx. apply C. apply (Permutation_in _ (Permutation_sym P)). apply in_or_app. auto.
Qed.

Lemma TI_same_fs : forall X s s', fs s' = fs s -> gzbuf s' = gzbuf s -> TI X s -> TI X s'.
Proof. intros X s s' H1 H2 H. unfold TI, alltags in *. rewrite H1, H2. exact H. Qed.

(* ---------- file-system level ---------- *)
Lemma append_vol_tags : forall fs k cs, NoDup (keys fs) ->
  NoDup (keys (append_vol fs k cs)) /\
  exists l, Permutation (fs_tags fs ++ tags cs) (fs_tags (append_vol fs k cs) ++ l) /\
            (lookup fs k <> None -> l = []).
Proof.
  intros fs k cs K. unfold append_vol. destruct (lookup fs k) as [f|] eqn:L.
  - destruct (lookup_some_split _ _ _ L) as [l1 [l2 [E N]]]. subst fs. rewrite update_present; auto.
    split.
    + unfold keys in *. rewrite map_app in *. simpl in *. exact K.
    + exists []. split; [|auto]. rewrite app_nil_r, !fs_tags_app. simpl.
      unfold content. simpl. rewrite !tags_app. repeat rewrite <- app_assoc.
      do 3 apply Permutation_app_head. apply Permutation_app_comm.
  - split; auto. exists (tags cs). split; auto. intro H. contradiction.
Qed.

Lemma create_tags : forall fs k, NoDup (keys fs) ->
  let fs' := match lookup fs k with Some _ => fs | None => update fs k (mkFile [] []) end in
  NoDup (keys fs') /\ fs_tags fs' = fs_tags fs.
Proof.
  intros fs k K. destruct (lookup fs k) eqn:L; simpl; auto.
  rewrite update_absent; auto. split.
  - unfold keys. rewrite map_app. simpl.
    apply (Permutation_NoDup (Permutation_cons_append (map fst fs) k)). constructor; auto.
    apply lookup_none_keys. exact L.
  - rewrite fs_tags_app. simpl. rewrite app_nil_r. reflexivity.
Qed.

Lemma fsync_tags : forall fs k, NoDup (keys fs) ->
  NoDup (keys (apply_op fs (OFsync k))) /\ fs_tags (apply_op fs (OFsync k)) = fs_tags fs.
Proof.
  intros fs k K. simpl. destruct (lookup fs k) as [f|] eqn:L; auto.
  destruct (lookup_some_split _ _ _ L) as [l1 [l2 [E N]]]. subst fs. rewrite update_present; auto.
  split.
  - unfold keys in *. rewrite map_app in *. exact K.
  - rewrite !fs_tags_app. simpl. unfold content. simpl. rewrite app_nil_r. reflexivity.
Qed.

(* link src -> dst (dst absent), then unlink src: same tags, distinct names *)
Lemma rename_tags : forall fs src dst f, NoDup (keys fs) -> src <> dst ->
  lookup fs src = Some f -> lookup fs dst = None ->
  let fs' := apply_op (apply_op fs (OLink src dst true)) (OUnlink src) in
  NoDup (keys fs') /\ Permutation (fs_tags fs) (fs_tags fs').
Proof.
  intros fs src dst f K Hne Hs Hd. simpl. rewrite Hs, Hd. rewrite update_absent; auto.
  destruct (lookup_some_split _ _ _ Hs) as [l1 [l2 [E N]]]. subst fs.
  assert (K1 : NoDup (keys ((l1 ++ (src, f) :: l2) ++ [(dst, f)]))).
  { unfold keys. rewrite map_app. simpl.
    apply (Permutation_NoDup (Permutation_cons_append _ dst)). constructor; auto.
    apply lookup_none_keys. exact Hd. }
  rewrite <- app_assoc in *. simpl in *. rewrite remove_present; auto. split.
  - unfold keys in *. rewrite map_app in *. simpl in *. apply NoDup_remove_1 in K1. exact K1.
  - rewrite !fs_tags_app, !fs_tags_cons. unfold fs_tags at 4. simpl. rewrite app_nil_r.
    apply Permutation_app_head. apply Permutation_app_comm.
Qed.

(* ---------- emit-level ---------- *)
Lemma TI_emit_neutral : forall X s o, apply_op (fs s) o = fs s -> TI X s -> TI X (emit s o).
Proof. intros X s o H T. apply TI_same_fs with (s := s); auto. Qed.

Lemma TI_emit_create : forall X s k e a, TI X s -> TI X (emit s (OCreate k e a false true)).
Proof.
  intros X s k e a [A [B C]]. destruct (create_tags (fs s) k A) as [K T].
  unfold TI, alltags. simpl. destruct (lookup (fs s) k); simpl in *; rewrite ?T; auto.
Qed.

Lemma TI_emit_fsync : forall X s k, TI X s -> TI X (emit s (OFsync k)).
Proof.
  intros X s k [A [B C]]. destruct (fsync_tags (fs s) k A) as [K T].
  split; [exact K|]. unfold alltags.
  change (fs (emit s (OFsync k))) with (apply_op (fs s) (OFsync k)).
  change (gzbuf (emit s (OFsync k))) with (gzbuf s). rewrite T. auto.
Qed.

Lemma TI_emit_write_untagged : forall X s k b, TI X s -> TI X (emit s (OWrite k (None, b))).
Proof.
  intros X s k b T. destruct T as [A [B C]].
  destruct (append_vol_tags (fs s) k [(None, b)] A) as [K [l [P _]]].
  apply TI_sub with (s := s) (l := l); auto; [| split; auto].
  unfold alltags. simpl fs. simpl gzbuf. simpl in P. rewrite app_nil_r in P.
  eapply perm_trans; [apply Permutation_app_tail; exact P|].
  repeat rewrite <- app_assoc. apply Permutation_app_head. apply Permutation_app_comm.
Qed.

Lemma TI_emit_write_tagged : forall X s k i b, TI X s -> ~ In i X ->
  TI (i :: X) (emit s (OWrite k (Some i, b))).
Proof.
  intros X s k i b [A [B C]] Hi.
  destruct (append_vol_tags (fs s) k [(Some i, b)] A) as [K [l [P _]]]. simpl in P.
  assert (B1 : NoDup (i :: alltags s)) by (constructor; auto).
  assert (P1 : Permutation (i :: alltags s) ((fs_tags (append_vol (fs s) k [(Some i, b)]) ++ tags (gzbuf s)) ++ l)).
  { unfold alltags. eapply perm_trans; [apply Permutation_cons_append|].
    rewrite <- app_assoc. eapply perm_trans; [apply Permutation_app_head; apply Permutation_app_comm|].
    rewrite app_assoc. eapply perm_trans; [apply Permutation_app_tail; exact P|].
    repeat rewrite <- app_assoc. apply Permutation_app_head. apply Permutation_app_comm. }
  split; [exact K|]. split.
  - apply (Permutation_NoDup P1) in B1. apply NoDup_app_l in B1. exact B1.
  - intros x Hx. assert (In x (i :: alltags s)).
    { apply (Permutation_in _ (Permutation_sym P1)). apply in_or_app. left. exact Hx. }
    destruct H as [<- | H]; [left; reflexivity | right; apply C; exact H].
Qed.

Lemma TI_gz_close : forall X s k, TI X s -> TI X (gz_close s k).
Proof.
  intros X s k [A [B C]]. destruct (append_vol_tags (fs s) k (gzbuf s) A) as [K [l [P _]]].
  apply TI_sub with (s := s) (l := l); [exact K | | split; auto].
  unfold alltags, gz_close. simpl. rewrite app_nil_r. exact P.
Qed.

Lemma TI_rename : forall X s src dst f, TI X s -> src <> dst ->
  lookup (fs s) src = Some f -> lookup (fs s) dst = None ->
  TI X (emit (emit s (OLink src dst true)) (OUnlink src)).
Proof.
  intros X s src dst f [A [B C]] Hne Hs Hd. destruct (rename_tags (fs s) src dst f A Hne Hs Hd) as [K P].
  apply TI_sub with (s := s) (l := []); [exact K | | split; auto].
  rewrite app_nil_r. unfold alltags. simpl gzbuf. apply Permutation_app_tail. exact P.
Qed.

(* ---------- logger functions ---------- *)
Section Unique.
Variable c : cfg.
Variable fs0 : fsT.
Notation Inv := (Inv c fs0).
Hypothesis no_unlink_fault : forall n, fault_at c FUnlink n = false.

Lemma TI_fail_at : forall X s w k, TI X s -> TI X (fail_at s w k).
Proof. intros X s w k T. exact T. Qed.

Lemma TI_bump : forall X s w, TI X s -> TI X (bump s w).
Proof. intros X s w T. exact T. Qed.

Lemma TI_fatal : forall X s, TI X s -> TI X (fatal s).
Proof. intros X s T. unfold fatal. apply TI_same_fs with (s := s); auto. Qed.

Lemma TI_flush : forall X s k, TI X s -> TI X (flush c s k).
Proof.
  intros X s k T. unfold flush.
  set (s1 := if gzip c then (if faulty c s FGzClose then fail_at s FGzClose k else gz_close (bump s FGzClose) k) else s).
  assert (T1 : TI X s1).
  { unfold s1. destruct (gzip c); auto. destruct (faulty c s FGzClose); auto.
    apply TI_gz_close. exact T. }
  cbv zeta. destruct (negb (running s1)); auto.
  destruct (faulty c s1 FFsync); auto.
  apply TI_emit_fsync. exact T1.
Qed.

Lemma TI_sync_file : forall X s, TI X s -> TI X (sync_file c s).
Proof.
  intros X s T. unfold sync_file. destruct (out s); try (apply TI_fatal; exact T).
  apply TI_flush. exact T.
Qed.

Lemma TI_fin_fold : forall X l s, TI X s -> TI X (fold_left (fun a m => emit a (OFin m)) l s).
Proof.
  intros X. induction l as [|m l IH]; intros s T; simpl.
  - exact T.
  - apply IH. apply TI_emit_neutral; [reflexivity | exact T].
Qed.

Lemma TI_do_sync : forall X s, TI X s -> TI X (do_sync c s).
Proof.
  intros X s T. unfold do_sync. destruct (pending s); auto.
  destruct (running (sync_file c s)).
  - unfold fin_all. eapply TI_same_fs; [| |apply TI_fin_fold; apply TI_sync_file; exact T]; reflexivity.
  - apply TI_sync_file. exact T.
Qed.

Lemma TI_link_eexist : forall X s src dst, TI X s ->
  TI X (link_eexist c s src dst) /\ fs (link_eexist c s src dst) = fs s.
Proof.
  intros X s src dst T. unfold link_eexist. destruct (faulty c s FLink); split; auto.
Qed.

Lemma TI_move : forall X s src dst f, TI X s -> src <> dst ->
  lookup (fs s) src = Some f -> lookup (fs s) dst = None -> TI X (move c s src dst).
Proof.
  intros X s src dst f T Hne Hs Hd. unfold move. destruct (faulty c s FLink); auto.
  cbv zeta. unfold faulty at 1. rewrite no_unlink_fault.
  eapply TI_same_fs; [| |eapply TI_rename with (s := s) (f := f); eauto]; reflexivity.
Qed.

Lemma TI_close_bump : forall X fuel s src i f, TI X s -> fst src = DWork ->
  lookup (fs s) src = Some f -> TI X (close_bump fuel c s src i).
Proof.
  intros X. induction fuel as [|n IH]; intros s src i f T Hw Hs; simpl.
  - exact T.
  - destruct (exists_ (fs s) (DOut, with_rev (filename s) i)) eqn:Ex.
    + destruct (TI_link_eexist X s src (DOut, with_rev (filename s) i) T) as [T1 Hfs].
      destruct (running (link_eexist c s src (DOut, with_rev (filename s) i))); auto.
      apply IH with (f := f); auto. rewrite Hfs. exact Hs.
    + eapply TI_same_fs; [| |eapply TI_move with (f := f); eauto]; try reflexivity.
      * intro H. subst src. simpl in Hw. discriminate.
      * apply exists_false. exact Ex.
Qed.

Lemma TI_close_file : forall X s, Inv s -> TI X s -> TI X (close_file c s).
Proof.
  intros X s HI T. unfold close_file. destruct (out s) as [|k|k] eqn:Ho; auto.
  destruct (flush_inv c fs0 s k HI Ho) as [A B]. pose proof (TI_flush X s k T) as T1.
  cbv zeta. set (s1 := flush c s k) in *.
  destruct (running s1) eqn:R1; cbn [negb]; auto.
  destruct (B eq_refl) as [_ [Hk _]].
  destruct (faulty c s1 FClose); auto.
  destruct A as [_ [_ He]]. destruct (He k Hk) as [[f Hf] Hd].
  set (s2 := set_out (emit (bump s1 FClose) (OClose k)) (HStale k)).
  assert (T2 : TI X s2) by exact T1.
  destruct (use_work c) eqn:UW.
  + unfold wdir in Hd. rewrite UW in Hd.
    destruct (exists_ (fs s2) (DOut, snd k)) eqn:Ex.
    * destruct (TI_link_eexist X s2 k (DOut, snd k) T2) as [T3 Hfs].
      destruct (running (link_eexist c s2 k (DOut, snd k))); auto.
      eapply TI_close_bump with (f := f); eauto. rewrite Hfs. exact Hf.
    * eapply TI_move with (f := f); eauto.
      -- intro H. rewrite H in Hd. simpl in Hd. discriminate.
      -- apply exists_false. exact Ex.
  + exact T2.
Qed.

Lemma TI_open_loop : forall X fuel s, TI X s -> tags (gzbuf s) = [] \/ True -> TI X (open_loop fuel c s).
Proof.
  intros X. induction fuel as [|n IH]; intros s T _; cbn [open_loop].
  - exact T.
  - destruct (use_work c && exists_ (fs s) (DOut, with_rev (filename s) (rev_ s))).
    + apply IH; auto.
    + set (k := (wdir c, with_rev (filename s) (rev_ s))).
      destruct (faulty c s FOpen); auto.
      set (sb := bump s FOpen).
      destruct (excl_mode c && exists_ (fs s) k).
      * apply IH; auto.
      * set (o := OCreate k (excl_mode c) (negb (excl_mode c)) false true).
        assert (T1 : TI X (emit sb o)) by (apply TI_emit_create; exact T).
        (* the new gzip writer starts empty: tags of the old buffer are dropped *)
        assert (T2 : forall sz, TI X (set_size (set_gzbuf (set_out (emit sb o) (HOpen k)) []) sz)).
        { intro sz. destruct T1 as [A [B C]]. split; [exact A|]. unfold alltags in *. simpl gzbuf. simpl tags.
          rewrite app_nil_r. split.
          - apply NoDup_app_l in B. exact B.
          - intros x Hx. apply C. apply in_or_app. left. exact Hx. }
        match goal with |- TI X (if ?b then _ else _) => destruct b end.
        -- apply IH; auto. apply (T2 0%Z).
        -- apply T2.
Qed.

Lemma TI_update_file : forall X s t, Inv s -> TI X s -> TI X (update_file c s t).
Proof.
  intros X s t HI T. unfold update_file.
  pose proof (TI_close_file X s HI T) as T1.
  destruct (running (close_file c s)); auto.
  apply TI_open_loop; auto.
Qed.

Lemma TI_tail : forall X s a b e, Inv s -> TI X s -> TI X (tail_ c s a b e).
Proof.
  intros X s a b e HI T. unfold tail_.
  set (s1 := if a then do_sync c s else s).
  assert (H1 : Inv s1) by (unfold s1; destruct a; auto; apply do_sync_inv; auto).
  assert (T1 : TI X s1) by (unfold s1; destruct a; auto; apply TI_do_sync; auto).
  destruct (running s1); auto.
  set (s2 := if b then close_file c s1 else s1).
  assert (T2 : TI X s2) by (unfold s2; destruct b; auto; apply TI_close_file; auto).
  destruct (running s2); auto. destruct e; auto.
Qed.

Lemma TI_write_msg : forall X s m, TI X s -> ~ In (fst m) X -> TI (fst m :: X) (write_msg c s m).
Proof.
  intros X s m T Hi. unfold write_msg. destruct (out s) as [|k|k].
  - apply TI_weaken with (X := X); [intros x Hx; right; exact Hx | apply TI_fatal; exact T].
  - destruct (faulty c s FWrite).
    { apply TI_weaken with (X := X); [intros x Hx; right; exact Hx |].
      apply TI_fail_at. destruct (gzip c); auto. apply TI_emit_write_untagged. exact T. }
    cbv zeta.
    eapply TI_same_fs with (s := if gzip c then set_gzbuf s (gzbuf s ++ [line m]) else emit s (OWrite k (line m)));
      try (destruct (gzip c); reflexivity).
    destruct (gzip c).
    + destruct T as [A [B C]]. split; [exact A|]. unfold alltags in *. simpl gzbuf. simpl fs.
      rewrite tags_app. simpl. rewrite app_assoc.
      assert (P : Permutation (fst m :: (fs_tags (fs s) ++ tags (gzbuf s))) ((fs_tags (fs s) ++ tags (gzbuf s)) ++ [fst m]))
        by apply Permutation_cons_append.
      split.
      * apply (Permutation_NoDup P). constructor; auto.
      * intros x Hx. apply (Permutation_in _ (Permutation_sym P)) in Hx.
        destruct Hx as [<- | Hx]; [left; reflexivity | right; apply C; exact Hx].
    + destruct m as [i b]. apply TI_emit_write_tagged; auto.
  - apply TI_weaken with (X := X); [intros x Hx; right; exact Hx | apply TI_fatal; exact T].
Qed.

Definition ev_id (e : event) : list N := match e with Msg m _ _ => [fst m] | _ => [] end.

Lemma TI_step : forall X s e, Inv s -> TI X s -> (forall i, In i (ev_id e) -> ~ In i X) ->
  TI (ev_id e ++ X) (step c s e).
Proof.
  intros X s e HI T Hfresh. unfold step.
  destruct e as [m t starved | t | | | | k b]; simpl ev_id; simpl app.
  - assert (Hi : ~ In (fst m) X) by (apply Hfresh; left; reflexivity).
    assert (W : forall s', TI X s' -> TI (fst m :: X) s') by (intros s' T'; eapply TI_weaken; [|exact T']; intros x Hx; right; exact Hx).
    destruct (running s) eqn:R; simpl; auto.
    set (s1 := if needs_rotation c s t then update_file c s t else s).
    assert (H1 : Inv s1) by (unfold s1; destruct (needs_rotation c s t); auto; apply update_file_inv; auto).
    assert (T1 : TI X s1) by (unfold s1; destruct (needs_rotation c s t); auto; apply TI_update_file; auto).
    destruct (running s1) eqn:R1; simpl; auto.
    assert (H2 : Inv (write_msg c s1 m)) by (apply write_msg_inv; auto).
    assert (T2 : TI (fst m :: X) (write_msg c s1 m)) by (apply TI_write_msg; auto).
    destruct (running (write_msg c s1 m)) eqn:R2; simpl; auto.
    destruct (Nat.leb (max_in_flight c) (length (pending (write_msg c s1 m)))); auto.
    apply TI_tail.
    + destruct H2 as [Wd [HJ He]]. split; [exact Wd|]. split; [|exact He].
      intros x Hx. simpl in Hx. apply in_app_or in Hx. destruct Hx as [Hx | [<- | []]].
      * destruct (HJ x Hx) as [Hc | Hr]; [left; exact Hc | right; exact Hr].
      * pose proof (write_msg_new c fs0 s1 m H1 R1 R2) as Hn.
        destruct Hn as [Hc | Hr]; [left; exact Hc | right; exact Hr].
    + eapply TI_same_fs; [| |exact T2]; reflexivity.
  - destruct (running s) eqn:R; simpl; auto.
    destruct (needs_rotation c s t).
    + destruct (skip_empty c). apply TI_tail; auto.
      pose proof (update_file_inv c fs0 s t HI) as H1. pose proof (TI_update_file X s t HI T) as T1.
      destruct (running (update_file c s t)); auto. apply TI_tail; auto.
    + apply TI_tail; auto.
  - destruct (running s); simpl; auto. apply TI_tail; auto.
  - destruct (running s); simpl; auto. apply TI_tail; auto.
  - destruct (running s); simpl; auto. apply TI_tail; auto.
  - unfold external. destruct (exists_ (fs s) k).
    + apply TI_emit_neutral; auto.
    + apply TI_emit_fsync. apply TI_emit_write_untagged. apply TI_emit_create. exact T.
Qed.

Lemma TI_fold : forall es X s, Inv s -> TI X s ->
  NoDup (flat_map ev_id es) -> (forall i, In i (flat_map ev_id es) -> ~ In i X) ->
  exists Y, TI Y (fold_left (step c) es s).
Proof.
  induction es as [|e es IH]; intros X s HI T ND Hf; simpl.
  - exists X. exact T.
  - simpl in ND, Hf.
    apply IH with (X := ev_id e ++ X).
    + apply step_inv. exact HI.
    + apply TI_step; auto. intros i Hi. apply Hf. apply in_or_app. left. exact Hi.
    + clear -ND. induction (ev_id e) as [|a l IHl]; simpl in *; auto. inversion ND; auto.
    + intros i Hi Hin. apply in_app_or in Hin. destruct Hin as [Hin | Hin].
      * clear -ND Hi Hin. induction (ev_id e) as [|a l IHl]; simpl in *; [contradiction|].
        inversion ND; subst. destruct Hin as [<- | Hin].
        -- apply H1. apply in_or_app. right. exact Hi.
        -- apply IHl; auto.
      * apply (Hf i); auto. apply in_or_app. right. exact Hi.
Qed.

End Unique.

(* At every event boundary of every run with distinct message ids, over pre-existing files
   with distinct names and no tags: file names are distinct and no message tag occurs twice
   anywhere (files' durable and volatile parts, open gzip member). *)
Theorem tags_unique : forall c fs0 es, (forall n, fault_at c FUnlink n = false) ->
  NoDup (keys fs0) -> fs_tags fs0 = [] -> NoDup (flat_map ev_id es) ->
  NoDup (keys (fs (run c fs0 es))) /\ NoDup (alltags (run c fs0 es)).
Proof.
  intros c fs0 es NUF K U ND.
  destruct (TI_fold c fs0 NUF es [] (init fs0)) as [Y [A [B _]]]; auto.
  - apply init_inv.
  - split; [exact K|]. unfold alltags. simpl. rewrite U. simpl. split; [constructor | intros x []].
Qed.

(* hence a tagged line lives under exactly one name *)
Lemma tag_in_fs_tags : forall fs k f i, lookup fs k = Some f -> In i (tags (content f)) -> In i (fs_tags fs).
Proof.
  intros fs k f i L H. destruct (lookup_some_split _ _ _ L) as [l1 [l2 [E _]]]. subst.
  rewrite fs_tags_app, fs_tags_cons. apply in_or_app. right. apply in_or_app. left. exact H.
Qed.

Lemma lookup_app_tag : forall a1 k1 f1 a2 k2 f2 i, k1 <> k2 ->
  lookup (a1 ++ (k1, f1) :: a2) k2 = Some f2 -> In i (tags (content f2)) ->
  In i (fs_tags a1) \/ In i (fs_tags a2).
Proof.
  induction a1 as [|[k0 g] r IH]; intros k1 f1 a2 k2 f2 i Hne H I2; simpl in H.
  - rewrite key_eqb_neq in H; auto. right. eapply tag_in_fs_tags; eauto.
  - destruct (key_eqb k2 k0) eqn:Eq.
    + inversion H; subst g. left. rewrite fs_tags_cons. apply in_or_app. left. exact I2.
    + destruct (IH _ _ _ _ _ _ Hne H I2) as [Hl | Hr]; auto. left. rewrite fs_tags_cons. apply in_or_app. right. exact Hl.
Qed.

Theorem one_file : forall c fs0 es k1 k2 f1 f2 i, (forall n, fault_at c FUnlink n = false) ->
  NoDup (keys fs0) -> fs_tags fs0 = [] -> NoDup (flat_map ev_id es) ->
  lookup (fs (run c fs0 es)) k1 = Some f1 -> lookup (fs (run c fs0 es)) k2 = Some f2 ->
  In i (tags (content f1)) -> In i (tags (content f2)) -> k1 = k2.
Proof.
  intros c fs0 es k1 k2 f1 f2 i NUF K U ND L1 L2 I1 I2.
  destruct (tags_unique c fs0 es NUF K U ND) as [KK TT].
  destruct (key_eq_dec k1 k2) as [E | Hne]; auto. exfalso.
  apply NoDup_app_l in TT.
  destruct (lookup_some_split _ _ _ L1) as [a1 [a2 [E1 N1]]].
  rewrite E1 in L2, TT. rewrite fs_tags_app, fs_tags_cons in TT.
  assert (H2 : In i (fs_tags a1) \/ In i (fs_tags a2)) by (eapply lookup_app_tag; eauto).
  destruct H2 as [H2 | H2].
  - (* i in fs_tags a1 and in tags f1: duplicate *)
    apply in_split in H2. destruct H2 as [x [y Hxy]]. rewrite Hxy in TT.
    rewrite <- app_assoc in TT. simpl in TT. apply NoDup_remove_2 in TT. apply TT.
    apply in_or_app. right. apply in_or_app. right. apply in_or_app. left. exact I1.
  - apply in_split in I1. destruct I1 as [x [y Hxy]]. rewrite Hxy in TT.
    rewrite <- (app_assoc x) in TT. simpl in TT. rewrite app_assoc in TT.
    apply NoDup_remove_2 in TT. apply TT. apply in_or_app. right. apply in_or_app. right. exact H2.
Qed.

Lemma line_tag : forall m cs, In (line m) cs -> In (fst m) (tags cs).
Proof.
  intros m cs H. unfold tags. apply in_flat_map. exists (line m). split; auto. simpl. auto.
Qed.

(* every finished message's line is in the durable part of exactly one file *)
Theorem exactly_one_file : forall c fs0 es m, (forall n, fault_at c FUnlink n = false) ->
  NoDup (keys fs0) -> fs_tags fs0 = [] -> NoDup (flat_map ev_id es) ->
  In m (finished (run c fs0 es)) ->
  exists k f, lookup (fs (run c fs0 es)) k = Some f /\ In (line m) (f_dur f) /\
    forall k' f', lookup (fs (run c fs0 es)) k' = Some f' -> In (fst m) (tags (content f')) -> k' = k.
Proof.
  intros c fs0 es m NUF K U ND Hm.
  destruct (run_inv c fs0 es) as [[_ [_ [_ HP]]] _].
  destruct (HP m Hm) as [k [f [Hk Hin]]]. exists k, f. split; auto. split; auto.
  intros k' f' Hk' Hin'. eapply one_file; eauto.
  apply line_tag. unfold content. apply in_or_app. left. exact Hin.
Qed.
