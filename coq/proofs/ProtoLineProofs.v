(* C09: the command line is bounded by the connection's read buffer (model/Proto.v
   read_slice = bufio.Reader.ReadSlice on a buffer of defaultBufferSize bytes).
     - what is parsed and executed as a command never exceeds the buffer;
     - a buffer full of bytes without a delimiter ends the connection with the close alone,
       whatever follows (or does not follow) it: the decision needs no byte beyond the
       buffer, so the daemon never holds more than one buffer of an unfinished line. *)
From Coq Require Import List Arith NArith ZArith Bool Lia.
From NSQV Require Import gen.Consts model.Judge model.Names model.Num model.Proto model.ProtoSpec
     proofs.ProtoProofs.
Import ListNotations.
Open Scope Z_scope.

(* ------------------------------------------------------------------ ReadSlice, buffer full *)
Lemma read_slice_full : forall k pre post,
  length pre = k -> ~ In NL pre -> read_slice k (pre ++ post) = None.
Proof.
  induction k as [|k IH]; intros pre post HL HN.
  - destruct pre; [|discriminate]. destruct post; reflexivity.
  - destruct pre as [|c pre]; [discriminate|]. cbn [app read_slice].
    destruct (N.eqb_spec c NL) as [E|E]; [exfalso; apply HN; left; exact E|].
    rewrite IH; [reflexivity | cbn in HL; lia | intro H; apply HN; right; exact H].
Qed.

(* the bytes of the line a parameter list was split from: the parameters and the single
   spaces between them *)
Fixpoint sum_len (ps : list bytes) : nat :=
  match ps with [] => O | p :: r => (length p + sum_len r)%nat end.
Definition params_bytes (ps : list bytes) : nat := (sum_len ps + (length ps - 1))%nat.

Lemma split_sp_bytes : forall l cur, params_bytes (split_sp cur l) = (length cur + length l)%nat.
Proof.
  induction l as [|c l IH]; intro cur.
  - cbn [split_sp]. unfold params_bytes. cbn [sum_len length].
    rewrite rev_append_rev, app_nil_r, rev_length. lia.
  - cbn [split_sp]. destruct (c =? SP)%N.
    + specialize (IH []). pose proof (split_sp_nonempty l []) as NE.
      unfold params_bytes in *. cbn [sum_len length] in *.
      rewrite rev_append_rev, app_nil_r, rev_length.
      destruct (split_sp [] l) as [|p ps]; [contradiction|]. cbn [length sum_len] in *. lia.
    + rewrite IH. cbn [length]. lia.
Qed.

Lemma parse_line_bytes : forall l0 params,
  parse_line (l0 ++ [NL]) = Some params -> (params_bytes params <= length l0)%nat.
Proof.
  intros l0 params. unfold parse_line.
  assert (Hlen : len (l0 ++ [NL]) - 1 = len l0) by (rewrite len_app; cbn; lia).
  rewrite Hlen. rewrite slice_to_ok by (rewrite len_app; pose proof (len_nonneg _ l0); cbn; lia).
  replace (Z.to_nat (len l0)) with (length l0) by (unfold len; lia).
  rewrite firstn_app, Nat.sub_diag, firstn_all. cbn [firstn]. rewrite app_nil_r.
  destruct (Z.ltb_spec 0 (len l0)).
  - destruct (idx_in_range _ l0 (len l0 - 1)) as [c Hc]; [lia|]. rewrite Hc.
    destruct (c =? CR)%N.
    + rewrite slice_to_ok by lia. intro E; inversion E; subst.
      rewrite split_sp_bytes. cbn [length]. rewrite firstn_length. lia.
    + intro E; inversion E; subst. rewrite split_sp_bytes. cbn [length]. lia.
  - intro E; inversion E; subst. rewrite split_sp_bytes. cbn [length]. lia.
Qed.

Section Line.
Variables (cf : cfg) (orc : oracle) (json : bytes -> jres).

(* every command the loop executes was split from a line that fits the read buffer,
   delimiter included *)
Definition ev_line_bounded (e : ev) : Prop :=
  match e with
  | EvCmd _ _ params _ _ => (params_bytes params < buffer_size)%nat
  | _ => True
  end.

Lemma steps_line_bounded : forall fuel st bs, Forall ev_line_bounded (steps cf orc json fuel st bs).
Proof.
  induction fuel as [|f IH]; intros st bs.
  - cbn [steps]. destruct (read_slice buffer_size bs) as [[line rest]|]; repeat constructor.
  - cbn [steps]. destruct (read_slice buffer_size bs) as [[line rest]|] eqn:R; [|repeat constructor].
    destruct (read_slice_spec _ _ _ _ R) as [l0 [HL [HB HK]]]. subst line.
    destruct (parse_line (l0 ++ [NL])) as [params|] eqn:HP; [|repeat constructor].
    pose proof (parse_line_bytes _ _ HP) as HBy.
    destruct (exec cf orc json st params rest) as [|c r]; [repeat constructor|].
    constructor.
    + cbn [ev_line_bounded]. rewrite app_length in HK. cbn [length] in HK. lia.
    + destruct (next_of r) as [[st' rest']|]; [apply IH | constructor].
Qed.

(* a full buffer without a delimiter: the loop ends there, silently, whatever follows *)
Lemma steps_long_line : forall fuel st pre post,
  length pre = buffer_size -> ~ In NL pre ->
  steps cf orc json fuel st (pre ++ post) = [EvReadFail].
Proof.
  intros fuel st pre post HL HN. destruct fuel; cbn [steps]; rewrite (read_slice_full _ _ _ HL HN); reflexivity.
Qed.

Theorem run_long_line : forall st pre post,
  length pre = buffer_size -> ~ In NL pre ->
  run cf orc json st (pre ++ post) = [Close].
Proof.
  intros st pre post HL HN. unfold run. rewrite (steps_long_line _ _ _ _ HL HN). reflexivity.
Qed.

End Line.

Theorem line_bounded_len : forall cf orc json st bs,
  Forall ev_line_bounded (steps cf orc json (length bs) st bs).
Proof. intros. apply steps_line_bounded. Qed.

(* the whole connection: after the magic, and after any prefix of commands that left the
   loop running (C09_codes_loop), a full buffer without a delimiter is answered by the close
   alone *)
Theorem handle_conn_long_line : forall cf orc json pre post,
  length pre = buffer_size -> ~ In NL pre ->
  handle_conn cf orc json (magic_v2 ++ pre ++ post) = [Close].
Proof.
  intros cf orc json pre post HL HN. unfold handle_conn.
  change (read_full 4 (magic_v2 ++ pre ++ post)) with (Some (magic_v2, pre ++ post)).
  change (bytes_eqb magic_v2 magic_v2) with true. cbv iota beta.
  unfold exec_conn. apply run_long_line; assumption.
Qed.

(* the answer does not depend on what follows the full buffer: with or without a
   delimiter further on, with or without the end of the stream *)
Theorem long_line_suffix_irrelevant : forall cf orc json st pre post post',
  length pre = buffer_size -> ~ In NL pre ->
  run cf orc json st (pre ++ post) = run cf orc json st (pre ++ post').
Proof.
  intros. rewrite !run_long_line by assumption. reflexivity.
Qed.
