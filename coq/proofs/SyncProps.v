(* C16 — the statements of props/C16.v instantiated for the configuration read from the
   repository ([repo_cfg], built from gen/SyncTab.v and gen/Consts.v), and the refutation
   of the unconditional convergence statement (K6). *)
From Coq Require Import List NArith ZArith Bool Lia Arith.
From RecordUpdate Require Import RecordUpdate.
From NSQV Require Import gen.Consts gen.SyncTab model.Judge model.Sync
  proofs.SyncBase proofs.SyncInv proofs.SyncLoop proofs.SyncConv proofs.SyncData.
Import ListNotations.
Open Scope nat_scope.
Open Scope bool_scope.

(* the obligation that ties the theorems to the source: every table entry the proofs rely
   on must be what the repository says *)
Lemma repo_cfg_good : good_cfg repo_cfg.
Proof. unfold good_cfg. repeat split; try reflexivity. vm_compute. discriminate. Qed.

Lemma repo_no_panic : forall os, run repo_cfg (Run init) os <> Crashed.
Proof. intros. apply run_no_panic. apply repo_cfg_good. Qed.

Lemma repo_no_panic_from : forall s os, run repo_cfg (Run s) os <> Crashed.
Proof. intros. apply run_no_panic. apply repo_cfg_good. Qed.

Lemma repo_reader_no_panic : forall limit buf,
  read_response_bounded (repo_cfg <| g_max := limit |>) buf <> RRPanic.
Proof. intros. apply rrb_no_panic. reflexivity. Qed.

(* ------------------------------------------------------------------ convergence *)
(* the statement of the property, with no condition on the loop's schedule *)
Definition converge_full : Prop :=
  forall hist suf s s' n k,
    run repo_cfg (Run init) hist = Run s ->
    quiet suf = true -> run repo_cfg (Run s) suf = Run s' -> bag s' = [] -> 2 <= ticks suf ->
    nth_error (links s) n = Some k -> k_conf k = true -> healthy k -> clean k ->
    exists k', nth_error (links s') n = Some k' /\ keys_same (l_regs k') (live_keys (objs s')).

Definition getRun (x : state) : st := match x with Run s => s | Crashed => init end.

(* K6: topic 0 deleted and re-created; the new topic's notification (bag position 1) is
   served before the old one's *)
Definition k6_hist : list op :=
  [Reconfigure [0]; TopicCreate 0; TopicAdvance 0; TopicAdvance 0; Deliver 0;
   TopicDeleteBegin 0; TopicDeleteEnd 0; TopicCreate 0; TopicAdvance 0; TopicAdvance 0].
Definition k6_suf : list op := [Deliver 1; Deliver 0; Tick; Tick].

Lemma converge_refuted : ~ converge_full.
Proof.
  intros H.
  set (s := getRun (run repo_cfg (Run init) k6_hist)).
  set (s' := getRun (run repo_cfg (Run s) k6_suf)).
  set (k := nth 0 (links s) fresh_link).
  assert (E1 : run repo_cfg (Run init) k6_hist = Run s) by (vm_compute; reflexivity).
  assert (E2 : run repo_cfg (Run s) k6_suf = Run s') by (vm_compute; reflexivity).
  assert (Q : quiet k6_suf = true) by (vm_compute; reflexivity).
  assert (B : bag s' = []) by (vm_compute; reflexivity).
  assert (T : 2 <= ticks k6_suf) by (vm_compute; lia).
  assert (N : nth_error (links s) 0 = Some k) by (vm_compute; reflexivity).
  assert (C : k_conf k = true) by (vm_compute; reflexivity).
  assert (Hh : healthy k) by (repeat split; vm_compute; reflexivity).
  assert (Cl : clean k) by (intros _; vm_compute; reflexivity).
  destruct (H k6_hist k6_suf s s' 0 k E1 Q E2 B T N C Hh Cl) as (k' & Hk' & Hs).
  assert (L : In (KT 0) (live_keys (objs s'))) by (vm_compute; auto).
  apply Hs in L.
  assert (R : l_regs k' = []).
  { assert (N' : nth_error (links s') 0 = Some (nth 0 (links s') fresh_link)) by (vm_compute; reflexivity).
    assert (Ek : Some k' = Some (nth 0 (links s') fresh_link)) by (rewrite <- N'; symmetry; exact Hk').
    apply (f_equal (fun o => match o with Some x => l_regs x | None => [] end)) in Ek.
    cbv beta iota in Ek. rewrite Ek. vm_compute. reflexivity. }
  rewrite R in L. exact L.
Qed.

(* the schedule of the witness is inside the hazard region, at the inverted delivery *)
Lemma k6_is_hazard : hazard_free repo_cfg (Run init) (k6_hist ++ k6_suf) = false
                  /\ hazard_free repo_cfg (Run init) k6_hist = true.
Proof. split; vm_compute; reflexivity. Qed.

Lemma repo_converge_outside : forall hist suf s s' n k,
  hazard_free repo_cfg (Run init) (hist ++ suf) = true ->
  run repo_cfg (Run init) hist = Run s ->
  quiet suf = true -> run repo_cfg (Run s) suf = Run s' -> bag s' = [] -> 2 <= ticks suf ->
  nth_error (links s) n = Some k -> k_conf k = true -> healthy k -> clean k ->
  exists k', nth_error (links s') n = Some k' /\
             k_state k' = st_connected /\ l_alive k' = true /\
             keys_same (l_regs k') (live_keys (objs s')).
Proof. intros. eapply converge_outside; eauto. apply repo_cfg_good. Qed.

Lemma repo_converge_after_reconnect : forall hist suf s s' n k,
  run repo_cfg (Run init) hist = Run s ->
  K2 (objs s) (bag s) -> l_alive k = false ->
  quiet suf = true -> hazard_free repo_cfg (Run s) suf = true ->
  run repo_cfg (Run s) suf = Run s' -> bag s' = [] -> 2 <= ticks suf ->
  nth_error (links s) n = Some k -> k_conf k = true -> healthy k -> clean k ->
  exists k', nth_error (links s') n = Some k' /\
             k_state k' = st_connected /\ l_alive k' = true /\
             keys_same (l_regs k') (live_keys (objs s')).
Proof. intros. eapply converge_after_reconnect; eauto. apply repo_cfg_good. Qed.

(* ------------------------------------------------------------------ pre-creation *)
Lemma repo_reach_QI : forall os s, run repo_cfg (Run init) os = Run s -> QI (objs s) (dats s).
Proof.
  intros os s X. apply (run_QI repo_cfg eq_refl os init s); auto.
  - destruct Inv_init as (W0 & _). exact W0.
  - apply QI_init.
Qed.

Lemma repo_reach_WF : forall os s, run repo_cfg (Run init) os = Run s -> WF (objs s) (bag s).
Proof. intros os s X. eapply run_WF; eauto. destruct Inv_init as (W0 & _). exact W0. Qed.

(* GetTopic in every reachable state: the query step records every non-ephemeral channel
   that any answering nsqlookupd knows; ... *)
Lemma repo_precreate_query : forall os s t i k ch,
  run repo_cfg (Run init) os = Run s ->
  find_topic (objs s) t = Some i -> d_pc (getD (dats s) i) = 0 ->
  In k (links s) -> k_conf k = true -> k_info k = true -> l_up k = true -> l_http k = true ->
  In (t, ch) (l_known k) -> eph ch = false ->
  let x' := data_step repo_cfg (links s) (TopicAdvance t) (mkDs (objs s) (dats s) (bag s)) in
  In ch (d_want (getD (x_dats x') i)) /\ d_started (getD (x_dats x') i) = false.
Proof.
  intros os s t i k ch X F PC Hk C I U Ht Kn E x'.
  pose proof (repo_reach_QI os s X) as Q.
  destruct (advance_query repo_cfg (links s) t (mkDs (objs s) (dats s) (bag s)) i Q F PC) as (A & B & _ & D).
  fold x' in A, B, D. split.
  - rewrite B. apply filter_In. split.
    + apply (query_covers repo_cfg (links s) t k ch eq_refl eq_refl); auto.
    + cbn. rewrite E. reflexivity.
  - assert (QX x') by (apply QX_data_step; [reflexivity | cbn; eapply repo_reach_WF; eauto | exact Q]).
    destruct H as (_ & Q1 & _). apply Q1. rewrite D. lia.
Qed.

(* ... and at the step that calls Start every recorded channel exists, still empty, with the
   topic's queue untouched: the first pump iteration then hands the first message to all of them *)
Lemma repo_precreate_start : forall os s t i,
  run repo_cfg (Run init) os = Run s ->
  find_topic (objs s) t = Some i ->
  d_pc (getD (dats s) i) = 1 -> d_todo (getD (dats s) i) = [] ->
  let x' := data_step repo_cfg (links s) (TopicAdvance t) (mkDs (objs s) (dats s) (bag s)) in
  d_started (getD (dats s) i) = false /\ d_started (getD (x_dats x') i) = true /\
  d_q (getD (x_dats x') i) = d_q (getD (dats s) i) /\
  forall ch, In ch (d_want (getD (dats s) i)) ->
    exists j, o_parent (getO (objs s) j) = Some i /\ o_c (getO (objs s) j) = ch /\
              d_q (getD (x_dats x') j) = [].
Proof.
  intros os s t i X F PC TD x'.
  pose proof (repo_reach_QI os s X) as Q.
  destruct (advance_start repo_cfg (links s) t (mkDs (objs s) (dats s) (bag s)) i Q F PC TD) as (A & B & C & D).
  split; auto. destruct Q as (_ & Q1 & _). apply Q1. rewrite PC. lia.
Qed.

(* K6b (repaired in the source, fix 342c6f2): a reconnect inside a topic deletion.  The UNREGISTER
   of topic 0 has been served, the connection is cut, the next two ticks notice and reconnect while
   topic 0 is exiting but still in the map.  connectCallback now skips exiting objects: the schedule
   is outside the hazard region and converges.  With the skip removed it resurrects topic 0. *)
Definition k6b_hist : list op :=
  [Reconfigure [0]; TopicCreate 0; TopicAdvance 0; TopicAdvance 0; Deliver 0;
   TopicDeleteBegin 0; Deliver 0; FReply 0 [RClose]; Tick; Tick; TopicDeleteEnd 0].
Definition k6b_suf : list op := [Tick; Tick].

Lemma k6b_repaired :
  hazard_free repo_cfg (Run init) (k6b_hist ++ k6b_suf) = true /\
  match run repo_cfg (Run init) (k6b_hist ++ k6b_suf) with
  | Run s => bag s = [] /\ live_keys (objs s) = [] /\ map l_regs (links s) = [[]]
  | Crashed => False
  end.
Proof. vm_compute. repeat split; reflexivity. Qed.

Definition cfg_without_exiting_skip : cfg := repo_cfg <| g_skip_exiting := false |>.

Lemma k6b_without_the_skip :
  match run cfg_without_exiting_skip (Run init) (k6b_hist ++ k6b_suf) with
  | Run s => bag s = [] /\ live_keys (objs s) = [] /\ map l_regs (links s) = [[KT 0%N]]
  | Crashed => False
  end.
Proof. vm_compute. repeat split; reflexivity. Qed.

(* ... for EVERY subset of failing nsqlookupds: what is recorded is exactly the non-ephemeral
   channels known to the asked lookupds that answer (none if all fail) *)
Lemma repo_precreate_exact : forall os s t i ch,
  run repo_cfg (Run init) os = Run s ->
  find_topic (objs s) t = Some i -> d_pc (getD (dats s) i) = 0 ->
  let x' := data_step repo_cfg (links s) (TopicAdvance t) (mkDs (objs s) (dats s) (bag s)) in
  (In ch (d_want (getD (x_dats x') i)) <->
   eph ch = false /\
   exists k, In k (links s) /\ k_conf k = true /\ k_info k = true /\ l_up k = true /\ l_http k = true /\
             In (t, ch) (l_known k)).
Proof.
  intros os s t i ch X F PC x'.
  pose proof (repo_reach_QI os s X) as Q.
  destruct (advance_query repo_cfg (links s) t (mkDs (objs s) (dats s) (bag s)) i Q F PC) as (_ & B & _).
  fold x' in B. rewrite B, filter_In. cbn [g_skip_eph repo_cfg]. split.
  - intros [H E]. split. { destruct (eph ch); auto; discriminate. } apply (query_sound repo_cfg); auto.
  - intros [E (k & Hk & C & I & U & Ht & Kn)]. split.
    + apply (query_covers repo_cfg (links s) t k ch eq_refl eq_refl); auto.
    + rewrite E. reflexivity.
Qed.

Lemma repo_precreate_all_fail : forall ls t,
  (forall k, In k ls -> asked repo_cfg k = true -> answers k = false) -> query repo_cfg ls t = [].
Proof. intros. apply query_all_fail. auto. Qed.

(* the state of the nsqd -> nsqlookupd TCP connection plays no part in the query: two link lists
   that differ only in the TCP side (lp.state, unread bytes, whether the nsqlookupd holds the
   connection, this producer's registrations, the fault scripts) give the same channels — a
   dropped, refused, stalled or garbage-answering TCP peer is still asked over HTTP *)
Definition same_http_side (k k' : link) : Prop :=
  k_conf k = k_conf k' /\ k_info k = k_info k' /\ l_up k = l_up k' /\ l_http k = l_http k' /\ l_known k = l_known k'.

Lemma query_ignores_tcp c : g_ask_any_state c = true -> forall ls ls' t,
  Forall2 same_http_side ls ls' -> query c ls t = query c ls' t.
Proof.
  intros G ls ls' t F. unfold query.
  assert (A : forall k k', same_http_side k k' -> asked c k = asked c k' /\ answers k = answers k').
  { intros k k' (C & I & U & H & _). unfold asked, answers. rewrite C, I, U, H, G. auto. }
  assert (E : query_fails c ls = query_fails c ls' /\ query_union c ls t = query_union c ls' t).
  { unfold query_fails, query_union. induction F as [|k k' r r' Hk _ [IH1 IH2]]; cbn; auto.
    destruct (A k k' Hk) as [A1 A2]. destruct Hk as (_ & _ & _ & _ & Kn). rewrite A1, A2, Kn, IH1, IH2. auto. }
  destruct E as [E1 E2].
  rewrite E1, E2. reflexivity.
Qed.

Lemma repo_precreate_ignores_tcp_state : forall ls ls' t,
  Forall2 same_http_side ls ls' -> query repo_cfg ls t = query repo_cfg ls' t.
Proof. apply query_ignores_tcp. reflexivity. Qed.

(* lp.Info outlives the connection: no exchange, failed or not, forgets the peer's address *)
Lemma send_all_info c cms : forall k, k_info (fst (send_all c cms k)) = k_info k.
Proof.
  induction cms as [|cm r IH]; intros k; cbn; auto.
  pose proof (exchange_frame c cm k) as F. cbn in F. destruct F as (_ & _ & _ & F & _).
  destruct (exchange c cm k) as [k1 [b| |]]; cbn in *; auto. rewrite IH. auto.
Qed.

Lemma callback_info c rc k : k_info k = true -> k_info (fst (callback c rc k)) = true.
Proof.
  intros I. unfold callback.
  pose proof (exchange_frame c CIdentify k) as F. cbn in F. destruct F as (_ & _ & _ & F & _).
  destruct (exchange c CIdentify k) as [k1 [b| |]]; cbn in *; try congruence.
  destruct (bytes_eqb b einvalid_body); cbn; try congruence.
  destruct (json_parse b) as [info|]; cbn; try congruence.
  rewrite send_all_info. cbn. rewrite F, I. reflexivity.
Qed.

Lemma command_info c rc cm k : k_info k = true -> k_info (fst (command c rc cm k)) = true.
Proof.
  intros I. unfold command.
  assert (C : k_info (fst (connect c rc k)) = true).
  { unfold connect. destruct (k_state k =? st_connected)%Z; cbn; auto.
    destruct (negb (l_up k)); cbn; auto.
    destruct (l_accept k) as [|[|] r]; cbn; auto; apply callback_info; cbn; auto. }
  destruct (connect c rc k) as [k1 r]. cbn [fst snd] in *. unfold finish.
  destruct r; cbn; auto.
  destruct (k_state k1 =? st_connected)%Z; cbn; auto.
  destruct cm as [x|]; cbn; auto.
  pose proof (exchange_frame c x k1) as F. cbn in F. destruct F as (_ & _ & _ & F & _). congruence.
Qed.

Lemma command_conf c rc cm k : k_conf (fst (command c rc cm k)) = k_conf k.
Proof. pose proof (command_frame c rc cm k) as F. cbn in F. tauto. Qed.

(* every way of losing the TCP connection (cut + refused reconnects, accept-then-close, stalled reply,
   invalid length prefix) leaves the peer in the set GetTopic asks *)
Lemma repo_asked_survives_tcp_faults : forall os s s' n k fs,
  run repo_cfg (Run init) os = Run s ->
  forallb (fun o => match o with FAccept _ _ | FReply _ _ | Tick | Deliver _ => true | _ => false end) fs = true ->
  run repo_cfg (Run s) fs = Run s' ->
  nth_error (links s) n = Some k -> asked repo_cfg k = true ->
  exists k', nth_error (links s') n = Some k' /\ asked repo_cfg k' = true.
Proof.
  intros os s s' n k fs _. revert s k. induction fs as [|o r IH]; intros s k Hf X Hn A.
  - inversion X; subst. exists k. auto.
  - cbn [forallb] in Hf. apply andb_true_iff in Hf. destruct Hf as [Ho Hr].
    rewrite run_cons in X. destruct (step repo_cfg s o) as [s1|] eqn:S; [|rewrite run_crashed in X; discriminate].
    assert (P : exists k1, nth_error (links s1) n = Some k1 /\ asked repo_cfg k1 = true).
    { assert (AK : forall k1, k_conf k1 = k_conf k -> (k_info k = true -> k_info k1 = true) -> asked repo_cfg k1 = true).
      { intros k1 C I. unfold asked in *. cbn [g_ask_any_state repo_cfg] in *. rewrite orb_true_l, andb_true_r in *.
        apply andb_true_iff in A. destruct A as [A1 A2]. rewrite C, A1, (I A2). reflexivity. }
      assert (LP : forall f ls, on_links f 0 (links s) = Some ls ->
                   (forall a k0, k_conf (fst (f a k0)) = k_conf k0 /\ (k_info k0 = true -> k_info (fst (f a k0)) = true)) ->
                   exists k1, nth_error ls n = Some k1 /\ asked repo_cfg k1 = true).
      { intros f ls OL Hf. pose proof (on_links_fwd f _ _ _ OL n k Hn) as E. eexists. split; [exact E|].
        destruct (Hf (0 + n) k) as [C I]. apply AK; auto. }
      assert (FP : forall a g, (forall k0, k_conf (g k0) = k_conf k0 /\ k_info (g k0) = k_info k0) ->
                   exists k1, nth_error (upd_link a g (links s)) n = Some k1 /\ asked repo_cfg k1 = true).
      { intros a g Hg. unfold upd_link. destruct (nth_error (links s) a) as [ka|] eqn:Ea; [|eauto].
        rewrite nth_error_upd. destruct (Nat.eqb_spec n a) as [->|Ne]; [|eauto].
        rewrite Hn in *. inversion Ea; subst ka. eexists. split; eauto.
        destruct (Hg k) as [C I]. apply AK; congruence. }
      assert (CF : forall cm a k0, k_conf (fst ((fun (_ : nat) k => if k_conf k then command repo_cfg (registrations repo_cfg (objs s)) (Some cm) k else (k, XOk [])) a k0)) = k_conf k0 /\
                   (k_info k0 = true -> k_info (fst ((fun (_ : nat) k => if k_conf k then command repo_cfg (registrations repo_cfg (objs s)) (Some cm) k else (k, XOk [])) a k0)) = true)).
      { intros cm a k0. cbn beta. destruct (k_conf k0) eqn:C0; cbn [fst]; [|auto].
        split; [rewrite command_conf; auto | apply command_info]. }
      destruct o; try discriminate; unfold step in S; cbn [is_loop_op is_fault_op] in S.
      - (* Deliver *)
        cbn [loop_step] in S. destruct (nth_error (bag s) i) as [id|]; [|inversion S; subst; eauto].
        destruct (on_links _ 0 (links s)) as [ls|] eqn:OL; [|discriminate]. inversion S; subst. cbn [links].
        eapply LP; [exact OL|]. apply CF.
      - (* Tick *)
        cbn [loop_step] in S.
        destruct (on_links _ 0 (links s)) as [ls|] eqn:OL; [|discriminate]. inversion S; subst. cbn [links].
        eapply LP; [exact OL|]. apply CF.
      - (* FAccept *)
        inversion S; subst. cbn [fault_step links]. apply FP. intros; cbn; auto.
      - (* FReply *)
        inversion S; subst. cbn [fault_step links]. apply FP. intros; cbn; auto. }
    destruct P as (k1 & H1 & A1). apply (IH s1 k1); auto.
Qed.

(* K6c: a reconnect inside the deletion of a topic's ONLY channel.  The channel is exiting but
   still in the map: connectCallback skips it and must register the bare topic. *)
Definition k6c_hist : list op :=
  [Reconfigure [0]; TopicCreate 0; TopicAdvance 0; TopicAdvance 0; Deliver 0; ChanCreate 0 0; Deliver 0;
   ChanDeleteBegin 0 0; Deliver 0; FReply 0 [RClose]; Tick; Tick; ChanDeleteEnd 0 0].
Definition k6c_suf : list op := [Tick; Tick].

Lemma k6c_converges :
  hazard_free repo_cfg (Run init) (k6c_hist ++ k6c_suf) = true /\
  match run repo_cfg (Run init) (k6c_hist ++ k6c_suf) with
  | Run s => bag s = [] /\ live_keys (objs s) = [KT 0%N] /\ map l_regs (links s) = [[KT 0%N]]
  | Crashed => False
  end.
Proof. vm_compute. repeat split; reflexivity. Qed.

Definition cfg_bare_only_when_map_empty : cfg := repo_cfg <| g_bare_no_live := false |>.

Lemma k6c_with_len_channelMap :
  match run cfg_bare_only_when_map_empty (Run init) (k6c_hist ++ k6c_suf) with
  | Run s => bag s = [] /\ live_keys (objs s) = [KT 0%N] /\ map l_regs (links s) = [[]]
  | Crashed => False
  end.
Proof. vm_compute. repeat split; reflexivity. Qed.

(* the partial-result rule matters: with "any error => no data" one failing nsqlookupd hides the
   channels the other one knows *)
Definition cfg_query_all_or_nothing : cfg := repo_cfg <| g_partial_query := false |>.
Definition two_lookupds_one_http_down : list op :=
  [Reconfigure [0; 1]; FKnown 0 [(7, 2)]%N; FHttp 1 false; TopicCreate 7; TopicAdvance 7; TopicAdvance 7; TopicAdvance 7;
   Put 7 1; Pump 7].
Lemma partial_query_matters :
  match run repo_cfg (Run init) two_lookupds_one_http_down, run cfg_query_all_or_nothing (Run init) two_lookupds_one_http_down with
  | Run s, Run s' => map (fun j => (o_c (getO (objs s) j), d_q (getD (dats s) j))) (chans_of (objs s) 0) = [(2, [1])]%N /\
                     chans_of (objs s') 0 = []
  | _, _ => False
  end.
Proof. vm_compute. split; reflexivity. Qed.

(* asking the disconnected peers matters: one nsqlookupd that knows channel 2 of topic 7, its TCP
   connection cut and every reconnect refused, its HTTP interface up.  The source asks it: the channel
   is pre-created and gets the first message.  "Skip the peers that are not connected" loses it. *)
Definition cfg_ask_only_connected : cfg := repo_cfg <| g_ask_any_state := false |>.
Definition lookupd_tcp_down_http_up : list op :=
  [Reconfigure [0]; FKnown 0 [(7, 2)]%N; FReply 0 [RClose]; Tick; FAccept 0 [ARefuse; ARefuse; ARefuse]; Tick;
   TopicCreate 7; TopicAdvance 7; TopicAdvance 7; TopicAdvance 7; Put 7 1; Pump 7].
Lemma asking_disconnected_matters :
  match run repo_cfg (Run init) lookupd_tcp_down_http_up, run cfg_ask_only_connected (Run init) lookupd_tcp_down_http_up with
  | Run s, Run s' => map k_state (links s) = [st_disconnected] /\
                     map (fun j => (o_c (getO (objs s) j), d_q (getD (dats s) j))) (chans_of (objs s) 0) = [(2, [1])]%N /\
                     chans_of (objs s') 0 = []
  | _, _ => False
  end.
Proof. vm_compute. repeat split; reflexivity. Qed.
