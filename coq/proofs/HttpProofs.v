(* Lemmas about model/Http.v (C10): the generated tables, the status set and table,
   HTTP/TCP publish equivalence, exactness of the admin effects. *)
From Coq Require Import String Ascii List NArith ZArith Bool Lia ZifyBool ZifyNat ZifyN.
From NSQV Require Import model.Judge model.Names model.Num model.Http gen.NsqdRoutes proofs.NumProofs.
Import ListNotations.
Close Scope string_scope.
Open Scope Z_scope.

(* ------------------------------------------------------------------ generated tables *)
Lemma route_table_matches_source : model_route_table = nsqd_routes.
Proof. vm_compute. reflexivity. Qed.

(* the router is configured the way the model assumes: 405 handling on, the three
   custom handlers installed, the redirect switches left at their defaults (true) *)
Lemma router_settings_expected :
  nsqd_router_settings =
  [("HandleMethodNotAllowed", "true"); ("PanicHandler", "http_api.LogPanicHandler");
   ("NotFound", "http_api.LogNotFoundHandler");
   ("MethodNotAllowed", "http_api.LogMethodNotAllowedHandler")]%string.
Proof. vm_compute. reflexivity. Qed.

(* every http_api.Err literal of nsqd/http.go, in source order: what the handlers of the
   model answer.  The only 500/503 literals are the healthy-backend exclusions. *)
Definition expected_err_literals : list (string * Z * string) := [
  ("setBlockRateHandler", 400, "<fmt.Sprintf>");
  ("pingHandler", 500, "<health>");
  ("doInfo", 500, "<err.Error>");
  ("getExistingTopicFromQuery", 400, "INVALID_REQUEST");
  ("getExistingTopicFromQuery", 400, "<err.Error>");
  ("getExistingTopicFromQuery", 404, "TOPIC_NOT_FOUND");
  ("getTopicFromQuery", 400, "INVALID_REQUEST");
  ("getTopicFromQuery", 400, "MISSING_ARG_TOPIC");
  ("getTopicFromQuery", 400, "INVALID_TOPIC");
  ("doPUB", 413, "MSG_TOO_BIG");
  ("doPUB", 400, "INVALID_REQUEST");
  ("doPUB", 413, "MSG_TOO_BIG");
  ("doPUB", 400, "MSG_EMPTY");
  ("doPUB", 400, "INVALID_DEFER");
  ("doPUB", 400, "INVALID_DEFER");
  ("doPUB", 400, "INVALID_DEFER");
  ("doPUB", 503, "EXITING");
  ("doMPUB", 413, "BODY_TOO_BIG");
  ("doMPUB", 413, "<dynamic>");
  ("doMPUB", 400, "INVALID_REQUEST");
  ("doMPUB", 413, "BODY_TOO_BIG");
  ("doMPUB", 413, "MSG_TOO_BIG");
  ("doMPUB", 503, "EXITING");
  ("doEmptyTopic", 400, "INVALID_REQUEST");
  ("doEmptyTopic", 400, "MISSING_ARG_TOPIC");
  ("doEmptyTopic", 400, "INVALID_TOPIC");
  ("doEmptyTopic", 404, "TOPIC_NOT_FOUND");
  ("doEmptyTopic", 500, "INTERNAL_ERROR");
  ("doDeleteTopic", 400, "INVALID_REQUEST");
  ("doDeleteTopic", 400, "MISSING_ARG_TOPIC");
  ("doDeleteTopic", 404, "TOPIC_NOT_FOUND");
  ("doPauseTopic", 400, "INVALID_REQUEST");
  ("doPauseTopic", 400, "MISSING_ARG_TOPIC");
  ("doPauseTopic", 404, "TOPIC_NOT_FOUND");
  ("doPauseTopic", 500, "INTERNAL_ERROR");
  ("doEmptyChannel", 404, "CHANNEL_NOT_FOUND");
  ("doEmptyChannel", 500, "INTERNAL_ERROR");
  ("doDeleteChannel", 404, "CHANNEL_NOT_FOUND");
  ("doPauseChannel", 404, "CHANNEL_NOT_FOUND");
  ("doPauseChannel", 500, "INTERNAL_ERROR");
  ("doStats", 400, "INVALID_REQUEST");
  ("doConfig", 400, "INVALID_REQUEST");
  ("doConfig", 413, "INVALID_VALUE");
  ("doConfig", 400, "INVALID_VALUE");
  ("doConfig", 400, "INVALID_VALUE");
  ("doConfig", 400, "INVALID_OPTION");
  ("doConfig", 400, "INVALID_OPTION")
]%string.

Lemma err_literals_expected : nsqd_http_errs = expected_err_literals.
Proof. vm_compute. reflexivity. Qed.

(* the handlers whose 5xx literals are excluded by the healthy-backend hypothesis:
   /ping (disk failure), /info (os.Hostname), publishing while exiting (503), a failing
   diskqueue Empty, and the unreachable Pause errors (doPause always returns nil) *)
Definition excluded_5xx : list (string * Z * string) := [
  ("pingHandler", 500, "<health>"); ("doInfo", 500, "<err.Error>");
  ("doPUB", 503, "EXITING"); ("doMPUB", 503, "EXITING");
  ("doEmptyTopic", 500, "INTERNAL_ERROR"); ("doPauseTopic", 500, "INTERNAL_ERROR");
  ("doEmptyChannel", 500, "INTERNAL_ERROR"); ("doPauseChannel", 500, "INTERNAL_ERROR")]%string.

Lemma source_5xx_literals_are_the_exclusions :
  filter (fun e => 500 <=? snd (fst e)) nsqd_http_errs = excluded_5xx.
Proof. vm_compute. reflexivity. Qed.

(* the order in which each handler does the things that matter (first occurrences, source
   order): size test / body read before the arguments in doPUB, GetTopic only at the end of
   getTopicFromQuery (after validation), GetExistingTopic (never GetTopic) behind the
   channel endpoints, PersistMetadata after (un)pause ... - what the model's handlers encode *)
Definition expected_http_calls : list (string * list string) :=
  [
  ("setBlockRateHandler", ["strconv.Atoi"; "FormValue"]);
  ("freeMemory", []);
  ("pingHandler", ["IsHealthy"]);
  ("doInfo", ["os.Hostname"]);
  ("getExistingTopicFromQuery", ["http_api.NewReqParams"; "http_api.GetTopicChannelArgs"; "GetExistingTopic"]);
  ("getTopicFromQuery", ["url.ParseQuery"; "protocol.IsValidTopicName"; "GetTopic"]);
  ("doPUB", ["io.ReadAll"; "io.LimitReader"; "getTopicFromQuery"; "strconv.ParseInt"; "msToDuration"; "NewMessage"; "PutMessage"]);
  ("doMPUB", ["getTopicFromQuery"; "readMPUB"; "io.LimitReader"; "bufio.NewReader"; "ReadBytes"; "NewMessage"; "PutMessages"]);
  ("doCreateTopic", ["getTopicFromQuery"]);
  ("doEmptyTopic", ["http_api.NewReqParams"; "protocol.IsValidTopicName"; "GetExistingTopic"; "Empty"]);
  ("doDeleteTopic", ["http_api.NewReqParams"; "DeleteExistingTopic"]);
  ("doPauseTopic", ["http_api.NewReqParams"; "GetExistingTopic"; "UnPause"; "Pause"; "PersistMetadata"]);
  ("doCreateChannel", ["getExistingTopicFromQuery"; "GetChannel"]);
  ("doEmptyChannel", ["getExistingTopicFromQuery"; "GetExistingChannel"; "Empty"]);
  ("doDeleteChannel", ["getExistingTopicFromQuery"; "DeleteExistingChannel"]);
  ("doPauseChannel", ["getExistingTopicFromQuery"; "GetExistingChannel"; "UnPause"; "Pause"; "PersistMetadata"]);
  ("doStats", ["http_api.NewReqParams"; "GetStats"]);
  ("doConfig", ["io.ReadAll"; "io.LimitReader"; "json.Unmarshal"; "lg.ParseLogLevel"; "swapOpts"; "getOptByCfgName"])
  ]%string.

Lemma http_calls_expected : nsqd_http_calls = expected_http_calls.
Proof. vm_compute. reflexivity. Qed.

Lemma bool_params_expected :
  nsqd_bool_params = [("true", true); ("1", true); ("false", false); ("0", false)]%string.
Proof. vm_compute. reflexivity. Qed.

Lemma arg_errs_expected :
  http_api_arg_errs = ["MISSING_ARG_TOPIC"; "INVALID_ARG_TOPIC"; "MISSING_ARG_CHANNEL"; "INVALID_ARG_CHANNEL"]%string.
Proof. vm_compute. reflexivity. Qed.

(* the two options PUT /config accepts are options GET /config knows *)
Lemma put_options_known :
  existsb (String.eqb "log_level") nsqd_cfg_names = true /\
  existsb (String.eqb "nsqlookupd_tcp_addresses") nsqd_cfg_names = true.
Proof. vm_compute. split; reflexivity. Qed.

(* ------------------------------------------------------------------ bytes *)
Lemma bytes_eqb_eq : forall a b, bytes_eqb a b = true <-> a = b.
Proof.
  unfold bytes_eqb. induction a as [|x a IH]; destruct b as [|y b]; simpl; split; intro H;
    try reflexivity; try discriminate.
  - apply andb_true_iff in H as [H1 H2]. apply N.eqb_eq in H1. apply IH in H2. congruence.
  - inversion H; subst. rewrite N.eqb_refl. simpl. apply IH. reflexivity.
Qed.
Lemma bytes_eqb_refl : forall a, bytes_eqb a a = true.
Proof. intro a. apply bytes_eqb_eq. reflexivity. Qed.
Lemma bytes_eqb_neq : forall a b, bytes_eqb a b = false <-> a <> b.
Proof.
  intros a b. split; intro H.
  - intro E. apply bytes_eqb_eq in E. congruence.
  - destruct (bytes_eqb a b) eqn:E; [|reflexivity]. apply bytes_eqb_eq in E. contradiction.
Qed.
Lemma bytes_eqb_sym : forall a b, bytes_eqb a b = bytes_eqb b a.
Proof.
  intros a b. destruct (bytes_eqb a b) eqn:E.
  - apply bytes_eqb_eq in E. subst. symmetry. apply bytes_eqb_refl.
  - symmetry. apply bytes_eqb_neq. apply bytes_eqb_neq in E. congruence.
Qed.

Lemma blen_nonneg : forall b, 0 <= blen b.
Proof. intro b. unfold blen. lia. Qed.
Lemma blen_zero : forall b, blen b = 0 -> b = [].
Proof. intros [|x b]; unfold blen; simpl; [reflexivity|lia]. Qed.
Lemma firstn_blen : forall b n, blen b <= n -> firstn (Z.to_nat n) b = b.
Proof. intros b n H. apply firstn_all2. unfold blen in H. lia. Qed.
Lemma firstn_blen_self : forall b, firstn (Z.to_nat (blen b)) b = b.
Proof. intro b. apply firstn_blen. lia. Qed.

(* ------------------------------------------------------------------ C10_no_500 *)
(* a (status, token) pair of the documented table, and not 500 *)
Definition good (s : Z) (tok : bytes) : Prop :=
  allowed_status s = true /\ s <> 500 /\ status_rule s tok = true.
Definition good_h (h : hres) : Prop := good (fst (fst h)) (snd (fst h)).

Ltac good_tac :=
  unfold good_h, good; cbn [fst snd];
  split; [vm_compute; reflexivity | split; [discriminate | vm_compute; reflexivity]].

Ltac break :=
  repeat match goal with
  | |- context [match ?x with _ => _ end] => destruct x eqn:?
  end.

Lemma topic_from_query_err : forall r e, topic_from_query r = inl e ->
  e = (400, str "INVALID_REQUEST") \/ e = (400, str "MISSING_ARG_TOPIC") \/ e = (400, str "INVALID_TOPIC").
Proof.
  intros r e. unfold topic_from_query. break; intro H; inversion H; auto.
Qed.

Lemma good_topic_err : forall r e effs, topic_from_query r = inl e -> good_h (e, effs).
Proof.
  intros r e effs H. apply topic_from_query_err in H. destruct H as [H|[H|H]]; subst; good_tac.
Qed.

Lemma existing_topic_err : forall st r e, existing_topic_from_query st r = inl e ->
  e = (400, str "INVALID_REQUEST") \/ e = (400, str "MISSING_ARG_TOPIC") \/ e = (400, str "INVALID_ARG_TOPIC")
  \/ e = (400, str "MISSING_ARG_CHANNEL") \/ e = (400, str "INVALID_ARG_CHANNEL") \/ e = (404, str "TOPIC_NOT_FOUND").
Proof.
  intros st r e. unfold existing_topic_from_query. break; intro H; inversion H; auto 10.
Qed.

Lemma good_existing_err : forall st r e effs, existing_topic_from_query st r = inl e -> good_h (e, effs).
Proof.
  intros st r e effs H. apply existing_topic_err in H.
  destruct H as [H|[H|[H|[H|[H|H]]]]]; subst; good_tac.
Qed.

Lemma read_msgs_err : forall n mm s acc code, read_msgs n mm s acc = inl code -> code = E_BAD_MESSAGE.
Proof.
  induction n as [|n IH]; intros mm s acc code; simpl.
  - discriminate.
  - break; intro H; try (inversion H; reflexivity). eapply IH; eauto.
Qed.

Lemma read_mpub_err : forall mm mb s code, read_mpub mm mb s = inl code ->
  code = E_BAD_BODY \/ code = E_BAD_MESSAGE.
Proof.
  intros mm mb s code. unfold read_mpub. break; intro H; try (inversion H; auto; fail).
  right. eapply read_msgs_err; eauto.
Qed.

Lemma text_loop_err : forall segs mm rm err total acc code tok,
  text_loop mm rm err segs total acc = TextErr code tok ->
  (code, tok) = (400, str "INVALID_REQUEST") \/ (code, tok) = (413, str "BODY_TOO_BIG")
  \/ (code, tok) = (413, str "MSG_TOO_BIG").
Proof.
  induction segs as [|s rest IH]; intros mm rm err total acc code tok; simpl.
  - discriminate.
  - destruct rest as [|s2 rest'].
    + break; intro H; inversion H; auto.
    + break; intro H; try (inversion H; auto; fail); eapply IH; eauto.
Qed.

Lemma good_do_pub : forall c r, healthy_env c -> good_h (do_pub c r).
Proof.
  intros c r (_ & Hex & _ & _). unfold do_pub, herr. rewrite Hex.
  break; try good_tac. eapply good_topic_err; eauto.
Qed.

Lemma good_do_mpub : forall c r, healthy_env c -> good_h (do_mpub c r).
Proof.
  intros c r (_ & Hex & _ & _). unfold do_mpub, herr. rewrite Hex.
  break; try good_tac.
  - eapply good_topic_err; eauto.
  - match goal with H : read_mpub _ _ _ = inl _ |- _ => apply read_mpub_err in H; destruct H; subst; good_tac end.
  - match goal with H : text_mpub _ _ = TextErr _ _ |- _ => unfold text_mpub in H; apply text_loop_err in H;
      destruct H as [H|[H|H]]; inversion H; subst; good_tac end.
Qed.

Lemma good_do_create_topic : forall c r, good_h (do_create_topic c r).
Proof. intros. unfold do_create_topic. break; try good_tac. eapply good_topic_err; eauto. Qed.

Lemma good_do_empty_topic : forall c st r, healthy_env c -> good_h (do_empty_topic c st r).
Proof. intros c st r (_ & _ & Hb & _). unfold do_empty_topic, herr. rewrite Hb. cbn [negb]. break; good_tac. Qed.

Lemma good_do_delete_topic : forall c st r, good_h (do_delete_topic c st r).
Proof. intros. unfold do_delete_topic, herr. break; good_tac. Qed.

Lemma good_do_pause_topic : forall c st r, good_h (do_pause_topic c st r).
Proof. intros. unfold do_pause_topic, herr. break; good_tac. Qed.

Lemma good_do_create_channel : forall c st r, good_h (do_create_channel c st r).
Proof. intros. unfold do_create_channel. break; try good_tac. eapply good_existing_err; eauto. Qed.

Lemma good_do_empty_channel : forall c st r, healthy_env c -> good_h (do_empty_channel c st r).
Proof.
  intros c st r (_ & _ & Hb & _). unfold do_empty_channel, herr. rewrite Hb. cbn [negb].
  break; try good_tac. eapply good_existing_err; eauto.
Qed.

Lemma good_do_delete_channel : forall c st r, good_h (do_delete_channel c st r).
Proof. intros. unfold do_delete_channel, herr. break; try good_tac. eapply good_existing_err; eauto. Qed.

Lemma good_do_pause_channel : forall c st r, good_h (do_pause_channel c st r).
Proof. intros. unfold do_pause_channel, herr. break; try good_tac. eapply good_existing_err; eauto. Qed.

Lemma good_do_stats : forall c r, good_h (do_stats c r).
Proof. intros. unfold do_stats, herr. break; good_tac. Qed.

Lemma good_do_config : forall c rt r, good_h (do_config c rt r).
Proof. intros. unfold do_config, herr. break; good_tac. Qed.

Lemma good_do_ping : forall c, healthy_env c -> good_h (do_ping c).
Proof. intros c (Hh & _). unfold do_ping. rewrite Hh. good_tac. Qed.

Lemma good_do_info : forall c, healthy_env c -> good_h (do_info c).
Proof. intros c (_ & _ & _ & Hn). unfold do_info. rewrite Hn. good_tac. Qed.

Lemma good_do_set_block_rate : forall r, good_h (do_set_block_rate r).
Proof. intros. unfold do_set_block_rate. break; good_tac. Qed.

(* routing: a dispatched route is a row of the table *)
Lemma find_route_in : forall m p rt, find_route m p = Some rt -> In rt routes.
Proof. intros m p rt H. unfold find_route in H. apply find_some in H. tauto. Qed.

Lemma route_request_handle_in : forall m p rt, route_request m p = RHandle rt -> In rt routes /\ find_route m p = Some rt.
Proof.
  intros m p rt. unfold route_request.
  destruct (has_tree m); [destruct (find_route m p) eqn:F|]; break; intro H; inversion H; subst.
  split; [eapply find_route_in; eauto | reflexivity].
Qed.

Lemma routes_no_unknown : forallb (fun rt => match rt_handler rt with HUnknown => false | _ => true end) routes = true.
Proof. vm_compute. reflexivity. Qed.

Lemma route_request_redirect : forall m p code, route_request m p = RRedirect code -> code = 301 \/ code = 307.
Proof.
  intros m p code. unfold route_request.
  destruct (has_tree m); [destruct (find_route m p)|]; break; intro H; inversion H; auto.
Qed.

Definition resp_good (resp : response) : Prop :=
  match resp with Resp s tok => good s tok | Pass => True end.

Lemma good_run_handler : forall c st rt r, healthy_env c -> In rt routes ->
  match fst (run_handler c st rt r) with
  | Resp s tok => good s tok
  | Pass => rt_handler rt = HPprof
  end.
Proof.
  intros c st rt r H Hin.
  pose proof routes_no_unknown as NU. rewrite forallb_forall in NU. specialize (NU rt Hin).
  unfold run_handler. destruct (rt_handler rt) eqn:E; cbn [fst]; try discriminate NU; try reflexivity.
  - apply good_do_ping; exact H.
  - apply good_do_info; exact H.
  - apply good_do_pub; exact H.
  - apply good_do_mpub; exact H.
  - apply good_do_stats.
  - apply good_do_create_topic.
  - apply good_do_delete_topic.
  - apply good_do_empty_topic; exact H.
  - apply good_do_pause_topic.
  - apply good_do_create_channel.
  - apply good_do_delete_channel.
  - apply good_do_empty_channel; exact H.
  - apply good_do_pause_channel.
  - apply good_do_config.
  - apply good_do_set_block_rate.
  - good_tac.
Qed.

(* C10_no_500: every request, whatever its method, path, query, framing and body (the
   body may even end in a read error), against every daemon state, is answered with a
   status of the documented set and the token class that goes with it; never 500.  The
   only requests the statement does not cover are the ones routed to net/http/pprof. *)
Theorem no_500 : forall c st r, healthy_env c ->
  match fst (serve c st r) with
  | Resp s tok => allowed_status s = true /\ s <> 500 /\ status_rule s tok = true
  | Pass => exists rt, route_request (r_method r) (r_path r) = RHandle rt /\ rt_handler rt = HPprof
  end.
Proof.
  intros c st r H. unfold serve.
  destruct (tls_gate c); [cbn [fst]; good_tac|].
  destruct (route_request (r_method r) (r_path r)) eqn:R; cbn [fst]; try good_tac.
  - apply route_request_handle_in in R as [Hin _].
    pose proof (good_run_handler c st rt r H Hin) as G.
    destruct (fst (run_handler c st rt r)); [exact G | exists rt; split; [reflexivity | exact G]].
  - apply route_request_redirect in R. destruct R; subst; good_tac.
Qed.

(* ------------------------------------------------------------------ dispatch of the routes the theorems talk about *)
Lemma serve_at : forall c st r rt, tls_gate c = false ->
  route_request (r_method r) (r_path r) = RHandle rt -> serve c st r = run_handler c st rt r.
Proof. intros c st r rt T R. unfold serve. rewrite T, R. reflexivity. Qed.

Definition rt_static (m : method) (p : string) (h : handler) : route := mkRoute m (str p) false h.

Lemma rr_pub : route_request MPost (str "/pub") = RHandle (rt_static MPost "/pub" HPub).
Proof. vm_compute. reflexivity. Qed.
Lemma rr_mpub : route_request MPost (str "/mpub") = RHandle (rt_static MPost "/mpub" HMpub).
Proof. vm_compute. reflexivity. Qed.

(* ------------------------------------------------------------------ defer: HTTP and DPUB agree *)
Lemma digit_not_sign : forall c, is_digit c = true -> N.eqb c 43 = false /\ N.eqb c 45 = false.
Proof. intros c H. apply is_digit_range in H. split; apply N.eqb_neq; lia. Qed.

(* strconv.ParseInt on a non-empty string of digits *)
Lemma parse_int_digits : forall ds, ds <> [] -> all_digits ds = true ->
  parse_int ds = if Z.of_N (dec_value ds) <=? max_i64 then Some (Z.of_N (dec_value ds)) else None.
Proof.
  intros [|c r] NE D; [contradiction|].
  pose proof D as D'. rewrite all_digits_cons in D'. apply andb_true_iff in D' as [Dc _].
  apply digit_not_sign in Dc as [P M].
  unfold parse_int. rewrite P, M. rewrite D. reflexivity.
Qed.

(* /pub?defer=D and DPUB ... D decide alike, and on the same Duration, for every decimal
   digit string D, however long (this is where F1 lived) *)
Lemma defer_equiv : forall mr ds, 0 <= mr < max_i64 -> ds <> [] -> all_digits ds = true ->
  http_defer mr (parse_int ds) = dpub_param mr ds.
Proof.
  intros mr ds Hmr NE D.
  rewrite (parse_int_digits ds NE D), (dpub_param_spec mr ds Hmr), D. cbn [andb].
  unfold ms_ns. set (v := Z.of_N (dec_value ds)). assert (Hv : 0 <= v) by (subst v; lia).
  destruct (v <=? max_i64) eqn:E.
  - rewrite (http_defer_spec mr (Some v) Hmr).
    replace (0 <=? v) with true by lia. cbn [andb]. reflexivity.
  - rewrite (http_defer_spec mr None Hmr).
    unfold max_i64, ns_per_ms in *.
    replace (v * 1000000 <=? mr) with false by lia. reflexivity.
Qed.

(* ------------------------------------------------------------------ /pub == PUB / DPUB *)
(* a complete request: the whole body arrived; it was sent with a Content-Length or chunked *)
Definition complete_body (r : request) (body : bytes) : Prop :=
  r_body r = body /\ r_body_err r = false /\ (r_framing r = Declared (blen body) \/ r_framing r = Chunked).

Lemma blen_firstn : forall n b, 0 <= n -> blen (firstn (Z.to_nat n) b) = Z.min n (blen b).
Proof. intros n b H. unfold blen. rewrite firstn_length. lia. Qed.

Lemma do_pub_spec : forall c r body, 0 <= max_msg c -> complete_body r body ->
  do_pub c r =
    if blen body >? max_msg c then herr 413 "MSG_TOO_BIG"
    else if blen body =? 0 then herr 400 "MSG_EMPTY"
    else match topic_from_query r with
         | inl e => (e, [])
         | inr (ps, t) =>
             let put d := if env_exiting c then ((503, str "EXITING"), [ECreateTopic t])
                          else ((200, str "OK"), [ECreateTopic t; EEnqueue t [body] d]) in
             match qget k_defer ps with
             | None => put 0
             | Some ds =>
                 match http_defer (max_req c) (parse_int ds) with
                 | DpubInvalid => ((400, str "INVALID_DEFER"), [ECreateTopic t])
                 | DpubDelay d => put d
                 end
             end
         end.
Proof.
  intros c r body Hm (Hb & He & Hf). unfold do_pub, content_length, read_limited. rewrite Hb, He.
  destruct (blen body >? max_msg c) eqn:Big.
  - destruct Hf as [Hf|Hf]; rewrite Hf.
    + rewrite Big. reflexivity.
    + replace (-1 >? max_msg c) with false by lia.
      replace (max_msg c + 1 <=? blen body) with true by lia.
      rewrite blen_firstn by lia. replace (Z.min (max_msg c + 1) (blen body) =? max_msg c + 1) with true by lia.
      reflexivity.
  - replace (match r_framing r with Declared n => n | Chunked => -1 end >? max_msg c) with false
      by (destruct Hf as [Hf|Hf]; rewrite Hf; lia).
    replace (max_msg c + 1 <=? blen body) with false by lia.
    replace (blen body =? max_msg c + 1) with false by lia.
    reflexivity.
Qed.

Lemma tcp_body_spec : forall c body,
  tcp_body c (blen body) body = if (blen body <=? 0) || (blen body >? max_msg c) then None else Some body.
Proof.
  intros c body. unfold tcp_body.
  destruct (blen body <=? 0); [reflexivity|]. destruct (blen body >? max_msg c); [reflexivity|].
  cbn [orb]. rewrite Z.ltb_irrefl. rewrite firstn_blen_self. reflexivity.
Qed.

Lemma topic_from_query_ok : forall r ps name, r_query r = QOk ps -> qget k_topic ps = Some name ->
  topic_from_query r = if is_valid_name name then inr (ps, name) else inl (400, str "INVALID_TOPIC").
Proof. intros r ps name Q T. unfold topic_from_query. rewrite Q, T. reflexivity. Qed.

Definition OKb := str "OK".

(* C10_pub_equiv, first clause: POST /pub?topic=T with body B is accepted iff PUB T with
   B is, and then both have exactly the same effects (create T if absent, enqueue B). *)
Theorem pub_equiv : forall c st r ps name body effs,
  tls_gate c = false -> 0 <= max_msg c ->
  r_method r = MPost -> r_path r = str "/pub" -> r_query r = QOk ps -> complete_body r body ->
  qget k_topic ps = Some name -> qget k_defer ps = None ->
  (serve c st r = (Resp 200 OKb, effs) <-> tcp_pub c name (blen body) body = TcpOk effs).
Proof.
  intros c st r ps name body effs T Hm M P Q CB QT QD.
  rewrite (serve_at c st r (rt_static MPost "/pub" HPub) T) by (rewrite M, P; exact rr_pub).
  unfold run_handler. cbn [rt_handler rt_static].
  rewrite (do_pub_spec c r body Hm CB), (topic_from_query_ok r ps name Q QT).
  unfold tcp_pub. rewrite tcp_body_spec.
  destruct (blen body >? max_msg c) eqn:Big.
  - rewrite orb_true_r. destruct (is_valid_name name); cbn; split; intro X; discriminate.
  - destruct (blen body =? 0) eqn:Z0.
    + replace (blen body <=? 0) with true by lia. cbn [orb].
      destruct (is_valid_name name); cbn; split; intro X; discriminate.
    + pose proof (blen_nonneg body). replace (blen body <=? 0) with false by lia. cbn [orb].
      destruct (is_valid_name name); cbn [negb]; [|cbn; split; intro X; discriminate].
      rewrite QD. destruct (env_exiting c); cbn; split; intro X; inversion X; reflexivity.
Qed.

(* ... with a delay: POST /pub?topic=T&defer=D == DPUB T D for every digit string D *)
Theorem dpub_equiv : forall c st r ps name ds body effs,
  tls_gate c = false -> 0 <= max_msg c -> 0 <= max_req c < max_i64 ->
  r_method r = MPost -> r_path r = str "/pub" -> r_query r = QOk ps -> complete_body r body ->
  qget k_topic ps = Some name -> qget k_defer ps = Some ds -> ds <> [] -> all_digits ds = true ->
  (serve c st r = (Resp 200 OKb, effs) <-> tcp_dpub c name ds (blen body) body = TcpOk effs).
Proof.
  intros c st r ps name ds body effs T Hm Hr M P Q CB QT QD NE AD.
  rewrite (serve_at c st r (rt_static MPost "/pub" HPub) T) by (rewrite M, P; exact rr_pub).
  unfold run_handler. cbn [rt_handler rt_static].
  rewrite (do_pub_spec c r body Hm CB), (topic_from_query_ok r ps name Q QT).
  unfold tcp_dpub. rewrite tcp_body_spec. rewrite <- (defer_equiv (max_req c) ds Hr NE AD).
  destruct (blen body >? max_msg c) eqn:Big.
  - rewrite orb_true_r.
    destruct (is_valid_name name); cbn; [destruct (http_defer (max_req c) (parse_int ds))|]; split; intro X; discriminate.
  - destruct (blen body =? 0) eqn:Z0.
    + replace (blen body <=? 0) with true by lia. cbn [orb].
      destruct (is_valid_name name); cbn; [destruct (http_defer (max_req c) (parse_int ds))|]; split; intro X; discriminate.
    + pose proof (blen_nonneg body). replace (blen body <=? 0) with false by lia. cbn [orb].
      destruct (is_valid_name name); cbn [negb]; [|cbn; split; intro X; discriminate].
      rewrite QD. destruct (http_defer (max_req c) (parse_int ds)); [cbn; split; intro X; discriminate|].
      destruct (env_exiting c); cbn; split; intro X; inversion X; reflexivity.
Qed.

(* ------------------------------------------------------------------ binary /mpub == MPUB *)
Lemma read_mpub_nil : forall mm mb, read_mpub mm mb [] = inl E_BAD_BODY.
Proof. intros. reflexivity. Qed.

Lemma do_mpub_binary_spec : forall c r ps name,
  r_query r = QOk ps -> qget k_topic ps = Some name -> binary_mode ps = true ->
  do_mpub c r =
    if content_length r >? max_body c then herr 413 "BODY_TOO_BIG"
    else if is_valid_name name then
      match read_mpub (max_msg c) (max_body c) (firstn (Z.to_nat (max_body c)) (r_body r)) with
      | inl code => ((413, skipn 2 code), [ECreateTopic name])
      | inr msgs => if env_exiting c then ((503, str "EXITING"), [ECreateTopic name])
                    else ((200, str "OK"), [ECreateTopic name; EEnqueue name msgs 0])
      end
    else ((400, str "INVALID_TOPIC"), []).
Proof.
  intros c r ps name Q T B. unfold do_mpub. rewrite (topic_from_query_ok r ps name Q T).
  destruct (content_length r >? max_body c); [reflexivity|].
  destruct (is_valid_name name); [rewrite B|]; reflexivity.
Qed.

(* binary /mpub with a Content-Length == MPUB whose size field is that length *)
Theorem mpub_binary_equiv_declared : forall c st r ps name payload effs,
  tls_gate c = false -> 0 <= max_body c ->
  r_method r = MPost -> r_path r = str "/mpub" -> r_query r = QOk ps ->
  qget k_topic ps = Some name -> binary_mode ps = true ->
  r_body r = payload -> r_framing r = Declared (blen payload) ->
  (serve c st r = (Resp 200 OKb, effs) <-> tcp_mpub c name (blen payload) payload = TcpOk effs).
Proof.
  intros c st r ps name P effs T Hb M Pa Q QT BM RB RF. subst P. set (P := r_body r) in *.
  rewrite (serve_at c st r (rt_static MPost "/mpub" HMpub) T) by (rewrite M, Pa; exact rr_mpub).
  unfold run_handler. cbn [rt_handler rt_static].
  rewrite (do_mpub_binary_spec c r ps name Q QT BM). unfold content_length. rewrite RF. fold P.
  unfold tcp_mpub.
  destruct (is_valid_name name); cbn [negb].
  2:{ destruct (blen P >? max_body c); cbn; split; intro X; discriminate. }
  destruct (blen P >? max_body c) eqn:Big.
  - destruct (blen P <=? 0); cbn; split; intro X; discriminate.
  - destruct (blen P <=? 0) eqn:Z0.
    + assert (PN : P = []) by (apply blen_zero; pose proof (blen_nonneg P); lia). rewrite PN.
      rewrite firstn_nil, read_mpub_nil. cbn. split; intro X; discriminate.
    + rewrite (firstn_blen P (max_body c)) by lia. rewrite firstn_blen_self.
      destruct (read_mpub (max_msg c) (max_body c) P); [cbn; split; intro X; discriminate|].
      destruct (env_exiting c); cbn; split; intro X; inversion X; reflexivity.
Qed.

(* a chunked binary /mpub is read through io.LimitReader(body, max-body-size): it is the
   MPUB of the first max-body-size bytes *)
Theorem mpub_binary_equiv_chunked : forall c st r ps name payload effs,
  tls_gate c = false -> 0 < max_body c ->
  r_method r = MPost -> r_path r = str "/mpub" -> r_query r = QOk ps ->
  qget k_topic ps = Some name -> binary_mode ps = true ->
  r_body r = payload -> r_framing r = Chunked ->
  (serve c st r = (Resp 200 OKb, effs) <->
   tcp_mpub c name (Z.min (blen payload) (max_body c)) payload = TcpOk effs).
Proof.
  intros c st r ps name P effs T Hb M Pa Q QT BM RB RF. subst P. set (P := r_body r) in *.
  rewrite (serve_at c st r (rt_static MPost "/mpub" HMpub) T) by (rewrite M, Pa; exact rr_mpub).
  unfold run_handler. cbn [rt_handler rt_static].
  rewrite (do_mpub_binary_spec c r ps name Q QT BM). unfold content_length. rewrite RF. fold P.
  replace (-1 >? max_body c) with false by lia.
  unfold tcp_mpub.
  destruct (is_valid_name name); cbn [negb]; [|cbn; split; intro X; discriminate].
  replace (Z.min (blen P) (max_body c) >? max_body c) with false by lia.
  destruct (Z.min (blen P) (max_body c) <=? 0) eqn:Z0.
  - assert (PN : P = []) by (apply blen_zero; pose proof (blen_nonneg P); lia). rewrite PN.
    rewrite firstn_nil, read_mpub_nil. cbn. split; intro X; discriminate.
  - assert (E : firstn (Z.to_nat (Z.min (blen P) (max_body c))) P = firstn (Z.to_nat (max_body c)) P).
    { destruct (Z.le_gt_cases (blen P) (max_body c)).
      - rewrite Z.min_l by lia. rewrite firstn_blen_self. symmetry. apply firstn_blen. lia.
      - rewrite Z.min_r by lia. reflexivity. }
    rewrite E.
    destruct (read_mpub (max_msg c) (max_body c) (firstn (Z.to_nat (max_body c)) P)); [cbn; split; intro X; discriminate|].
    destruct (env_exiting c); cbn; split; intro X; inversion X; reflexivity.
Qed.

(* ... hence, within the body limit, of the honest twin *)
Corollary mpub_binary_equiv_chunked_within : forall c st r ps name payload effs,
  tls_gate c = false -> 0 < max_body c -> blen payload <= max_body c ->
  r_method r = MPost -> r_path r = str "/mpub" -> r_query r = QOk ps ->
  qget k_topic ps = Some name -> binary_mode ps = true ->
  r_body r = payload -> r_framing r = Chunked ->
  (serve c st r = (Resp 200 OKb, effs) <-> tcp_mpub c name (blen payload) payload = TcpOk effs).
Proof.
  intros c st r ps name P effs T Hb Hl M Pa Q QT BM RB RF.
  rewrite (mpub_binary_equiv_chunked c st r ps name P effs T Hb M Pa Q QT BM RB RF).
  rewrite Z.min_l by lia. reflexivity.
Qed.

(* what readMPUB returns respects every limit, whatever the count and size fields say *)
Fixpoint framed_size (msgs : list bytes) : Z :=
  match msgs with [] => 0 | m :: r => 4 + blen m + framed_size r end.

Lemma blen_skipn : forall n b, 0 <= n <= blen b -> blen (skipn (Z.to_nat n) b) = blen b - n.
Proof. intros n b H. unfold blen in *. rewrite skipn_length. lia. Qed.

Lemma read_len_some : forall s z rest, read_len s = Some (z, rest) -> 4 <= blen s /\ blen rest = blen s - 4.
Proof.
  intros s z rest. unfold read_len. destruct (blen s <? 4) eqn:E; [discriminate|].
  intro H. inversion H; subst. split; [lia|]. apply (blen_skipn 4 s). lia.
Qed.

Lemma read_msgs_inv : forall n mm s acc msgs, read_msgs n mm s acc = inr msgs ->
  exists new, msgs = acc ++ new /\ length new = n /\
              Forall (fun m => 1 <= blen m <= mm) new /\ framed_size new <= blen s.
Proof.
  induction n as [|n IH]; intros mm s acc msgs; simpl.
  - intro H. inversion H; subst. exists []. rewrite app_nil_r. repeat split; auto. cbn [framed_size]. apply blen_nonneg.
  - destruct (read_len s) as [[size rest]|] eqn:RL; [|discriminate].
    destruct (size <=? 0) eqn:A; [discriminate|]. destruct (size >? mm) eqn:B; [discriminate|].
    destruct (blen rest <? size) eqn:C; [discriminate|].
    intro H. apply IH in H as (new & E & L & F & S).
    apply read_len_some in RL as [R1 R2].
    exists (firstn (Z.to_nat size) rest :: new).
    assert (BL : blen (firstn (Z.to_nat size) rest) = size) by (rewrite blen_firstn by lia; lia).
    split; [rewrite E, <- app_assoc; reflexivity|].
    split; [simpl; lia|]. split.
    + constructor; [rewrite BL; lia | exact F].
    + cbn [framed_size]. rewrite BL. rewrite blen_skipn in S by lia. lia.
Qed.

Theorem read_mpub_within_limits : forall mm mb s msgs, read_mpub mm mb s = inr msgs ->
  Forall (fun m => 1 <= blen m <= mm) msgs /\
  1 <= blen_list msgs <= Z.quot (mb - 4) 5 /\
  4 + framed_size msgs <= blen s.
Proof.
  intros mm mb s msgs. unfold read_mpub.
  destruct (read_len s) as [[count rest]|] eqn:RL; [|discriminate].
  destruct ((count <=? 0) || (count >? Z.quot (mb - 4) 5)) eqn:A; [discriminate|].
  intro H. apply read_msgs_inv in H as (new & E & L & F & S). simpl in E. subst new.
  apply read_len_some in RL as [R1 R2]. apply orb_false_iff in A as [A1 A2].
  split; [exact F|]. unfold blen_list. split; lia.
Qed.

(* the body limit holds for every accepted binary /mpub, declared or chunked (F11) *)
Corollary mpub_binary_body_limit : forall c st r ps name msgs d,
  tls_gate c = false -> 0 <= max_body c ->
  r_method r = MPost -> r_path r = str "/mpub" -> r_query r = QOk ps ->
  qget k_topic ps = Some name -> binary_mode ps = true ->
  In (EEnqueue name msgs d) (snd (serve c st r)) ->
  4 + framed_size msgs <= max_body c /\ Forall (fun m => 1 <= blen m <= max_msg c) msgs.
Proof.
  intros c st r ps name msgs d T Hb M Pa Q QT BM.
  rewrite (serve_at c st r (rt_static MPost "/mpub" HMpub) T) by (rewrite M, Pa; exact rr_mpub).
  unfold run_handler. cbn [rt_handler rt_static].
  rewrite (do_mpub_binary_spec c r ps name Q QT BM).
  destruct (content_length r >? max_body c); [cbn [snd fst In herr]; tauto|].
  destruct (is_valid_name name); [|cbn [snd fst In]; tauto].
  destruct (read_mpub (max_msg c) (max_body c) (firstn (Z.to_nat (max_body c)) (r_body r))) as [code|ms] eqn:RM.
  - cbn [snd fst In]. intros [X|[]]. discriminate.
  - destruct (env_exiting c); cbn [snd fst In].
    + intros [X|[]]. discriminate.
    + intros [X|[X|[]]]; [discriminate|]. inversion X; subst.
      apply read_mpub_within_limits in RM as (F & _ & S).
      rewrite blen_firstn in S by lia. split; [lia | exact F].
Qed.

(* ------------------------------------------------------------------ text /mpub *)
Fixpoint seg_total (segs : list bytes) : Z :=
  match segs with
  | [] => 0
  | [s] => blen s
  | s :: rest => blen s + 1 + seg_total rest
  end.

Lemma split_nl_nonnil : forall b, split_nl b <> [].
Proof.
  induction b as [|c r IH]; simpl; [discriminate|].
  destruct (N.eqb c nl); [discriminate|]. destruct (split_nl r); [contradiction|discriminate].
Qed.

Lemma seg_total_cons : forall s rest, rest <> [] -> seg_total (s :: rest) = blen s + 1 + seg_total rest.
Proof. intros s [|x rest] H; [contradiction|reflexivity]. Qed.

Lemma blen_cons : forall x b, blen (x :: b) = 1 + blen b.
Proof. intros. unfold blen. simpl length. lia. Qed.

(* the segments between newlines account for every byte of the body *)
Lemma split_nl_total : forall b, seg_total (split_nl b) = blen b.
Proof.
  induction b as [|c r IH]; [reflexivity|].
  simpl split_nl. destruct (N.eqb c nl).
  - rewrite seg_total_cons by apply split_nl_nonnil. rewrite IH, blen_cons. change (blen []) with 0. lia.
  - pose proof (split_nl_nonnil r) as NN. destruct (split_nl r) as [|f fs]; [contradiction|]. cbv iota beta.
    rewrite blen_cons. rewrite <- IH.
    destruct fs as [|g fs'].
    + cbn [seg_total]. rewrite blen_cons. lia.
    + change (seg_total ((c :: f) :: g :: fs')) with (blen (c :: f) + 1 + seg_total (g :: fs')). change (seg_total (f :: g :: fs')) with (blen f + 1 + seg_total (g :: fs')). rewrite blen_cons. lia.
Qed.

Definition seg_ok (mm : Z) (s : bytes) : bool := blen s <=? mm.
Definition nonempty_b (s : bytes) : bool := negb (is_nil s).
(* the messages of a text body: its non-empty lines *)
Definition text_msgs (body : bytes) : list bytes := filter nonempty_b (split_nl body).

Lemma blen_eq0_nil : forall s, (blen s =? 0) = is_nil s.
Proof. intros [|x s]; [reflexivity|]. rewrite blen_cons. pose proof (blen_nonneg s). cbn [is_nil]. lia. Qed.

Lemma seg_total_nonneg : forall segs, 0 <= seg_total segs.
Proof.
  induction segs as [|s rest IH]; [simpl; lia|].
  destruct rest; [simpl; apply blen_nonneg|]. rewrite seg_total_cons by discriminate.
  pose proof (blen_nonneg s). lia.
Qed.

(* below the read limit: the loop keeps exactly the non-empty segments, unless one is too long *)
Lemma text_loop_below : forall segs mm rm total acc, 0 <= mm -> segs <> [] ->
  total + seg_total segs < rm ->
  text_loop mm rm false segs total acc =
    if forallb (seg_ok mm) segs then TextOk (acc ++ filter nonempty_b segs)
    else TextErr 413 (str "MSG_TOO_BIG").
Proof.
  induction segs as [|s rest IH]; intros mm rm total acc Hm NE Lt; [contradiction|].
  destruct rest as [|s2 rest'].
  - cbn [text_loop seg_total] in *. cbn [forallb filter]. unfold seg_ok, nonempty_b.
    replace (total + blen s =? rm) with false by lia.
    rewrite blen_eq0_nil. destruct s as [|x s']; cbn [is_nil negb].
    + replace (blen [] <=? mm) with true by (unfold blen; simpl; lia). rewrite app_nil_r. reflexivity.
    + destruct (blen (x :: s') >? mm) eqn:B.
      * replace (blen (x :: s') <=? mm) with false by lia. reflexivity.
      * replace (blen (x :: s') <=? mm) with true by lia. reflexivity.
  - rewrite seg_total_cons in Lt by discriminate.
    pose proof (seg_total_nonneg (s2 :: rest')) as NNs. pose proof (blen_nonneg s) as NNb.
    change (text_loop mm rm false (s :: s2 :: rest') total acc) with
      (let total' := total + blen s + 1 in
       if total' =? rm then TextErr 413 (str "BODY_TOO_BIG")
       else if blen s =? 0 then text_loop mm rm false (s2 :: rest') total' acc
       else if blen s >? mm then TextErr 413 (str "MSG_TOO_BIG")
       else text_loop mm rm false (s2 :: rest') total' (acc ++ [s])).
    cbv zeta. replace (total + blen s + 1 =? rm) with false by lia.
    rewrite blen_eq0_nil.
    change (forallb (seg_ok mm) (s :: s2 :: rest')) with (seg_ok mm s && forallb (seg_ok mm) (s2 :: rest')).
    change (filter nonempty_b (s :: s2 :: rest')) with
      (if nonempty_b s then s :: filter nonempty_b (s2 :: rest') else filter nonempty_b (s2 :: rest')).
    unfold nonempty_b at 1. unfold seg_ok at 1.
    destruct s as [|x s']; cbn [is_nil negb].
    + replace (blen [] <=? mm) with true by (unfold blen; simpl; lia). cbn [andb].
      apply IH; [exact Hm | discriminate | lia].
    + destruct (blen (x :: s') >? mm) eqn:B.
      * replace (blen (x :: s') <=? mm) with false by lia. reflexivity.
      * replace (blen (x :: s') <=? mm) with true by lia. cbn [andb].
        rewrite IH by (try exact Hm; try discriminate; lia).
        rewrite <- app_assoc. reflexivity.
Qed.

(* at the read limit (the body has more than max-body-size bytes): always 413 *)
Lemma text_loop_at_limit : forall segs mm rm total acc, segs <> [] ->
  total + seg_total segs = rm ->
  exists tok, text_loop mm rm false segs total acc = TextErr 413 tok.
Proof.
  induction segs as [|s rest IH]; intros mm rm total acc NE Eq; [contradiction|].
  destruct rest as [|s2 rest'].
  - cbn [text_loop seg_total] in *. replace (total + blen s =? rm) with true by lia. eexists; reflexivity.
  - rewrite seg_total_cons in Eq by discriminate.
    change (text_loop mm rm false (s :: s2 :: rest') total acc) with
      (let total' := total + blen s + 1 in
       if total' =? rm then TextErr 413 (str "BODY_TOO_BIG")
       else if blen s =? 0 then text_loop mm rm false (s2 :: rest') total' acc
       else if blen s >? mm then TextErr 413 (str "MSG_TOO_BIG")
       else text_loop mm rm false (s2 :: rest') total' (acc ++ [s])).
    cbv zeta. destruct (total + blen s + 1 =? rm); [eexists; reflexivity|].
    destruct (blen s =? 0); [apply IH; [discriminate | lia]|].
    destruct (blen s >? mm); [eexists; reflexivity|]. apply IH; [discriminate | lia].
Qed.

(* a body that ends in a read error never yields a batch *)
Lemma text_loop_read_error : forall segs mm rm total acc, segs <> [] ->
  exists code tok, text_loop mm rm true segs total acc = TextErr code tok.
Proof.
  induction segs as [|s rest IH]; intros mm rm total acc NE; [contradiction|].
  destruct rest as [|s2 rest'].
  - cbn [text_loop]. do 2 eexists; reflexivity.
  - change (text_loop mm rm true (s :: s2 :: rest') total acc) with
      (let total' := total + blen s + 1 in
       if total' =? rm then TextErr 413 (str "BODY_TOO_BIG")
       else if blen s =? 0 then text_loop mm rm true (s2 :: rest') total' acc
       else if blen s >? mm then TextErr 413 (str "MSG_TOO_BIG")
       else text_loop mm rm true (s2 :: rest') total' (acc ++ [s])).
    cbv zeta. destruct (total + blen s + 1 =? rm); [do 2 eexists; reflexivity|].
    destruct (blen s =? 0); [apply IH; discriminate|].
    destruct (blen s >? mm); [do 2 eexists; reflexivity|]. apply IH; discriminate.
Qed.

(* the exact rule of text /mpub for a complete body: the WHOLE body must fit max-body-size,
   EVERY line must fit max-msg-size (one oversize line refuses the whole request), and
   the batch is the non-empty lines in order *)
Theorem text_mpub_spec : forall c r body, 0 <= max_msg c -> 0 <= max_body c ->
  r_body r = body -> r_body_err r = false ->
  text_mpub c r =
    if blen body <=? max_body c then
      (if forallb (seg_ok (max_msg c)) (split_nl body) then TextOk (text_msgs body)
       else TextErr 413 (str "MSG_TOO_BIG"))
    else match text_mpub c r with TextErr 413 tok => TextErr 413 tok | _ => TextOk [] end.
Proof.
  intros c r body Hm Hb RB RE. unfold text_mpub at 1. rewrite RB, RE. cbn [andb].
  destruct (blen body <=? max_body c) eqn:Fit.
  - rewrite firstn_blen by lia.
    rewrite text_loop_below; [reflexivity | exact Hm | apply split_nl_nonnil | rewrite split_nl_total; lia].
  - unfold text_mpub. rewrite RB, RE. cbn [andb].
    destruct (text_loop_at_limit (split_nl (firstn (Z.to_nat (max_body c + 1)) body)) (max_msg c) (max_body c + 1) 0 [])
      as [tok E]; [apply split_nl_nonnil | rewrite split_nl_total, blen_firstn by lia; lia|].
    rewrite E. reflexivity.
Qed.

Corollary text_mpub_oversize_413 : forall c r body, 0 <= max_msg c -> 0 <= max_body c ->
  r_body r = body -> r_body_err r = false -> max_body c < blen body ->
  exists tok, text_mpub c r = TextErr 413 tok.
Proof.
  intros c r body Hm Hb RB RE Big. unfold text_mpub. rewrite RB, RE. cbn [andb].
  apply text_loop_at_limit; [apply split_nl_nonnil | rewrite split_nl_total, blen_firstn by lia; lia].
Qed.

(* ------------------------------------------------------------------ text /mpub == MPUB of the non-empty lines *)
(* binary.BigEndian.PutUint32 of a non-negative int32 *)
Definition enc32 (z : Z) : bytes :=
  let n := Z.to_N z in
  [(n / 16777216) mod 256; (n / 65536) mod 256; (n / 256) mod 256; n mod 256]%N.
(* the MPUB body for a batch: [count][size msg]... *)
Definition mpub_frame (msgs : list bytes) : bytes :=
  enc32 (blen_list msgs) ++ flat_map (fun m => enc32 (blen m) ++ m) msgs.

Lemma be32_enc32 : forall z, 0 <= z < two31 -> be32 (enc32 z) = z.
Proof.
  intros z H. unfold enc32, be32, two31, two32 in *.
  set (n := Z.to_N z). assert (Hn : Z.of_N n = z) by (subst n; lia).
  assert (Hlt : (n < 2147483648)%N) by lia. clearbody n.
  assert (E : Z.of_N ((n / 16777216) mod 256) * 16777216 + Z.of_N ((n / 65536) mod 256) * 65536 +
          Z.of_N ((n / 256) mod 256) * 256 + Z.of_N (n mod 256) = Z.of_N n).
  { pose proof (N.div_mod n 256) as D0. pose proof (N.div_mod (n / 256) 256) as D1.
    pose proof (N.div_mod (n / 65536) 256) as D2.
    assert (Q1 : (n / 256 / 256 = n / 65536)%N) by (rewrite N.div_div by lia; reflexivity).
    assert (Q2 : (n / 65536 / 256 = n / 16777216)%N) by (rewrite N.div_div by lia; reflexivity).
    assert (S : (n / 16777216 < 256)%N) by (apply N.div_lt_upper_bound; lia).
    rewrite (N.mod_small (n / 16777216) 256) by exact S.
    rewrite Q1 in D1. rewrite Q2 in D2. lia. }
  rewrite E, Hn. replace (z <? 2147483648) with true by lia. reflexivity.
Qed.

Lemma enc32_len : forall z, blen (enc32 z) = 4.
Proof. intros. reflexivity. Qed.

Lemma read_len_enc32 : forall z rest, 0 <= z < two31 -> read_len (enc32 z ++ rest) = Some (z, rest).
Proof.
  intros z rest H. unfold read_len.
  assert (L : blen (enc32 z ++ rest) = 4 + blen rest) by (unfold blen; rewrite app_length; simpl length; lia).
  rewrite L. pose proof (blen_nonneg rest). replace (4 + blen rest <? 4) with false by lia.
  change (firstn 4 (enc32 z ++ rest)) with (enc32 z). change (skipn 4 (enc32 z ++ rest)) with rest.
  rewrite be32_enc32 by exact H. reflexivity.
Qed.

Definition msg_ok (mm : Z) (m : bytes) : bool := (1 <=? blen m) && (blen m <=? mm).

Lemma firstn_app_exact : forall (a b : bytes), firstn (Z.to_nat (blen a)) (a ++ b) = a.
Proof.
  intros a b. unfold blen. rewrite Nat2Z.id. rewrite firstn_app, Nat.sub_diag. simpl.
  rewrite firstn_all, app_nil_r. reflexivity.
Qed.
Lemma skipn_app_exact : forall (a b : bytes), skipn (Z.to_nat (blen a)) (a ++ b) = b.
Proof.
  intros a b. unfold blen. rewrite Nat2Z.id. rewrite skipn_app, Nat.sub_diag, skipn_all. reflexivity.
Qed.

(* reading back a framed batch: either every message passes the per-message check and
   the batch is returned unchanged, or the batch is refused *)
Lemma read_msgs_frame : forall msgs mm tail acc, mm < two31 ->
  Forall (fun m => blen m < two31) msgs ->
  read_msgs (length msgs) mm (flat_map (fun m => enc32 (blen m) ++ m) msgs ++ tail) acc =
    if forallb (msg_ok mm) msgs then inr (acc ++ msgs) else inl E_BAD_MESSAGE.
Proof.
  induction msgs as [|m msgs IH]; intros mm tail acc Hmm Hsz.
  - simpl. rewrite app_nil_r. reflexivity.
  - inversion Hsz as [|? ? Hm Hrest]; subst.
    cbn [length flat_map forallb]. rewrite <- !app_assoc.
    cbn [read_msgs]. unfold msg_ok at 1.
    pose proof (blen_nonneg m) as NNm.
    rewrite read_len_enc32 by lia.
    destruct (blen m <=? mm) eqn:B.
    + destruct (1 <=? blen m) eqn:A; cbn [andb].
      * replace (blen m <=? 0) with false by lia. replace (blen m >? mm) with false by lia.
        assert (L : blen (m ++ flat_map (fun m0 => enc32 (blen m0) ++ m0) msgs ++ tail) =
                    blen m + blen (flat_map (fun m0 => enc32 (blen m0) ++ m0) msgs ++ tail))
          by (unfold blen; rewrite app_length; lia).
        rewrite L. pose proof (blen_nonneg (flat_map (fun m0 => enc32 (blen m0) ++ m0) msgs ++ tail)).
        match goal with |- context [?a <? blen m] => replace (a <? blen m) with false by lia end.
        rewrite firstn_app_exact, skipn_app_exact. rewrite IH by assumption.
        rewrite <- app_assoc. reflexivity.
      * replace (blen m <=? 0) with true by lia. reflexivity.
    + rewrite andb_false_r.
      destruct (blen m <=? 0); [reflexivity|]. replace (blen m >? mm) with true by lia. reflexivity.
Qed.

Lemma read_mpub_frame : forall msgs mm mb, mm < two31 -> blen_list msgs < two31 ->
  Forall (fun m => blen m < two31) msgs ->
  read_mpub mm mb (mpub_frame msgs) =
    if (blen_list msgs <=? 0) || (blen_list msgs >? Z.quot (mb - 4) 5) then inl E_BAD_BODY
    else if forallb (msg_ok mm) msgs then inr msgs else inl E_BAD_MESSAGE.
Proof.
  intros msgs mm mb Hmm Hc Hsz. unfold read_mpub, mpub_frame.
  rewrite read_len_enc32 by (unfold blen_list in *; lia).
  destruct ((blen_list msgs <=? 0) || (blen_list msgs >? Z.quot (mb - 4) 5)); [reflexivity|].
  unfold blen_list. rewrite Nat2Z.id.
  rewrite <- (app_nil_r (flat_map _ msgs)). rewrite read_msgs_frame by assumption. reflexivity.
Qed.

Lemma seg_le_total : forall segs s, In s segs -> blen s <= seg_total segs.
Proof.
  induction segs as [|x rest IH]; intros s H; [contradiction|].
  destruct rest as [|y rest'].
  - destruct H as [H|[]]. subst. cbn [seg_total]. lia.
  - rewrite seg_total_cons by discriminate. pose proof (blen_nonneg x).
    pose proof (seg_total_nonneg (y :: rest')).
    destruct H as [H|H]; [subst; lia|]. apply IH in H. lia.
Qed.

Lemma text_msgs_small : forall body, Forall (fun m => blen m <= blen body) (text_msgs body).
Proof.
  intro body. apply Forall_forall. intros m H. unfold text_msgs in H. apply filter_In in H as [H _].
  apply seg_le_total in H. rewrite split_nl_total in H. exact H.
Qed.

(* a non-empty line passes the TCP per-message check iff it fits max-msg-size; the empty
   lines pass the HTTP check trivially and are dropped *)
Lemma text_checks_agree : forall mm segs, 0 <= mm ->
  forallb (seg_ok mm) segs = forallb (msg_ok mm) (filter nonempty_b segs).
Proof.
  intros mm segs Hm. induction segs as [|s rest IH]; [reflexivity|].
  cbn [forallb filter]. unfold nonempty_b at 1. destruct s as [|x s']; cbn [is_nil negb].
  - unfold seg_ok at 1. change (blen []) with 0. replace (0 <=? mm) with true by lia. exact IH.
  - cbn [forallb]. rewrite IH. unfold seg_ok, msg_ok. rewrite blen_cons. pose proof (blen_nonneg s').
    replace (1 <=? 1 + blen s') with true by lia. reflexivity.
Qed.

Lemma do_mpub_text_spec : forall c r ps name,
  r_query r = QOk ps -> qget k_topic ps = Some name -> binary_mode ps = false ->
  do_mpub c r =
    if content_length r >? max_body c then herr 413 "BODY_TOO_BIG"
    else if is_valid_name name then
      match text_mpub c r with
      | TextErr code tok => ((code, tok), [ECreateTopic name])
      | TextOk msgs => if env_exiting c then ((503, str "EXITING"), [ECreateTopic name])
                       else ((200, str "OK"), [ECreateTopic name; EEnqueue name msgs 0])
      end
    else ((400, str "INVALID_TOPIC"), []).
Proof.
  intros c r ps name Q T B. unfold do_mpub. rewrite (topic_from_query_ok r ps name Q T).
  destruct (content_length r >? max_body c); [reflexivity|].
  destruct (is_valid_name name); [rewrite B|]; reflexivity.
Qed.

(* The exact acceptance rule of text /mpub, for a complete request *)
Theorem mpub_text_accept : forall c st r ps name body effs,
  tls_gate c = false -> 0 <= max_msg c -> 0 <= max_body c ->
  r_method r = MPost -> r_path r = str "/mpub" -> r_query r = QOk ps -> complete_body r body ->
  qget k_topic ps = Some name -> binary_mode ps = false ->
  (serve c st r = (Resp 200 OKb, effs) <->
   (is_valid_name name = true /\ env_exiting c = false /\ blen body <= max_body c /\
    forallb (msg_ok (max_msg c)) (text_msgs body) = true /\
    effs = [ECreateTopic name; EEnqueue name (text_msgs body) 0])).
Proof.
  intros c st r ps name body effs T Hm Hb M Pa Q (RB & RE & RF) QT BM.
  rewrite (serve_at c st r (rt_static MPost "/mpub" HMpub) T) by (rewrite M, Pa; exact rr_mpub).
  unfold run_handler. cbn [rt_handler rt_static].
  rewrite (do_mpub_text_spec c r ps name Q QT BM).
  unfold text_msgs. rewrite <- (text_checks_agree (max_msg c) (split_nl body) Hm).
  assert (CL : (content_length r >? max_body c) = true -> (blen body <=? max_body c) = false).
  { unfold content_length. destruct RF as [RF|RF]; rewrite RF; lia. }
  destruct (content_length r >? max_body c) eqn:Big.
  - specialize (CL eq_refl). cbn. split; [intro X; discriminate | intros (_ & _ & X & _); lia].
  - destruct (is_valid_name name); [|cbn; split; [intro X; discriminate | intros (X & _); discriminate]].
    destruct (blen body <=? max_body c) eqn:Fit.
    + rewrite (text_mpub_spec c r body Hm Hb RB RE), Fit.
      destruct (forallb (seg_ok (max_msg c)) (split_nl body)) eqn:OKs.
      * destruct (env_exiting c); cbn.
        -- split; [intro X; discriminate | intros (_ & X & _); discriminate].
        -- split; [intro X; inversion X; repeat split; lia | intros (_ & _ & _ & _ & X); subst; reflexivity].
      * cbn. split; [intro X; discriminate | intros (_ & _ & _ & X & _); discriminate].
    + destruct (text_mpub_oversize_413 c r body Hm Hb RB RE) as [tok E]; [lia|]. rewrite E.
      cbn. split; [intro X; discriminate | intros (_ & _ & X & _); lia].
Qed.

(* the TCP framing of the batch is itself within the limits MPUB applies to ITS body:
   count <= (max-body-size - 4) / 5 and 4 + sum (4 + len) <= max-body-size *)
Definition tcp_framing_fits (c : cfg) (msgs : list bytes) : Prop :=
  1 <= blen_list msgs <= Z.quot (max_body c - 4) 5 /\ blen (mpub_frame msgs) <= max_body c.

Lemma mpub_frame_len_ge4 : forall msgs, 4 <= blen (mpub_frame msgs).
Proof.
  intro msgs. unfold mpub_frame, blen. rewrite app_length. simpl length. lia.
Qed.

(* C10_pub_equiv, text clause: where both framings fit, text /mpub is accepted iff the MPUB of
   its non-empty lines is, with the same effects *)
Theorem mpub_text_equiv : forall c st r ps name body effs,
  tls_gate c = false -> 0 <= max_msg c < two31 -> 0 <= max_body c < two31 ->
  r_method r = MPost -> r_path r = str "/mpub" -> r_query r = QOk ps -> complete_body r body ->
  qget k_topic ps = Some name -> binary_mode ps = false ->
  blen body <= max_body c -> tcp_framing_fits c (text_msgs body) ->
  (serve c st r = (Resp 200 OKb, effs) <->
   tcp_mpub c name (blen (mpub_frame (text_msgs body))) (mpub_frame (text_msgs body)) = TcpOk effs).
Proof.
  intros c st r ps name body effs T Hm Hb M Pa Q CB QT BM Fit ((C1 & C2) & FS).
  rewrite (mpub_text_accept c st r ps name body effs T) by (try assumption; lia).
  unfold tcp_mpub. pose proof (mpub_frame_len_ge4 (text_msgs body)) as G4.
  replace (blen (mpub_frame (text_msgs body)) <=? 0) with false by lia.
  replace (blen (mpub_frame (text_msgs body)) >? max_body c) with false by lia.
  rewrite firstn_blen_self.
  assert (Hc : blen_list (text_msgs body) < two31).
  { assert (Z.quot (max_body c - 4) 5 <= max_body c) by (apply Z.quot_le_upper_bound; lia). lia. }
  assert (Hs : Forall (fun m => blen m < two31) (text_msgs body)).
  { eapply Forall_impl; [|apply text_msgs_small]. cbv beta. intros m X. lia. }
  rewrite read_mpub_frame by (try assumption; lia).
  replace ((blen_list (text_msgs body) <=? 0) || (blen_list (text_msgs body) >? Z.quot (max_body c - 4) 5))
    with false by lia.
  destruct (is_valid_name name); cbn [negb].
  2:{ split; [intros (X & _); discriminate | intro X; discriminate]. }
  destruct (forallb (msg_ok (max_msg c)) (text_msgs body)).
  - destruct (env_exiting c).
    + split; [intros (_ & X & _); discriminate | intro X; discriminate].
    + split; [intros (_ & _ & _ & _ & X); subst; reflexivity | intro X; inversion X; repeat split; assumption].
  - split; [intros (_ & _ & _ & X & _); discriminate | intro X; discriminate].
Qed.

(* Where the two differ (documented asymmetries, not defects): HTTP measures the text body
   (1 byte of framing per line), MPUB measures its binary body (4 bytes per message + 4). *)
Definition cfg_small : cfg := mkCfg 64 320 3600000000000 false true false true true [].
Definition text_req (body : bytes) : request :=
  mkReq MPost (str "/mpub") (QOk [(str "topic", str "t")]) (Declared (blen body)) body false false.
Definition lines_of (k : nat) : bytes := flat_map (fun _ => [97%N; 10%N]) (seq 0 k).

(* (i) no non-empty line: 200 OK and an empty batch, where MPUB (count 0) is E_BAD_BODY *)
Lemma text_mpub_gap_empty_batch :
  serve cfg_small [] (text_req [10%N; 10%N]) = (Resp 200 OKb, [ECreateTopic (str "t"); EEnqueue (str "t") [] 0]) /\
  tcp_mpub cfg_small (str "t") 4 (mpub_frame []) = TcpErr E_BAD_BODY [ECreateTopic (str "t")].
Proof. vm_compute. split; reflexivity. Qed.

(* (ii) 100 one-byte lines = 200 bytes of text (accepted), 504 bytes and count 100 > 63 as MPUB (refused) *)
Lemma text_mpub_gap_count :
  fst (serve cfg_small [] (text_req (lines_of 100))) = Resp 200 OKb /\
  tcp_mpub cfg_small (str "t") (blen (mpub_frame (text_msgs (lines_of 100)))) (mpub_frame (text_msgs (lines_of 100)))
    = TcpErr E_BAD_BODY [ECreateTopic (str "t")].
Proof. vm_compute. split; reflexivity. Qed.

(* (iii) blank lines count against the text body limit only *)
Lemma text_mpub_gap_blank_lines :
  let body := (repeat 10%N 320 ++ [97%N])%list in
  fst (serve cfg_small [] (text_req body)) = Resp 413 (str "BODY_TOO_BIG") /\
  tcp_mpub cfg_small (str "t") (blen (mpub_frame (text_msgs body))) (mpub_frame (text_msgs body))
    = TcpOk [ECreateTopic (str "t"); EEnqueue (str "t") [[97%N]] 0].
Proof. vm_compute. split; reflexivity. Qed.

(* ------------------------------------------------------------------ C10_admin_effect *)
Lemma lookup_update_other : forall (A : Type) k k' (f : A -> A) l, k' <> k -> lookup k' (update k f l) = lookup k' l.
Proof.
  intros A k k' f l NE. induction l as [|[k0 v] l IH]; [reflexivity|].
  simpl. destruct (bytes_eqb k k0) eqn:E.
  - apply bytes_eqb_eq in E. subst k0. simpl.
    destruct (bytes_eqb k' k) eqn:E2; [apply bytes_eqb_eq in E2; contradiction | reflexivity].
  - simpl. destruct (bytes_eqb k' k0); [reflexivity | exact IH].
Qed.

Lemma lookup_update_same : forall (A : Type) k (f : A -> A) l, lookup k (update k f l) = option_map f (lookup k l).
Proof.
  intros A k f l. induction l as [|[k0 v] l IH]; [reflexivity|].
  simpl. destruct (bytes_eqb k k0) eqn:E; simpl; rewrite E; [reflexivity | exact IH].
Qed.

Lemma lookup_remove_other : forall (A : Type) k k' (l : list (bytes * A)), k' <> k -> lookup k' (remove_key k l) = lookup k' l.
Proof.
  intros A k k' l NE. induction l as [|[k0 v] l IH]; [reflexivity|].
  simpl. destruct (bytes_eqb k k0) eqn:E.
  - apply bytes_eqb_eq in E. subst k0.
    destruct (bytes_eqb k' k) eqn:E2; [apply bytes_eqb_eq in E2; contradiction | exact IH].
  - simpl. destruct (bytes_eqb k' k0); [reflexivity | exact IH].
Qed.

Lemma lookup_remove_same : forall (A : Type) k (l : list (bytes * A)), lookup k (remove_key k l) = None.
Proof.
  intros A k l. induction l as [|[k0 v] l IH]; [reflexivity|].
  simpl. destruct (bytes_eqb k k0) eqn:E; [exact IH | simpl; rewrite E; exact IH].
Qed.

Lemma lookup_app_other : forall (A : Type) k k' (v : A) l, k' <> k -> lookup k' (l ++ [(k, v)]) = lookup k' l.
Proof.
  intros A k k' v l NE. induction l as [|[k0 v0] l IH]; simpl.
  - destruct (bytes_eqb k' k) eqn:E; [apply bytes_eqb_eq in E; contradiction | reflexivity].
  - destruct (bytes_eqb k' k0); [reflexivity | exact IH].
Qed.

Lemma lookup_settle : forall t st, lookup t (settle st) = option_map settle_topic (lookup t st).
Proof.
  intros t st. induction st as [|[k v] st IH]; [reflexivity|].
  simpl. destruct (bytes_eqb t k); [reflexivity | exact IH].
Qed.

(* the topic an effect is about *)
Definition effect_topic (e : effect) : option bytes :=
  match e with
  | ECreateTopic t | EEnqueue t _ _ | ECreateChannel t _ | EDeleteTopic t | EDeleteChannel t _
  | EEmptyTopic t | EEmptyChannel t _ | EPauseTopic t _ | EPauseChannel t _ _ => Some t
  | EPersist | ESetConfig _ _ => None
  end.

(* an effect changes nothing about any other topic *)
Lemma apply_effect_other_topic : forall st e t', effect_topic e <> Some t' ->
  lookup t' (apply_effect st e) = lookup t' st.
Proof.
  intros st e t' NE.
  assert (X : forall t, effect_topic e = Some t -> t' <> t) by (intros t E1 E2; subst; contradiction).
  destruct e; cbn [effect_topic] in X; cbn [apply_effect]; try reflexivity;
    try (apply lookup_update_other; apply X; reflexivity);
    try (apply lookup_remove_other; apply X; reflexivity).
  - destruct (topic_exists st t); [reflexivity | apply lookup_app_other; apply X; reflexivity].
  - destruct (lookup t st); [|reflexivity].
    destruct (is_nil (remove_key c (ts_chans t0)) && has_ephemeral_suffix t);
      [apply lookup_remove_other | apply lookup_update_other]; apply X; reflexivity.
Qed.

Lemma apply_effects_other_topic : forall es st t', Forall (fun e => effect_topic e <> Some t') es ->
  lookup t' (apply_effects st es) = lookup t' st.
Proof.
  induction es as [|e es IH]; intros st t' F; [reflexivity|].
  inversion F; subst. unfold apply_effects in *. cbn [fold_left]. rewrite IH by assumption.
  apply apply_effect_other_topic. assumption.
Qed.

(* channel operations leave the topic's own flags and its other channels alone *)
Lemma chan_op_frame : forall st t ch (f : chan_st -> chan_st) ts,
  lookup t st = Some ts ->
  exists ts', lookup t (update t (set_chans (update ch f)) st) = Some ts' /\
    ts_paused ts' = ts_paused ts /\ ts_depth ts' = ts_depth ts /\
    lookup ch (ts_chans ts') = option_map f (lookup ch (ts_chans ts)) /\
    forall ch', ch' <> ch -> lookup ch' (ts_chans ts') = lookup ch' (ts_chans ts).
Proof.
  intros st t ch f ts L. rewrite lookup_update_same, L. cbn [option_map].
  eexists; split; [reflexivity|]. cbn [set_chans ts_paused ts_depth ts_chans].
  repeat split; [apply lookup_update_same | intros; apply lookup_update_other; assumption].
Qed.

Inductive admin_op :=
| OpCreateTopic | OpDeleteTopic | OpEmptyTopic | OpPauseTopic (p : bool)
| OpCreateChannel | OpDeleteChannel | OpEmptyChannel | OpPauseChannel (p : bool).

Definition admin_paths : list (string * admin_op) := [
  ("/topic/create", OpCreateTopic); ("/topic/delete", OpDeleteTopic); ("/topic/empty", OpEmptyTopic);
  ("/topic/pause", OpPauseTopic true); ("/topic/unpause", OpPauseTopic false);
  ("/channel/create", OpCreateChannel); ("/channel/delete", OpDeleteChannel); ("/channel/empty", OpEmptyChannel);
  ("/channel/pause", OpPauseChannel true); ("/channel/unpause", OpPauseChannel false)]%string.

(* the stated effect of each endpoint on (topic t, channel ch) *)
Definition op_effects (op : admin_op) (t ch : bytes) : list effect :=
  match op with
  | OpCreateTopic => [ECreateTopic t]
  | OpDeleteTopic => [EDeleteTopic t]
  | OpEmptyTopic => [EEmptyTopic t]
  | OpPauseTopic p => [EPauseTopic t p; EPersist]
  | OpCreateChannel => [ECreateChannel t ch]
  | OpDeleteChannel => [EDeleteChannel t ch]
  | OpEmptyChannel => [EEmptyChannel t ch]
  | OpPauseChannel p => [EPauseChannel t ch p; EPersist]
  end.

(* what must hold for the endpoint to answer 200 *)
Definition op_accepts (op : admin_op) (st : state) (t ch : bytes) : Prop :=
  match op with
  | OpCreateTopic => is_valid_name t = true
  | OpDeleteTopic | OpPauseTopic _ => topic_exists st t = true
  | OpEmptyTopic => is_valid_name t = true /\ topic_exists st t = true
  | OpCreateChannel => is_valid_name t = true /\ is_valid_name ch = true /\ topic_exists st t = true
  | OpDeleteChannel | OpEmptyChannel | OpPauseChannel _ =>
      is_valid_name t = true /\ is_valid_name ch = true /\ topic_exists st t = true /\ chan_exists st t ch = true
  end.

Definition chan_arg (ps : list (bytes * bytes)) : bytes :=
  match qget k_channel ps with Some c => c | None => [] end.

Ltac negb_hyps :=
  repeat match goal with
  | H : negb _ = false |- _ => apply negb_false_iff in H
  | H : negb _ = true |- _ => apply negb_true_iff in H
  end.

Ltac break_inner :=
  repeat match goal with
  | |- context [match ?x with _ => _ end] =>
      lazymatch x with
      | context [match _ with _ => _ end] => fail
      | _ => destruct x eqn:?
      end
  end.

Ltac admin_finish :=
  cbn [fst snd];
  let X := fresh "X" in let Y := fresh "Y" in
  intro X; inversion X; subst; negb_hyps;
  split; intro Y;
  [ first [ discriminate Y
          | do 2 eexists; split; [first [reflexivity | eassumption]|]; split; [eassumption|];
            unfold chan_arg;
            repeat match goal with H : qget k_channel _ = Some _ |- _ => rewrite H end;
            split; [reflexivity | cbn [op_accepts]; repeat split; assumption] ]
  | first [ reflexivity | exfalso; apply Y; reflexivity ] ].

(* C10_admin_effect: each of the ten endpoints, when it answers 200, has produced exactly
   its stated effect on exactly the object named by its arguments (first value of topic /
   channel) - and had to find that object; when it answers anything else, nothing at all. *)
Theorem admin_effect_exact : forall c st r p op s tok effs,
  tls_gate c = false -> healthy_env c -> In (p, op) admin_paths ->
  r_method r = MPost -> r_path r = str p ->
  serve c st r = (Resp s tok, effs) ->
  (s = 200 -> exists ps t, r_query r = QOk ps /\ qget k_topic ps = Some t /\
              effs = op_effects op t (chan_arg ps) /\ op_accepts op st t (chan_arg ps)) /\
  (s <> 200 -> effs = []).
Proof.
  intros c st r p op s tok effs T (_ & _ & Hbk & _) Hin M P.
  unfold admin_paths in Hin. cbn [In] in Hin.
  repeat match type of Hin with
  | _ \/ _ => destruct Hin as [Hin|Hin]
  end; try contradiction; inversion Hin; subst p op; clear Hin.
  - rewrite (serve_at c st r (rt_static MPost "/topic/create" HCreateTopic) T) by (rewrite M, P; vm_compute; reflexivity).
    unfold run_handler. cbn [rt_handler rt_static]. unfold do_create_topic, topic_from_query. break_inner; admin_finish.
  - rewrite (serve_at c st r (rt_static MPost "/topic/delete" HDeleteTopic) T) by (rewrite M, P; vm_compute; reflexivity).
    unfold run_handler. cbn [rt_handler rt_static]. unfold do_delete_topic, new_req_params, herr. break_inner; admin_finish.
  - rewrite (serve_at c st r (rt_static MPost "/topic/empty" HEmptyTopic) T) by (rewrite M, P; vm_compute; reflexivity).
    unfold run_handler. cbn [rt_handler rt_static]. unfold do_empty_topic, new_req_params, herr. rewrite Hbk. cbn [negb].
    break_inner; admin_finish.
  - rewrite (serve_at c st r (rt_static MPost "/topic/pause" HPauseTopic) T) by (rewrite M, P; vm_compute; reflexivity).
    unfold run_handler. cbn [rt_handler rt_static]. unfold do_pause_topic, new_req_params, herr, unpause_path. rewrite P.
    replace (contains_sub (str "unpause") (str "/topic/pause")) with false by (vm_compute; reflexivity). cbn [negb].
    break_inner; admin_finish.
  - rewrite (serve_at c st r (rt_static MPost "/topic/unpause" HPauseTopic) T) by (rewrite M, P; vm_compute; reflexivity).
    unfold run_handler. cbn [rt_handler rt_static]. unfold do_pause_topic, new_req_params, herr, unpause_path. rewrite P.
    replace (contains_sub (str "unpause") (str "/topic/unpause")) with true by (vm_compute; reflexivity). cbn [negb].
    break_inner; admin_finish.
  - rewrite (serve_at c st r (rt_static MPost "/channel/create" HCreateChannel) T) by (rewrite M, P; vm_compute; reflexivity).
    unfold run_handler. cbn [rt_handler rt_static]. unfold do_create_channel, existing_topic_from_query, new_req_params, herr.
    break_inner; admin_finish.
  - rewrite (serve_at c st r (rt_static MPost "/channel/delete" HDeleteChannel) T) by (rewrite M, P; vm_compute; reflexivity).
    unfold run_handler. cbn [rt_handler rt_static]. unfold do_delete_channel, existing_topic_from_query, new_req_params, herr.
    break_inner; admin_finish.
  - rewrite (serve_at c st r (rt_static MPost "/channel/empty" HEmptyChannel) T) by (rewrite M, P; vm_compute; reflexivity).
    unfold run_handler. cbn [rt_handler rt_static]. unfold do_empty_channel, existing_topic_from_query, new_req_params, herr.
    rewrite Hbk. cbn [negb]. break_inner; admin_finish.
  - rewrite (serve_at c st r (rt_static MPost "/channel/pause" HPauseChannel) T) by (rewrite M, P; vm_compute; reflexivity).
    unfold run_handler. cbn [rt_handler rt_static]. unfold do_pause_channel, existing_topic_from_query, new_req_params, herr, unpause_path.
    rewrite P. replace (contains_sub (str "unpause") (str "/channel/pause")) with false by (vm_compute; reflexivity). cbn [negb].
    break_inner; admin_finish.
  - rewrite (serve_at c st r (rt_static MPost "/channel/unpause" HPauseChannel) T) by (rewrite M, P; vm_compute; reflexivity).
    unfold run_handler. cbn [rt_handler rt_static]. unfold do_pause_channel, existing_topic_from_query, new_req_params, herr, unpause_path.
    rewrite P. replace (contains_sub (str "unpause") (str "/channel/unpause")) with true by (vm_compute; reflexivity). cbn [negb].
    break_inner; admin_finish.
Qed.

Lemma op_effects_topic : forall op t ch t', t' <> t ->
  Forall (fun e => effect_topic e <> Some t') (op_effects op t ch).
Proof.
  intros op t ch t' NE. destruct op; cbn [op_effects]; repeat constructor; cbn [effect_topic];
    try discriminate; intro X; inversion X; subst; contradiction.
Qed.

(* ... and nothing else: whatever the answer, every topic other than the one named by the
   request is exactly as before (up to its own message pump), and a refusal changes nothing *)
Theorem admin_touches_only_named : forall c st r p op s tok st',
  tls_gate c = false -> healthy_env c -> In (p, op) admin_paths ->
  r_method r = MPost -> r_path r = str p ->
  run c st r = (Resp s tok, st') ->
  (s <> 200 -> st' = settle st) /\
  (forall t', (forall ps t, r_query r = QOk ps -> qget k_topic ps = Some t -> t' <> t) ->
              lookup t' st' = option_map settle_topic (lookup t' st)).
Proof.
  intros c st r p op s tok st' T H Hin M P R.
  unfold run in R. destruct (serve c st r) as [resp effs] eqn:S. inversion R; subst resp st'; clear R.
  destruct (admin_effect_exact c st r p op s tok effs T H Hin M P S) as [A200 Aother].
  split.
  - intro NE. rewrite (Aother NE). reflexivity.
  - intros t' Hother. rewrite lookup_settle. f_equal.
    destruct (Z.eq_dec s 200) as [E|NE].
    + destruct (A200 E) as (ps & t & Q & QT & Eff & _). subst effs.
      apply apply_effects_other_topic. apply op_effects_topic. eapply Hother; eassumption.
    + rewrite (Aother NE). reflexivity.
Qed.

(* within the named topic: pause / unpause / empty touch one field *)
Lemma topic_pause_frame : forall st t p ts, lookup t st = Some ts ->
  lookup t (apply_effect st (EPauseTopic t p)) = Some (mkTopic p (ts_depth ts) (ts_chans ts)).
Proof. intros. cbn [apply_effect]. rewrite lookup_update_same, H. reflexivity. Qed.
Lemma topic_empty_frame : forall st t ts, lookup t st = Some ts ->
  lookup t (apply_effect st (EEmptyTopic t)) = Some (mkTopic (ts_paused ts) 0 (ts_chans ts)).
Proof. intros. cbn [apply_effect]. rewrite lookup_update_same, H. reflexivity. Qed.
Lemma topic_delete_frame : forall st t, lookup t (apply_effect st (EDeleteTopic t)) = None.
Proof. intros. cbn [apply_effect]. apply lookup_remove_same. Qed.
Lemma topic_create_frame : forall st t,
  lookup t (apply_effect st (ECreateTopic t)) = Some (match lookup t st with Some ts => ts | None => new_topic end).
Proof.
  intros st t. cbn [apply_effect]. unfold topic_exists. destruct (lookup t st) eqn:L; [exact L|].
  induction st as [|[k v] st IH]; simpl in *.
  - rewrite bytes_eqb_refl. reflexivity.
  - destruct (bytes_eqb t k); [discriminate | apply IH; exact L].
Qed.

(* ------------------------------------------------------------------ the status table, condition by condition *)
Definition topic_taking_paths : list string :=
  ["/topic/create"; "/topic/delete"; "/topic/empty"; "/topic/pause"; "/topic/unpause";
   "/channel/create"; "/channel/delete"; "/channel/empty"; "/channel/pause"; "/channel/unpause"]%string.

(* missing topic argument -> 400 MISSING_ARG_TOPIC, on every admin endpoint *)
Theorem missing_topic_400 : forall c st r p ps,
  tls_gate c = false -> In p topic_taking_paths -> r_method r = MPost -> r_path r = str p ->
  r_query r = QOk ps -> r_body_err r = false -> qget k_topic ps = None ->
  serve c st r = (Resp 400 (str "MISSING_ARG_TOPIC"), []).
Proof.
  intros c st r p ps T Hin M P Q BE QT. unfold topic_taking_paths in Hin. cbn [In] in Hin.
  repeat match type of Hin with _ \/ _ => destruct Hin as [Hin|Hin] end; try contradiction; subst p.
  all: unfold serve; rewrite T, M, P;
    match goal with |- context [route_request ?m ?q] =>
      let rr := eval vm_compute in (route_request m q) in change (route_request m q) with rr end;
    unfold run_handler; cbn [rt_handler];
    unfold do_create_topic, do_delete_topic, do_empty_topic, do_pause_topic, do_create_channel, do_delete_channel,
      do_empty_channel, do_pause_channel, existing_topic_from_query, topic_from_query, new_req_params, read_all, herr;
    rewrite Q, ?BE, QT; reflexivity.
Qed.

(* a syntactically valid but unknown topic -> 404 TOPIC_NOT_FOUND (never created by the way) *)
Definition existing_topic_paths : list string :=
  ["/topic/delete"; "/topic/empty"; "/topic/pause"; "/topic/unpause";
   "/channel/create"; "/channel/delete"; "/channel/empty"; "/channel/pause"; "/channel/unpause"]%string.

Theorem unknown_topic_404 : forall c st r p ps t ch,
  tls_gate c = false -> In p existing_topic_paths -> r_method r = MPost -> r_path r = str p ->
  r_query r = QOk ps -> r_body_err r = false ->
  qget k_topic ps = Some t -> is_valid_name t = true ->
  qget k_channel ps = Some ch -> is_valid_name ch = true ->
  topic_exists st t = false ->
  serve c st r = (Resp 404 (str "TOPIC_NOT_FOUND"), []).
Proof.
  intros c st r p ps t ch T Hin M P Q BE QT VT QC VC NX. unfold existing_topic_paths in Hin. cbn [In] in Hin.
  repeat match type of Hin with _ \/ _ => destruct Hin as [Hin|Hin] end; try contradiction; subst p.
  all: unfold serve; rewrite T, M, P;
    match goal with |- context [route_request ?m ?q] =>
      let rr := eval vm_compute in (route_request m q) in change (route_request m q) with rr end;
    unfold run_handler; cbn [rt_handler];
    unfold do_delete_topic, do_empty_topic, do_pause_topic, do_create_channel, do_delete_channel,
      do_empty_channel, do_pause_channel, existing_topic_from_query, new_req_params, read_all, herr;
    rewrite Q, ?BE, QT, ?VT, ?QC, ?VC, NX; reflexivity.
Qed.

Definition existing_channel_paths : list string :=
  ["/channel/delete"; "/channel/empty"; "/channel/pause"; "/channel/unpause"]%string.

Theorem unknown_channel_404 : forall c st r p ps t ch,
  tls_gate c = false -> In p existing_channel_paths -> r_method r = MPost -> r_path r = str p ->
  r_query r = QOk ps -> r_body_err r = false ->
  qget k_topic ps = Some t -> is_valid_name t = true ->
  qget k_channel ps = Some ch -> is_valid_name ch = true ->
  topic_exists st t = true -> chan_exists st t ch = false ->
  serve c st r = (Resp 404 (str "CHANNEL_NOT_FOUND"), []).
Proof.
  intros c st r p ps t ch T Hin M P Q BE QT VT QC VC TX NX. unfold existing_channel_paths in Hin. cbn [In] in Hin.
  repeat match type of Hin with _ \/ _ => destruct Hin as [Hin|Hin] end; try contradiction; subst p.
  all: unfold serve; rewrite T, M, P;
    match goal with |- context [route_request ?m ?q] =>
      let rr := eval vm_compute in (route_request m q) in change (route_request m q) with rr end;
    unfold run_handler; cbn [rt_handler];
    unfold do_delete_channel, do_empty_channel, do_pause_channel, existing_topic_from_query, new_req_params, read_all, herr;
    rewrite Q, BE, QT, VT, QC, VC, TX; cbn [negb]; rewrite NX; reflexivity.
Qed.

(* oversize -> 413: a /pub body longer than max-msg-size, declared or chunked; a declared
   /mpub body longer than max-body-size; a chunked text /mpub body longer than max-body-size *)
Theorem pub_oversize_413 : forall c st r body,
  tls_gate c = false -> 0 <= max_msg c -> r_method r = MPost -> r_path r = str "/pub" ->
  complete_body r body -> max_msg c < blen body ->
  serve c st r = (Resp 413 (str "MSG_TOO_BIG"), []).
Proof.
  intros c st r body T Hm M P CB Big.
  rewrite (serve_at c st r (rt_static MPost "/pub" HPub) T) by (rewrite M, P; exact rr_pub).
  unfold run_handler. cbn [rt_handler rt_static]. rewrite (do_pub_spec c r body Hm CB).
  replace (blen body >? max_msg c) with true by lia. reflexivity.
Qed.

Theorem mpub_declared_oversize_413 : forall c st r n,
  tls_gate c = false -> r_method r = MPost -> r_path r = str "/mpub" ->
  r_framing r = Declared n -> max_body c < n ->
  serve c st r = (Resp 413 (str "BODY_TOO_BIG"), []).
Proof.
  intros c st r n T M P F Big.
  rewrite (serve_at c st r (rt_static MPost "/mpub" HMpub) T) by (rewrite M, P; exact rr_mpub).
  unfold run_handler. cbn [rt_handler rt_static]. unfold do_mpub, content_length. rewrite F.
  replace (n >? max_body c) with true by lia. reflexivity.
Qed.

Theorem mpub_text_oversize_413 : forall c st r ps name body,
  tls_gate c = false -> 0 <= max_msg c -> 0 <= max_body c ->
  r_method r = MPost -> r_path r = str "/mpub" -> r_query r = QOk ps -> complete_body r body ->
  qget k_topic ps = Some name -> is_valid_name name = true -> binary_mode ps = false ->
  max_body c < blen body ->
  exists tok effs, serve c st r = (Resp 413 tok, effs) /\ (forall t b d, ~ In (EEnqueue t b d) effs).
Proof.
  intros c st r ps name body T Hm Hb M P Q (RB & RE & RF) QT V BM Big.
  rewrite (serve_at c st r (rt_static MPost "/mpub" HMpub) T) by (rewrite M, P; exact rr_mpub).
  unfold run_handler. cbn [rt_handler rt_static]. rewrite (do_mpub_text_spec c r ps name Q QT BM), V.
  destruct (content_length r >? max_body c).
  - do 2 eexists. split; [reflexivity|]. intros t b d [].
  - destruct (text_mpub_oversize_413 c r body Hm Hb RB RE Big) as [tok E]. rewrite E.
    do 2 eexists. split; [reflexivity|]. cbn. intros t b d [X|[]]. discriminate.
Qed.

(* an empty /pub body -> 400 MSG_EMPTY; an out-of-range, negative or unparsable defer -> 400 INVALID_DEFER *)
Theorem pub_empty_400 : forall c st r,
  tls_gate c = false -> 0 <= max_msg c -> r_method r = MPost -> r_path r = str "/pub" ->
  complete_body r [] -> serve c st r = (Resp 400 (str "MSG_EMPTY"), []).
Proof.
  intros c st r T Hm M P CB.
  rewrite (serve_at c st r (rt_static MPost "/pub" HPub) T) by (rewrite M, P; exact rr_pub).
  unfold run_handler. cbn [rt_handler rt_static]. rewrite (do_pub_spec c r [] Hm CB).
  change (blen []) with 0. replace (0 >? max_msg c) with false by lia. reflexivity.
Qed.

Theorem pub_bad_defer_400 : forall c st r ps name ds body,
  tls_gate c = false -> 0 <= max_msg c -> 0 <= max_req c < max_i64 ->
  r_method r = MPost -> r_path r = str "/pub" -> r_query r = QOk ps -> complete_body r body ->
  1 <= blen body <= max_msg c ->
  qget k_topic ps = Some name -> is_valid_name name = true -> qget k_defer ps = Some ds ->
  (match parse_int ds with
   | None => True
   | Some di => di < 0 \/ max_req c < di * ns_per_ms
   end) ->
  serve c st r = (Resp 400 (str "INVALID_DEFER"), [ECreateTopic name]).
Proof.
  intros c st r ps name ds body T Hm Hr M P Q CB HB QT V QD Bad.
  rewrite (serve_at c st r (rt_static MPost "/pub" HPub) T) by (rewrite M, P; exact rr_pub).
  unfold run_handler. cbn [rt_handler rt_static]. rewrite (do_pub_spec c r body Hm CB).
  replace (blen body >? max_msg c) with false by lia. replace (blen body =? 0) with false by lia.
  rewrite (topic_from_query_ok r ps name Q QT), V, QD.
  rewrite (http_defer_spec (max_req c) (parse_int ds) Hr).
  destruct (parse_int ds) as [di|]; [|reflexivity].
  replace ((0 <=? di) && (di * ns_per_ms <=? max_req c)) with false by lia. reflexivity.
Qed.

(* known path, another method -> 405 (OPTIONS -> 200 with Allow); checked for every
   registered path and every method *)
Definition static_paths : list bytes := map rt_path (filter (fun rt => negb (rt_param rt)) routes).
Lemma wrong_method_405_table :
  forallb (fun p => forallb (fun m =>
      match find_route m p with
      | Some _ => true
      | None => match route_request m p with
                | RMethodNotAllowed => negb (method_eqb m MOptions)
                | ROptionsOk => method_eqb m MOptions
                | RRedirect _ => true    (* GET /debug/pprof/... style paths that differ by a slash *)
                | _ => false
                end
      end) (MOptions :: all_methods)) static_paths = true.
Proof. vm_compute. reflexivity. Qed.

Theorem wrong_method_405 : forall m p, In p static_paths -> find_route m p = None ->
  match route_request m p with
  | RMethodNotAllowed => m <> MOptions
  | ROptionsOk => m = MOptions
  | RRedirect _ => True
  | _ => False
  end.
Proof.
  intros m p Hin NF. pose proof wrong_method_405_table as Tb.
  rewrite forallb_forall in Tb. specialize (Tb p Hin). rewrite forallb_forall in Tb.
  assert (Hm : In m (MOptions :: all_methods)) by (destruct m; cbn; tauto).
  specialize (Tb m Hm). rewrite NF in Tb.
  destruct (route_request m p); try discriminate; try exact I; destruct m; cbn in Tb; try discriminate; try reflexivity.
Qed.
