(* Lemmas about model/Http.v (C10): the generated tables, the status set and table,
   HTTP/TCP publish equivalence, exactness of the admin effects. *)
From Coq Require Import String Ascii List NArith ZArith Bool Lia ZifyBool ZifyNat ZifyN.
From NSQV Require Import model.Judge model.Names model.Num model.Http gen.NsqdRoutes proofs.NumProofs.
Import ListNotations.
Open Scope Z_scope.

(* ------------------------------------------------------------------ generated tables *)
Lemma route_table_matches_source : model_route_table = nsqd_routes.
Proof. vm_compute. reflexivity. Qed.

(* the router is configured the way the model assumes: 405 handling on, the three
   custom handlers installed, the redirect switches left at their defaults (true) *)
Lemma router_settings_expected :
  nsqd_router_settings =
  [("HandleMethodNotAllowed", "true"); ("PanicHandler", "http_api.LogPanicHandler");
   ("NotFound", "http_api.LogNotFoundHandler");
   ("MethodNotAllowed", "http_api.LogMethodNotAllowedHandler")]%string.
Proof. vm_compute. reflexivity. Qed.

(* every http_api.Err literal of nsqd/http.go, in source order: what the handlers of the
   model answer.  The only 500/503 literals are the healthy-backend exclusions. *)
Definition expected_err_literals : list (string * Z * string) := [
  ("setBlockRateHandler", 400, "<fmt.Sprintf>");
  ("pingHandler", 500, "<health>");
  ("doInfo", 500, "<err.Error>");
  ("getExistingTopicFromQuery", 400, "INVALID_REQUEST");
  ("getExistingTopicFromQuery", 400, "<err.Error>");
  ("getExistingTopicFromQuery", 404, "TOPIC_NOT_FOUND");
  ("getTopicFromQuery", 400, "INVALID_REQUEST");
  ("getTopicFromQuery", 400, "MISSING_ARG_TOPIC");
  ("getTopicFromQuery", 400, "INVALID_TOPIC");
  ("doPUB", 413, "MSG_TOO_BIG");
  ("doPUB", 400, "INVALID_REQUEST");
  ("doPUB", 413, "MSG_TOO_BIG");
  ("doPUB", 400, "MSG_EMPTY");
  ("doPUB", 400, "INVALID_DEFER");
  ("doPUB", 400, "INVALID_DEFER");
  ("doPUB", 400, "INVALID_DEFER");
  ("doPUB", 503, "EXITING");
  ("doMPUB", 413, "BODY_TOO_BIG");
  ("doMPUB", 413, "<dynamic>");
  ("doMPUB", 400, "INVALID_REQUEST");
  ("doMPUB", 413, "BODY_TOO_BIG");
  ("doMPUB", 413, "MSG_TOO_BIG");
  ("doMPUB", 503, "EXITING");
  ("doEmptyTopic", 400, "INVALID_REQUEST");
  ("doEmptyTopic", 400, "MISSING_ARG_TOPIC");
  ("doEmptyTopic", 400, "INVALID_TOPIC");
  ("doEmptyTopic", 404, "TOPIC_NOT_FOUND");
  ("doEmptyTopic", 500, "INTERNAL_ERROR");
  ("doDeleteTopic", 400, "INVALID_REQUEST");
  ("doDeleteTopic", 400, "MISSING_ARG_TOPIC");
  ("doDeleteTopic", 404, "TOPIC_NOT_FOUND");
  ("doPauseTopic", 400, "INVALID_REQUEST");
  ("doPauseTopic", 400, "MISSING_ARG_TOPIC");
  ("doPauseTopic", 404, "TOPIC_NOT_FOUND");
  ("doPauseTopic", 500, "INTERNAL_ERROR");
  ("doEmptyChannel", 404, "CHANNEL_NOT_FOUND");
  ("doEmptyChannel", 500, "INTERNAL_ERROR");
  ("doDeleteChannel", 404, "CHANNEL_NOT_FOUND");
  ("doPauseChannel", 404, "CHANNEL_NOT_FOUND");
  ("doPauseChannel", 500, "INTERNAL_ERROR");
  ("doStats", 400, "INVALID_REQUEST");
  ("doConfig", 400, "INVALID_REQUEST");
  ("doConfig", 413, "INVALID_VALUE");
  ("doConfig", 400, "INVALID_VALUE");
  ("doConfig", 400, "INVALID_VALUE");
  ("doConfig", 400, "INVALID_OPTION");
  ("doConfig", 400, "INVALID_OPTION")
]%string.

Lemma err_literals_expected : nsqd_http_errs = expected_err_literals.
Proof. vm_compute. reflexivity. Qed.

(* the handlers whose 5xx literals are excluded by the healthy-backend hypothesis:
   /ping (disk failure), /info (os.Hostname), publishing while exiting (503), a failing
   diskqueue Empty, and the unreachable Pause errors (doPause always returns nil) *)
Definition excluded_5xx : list (string * Z * string) := [
  ("pingHandler", 500, "<health>"); ("doInfo", 500, "<err.Error>");
  ("doPUB", 503, "EXITING"); ("doMPUB", 503, "EXITING");
  ("doEmptyTopic", 500, "INTERNAL_ERROR"); ("doPauseTopic", 500, "INTERNAL_ERROR");
  ("doEmptyChannel", 500, "INTERNAL_ERROR"); ("doPauseChannel", 500, "INTERNAL_ERROR")]%string.

Lemma source_5xx_literals_are_the_exclusions :
  filter (fun e => 500 <=? snd (fst e)) nsqd_http_errs = excluded_5xx.
Proof. vm_compute. reflexivity. Qed.

Lemma bool_params_expected :
  nsqd_bool_params = [("true", true); ("1", true); ("false", false); ("0", false)]%string.
Proof. vm_compute. reflexivity. Qed.

Lemma arg_errs_expected :
  http_api_arg_errs = ["MISSING_ARG_TOPIC"; "INVALID_ARG_TOPIC"; "MISSING_ARG_CHANNEL"; "INVALID_ARG_CHANNEL"]%string.
Proof. vm_compute. reflexivity. Qed.

(* the two options PUT /config accepts are options GET /config knows *)
Lemma put_options_known :
  existsb (String.eqb "log_level") nsqd_cfg_names = true /\
  existsb (String.eqb "nsqlookupd_tcp_addresses") nsqd_cfg_names = true.
Proof. vm_compute. split; reflexivity. Qed.

(* ------------------------------------------------------------------ bytes *)
Lemma bytes_eqb_eq : forall a b, bytes_eqb a b = true <-> a = b.
Proof.
  unfold bytes_eqb. induction a as [|x a IH]; destruct b as [|y b]; simpl; split; intro H;
    try reflexivity; try discriminate.
  - apply andb_true_iff in H as [H1 H2]. apply N.eqb_eq in H1. apply IH in H2. congruence.
  - inversion H; subst. rewrite N.eqb_refl. simpl. apply IH. reflexivity.
Qed.
Lemma bytes_eqb_refl : forall a, bytes_eqb a a = true.
Proof. intro a. apply bytes_eqb_eq. reflexivity. Qed.
Lemma bytes_eqb_neq : forall a b, bytes_eqb a b = false <-> a <> b.
Proof.
  intros a b. split; intro H.
  - intro E. apply bytes_eqb_eq in E. congruence.
  - destruct (bytes_eqb a b) eqn:E; [|reflexivity]. apply bytes_eqb_eq in E. contradiction.
Qed.
Lemma bytes_eqb_sym : forall a b, bytes_eqb a b = bytes_eqb b a.
Proof.
  intros a b. destruct (bytes_eqb a b) eqn:E.
  - apply bytes_eqb_eq in E. subst. symmetry. apply bytes_eqb_refl.
  - symmetry. apply bytes_eqb_neq. apply bytes_eqb_neq in E. congruence.
Qed.

Lemma blen_nonneg : forall b, 0 <= blen b.
Proof. intro b. unfold blen. lia. Qed.
Lemma blen_zero : forall b, blen b = 0 -> b = [].
Proof. intros [|x b]; unfold blen; simpl; [reflexivity|lia]. Qed.
Lemma firstn_blen : forall b n, blen b <= n -> firstn (Z.to_nat n) b = b.
Proof. intros b n H. apply firstn_all2. unfold blen in H. lia. Qed.
Lemma firstn_blen_self : forall b, firstn (Z.to_nat (blen b)) b = b.
Proof. intro b. apply firstn_blen. lia. Qed.

(* ------------------------------------------------------------------ C10_no_500 *)
(* a (status, token) pair of the documented table, and not 500 *)
Definition good (s : Z) (tok : bytes) : Prop :=
  allowed_status s = true /\ s <> 500 /\ status_rule s tok = true.
Definition good_h (h : hres) : Prop := good (fst (fst h)) (snd (fst h)).

Ltac good_tac :=
  unfold good_h, good; cbn [fst snd];
  split; [vm_compute; reflexivity | split; [discriminate | vm_compute; reflexivity]].

Ltac break :=
  repeat match goal with
  | |- context [match ?x with _ => _ end] => destruct x eqn:?
  end.

Lemma topic_from_query_err : forall r e, topic_from_query r = inl e ->
  e = (400, str "INVALID_REQUEST") \/ e = (400, str "MISSING_ARG_TOPIC") \/ e = (400, str "INVALID_TOPIC").
Proof.
  intros r e. unfold topic_from_query. break; intro H; inversion H; auto.
Qed.

Lemma good_topic_err : forall r e effs, topic_from_query r = inl e -> good_h (e, effs).
Proof.
  intros r e effs H. apply topic_from_query_err in H. destruct H as [H|[H|H]]; subst; good_tac.
Qed.

Lemma existing_topic_err : forall st r e, existing_topic_from_query st r = inl e ->
  e = (400, str "INVALID_REQUEST") \/ e = (400, str "MISSING_ARG_TOPIC") \/ e = (400, str "INVALID_ARG_TOPIC")
  \/ e = (400, str "MISSING_ARG_CHANNEL") \/ e = (400, str "INVALID_ARG_CHANNEL") \/ e = (404, str "TOPIC_NOT_FOUND").
Proof.
  intros st r e. unfold existing_topic_from_query. break; intro H; inversion H; auto 10.
Qed.

Lemma good_existing_err : forall st r e effs, existing_topic_from_query st r = inl e -> good_h (e, effs).
Proof.
  intros st r e effs H. apply existing_topic_err in H.
  destruct H as [H|[H|[H|[H|[H|H]]]]]; subst; good_tac.
Qed.

Lemma read_msgs_err : forall n mm s acc code, read_msgs n mm s acc = inl code -> code = E_BAD_MESSAGE.
Proof.
  induction n as [|n IH]; intros mm s acc code; simpl.
  - discriminate.
  - break; intro H; try (inversion H; reflexivity). eapply IH; eauto.
Qed.

Lemma read_mpub_err : forall mm mb s code, read_mpub mm mb s = inl code ->
  code = E_BAD_BODY \/ code = E_BAD_MESSAGE.
Proof.
  intros mm mb s code. unfold read_mpub. break; intro H; try (inversion H; auto; fail).
  right. eapply read_msgs_err; eauto.
Qed.

Lemma text_loop_err : forall segs mm rm err total acc code tok,
  text_loop mm rm err segs total acc = TextErr code tok ->
  (code, tok) = (400, str "INVALID_REQUEST") \/ (code, tok) = (413, str "BODY_TOO_BIG")
  \/ (code, tok) = (413, str "MSG_TOO_BIG").
Proof.
  induction segs as [|s rest IH]; intros mm rm err total acc code tok; simpl.
  - discriminate.
  - destruct rest as [|s2 rest'].
    + break; intro H; inversion H; auto.
    + break; intro H; try (inversion H; auto; fail); eapply IH; eauto.
Qed.

Lemma good_do_pub : forall c r, healthy_env c -> good_h (do_pub c r).
Proof.
  intros c r (_ & Hex & _ & _). unfold do_pub, herr. rewrite Hex.
  break; try good_tac. eapply good_topic_err; eauto.
Qed.

Lemma good_do_mpub : forall c r, healthy_env c -> good_h (do_mpub c r).
Proof.
  intros c r (_ & Hex & _ & _). unfold do_mpub, herr. rewrite Hex.
  break; try good_tac.
  - eapply good_topic_err; eauto.
  - match goal with H : read_mpub _ _ _ = inl _ |- _ => apply read_mpub_err in H; destruct H; subst; good_tac end.
  - match goal with H : text_mpub _ _ = TextErr _ _ |- _ => unfold text_mpub in H; apply text_loop_err in H;
      destruct H as [H|[H|H]]; inversion H; subst; good_tac end.
Qed.

Lemma good_do_create_topic : forall c r, good_h (do_create_topic c r).
Proof. intros. unfold do_create_topic. break; try good_tac. eapply good_topic_err; eauto. Qed.

Lemma good_do_empty_topic : forall c st r, healthy_env c -> good_h (do_empty_topic c st r).
Proof. intros c st r (_ & _ & Hb & _). unfold do_empty_topic, herr. rewrite Hb. cbn [negb]. break; good_tac. Qed.

Lemma good_do_delete_topic : forall c st r, good_h (do_delete_topic c st r).
Proof. intros. unfold do_delete_topic, herr. break; good_tac. Qed.

Lemma good_do_pause_topic : forall c st r, good_h (do_pause_topic c st r).
Proof. intros. unfold do_pause_topic, herr. break; good_tac. Qed.

Lemma good_do_create_channel : forall c st r, good_h (do_create_channel c st r).
Proof. intros. unfold do_create_channel. break; try good_tac. eapply good_existing_err; eauto. Qed.

Lemma good_do_empty_channel : forall c st r, healthy_env c -> good_h (do_empty_channel c st r).
Proof.
  intros c st r (_ & _ & Hb & _). unfold do_empty_channel, herr. rewrite Hb. cbn [negb].
  break; try good_tac. eapply good_existing_err; eauto.
Qed.

Lemma good_do_delete_channel : forall c st r, good_h (do_delete_channel c st r).
Proof. intros. unfold do_delete_channel, herr. break; try good_tac. eapply good_existing_err; eauto. Qed.

Lemma good_do_pause_channel : forall c st r, good_h (do_pause_channel c st r).
Proof. intros. unfold do_pause_channel, herr. break; try good_tac. eapply good_existing_err; eauto. Qed.

Lemma good_do_stats : forall c r, good_h (do_stats c r).
Proof. intros. unfold do_stats, herr. break; good_tac. Qed.

Lemma good_do_config : forall c rt r, good_h (do_config c rt r).
Proof. intros. unfold do_config, herr. break; good_tac. Qed.

Lemma good_do_ping : forall c, healthy_env c -> good_h (do_ping c).
Proof. intros c (Hh & _). unfold do_ping. rewrite Hh. good_tac. Qed.

Lemma good_do_info : forall c, healthy_env c -> good_h (do_info c).
Proof. intros c (_ & _ & _ & Hn). unfold do_info. rewrite Hn. good_tac. Qed.

Lemma good_do_set_block_rate : forall r, good_h (do_set_block_rate r).
Proof. intros. unfold do_set_block_rate. break; good_tac. Qed.

(* routing: a dispatched route is a row of the table *)
Lemma find_route_in : forall m p rt, find_route m p = Some rt -> In rt routes.
Proof. intros m p rt H. unfold find_route in H. apply find_some in H. tauto. Qed.

Lemma route_request_handle_in : forall m p rt, route_request m p = RHandle rt -> In rt routes /\ find_route m p = Some rt.
Proof.
  intros m p rt. unfold route_request.
  destruct (has_tree m); [destruct (find_route m p) eqn:F|]; break; intro H; inversion H; subst.
  split; [eapply find_route_in; eauto | reflexivity].
Qed.

Lemma routes_no_unknown : forallb (fun rt => match rt_handler rt with HUnknown => false | _ => true end) routes = true.
Proof. vm_compute. reflexivity. Qed.

Lemma route_request_redirect : forall m p code, route_request m p = RRedirect code -> code = 301 \/ code = 307.
Proof.
  intros m p code. unfold route_request.
  destruct (has_tree m); [destruct (find_route m p)|]; break; intro H; inversion H; auto.
Qed.

Definition resp_good (resp : response) : Prop :=
  match resp with Resp s tok => good s tok | Pass => True end.

Lemma good_run_handler : forall c st rt r, healthy_env c -> In rt routes ->
  match fst (run_handler c st rt r) with
  | Resp s tok => good s tok
  | Pass => rt_handler rt = HPprof
  end.
Proof.
  intros c st rt r H Hin.
  pose proof routes_no_unknown as NU. rewrite forallb_forall in NU. specialize (NU rt Hin).
  unfold run_handler. destruct (rt_handler rt) eqn:E; cbn [fst]; try discriminate NU; try reflexivity.
  - apply good_do_ping; exact H.
  - apply good_do_info; exact H.
  - apply good_do_pub; exact H.
  - apply good_do_mpub; exact H.
  - apply good_do_stats.
  - apply good_do_create_topic.
  - apply good_do_delete_topic.
  - apply good_do_empty_topic; exact H.
  - apply good_do_pause_topic.
  - apply good_do_create_channel.
  - apply good_do_delete_channel.
  - apply good_do_empty_channel; exact H.
  - apply good_do_pause_channel.
  - apply good_do_config.
  - apply good_do_set_block_rate.
  - good_tac.
Qed.

(* C10_no_500: every request, whatever its method, path, query, framing and body (the
   body may even end in a read error), against every daemon state, is answered with a
   status of the documented set and the token class that goes with it; never 500.  The
   only requests the statement does not cover are the ones routed to net/http/pprof. *)
Theorem no_500 : forall c st r, healthy_env c ->
  match fst (serve c st r) with
  | Resp s tok => allowed_status s = true /\ s <> 500 /\ status_rule s tok = true
  | Pass => exists rt, route_request (r_method r) (r_path r) = RHandle rt /\ rt_handler rt = HPprof
  end.
Proof.
  intros c st r H. unfold serve.
  destruct (tls_gate c); [cbn [fst]; good_tac|].
  destruct (route_request (r_method r) (r_path r)) eqn:R; cbn [fst]; try good_tac.
  - apply route_request_handle_in in R as [Hin _].
    pose proof (good_run_handler c st rt r H Hin) as G.
    destruct (fst (run_handler c st rt r)); [exact G | exists rt; split; [reflexivity | exact G]].
  - apply route_request_redirect in R. destruct R; subst; good_tac.
Qed.

(* ------------------------------------------------------------------ dispatch of the routes the theorems talk about *)
Lemma serve_at : forall c st r rt, tls_gate c = false ->
  route_request (r_method r) (r_path r) = RHandle rt -> serve c st r = run_handler c st rt r.
Proof. intros c st r rt T R. unfold serve. rewrite T, R. reflexivity. Qed.

Definition rt_static (m : method) (p : string) (h : handler) : route := mkRoute m (str p) false h.

Lemma rr_pub : route_request MPost (str "/pub") = RHandle (rt_static MPost "/pub" HPub).
Proof. vm_compute. reflexivity. Qed.
Lemma rr_mpub : route_request MPost (str "/mpub") = RHandle (rt_static MPost "/mpub" HMpub).
Proof. vm_compute. reflexivity. Qed.

(* ------------------------------------------------------------------ defer: HTTP and DPUB agree *)
Lemma digit_not_sign : forall c, is_digit c = true -> N.eqb c 43 = false /\ N.eqb c 45 = false.
Proof. intros c H. apply is_digit_range in H. split; apply N.eqb_neq; lia. Qed.

(* strconv.ParseInt on a non-empty string of digits *)
Lemma parse_int_digits : forall ds, ds <> [] -> all_digits ds = true ->
  parse_int ds = if Z.of_N (dec_value ds) <=? max_i64 then Some (Z.of_N (dec_value ds)) else None.
Proof.
  intros [|c r] NE D; [contradiction|].
  pose proof D as D'. rewrite all_digits_cons in D'. apply andb_true_iff in D' as [Dc _].
  apply digit_not_sign in Dc as [P M].
  unfold parse_int. rewrite P, M. rewrite D. reflexivity.
Qed.

(* /pub?defer=D and DPUB ... D decide alike, and on the same Duration, for every decimal
   digit string D, however long (this is where F1 lived) *)
Lemma defer_equiv : forall mr ds, 0 <= mr < max_i64 -> ds <> [] -> all_digits ds = true ->
  http_defer mr (parse_int ds) = dpub_param mr ds.
Proof.
  intros mr ds Hmr NE D.
  rewrite (parse_int_digits ds NE D), (dpub_param_spec mr ds Hmr), D. cbn [andb].
  unfold ms_ns. set (v := Z.of_N (dec_value ds)). assert (Hv : 0 <= v) by (subst v; lia).
  destruct (v <=? max_i64) eqn:E.
  - rewrite (http_defer_spec mr (Some v) Hmr).
    replace (0 <=? v) with true by lia. cbn [andb]. reflexivity.
  - rewrite (http_defer_spec mr None Hmr).
    unfold max_i64, ns_per_ms in *.
    replace (v * 1000000 <=? mr) with false by lia. reflexivity.
Qed.

(* ------------------------------------------------------------------ /pub == PUB / DPUB *)
(* a complete request: the whole body arrived; it was sent with a Content-Length or chunked *)
Definition complete_body (r : request) (body : bytes) : Prop :=
  r_body r = body /\ r_body_err r = false /\ (r_framing r = Declared (blen body) \/ r_framing r = Chunked).

Lemma blen_firstn : forall n b, 0 <= n -> blen (firstn (Z.to_nat n) b) = Z.min n (blen b).
Proof. intros n b H. unfold blen. rewrite firstn_length. lia. Qed.

Lemma do_pub_spec : forall c r body, 0 <= max_msg c -> complete_body r body ->
  do_pub c r =
    if blen body >? max_msg c then herr 413 "MSG_TOO_BIG"
    else if blen body =? 0 then herr 400 "MSG_EMPTY"
    else match topic_from_query r with
         | inl e => (e, [])
         | inr (ps, t) =>
             let put d := if env_exiting c then ((503, str "EXITING"), [ECreateTopic t])
                          else ((200, str "OK"), [ECreateTopic t; EEnqueue t [body] d]) in
             match qget k_defer ps with
             | None => put 0
             | Some ds =>
                 match http_defer (max_req c) (parse_int ds) with
                 | DpubInvalid => ((400, str "INVALID_DEFER"), [ECreateTopic t])
                 | DpubDelay d => put d
                 end
             end
         end.
Proof.
  intros c r body Hm (Hb & He & Hf). unfold do_pub, content_length, read_limited. rewrite Hb, He.
  destruct (blen body >? max_msg c) eqn:Big.
  - destruct Hf as [Hf|Hf]; rewrite Hf.
    + rewrite Big. reflexivity.
    + replace (-1 >? max_msg c) with false by lia.
      replace (max_msg c + 1 <=? blen body) with true by lia.
      rewrite blen_firstn by lia. replace (Z.min (max_msg c + 1) (blen body) =? max_msg c + 1) with true by lia.
      reflexivity.
  - replace (match r_framing r with Declared n => n | Chunked => -1 end >? max_msg c) with false
      by (destruct Hf as [Hf|Hf]; rewrite Hf; lia).
    replace (max_msg c + 1 <=? blen body) with false by lia.
    replace (blen body =? max_msg c + 1) with false by lia.
    reflexivity.
Qed.

Lemma tcp_body_spec : forall c body,
  tcp_body c (blen body) body = if (blen body <=? 0) || (blen body >? max_msg c) then None else Some body.
Proof.
  intros c body. unfold tcp_body.
  destruct (blen body <=? 0); [reflexivity|]. destruct (blen body >? max_msg c); [reflexivity|].
  cbn [orb]. rewrite Z.ltb_irrefl. rewrite firstn_blen_self. reflexivity.
Qed.

Lemma topic_from_query_ok : forall r ps name, r_query r = QOk ps -> qget k_topic ps = Some name ->
  topic_from_query r = if is_valid_name name then inr (ps, name) else inl (400, str "INVALID_TOPIC").
Proof. intros r ps name Q T. unfold topic_from_query. rewrite Q, T. reflexivity. Qed.

Definition OKb := str "OK".

(* C10_pub_equiv, first clause: POST /pub?topic=T with body B is accepted iff PUB T with
   B is, and then both have exactly the same effects (create T if absent, enqueue B). *)
Theorem pub_equiv : forall c st r ps name body effs,
  tls_gate c = false -> 0 <= max_msg c ->
  r_method r = MPost -> r_path r = str "/pub" -> r_query r = QOk ps -> complete_body r body ->
  qget k_topic ps = Some name -> qget k_defer ps = None ->
  (serve c st r = (Resp 200 OKb, effs) <-> tcp_pub c name (blen body) body = TcpOk effs).
Proof.
  intros c st r ps name body effs T Hm M P Q CB QT QD.
  rewrite (serve_at c st r (rt_static MPost "/pub" HPub) T) by (rewrite M, P; exact rr_pub).
  unfold run_handler. cbn [rt_handler rt_static].
  rewrite (do_pub_spec c r body Hm CB), (topic_from_query_ok r ps name Q QT).
  unfold tcp_pub. rewrite tcp_body_spec.
  destruct (blen body >? max_msg c) eqn:Big.
  - rewrite orb_true_r. destruct (is_valid_name name); cbn; split; intro X; discriminate.
  - destruct (blen body =? 0) eqn:Z0.
    + replace (blen body <=? 0) with true by lia. cbn [orb].
      destruct (is_valid_name name); cbn; split; intro X; discriminate.
    + pose proof (blen_nonneg body). replace (blen body <=? 0) with false by lia. cbn [orb].
      destruct (is_valid_name name); cbn [negb]; [|cbn; split; intro X; discriminate].
      rewrite QD. destruct (env_exiting c); cbn; split; intro X; inversion X; reflexivity.
Qed.

(* ... with a delay: POST /pub?topic=T&defer=D == DPUB T D for every digit string D *)
Theorem dpub_equiv : forall c st r ps name ds body effs,
  tls_gate c = false -> 0 <= max_msg c -> 0 <= max_req c < max_i64 ->
  r_method r = MPost -> r_path r = str "/pub" -> r_query r = QOk ps -> complete_body r body ->
  qget k_topic ps = Some name -> qget k_defer ps = Some ds -> ds <> [] -> all_digits ds = true ->
  (serve c st r = (Resp 200 OKb, effs) <-> tcp_dpub c name ds (blen body) body = TcpOk effs).
Proof.
  intros c st r ps name ds body effs T Hm Hr M P Q CB QT QD NE AD.
  rewrite (serve_at c st r (rt_static MPost "/pub" HPub) T) by (rewrite M, P; exact rr_pub).
  unfold run_handler. cbn [rt_handler rt_static].
  rewrite (do_pub_spec c r body Hm CB), (topic_from_query_ok r ps name Q QT).
  unfold tcp_dpub. rewrite tcp_body_spec. rewrite <- (defer_equiv (max_req c) ds Hr NE AD).
  destruct (blen body >? max_msg c) eqn:Big.
  - rewrite orb_true_r.
    destruct (is_valid_name name); cbn; [destruct (http_defer (max_req c) (parse_int ds))|]; split; intro X; discriminate.
  - destruct (blen body =? 0) eqn:Z0.
    + replace (blen body <=? 0) with true by lia. cbn [orb].
      destruct (is_valid_name name); cbn; [destruct (http_defer (max_req c) (parse_int ds))|]; split; intro X; discriminate.
    + pose proof (blen_nonneg body). replace (blen body <=? 0) with false by lia. cbn [orb].
      destruct (is_valid_name name); cbn [negb]; [|cbn; split; intro X; discriminate].
      rewrite QD. destruct (http_defer (max_req c) (parse_int ds)); [cbn; split; intro X; discriminate|].
      destruct (env_exiting c); cbn; split; intro X; inversion X; reflexivity.
Qed.
