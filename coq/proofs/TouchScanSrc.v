(* model/TouchScan.v's scan is the one the CURRENT source has: read off the regenerated
   statement skeleton of Channel.processInFlightQueue (peek, pop, on to the next entry when the pop fails,
   re-read of the deadline with the push back, then the re-queue) and of Channel.TouchMessage
   (pop, then the set, then the queue). *)
From Coq Require Import List String Bool.
From NSQV Require Import model.TouchScan proofs.TouchScanProofs gen.CoreShape proofs.CoreSrcDefs.
Import ListNotations.
Open Scope string_scope.

Definition has (t : string) (l : list string) : bool := existsb (String.eqb t) l.

(* Some true: the scan re-reads the deadline after its pop and pushes back; Some false: it
   re-queues whatever it popped; None: not the scan the model describes *)
Definition scan_rechecks (sh : list string) : option bool :=
  if negb (has "call c.inFlightPQ.PeekAndShift" (take_through "call c.popInFlightMessage" sh)) then None else
  match drop_until "call c.popInFlightMessage" sh with
  | _ :: "if err != nil {" :: "continue" :: "}" :: rest =>
      match rest with
      | "if msg.pri > t {" :: "call c.pushInFlightMessage" :: "call c.addToInFlightPQ" :: "continue" :: "}" :: rest' =>
          if has "call c.put" rest' then Some true else None
      | _ => if has "call c.put" rest then Some false else None
      end
  | _ => None
  end.

Definition touch_in_order (sh : list string) : bool :=
  match drop_until "call c.popInFlightMessage" sh with
  | _ :: rest => match drop_until "call c.pushInFlightMessage" rest with
                 | _ :: rest' => has "call c.addToInFlightPQ" rest' && negb (has "call c.popInFlightMessage" rest)
                 | [] => false
                 end
  | [] => false
  end.

Lemma src_scan_rechecks : scan_rechecks shape_Channel_processInFlightQueue = Some true.
Proof. vm_compute. reflexivity. Qed.
Lemma src_touch_in_order : touch_in_order shape_Channel_TouchMessage = true.
Proof. vm_compute. reflexivity. Qed.

Definition source_recheck : bool := match scan_rechecks shape_Channel_processInFlightQueue with Some b => b | None => false end.

Theorem source_touch_vs_scan : forall oe ne sched,
  In sched (merges 4 4) -> good_end ne (run source_recheck oe ne sched) = true.
Proof.
  assert (E : source_recheck = true) by (unfold source_recheck; rewrite src_scan_rechecks; reflexivity).
  rewrite E. exact touch_vs_scan_every_interleaving.
Qed.

(* ---- model/ScanRound.v: the round goes on after a stale entry (F24) ---- *)
From Coq Require Import ZArith.
From NSQV Require Import model.ScanRound proofs.ScanRoundProofs.
Definition scan_skips_stale (sh : list string) : bool :=
  match drop_until "call c.popInFlightMessage" sh with
  | _ :: "if err != nil {" :: "continue" :: "}" :: _ => true
  | _ => false
  end.
Lemma src_scan_skips_stale : scan_skips_stale shape_Channel_processInFlightQueue = true.
Proof. vm_compute. reflexivity. Qed.

Theorem source_due_messages_are_requeued t in_set current pq m :
  all_due t pq -> In m (map e_id pq) -> in_set m = true -> (current m <= t)%Z ->
  In m (round (scan_skips_stale shape_Channel_processInFlightQueue) t in_set current pq).
Proof. rewrite src_scan_skips_stale. apply due_messages_are_requeued. Qed.
