(* C16 — the invariant that ties one nsqlookupd connection's registrations to nsqd's
   objects and pending notifications, and its preservation by every topic / channel
   operation (creation, two-step deletion, GetTopic's pre-creation, publish, pump). *)
From Coq Require Import List NArith ZArith Bool Lia Arith.
From RecordUpdate Require Import RecordUpdate.
From NSQV Require Import gen.Consts gen.SyncTab model.Judge model.Sync proofs.SyncBase.
Import ListNotations.
Open Scope nat_scope.
Open Scope bool_scope.

(* ------------------------------------------------------------------ definitions *)
Definition live (l : list obj) (i : nat) : Prop := live_obj l (getO l i) = true.

(* structure of the object store *)
Definition WF (l : list obj) (b : list nat) : Prop :=
  (forall i, In i b -> i < length l) /\
  (forall i, o_exit (getO l i) = false -> o_map (getO l i) = true) /\
  (forall i p, o_parent (getO l i) = Some p ->
     p < length l /\ o_parent (getO l p) = None /\ o_t (getO l p) = o_t (getO l i)) /\
  (forall i p, o_parent (getO l i) = Some p -> o_map (getO l i) = true -> o_map (getO l p) = true) /\
  (forall t i j, topic_named t (getO l i) = true -> topic_named t (getO l j) = true -> i = j) /\
  (forall p c i j, chan_named p c (getO l i) = true -> chan_named p c (getO l j) = true -> i = j).

(* a pending UNREGISTER that would undo a live object's registration is always
   accompanied by that object's own pending REGISTER *)
Definition K2 (l : list obj) (b : list nat) : Prop :=
  forall e j, In e b -> conflicts (getO l e) (getO l j) = true -> live l j -> In j b.

(* R = the registrations one nsqlookupd holds for this nsqd on a live connection *)
Definition J (l : list obj) (b : list nat) (R : list key) : Prop :=
  (forall i, live l i -> In (key_of (getO l i)) R \/ In i b) /\
  (forall k, In k R ->
     (exists i, live l i /\ key_of (getO l i) = k) \/
     (exists e, In e b /\ removes (getO l e) k = true)).

Definition P (l : list obj) (b : list nat) (oR : option (list key)) : Prop :=
  WF l b /\ K2 l b /\ match oR with Some R => J l b R | None => True end.

(* ------------------------------------------------------------------ small facts *)
Lemma dflt_not_live l : live_obj l dflt = false.
Proof. reflexivity. Qed.

Lemma live_lt l i : live l i -> i < length l.
Proof.
  unfold live. intros H. destruct (Nat.ltb_spec i (length l)); auto.
  rewrite getO_overflow in H by auto. discriminate.
Qed.

Lemma live_spec l i :
  live l i <-> o_exit (getO l i) = false /\
               (forall p, o_parent (getO l i) = Some p -> o_exit (getO l p) = false).
Proof.
  unfold live, live_obj. rewrite andb_true_iff, negb_true_iff.
  destruct (o_parent (getO l i)) as [p|].
  - rewrite negb_true_iff. split; intros [A B]; split; auto.
    + intros q E; inversion E; subst; auto.
  - split; intros [A B]; split; auto. intros; discriminate.
Qed.

Lemma key_topic_key_of o : key_topic (key_of o) = o_t o.
Proof. unfold key_of. destruct (o_parent o); reflexivity. Qed.

Lemma removes_self o : o_exit o = true -> removes o (key_of o) = true.
Proof.
  intros E. unfold removes, key_of. rewrite E. cbn.
  destruct (o_parent o); cbn.
  - rewrite !N.eqb_refl. reflexivity.
  - apply N.eqb_refl.
Qed.

Ltac wf_split := split; [|split; [|split; [|split; [|split]]]].

Ltac upd_field :=
  rewrite getO_upd;
  match goal with |- context [(?j =? ?i) && ?b] =>
    let E := fresh "E" in let E1 := fresh "E1" in
    destruct ((j =? i) && b) eqn:E;
    [apply andb_true_iff in E; destruct E as [E1 _]; apply Nat.eqb_eq in E1; subst; reflexivity | reflexivity]
  end.

(* ------------------------------------------------------------------ set_exit *)
Section Exit.
  Variable l : list obj.
  Variable i : nat.
  Let l' := upd l i (getO l i <| o_exit := true |>).

  Lemma ex_parent j : o_parent (getO l' j) = o_parent (getO l j).
  Proof.
    unfold l'. upd_field.
  Qed.
  Lemma ex_t j : o_t (getO l' j) = o_t (getO l j).
  Proof.
    unfold l'. upd_field.
  Qed.
  Lemma ex_c j : o_c (getO l' j) = o_c (getO l j).
  Proof.
    unfold l'. upd_field.
  Qed.
  Lemma ex_map j : o_map (getO l' j) = o_map (getO l j).
  Proof.
    unfold l'. upd_field.
  Qed.
  Lemma ex_exit j : o_exit (getO l' j) = (j =? i) || o_exit (getO l j).
  Proof.
    unfold l'. rewrite getO_upd. destruct (Nat.eqb_spec j i); cbn [andb orb negb]; auto.
    subst. destruct (Nat.ltb_spec i (length l)); cbn [andb orb negb]; auto.
    rewrite getO_overflow by auto. reflexivity.
  Qed.
  Lemma ex_len : length l' = length l.
  Proof. apply length_upd. Qed.
  Lemma ex_key j : key_of (getO l' j) = key_of (getO l j).
  Proof. unfold key_of. rewrite ex_parent, ex_t, ex_c. reflexivity. Qed.
  Lemma ex_topic_named t j : topic_named t (getO l' j) = topic_named t (getO l j).
  Proof. unfold topic_named, is_topic. rewrite ex_parent, ex_map, ex_t. reflexivity. Qed.
  Lemma ex_chan_named p c j : chan_named p c (getO l' j) = chan_named p c (getO l j).
  Proof. unfold chan_named, is_chan_of. rewrite ex_parent, ex_map, ex_c. reflexivity. Qed.

  Lemma ex_live j : live l' j -> live l j /\ j <> i /\ (forall p, o_parent (getO l j) = Some p -> p <> i).
  Proof.
    rewrite !live_spec. intros [A B]. rewrite ex_exit in A. apply orb_false_iff in A. destruct A as [A1 A2].
    apply Nat.eqb_neq in A1. repeat split; auto.
    - intros p E. rewrite <- ex_parent in E. apply B in E. rewrite ex_exit in E.
      apply orb_false_iff in E. tauto.
    - intros p E. rewrite <- ex_parent in E. apply B in E. rewrite ex_exit in E.
      apply orb_false_iff in E. destruct E as [E _]. apply Nat.eqb_neq in E. auto.
  Qed.

  Lemma ex_removes e k : e <> i -> removes (getO l' e) k = removes (getO l e) k.
  Proof.
    intros N. unfold removes. rewrite ex_exit, ex_parent, ex_t, ex_c.
    apply Nat.eqb_neq in N. rewrite N. reflexivity.
  Qed.

  Lemma ex_removes_mono e k : removes (getO l e) k = true -> removes (getO l' e) k = true.
  Proof.
    unfold removes. rewrite ex_exit, ex_parent, ex_t, ex_c. rewrite !andb_true_iff.
    intros [A B]. rewrite A, orb_true_r. auto.
  Qed.

  Hypothesis Hi : i < length l.
  Hypothesis Hex : o_exit (getO l i) = false.

  Lemma exit_WF b : WF l b -> WF l' (b ++ [i]).
  Proof.
    intros (W1 & W2 & W3 & W4 & W5 & W6). unfold WF. rewrite ex_len. wf_split.
    - intros j Hj. apply in_app_iff in Hj. destruct Hj as [Hj|[<-|[]]]; auto.
    - intros j Hj. rewrite ex_exit in Hj. apply orb_false_iff in Hj. rewrite ex_map. apply W2. tauto.
    - intros j p H. rewrite ex_parent in H. rewrite ex_parent, !ex_t. apply W3 in H. auto.
    - intros j p. rewrite ex_parent, !ex_map. apply W4.
    - intros t a b0. rewrite !ex_topic_named. apply W5.
    - intros p c a b0. rewrite !ex_chan_named. apply W6.
  Qed.

  (* the object that starts exiting cannot be in conflict with a live one *)
  Lemma exit_no_conflict b j :
    WF l b -> removes (getO l' i) (key_of (getO l' j)) = true -> live l' j -> False.
  Proof.
    intros (W1 & W2 & W3 & W4 & W5 & W6) R L.
    apply ex_live in L. destruct L as (L & Nji & Npi).
    apply live_spec in L. destruct L as [Lj Lp].
    pose proof (W2 _ Lj) as Mj. pose proof (W2 _ Hex) as Mi.
    unfold removes in R. rewrite ex_exit, Nat.eqb_refl, ex_parent, ex_t, ex_c, ex_key in R. cbn in R.
    destruct (o_parent (getO l i)) as [pi|] eqn:Pi.
    - (* i is a channel *)
      apply key_eqb_eq in R. unfold key_of in R.
      destruct (o_parent (getO l j)) as [pj|] eqn:Pj; try discriminate.
      inversion R as [[Et Ec]].
      destruct (W3 _ _ Pi) as (_ & Ti & Ni). destruct (W3 _ _ Pj) as (_ & Tj & Nj).
      pose proof (W4 _ _ Pi Mi) as Mpi.
      pose proof (W2 _ (Lp _ eq_refl)) as Mpj.
      assert (pi = pj).
      { apply (W5 (o_t (getO l i))); unfold topic_named, is_topic.
        - rewrite Ti, Mpi, Ni, N.eqb_refl. reflexivity.
        - rewrite Tj, Mpj, Nj, Et, N.eqb_refl. reflexivity. }
      subst pj. apply Nji. symmetry.
      apply (W6 pi (o_c (getO l i))); unfold chan_named, is_chan_of.
      + rewrite Pi, Nat.eqb_refl, Mi, N.eqb_refl. reflexivity.
      + rewrite Pj, Nat.eqb_refl, Mj, Ec, N.eqb_refl. reflexivity.
    - (* i is a topic *)
      rewrite key_topic_key_of in R. apply N.eqb_eq in R.
      assert (Ti : topic_named (o_t (getO l i)) (getO l i) = true).
      { unfold topic_named, is_topic. rewrite Pi, Mi, N.eqb_refl. reflexivity. }
      destruct (o_parent (getO l j)) as [pj|] eqn:Pj.
      + destruct (W3 _ _ Pj) as (_ & Tj & Nj).
        pose proof (W2 _ (Lp _ eq_refl)) as Mpj.
        apply (Npi pj eq_refl). symmetry.
        apply (W5 (o_t (getO l i))); auto.
        unfold topic_named, is_topic. rewrite Tj, Mpj, Nj, R, N.eqb_refl. reflexivity.
      + apply Nji. symmetry. apply (W5 (o_t (getO l i))); auto.
        unfold topic_named, is_topic. rewrite Pj, Mj, R, N.eqb_refl. reflexivity.
  Qed.

  Lemma exit_K2 b : WF l b -> K2 l b -> K2 l' (b ++ [i]).
  Proof.
    intros W K e j He C L. unfold conflicts in C.
    destruct (Nat.eq_dec e i) as [->|Ne].
    - exfalso. eapply exit_no_conflict; eauto.
    - apply in_app_iff in He. destruct He as [He|[E|[]]]; try congruence.
      apply in_app_iff. left. apply (K e j He).
      + unfold conflicts. rewrite ex_removes, ex_key in C; auto.
      + apply ex_live in L. tauto.
  Qed.

  Lemma exit_J b R : WF l b -> J l b R -> J l' (b ++ [i]) R.
  Proof.
    intros W [J1 J2]. split.
    - intros j L. apply ex_live in L. destruct L as (L & _). rewrite ex_key.
      destruct (J1 j L); auto. right. apply in_app_iff. auto.
    - intros k Hk. destruct (J2 k Hk) as [(j & L & E)|(e & He & Re)].
      + destruct (live_obj l' (getO l' j)) eqn:L'.
        * left. exists j. split; auto. rewrite ex_key. auto.
        * right. exists i. split. { apply in_app_iff. right. left. reflexivity. }
          (* j stopped being live: it is i, or a channel of topic i *)
          apply live_spec in L. destruct L as [Lj Lp].
          unfold live_obj in L'. rewrite ex_exit, ex_parent, Lj, orb_false_r in L'.
          destruct (Nat.eqb_spec j i) as [->|Nji]; cbn in L'.
          -- subst k. rewrite <- ex_key. apply removes_self. rewrite ex_exit, Nat.eqb_refl. reflexivity.
          -- destruct (o_parent (getO l j)) as [p|] eqn:Pj; try discriminate.
             rewrite ex_exit, (Lp p eq_refl), orb_false_r in L'.
             apply negb_false_iff, Nat.eqb_eq in L'. subst p.
             destruct W as (_ & _ & W3 & _). destruct (W3 _ _ Pj) as (_ & Ti & Ni).
             unfold removes. rewrite ex_exit, Nat.eqb_refl, ex_parent, Ti, ex_t. cbn.
             subst k. rewrite key_topic_key_of, Ni. apply N.eqb_refl.
      + right. exists e. split. { apply in_app_iff. auto. } apply ex_removes_mono. auto.
  Qed.

  Lemma exit_P b oR : P l b oR -> P l' (b ++ [i]) oR.
  Proof.
    intros (W & K & HJ). split; [|split].
    - apply exit_WF; auto.
    - apply exit_K2; auto.
    - destruct oR; auto. apply exit_J; auto.
  Qed.
End Exit.

(* ------------------------------------------------------------------ set_unmap *)
Section Unmap.
  Variable l : list obj.
  Variable i : nat.
  Let l' := upd l i (getO l i <| o_map := false |>).

  Lemma um_parent j : o_parent (getO l' j) = o_parent (getO l j).
  Proof.
    unfold l'. upd_field.
  Qed.
  Lemma um_t j : o_t (getO l' j) = o_t (getO l j).
  Proof.
    unfold l'. upd_field.
  Qed.
  Lemma um_c j : o_c (getO l' j) = o_c (getO l j).
  Proof.
    unfold l'. upd_field.
  Qed.
  Lemma um_exit j : o_exit (getO l' j) = o_exit (getO l j).
  Proof.
    unfold l'. upd_field.
  Qed.
  Lemma um_map j : o_map (getO l' j) = negb (j =? i) && o_map (getO l j).
  Proof.
    unfold l'. rewrite getO_upd. destruct (Nat.eqb_spec j i); cbn [andb orb negb]; auto.
    subst. destruct (Nat.ltb_spec i (length l)); cbn [andb orb negb]; auto.
    rewrite getO_overflow by auto. reflexivity.
  Qed.
  Lemma um_len : length l' = length l.
  Proof. apply length_upd. Qed.
  Lemma um_key j : key_of (getO l' j) = key_of (getO l j).
  Proof. unfold key_of. rewrite um_parent, um_t, um_c. reflexivity. Qed.
  Lemma um_live j : live l' j <-> live l j.
  Proof. rewrite !live_spec. rewrite um_exit, um_parent. split; intros [A B]; split; auto; intros p E; specialize (B p E); rewrite um_exit in *; auto. Qed.
  Lemma um_removes e k : removes (getO l' e) k = removes (getO l e) k.
  Proof. unfold removes. rewrite um_exit, um_parent, um_t, um_c. reflexivity. Qed.

  Lemma um_topic_named t j : topic_named t (getO l' j) = true -> topic_named t (getO l j) = true.
  Proof.
    unfold topic_named, is_topic. rewrite um_parent, um_map, um_t. rewrite !andb_true_iff. tauto.
  Qed.
  Lemma um_chan_named p c j : chan_named p c (getO l' j) = true -> chan_named p c (getO l j) = true.
  Proof.
    unfold chan_named, is_chan_of. rewrite um_parent, um_map, um_c. rewrite !andb_true_iff. tauto.
  Qed.

  Lemma unmap_K2 b : K2 l b -> K2 l' b.
  Proof.
    intros K e j He C L. apply (K e j He).
    - unfold conflicts in *. rewrite um_removes, um_key in C. auto.
    - apply um_live. auto.
  Qed.

  Lemma unmap_J b R : J l b R -> J l' b R.
  Proof.
    intros [J1 J2]. split.
    - intros j L. rewrite um_key. apply J1. apply um_live. auto.
    - intros k Hk. destruct (J2 k Hk) as [(j & L & E)|(e & He & Re)].
      + left. exists j. split. apply um_live; auto. rewrite um_key; auto.
      + right. exists e. split; auto. rewrite um_removes. auto.
  Qed.

  Hypothesis Hex : o_exit (getO l i) = true.
  Hypothesis Hch : forall j, o_parent (getO l j) = Some i -> o_map (getO l j) = false.

  Lemma unmap_WF b : WF l b -> WF l' b.
  Proof.
    intros (W1 & W2 & W3 & W4 & W5 & W6). unfold WF. rewrite um_len. wf_split; auto.
    - intros j Hj. rewrite um_exit in Hj. rewrite um_map, (W2 _ Hj), andb_true_r.
      destruct (Nat.eqb_spec j i); auto. subst. congruence.
    - intros j p H. rewrite um_parent in H. rewrite um_parent, !um_t. apply W3 in H. auto.
    - intros j p. rewrite um_parent, !um_map, !andb_true_iff, !negb_true_iff. intros E [A B].
      split; [|eapply W4; eauto].
      apply Nat.eqb_neq. intros ->. rewrite (Hch _ E) in B. discriminate.
    - intros t a b0 A B. apply (W5 t); apply um_topic_named; auto.
    - intros p c a b0 A B. apply (W6 p c); apply um_chan_named; auto.
  Qed.

  Lemma unmap_P b oR : P l b oR -> P l' b oR.
  Proof.
    intros (W & K & HJ). split; [|split].
    - apply unmap_WF; auto.
    - apply unmap_K2; auto.
    - destruct oR; auto. apply unmap_J; auto.
  Qed.
End Unmap.

(* ------------------------------------------------------------------ add_obj *)
Section Add.
  Variable l : list obj.
  Variable o : obj.
  Let n := length l.
  Let l' := l ++ [o].
  Hypothesis Hne : o_exit o = false.
  Hypothesis Hmap : o_map o = true.

  Lemma ad_old j : j < n -> getO l' j = getO l j.
  Proof. intros H. unfold l'. rewrite getO_app_new. apply Nat.ltb_lt in H. fold n. rewrite H. reflexivity. Qed.
  Lemma ad_new : getO l' n = o.
  Proof. unfold l'. rewrite getO_app_new. fold n. rewrite Nat.ltb_irrefl, Nat.eqb_refl. reflexivity. Qed.
  Lemma ad_over j : n < j -> getO l' j = dflt.
  Proof.
    intros H. unfold l'. rewrite getO_app_new. fold n.
    destruct (Nat.ltb_spec j n); try lia. destruct (Nat.eqb_spec j n); try lia. reflexivity.
  Qed.
  Lemma ad_len : length l' = S n.
  Proof. unfold l'. rewrite app_length. cbn. fold n. lia. Qed.

  Lemma ad_cases j : (j < n /\ getO l' j = getO l j) \/ (j = n /\ getO l' j = o) \/ (n < j /\ getO l' j = dflt).
  Proof.
    destruct (lt_eq_lt_dec j n) as [[H|H]|H].
    - left. split; auto. apply ad_old; auto.
    - right. left. subst. split; auto. apply ad_new.
    - right. right. split; auto. apply ad_over; auto.
  Qed.

  (* the parent of the new object, if any, is an existing in-map topic with the same name *)
  Hypothesis Hpar : forall p, o_parent o = Some p ->
     p < n /\ o_parent (getO l p) = None /\ o_t (getO l p) = o_t o /\ o_map (getO l p) = true.

  Lemma ad_live_old b j : WF l b -> j < n -> (live l' j <-> live l j).
  Proof.
    intros (_ & _ & W3 & _) H. rewrite !live_spec. rewrite ad_old by auto.
    split; intros [A B]; split; auto; intros p E; pose proof (W3 _ _ E) as (Hp & _);
      specialize (B p E); rewrite ad_old in *; auto.
  Qed.

  Lemma add_K2 b : WF l b -> K2 l b -> K2 l' (b ++ [n]).
  Proof.
    intros W K e j He C L. pose proof W as (W1 & _).
    apply in_app_iff in He. destruct He as [He|[<-|[]]].
    - pose proof (W1 _ He) as Le.
      destruct (ad_cases j) as [[Hj Ej]|[[Hj Ej]|[Hj Ej]]].
      + apply in_app_iff. left. apply (K e j He).
        * unfold conflicts in *. rewrite ad_old, Ej in C; auto.
        * eapply ad_live_old; eauto.
      + rewrite Hj. apply in_app_iff. right. left. reflexivity.
      + unfold live in L. rewrite Ej in L. discriminate.
    - unfold conflicts, removes in C. rewrite ad_new, Hne in C. discriminate.
  Qed.

  Lemma add_J b R : WF l b -> J l b R -> J l' (b ++ [n]) R.
  Proof.
    intros W [J1 J2]. split.
    - intros j L. destruct (ad_cases j) as [[Hj Ej]|[[Hj Ej]|[Hj Ej]]].
      + rewrite Ej. apply (ad_live_old b) in L; auto. destruct (J1 j L); auto.
        right. apply in_app_iff. auto.
      + rewrite Hj. right. apply in_app_iff. right. left. reflexivity.
      + unfold live in L. rewrite Ej in L. discriminate.
    - intros k Hk. destruct (J2 k Hk) as [(j & L & E)|(e & He & Re)].
      + left. exists j. pose proof (live_lt _ _ L) as Hj. fold n in Hj. split.
        * eapply ad_live_old; eauto.
        * rewrite ad_old; auto.
      + right. exists e. destruct W as (W1 & _). pose proof (W1 _ He). split.
        * apply in_app_iff. auto.
        * rewrite ad_old; auto.
  Qed.

  (* uniqueness of the new name among mapped objects *)
  Hypothesis Huniq_t : forall t j, topic_named t o = true -> topic_named t (getO l j) = false.
  Hypothesis Huniq_c : forall p c j, chan_named p c o = true -> chan_named p c (getO l j) = false.

  Lemma add_WF b : WF l b -> WF l' (b ++ [n]).
  Proof.
    intros (W1 & W2 & W3 & W4 & W5 & W6). unfold WF. rewrite ad_len. wf_split.
    - intros j Hj. apply in_app_iff in Hj. destruct Hj as [Hj|[<-|[]]]; auto. apply W1 in Hj. fold n in Hj. lia.
    - intros j Hj. destruct (ad_cases j) as [[H E]|[[H E]|[H E]]]; rewrite E in *; auto; try discriminate.
    - intros i p H. destruct (ad_cases i) as [[Hi E]|[[Hi E]|[Hi E]]]; rewrite E in *.
      + apply W3 in H. fold n in H. destruct H as (A & B & C). rewrite ad_old by auto. repeat split; auto.
      + apply Hpar in H. destruct H as (A & B & C & D). rewrite ad_old by auto. repeat split; auto.
      + discriminate.
    - intros i p Hp Hm. destruct (ad_cases i) as [[Hi E]|[[Hi E]|[Hi E]]]; rewrite E in *.
      + pose proof (W3 _ _ Hp) as (Lp & _). fold n in Lp. rewrite ad_old by auto. eapply W4; eauto.
      + apply Hpar in Hp. rewrite ad_old; tauto.
      + discriminate.
    - intros t i j A B.
      destruct (ad_cases i) as [[Hi Ei]|[[Hi Ei]|[Hi Ei]]]; rewrite Ei in A;
      destruct (ad_cases j) as [[Hj Ej]|[[Hj Ej]|[Hj Ej]]]; rewrite Ej in B; try discriminate; try lia.
      + eapply W5; eauto.
      + rewrite (Huniq_t t i B) in A. discriminate.
      + rewrite (Huniq_t t j A) in B. discriminate.
    - intros p c i j A B.
      destruct (ad_cases i) as [[Hi Ei]|[[Hi Ei]|[Hi Ei]]]; rewrite Ei in A;
      destruct (ad_cases j) as [[Hj Ej]|[[Hj Ej]|[Hj Ej]]]; rewrite Ej in B; try discriminate; try lia.
      + eapply W6; eauto.
      + rewrite (Huniq_c p c i B) in A. discriminate.
      + rewrite (Huniq_c p c j A) in B. discriminate.
  Qed.

  Lemma add_P b oR : P l b oR -> P l' (b ++ [n]) oR.
  Proof.
    intros (W & K & HJ). split; [|split].
    - apply add_WF; auto.
    - apply add_K2; auto.
    - destruct oR; auto. apply add_J; auto.
  Qed.
End Add.

(* ------------------------------------------------------------------ the data operations *)
(* nothing has a channel as its parent *)
Lemma chan_no_children l b j p :
  WF l b -> o_parent (getO l j) = Some p -> forall j', o_parent (getO l j') = Some j -> False.
Proof.
  intros (_ & _ & W3 & _) Hj j' Hj'. apply W3 in Hj'. destruct Hj' as (_ & E & _). congruence.
Qed.

(* what drop_chans does to the fields *)
Definition dc_rel (l0 l1 : list obj) : Prop :=
  length l1 = length l0 /\
  (forall j, o_parent (getO l1 j) = o_parent (getO l0 j)) /\
  (forall j, o_exit (getO l0 j) = true -> o_exit (getO l1 j) = true) /\
  (forall j, o_map (getO l1 j) = true -> o_map (getO l0 j) = true).

Lemma dc_rel_refl l : dc_rel l l.
Proof. repeat split; auto. Qed.

Lemma dc_rel_trans a b c : dc_rel a b -> dc_rel b c -> dc_rel a c.
Proof.
  intros (A1 & A2 & A3 & A4) (B1 & B2 & B3 & B4). repeat split; try congruence; auto.
Qed.

Lemma dc_rel_exit l i : dc_rel l (upd l i (getO l i <| o_exit := true |>)).
Proof.
  repeat split.
  - apply ex_len.
  - apply ex_parent.
  - intros j H. rewrite ex_exit, H. apply orb_true_r.
  - intros j. rewrite ex_map. auto.
Qed.

Lemma dc_rel_unmap l i : dc_rel l (upd l i (getO l i <| o_map := false |>)).
Proof.
  repeat split.
  - apply um_len.
  - apply um_parent.
  - intros j. rewrite um_exit. auto.
  - intros j. rewrite um_map, andb_true_iff. tauto.
Qed.

Lemma topic_named_facts t o : topic_named t o = true -> is_topic o = true /\ o_map o = true /\ o_t o = t.
Proof. unfold topic_named. rewrite !andb_true_iff, N.eqb_eq. tauto. Qed.

Lemma chan_named_facts p c o : chan_named p c o = true -> o_parent o = Some p /\ o_map o = true /\ o_c o = c.
Proof. unfold chan_named. rewrite !andb_true_iff, N.eqb_eq, is_chan_of_spec. tauto. Qed.

(* every data operation is a composition of: append a fresh object, set an exit flag,
   take an exiting object out of its map, touch the data part.  A predicate closed under
   the first three (given WF) is preserved by every data operation. *)
Section Closed.
  Variable Pr : list obj -> list nat -> Prop.
  Hypothesis Pr_exit : forall l i b, o_exit (getO l i) = false -> WF l b -> Pr l b ->
     Pr (upd l i (getO l i <| o_exit := true |>)) (b ++ [i]).
  Hypothesis Pr_unmap : forall l i b, Pr l b -> Pr (upd l i (getO l i <| o_map := false |>)) b.
  Hypothesis Pr_add : forall l o b, o_exit o = false -> WF l b -> Pr l b -> Pr (l ++ [o]) (b ++ [length l]).

  Definition PX (x : dstate) : Prop := WF (x_objs x) (x_bag x) /\ Pr (x_objs x) (x_bag x).

  Lemma set_exit_P i x :
    i < length (x_objs x) -> o_exit (getO (x_objs x) i) = false -> PX x -> PX (set_exit i x).
  Proof. intros L E [W H]. unfold PX, set_exit; cbn. split. apply exit_WF; auto. apply Pr_exit; auto. Qed.

  Lemma set_unmap_P i x :
    o_exit (getO (x_objs x) i) = true ->
    (forall j, o_parent (getO (x_objs x) j) = Some i -> o_map (getO (x_objs x) j) = false) ->
    PX x -> PX (set_unmap i x).
  Proof. intros E C [W H]. unfold PX, set_unmap; cbn. split. apply unmap_WF; auto. apply Pr_unmap; auto. Qed.

  Lemma set_dat_P i f x : PX x -> PX (set_dat i f x).
  Proof. auto. Qed.

  Lemma add_topic_P t d x :
    find_topic (x_objs x) t = None -> PX x -> PX (add_obj (new_topic t) d x).
  Proof.
    intros F [W H]. unfold PX, add_obj; cbn. split; [|apply Pr_add; auto].
    apply add_WF; auto.
    - intros p E. discriminate.
    - intros t' j E. unfold topic_named in E. cbn in E. apply N.eqb_eq in E. subst. apply find_topic_none; auto.
    - intros p c j E. discriminate.
  Qed.

  Lemma get_channel_P p c x :
    p < length (x_objs x) -> is_topic (getO (x_objs x) p) = true -> o_map (getO (x_objs x) p) = true ->
    PX x -> PX (get_channel p c x).
  Proof.
    intros Lp Tp Mp [W H]. unfold get_channel.
    destruct (find_chan (x_objs x) p c) eqn:F; [split; auto|].
    unfold PX, add_obj; cbn. split; [|apply Pr_add; auto].
    apply add_WF; auto.
    - intros q E. cbn in E. inversion E; subst. apply is_topic_spec in Tp. auto.
    - intros t' j E. discriminate.
    - intros q c' j E. unfold chan_named, is_chan_of in E. cbn in E.
      rewrite !andb_true_iff in E. destruct E as [[E1 _] E2].
      apply Nat.eqb_eq in E1. apply N.eqb_eq in E2. subst. apply find_chan_none; auto.
  Qed.

  Lemma drop_chans_P js : forall x,
    PX x ->
    (forall j, In j js -> j < length (x_objs x) /\ o_parent (getO (x_objs x) j) <> None) ->
    PX (drop_chans js x) /\ dc_rel (x_objs x) (x_objs (drop_chans js x)) /\
    (forall j, In j js -> o_map (getO (x_objs (drop_chans js x)) j) = false).
  Proof.
    induction js as [|j r IH]; intros x H Hjs; cbn [drop_chans].
    - split; auto. split. apply dc_rel_refl. intros j [].
    - destruct (Hjs j (or_introl eq_refl)) as [Lj Pj].
      set (x1 := if o_exit (getO (x_objs x) j) then x else set_exit j x).
      assert (H1 : PX x1 /\ dc_rel (x_objs x) (x_objs x1) /\ o_exit (getO (x_objs x1) j) = true).
      { unfold x1. destruct (o_exit (getO (x_objs x) j)) eqn:E.
        - split; auto. split; auto. apply dc_rel_refl.
        - split. apply set_exit_P; auto. split. apply dc_rel_exit.
          unfold set_exit. cbn [x_objs]. rewrite ex_exit, Nat.eqb_refl. reflexivity. }
      destruct H1 as (H1 & D1 & E1).
      assert (H2 : PX (set_unmap j x1)).
      { apply set_unmap_P; auto. intros j' Hj'. exfalso.
        destruct D1 as (_ & D1p & _). destruct H1 as (W & _).
        destruct (o_parent (getO (x_objs x1) j)) as [p|] eqn:Pj1.
        - eapply chan_no_children; eauto.
        - rewrite D1p in Pj1. congruence. }
      assert (D2 : dc_rel (x_objs x) (x_objs (set_unmap j x1))).
      { eapply dc_rel_trans; eauto. apply dc_rel_unmap. }
      destruct (IH (set_unmap j x1) H2) as (H3 & D3 & M3).
      { intros j' Hj'. destruct (Hjs j' (or_intror Hj')) as [A B].
        destruct D2 as (D2l & D2p & _). rewrite D2l, D2p. auto. }
      split; auto. split. { eapply dc_rel_trans; eauto. }
      intros j' [<-|Hj']; auto.
      destruct D3 as (_ & _ & _ & D3m).
      destruct (o_map (getO (x_objs (drop_chans r (set_unmap j x1))) j)) eqn:E; auto.
      apply D3m in E. unfold set_unmap in E. cbn [x_objs] in E. rewrite um_map, Nat.eqb_refl in E. discriminate.
  Qed.

  Lemma data_step_P c ls o x : PX x -> PX (data_step c ls o x).
  Proof.
    intros H. destruct o; cbn [data_step]; auto.
    - (* TopicCreate *)
      destruct (find_topic (x_objs x) t) eqn:F; auto. apply add_topic_P; auto.
    - (* TopicAdvance *)
      unfold topic_advance. destruct (find_topic (x_objs x) t) as [i|] eqn:F; auto.
      apply find_topic_some in F. destruct F as [Li Ti]. apply topic_named_facts in Ti. destruct Ti as (T1 & T2 & T3).
      destruct (d_pc (getD (x_dats x) i)) as [|[|n]]; auto.
      destruct (d_todo (getD (x_dats x) i)); auto.
      apply set_dat_P. apply get_channel_P; auto.
    - (* ChanCreate *)
      destruct (find_topic (x_objs x) t) as [i|] eqn:F; auto.
      apply find_topic_some in F. destruct F as [Li Ti]. apply topic_named_facts in Ti. destruct Ti as (T1 & T2 & T3).
      apply get_channel_P; auto.
    - (* ChanDeleteBegin *)
      destruct (find_topic (x_objs x) t) as [i|] eqn:F; auto.
      destruct (find_chan (x_objs x) i c0) as [j|] eqn:G; auto.
      apply find_chan_some in G. destruct G as [Lj Cj].
      destruct (o_exit (getO (x_objs x) j)) eqn:E; auto. apply set_exit_P; auto.
    - (* ChanDeleteEnd *)
      destruct (find_topic (x_objs x) t) as [i|] eqn:F; auto.
      destruct (find_chan (x_objs x) i c0) as [j|] eqn:G; auto.
      apply find_chan_some in G. destruct G as [Lj Cj]. apply chan_named_facts in Cj. destruct Cj as (C1 & C2 & C3).
      destruct (o_exit (getO (x_objs x) j)) eqn:E; auto. apply set_unmap_P; auto.
      intros j' Hj'. exfalso. destruct H as (W & _). apply (chan_no_children _ _ _ _ W C1 _ Hj').
    - (* TopicDeleteBegin *)
      destruct (find_topic (x_objs x) t) as [i|] eqn:F; auto.
      apply find_topic_some in F. destruct F as [Li Ti].
      destruct (o_exit (getO (x_objs x) i)) eqn:E; auto. apply set_exit_P; auto.
    - (* TopicDeleteEnd *)
      destruct (find_topic (x_objs x) t) as [i|] eqn:F; auto.
      apply find_topic_some in F. destruct F as [Li Ti].
      destruct (o_exit (getO (x_objs x) i)) eqn:E; auto.
      destruct (drop_chans_P (chans_of (x_objs x) i) x H) as (H1 & (D1 & D2 & D3 & D4) & M).
      { intros j Hj. apply In_chans_of in Hj. destruct Hj as (A & B & C0). split; auto.
        apply is_chan_of_spec in B. congruence. }
      apply set_unmap_P; auto.
      intros j Hj. rewrite D2 in Hj.
      destruct (o_map (getO (x_objs (drop_chans (chans_of (x_objs x) i) x)) j)) eqn:Mj; auto.
      rewrite <- Mj. apply M. apply In_chans_of. apply D4 in Mj.
      split; [|split; auto].
      + destruct (Nat.ltb_spec j (length (x_objs x))); auto.
        rewrite getO_overflow in Hj by auto. discriminate.
      + apply is_chan_of_spec. auto.
    - (* Put *)
      destruct (find_topic (x_objs x) t) as [i|]; auto.
      destruct (o_exit (getO (x_objs x) i)); auto.
    - (* Pump *)
      destruct (find_topic (x_objs x) t) as [i|]; auto.
      destruct (d_started (getD (x_dats x) i) && negb (o_exit (getO (x_objs x) i))); auto.
      destruct (chans_of (x_objs x) i) as [|j0 js]; auto.
      destruct (d_q (getD (x_dats x) i)) as [|m q]; auto.
      assert (A : forall js0 y, PX y ->
         PX (fold_left (fun acc j => set_dat j (fun d => d <| d_q ::= (fun y => y ++ [m]) |>) acc) js0 y)).
      { induction js0; cbn; auto. }
      apply A. auto.
  Qed.
End Closed.

(* the three instances *)
Lemma data_step_WF c ls o x :
  WF (x_objs x) (x_bag x) -> WF (x_objs (data_step c ls o x)) (x_bag (data_step c ls o x)).
Proof.
  intros W. apply (data_step_P (fun _ _ => True)); auto. split; auto.
Qed.

Lemma data_step_K2 c ls o x :
  WF (x_objs x) (x_bag x) -> K2 (x_objs x) (x_bag x) -> K2 (x_objs (data_step c ls o x)) (x_bag (data_step c ls o x)).
Proof.
  intros W K. apply (data_step_P K2); try (split; auto; fail).
  - intros. apply exit_K2; auto.
  - intros. apply unmap_K2; auto.
  - intros. apply add_K2; auto.
Qed.

Lemma data_step_J c ls o x R :
  WF (x_objs x) (x_bag x) -> J (x_objs x) (x_bag x) R -> J (x_objs (data_step c ls o x)) (x_bag (data_step c ls o x)) R.
Proof.
  intros W K. apply (data_step_P (fun l b => J l b R)); try (split; auto; fail).
  - intros. apply exit_J; auto.
  - intros. apply unmap_J; auto.
  - intros. apply add_J; auto.
Qed.
