(* Lemmas about the file-operation model (FileOS.v): lookup/update/remove, the
   "never shrinks" preorder [fs_le], monotonicity of every operation the logger uses. *)
From Coq Require Import List ZArith NArith Bool Lia.
From NSQV Require Import model.Judge model.FileOS.
Import ListNotations.
Open Scope bool_scope.

(* ---------- equality tests ---------- *)
Lemma bytes_eqb_eq : forall a b : bytes, bytes_eqb a b = true <-> a = b.
Proof.
  unfold bytes_eqb. induction a as [|x a IH]; destruct b as [|y b]; simpl; split; intro H;
    try reflexivity; try discriminate.
  - apply andb_true_iff in H. destruct H as [H1 H2]. apply N.eqb_eq in H1. apply IH in H2. congruence.
  - inversion H; subst. apply andb_true_iff. split. apply N.eqb_refl. apply IH. reflexivity.
Qed.

Lemma dir_eqb_eq : forall a b, dir_eqb a b = true <-> a = b.
Proof. destruct a, b; simpl; split; intro H; try reflexivity; try discriminate. Qed.

Lemma key_eqb_eq : forall a b : key, key_eqb a b = true <-> a = b.
Proof.
  intros [d1 n1] [d2 n2]. unfold key_eqb. simpl. rewrite andb_true_iff, dir_eqb_eq, bytes_eqb_eq.
  split. intros [H1 H2]. congruence. intro H. inversion H. auto.
Qed.

Lemma key_eqb_refl : forall k, key_eqb k k = true.
Proof. intro k. apply key_eqb_eq. reflexivity. Qed.

Lemma key_eqb_neq : forall a b : key, a <> b -> key_eqb a b = false.
Proof. intros a b H. destruct (key_eqb a b) eqn:E; auto. apply key_eqb_eq in E. contradiction. Qed.

Lemma key_eq_dec : forall a b : key, a = b \/ a <> b.
Proof.
  intros a b. destruct (key_eqb a b) eqn:E.
  - left. apply key_eqb_eq. exact E.
  - right. intro H. apply key_eqb_eq in H. congruence.
Qed.

(* ---------- lookup / update / remove ---------- *)
Lemma lookup_update_same : forall fs k f, lookup (update fs k f) k = Some f.
Proof.
  induction fs as [|[k' f'] r IH]; intros k f; simpl.
  - rewrite key_eqb_refl. reflexivity.
  - destruct (key_eqb k k') eqn:E; simpl; rewrite E; auto.
Qed.

Lemma lookup_update_other : forall fs k k' f, k' <> k -> lookup (update fs k f) k' = lookup fs k'.
Proof.
  induction fs as [|[k0 f0] r IH]; intros k k' f H; simpl.
  - rewrite key_eqb_neq; auto.
  - destruct (key_eqb k k0) eqn:E; simpl.
    + apply key_eqb_eq in E. subst k0. rewrite key_eqb_neq; auto.
    + destruct (key_eqb k' k0); auto.
Qed.

Lemma lookup_remove_same : forall fs k, lookup (remove fs k) k = None.
Proof.
  induction fs as [|[k0 f0] r IH]; intros k; simpl; auto.
  destruct (key_eqb k k0) eqn:E; simpl; auto. rewrite E. auto.
Qed.

Lemma lookup_remove_other : forall fs k k', k' <> k -> lookup (remove fs k) k' = lookup fs k'.
Proof.
  induction fs as [|[k0 f0] r IH]; intros k k' H; simpl; auto.
  destruct (key_eqb k k0) eqn:E; simpl.
  - apply key_eqb_eq in E. subst k0. rewrite key_eqb_neq; auto.
  - destruct (key_eqb k' k0); auto.
Qed.

(* ---------- the preorder ---------- *)
Definition ext (f f' : file) : Prop :=
  (exists a, f_dur f' = f_dur f ++ a) /\ (exists b, content f' = content f ++ b).

Definition fs_le (fs fs' : fsT) : Prop :=
  forall k f, lookup fs k = Some f ->
    (exists f', lookup fs' k = Some f' /\ ext f f') \/
    (fst k = DWork /\ exists k' f', fst k' = DOut /\ lookup fs' k' = Some f' /\ ext f f').

Lemma ext_refl : forall f, ext f f.
Proof. intro f. split; exists []; rewrite app_nil_r; reflexivity. Qed.

Lemma ext_trans : forall a b c, ext a b -> ext b c -> ext a c.
Proof.
  intros a b c [[x Hx] [y Hy]] [[x' Hx'] [y' Hy']]. split.
  - exists (x ++ x'). rewrite Hx', Hx, app_assoc. reflexivity.
  - exists (y ++ y'). rewrite Hy', Hy, app_assoc. reflexivity.
Qed.

Lemma fs_le_refl : forall fs, fs_le fs fs.
Proof. intros fs k f H. left. exists f. split; auto. apply ext_refl. Qed.

Lemma fs_le_trans : forall a b c, fs_le a b -> fs_le b c -> fs_le a c.
Proof.
  intros a b c Hab Hbc k f Hk.
  destruct (Hab k f Hk) as [[f1 [H1 E1]] | [Hw [k1 [f1 [Ho [H1 E1]]]]]].
  - destruct (Hbc k f1 H1) as [[f2 [H2 E2]] | [Hw [k2 [f2 [Ho [H2 E2]]]]]].
    + left. exists f2. split; auto. eapply ext_trans; eauto.
    + right. split; auto. exists k2, f2. repeat split; auto; try (eapply ext_trans; eauto).
      all: destruct E1, E2; eapply ext_trans; eauto; split; eauto.
  - destruct (Hbc k1 f1 H1) as [[f2 [H2 E2]] | [Hw2 _]].
    + right. split; auto. exists k1, f2. split; auto. split; auto. eapply ext_trans; eauto.
    + rewrite Ho in Hw2. discriminate.
Qed.

(* ---------- durable presence of a message line ---------- *)
Definition covered (fs : fsT) (m : msg) : Prop :=
  exists k f, lookup fs k = Some f /\ In (line m) (f_dur f).

Lemma covered_le : forall fs fs' m, fs_le fs fs' -> covered fs m -> covered fs' m.
Proof.
  intros fs fs' m Hle [k [f [Hk Hin]]].
  destruct (Hle k f Hk) as [[f' [H1 [[a Ha] _]]] | [_ [k' [f' [_ [H1 [[a Ha] _]]]]]]].
  - exists k, f'. split; auto. rewrite Ha. apply in_or_app. auto.
  - exists k', f'. split; auto. rewrite Ha. apply in_or_app. auto.
Qed.

(* ---------- operations that can only add ---------- *)

Lemma append_vol_lookup : forall fs k cs k',
  lookup (append_vol fs k cs) k' =
  match lookup fs k with
  | Some f => if key_eqb k' k then Some (mkFile (f_dur f) (f_vol f ++ cs)) else lookup fs k'
  | None => lookup fs k'
  end.
Proof.
  intros fs k cs k'. unfold append_vol. destruct (lookup fs k) as [f|] eqn:E; auto.
  destruct (key_eqb k' k) eqn:E2.
  - apply key_eqb_eq in E2. subst. apply lookup_update_same.
  - apply lookup_update_other. intro H. subst. rewrite key_eqb_refl in E2. discriminate.
Qed.

Lemma ext_append : forall f cs, ext f (mkFile (f_dur f) (f_vol f ++ cs)).
Proof.
  intros f cs. split; simpl.
  - exists []. rewrite app_nil_r. reflexivity.
  - exists cs. unfold content. simpl. rewrite app_assoc. reflexivity.
Qed.

Lemma ext_fsync : forall f, ext f (mkFile (f_dur f ++ f_vol f) []).
Proof.
  intros f. split; simpl.
  - exists (f_vol f). reflexivity.
  - exists []. unfold content. simpl. rewrite !app_nil_r. reflexivity.
Qed.

(* every file that exists keeps existing, with extended content, under a safe op *)
Lemma safe_op_keeps : forall fs o k f, safe_op o = true -> lookup fs k = Some f ->
  exists f', lookup (apply_op fs o) k = Some f' /\ ext f f' /\
             (forall x, In x (f_vol f) -> In x (f_vol f') \/ In x (f_dur f')).
Proof.
  intros fs o k f Hs Hk.
  assert (Hsame : exists f', lookup fs k = Some f' /\ ext f f' /\
             (forall x, In x (f_vol f) -> In x (f_vol f') \/ In x (f_dur f'))).
  { exists f. split; auto. split. apply ext_refl. auto. }
  destruct o; simpl in *; auto; try discriminate.
  - (* OCreate *)
    destruct ok; auto. destruct (lookup fs k0) as [f0|] eqn:E0.
    + destruct trunc; try discriminate. auto.
    + destruct (key_eq_dec k k0) as [->|Hne]; [congruence|].
      rewrite lookup_update_other; auto.
  - (* OWrite *)
    rewrite append_vol_lookup. destruct (lookup fs k0) as [f0|] eqn:E0; auto.
    destruct (key_eqb k k0) eqn:E1; auto. apply key_eqb_eq in E1. subst k0.
    rewrite Hk in E0. inversion E0; subst f0. eexists. split; [reflexivity|]. split.
    apply ext_append. intros x Hx. left. simpl. apply in_or_app. auto.
  - (* OMember *)
    rewrite append_vol_lookup. destruct (lookup fs k0) as [f0|] eqn:E0; auto.
    destruct (key_eqb k k0) eqn:E1; auto. apply key_eqb_eq in E1. subst k0.
    rewrite Hk in E0. inversion E0; subst f0. eexists. split; [reflexivity|]. split.
    apply ext_append. intros x Hx. left. simpl. apply in_or_app. auto.
  - (* OFsync *)
    destruct (lookup fs k0) as [f0|] eqn:E0; auto.
    destruct (key_eq_dec k k0) as [->|Hne].
    + rewrite Hk in E0. inversion E0; subst f0. rewrite lookup_update_same.
      eexists. split; [reflexivity|]. split. apply ext_fsync.
      intros x Hx. right. simpl. apply in_or_app. auto.
    + rewrite lookup_update_other; auto.
  - (* OLink *)
    destruct ok; auto. destruct (lookup fs src) as [fsrc|] eqn:Es; auto.
    destruct (lookup fs dst) as [fd|] eqn:Ed; auto.
    destruct (key_eq_dec k dst) as [->|Hne]; [congruence|].
    rewrite lookup_update_other; auto.
Qed.

Lemma safe_op_le : forall fs o, safe_op o = true -> fs_le fs (apply_op fs o).
Proof.
  intros fs o Hs k f Hk. left.
  destruct (safe_op_keeps fs o k f Hs Hk) as [f' [H1 [H2 _]]]. exists f'. auto.
Qed.

(* unlink of a work-dir name whose content is held by an output-dir name *)
Lemma unlink_le : forall fs src dst f,
  fst src = DWork -> fst dst = DOut ->
  lookup fs src = Some f -> lookup fs dst = Some f ->
  fs_le fs (apply_op fs (OUnlink src)).
Proof.
  intros fs src dst f Hw Ho Hs Hd k f0 Hk. simpl.
  destruct (key_eq_dec k src) as [->|Hne].
  - right. split; auto. exists dst, f. split; auto. split.
    + rewrite lookup_remove_other; auto. intro H. subst. rewrite Hw in Ho. discriminate.
    + rewrite Hs in Hk. inversion Hk. apply ext_refl.
  - left. exists f0. split. rewrite lookup_remove_other; auto. apply ext_refl.
Qed.

(* ---------- crash ---------- *)
Lemma lookup_crash : forall keep fs k f, lookup fs k = Some f ->
  lookup (crash keep fs) k = Some (mkFile (f_dur f ++ firstn (keep k) (f_vol f)) []).
Proof.
  induction fs as [|[k0 f0] r IH]; intros k f H; simpl in *; try discriminate.
  destruct (key_eqb k k0) eqn:E.
  - inversion H; subst. apply key_eqb_eq in E. subst. reflexivity.
  - auto.
Qed.

Lemma covered_crash : forall keep fs m, covered fs m -> covered (crash keep fs) m.
Proof.
  intros keep fs m [k [f [Hk Hin]]]. exists k. eexists. split.
  apply lookup_crash. exact Hk. simpl. apply in_or_app. auto.
Qed.

Lemma flat_app : forall a b, flat (a ++ b) = flat a ++ flat b.
Proof. induction a; intros; simpl; auto. rewrite IHa, app_assoc. reflexivity. Qed.

Lemma in_flat : forall (c : chunk) l, In c l -> exists pre post, flat l = pre ++ snd c ++ post.
Proof.
  intros c l H. apply in_split in H. destruct H as [l1 [l2 ->]].
  exists (flat l1), (flat l2). rewrite flat_app. reflexivity.
Qed.

(* replay / fins over concatenation *)
Lemma replay_app : forall a fs b, replay fs (a ++ b) = replay (replay fs a) b.
Proof. induction a; intros; simpl; auto. Qed.

Lemma fins_app : forall a b, fins (a ++ b) = fins a ++ fins b.
Proof.
  induction a as [|o a IH]; intros; simpl; auto. destruct o; simpl; rewrite ?IH; auto.
Qed.
