From Coq Require Import List Bool ZArith Lia.
From NSQV Require Import model.ScanRound.
Import ListNotations.
Open Scope Z_scope.

(* with the stale entries skipped: every message that is in flight, whose entry is among the
   due entries of the queue and whose deadline has really passed, is re-queued by THIS round,
   whatever stale entries lie before it *)
Theorem due_messages_are_requeued t in_set current pq m :
  all_due t pq -> In m (map e_id pq) -> in_set m = true -> current m <= t ->
  In m (round true t in_set current pq).
Proof.
  intros Hd. induction pq as [|e rest IH]; intros Hin Hs Hc; cbn in *; [destruct Hin|].
  inversion Hd as [|? ? He Hr]; subst.
  assert (E : (e_pri e <=? t) = true) by (apply Z.leb_le; exact He). rewrite E.
  destruct Hin as [Hm|Hin].
  - subst m. rewrite Hs. assert (C : (current (e_id e) <=? t) = true) by (apply Z.leb_le; exact Hc).
    rewrite C. left. reflexivity.
  - specialize (IH Hr Hin Hs Hc).
    destruct (in_set (e_id e)); [destruct (current (e_id e) <=? t); [right|]; exact IH|exact IH].
Qed.

(* .. and nothing is re-queued that is not in flight or whose deadline has not passed *)
Theorem only_due_messages_are_requeued skip t in_set current pq m :
  In m (round skip t in_set current pq) -> in_set m = true /\ current m <= t.
Proof.
  induction pq as [|e rest IH]; cbn; [intros []|].
  destruct (e_pri e <=? t); [|intros []].
  destruct (in_set (e_id e)) eqn:S.
  - destruct (current (e_id e) <=? t) eqn:C; [|exact IH].
    intros [<-|H]; [split; [exact S|apply Z.leb_le, C]|apply IH, H].
  - destruct skip; [exact IH|intros []].
Qed.

(* the scan before b9d247f: one stale entry ahead and the due message behind it waits *)
Theorem abandoning_round_refuted :
  exists t in_set current pq m,
    all_due t pq /\ In m (map e_id pq) /\ in_set m = true /\ current m <= t /\
    ~ In m (round false t in_set current pq).
Proof.
  exists 10, (fun i => Nat.eqb i 2), (fun _ => 5), [mkE 1 3; mkE 2 5], 2%nat.
  split; [repeat constructor; cbn; lia|].
  split; [cbn; auto|]. split; [reflexivity|]. split; [lia|].
  cbn. intros [].
Qed.
