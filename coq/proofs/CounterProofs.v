From Coq Require Import List Bool ZArith Lia.
From NSQV Require Import model.Counter.
Import ListNotations.
Open Scope Z_scope.

Fixpoint debt (ts : list thread) : Z := match ts with [] => 0 | t :: r => owes t + debt r end.

(* count + what is still owed = size of the set *)
Definition Inv (x : st) : Prop :=
  count x + debt (threads x) = Z.of_nat (length (inflight x)) /\ forallb no_zeroing (threads x) = true.

Lemma remove_one_length m l l' : remove_one m l = Some l' -> length l = S (length l').
Proof.
  revert l'. induction l as [|x r IH]; intros l' H; cbn in H; [discriminate|].
  destruct (Nat.eqb x m); [inversion H; reflexivity|].
  destruct (remove_one m r) as [r'|]; [|discriminate]. inversion H; subst. cbn. rewrite (IH r' eq_refl). reflexivity.
Qed.

Lemma debt_upd i t t' ts : nth_error ts i = Some t -> debt (upd i t' ts) = debt ts - owes t + owes t'.
Proof.
  revert i. induction ts as [|a ts IH]; intros i H; [destruct i; discriminate|].
  destruct i as [|i]; cbn [nth_error upd debt] in *.
  - inversion H; subst. lia.
  - rewrite (IH i H). lia.
Qed.

Lemma nz_upd i t' ts : forallb no_zeroing ts = true -> no_zeroing t' = true -> forallb no_zeroing (upd i t' ts) = true.
Proof.
  revert i. induction ts as [|a ts IH]; intros i H Ht; [destruct i; reflexivity|].
  cbn in H. apply andb_prop in H. destruct H as [Ha Hs].
  destruct i; cbn; [rewrite Ht, Hs; reflexivity|rewrite Ha, IH; auto].
Qed.

Lemma nz_nth i t ts : forallb no_zeroing ts = true -> nth_error ts i = Some t -> no_zeroing t = true.
Proof. intros H E. rewrite forallb_forall in H. apply H. eapply nth_error_In, E. Qed.

Lemma tstep_keeps s c t s' c' t' :
  no_zeroing t = true -> tstep s c t = (s', c', t') ->
  c' + owes t' - Z.of_nat (length s') = c + owes t - Z.of_nat (length s) /\ no_zeroing t' = true.
Proof.
  intros Hz H. destruct t as [m pc|m pc|z pc l].
  - destruct pc as [|[|pc]]; cbn in H; inversion H; subst; cbn [owes length no_zeroing]; split; try reflexivity; lia.
  - destruct pc as [|[|pc]]; cbn in H.
    + destruct (remove_one m s) as [s2|] eqn:R; inversion H; subst; cbn [owes no_zeroing]; split; try reflexivity; try lia.
      rewrite (remove_one_length _ _ _ R). lia.
    + inversion H; subst; cbn [owes no_zeroing]; split; try reflexivity; lia.
    + inversion H; subst; cbn [owes no_zeroing]; split; try reflexivity; lia.
  - destruct z; [discriminate|]. destruct pc as [|[|pc]]; cbn in H.
    + inversion H; subst; cbn [owes length no_zeroing]; split; try reflexivity; lia.
    + destruct l as [|a l]; inversion H; subst; cbn [owes length no_zeroing]; split; try reflexivity; lia.
    + inversion H; subst; cbn [owes no_zeroing]; split; try reflexivity; lia.
Qed.

Lemma step_Inv x i : Inv x -> Inv (step x i).
Proof.
  intros [Hc Hz]. unfold step. destruct (nth_error (threads x) i) as [t|] eqn:E; [|split; assumption].
  pose proof (nz_nth _ _ _ Hz E) as Ht.
  destruct (tstep (inflight x) (count x) t) as [[s' c'] t'] eqn:T.
  destruct (tstep_keeps _ _ _ _ _ _ Ht T) as [K Kz].
  split; cbn [count inflight threads].
  - rewrite (debt_upd _ _ _ _ E). lia.
  - apply nz_upd; assumption.
Qed.

Lemma run_Inv sched : forall x, Inv x -> Inv (run x sched).
Proof. induction sched as [|i sched IH]; intros x H; cbn; [exact H|]. apply IH, step_Inv, H. Qed.

Lemma fresh_debt ts : forallb fresh ts = true -> debt ts = 0.
Proof.
  induction ts as [|t ts IH]; cbn; [reflexivity|]. intros H. apply andb_prop in H. destruct H as [Ht Hs].
  rewrite (IH Hs). destruct t as [m [|pc]|m [|pc]|z [|pc] l]; cbn in *; try discriminate; try reflexivity; destruct z; reflexivity.
Qed.

Lemma finished_debt ts : forallb finished ts = true -> debt ts = 0.
Proof.
  induction ts as [|t ts IH]; cbn; [reflexivity|]. intros H. apply andb_prop in H. destruct H as [Ht Hs].
  rewrite (IH Hs). destruct t as [m [|[|[|pc]]]|m [|[|[|pc]]]|z [|[|[|pc]]] l]; cbn in *; try discriminate; try reflexivity;
    destruct z; reflexivity.
Qed.

(* ANY deliveries, FIN/REQ/timeouts and per-message Empties, ANY schedule: at every moment the
   count differs from the size of the in-flight set by exactly what the threads in progress
   still owe, and when they have all finished the count IS the size of the set *)
Theorem count_exact_every_schedule ts sched :
  forallb fresh ts = true -> forallb no_zeroing ts = true ->
  let x := run (init ts) sched in
  count x + debt (threads x) = Z.of_nat (length (inflight x)) /\
  (forallb finished (threads x) = true -> count x = Z.of_nat (length (inflight x))).
Proof.
  intros Hf Hz. cbn zeta.
  assert (I0 : Inv (init ts)) by (split; [cbn; rewrite (fresh_debt _ Hf); reflexivity|exact Hz]).
  destruct (run_Inv sched _ I0) as [Hc _]. split; [exact Hc|].
  intros Hfin. rewrite (finished_debt _ Hfin) in Hc. lia.
Qed.

(* the zeroing Empty (before 72b06c9): refuted - FIN pops, Empty takes the (now empty) set and
   zeroes the count, FIN takes its message off: -1 with nothing in flight (K1) *)
Theorem zeroing_empty_refuted :
  exists ts sched, forallb fresh ts = true /\
    let x := run (init ts) sched in
    forallb finished (threads x) = true /\ count x <> Z.of_nat (length (inflight x)).
Proof.
  exists [Deliver 7 0; Remove 7 0; EmptyT true 0 []], [0; 0; 1; 2; 2; 1]%nat.
  split; [reflexivity|]. cbn. split; [reflexivity|discriminate].
Qed.

(* .. and a delivery whose message the zeroing Empty discards between insert and count (K2) *)
Theorem zeroing_empty_refuted_delivery :
  exists ts sched, forallb fresh ts = true /\
    let x := run (init ts) sched in
    forallb finished (threads x) = true /\ count x <> Z.of_nat (length (inflight x)).
Proof.
  exists [Deliver 7 0; EmptyT true 0 []], [0; 1; 1; 0]%nat.
  split; [reflexivity|]. cbn. split; [reflexivity|discriminate].
Qed.
