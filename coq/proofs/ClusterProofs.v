(* Proofs about model/Cluster.v (C18). *)
From Coq Require Import String List ZArith NArith Bool Lia PeanoNat Permutation.
From NSQV Require Import model.Judge model.Cluster gen.ClusterTables.
Import ListNotations.
Open Scope list_scope.
Open Scope Z_scope.

(* ------------------------------------------------------------------ byte strings *)
Lemma beq_eq : forall a b : bytes, bytes_eqb a b = true <-> a = b.
Proof.
  unfold bytes_eqb. induction a as [|x a IH]; destruct b as [|y b]; simpl; split; intro H;
    try reflexivity; try discriminate.
  - apply andb_true_iff in H. destruct H as [H1 H2]. apply N.eqb_eq in H1. apply IH in H2. subst. reflexivity.
  - inversion H; subst. apply andb_true_iff. split. apply N.eqb_refl. apply IH. reflexivity.
Qed.
Lemma beq_refl : forall a, bytes_eqb a a = true.
Proof. intro a. apply beq_eq. reflexivity. Qed.
Lemma beq_false : forall a b : bytes, bytes_eqb a b = false <-> a <> b.
Proof.
  intros a b. split.
  - intros H E. apply beq_eq in E. congruence.
  - intro H. destruct (bytes_eqb a b) eqn:E; [|reflexivity]. apply beq_eq in E. contradiction.
Qed.
Lemma smem_In : forall x l, smem x l = true <-> In x l.
Proof.
  intros x l. unfold smem. rewrite existsb_exists. split.
  - intros [y [Hy He]]. apply beq_eq in He. subst. exact Hy.
  - intro H. exists x. split. exact H. apply beq_refl.
Qed.
Lemma smem_false : forall x l, smem x l = false <-> ~ In x l.
Proof.
  intros x l. split.
  - intros H Hi. apply smem_In in Hi. congruence.
  - intro H. destruct (smem x l) eqn:E; [|reflexivity]. apply smem_In in E. contradiction.
Qed.

(* ------------------------------------------------------------------ stringy: Add, Union, Uniq *)
Lemma s_add_In : forall s a x, In x (s_add s a) <-> In x s \/ x = a.
Proof.
  intros s a x. unfold s_add. destruct (smem a s) eqn:E.
  - apply smem_In in E. split. auto. intros [H|H]. exact H. subst. exact E.
  - rewrite in_app_iff. simpl. split.
    + intros [H|[H|[]]]; auto.
    + intros [H|H]; auto.
Qed.
Lemma NoDup_snoc : forall (A : Type) (l : list A) (a : A), NoDup l -> ~ In a l -> NoDup (l ++ [a]).
Proof.
  intros A l a H Hn. induction H as [|x l Hx H IH]; simpl.
  - constructor. intros []. constructor.
  - constructor.
    + rewrite in_app_iff. simpl. intros [K|[K|[]]]. contradiction. subst. apply Hn. left. reflexivity.
    + apply IH. intro K. apply Hn. right. exact K.
Qed.
Lemma s_add_NoDup : forall s a, NoDup s -> NoDup (s_add s a).
Proof.
  intros s a H. unfold s_add. destruct (smem a s) eqn:E. exact H.
  apply smem_false in E. apply NoDup_snoc; assumption.
Qed.

Lemma fold_add_In : forall a s x, In x (fold_left s_add a s) <-> In x s \/ In x a.
Proof.
  induction a as [|y a IH]; intros s x; simpl.
  - tauto.
  - rewrite IH. rewrite s_add_In. split.
    + intros [[H|H]|H]; auto.
    + intros [H|[H|H]]; auto.
Qed.
Lemma fold_add_NoDup : forall a s, NoDup s -> NoDup (fold_left s_add a s).
Proof.
  induction a as [|y a IH]; intros s H; simpl. exact H. apply IH. apply s_add_NoDup. exact H.
Qed.

Theorem s_union_spec : forall s a, NoDup s ->
  NoDup (s_union s a) /\ forall x, In x (s_union s a) <-> In x s \/ In x a.
Proof. intros s a H. split. apply fold_add_NoDup. exact H. intro x. apply fold_add_In. Qed.

Theorem s_uniq_spec : forall l, NoDup (s_uniq l) /\ forall x, In x (s_uniq l) <-> In x l.
Proof.
  intro l. split. apply fold_add_NoDup. constructor.
  intro x. unfold s_uniq. rewrite fold_add_In. simpl. tauto.
Qed.

(* first occurrences keep their order: Uniq of a duplicate-free list is the list *)
Lemma fold_add_nodup_app : forall a s, NoDup (s ++ a) -> fold_left s_add a s = s ++ a.
Proof.
  induction a as [|y a IH]; intros s H; simpl.
  - rewrite app_nil_r. reflexivity.
  - assert (smem y s = false) as E.
    { apply smem_false. intro Hi. apply NoDup_remove_2 in H. apply H. apply in_or_app. left. exact Hi. }
    unfold s_add at 2. rewrite E. rewrite IH.
    + rewrite <- app_assoc. reflexivity.
    + rewrite <- app_assoc. exact H.
Qed.
Theorem s_uniq_id : forall l, NoDup l -> s_uniq l = l.
Proof. intros l H. unfold s_uniq. rewrite fold_add_nodup_app. reflexivity. exact H. Qed.

(* sort.Strings only permutes *)
Lemma insert_sorted_perm : forall x l, Permutation (insert_sorted x l) (x :: l).
Proof.
  intros x l. induction l as [|y l IH]; simpl. apply Permutation_refl.
  destruct (bytes_leb x y). apply Permutation_refl.
  eapply perm_trans. apply perm_skip. exact IH. apply perm_swap.
Qed.
Theorem sort_strings_perm : forall l, Permutation (sort_strings l) l.
Proof.
  induction l as [|x l IH]; simpl. constructor.
  eapply perm_trans. apply insert_sorted_perm. apply perm_skip. exact IH.
Qed.
Lemma sort_strings_In : forall l x, In x (sort_strings l) <-> In x l.
Proof.
  intros l x. split; apply Permutation_in. apply sort_strings_perm. apply Permutation_sym. apply sort_strings_perm.
Qed.
Lemma sort_strings_NoDup : forall l, NoDup l -> NoDup (sort_strings l).
Proof. intros l H. eapply Permutation_NoDup. apply Permutation_sym. apply sort_strings_perm. exact H. Qed.

(* and its result is ordered *)
Lemma bytes_leb_total : forall a b, bytes_leb a b = false -> bytes_leb b a = true.
Proof.
  induction a as [|x a IH]; destruct b as [|y b]; simpl; intro H; try discriminate; try reflexivity.
  destruct (N.ltb_spec x y); [discriminate|]. destruct (N.ltb_spec y x); [reflexivity|].
  apply IH. exact H.
Qed.
Lemma bytes_leb_trans : forall a b c, bytes_leb a b = true -> bytes_leb b c = true -> bytes_leb a c = true.
Proof.
  induction a as [|x a IH]; intros b c H1 H2. reflexivity.
  destruct b as [|y b]; [discriminate|]. destruct c as [|z c]; [discriminate|]. simpl in *.
  destruct (N.ltb_spec x y).
  - destruct (N.ltb_spec y z).
    + destruct (N.ltb_spec x z); [reflexivity|]. lia.
    + destruct (N.ltb_spec z y); [discriminate|]. assert (y = z) by lia. subst.
      destruct (N.ltb_spec x z); [reflexivity|]. lia.
  - destruct (N.ltb_spec y x); [discriminate|]. assert (x = y) by lia. subst.
    destruct (N.ltb_spec y z); [reflexivity|]. destruct (N.ltb_spec z y); [discriminate|].
    eapply IH; eassumption.
Qed.
Inductive sorted_b : list bytes -> Prop :=
| sb_nil : sorted_b []
| sb_one : forall x, sorted_b [x]
| sb_cons : forall x y l, bytes_leb x y = true -> sorted_b (y :: l) -> sorted_b (x :: y :: l).
Lemma insert_sorted_sorted : forall x l, sorted_b l -> sorted_b (insert_sorted x l).
Proof.
  intros x l H. induction H; simpl.
  - constructor.
  - destruct (bytes_leb x x0) eqn:E. constructor; [exact E|constructor].
    constructor. apply bytes_leb_total. exact E. constructor.
  - destruct (bytes_leb x x0) eqn:E.
    + constructor. exact E. constructor; assumption.
    + simpl in IHsorted_b. destruct (bytes_leb x y) eqn:E2.
      * constructor. apply bytes_leb_total. exact E. exact IHsorted_b.
      * constructor. exact H. exact IHsorted_b.
Qed.
Theorem sort_strings_sorted : forall l, sorted_b (sort_strings l).
Proof. induction l as [|x l IH]; simpl. constructor. apply insert_sorted_sorted. exact IH. Qed.

(* ------------------------------------------------------------------ int64 arithmetic *)
Lemma two64_pos : 0 < two64. Proof. reflexivity. Qed.

Lemma w64_mod : forall z, (w64 z) mod two64 = z mod two64.
Proof.
  intro z. unfold w64. cbv zeta.
  destruct (z mod two64 <? two63) eqn:E.
  - apply Z.mod_mod. discriminate.
  - replace (z mod two64 - two64) with (z mod two64 + (-1) * two64) by ring.
    rewrite Z.mod_add by discriminate. apply Z.mod_mod. discriminate.
Qed.
Lemma w64_cong : forall a b, a mod two64 = b mod two64 -> w64 a = w64 b.
Proof. intros a b H. unfold w64. rewrite H. reflexivity. Qed.
Lemma w64_idem : forall z, w64 (w64 z) = w64 z.
Proof. intro z. apply w64_cong. apply w64_mod. Qed.
Lemma w64_add_l : forall a b, w64 (w64 a + b) = w64 (a + b).
Proof.
  intros a b. apply w64_cong. rewrite Z.add_mod by discriminate. rewrite w64_mod.
  rewrite <- Z.add_mod by discriminate. reflexivity.
Qed.
Lemma w64_add_r : forall a b, w64 (a + w64 b) = w64 (a + b).
Proof. intros a b. rewrite Z.add_comm, w64_add_l, Z.add_comm. reflexivity. Qed.
Lemma w64_range : forall z, in_i64 (w64 z).
Proof.
  intro z. unfold w64, in_i64. cbv zeta.
  pose proof (Z.mod_pos_bound z two64 two64_pos) as B.
  destruct (Z.ltb_spec (z mod two64) two63); unfold two63, two64 in *; lia.
Qed.
Theorem w64_id : forall z, in_i64 z -> w64 z = z.
Proof.
  intros z [H1 H2]. unfold w64. cbv zeta. unfold two63, two64 in *.
  destruct (Z_le_gt_dec 0 z).
  - rewrite Z.mod_small by lia. destruct (Z.ltb_spec z 9223372036854775808); lia.
  - replace (z mod 18446744073709551616) with (z + 18446744073709551616).
    + destruct (Z.ltb_spec (z + 18446744073709551616) 9223372036854775808); lia.
    + symmetry. replace z with ((z + 18446744073709551616) + (-1) * 18446744073709551616) at 1 by ring.
      rewrite Z.mod_add by discriminate. apply Z.mod_small. lia.
Qed.


(* a counter accumulated with wrapping additions is the wrapped mathematical sum *)
Lemma fold_w64_sum : forall (xs : list Z) (init : Z),
  fold_left (fun acc x => w64 (acc + x)) xs (w64 init) = w64 (init + sumZ xs).
Proof.
  induction xs as [|x xs IH]; intro init; simpl.
  - rewrite Z.add_0_r. reflexivity.
  - rewrite w64_add_l. rewrite IH. f_equal. ring.
Qed.

(* ------------------------------------------------------------------ the summed fields *)

Lemma cfield_add : forall f, In f cfields -> forall a b, f (cn_add a b) = w64 (f a + f b).
Proof.
  intros f H a b. unfold cfields in H. simpl in H.
  repeat (destruct H as [H|H]; [subst f; reflexivity|]). contradiction.
Qed.
Lemma tfield_add : forall f, In f tfields -> forall a b, f (tn_add a b) = w64 (f a + f b).
Proof.
  intros f H a b. unfold tfields in H. simpl in H.
  repeat (destruct H as [H|H]; [subst f; reflexivity|]). contradiction.
Qed.
Lemma cfield_zero : forall f, In f cfields -> f cn_zero = 0.
Proof.
  intros f H. unfold cfields in H. simpl in H.
  repeat (destruct H as [H|H]; [subst f; reflexivity|]). contradiction.
Qed.
Lemma tfield_zero : forall f, In f tfields -> f tn_zero = 0.
Proof.
  intros f H. unfold tfields in H. simpl in H.
  repeat (destruct H as [H|H]; [subst f; reflexivity|]). contradiction.
Qed.

Lemma cn_fold_field : forall f, In f cfields -> forall (xs : list cnum) (init : cnum),
  f init = w64 (f init) ->
  f (fold_left cn_add xs init) = w64 (f init + sumZ (map f xs)).
Proof.
  intros f Hf. induction xs as [|x xs IH]; intros init Hi; simpl.
  - rewrite Z.add_0_r. exact Hi.
  - rewrite IH.
    + rewrite (cfield_add f Hf). rewrite w64_add_l. f_equal. ring.
    + rewrite (cfield_add f Hf). rewrite w64_idem. reflexivity.
Qed.
Lemma tn_fold_field : forall f, In f tfields -> forall (xs : list tnum) (init : tnum),
  f init = w64 (f init) ->
  f (fold_left tn_add xs init) = w64 (f init + sumZ (map f xs)).
Proof.
  intros f Hf. induction xs as [|x xs IH]; intros init Hi; simpl.
  - rewrite Z.add_0_r. exact Hi.
  - rewrite IH.
    + rewrite (tfield_add f Hf). rewrite w64_add_l. f_equal. ring.
    + rewrite (tfield_add f Hf). rewrite w64_idem. reflexivity.
Qed.

(* ------------------------------------------------------------------ the error rule and failing subsets *)
Section Partial.
Context {K A : Type}.
Implicit Types ups : list (K * fetch A).

Lemma filter_len_le : forall (f : K * fetch A -> bool) ups, (length (filter f ups) <= length ups)%nat.
Proof. intros f. induction ups as [|y l IH]; simpl. lia. destruct (f y); simpl; lia. Qed.

Lemma nfailed_all : forall ups, nfailed ups = length ups <-> forall u, In u ups -> failed u = true.
Proof.
  unfold nfailed. induction ups as [|y l IH]; simpl.
  - split; [intros _ u []|reflexivity].
  - destruct (failed y) eqn:E; simpl.
    + split.
      * intros H u [Hu|Hu]. subst; exact E. apply IH. lia. exact Hu.
      * intro H. f_equal. apply IH. intros u Hu. apply H. right; exact Hu.
    + split.
      * intro H. pose proof (filter_len_le failed l). lia.
      * intro H. specialize (H y (or_introl eq_refl)). congruence.
Qed.

Definition ok_part ups : list (K * fetch A) := filter (fun u => negb (failed u)) ups.

Lemma answers_ok_part : forall ups, answers (ok_part ups) = answers ups.
Proof.
  unfold answers, ok_part. induction ups as [|u l IH]; simpl. reflexivity.
  unfold failed at 1. destruct u as [k [|a]]; simpl.
  - exact IH.
  - f_equal. exact IH.
Qed.
Lemma nfailed_ok_part : forall ups, nfailed (ok_part ups) = 0%nat.
Proof.
  unfold nfailed, ok_part. induction ups as [|u l IH]; simpl. reflexivity.
  destruct (failed u) eqn:E; simpl. exact IH. rewrite E. exact IH.
Qed.
Lemma ok_part_nonempty : forall ups, nfailed ups <> length ups -> length (ok_part ups) <> 0%nat.
Proof.
  unfold nfailed, ok_part. induction ups as [|u l IH]; simpl; intro H. congruence.
  destruct (failed u); simpl in *. apply IH. lia. discriminate.
Qed.
Lemma nfailed_pos_iff : forall ups, nfailed ups <> 0%nat <-> exists u, In u ups /\ failed u = true.
Proof.
  unfold nfailed. induction ups as [|u l IH]; simpl.
  - split. congruence. intros [u [[] _]].
  - destruct (failed u) eqn:E; simpl.
    + split. intros _. exists u. auto. discriminate.
    + rewrite IH. split.
      * intros [v [Hv Hf]]. exists v. auto.
      * intros [v [[Hv|Hv] Hf]]. subst. congruence. exists v. auto.
Qed.

(* every clusterinfo Get* has this shape: a function of the answers, under the error rule *)
Theorem partial_view : forall (V : Type) (F : list (K * A) -> V) ups,
  let r := error_rule (length ups) (nfailed ups) (F (answers ups)) in
  (r = AHard <-> forall u, In u ups -> failed u = true) /\
  (forall v n, r = AOk v n ->
     error_rule (length (ok_part ups)) (nfailed (ok_part ups)) (F (answers (ok_part ups))) = AOk v 0 /\
     n = nfailed ups /\ (n <> 0%nat <-> exists u, In u ups /\ failed u = true)).
Proof.
  intros V F ups. cbv zeta. unfold error_rule.
  destruct (Nat.eqb (nfailed ups) (length ups)) eqn:E.
  - apply Nat.eqb_eq in E. split.
    + split. intros _. apply nfailed_all. exact E. reflexivity.
    + intros v n H. discriminate.
  - apply Nat.eqb_neq in E. split.
    + split. discriminate. intro H. exfalso. apply E. apply nfailed_all. exact H.
    + intros v n H. inversion H; subst. rewrite nfailed_ok_part, answers_ok_part.
      pose proof (ok_part_nonempty ups E) as Hne.
      destruct (length (ok_part ups)) eqn:El; [congruence|]. simpl.
      split. reflexivity. split. reflexivity. apply nfailed_pos_iff.
Qed.

Lemma in_answers : forall ups k a, In (k, a) (answers ups) <-> In (k, FOk a) ups.
Proof.
  unfold answers. intros ups k a. rewrite in_flat_map. split.
  - intros [[k' f] [Hu Hx]]. simpl in Hx. destruct f; [contradiction|]. destruct Hx as [Hx|[]]. inversion Hx; subst. exact Hu.
  - intro H. exists (k, FOk a). split. exact H. simpl. left. reflexivity.
Qed.
End Partial.

(* ------------------------------------------------------------------ folds *)
Lemma fold_left_flat_map : forall (A B C : Type) (g : A -> C -> A) (h : B -> list C) (us : list B) (a : A),
  fold_left (fun acc u => fold_left g (h u) acc) us a = fold_left g (flat_map h us) a.
Proof.
  intros A B C g h. induction us as [|u us IH]; intro a; simpl. reflexivity.
  rewrite fold_left_app. apply IH.
Qed.
Lemma fold_left_map : forall (A B C : Type) (g : A -> C -> A) (h : B -> C) (l : list B) (a : A),
  fold_left (fun acc b => g acc (h b)) l a = fold_left g (map h l) a.
Proof. intros A B C g h. induction l as [|b l IH]; intro a; simpl. reflexivity. apply IH. Qed.
Lemma fold_left_cond_filter : forall (A B : Type) (g : A -> B -> A) (c : B -> bool) (l : list B) (a : A),
  fold_left (fun acc b => if c b then g acc b else acc) l a = fold_left g (filter c l) a.
Proof.
  intros A B g c. induction l as [|b l IH]; intro a; simpl. reflexivity.
  destruct (c b); simpl; apply IH.
Qed.
Lemma fold_left_ext : forall (A B : Type) (g g' : A -> B -> A) (l : list B) (a : A),
  (forall x y, g x y = g' x y) -> fold_left g l a = fold_left g' l a.
Proof. intros A B g g' l. induction l as [|b l IH]; intros a H; simpl. reflexivity. rewrite H. apply IH. exact H. Qed.

(* ------------------------------------------------------------------ the lists are duplicate-free unions *)
Theorem lookupd_topics_union : forall ups v n, lookupd_topics ups = AOk v n ->
  NoDup v /\ sorted_b v /\ forall x, In x v <-> exists l ts, In (l, FOk ts) ups /\ In x ts.
Proof.
  intros ups v n H. unfold lookupd_topics, error_rule in H.
  destruct (Nat.eqb _ _); [discriminate|]. inversion H; subst. clear H.
  destruct (s_uniq_spec (flat_map snd (answers ups))) as [Hn Hi]. split; [|split].
  - apply sort_strings_NoDup. exact Hn.
  - apply sort_strings_sorted.
  - intro x. rewrite sort_strings_In, Hi, in_flat_map. split.
    + intros [[l ts] [Hu Hx]]. exists l, ts. split. apply in_answers. exact Hu. exact Hx.
    + intros [l [ts [Hu Hx]]]. exists (l, ts). split. apply in_answers. exact Hu. exact Hx.
Qed.

Theorem nsqd_topics_union : forall ups v n, nsqd_topics ups = AOk v n ->
  NoDup v /\ sorted_b v /\ forall x, In x v <-> exists l ts, In (l, FOk ts) ups /\ In x ts.
Proof.
  intros ups v n H. unfold nsqd_topics, error_rule in H.
  destruct (Nat.eqb _ _); [discriminate|]. inversion H; subst. clear H.
  split; [|split].
  - apply sort_strings_NoDup. apply fold_add_NoDup. constructor.
  - apply sort_strings_sorted.
  - intro x. rewrite sort_strings_In, fold_add_In, in_flat_map. split.
    + intros [[]|[[l ts] [Hu Hx]]]. exists l, ts. split. apply in_answers. exact Hu. exact Hx.
    + intros [l [ts [Hu Hx]]]. right. exists (l, ts). split. apply in_answers. exact Hu. exact Hx.
Qed.

(* node list: one entry per TCP address *)

Lemma add_remote_keys : forall key r l, ne_keys (add_remote key r l) = ne_keys l.
Proof.
  intros key r. induction l as [|e l IH]; simpl. reflexivity.
  destruct (bytes_eqb (tcp_addr (ne_prod e)) key); simpl. reflexivity. f_equal. exact IH.
Qed.
Lemma existsb_keys : forall key l,
  existsb (fun e => bytes_eqb (tcp_addr (ne_prod e)) key) l = smem key (ne_keys l).
Proof.
  intros key. induction l as [|e l IH]; simpl. reflexivity.
  rewrite IH. f_equal.
  destruct (bytes_eqb (tcp_addr (ne_prod e)) key) eqn:E1; destruct (bytes_eqb key (tcp_addr (ne_prod e))) eqn:E2; try reflexivity.
  - apply beq_eq in E1. rewrite E1 in E2. rewrite beq_refl in E2. discriminate.
  - apply beq_eq in E2. rewrite E2 in E1. rewrite beq_refl in E1. discriminate.
Qed.
Lemma lp_step_keys : forall lookupd acc p, ne_keys (lp_step lookupd acc p) = s_add (ne_keys acc) (tcp_addr p).
Proof.
  intros lookupd acc p. unfold lp_step. rewrite add_remote_keys. rewrite existsb_keys. unfold s_add.
  destruct (smem (tcp_addr p) (ne_keys acc)). reflexivity.
  unfold ne_keys. rewrite map_app. reflexivity.
Qed.
Lemma lp_fold_keys : forall lookupd ps acc,
  ne_keys (fold_left (lp_step lookupd) ps acc) = fold_left s_add (map tcp_addr ps) (ne_keys acc).
Proof.
  intros lookupd. induction ps as [|p ps IH]; intro acc; simpl. reflexivity.
  rewrite IH, lp_step_keys. reflexivity.
Qed.
Lemma lp_all_keys : forall us acc,
  ne_keys (fold_left (fun acc u => fold_left (lp_step (fst u)) (nonnil (snd u)) acc) us acc) =
  fold_left s_add (flat_map (fun u : bytes * list (option prod) => map tcp_addr (nonnil (snd u))) us) (ne_keys acc).
Proof.
  induction us as [|u us IH]; intro acc; simpl. reflexivity.
  rewrite IH, lp_fold_keys, fold_left_app. reflexivity.
Qed.

Lemma in_nonnil : forall (A : Type) (l : list (option A)) x, In x (nonnil l) <-> In (Some x) l.
Proof.
  intros A l x. unfold nonnil. rewrite in_flat_map. split.
  - intros [[y|] [Hy Hx]]; simpl in Hx. destruct Hx as [Hx|[]]. subst. exact Hy. contradiction.
  - intro H. exists (Some x). split. exact H. left. reflexivity.
Qed.

Theorem nodes_union : forall ups v n, lookupd_producers_pure ups = AOk v n ->
  NoDup (ne_keys v) /\
  forall k, In k (ne_keys v) <-> exists l ps p, In (l, FOk ps) ups /\ In (Some p) ps /\ tcp_addr p = k.
Proof.
  intros ups v n H. unfold lookupd_producers_pure, error_rule in H.
  destruct (Nat.eqb _ _); [discriminate|]. inversion H; subst. clear H.
  rewrite lp_all_keys. simpl. split.
  - apply fold_add_NoDup. constructor.
  - intro k. rewrite fold_add_In, in_flat_map. split.
    + intros [[]|[[l ps] [Hu Hx]]]. simpl in Hx. apply in_map_iff in Hx. destruct Hx as [p [Hk Hp]].
      exists l, ps, p. split. apply in_answers. exact Hu. split. apply in_nonnil. exact Hp. exact Hk.
    + intros [l [ps [p [Hu [Hp Hk]]]]]. right. exists (l, ps). split. apply in_answers. exact Hu.
      simpl. apply in_map_iff. exists p. split. exact Hk. apply in_nonnil. exact Hp.
Qed.

(* producers of a topic: one per HTTP address *)
Lemma existsb_http : forall p l,
  existsb (fun q => bytes_eqb (http_addr q) (http_addr p)) l = smem (http_addr p) (map http_addr l).
Proof.
  intros p. induction l as [|e l IH]; simpl. reflexivity.
  rewrite IH. f_equal.
  destruct (bytes_eqb (http_addr e) (http_addr p)) eqn:E1; destruct (bytes_eqb (http_addr p) (http_addr e)) eqn:E2; try reflexivity.
  - apply beq_eq in E1. rewrite E1 in E2. rewrite beq_refl in E2. discriminate.
  - apply beq_eq in E2. rewrite E2 in E1. rewrite beq_refl in E1. discriminate.
Qed.
Lemma ltp_step_keys : forall acc p, map http_addr (ltp_step acc p) = s_add (map http_addr acc) (http_addr p).
Proof.
  intros acc p. unfold ltp_step. rewrite existsb_http. unfold s_add.
  destruct (smem (http_addr p) (map http_addr acc)). reflexivity. rewrite map_app. reflexivity.
Qed.
Lemma ltp_fold_keys : forall ps acc,
  map http_addr (fold_left ltp_step ps acc) = fold_left s_add (map http_addr ps) (map http_addr acc).
Proof.
  induction ps as [|p ps IH]; intro acc; simpl. reflexivity. rewrite IH, ltp_step_keys. reflexivity.
Qed.
Theorem topic_producers_union : forall ups v n, topic_producers_pure ups = AOk v n ->
  NoDup (map http_addr v) /\
  forall k, In k (map http_addr v) <-> exists l ps p, In (l, FOk ps) ups /\ In (Some p) ps /\ http_addr p = k.
Proof.
  intros ups v n H. unfold topic_producers_pure, error_rule in H.
  destruct (Nat.eqb _ _); [discriminate|]. inversion H; subst. clear H.
  rewrite (fold_left_flat_map _ _ _ ltp_step (fun u : bytes * list (option prod) => nonnil (snd u))).
  rewrite ltp_fold_keys. simpl. split.
  - apply fold_add_NoDup. constructor.
  - intro k. rewrite fold_add_In, in_map_iff. split.
    + intros [[]|[p [Hk Hp]]]. apply in_flat_map in Hp. destruct Hp as [[l ps] [Hu Hx]].
      exists l, ps, p. split. apply in_answers. exact Hu. split. apply in_nonnil. exact Hx. exact Hk.
    + intros [l [ps [p [Hu [Hp Hk]]]]]. right. exists p. split. exact Hk.
      apply in_flat_map. exists (l, ps). split. apply in_answers. exact Hu. apply in_nonnil. exact Hp.
Qed.

(* ------------------------------------------------------------------ GetNSQDStats: the keyed channel map *)
Definition entry_step (sel : bytes) (cm : list (bytes * cagg)) (e : centry) : list (bytes * cagg) :=
  proc_chan (fst (fst e)) sel (snd (fst e)) cm (snd e).


Lemma proc_topic_fold : forall p sel ts st,
  fold_left (proc_topic p sel) ts st =
  (fst st ++ flat_map (topic_nodes p sel) ts, fold_left (entry_step sel) (flat_map (topic_entries p sel) ts) (snd st)).
Proof.
  intros p sel. induction ts as [|t ts IH]; intro st; simpl.
  - rewrite app_nil_r. destruct st; reflexivity.
  - rewrite IH. unfold proc_topic, topic_nodes, topic_entries. destruct (sel_skips sel (tp_name t)); simpl.
    + reflexivity.
    + rewrite fold_left_app. rewrite <- app_assoc. simpl. f_equal. f_equal.
      rewrite <- (fold_left_map _ _ _ (entry_step sel) (fun c => (p, tp_name t, c))). reflexivity.
Qed.

Lemma stats_fold : forall us sel st,
  fold_left (fun st (u : pinfo * list (option topic)) => fold_left (proc_topic (fst u) sel) (nonnil (snd u)) st) us st =
  (fst st ++ flat_map (fun u => flat_map (topic_nodes (fst u) sel) (nonnil (snd u))) us,
   fold_left (entry_step sel) (flat_map (fun u => flat_map (topic_entries (fst u) sel) (nonnil (snd u))) us) (snd st)).
Proof.
  induction us as [|u us IH]; intros sel st; simpl.
  - rewrite app_nil_r. destruct st; reflexivity.
  - rewrite IH. rewrite proc_topic_fold. simpl. rewrite fold_left_app. rewrite <- app_assoc. reflexivity.
Qed.

Theorem stats_value_spec : forall ups sel,
  stats_value ups sel = (all_topic_nodes ups sel, fold_left (entry_step sel) (all_entries ups sel) []).
Proof. intros ups sel. unfold stats_value. rewrite stats_fold. reflexivity. Qed.

(* looking one key up after an update / after the whole run *)
Lemma find_update : forall key mk f m k,
  cmap_find k (cmap_update key mk f m) =
  if bytes_eqb key k then Some (f (match cmap_find key m with Some v => v | None => mk tt end)) else cmap_find k m.
Proof.
  intros key mk f. induction m as [|[k' v'] m IH]; intro k; simpl.
  - destruct (bytes_eqb key k) eqn:E; reflexivity.
  - destruct (bytes_eqb k' key) eqn:E1; simpl.
    + apply beq_eq in E1. subst k'. destruct (bytes_eqb key k) eqn:E2; reflexivity.
    + rewrite IH. destruct (bytes_eqb k' k) eqn:E3.
      * apply beq_eq in E3. subst k'.
        destruct (bytes_eqb key k) eqn:E4; [|reflexivity].
        apply beq_eq in E4. subst. rewrite beq_refl in E1. discriminate.
      * reflexivity.
Qed.

Definition new_agg (e : centry) : cagg := mkCA (p_addr (fst (fst e))) (snd (fst e)) (ch_name (snd e)) cn_zero false [] [].
Definition eadd (ov : option cagg) (e : centry) : option cagg :=
  Some (cagg_add (match ov with Some v => v | None => new_agg e end) (p_addr (fst (fst e))) (p_hostname (fst (fst e))) (snd e)).

Lemma find_fold : forall sel es m k,
  cmap_find k (fold_left (entry_step sel) es m) =
  fold_left eadd (filter (fun e => bytes_eqb (ekey sel e) k) es) (cmap_find k m).
Proof.
  intros sel. induction es as [|e es IH]; intros m k; simpl. reflexivity.
  rewrite IH.
  assert (cmap_find k (entry_step sel m e) = if bytes_eqb (ekey sel e) k then eadd (cmap_find (ekey sel e) m) e else cmap_find k m) as Hs.
  { unfold entry_step, proc_chan. rewrite find_update. reflexivity. }
  rewrite Hs. destruct (bytes_eqb (ekey sel e) k) eqn:E; simpl.
  - apply beq_eq in E. subst k. reflexivity.
  - reflexivity.
Qed.

(* what accumulates under one key *)
Definition agg_from (v0 : cagg) (es : list centry) : cagg :=
  fold_left (fun v e => cagg_add v (p_addr (fst (fst e))) (p_hostname (fst (fst e))) (snd e)) es v0.
Lemma eadd_fold_some : forall es v0, fold_left eadd es (Some v0) = Some (agg_from v0 es).
Proof. induction es as [|e es IH]; intro v0; simpl. reflexivity. apply IH. Qed.

Lemma agg_from_num : forall es v0, ca_num (agg_from v0 es) = fold_left cn_add (map (fun e => chan_num (snd e)) es) (ca_num v0).
Proof. induction es as [|e es IH]; intro v0; simpl. reflexivity. rewrite IH. reflexivity. Qed.
Lemma agg_from_paused : forall es v0, ca_paused (agg_from v0 es) = ca_paused v0 || existsb (fun e => ch_paused (snd e)) es.
Proof.
  induction es as [|e es IH]; intro v0; simpl. rewrite orb_false_r. reflexivity.
  rewrite IH. simpl. rewrite orb_assoc. reflexivity.
Qed.
Lemma agg_from_nodes : forall es v0,
  ca_nodes (agg_from v0 es) = ca_nodes v0 ++ map (fun e => (p_addr (fst (fst e)), p_hostname (fst (fst e)), chan_num (snd e))) es.
Proof.
  induction es as [|e es IH]; intro v0; simpl. rewrite app_nil_r. reflexivity.
  rewrite IH. simpl. rewrite <- app_assoc. reflexivity.
Qed.
Lemma agg_from_clients : forall es v0,
  ca_clients (agg_from v0 es) =
  ca_clients v0 ++ flat_map (fun e => map (fun cl => (p_addr (fst (fst e)), cl)) (nonnil (ch_clients (snd e)))) es.
Proof.
  induction es as [|e es IH]; intro v0; simpl. rewrite app_nil_r. reflexivity.
  rewrite IH. simpl. rewrite <- app_assoc. reflexivity.
Qed.
Lemma agg_from_names : forall es v0, ca_topic (agg_from v0 es) = ca_topic v0 /\ ca_name (agg_from v0 es) = ca_name v0.
Proof. induction es as [|e es IH]; intro v0; simpl. auto. destruct (IH (cagg_add v0 (p_addr (fst (fst e))) (p_hostname (fst (fst e))) (snd e))) as [H1 H2]. rewrite H1, H2. auto. Qed.

(* C18: for ANY upstreams and contents, the channel aggregated under a key carries, in each
   of its 13 counters, the (int64) sum over all node entries with that key; paused = some
   node is paused; its node list and client list are exactly those entries' *)
Theorem channel_sums : forall ups sel k,
  let es := filter (fun e => bytes_eqb (ekey sel e) k) (all_entries ups sel) in
  match cmap_find k (snd (stats_value ups sel)) with
  | None => es = []
  | Some v =>
      es <> [] /\
      (forall f, In f cfields -> f (ca_num v) = w64 (sumZ (map (fun e => f (chan_num (snd e))) es))) /\
      ca_paused v = existsb (fun e => ch_paused (snd e)) es /\
      ca_nodes v = map (fun e => (p_addr (fst (fst e)), p_hostname (fst (fst e)), chan_num (snd e))) es /\
      ca_clients v = flat_map (fun e => map (fun cl => (p_addr (fst (fst e)), cl)) (nonnil (ch_clients (snd e)))) es
  end.
Proof.
  intros ups sel k. cbv zeta. rewrite stats_value_spec. simpl snd. rewrite find_fold. simpl cmap_find.
  destruct (filter (fun e => bytes_eqb (ekey sel e) k) (all_entries ups sel)) as [|e es] eqn:Ef.
  - reflexivity.
  - simpl fold_left. unfold eadd at 2. rewrite eadd_fold_some.
    change (cagg_add (new_agg e) (p_addr (fst (fst e))) (p_hostname (fst (fst e))) (snd e)) with (agg_from (new_agg e) [e]).
    assert (forall v0 a b, agg_from (agg_from v0 a) b = agg_from v0 (a ++ b)) as Happ.
    { intros v0 a b. unfold agg_from. rewrite fold_left_app. reflexivity. }
    rewrite Happ. simpl app. split; [discriminate|]. split; [|split; [|split]].
    + intros f Hf. rewrite agg_from_num. rewrite (cn_fold_field f Hf).
      * simpl ca_num. rewrite (cfield_zero f Hf). simpl. rewrite map_map. reflexivity.
      * simpl ca_num. rewrite (cfield_zero f Hf). reflexivity.
    + rewrite agg_from_paused. reflexivity.
    + rewrite agg_from_nodes. reflexivity.
    + rewrite agg_from_clients. reflexivity.
Qed.

(* the topic entries of the result: one per (answering producer, non-null topic not filtered out) *)
Theorem stats_topic_nodes : forall ups sel, fst (stats_value ups sel) = all_topic_nodes ups sel.
Proof. intros ups sel. rewrite stats_value_spec. reflexivity. Qed.

(* ------------------------------------------------------------------ TopicStats.Add over the nodes *)

Lemma tagg_fold_num : forall nodes t, ta_num (fold_left tagg_add nodes t) = fold_left tn_add (map tn_num nodes) (ta_num t).
Proof. induction nodes as [|a nodes IH]; intro t; simpl. reflexivity. rewrite IH. reflexivity. Qed.
Lemma tagg_fold_paused : forall nodes t, ta_paused (fold_left tagg_add nodes t) = ta_paused t || existsb tn_paused nodes.
Proof.
  induction nodes as [|a nodes IH]; intro t; simpl. rewrite orb_false_r. reflexivity.
  rewrite IH. simpl. rewrite orb_assoc. reflexivity.
Qed.
Lemma tagg_fold_nodes : forall nodes t,
  ta_nodes (fold_left tagg_add nodes t) = ta_nodes t ++ map (fun a => (tn_node a, tn_host a)) nodes.
Proof.
  induction nodes as [|a nodes IH]; intro t; simpl. rewrite app_nil_r. reflexivity.
  rewrite IH. simpl. rewrite <- app_assoc. reflexivity.
Qed.
Lemma tagg_fold_chans : forall nodes t,
  ta_chans (fold_left tagg_add nodes t) = fold_left merge_chan (flat_map (fun a => nonnil (tn_chans a)) nodes) (ta_chans t).
Proof.
  induction nodes as [|a nodes IH]; intro t; simpl. reflexivity.
  rewrite IH. simpl. rewrite fold_left_app. reflexivity.
Qed.

Lemma cs_find_exists : forall k cs, existsb (fun s => bytes_eqb (cs_name s) k) cs = match cs_find k cs with Some _ => true | None => false end.
Proof. intros k. induction cs as [|s cs IH]; simpl. reflexivity. destruct (bytes_eqb (cs_name s) k); simpl. reflexivity. exact IH. Qed.
Lemma cs_find_app_none : forall k a b, cs_find k a = None -> cs_find k (a ++ b) = cs_find k b.
Proof. intros k. induction a as [|s a IH]; intros b H; simpl in *. reflexivity. destruct (bytes_eqb (cs_name s) k). discriminate. apply IH. exact H. Qed.
Lemma cs_find_app_some : forall k a b s, cs_find k a = Some s -> cs_find k (a ++ b) = Some s.
Proof. intros k. induction a as [|x a IH]; intros b s H; simpl in *. discriminate. destruct (bytes_eqb (cs_name x) k). exact H. apply IH. exact H. Qed.
Lemma cs_find_map_other : forall k name g cs, bytes_eqb name k = false -> (forall s, cs_name (g s) = cs_name s) ->
  cs_find k (map (fun s => if bytes_eqb (cs_name s) name then g s else s) cs) = cs_find k cs.
Proof.
  intros k name g cs Hne Hg. induction cs as [|s cs IH]; simpl. reflexivity.
  destruct (bytes_eqb (cs_name s) name) eqn:E1.
  - rewrite Hg. destruct (bytes_eqb (cs_name s) k) eqn:E2.
    + apply beq_eq in E1. apply beq_eq in E2. subst. rewrite beq_refl in Hne. discriminate.
    + exact IH.
  - destruct (bytes_eqb (cs_name s) k). reflexivity. exact IH.
Qed.
Lemma cs_find_map_same : forall k g cs, (forall s, cs_name (g s) = cs_name s) ->
  cs_find k (map (fun s => if bytes_eqb (cs_name s) k then g s else s) cs) =
  match cs_find k cs with Some s => Some (g s) | None => None end.
Proof.
  intros k g cs Hg. induction cs as [|s cs IH]; simpl. reflexivity.
  destruct (bytes_eqb (cs_name s) k) eqn:E1.
  - rewrite Hg, E1. reflexivity.
  - rewrite E1. exact IH.
Qed.

Definition cs_step (os : option chan_sum) (a : chan) : option chan_sum :=
  Some (match os with Some s => cs_add s a | None => mkCS (ch_name a) (chan_num a) (ch_paused a) end).

Lemma cs_find_merge : forall k cs a,
  cs_find k (merge_chan cs a) = if bytes_eqb (ch_name a) k then cs_step (cs_find k cs) a else cs_find k cs.
Proof.
  intros k cs a. unfold merge_chan. rewrite cs_find_exists.
  destruct (bytes_eqb (ch_name a) k) eqn:E.
  - apply beq_eq in E. subst k. destruct (cs_find (ch_name a) cs) as [s|] eqn:Ef.
    + rewrite (cs_find_map_same (ch_name a) (fun s => cs_add s a)) by reflexivity. rewrite Ef. reflexivity.
    + rewrite cs_find_app_none by exact Ef. simpl. rewrite beq_refl. reflexivity.
  - destruct (cs_find (ch_name a) cs) as [s|] eqn:Ef.
    + apply (cs_find_map_other k (ch_name a) (fun s => cs_add s a)). exact E. reflexivity.
    + destruct (cs_find k cs) as [s'|] eqn:Ek.
      * apply cs_find_app_some. exact Ek.
      * rewrite cs_find_app_none by exact Ek. simpl. rewrite E. reflexivity.
Qed.

Lemma cs_find_fold : forall k cs0 chans,
  cs_find k (fold_left merge_chan chans cs0) =
  fold_left cs_step (filter (fun a => bytes_eqb (ch_name a) k) chans) (cs_find k cs0).
Proof.
  intros k cs0 chans. revert cs0. induction chans as [|a chans IH]; intro cs0; simpl. reflexivity.
  rewrite IH, cs_find_merge. destruct (bytes_eqb (ch_name a) k); reflexivity.
Qed.

Definition cs_from (s0 : chan_sum) (chans : list chan) : chan_sum := fold_left cs_add chans s0.
Lemma cs_step_fold_some : forall chans s0, fold_left cs_step chans (Some s0) = Some (cs_from s0 chans).
Proof. induction chans as [|a chans IH]; intro s0; simpl. reflexivity. apply IH. Qed.
Lemma cs_from_num : forall chans s0, cs_num (cs_from s0 chans) = fold_left cn_add (map chan_num chans) (cs_num s0).
Proof. induction chans as [|a chans IH]; intro s0; simpl. reflexivity. rewrite IH. reflexivity. Qed.
Lemma cs_from_paused : forall chans s0, cs_paused (cs_from s0 chans) = cs_paused s0 || existsb ch_paused chans.
Proof.
  induction chans as [|a chans IH]; intro s0; simpl. rewrite orb_false_r. reflexivity.
  rewrite IH. simpl. rewrite orb_assoc. reflexivity.
Qed.

(* values decoded from JSON into int64 fields are in range *)
Definition chan_i64 (c : chan) : Prop :=
  in_i64 (ch_depth c) /\ in_i64 (ch_backend c) /\ in_i64 (ch_inflight c) /\ in_i64 (ch_deferred c) /\
  in_i64 (ch_requeue c) /\ in_i64 (ch_timeout c) /\ in_i64 (ch_msgs c) /\ in_i64 (ch_zone c) /\
  in_i64 (ch_region c) /\ in_i64 (ch_global c) /\ in_i64 (ch_ccount c).

Lemma chan_num_wrapped : forall f, In f cfields -> forall a, chan_i64 a -> f (chan_num a) = w64 (f (chan_num a)).
Proof.
  intros f H a Hr. unfold chan_i64 in Hr.
  destruct Hr as [H1 [H2 [H3 [H4 [H5 [H6 [H7 [H8 [H9 [H10 H11]]]]]]]]]].
  unfold cfields in H. simpl in H.
  repeat (destruct H as [H|H]; [subst f; simpl; first [rewrite w64_idem; reflexivity | symmetry; apply w64_id; assumption]|]).
  contradiction.
Qed.

(* C18, /api/topics/:topic: the 8 topic counters are the (int64) sums over the nodes, paused =
   some node is paused, the node list is the nodes', and every channel of the aggregate carries
   in each of its 13 counters the sum over the nodes that have it *)
Theorem topic_sums : forall nodes,
  let t := tagg_of nodes in
  (forall f, In f tfields -> f (ta_num t) = w64 (sumZ (map (fun a => f (tn_num a)) nodes))) /\
  ta_paused t = existsb tn_paused nodes /\
  ta_nodes t = map (fun a => (tn_node a, tn_host a)) nodes.
Proof.
  intro nodes. cbv zeta. unfold tagg_of. split; [|split].
  - intros f Hf. rewrite tagg_fold_num. rewrite (tn_fold_field f Hf).
    + simpl ta_num. rewrite (tfield_zero f Hf). simpl. rewrite map_map. reflexivity.
    + simpl ta_num. rewrite (tfield_zero f Hf). reflexivity.
  - rewrite tagg_fold_paused. reflexivity.
  - rewrite tagg_fold_nodes. reflexivity.
Qed.

Theorem topic_channel_sums : forall nodes k,
  let cs := filter (fun a => bytes_eqb (ch_name a) k) (flat_map (fun a => nonnil (tn_chans a)) nodes) in
  (forall a, In a cs -> chan_i64 a) ->
  match cs_find k (ta_chans (tagg_of nodes)) with
  | None => cs = []
  | Some s =>
      cs <> [] /\ cs_name s = k /\
      (forall f, In f cfields -> f (cs_num s) = w64 (sumZ (map (fun a => f (chan_num a)) cs))) /\
      cs_paused s = existsb ch_paused cs
  end.
Proof.
  intros nodes k. cbv zeta. intro Hr. unfold tagg_of. rewrite tagg_fold_chans. rewrite cs_find_fold. simpl cs_find.
  destruct (filter (fun a => bytes_eqb (ch_name a) k) (flat_map (fun a => nonnil (tn_chans a)) nodes)) as [|a cs] eqn:Ef.
  - reflexivity.
  - simpl fold_left. unfold cs_step at 2. rewrite cs_step_fold_some.
    assert (bytes_eqb (ch_name a) k = true) as Hk.
    { assert (In a (a :: cs)) as Hi by (left; reflexivity). rewrite <- Ef in Hi. apply filter_In in Hi. tauto. }
    apply beq_eq in Hk.
    split; [discriminate|]. split; [|split].
    + assert (forall chans s0, cs_name (cs_from s0 chans) = cs_name s0) as Hn.
      { induction chans as [|x chans IH]; intro s0; simpl. reflexivity. rewrite IH. reflexivity. }
      rewrite Hn. simpl. exact Hk.
    + intros f Hf. rewrite cs_from_num. rewrite (cn_fold_field f Hf).
      * simpl cs_num. simpl. rewrite map_map. reflexivity.
      * simpl cs_num. apply chan_num_wrapped. exact Hf. apply Hr. left. reflexivity.
    + rewrite cs_from_paused. reflexivity.
Qed.

(* ------------------------------------------------------------------ no input crashes the process *)
Lemma fold_res_ok : forall (A B : Type) (f : A -> B -> res A) (g : A -> B -> A) (l : list B) (a : A),
  (forall x y, f x y = Ok (g x y)) -> fold_res f l a = Ok (fold_left g l a).
Proof.
  intros A B f g. induction l as [|b l IH]; intros a H; simpl. reflexivity.
  rewrite H. simpl. apply IH. exact H.
Qed.

(* a loop that skips nil elements and dereferences the others *)
Lemma fold_res_nonnil : forall (A B : Type) (f : A -> option B -> res A) (g : A -> B -> A) (l : list (option B)) (a : A),
  (forall x, f x None = Ok x) -> (forall x y, f x (Some y) = Ok (g x y)) ->
  fold_res f l a = Ok (fold_left g (nonnil l) a).
Proof.
  intros A B f g. induction l as [|b l IH]; intros a H0 H1; simpl. reflexivity.
  destruct b as [y|].
  - rewrite H1. simpl. apply IH; assumption.
  - rewrite H0. simpl. apply IH; assumption.
Qed.

(* Producer.UnmarshalJSON: the bounds check makes the index expression safe *)
Theorem pair_from_ok : forall topics tombs i, pair_from i topics tombs = Ok (pair_pure i topics tombs).
Proof.
  induction topics as [|t r IH]; intros tombs i; simpl. reflexivity.
  assert ((if Nat.ltb i (length tombs) then index_bool tombs i else Ok false) = Ok (nth i tombs false)) as Hb.
  { destruct (Nat.ltb_spec i (length tombs)) as [Hlt|Hge].
    - unfold index_bool. destruct (nth_error tombs i) as [b|] eqn:E.
      + f_equal. symmetry. apply nth_error_nth. exact E.
      + apply nth_error_None in E. lia.
    - rewrite nth_overflow by lia. reflexivity. }
  rewrite Hb. simpl. rewrite IH. reflexivity.
Qed.
Theorem pair_tombstones_ok : forall topics tombs, pair_tombstones topics tombs = Ok (pair_pure 0 topics tombs).
Proof. intros. apply pair_from_ok. Qed.
Lemma pair_pure_length : forall topics tombs i, length (pair_pure i topics tombs) = length topics.
Proof. induction topics as [|t r IH]; intros; simpl. reflexivity. rewrite IH. reflexivity. Qed.
Lemma pair_pure_topics : forall topics tombs i, map fst (pair_pure i topics tombs) = topics.
Proof. induction topics as [|t r IH]; intros; simpl. reflexivity. rewrite IH. reflexivity. Qed.

Theorem lookupd_producers_ok : forall ups, lookupd_producers ups = Ok (lookupd_producers_pure ups).
Proof.
  intro ups. unfold lookupd_producers, lookupd_producers_pure.
  rewrite (fold_res_ok _ _ _ (fun acc (u : bytes * list (option prod)) => fold_left (lp_step (fst u)) (nonnil (snd u)) acc)).
  - reflexivity.
  - intros x u. apply fold_res_nonnil; intros; reflexivity.
Qed.
Theorem topic_producers_ok : forall ups, topic_producers ups = Ok (topic_producers_pure ups).
Proof.
  intro ups. unfold topic_producers, topic_producers_pure.
  rewrite (fold_res_ok _ _ _ (fun acc (u : bytes * list (option prod)) => fold_left ltp_step (nonnil (snd u)) acc)).
  - reflexivity.
  - intros x u. apply fold_res_nonnil; intros; reflexivity.
Qed.

Lemma e2e_unmarshal_ok : forall ps, e2e_unmarshal ps = Ok tt.
Proof. induction ps as [|p r IH]; simpl. reflexivity. destruct p; simpl; exact IH. Qed.
Lemma e2e_add_ok : forall e, e2e_add e = Ok tt.
Proof. intros [x|]; reflexivity. Qed.

Lemma kept_clients_ok : forall (node : bytes) (l : list (option client)) acc,
  fold_res (fun acc p => bind (deref p) (fun cl => Ok (acc ++ [(node, cl)]))) (filter (fun p => negb (is_nil p)) l) acc =
  Ok (acc ++ map (fun cl => (node, cl)) (nonnil l)).
Proof.
  intros node. induction l as [|p l IH]; intro acc; simpl.
  - rewrite app_nil_r. reflexivity.
  - destruct p as [cl|]; simpl.
    + rewrite IH. rewrite <- app_assoc. reflexivity.
    + apply IH.
Qed.
Lemma cagg_add_g_ok : forall c node host a, cagg_add_g c node host a = Ok (cagg_add c node host a).
Proof.
  intros c node host a. unfold cagg_add_g. rewrite e2e_add_ok. simpl. rewrite kept_clients_ok. reflexivity.
Qed.

Lemma clients_touch_ok : forall l, fold_res (fun (_ : unit) cl => client_touch cl) l tt = Ok tt.
Proof. induction l as [|p l IH]; simpl. reflexivity. destruct p; simpl; exact IH. Qed.

Lemma update_as_set : forall key mk f m,
  cmap_update key mk f m =
  let v := f (match cmap_find key m with Some v => v | None => mk tt end) in
  cmap_update key (fun _ => v) (fun _ => v) m.
Proof.
  intros key mk f. induction m as [|[k v] m IH]; simpl. reflexivity.
  destruct (bytes_eqb k key); simpl. reflexivity. rewrite IH. reflexivity.
Qed.

Lemma proc_chan_g_ok : forall p sel tname cm pc,
  proc_chan_g p sel tname cm pc = Ok (match pc with Some c => proc_chan p sel tname cm c | None => cm end).
Proof.
  intros p sel tname cm [c|]; [|reflexivity].
  unfold proc_chan_g. cbn [is_nil deref bind]. rewrite clients_touch_ok. cbn [bind].
  rewrite cagg_add_g_ok. cbn [bind].
  unfold proc_chan. f_equal. symmetry.
  apply (update_as_set (chan_key sel tname (ch_name c))
           (fun _ => mkCA (p_addr p) tname (ch_name c) cn_zero false [] [])
           (fun v => cagg_add v (p_addr p) (p_hostname p) c) cm).
Qed.
Lemma proc_chans_g_ok : forall p sel tname l cm,
  fold_res (proc_chan_g p sel tname) l cm = Ok (fold_left (proc_chan p sel tname) (nonnil l) cm).
Proof.
  intros p sel tname l cm. apply fold_res_nonnil; intros; rewrite proc_chan_g_ok; reflexivity.
Qed.
Lemma proc_topic_g_ok : forall p sel st pt,
  proc_topic_g p sel st pt = Ok (match pt with Some t => proc_topic p sel st t | None => st end).
Proof.
  intros p sel st [t|]; [|reflexivity].
  unfold proc_topic_g. cbn [is_nil deref bind].
  unfold proc_topic. destruct (sel_skips sel (tp_name t)). reflexivity.
  rewrite proc_chans_g_ok. reflexivity.
Qed.
Lemma decode_e2e_chan_ok : forall pc, decode_e2e_chan pc = Ok tt.
Proof. intros [c|]; simpl; [|reflexivity]. destruct (ch_e2e c); [apply e2e_unmarshal_ok|reflexivity]. Qed.
Lemma decode_e2e_topic_ok : forall pt, decode_e2e_topic pt = Ok tt.
Proof.
  intros [t|]; simpl; [|reflexivity].
  assert ((match tp_e2e t with Some e => e2e_unmarshal (map is_nil (e_pcts e)) | None => Ok tt end) = Ok tt) as H.
  { destruct (tp_e2e t); [apply e2e_unmarshal_ok|reflexivity]. }
  rewrite H. simpl.
  induction (tp_chans t) as [|c l IH]; simpl. reflexivity. rewrite decode_e2e_chan_ok. simpl. exact IH.
Qed.
Lemma decode_all_ok : forall (l : list (option topic)), fold_res (fun (_ : unit) t => decode_e2e_topic t) l tt = Ok tt.
Proof. induction l as [|t l IH]; simpl. reflexivity. rewrite decode_e2e_topic_ok. simpl. exact IH. Qed.

(* GetNSQDStats with every dereference explicit never panics and computes the plain function *)
Theorem nsqd_stats_ok : forall ups sel, nsqd_stats ups sel = Ok (nsqd_stats_pure ups sel).
Proof.
  intros ups sel. unfold nsqd_stats, nsqd_stats_pure.
  rewrite (fold_res_ok _ _ _ (fun st (u : pinfo * list (option topic)) => fold_left (proc_topic (fst u) sel) (nonnil (snd u)) st)).
  - reflexivity.
  - intros st u. rewrite decode_all_ok. simpl. apply fold_res_nonnil; intros; rewrite proc_topic_g_ok; reflexivity.
Qed.

(* the handler-side merge: a null channel among the selected topic's channels is a recovered
   panic (500) unless it is the only channel there is; never a crash *)
Lemma merge_chan_nonempty : forall cs c, merge_chan cs c <> [].
Proof.
  intros cs c. unfold merge_chan. destruct (existsb _ cs) eqn:E.
  - destruct cs; [discriminate|]. discriminate.
  - destruct cs; discriminate.
Qed.
Lemma merge_g_after_nil : forall l cs, fold_res merge_g l (cs, true) = match l with [] => Ok (cs, true) | _ => Recovered end.
Proof. intros [|x l] cs; reflexivity. Qed.
Lemma merge_g_nonempty : forall l cs, cs <> [] ->
  fold_res merge_g l (cs, false) = if existsb is_nil l then Recovered else Ok (fold_left merge_chan (nonnil l) cs, false).
Proof.
  induction l as [|pc l IH]; intros cs Hne; simpl. reflexivity.
  destruct pc as [c|]; simpl.
  - unfold merge_g at 1. simpl. apply IH. apply merge_chan_nonempty.
  - unfold merge_g at 1. simpl. destruct cs; [contradiction|reflexivity].
Qed.
Lemma merge_g_spec : forall l,
  fold_res merge_g l ([], false) =
  if existsb is_nil l then (match l with [None] => Ok ([], true) | _ => Recovered end)
  else Ok (fold_left merge_chan (nonnil l) [], false).
Proof.
  intros [|pc l]. reflexivity.
  destruct pc as [c|]; simpl.
  - unfold merge_g at 1. simpl. rewrite merge_g_nonempty by apply merge_chan_nonempty.
    destruct (existsb is_nil l) eqn:E; [|reflexivity]. destruct l; reflexivity.
  - unfold merge_g at 1. simpl. rewrite merge_g_after_nil. destruct l; reflexivity.
Qed.

Lemma no_nil_nonnil_flat : forall nodes, flat_map (fun a => nonnil (tn_chans a)) nodes = nonnil (chans_seq nodes).
Proof.
  unfold chans_seq, nonnil. induction nodes as [|a nodes IH]; simpl. reflexivity.
  rewrite flat_map_app. f_equal. exact IH.
Qed.

(* ------------------------------------------------------------------ the views *)
Definition not_crash {A : Type} (r : res A) : Prop := r <> Crash.

Lemma two_stage_spec : forall (V : Type) producers stats_of sel (k : stats_state -> bool -> res (view V)),
  two_stage producers stats_of sel k =
  match producers with
  | AHard => Ok (VStatus 502)
  | AOk ps n1 =>
      match nsqd_stats_pure (map (fun p => (p, stats_of p)) ps) sel with
      | AHard => Ok (VStatus 502)
      | AOk st n2 => k st (warn_of n1 || warn_of n2)
      end
  end.
Proof.
  intros. unfold two_stage. destruct producers as [|ps n1]. reflexivity.
  rewrite nsqd_stats_ok. reflexivity.
Qed.

(* /api/topics/:topic *)
Theorem topic_view_spec : forall producers stats_of t,
  topic_view producers stats_of t =
  match producers with
  | AHard => Ok (VStatus 502)
  | AOk ps n1 =>
      match nsqd_stats_pure (map (fun p => (p, stats_of p)) ps) t with
      | AHard => Ok (VStatus 502)
      | AOk st n2 => if null_chan_panics (fst st) then Recovered
                     else Ok (VOk (tagg_of (fst st)) (warn_of n1 || warn_of n2))
      end
  end.
Proof.
  intros. unfold topic_view. rewrite two_stage_spec. destruct producers as [|ps n1]. reflexivity.
  destruct (nsqd_stats_pure _ t) as [|st n2]. reflexivity.
  unfold null_chan_panics. fold (chans_seq (fst st)). rewrite merge_g_spec.
  fold (tagg_of (fst st)).
  destruct (existsb is_nil (chans_seq (fst st))) eqn:E.
  - destruct (chans_seq (fst st)) as [|[c|] [|y l]] eqn:Es; try reflexivity.
    (* the single null: nothing is merged, the aggregate has no channel *)
    simpl. f_equal. f_equal.
    assert (ta_chans (tagg_of (fst st)) = []) as Hc.
    { unfold tagg_of. rewrite tagg_fold_chans. rewrite no_nil_nonnil_flat. rewrite Es. reflexivity. }
    destruct (tagg_of (fst st)) as [a b c d]. simpl in *. rewrite Hc. reflexivity.
  - simpl. f_equal. f_equal.
    assert (ta_chans (tagg_of (fst st)) = fold_left merge_chan (nonnil (chans_seq (fst st))) []) as Hc.
    { unfold tagg_of. rewrite tagg_fold_chans. rewrite no_nil_nonnil_flat. reflexivity. }
    destruct (tagg_of (fst st)) as [a b c d]. simpl in *. rewrite Hc. reflexivity.
Qed.

Theorem channel_view_spec : forall producers stats_of t c,
  channel_view producers stats_of t c =
  match producers with
  | AHard => Ok (VStatus 502)
  | AOk ps n1 =>
      match nsqd_stats_pure (map (fun p => (p, stats_of p)) ps) t with
      | AHard => Ok (VStatus 502)
      | AOk st n2 => match cmap_find c (snd st) with
                     | Some v => Ok (VOk v (warn_of n1 || warn_of n2))
                     | None => Recovered
                     end
      end
  end.
Proof. intros. unfold channel_view. rewrite two_stage_spec. reflexivity. Qed.

Theorem counter_view_spec : forall producers stats_of,
  counter_view producers stats_of =
  match producers with
  | AHard => Ok (VStatus 502)
  | AOk ps n1 =>
      match nsqd_stats_pure (map (fun p => (p, stats_of p)) ps) [] with
      | AHard => Ok (VStatus 502)
      | AOk st n2 => Ok (VOk (fold_left (fun acc r => counter_addrow r acc) (counter_rows (snd st)) []) (warn_of n1 || warn_of n2))
      end
  end.
Proof. intros. unfold counter_view. rewrite two_stage_spec. reflexivity. Qed.

Lemma bind_not_crash : forall (A B : Type) (r : res A) (f : A -> res B),
  r <> Crash -> (forall a, f a <> Crash) -> bind r f <> Crash.
Proof. intros A B r f H1 H2. destruct r; simpl. apply H2. contradiction. discriminate. Qed.

Lemma fold_res_not_crash : forall (A B : Type) (f : A -> B -> res A) (l : list B) (a : A),
  (forall x y, f x y <> Crash) -> fold_res f l a <> Crash.
Proof.
  intros A B f. induction l as [|b l IH]; intros a H; simpl. discriminate.
  apply bind_not_crash. apply H. intro a'. apply IH. exact H.
Qed.

(* C18_no_panic: whatever the upstreams answer -- nulls, missing aggregates, more topics than
   tombstone flags -- none of the views takes the process down *)
Theorem views_never_crash :
  (forall producers stats_of t, topic_view producers stats_of t <> Crash) /\
  (forall producers stats_of t c, channel_view producers stats_of t c <> Crash) /\
  (forall producers stats_of, counter_view producers stats_of <> Crash) /\
  (forall producers stats_of node, node_view producers stats_of node <> Crash) /\
  (forall mode ups direct, nodes_view mode ups direct <> Crash) /\
  (forall ups, lookupd_producers ups <> Crash) /\
  (forall ups, topic_producers ups <> Crash) /\
  (forall ups sel, nsqd_stats ups sel <> Crash) /\
  (forall topics tombs, pair_tombstones topics tombs <> Crash).
Proof.
  repeat split.
  - intros. rewrite topic_view_spec. destruct producers; [discriminate|].
    destruct (nsqd_stats_pure _ t); [discriminate|]. destruct (null_chan_panics _); discriminate.
  - intros. rewrite channel_view_spec. destruct producers; [discriminate|].
    destruct (nsqd_stats_pure _ t); [discriminate|]. destruct (cmap_find c _); discriminate.
  - intros. rewrite counter_view_spec. destruct producers; [discriminate|].
    destruct (nsqd_stats_pure _ []); discriminate.
  - intros. unfold node_view. destruct producers as [|ps n1]; [discriminate|].
    destruct (find _ ps) as [p|]; [|discriminate].
    rewrite nsqd_stats_ok. simpl. destruct (nsqd_stats_pure _ []) as [|st n2]; [discriminate|].
    apply bind_not_crash.
    + apply fold_res_not_crash. intros acc ts. apply bind_not_crash.
      * apply fold_res_not_crash. intros a [c|]; discriminate.
      * intros; discriminate.
    + intros; discriminate.
  - intros. unfold nodes_view. destruct mode.
    + rewrite lookupd_producers_ok. simpl. destruct (lookupd_producers_pure ups); discriminate.
    + destruct direct; discriminate.
  - intros. rewrite lookupd_producers_ok. discriminate.
  - intros. rewrite topic_producers_ok. discriminate.
  - intros. rewrite nsqd_stats_ok. discriminate.
  - intros. rewrite pair_tombstones_ok. discriminate.
Qed.

(* status and warning of the two-stage views: 502 iff one of the stages got no answer at all,
   a warning iff some upstream of either stage failed, and the value is computed from the
   answering upstreams only *)
Theorem two_stage_status : forall (V : Type) (producers : agg (list pinfo)) stats_of sel (k : stats_state -> bool -> res (view V)),
  (forall st w, exists v, k st w = Ok (VOk v w)) ->
  match producers with
  | AHard => two_stage producers stats_of sel k = Ok (VStatus 502)
  | AOk ps n1 =>
      let ups := map (fun p => (p, stats_of p)) ps in
      ((forall u, In u ups -> failed u = true) -> two_stage producers stats_of sel k = Ok (VStatus 502)) /\
      (~ (forall u, In u ups -> failed u = true) ->
         exists v, two_stage producers stats_of sel k = Ok (VOk v (warn_of n1 || warn_of (nfailed ups))) /\
                   k (stats_value (ok_part ups) sel) (warn_of n1 || warn_of (nfailed ups)) = Ok (VOk v (warn_of n1 || warn_of (nfailed ups))))
  end.
Proof.
  intros V producers stats_of sel k Hk. destruct producers as [|ps n1].
  - reflexivity.
  - cbv zeta. rewrite two_stage_spec.
    pose proof (partial_view _ (fun ans => fold_left (fun st (u : pinfo * list (option topic)) => fold_left (proc_topic (fst u) sel) (nonnil (snd u)) st) ans ([], []))
                 (map (fun p => (p, stats_of p)) ps)) as [Hh Ho].
    cbv zeta in Hh, Ho. fold (nsqd_stats_pure (map (fun p => (p, stats_of p)) ps) sel) in Hh, Ho.
    split.
    + intro Hall. apply Hh in Hall. rewrite Hall. reflexivity.
    + intro Hn. destruct (nsqd_stats_pure (map (fun p => (p, stats_of p)) ps) sel) as [|st n2] eqn:E.
      * exfalso. apply Hn. apply Hh. reflexivity.
      * destruct (Ho st n2 eq_refl) as [H1 [H2 H3]]. subst n2.
        destruct (Hk st (warn_of n1 || warn_of (nfailed (map (fun p => (p, stats_of p)) ps)))) as [v Hv].
        exists v. split. exact Hv.
        unfold error_rule in H1. destruct (Nat.eqb _ _); [discriminate|]. inversion H1 as [Hst].
        unfold stats_value. rewrite Hst. exact Hv.
Qed.

(* ------------------------------------------------------------------ /api/topics as a whole *)
Theorem topics_view_partial : forall mode ups,
  ((forall u, In u ups -> failed u = true) -> topics_view mode ups = VStatus 502) /\
  (~ (forall u, In u ups -> failed u = true) ->
     exists v, topics_view mode ups = VOk v (warn_of (nfailed ups)) /\
               topics_view mode (ok_part ups) = VOk v false /\
               (warn_of (nfailed ups) = true <-> exists u, In u ups /\ failed u = true)).
Proof.
  intros mode ups.
  assert (forall (F : list (bytes * list bytes) -> list bytes),
    let r := error_rule (length ups) (nfailed ups) (F (answers ups)) in
    ((forall u, In u ups -> failed u = true) -> r = AHard) /\
    (~ (forall u, In u ups -> failed u = true) ->
       exists v, r = AOk v (nfailed ups) /\
                 error_rule (length (ok_part ups)) (nfailed (ok_part ups)) (F (answers (ok_part ups))) = AOk v 0)) as G.
  { intro F. cbv zeta. destruct (partial_view _ F ups) as [Hh Ho]. cbv zeta in Hh, Ho. split.
    - intro H. apply Hh. exact H.
    - intro Hn. destruct (error_rule (length ups) (nfailed ups) (F (answers ups))) as [|v n] eqn:E.
      + exfalso. apply Hn. apply Hh. reflexivity.
      + destruct (Ho v n eq_refl) as [H1 [H2 _]]. subst n. exists v. split. reflexivity. exact H1. }
  assert (warn_of (nfailed ups) = true <-> exists u, In u ups /\ failed u = true) as W.
  { unfold warn_of. rewrite negb_true_iff, Nat.eqb_neq. apply nfailed_pos_iff. }
  unfold topics_view, lookupd_topics, nsqd_topics. destruct mode.
  - destruct (G (fun ans => sort_strings (s_uniq (flat_map snd ans)))) as [G1 G2]. cbv zeta in G1, G2. split.
    + intro H. rewrite (G1 H). reflexivity.
    + intro H. destruct (G2 H) as [v [H1 H2]]. exists v. rewrite H1, H2. auto.
  - destruct (G (fun ans => sort_strings (fold_left s_add (flat_map snd ans) []))) as [G1 G2]. cbv zeta in G1, G2. split.
    + intro H. rewrite (G1 H). reflexivity.
    + intro H. destruct (G2 H) as [v [H1 H2]]. exists v. rewrite H1, H2. auto.
Qed.

(* the tombstone flags: one per topic, the given flag where there is one, false beyond *)
Theorem pair_pure_spec : forall topics tombs,
  length (pair_pure 0 topics tombs) = length topics /\
  forall i t b, nth_error (pair_pure 0 topics tombs) i = Some (t, b) ->
                nth_error topics i = Some t /\ b = nth i tombs false.
Proof.
  intros topics tombs. split. apply pair_pure_length.
  assert (forall topics k i t b, nth_error (pair_pure k topics tombs) i = Some (t, b) ->
                                 nth_error topics i = Some t /\ b = nth (k + i) tombs false) as G.
  { induction topics0 as [|x r IH]; intros k i t b H.
    - destruct i; discriminate.
    - destruct i as [|i]; simpl in *.
      + inversion H; subst. rewrite Nat.add_0_r. auto.
      + destruct (IH (S k) i t b H) as [H1 H2]. split. exact H1. rewrite H2. f_equal. lia. }
  intros i t b H. apply (G topics 0%nat i t b H).
Qed.

(* ------------------------------------------------------------------ the shapes the model was written against
   (gen/ClusterTables.v is regenerated from internal/clusterinfo and internal/quantile on every
   run: an edit of what Add sums, of the error rule, of a nil guard or of the tombstone pairing
   breaks one of these) *)
Lemma topic_add_shape_current :
  topic_add_fields = ["Depth"; "MemoryDepth"; "BackendDepth"; "MessageCount"; "DeliveryMsgCount";
                      "ZoneLocalMsgCount"; "RegionLocalMsgCount"; "GlobalMsgCount"]%string /\
  topic_add_other = ["if a.Paused"; "t.Paused = a.Paused"]%string /\
  length topic_add_fields = length tfields.
Proof. repeat split; reflexivity. Qed.

Lemma channel_add_shape_current :
  channel_add_fields = ["Depth"; "MemoryDepth"; "BackendDepth"; "InFlightCount"; "DeferredCount"; "RequeueCount";
                        "TimeoutCount"; "MessageCount"; "DeliveryMsgCount"; "ZoneLocalMsgCount"; "RegionLocalMsgCount";
                        "GlobalMsgCount"; "ClientCount"]%string /\
  channel_add_other = ["if a.Paused"; "c.Paused = a.Paused"]%string /\
  channel_add_clients = ["if c.E2eProcessingLatency == nil"; "if client != nil"; "c.Clients = append(c.Clients, client)"]%string /\
  length channel_add_fields = length cfields.
Proof. repeat split; reflexivity. Qed.

(* every Get* : hard error iff len(errs) == len(<its upstream list>), partial iff len(errs) > 0 *)
Definition get_rule_ok (e : string * list string) : bool :=
  match snd e with
  | [hard; partial] =>
      (String.eqb hard "len(errs) == len(lookupdHTTPAddrs) => hard" || String.eqb hard "len(errs) == len(nsqdHTTPAddrs) => hard" ||
       String.eqb hard "len(errs) == len(producers) => hard") && String.eqb partial "len(errs) > 0 => partial"
  | [partial] => String.eqb partial "len(errs) > 0 => partial"
  | _ => false
  end.
Lemma error_rules_current :
  forallb get_rule_ok ci_error_rules = true /\
  map fst (filter (fun e => Nat.eqb (length (snd e)) 2) ci_error_rules) =
  ["GetLookupdProducers"; "GetLookupdTopicChannels"; "GetLookupdTopicProducers"; "GetLookupdTopics";
   "GetNSQDProducers"; "GetNSQDStats"; "GetNSQDTopicProducers"; "GetNSQDTopics"]%string.
Proof. split; vm_compute; reflexivity. Qed.

Lemma nil_guards_current :
  ci_nil_guards = [("GetLookupdProducers", ["producer == nil"]); ("GetLookupdTopicProducers", ["p == nil"]);
                   ("GetNSQDStats", ["topic == nil"; "channel == nil"; "c == nil"])]%string /\
  quantile_nil_guards = ["UnmarshalJSON: p == nil => continue"; "Add: e2 == nil => return"]%string /\
  producer_tombstone_exprs = ["i < len(r.Tombstoned) && r.Tombstoned[i]"; "Tombstoned: tombstoned"]%string.
Proof. repeat split; reflexivity. Qed.

(* ------------------------------------------------------------------ the order of the upstreams does not matter
   (the code processes each answer under a lock in the completion order of its fetch
   goroutines: some permutation of the upstream list) *)
Lemma sumZ_perm : forall l l', Permutation l l' -> sumZ l = sumZ l'.
Proof. intros l l' H. induction H; simpl; lia. Qed.
Lemma filter_perm : forall (A : Type) (f : A -> bool) l l', Permutation l l' -> Permutation (filter f l) (filter f l').
Proof.
  intros A f l l' H. induction H; simpl.
  - constructor.
  - destruct (f x). apply perm_skip. exact IHPermutation. exact IHPermutation.
  - destruct (f x); destruct (f y); try apply Permutation_refl. apply perm_swap.
  - eapply perm_trans; eassumption.
Qed.
Lemma existsb_perm : forall (A : Type) (f : A -> bool) l l', Permutation l l' -> existsb f l = existsb f l'.
Proof.
  intros A f l l' H. induction H; simpl.
  - reflexivity.
  - rewrite IHPermutation. reflexivity.
  - destruct (f x); destruct (f y); reflexivity.
  - congruence.
Qed.
Lemma flat_map_perm : forall (A B : Type) (g : A -> list B) l l', Permutation l l' -> Permutation (flat_map g l) (flat_map g l').
Proof. intros A B g l l' H. apply Permutation_flat_map. exact H. Qed.
Lemma answers_perm : forall (K A : Type) (ups ups' : list (K * fetch A)), Permutation ups ups' -> Permutation (answers ups) (answers ups').
Proof. intros K A ups ups' H. unfold answers. apply flat_map_perm. exact H. Qed.
Lemma all_entries_perm : forall ups ups' sel, Permutation ups ups' -> Permutation (all_entries ups sel) (all_entries ups' sel).
Proof. intros ups ups' sel H. unfold all_entries. apply flat_map_perm. apply answers_perm. exact H. Qed.

Theorem channel_sums_order_independent : forall ups ups' sel k, Permutation ups ups' ->
  match cmap_find k (snd (stats_value ups sel)), cmap_find k (snd (stats_value ups' sel)) with
  | Some v, Some v' =>
      (forall f, In f cfields -> f (ca_num v) = f (ca_num v')) /\ ca_paused v = ca_paused v' /\
      Permutation (ca_nodes v) (ca_nodes v') /\ Permutation (ca_clients v) (ca_clients v')
  | None, None => True
  | _, _ => False
  end.
Proof.
  intros ups ups' sel k H.
  pose proof (channel_sums ups sel k) as A. pose proof (channel_sums ups' sel k) as B. cbv zeta in A, B.
  pose proof (filter_perm _ (fun e => bytes_eqb (ekey sel e) k) _ _ (all_entries_perm ups ups' sel H)) as P.
  destruct (cmap_find k (snd (stats_value ups sel))) as [v|]; destruct (cmap_find k (snd (stats_value ups' sel))) as [v'|].
  - destruct A as [_ [A1 [A2 [A3 A4]]]]. destruct B as [_ [B1 [B2 [B3 B4]]]]. split; [|split; [|split]].
    + intros f Hf. rewrite (A1 f Hf), (B1 f Hf). f_equal. apply sumZ_perm. apply Permutation_map. exact P.
    + rewrite A2, B2. apply existsb_perm. exact P.
    + rewrite A3, B3. apply Permutation_map. exact P.
    + rewrite A4, B4. apply flat_map_perm. exact P.
  - destruct A as [A0 _]. rewrite B in P. apply Permutation_sym in P. apply Permutation_nil in P. contradiction.
  - destruct B as [B0 _]. rewrite A in P. apply Permutation_nil in P. contradiction.
  - exact I.
Qed.

(* likewise the topic aggregate does not depend on the order of the nodes *)
Theorem topic_sums_order_independent : forall nodes nodes', Permutation nodes nodes' ->
  (forall f, In f tfields -> f (ta_num (tagg_of nodes)) = f (ta_num (tagg_of nodes'))) /\
  ta_paused (tagg_of nodes) = ta_paused (tagg_of nodes') /\
  Permutation (ta_nodes (tagg_of nodes)) (ta_nodes (tagg_of nodes')).
Proof.
  intros nodes nodes' H.
  destruct (topic_sums nodes) as [A1 [A2 A3]]. destruct (topic_sums nodes') as [B1 [B2 B3]]. cbv zeta in *.
  split; [|split].
  - intros f Hf. rewrite (A1 f Hf), (B1 f Hf). f_equal. apply sumZ_perm. apply Permutation_map. exact H.
  - rewrite A2, B2. apply existsb_perm. exact H.
  - rewrite A3, B3. apply Permutation_map. exact H.
Qed.

(* ------------------------------------------------------------------ /api/counter *)
Lemma rows_find_addrow : forall r acc k,
  rows_find k (counter_addrow r acc) =
  if bytes_eqb (row_key r) k
  then Some (match rows_find (row_key r) acc with Some v => w64 (v + row_val r) | None => row_val r end)
  else rows_find k acc.
Proof.
  intros r. induction acc as [|x acc IH]; intro k.
  - simpl. destruct (bytes_eqb (row_key r) k); reflexivity.
  - destruct r as [[[t c] n] v]. destruct x as [[[t' c'] n'] v'].
    unfold counter_addrow; fold counter_addrow.
    change (bytes_eqb (t ++ colon ++ c ++ colon ++ n) (t' ++ colon ++ c' ++ colon ++ n'))
      with (bytes_eqb (row_key (t, c, n, v)) (row_key (t', c', n', v'))).
    assert (forall z, row_key (t', c', n', z) = row_key (t', c', n', v')) as Hkz by reflexivity.
    destruct (bytes_eqb (row_key (t, c, n, v)) (row_key (t', c', n', v'))) eqn:E.
    + apply beq_eq in E. unfold rows_find; fold rows_find. rewrite (Hkz (w64 (v' + v))). rewrite <- E. rewrite beq_refl.
      destruct (bytes_eqb (row_key (t, c, n, v)) k); reflexivity.
    + unfold rows_find; fold rows_find. rewrite IH.
      assert (bytes_eqb (row_key (t', c', n', v')) (row_key (t, c, n, v)) = false) as E'.
      { apply beq_false. intro H. apply beq_false in E. apply E. symmetry. exact H. }
      rewrite E'.
      destruct (bytes_eqb (row_key (t', c', n', v')) k) eqn:E2.
      * apply beq_eq in E2. subst k. rewrite E. reflexivity.
      * reflexivity.
Qed.

Definition row_step (ov : option Z) (r : row) : option Z :=
  Some (match ov with Some v => w64 (v + row_val r) | None => row_val r end).

Lemma rows_find_fold : forall rows acc k,
  rows_find k (fold_left (fun acc r => counter_addrow r acc) rows acc) =
  fold_left row_step (filter (fun r => bytes_eqb (row_key r) k) rows) (rows_find k acc).
Proof.
  induction rows as [|r rows IH]; intros acc k; simpl. reflexivity.
  rewrite IH, rows_find_addrow. destruct (bytes_eqb (row_key r) k) eqn:E; simpl.
  - apply beq_eq in E. subst k. reflexivity.
  - reflexivity.
Qed.

Lemma row_step_fold_some : forall rows v, fold_left row_step rows (Some v) = Some (fold_left (fun a r => w64 (a + row_val r)) rows v).
Proof. induction rows as [|r rows IH]; intro v; simpl. reflexivity. apply IH. Qed.

(* each row of /api/counter carries the (int64) sum of the message counts reported under its
   topic:channel:node key *)
Theorem counter_rows_sum : forall rows k,
  (forall r, In r rows -> in_i64 (row_val r)) ->
  let mine := filter (fun r => bytes_eqb (row_key r) k) rows in
  match rows_find k (counter_fold rows) with
  | None => mine = []
  | Some v => mine <> [] /\ v = w64 (sumZ (map row_val mine))
  end.
Proof.
  intros rows k Hr. cbv zeta. unfold counter_fold. rewrite rows_find_fold. simpl rows_find.
  destruct (filter (fun r => bytes_eqb (row_key r) k) rows) as [|x xs] eqn:Ef. reflexivity.
  simpl fold_left. unfold row_step at 2. rewrite row_step_fold_some. split. discriminate.
  assert (in_i64 (row_val x)) as Hx.
  { apply Hr. assert (In x (x :: xs)) as Hi by (left; reflexivity). rewrite <- Ef in Hi. apply filter_In in Hi. tauto. }
  rewrite <- (w64_id (row_val x) Hx) at 1.
  rewrite (fold_left_map _ _ _ (fun a v => w64 (a + v)) row_val).
  rewrite fold_w64_sum. reflexivity.
Qed.

(* ... and the rows fed into that fold are, up to order, one per (node, topic, channel) entry *)
Definition entry_row_kv (e : centry) : bytes * Z := (entry_key3 e, ch_msgs (snd e)).
Definition row_kv (r : row) : bytes * Z := (row_key r, row_val r).

Definition cm_names_ok (cm : list (bytes * cagg)) : Prop :=
  forall k v, In (k, v) cm -> ca_topic v ++ colon ++ ca_name v = k.

Lemma counter_rows_update_perm : forall cm key mk (f : cagg -> cagg) (nd : bytes * bytes * cnum),
  (forall v, ca_topic (f v) = ca_topic v /\ ca_name (f v) = ca_name v /\ ca_nodes (f v) = ca_nodes v ++ [nd]) ->
  cm_names_ok cm ->
  ca_topic (mk tt) ++ colon ++ ca_name (mk tt) = key -> ca_nodes (mk tt) = [] ->
  Permutation
    (map row_kv (counter_rows (cmap_update key mk f cm)))
    ((key ++ colon ++ fst (fst nd), n_msgs (snd nd)) :: map row_kv (counter_rows cm)).
Proof.
  induction cm as [|[k v] cm IH]; intros key mk f nd Hf Hok Hmk Hnil.
  - simpl. destruct (Hf (mk tt)) as [F1 [F2 F3]]. rewrite F1, F2, F3, Hnil. simpl.
    unfold row_kv, row_key, row_val. simpl. rewrite <- Hmk. rewrite <- !app_assoc. apply Permutation_refl.
  - simpl. destruct (bytes_eqb k key) eqn:E.
    + apply beq_eq in E. subst k.
      assert (ca_topic v ++ colon ++ ca_name v = key) as Hk by (apply Hok; left; reflexivity).
      unfold counter_rows. simpl. destruct (Hf v) as [F1 [F2 F3]]. rewrite F1, F2, F3. rewrite !map_app. simpl.
      unfold row_kv at 2, row_key, row_val. simpl. rewrite <- Hk. rewrite <- !app_assoc.
      apply Permutation_sym. apply Permutation_cons_app. apply Permutation_refl.
    + unfold counter_rows. simpl. rewrite !map_app.
      eapply perm_trans.
      * apply Permutation_app_head. apply IH.
        -- exact Hf.
        -- intros k' v' Hi. apply Hok. right. exact Hi.
        -- exact Hmk.
        -- exact Hnil.
      * apply Permutation_sym. apply Permutation_cons_app. apply Permutation_refl.
Qed.

Lemma names_ok_update : forall cm key mk (f : cagg -> cagg),
  (forall v, ca_topic (f v) = ca_topic v /\ ca_name (f v) = ca_name v) ->
  cm_names_ok cm -> ca_topic (mk tt) ++ colon ++ ca_name (mk tt) = key ->
  cm_names_ok (cmap_update key mk f cm).
Proof.
  induction cm as [|[k v] cm IH]; intros key mk f Hf Hok Hmk k' v' Hi.
  - simpl in Hi. destruct Hi as [Hi|[]]. inversion Hi; subst. destruct (Hf (mk tt)) as [F1 F2]. rewrite F1, F2. reflexivity.
  - simpl in Hi. destruct (bytes_eqb k key) eqn:E.
    + destruct Hi as [Hi|Hi].
      * inversion Hi; subst. destruct (Hf v) as [F1 F2]. rewrite F1, F2. apply Hok. left. reflexivity.
      * apply Hok. right. exact Hi.
    + destruct Hi as [Hi|Hi].
      * inversion Hi; subst. apply Hok. left. reflexivity.
      * eapply IH; [exact Hf| |exact Hmk|exact Hi]. intros k2 v2 H2. apply Hok. right. exact H2.
Qed.

Lemma counter_rows_fold : forall es cm done,
  cm_names_ok cm -> Permutation (map row_kv (counter_rows cm)) (map entry_row_kv done) ->
  cm_names_ok (fold_left (entry_step []) es cm) /\
  Permutation (map row_kv (counter_rows (fold_left (entry_step []) es cm))) (map entry_row_kv (done ++ es)).
Proof.
  induction es as [|e es IH]; intros cm done Hok Hp; simpl.
  - rewrite app_nil_r. split; assumption.
  - replace (done ++ e :: es) with ((done ++ [e]) ++ es) by (rewrite <- app_assoc; reflexivity).
    destruct e as [[p tname] c].
    apply IH.
    + unfold entry_step, proc_chan. simpl. apply names_ok_update.
      * intro v. split; reflexivity.
      * exact Hok.
      * reflexivity.
    + unfold entry_step, proc_chan. simpl.
      eapply perm_trans.
      * apply (counter_rows_update_perm cm _ _ _ (p_addr p, p_hostname p, chan_num c)).
        -- intro v. repeat split; reflexivity.
        -- exact Hok.
        -- reflexivity.
        -- reflexivity.
      * rewrite map_app. simpl map.
        change (entry_row_kv (p, tname, c)) with ((tname ++ colon ++ ch_name c) ++ colon ++ p_addr p, ch_msgs c).
        apply Permutation_cons_app. rewrite app_nil_r. exact Hp.
Qed.

(* the rows nsqadmin folds into /api/counter are, up to order, exactly one (key, count) per
   (answering node, non-null topic, non-null channel) entry *)
Theorem counter_rows_entries : forall ups,
  Permutation (map row_kv (counter_rows (snd (stats_value ups [])))) (map entry_row_kv (all_entries ups [])).
Proof.
  intro ups. rewrite stats_value_spec. simpl snd.
  destruct (counter_rows_fold (all_entries ups []) [] []) as [_ H].
  - intros k v [].
  - apply Permutation_refl.
  - exact H.
Qed.

(* ------------------------------------------------------------------ direct mode (--nsqd-http-address) *)
(* GetNSQDTopicProducers: the producers of a topic are the configured nsqds whose /stats answers
   and lists the topic and whose /info answers; an nsqd whose /stats (or, having the topic,
   /info) fails is a failed upstream; 502 iff all of them are *)
Definition direct_pinfo (ad : bytes) (i : prod) : pinfo :=
  let i' := match pr_bcast i with
            | [] => mkProd (host_of ad) (port_of ad) (pr_tcp i) (pr_host i) [] (pr_version i) [] []
            | _ => i end in
  mkP (http_addr i') (match pr_host i' with [] => host_of ad | h => h end).

Theorem direct_topic_producers_spec : forall t ups,
  let f := map (direct_topic_fetch t) ups in
  (stage1_producers (SDirectTopic t ups) = AHard <-> forall u, In u f -> failed u = true) /\
  (forall v n, stage1_producers (SDirectTopic t ups) = AOk v n ->
     n = nfailed f /\
     forall p, In p v <-> exists ad d i, In (ad, d) ups /\ dn_stats_ok d = true /\ smem t (dn_topics d) = true /\
                                        dn_info d = Some i /\ p = direct_pinfo ad i).
Proof.
  intros t ups. cbv zeta. simpl stage1_producers.
  destruct (partial_view _ (fun ans : list (bytes * list pinfo) => flat_map snd ans) (map (direct_topic_fetch t) ups)) as [Hh Ho].
  cbv zeta in Hh, Ho. split. exact Hh.
  intros v n H. destruct (Ho v n H) as [_ [Hn _]]. split. exact Hn.
  unfold error_rule in H. destruct (Nat.eqb _ _); [discriminate|]. inversion H; subst v. clear H.
  intro p. rewrite in_flat_map. split.
  - intros [[ad ps] [Hu Hp]]. apply in_answers in Hu. apply in_map_iff in Hu. destruct Hu as [[ad' d] [He Hi]].
    unfold direct_topic_fetch in He. simpl in He. inversion He as [[Ha Hf]]. subst ad'.
    destruct (dn_stats_ok d) eqn:Es; simpl in Hf; [|discriminate].
    destruct (smem t (dn_topics d)) eqn:Et; simpl in Hf.
    + destruct (dn_info d) as [i|] eqn:Ei; [|discriminate]. inversion Hf; subst ps. simpl in Hp.
      destruct Hp as [Hp|[]]. exists ad, d, i. repeat split; try assumption. symmetry. exact Hp.
    + inversion Hf; subst ps. contradiction.
  - intros [ad [d [i [Hi [Es [Et [Ei Hp]]]]]]]. exists (ad, [p]). split.
    + apply in_answers. apply in_map_iff. exists (ad, d). split; [|exact Hi].
      unfold direct_topic_fetch. simpl. rewrite Es, Et, Ei. simpl. subst p. reflexivity.
    + left. reflexivity.
Qed.

(* packaged for props/C18.v *)
Theorem partial_failure_general : forall (K A V : Type) (F : list (K * A) -> V) (ups : list (K * fetch A)),
  let r := error_rule (length ups) (nfailed ups) (F (answers ups)) in
  (r = AHard <-> forall u, In u ups -> failed u = true) /\
  (forall v n, r = AOk v n ->
     error_rule (length (ok_part ups)) (nfailed (ok_part ups)) (F (answers (ok_part ups))) = AOk v 0 /\
     n = nfailed ups /\ (n <> 0%nat <-> exists u, In u ups /\ failed u = true)).
Proof. intros K A V F ups. exact (partial_view V F ups). Qed.

Theorem tombstones_full : forall topics tombs,
  pair_tombstones topics tombs = Ok (pair_pure 0 topics tombs) /\
  length (pair_pure 0 topics tombs) = length topics /\
  forall i t b, nth_error (pair_pure 0 topics tombs) i = Some (t, b) ->
                nth_error topics i = Some t /\ b = nth i tombs false.
Proof. intros topics tombs. split. apply pair_tombstones_ok. apply pair_pure_spec. Qed.

Theorem source_shapes_current :
  (topic_add_fields = ["Depth"; "MemoryDepth"; "BackendDepth"; "MessageCount"; "DeliveryMsgCount";
                       "ZoneLocalMsgCount"; "RegionLocalMsgCount"; "GlobalMsgCount"]%string /\
   topic_add_other = ["if a.Paused"; "t.Paused = a.Paused"]%string /\
   length topic_add_fields = length tfields) /\
  (channel_add_fields = ["Depth"; "MemoryDepth"; "BackendDepth"; "InFlightCount"; "DeferredCount"; "RequeueCount";
                         "TimeoutCount"; "MessageCount"; "DeliveryMsgCount"; "ZoneLocalMsgCount"; "RegionLocalMsgCount";
                         "GlobalMsgCount"; "ClientCount"]%string /\
   channel_add_other = ["if a.Paused"; "c.Paused = a.Paused"]%string /\
   channel_add_clients = ["if c.E2eProcessingLatency == nil"; "if client != nil"; "c.Clients = append(c.Clients, client)"]%string /\
   length channel_add_fields = length cfields) /\
  (forallb get_rule_ok ci_error_rules = true /\
   map fst (filter (fun e => Nat.eqb (length (snd e)) 2) ci_error_rules) =
   ["GetLookupdProducers"; "GetLookupdTopicChannels"; "GetLookupdTopicProducers"; "GetLookupdTopics";
    "GetNSQDProducers"; "GetNSQDStats"; "GetNSQDTopicProducers"; "GetNSQDTopics"]%string) /\
  (ci_nil_guards = [("GetLookupdProducers", ["producer == nil"]); ("GetLookupdTopicProducers", ["p == nil"]);
                    ("GetNSQDStats", ["topic == nil"; "channel == nil"; "c == nil"])]%string /\
   quantile_nil_guards = ["UnmarshalJSON: p == nil => continue"; "Add: e2 == nil => return"]%string /\
   producer_tombstone_exprs = ["i < len(r.Tombstoned) && r.Tombstoned[i]"; "Tombstoned: tombstoned"]%string).
Proof. exact (conj topic_add_shape_current (conj channel_add_shape_current (conj error_rules_current nil_guards_current))). Qed.
