(* Proofs about model/Cluster.v (C18). *)
From Coq Require Import String List ZArith NArith Bool Lia PeanoNat Permutation.
From NSQV Require Import model.Judge model.Cluster.
Import ListNotations.
Open Scope list_scope.
Open Scope Z_scope.

(* ------------------------------------------------------------------ byte strings *)
Lemma beq_eq : forall a b : bytes, bytes_eqb a b = true <-> a = b.
Proof.
  unfold bytes_eqb. induction a as [|x a IH]; destruct b as [|y b]; simpl; split; intro H;
    try reflexivity; try discriminate.
  - apply andb_true_iff in H. destruct H as [H1 H2]. apply N.eqb_eq in H1. apply IH in H2. subst. reflexivity.
  - inversion H; subst. apply andb_true_iff. split. apply N.eqb_refl. apply IH. reflexivity.
Qed.
Lemma beq_refl : forall a, bytes_eqb a a = true.
Proof. intro a. apply beq_eq. reflexivity. Qed.
Lemma beq_false : forall a b : bytes, bytes_eqb a b = false <-> a <> b.
Proof.
  intros a b. split.
  - intros H E. apply beq_eq in E. congruence.
  - intro H. destruct (bytes_eqb a b) eqn:E; [|reflexivity]. apply beq_eq in E. contradiction.
Qed.
Lemma smem_In : forall x l, smem x l = true <-> In x l.
Proof.
  intros x l. unfold smem. rewrite existsb_exists. split.
  - intros [y [Hy He]]. apply beq_eq in He. subst. exact Hy.
  - intro H. exists x. split. exact H. apply beq_refl.
Qed.
Lemma smem_false : forall x l, smem x l = false <-> ~ In x l.
Proof.
  intros x l. split.
  - intros H Hi. apply smem_In in Hi. congruence.
  - intro H. destruct (smem x l) eqn:E; [|reflexivity]. apply smem_In in E. contradiction.
Qed.

(* ------------------------------------------------------------------ stringy: Add, Union, Uniq *)
Lemma s_add_In : forall s a x, In x (s_add s a) <-> In x s \/ x = a.
Proof.
  intros s a x. unfold s_add. destruct (smem a s) eqn:E.
  - apply smem_In in E. split. auto. intros [H|H]. exact H. subst. exact E.
  - rewrite in_app_iff. simpl. split.
    + intros [H|[H|[]]]; auto.
    + intros [H|H]; auto.
Qed.
Lemma NoDup_snoc : forall (A : Type) (l : list A) (a : A), NoDup l -> ~ In a l -> NoDup (l ++ [a]).
Proof.
  intros A l a H Hn. induction H as [|x l Hx H IH]; simpl.
  - constructor. intros []. constructor.
  - constructor.
    + rewrite in_app_iff. simpl. intros [K|[K|[]]]. contradiction. subst. apply Hn. left. reflexivity.
    + apply IH. intro K. apply Hn. right. exact K.
Qed.
Lemma s_add_NoDup : forall s a, NoDup s -> NoDup (s_add s a).
Proof.
  intros s a H. unfold s_add. destruct (smem a s) eqn:E. exact H.
  apply smem_false in E. apply NoDup_snoc; assumption.
Qed.

Lemma fold_add_In : forall a s x, In x (fold_left s_add a s) <-> In x s \/ In x a.
Proof.
  induction a as [|y a IH]; intros s x; simpl.
  - tauto.
  - rewrite IH. rewrite s_add_In. split.
    + intros [[H|H]|H]; auto.
    + intros [H|[H|H]]; auto.
Qed.
Lemma fold_add_NoDup : forall a s, NoDup s -> NoDup (fold_left s_add a s).
Proof.
  induction a as [|y a IH]; intros s H; simpl. exact H. apply IH. apply s_add_NoDup. exact H.
Qed.

Theorem s_union_spec : forall s a, NoDup s ->
  NoDup (s_union s a) /\ forall x, In x (s_union s a) <-> In x s \/ In x a.
Proof. intros s a H. split. apply fold_add_NoDup. exact H. intro x. apply fold_add_In. Qed.

Theorem s_uniq_spec : forall l, NoDup (s_uniq l) /\ forall x, In x (s_uniq l) <-> In x l.
Proof.
  intro l. split. apply fold_add_NoDup. constructor.
  intro x. unfold s_uniq. rewrite fold_add_In. simpl. tauto.
Qed.

(* first occurrences keep their order: Uniq of a duplicate-free list is the list *)
Lemma fold_add_nodup_app : forall a s, NoDup (s ++ a) -> fold_left s_add a s = s ++ a.
Proof.
  induction a as [|y a IH]; intros s H; simpl.
  - rewrite app_nil_r. reflexivity.
  - assert (smem y s = false) as E.
    { apply smem_false. intro Hi. apply NoDup_remove_2 in H. apply H. apply in_or_app. left. exact Hi. }
    unfold s_add at 2. rewrite E. rewrite IH.
    + rewrite <- app_assoc. reflexivity.
    + rewrite <- app_assoc. exact H.
Qed.
Theorem s_uniq_id : forall l, NoDup l -> s_uniq l = l.
Proof. intros l H. unfold s_uniq. rewrite fold_add_nodup_app. reflexivity. exact H. Qed.

(* sort.Strings only permutes *)
Lemma insert_sorted_perm : forall x l, Permutation (insert_sorted x l) (x :: l).
Proof.
  intros x l. induction l as [|y l IH]; simpl. apply Permutation_refl.
  destruct (bytes_leb x y). apply Permutation_refl.
  eapply perm_trans. apply perm_skip. exact IH. apply perm_swap.
Qed.
Theorem sort_strings_perm : forall l, Permutation (sort_strings l) l.
Proof.
  induction l as [|x l IH]; simpl. constructor.
  eapply perm_trans. apply insert_sorted_perm. apply perm_skip. exact IH.
Qed.
Lemma sort_strings_In : forall l x, In x (sort_strings l) <-> In x l.
Proof.
  intros l x. split; apply Permutation_in. apply sort_strings_perm. apply Permutation_sym. apply sort_strings_perm.
Qed.
Lemma sort_strings_NoDup : forall l, NoDup l -> NoDup (sort_strings l).
Proof. intros l H. eapply Permutation_NoDup. apply Permutation_sym. apply sort_strings_perm. exact H. Qed.

(* and its result is ordered *)
Lemma bytes_leb_total : forall a b, bytes_leb a b = false -> bytes_leb b a = true.
Proof.
  induction a as [|x a IH]; destruct b as [|y b]; simpl; intro H; try discriminate; try reflexivity.
  destruct (N.ltb_spec x y); [discriminate|]. destruct (N.ltb_spec y x); [reflexivity|].
  apply IH. exact H.
Qed.
Lemma bytes_leb_trans : forall a b c, bytes_leb a b = true -> bytes_leb b c = true -> bytes_leb a c = true.
Proof.
  induction a as [|x a IH]; intros b c H1 H2. reflexivity.
  destruct b as [|y b]; [discriminate|]. destruct c as [|z c]; [discriminate|]. simpl in *.
  destruct (N.ltb_spec x y).
  - destruct (N.ltb_spec y z).
    + destruct (N.ltb_spec x z); [reflexivity|]. lia.
    + destruct (N.ltb_spec z y); [discriminate|]. assert (y = z) by lia. subst.
      destruct (N.ltb_spec x z); [reflexivity|]. lia.
  - destruct (N.ltb_spec y x); [discriminate|]. assert (x = y) by lia. subst.
    destruct (N.ltb_spec y z); [reflexivity|]. destruct (N.ltb_spec z y); [discriminate|].
    eapply IH; eassumption.
Qed.
Inductive sorted_b : list bytes -> Prop :=
| sb_nil : sorted_b []
| sb_one : forall x, sorted_b [x]
| sb_cons : forall x y l, bytes_leb x y = true -> sorted_b (y :: l) -> sorted_b (x :: y :: l).
Lemma insert_sorted_sorted : forall x l, sorted_b l -> sorted_b (insert_sorted x l).
Proof.
  intros x l H. induction H; simpl.
  - constructor.
  - destruct (bytes_leb x x0) eqn:E. constructor; [exact E|constructor].
    constructor. apply bytes_leb_total. exact E. constructor.
  - destruct (bytes_leb x x0) eqn:E.
    + constructor. exact E. constructor; assumption.
    + simpl in IHsorted_b. destruct (bytes_leb x y) eqn:E2.
      * constructor. apply bytes_leb_total. exact E. exact IHsorted_b.
      * constructor. exact H. exact IHsorted_b.
Qed.
Theorem sort_strings_sorted : forall l, sorted_b (sort_strings l).
Proof. induction l as [|x l IH]; simpl. constructor. apply insert_sorted_sorted. exact IH. Qed.

(* ------------------------------------------------------------------ int64 arithmetic *)
Lemma two64_pos : 0 < two64. Proof. reflexivity. Qed.

Lemma w64_mod : forall z, (w64 z) mod two64 = z mod two64.
Proof.
  intro z. unfold w64. cbv zeta.
  destruct (z mod two64 <? two63) eqn:E.
  - apply Z.mod_mod. discriminate.
  - replace (z mod two64 - two64) with (z mod two64 + (-1) * two64) by ring.
    rewrite Z.mod_add by discriminate. apply Z.mod_mod. discriminate.
Qed.
Lemma w64_cong : forall a b, a mod two64 = b mod two64 -> w64 a = w64 b.
Proof. intros a b H. unfold w64. rewrite H. reflexivity. Qed.
Lemma w64_idem : forall z, w64 (w64 z) = w64 z.
Proof. intro z. apply w64_cong. apply w64_mod. Qed.
Lemma w64_add_l : forall a b, w64 (w64 a + b) = w64 (a + b).
Proof.
  intros a b. apply w64_cong. rewrite Z.add_mod by discriminate. rewrite w64_mod.
  rewrite <- Z.add_mod by discriminate. reflexivity.
Qed.
Lemma w64_add_r : forall a b, w64 (a + w64 b) = w64 (a + b).
Proof. intros a b. rewrite Z.add_comm, w64_add_l, Z.add_comm. reflexivity. Qed.
Lemma w64_range : forall z, in_i64 (w64 z).
Proof.
  intro z. unfold w64, in_i64. cbv zeta.
  pose proof (Z.mod_pos_bound z two64 two64_pos) as B.
  destruct (Z.ltb_spec (z mod two64) two63); unfold two63, two64 in *; lia.
Qed.
Theorem w64_id : forall z, in_i64 z -> w64 z = z.
Proof.
  intros z [H1 H2]. unfold w64. cbv zeta. unfold two63, two64 in *.
  destruct (Z_le_gt_dec 0 z).
  - rewrite Z.mod_small by lia. destruct (Z.ltb_spec z 9223372036854775808); lia.
  - replace (z mod 18446744073709551616) with (z + 18446744073709551616).
    + destruct (Z.ltb_spec (z + 18446744073709551616) 9223372036854775808); lia.
    + symmetry. replace z with ((z + 18446744073709551616) + (-1) * 18446744073709551616) at 1 by ring.
      rewrite Z.mod_add by discriminate. apply Z.mod_small. lia.
Qed.

Fixpoint sumZ (l : list Z) : Z := match l with [] => 0 | x :: r => x + sumZ r end.

(* a counter accumulated with wrapping additions is the wrapped mathematical sum *)
Lemma fold_w64_sum : forall (xs : list Z) (init : Z),
  fold_left (fun acc x => w64 (acc + x)) xs (w64 init) = w64 (init + sumZ xs).
Proof.
  induction xs as [|x xs IH]; intro init; simpl.
  - rewrite Z.add_0_r. reflexivity.
  - rewrite w64_add_l. rewrite IH. f_equal. ring.
Qed.

(* ------------------------------------------------------------------ the summed fields *)
Definition cfields : list (cnum -> Z) :=
  [n_depth; n_mem; n_backend; n_inflight; n_deferred; n_requeue; n_timeout; n_msgs; n_delivery; n_zone; n_region; n_global; n_ccount].
Definition tfields : list (tnum -> Z) :=
  [t_depth; t_mem; t_backend; t_msgs; t_delivery; t_zone; t_region; t_global].

Lemma cfield_add : forall f, In f cfields -> forall a b, f (cn_add a b) = w64 (f a + f b).
Proof.
  intros f H a b. unfold cfields in H. simpl in H.
  repeat (destruct H as [H|H]; [subst f; reflexivity|]). contradiction.
Qed.
Lemma tfield_add : forall f, In f tfields -> forall a b, f (tn_add a b) = w64 (f a + f b).
Proof.
  intros f H a b. unfold tfields in H. simpl in H.
  repeat (destruct H as [H|H]; [subst f; reflexivity|]). contradiction.
Qed.
Lemma cfield_zero : forall f, In f cfields -> f cn_zero = 0.
Proof.
  intros f H. unfold cfields in H. simpl in H.
  repeat (destruct H as [H|H]; [subst f; reflexivity|]). contradiction.
Qed.
Lemma tfield_zero : forall f, In f tfields -> f tn_zero = 0.
Proof.
  intros f H. unfold tfields in H. simpl in H.
  repeat (destruct H as [H|H]; [subst f; reflexivity|]). contradiction.
Qed.

Lemma cn_fold_field : forall f, In f cfields -> forall (xs : list cnum) (init : cnum),
  f init = w64 (f init) ->
  f (fold_left cn_add xs init) = w64 (f init + sumZ (map f xs)).
Proof.
  intros f Hf. induction xs as [|x xs IH]; intros init Hi; simpl.
  - rewrite Z.add_0_r. exact Hi.
  - rewrite IH.
    + rewrite (cfield_add f Hf). rewrite w64_add_l. f_equal. ring.
    + rewrite (cfield_add f Hf). rewrite w64_idem. reflexivity.
Qed.
Lemma tn_fold_field : forall f, In f tfields -> forall (xs : list tnum) (init : tnum),
  f init = w64 (f init) ->
  f (fold_left tn_add xs init) = w64 (f init + sumZ (map f xs)).
Proof.
  intros f Hf. induction xs as [|x xs IH]; intros init Hi; simpl.
  - rewrite Z.add_0_r. exact Hi.
  - rewrite IH.
    + rewrite (tfield_add f Hf). rewrite w64_add_l. f_equal. ring.
    + rewrite (tfield_add f Hf). rewrite w64_idem. reflexivity.
Qed.

(* ------------------------------------------------------------------ the error rule and failing subsets *)
Section Partial.
Context {K A : Type}.
Implicit Types ups : list (K * fetch A).

Lemma filter_len_le : forall (f : K * fetch A -> bool) ups, (length (filter f ups) <= length ups)%nat.
Proof. intros f. induction ups as [|y l IH]; simpl. lia. destruct (f y); simpl; lia. Qed.

Lemma nfailed_all : forall ups, nfailed ups = length ups <-> forall u, In u ups -> failed u = true.
Proof.
  unfold nfailed. induction ups as [|y l IH]; simpl.
  - split; [intros _ u []|reflexivity].
  - destruct (failed y) eqn:E; simpl.
    + split.
      * intros H u [Hu|Hu]. subst; exact E. apply IH. lia. exact Hu.
      * intro H. f_equal. apply IH. intros u Hu. apply H. right; exact Hu.
    + split.
      * intro H. pose proof (filter_len_le failed l). lia.
      * intro H. specialize (H y (or_introl eq_refl)). congruence.
Qed.

Definition ok_part ups : list (K * fetch A) := filter (fun u => negb (failed u)) ups.

Lemma answers_ok_part : forall ups, answers (ok_part ups) = answers ups.
Proof.
  unfold answers, ok_part. induction ups as [|u l IH]; simpl. reflexivity.
  unfold failed at 1. destruct u as [k [|a]]; simpl.
  - exact IH.
  - f_equal. exact IH.
Qed.
Lemma nfailed_ok_part : forall ups, nfailed (ok_part ups) = 0%nat.
Proof.
  unfold nfailed, ok_part. induction ups as [|u l IH]; simpl. reflexivity.
  destruct (failed u) eqn:E; simpl. exact IH. rewrite E. exact IH.
Qed.
Lemma ok_part_nonempty : forall ups, nfailed ups <> length ups -> length (ok_part ups) <> 0%nat.
Proof.
  unfold nfailed, ok_part. induction ups as [|u l IH]; simpl; intro H. congruence.
  destruct (failed u); simpl in *. apply IH. lia. discriminate.
Qed.
Lemma nfailed_pos_iff : forall ups, nfailed ups <> 0%nat <-> exists u, In u ups /\ failed u = true.
Proof.
  unfold nfailed. induction ups as [|u l IH]; simpl.
  - split. congruence. intros [u [[] _]].
  - destruct (failed u) eqn:E; simpl.
    + split. intros _. exists u. auto. discriminate.
    + rewrite IH. split.
      * intros [v [Hv Hf]]. exists v. auto.
      * intros [v [[Hv|Hv] Hf]]. subst. congruence. exists v. auto.
Qed.

(* every clusterinfo Get* has this shape: a function of the answers, under the error rule *)
Theorem partial_view : forall (V : Type) (F : list (K * A) -> V) ups,
  let r := error_rule (length ups) (nfailed ups) (F (answers ups)) in
  (r = AHard <-> forall u, In u ups -> failed u = true) /\
  (forall v n, r = AOk v n ->
     error_rule (length (ok_part ups)) (nfailed (ok_part ups)) (F (answers (ok_part ups))) = AOk v 0 /\
     n = nfailed ups /\ (n <> 0%nat <-> exists u, In u ups /\ failed u = true)).
Proof.
  intros V F ups. cbv zeta. unfold error_rule.
  destruct (Nat.eqb (nfailed ups) (length ups)) eqn:E.
  - apply Nat.eqb_eq in E. split.
    + split. intros _. apply nfailed_all. exact E. reflexivity.
    + intros v n H. discriminate.
  - apply Nat.eqb_neq in E. split.
    + split. discriminate. intro H. exfalso. apply E. apply nfailed_all. exact H.
    + intros v n H. inversion H; subst. rewrite nfailed_ok_part, answers_ok_part.
      pose proof (ok_part_nonempty ups E) as Hne.
      destruct (length (ok_part ups)) eqn:El; [congruence|]. simpl.
      split. reflexivity. split. reflexivity. apply nfailed_pos_iff.
Qed.

Lemma in_answers : forall ups k a, In (k, a) (answers ups) <-> In (k, FOk a) ups.
Proof.
  unfold answers. intros ups k a. rewrite in_flat_map. split.
  - intros [[k' f] [Hu Hx]]. simpl in Hx. destruct f; [contradiction|]. destruct Hx as [Hx|[]]. inversion Hx; subst. exact Hu.
  - intro H. exists (k, FOk a). split. exact H. simpl. left. reflexivity.
Qed.
End Partial.

(* ------------------------------------------------------------------ folds *)
Lemma fold_left_flat_map : forall (A B C : Type) (g : A -> C -> A) (h : B -> list C) (us : list B) (a : A),
  fold_left (fun acc u => fold_left g (h u) acc) us a = fold_left g (flat_map h us) a.
Proof.
  intros A B C g h. induction us as [|u us IH]; intro a; simpl. reflexivity.
  rewrite fold_left_app. apply IH.
Qed.
Lemma fold_left_map : forall (A B C : Type) (g : A -> C -> A) (h : B -> C) (l : list B) (a : A),
  fold_left (fun acc b => g acc (h b)) l a = fold_left g (map h l) a.
Proof. intros A B C g h. induction l as [|b l IH]; intro a; simpl. reflexivity. apply IH. Qed.
Lemma fold_left_cond_filter : forall (A B : Type) (g : A -> B -> A) (c : B -> bool) (l : list B) (a : A),
  fold_left (fun acc b => if c b then g acc b else acc) l a = fold_left g (filter c l) a.
Proof.
  intros A B g c. induction l as [|b l IH]; intro a; simpl. reflexivity.
  destruct (c b); simpl; apply IH.
Qed.
Lemma fold_left_ext : forall (A B : Type) (g g' : A -> B -> A) (l : list B) (a : A),
  (forall x y, g x y = g' x y) -> fold_left g l a = fold_left g' l a.
Proof. intros A B g g' l. induction l as [|b l IH]; intros a H; simpl. reflexivity. rewrite H. apply IH. exact H. Qed.

(* ------------------------------------------------------------------ the lists are duplicate-free unions *)
Theorem lookupd_topics_union : forall ups v n, lookupd_topics ups = AOk v n ->
  NoDup v /\ sorted_b v /\ forall x, In x v <-> exists l ts, In (l, FOk ts) ups /\ In x ts.
Proof.
  intros ups v n H. unfold lookupd_topics, error_rule in H.
  destruct (Nat.eqb _ _); [discriminate|]. inversion H; subst. clear H.
  destruct (s_uniq_spec (flat_map snd (answers ups))) as [Hn Hi]. split; [|split].
  - apply sort_strings_NoDup. exact Hn.
  - apply sort_strings_sorted.
  - intro x. rewrite sort_strings_In, Hi, in_flat_map. split.
    + intros [[l ts] [Hu Hx]]. exists l, ts. split. apply in_answers. exact Hu. exact Hx.
    + intros [l [ts [Hu Hx]]]. exists (l, ts). split. apply in_answers. exact Hu. exact Hx.
Qed.

Theorem nsqd_topics_union : forall ups v n, nsqd_topics ups = AOk v n ->
  NoDup v /\ sorted_b v /\ forall x, In x v <-> exists l ts, In (l, FOk ts) ups /\ In x ts.
Proof.
  intros ups v n H. unfold nsqd_topics, error_rule in H.
  destruct (Nat.eqb _ _); [discriminate|]. inversion H; subst. clear H.
  split; [|split].
  - apply sort_strings_NoDup. apply fold_add_NoDup. constructor.
  - apply sort_strings_sorted.
  - intro x. rewrite sort_strings_In, fold_add_In, in_flat_map. split.
    + intros [[]|[[l ts] [Hu Hx]]]. exists l, ts. split. apply in_answers. exact Hu. exact Hx.
    + intros [l [ts [Hu Hx]]]. right. exists (l, ts). split. apply in_answers. exact Hu. exact Hx.
Qed.

(* node list: one entry per TCP address *)
Definition ne_keys (l : list nentry) : list bytes := map (fun e => tcp_addr (ne_prod e)) l.

Lemma add_remote_keys : forall key r l, ne_keys (add_remote key r l) = ne_keys l.
Proof.
  intros key r. induction l as [|e l IH]; simpl. reflexivity.
  destruct (bytes_eqb (tcp_addr (ne_prod e)) key); simpl. reflexivity. f_equal. exact IH.
Qed.
Lemma existsb_keys : forall key l,
  existsb (fun e => bytes_eqb (tcp_addr (ne_prod e)) key) l = smem key (ne_keys l).
Proof.
  intros key. induction l as [|e l IH]; simpl. reflexivity.
  rewrite IH. f_equal.
  destruct (bytes_eqb (tcp_addr (ne_prod e)) key) eqn:E1; destruct (bytes_eqb key (tcp_addr (ne_prod e))) eqn:E2; try reflexivity.
  - apply beq_eq in E1. rewrite E1 in E2. rewrite beq_refl in E2. discriminate.
  - apply beq_eq in E2. rewrite E2 in E1. rewrite beq_refl in E1. discriminate.
Qed.
Lemma lp_step_keys : forall lookupd acc p, ne_keys (lp_step lookupd acc p) = s_add (ne_keys acc) (tcp_addr p).
Proof.
  intros lookupd acc p. unfold lp_step. rewrite add_remote_keys. rewrite existsb_keys. unfold s_add.
  destruct (smem (tcp_addr p) (ne_keys acc)). reflexivity.
  unfold ne_keys. rewrite map_app. reflexivity.
Qed.
Lemma lp_fold_keys : forall lookupd ps acc,
  ne_keys (fold_left (lp_step lookupd) ps acc) = fold_left s_add (map tcp_addr ps) (ne_keys acc).
Proof.
  intros lookupd. induction ps as [|p ps IH]; intro acc; simpl. reflexivity.
  rewrite IH, lp_step_keys. reflexivity.
Qed.
Lemma lp_all_keys : forall us acc,
  ne_keys (fold_left (fun acc u => fold_left (lp_step (fst u)) (nonnil (snd u)) acc) us acc) =
  fold_left s_add (flat_map (fun u : bytes * list (option prod) => map tcp_addr (nonnil (snd u))) us) (ne_keys acc).
Proof.
  induction us as [|u us IH]; intro acc; simpl. reflexivity.
  rewrite IH, lp_fold_keys, fold_left_app. reflexivity.
Qed.

Lemma in_nonnil : forall (A : Type) (l : list (option A)) x, In x (nonnil l) <-> In (Some x) l.
Proof.
  intros A l x. unfold nonnil. rewrite in_flat_map. split.
  - intros [[y|] [Hy Hx]]; simpl in Hx. destruct Hx as [Hx|[]]. subst. exact Hy. contradiction.
  - intro H. exists (Some x). split. exact H. left. reflexivity.
Qed.

Theorem nodes_union : forall ups v n, lookupd_producers_pure ups = AOk v n ->
  NoDup (ne_keys v) /\
  forall k, In k (ne_keys v) <-> exists l ps p, In (l, FOk ps) ups /\ In (Some p) ps /\ tcp_addr p = k.
Proof.
  intros ups v n H. unfold lookupd_producers_pure, error_rule in H.
  destruct (Nat.eqb _ _); [discriminate|]. inversion H; subst. clear H.
  rewrite lp_all_keys. simpl. split.
  - apply fold_add_NoDup. constructor.
  - intro k. rewrite fold_add_In, in_flat_map. split.
    + intros [[]|[[l ps] [Hu Hx]]]. simpl in Hx. apply in_map_iff in Hx. destruct Hx as [p [Hk Hp]].
      exists l, ps, p. split. apply in_answers. exact Hu. split. apply in_nonnil. exact Hp. exact Hk.
    + intros [l [ps [p [Hu [Hp Hk]]]]]. right. exists (l, ps). split. apply in_answers. exact Hu.
      simpl. apply in_map_iff. exists p. split. exact Hk. apply in_nonnil. exact Hp.
Qed.

(* producers of a topic: one per HTTP address *)
Lemma existsb_http : forall p l,
  existsb (fun q => bytes_eqb (http_addr q) (http_addr p)) l = smem (http_addr p) (map http_addr l).
Proof.
  intros p. induction l as [|e l IH]; simpl. reflexivity.
  rewrite IH. f_equal.
  destruct (bytes_eqb (http_addr e) (http_addr p)) eqn:E1; destruct (bytes_eqb (http_addr p) (http_addr e)) eqn:E2; try reflexivity.
  - apply beq_eq in E1. rewrite E1 in E2. rewrite beq_refl in E2. discriminate.
  - apply beq_eq in E2. rewrite E2 in E1. rewrite beq_refl in E1. discriminate.
Qed.
Lemma ltp_step_keys : forall acc p, map http_addr (ltp_step acc p) = s_add (map http_addr acc) (http_addr p).
Proof.
  intros acc p. unfold ltp_step. rewrite existsb_http. unfold s_add.
  destruct (smem (http_addr p) (map http_addr acc)). reflexivity. rewrite map_app. reflexivity.
Qed.
Lemma ltp_fold_keys : forall ps acc,
  map http_addr (fold_left ltp_step ps acc) = fold_left s_add (map http_addr ps) (map http_addr acc).
Proof.
  induction ps as [|p ps IH]; intro acc; simpl. reflexivity. rewrite IH, ltp_step_keys. reflexivity.
Qed.
Theorem topic_producers_union : forall ups v n, topic_producers_pure ups = AOk v n ->
  NoDup (map http_addr v) /\
  forall k, In k (map http_addr v) <-> exists l ps p, In (l, FOk ps) ups /\ In (Some p) ps /\ http_addr p = k.
Proof.
  intros ups v n H. unfold topic_producers_pure, error_rule in H.
  destruct (Nat.eqb _ _); [discriminate|]. inversion H; subst. clear H.
  rewrite (fold_left_flat_map _ _ _ ltp_step (fun u : bytes * list (option prod) => nonnil (snd u))).
  rewrite ltp_fold_keys. simpl. split.
  - apply fold_add_NoDup. constructor.
  - intro k. rewrite fold_add_In, in_map_iff. split.
    + intros [[]|[p [Hk Hp]]]. apply in_flat_map in Hp. destruct Hp as [[l ps] [Hu Hx]].
      exists l, ps, p. split. apply in_answers. exact Hu. split. apply in_nonnil. exact Hx. exact Hk.
    + intros [l [ps [p [Hu [Hp Hk]]]]]. right. exists p. split. exact Hk.
      apply in_flat_map. exists (l, ps). split. apply in_answers. exact Hu. apply in_nonnil. exact Hp.
Qed.
