(* The per-consumer in-flight counter is exact: in every reachable state, for every
   consumer attached to a channel, the counter RDY is compared against (k_ifl, the
   implementation's client.InFlightCount) equals the number of in-flight entries of that
   channel the consumer owns.  This is a cross-structure invariant (client record vs
   channel in-flight set), proved over ALL histories of the coarse model. *)
From Coq Require Import List NArith ZArith Bool Lia ZifyBool ZifyN Permutation.
From RecordUpdate Require Import RecordUpdate.
From NSQV Require Import model.Core proofs.CoreBase proofs.CoreFlow.
Import ListNotations.
Local Open Scope N_scope.

Definition owned (k : N) (l : list ifl) : Z :=
  Z.of_nat (length (filter (fun e => i_cid e =? k) l)).

Record CInv (s : state) : Prop := mkCInv {
  ci_t : NoDup (map t_id (s_topics s));
  ci_c : forall tp, In tp (s_topics s) -> NoDup (map c_id (t_chans tp));
  ci_k : NoDup (map k_id (s_clients s));
  ci_member : forall tp ch k, In tp (s_topics s) -> In ch (t_chans tp) -> In k (c_clients ch) ->
      exists kl, In kl (s_clients s) /\ k_id kl = k /\ k_sub kl = Some (t_id tp, c_id ch)
                 /\ k_ifl kl = owned k (c_ifl ch);
  ci_owner : forall tp ch e, In tp (s_topics s) -> In ch (t_chans tp) -> In e (c_ifl ch) ->
      exists kl, In kl (s_clients s) /\ k_id kl = i_cid e /\ k_sub kl = Some (t_id tp, c_id ch);
  ci_init : forall kl, In kl (s_clients s) -> k_state kl = st_init -> k_sub kl = None /\ k_ifl kl = 0%Z
}.

(* ------------------------------------------------------------------ list facts *)
Lemma NoDup_map_unique {A} (f : A -> N) (l : list A) x y :
  NoDup (map f l) -> In x l -> In y l -> f x = f y -> x = y.
Proof.
  induction l as [|a l IH]; cbn; [intros _ []|].
  intros Hnd Hx Hy E. inversion Hnd as [|? ? Hn Hnd']; subst.
  destruct Hx as [->|Hx], Hy as [->|Hy]; auto.
  - exfalso. apply Hn. rewrite E. apply in_map, Hy.
  - exfalso. apply Hn. rewrite <- E. apply in_map, Hx.
Qed.

Lemma find_unique {A} (f : A -> N) (l : list A) x :
  NoDup (map f l) -> In x l -> find (fun y => f y =? f x) l = Some x.
Proof.
  induction l as [|a l IH]; cbn; [intros _ []|].
  intros Hnd Hx. inversion Hnd as [|? ? Hn Hnd']; subst.
  destruct (N.eqb_spec (f a) (f x)) as [E|E].
  - destruct Hx as [->|Hx]; [reflexivity|]. exfalso. apply Hn. rewrite E. apply in_map, Hx.
  - destruct Hx as [->|Hx]; [congruence|]. apply IH; assumption.
Qed.

Lemma find_in {A} (p : A -> bool) (l : list A) x : find p l = Some x -> In x l /\ p x = true.
Proof. apply find_some. Qed.

Lemma find_none_notin {A} (f : A -> N) (l : list A) k :
  find (fun y => f y =? k) l = None -> ~ In k (map f l).
Proof.
  intros H Hin. apply in_map_iff in Hin. destruct Hin as [x [E Hx]].
  pose proof (find_none _ _ H x Hx) as F. cbn in F. rewrite E, N.eqb_refl in F. discriminate.
Qed.

Lemma map_map_if_id {A} (f : A -> N) (p : A -> bool) (g : A -> A) (l : list A) :
  (forall x, f (g x) = f x) -> map f (map (fun x => if p x then g x else x) l) = map f l.
Proof.
  intros Hg. rewrite map_map. apply map_ext. intros x. destruct (p x); [apply Hg|reflexivity].
Qed.

Lemma NoDup_map_filter {A} (f : A -> N) (p : A -> bool) (l : list A) :
  NoDup (map f l) -> NoDup (map f (filter p l)).
Proof.
  induction l as [|a l IH]; cbn; [auto|]. intros Hnd. inversion Hnd as [|? ? Hn Hnd']; subst.
  destruct (p a); cbn; [constructor; [|apply IH, Hnd']|apply IH, Hnd'].
  intros Hin. apply Hn. apply in_map_iff in Hin. destruct Hin as [x [E Hx]].
  apply filter_In in Hx. rewrite <- E. apply in_map, Hx.
Qed.

Lemma NoDup_snoc {A} (l : list A) x : NoDup l -> ~ In x l -> NoDup (l ++ [x]).
Proof.
  induction l as [|a l IH]; cbn; intros Hnd Hn; [constructor; [intros []|constructor]|].
  inversion Hnd as [|? ? Ha Hnd']; subst. constructor.
  - rewrite in_app_iff. cbn. intros [H|[H|[]]]; [apply Ha, H|apply Hn; left; symmetry; exact H].
  - apply IH; [exact Hnd'|]. intros H. apply Hn. right. exact H.
Qed.

Lemma NoDup_map_app_one {A} (f : A -> N) (l : list A) x :
  NoDup (map f l) -> ~ In (f x) (map f l) -> NoDup (map f (l ++ [x])).
Proof.
  intros Hnd Hn. rewrite map_app. cbn.
  apply NoDup_snoc; assumption.
Qed.

(* ------------------------------------------------------------------ lookups under CInv *)
Lemma find_topic_in s t tp : find_topic s t = Some tp -> In tp (s_topics s) /\ t_id tp = t.
Proof. intros H. apply find_some in H. destruct H as [H E]. apply N.eqb_eq in E. auto. Qed.
Lemma find_chan_in tp c ch : find_chan tp c = Some ch -> In ch (t_chans tp) /\ c_id ch = c.
Proof. intros H. apply find_some in H. destruct H as [H E]. apply N.eqb_eq in E. auto. Qed.
Lemma find_client_in s k kl : find_client s k = Some kl -> In kl (s_clients s) /\ k_id kl = k.
Proof. intros H. apply find_some in H. destruct H as [H E]. apply N.eqb_eq in E. auto. Qed.
Lemma get_chan_in s t c ch : get_chan s t c = Some ch ->
  exists tp, In tp (s_topics s) /\ t_id tp = t /\ In ch (t_chans tp) /\ c_id ch = c.
Proof.
  unfold get_chan. destruct (find_topic s t) as [tp|] eqn:E; [|discriminate].
  intros H. apply find_topic_in in E. apply find_chan_in in H. exists tp. tauto.
Qed.

Lemma state_eta (s : state) : s = mkState (s_topics s) (s_clients s).
Proof. destruct s; reflexivity. Qed.

(* ------------------------------------------------------------------ updating one channel and the clients *)
Section Update.
  Variables (s : state) (t c : N) (f : chan -> chan) (tp0 : topic) (ch0 : chan).
  Hypothesis HI : CInv s.
  Hypothesis Htp0 : In tp0 (s_topics s).
  Hypothesis Et : t_id tp0 = t.
  Hypothesis Hch0 : In ch0 (t_chans tp0).
  Hypothesis Ec : c_id ch0 = c.

  Lemma topic_is_tp0 tp : In tp (s_topics s) -> t_id tp = t -> tp = tp0.
  Proof. intros H E. apply (NoDup_map_unique t_id (s_topics s)); [apply HI|assumption|assumption|congruence]. Qed.
  Lemma chan_is_ch0 ch : In ch (t_chans tp0) -> c_id ch = c -> ch = ch0.
  Proof. intros H E. apply (NoDup_map_unique c_id (t_chans tp0)); [apply HI, Htp0|assumption|assumption|congruence]. Qed.

  Lemma upd_inv tp' ch' : In tp' (s_topics (upd_chan s t c f)) -> In ch' (t_chans tp') ->
     (exists tp, In tp (s_topics s) /\ t_id tp' = t_id tp /\ In ch' (t_chans tp) /\ ~ (t_id tp = t /\ c_id ch' = c))
     \/ (t_id tp' = t /\ ch' = f ch0).
  Proof.
    intros Htp Hch. change (s_topics (upd_chan s t c f))
      with (map (fun tp => if t_id tp =? t then upd_chan_in tp c f else tp) (s_topics s)) in Htp.
    apply in_map_iff in Htp. destruct Htp as [tp [E Htp]].
    destruct (N.eqb_spec (t_id tp) t) as [Q|Q].
    - pose proof (topic_is_tp0 tp Htp Q) as ->. subst tp'.
      change (t_chans (upd_chan_in tp0 c f)) with (map (fun x => if c_id x =? c then f x else x) (t_chans tp0)) in Hch.
      apply in_map_iff in Hch. destruct Hch as [x [E Hx]].
      destruct (N.eqb_spec (c_id x) c) as [R|R].
      + right. rewrite (chan_is_ch0 x Hx R) in E. split; [exact Q|auto].
      + left. exists tp0. subst ch'. repeat split; auto. intros [_ ?]. contradiction.
    - subst tp'. left. exists tp. repeat split; auto. intros [? _]. contradiction.
  Qed.

  Variable G : client -> client.
  Hypothesis Fid : c_id (f ch0) = c.
  Hypothesis Gid : forall kl, k_id (G kl) = k_id kl.
  Hypothesis Gother : forall kl x, In kl (s_clients s) -> k_sub kl = Some x -> x <> (t, c) ->
      k_sub (G kl) = Some x /\ k_ifl (G kl) = k_ifl kl.
  Hypothesis Gmem : forall k, In k (c_clients (f ch0)) ->
      exists kl, In kl (s_clients s) /\ k_id kl = k /\ k_sub (G kl) = Some (t, c)
                 /\ k_ifl (G kl) = owned k (c_ifl (f ch0)).
  Hypothesis Gown : forall e, In e (c_ifl (f ch0)) ->
      exists kl, In kl (s_clients s) /\ k_id kl = i_cid e /\ k_sub (G kl) = Some (t, c).
  Hypothesis Ginit : forall kl, In kl (s_clients s) -> k_state (G kl) = st_init ->
      k_sub (G kl) = None /\ k_ifl (G kl) = 0%Z.

  Lemma CInv_update : CInv (mkState (s_topics (upd_chan s t c f)) (map G (s_clients s))).
  Proof.
    constructor; cbn [s_topics s_clients].
    - change (s_topics (upd_chan s t c f))
        with (map (fun tp => if t_id tp =? t then upd_chan_in tp c f else tp) (s_topics s)).
      rewrite map_map_if_id; [apply HI|reflexivity].
    - intros tp' Htp. change (s_topics (upd_chan s t c f))
        with (map (fun tp => if t_id tp =? t then upd_chan_in tp c f else tp) (s_topics s)) in Htp.
      apply in_map_iff in Htp. destruct Htp as [tp [E Htp]].
      destruct (N.eqb_spec (t_id tp) t) as [Q|Q]; [|subst tp'; apply HI, Htp].
      pose proof (topic_is_tp0 tp Htp Q) as ->. subst tp'.
      change (t_chans (upd_chan_in tp0 c f)) with (map (fun x => if c_id x =? c then f x else x) (t_chans tp0)).
      rewrite map_map. rewrite (map_ext_in _ c_id); [apply HI, Htp0|].
      intros x Hx. destruct (N.eqb_spec (c_id x) c) as [R|R]; [|reflexivity].
      rewrite (chan_is_ch0 x Hx R). congruence.
    - rewrite map_map. rewrite (map_ext _ k_id); [apply HI|exact Gid].
    - intros tp' ch' k Htp Hch Hk.
      destruct (upd_inv tp' ch' Htp Hch) as [[tp (Htp1 & Eid & Hch1 & Hne)]|[Eid ->]].
      + destruct (ci_member s HI tp ch' k Htp1 Hch1 Hk) as [kl (Hkl & Ek & Es & Ei)].
        assert (Hx : (t_id tp, c_id ch') <> (t, c)) by (intros X; inversion X; tauto).
        destruct (Gother kl _ Hkl Es Hx) as [Gs Gi].
        exists (G kl). rewrite Gid, Eid. repeat split; [apply in_map, Hkl|exact Ek|exact Gs|congruence].
      + destruct (Gmem k Hk) as [kl (Hkl & Ek & Gs & Gi)].
        exists (G kl). rewrite Gid, Eid, Fid. repeat split; [apply in_map, Hkl|exact Ek|exact Gs|exact Gi].
    - intros tp' ch' e Htp Hch He.
      destruct (upd_inv tp' ch' Htp Hch) as [[tp (Htp1 & Eid & Hch1 & Hne)]|[Eid ->]].
      + destruct (ci_owner s HI tp ch' e Htp1 Hch1 He) as [kl (Hkl & Ek & Es)].
        assert (Hx : (t_id tp, c_id ch') <> (t, c)) by (intros X; inversion X; tauto).
        destruct (Gother kl _ Hkl Es Hx) as [Gs Gi].
        exists (G kl). rewrite Gid, Eid. repeat split; [apply in_map, Hkl|exact Ek|exact Gs].
      + destruct (Gown e He) as [kl (Hkl & Ek & Gs)].
        exists (G kl). rewrite Gid, Eid, Fid. repeat split; [apply in_map, Hkl|exact Ek|exact Gs].
    - intros kl' Hkl' Hst. apply in_map_iff in Hkl'. destruct Hkl' as [kl [<- Hkl]].
      apply Ginit; assumption.
  Qed.
End Update.

(* ------------------------------------------------------------------ simulation: structure only shrinks or is renamed *)
Lemma owned_map k l l' : map i_cid l = map i_cid l' -> owned k l = owned k l'.
Proof.
  unfold owned. revert l'. induction l as [|e l IH]; intros [|e' l'] H; cbn in *; try discriminate; [reflexivity|].
  inversion H as [[E H']]. rewrite E. destruct (i_cid e' =? k); cbn; [|apply IH, H'].
  specialize (IH l' H'). lia.
Qed.

Lemma CInv_sim s s' :
  CInv s ->
  NoDup (map t_id (s_topics s')) ->
  (forall tp', In tp' (s_topics s') -> NoDup (map c_id (t_chans tp'))) ->
  NoDup (map k_id (s_clients s')) ->
  (forall tp' ch', In tp' (s_topics s') -> In ch' (t_chans tp') ->
     (c_clients ch' = [] /\ c_ifl ch' = []) \/
     exists tp ch, In tp (s_topics s) /\ In ch (t_chans tp) /\ t_id tp = t_id tp' /\ c_id ch = c_id ch'
                   /\ incl (c_clients ch') (c_clients ch) /\ map i_cid (c_ifl ch') = map i_cid (c_ifl ch)) ->
  (forall kl, In kl (s_clients s) ->
     exists kl', In kl' (s_clients s') /\ k_id kl' = k_id kl /\ k_sub kl' = k_sub kl /\ k_ifl kl' = k_ifl kl) ->
  (forall kl', In kl' (s_clients s') -> k_state kl' = st_init -> k_sub kl' = None /\ k_ifl kl' = 0%Z) ->
  CInv s'.
Proof.
  intros HI Ht Hc Hk Hsim Hcl Hinit. constructor; auto.
  - intros tp' ch' k Htp Hch Hin.
    destruct (Hsim tp' ch' Htp Hch) as [[E _]|(tp & ch & Htp1 & Hch1 & Et & Ec & Hincl & Hm)].
    + rewrite E in Hin. destruct Hin.
    + destruct (ci_member s HI tp ch k Htp1 Hch1 (Hincl k Hin)) as [kl (Hkl & Ek & Es & Ei)].
      destruct (Hcl kl Hkl) as [kl' (Hkl' & Ek' & Es' & Ei')].
      exists kl'. rewrite <- Et, <- Ec, (owned_map k _ _ Hm). repeat split; congruence.
  - intros tp' ch' e Htp Hch Hin.
    destruct (Hsim tp' ch' Htp Hch) as [[_ E]|(tp & ch & Htp1 & Hch1 & Et & Ec & Hincl & Hm)].
    + rewrite E in Hin. destruct Hin.
    + assert (He : In (i_cid e) (map i_cid (c_ifl ch))) by (rewrite <- Hm; apply in_map, Hin).
      apply in_map_iff in He. destruct He as [e0 [Ee He0]].
      destruct (ci_owner s HI tp ch e0 Htp1 Hch1 He0) as [kl (Hkl & Ek & Es)].
      destruct (Hcl kl Hkl) as [kl' (Hkl' & Ek' & Es' & Ei')].
      exists kl'. rewrite <- Et, <- Ec. repeat split; congruence.
Qed.

Definition chan_le (ch' ch : chan) : Prop :=
  c_id ch = c_id ch' /\ incl (c_clients ch') (c_clients ch) /\ map i_cid (c_ifl ch') = map i_cid (c_ifl ch).
Lemma chan_le_refl ch : chan_le ch ch.
Proof. repeat split. apply incl_refl. Qed.

(* the topics are mapped by F, which keeps ids and only shrinks / renames channels or adds empty ones *)
Lemma CInv_map_topics s (F : topic -> topic) :
  CInv s ->
  (forall tp, In tp (s_topics s) ->
     t_id (F tp) = t_id tp /\ NoDup (map c_id (t_chans (F tp))) /\
     forall ch', In ch' (t_chans (F tp)) ->
       (c_clients ch' = [] /\ c_ifl ch' = []) \/ exists ch, In ch (t_chans tp) /\ chan_le ch' ch) ->
  CInv (mkState (map F (s_topics s)) (s_clients s)).
Proof.
  intros HI HF. apply (CInv_sim s); cbn [s_topics s_clients]; auto.
  - rewrite map_map. rewrite (map_ext_in _ t_id); [apply HI|]. intros tp Htp. apply HF, Htp.
  - intros tp' Htp. apply in_map_iff in Htp. destruct Htp as [tp [<- Htp]]. apply HF, Htp.
  - apply HI.
  - intros tp' ch' Htp Hch. apply in_map_iff in Htp. destruct Htp as [tp [<- Htp]].
    destruct (HF tp Htp) as (Eid & _ & Hc). destruct (Hc ch' Hch) as [E|[ch (Hin & Ec & Hincl & Hm)]]; [left; exact E|].
    right. exists tp, ch. repeat split; auto.
  - intros kl Hkl. exists kl. auto.
  - apply HI.
Qed.

Lemma CInv_upd_topic s t (F : topic -> topic) :
  CInv s ->
  (forall tp, In tp (s_topics s) -> t_id tp = t ->
     t_id (F tp) = t_id tp /\ NoDup (map c_id (t_chans (F tp))) /\
     forall ch', In ch' (t_chans (F tp)) ->
       (c_clients ch' = [] /\ c_ifl ch' = []) \/ exists ch, In ch (t_chans tp) /\ chan_le ch' ch) ->
  CInv (upd_topic s t F).
Proof.
  intros HI HF. rewrite (state_eta (upd_topic s t F)).
  change (s_topics (upd_topic s t F)) with (map (fun tp => if t_id tp =? t then F tp else tp) (s_topics s)).
  change (s_clients (upd_topic s t F)) with (s_clients s).
  apply CInv_map_topics; [exact HI|]. intros tp Htp.
  destruct (N.eqb_spec (t_id tp) t) as [E|E]; [apply HF; assumption|].
  repeat split; [apply HI, Htp|]. intros ch' Hch. right. exists ch'. split; [exact Hch|apply chan_le_refl].
Qed.

(* F maps every channel to a smaller-or-equal one *)
Lemma CInv_upd_topic_chans s t (F : topic -> topic) :
  CInv s ->
  (forall tp, exists g : chan -> chan,
      t_id (F tp) = t_id tp /\ t_chans (F tp) = map g (t_chans tp) /\ forall ch, chan_le (g ch) ch) ->
  CInv (upd_topic s t F).
Proof.
  intros HI HF. apply CInv_upd_topic; [exact HI|]. intros tp Htp _.
  destruct (HF tp) as (g & E1 & E2 & Hg). rewrite E2. repeat split; [exact E1| |].
  - rewrite map_map. rewrite (map_ext _ c_id); [apply HI, Htp|]. intros ch. symmetry. apply Hg.
  - intros ch' Hch. apply in_map_iff in Hch. destruct Hch as [ch [<- Hch]]. right. exists ch. split; [exact Hch|apply Hg].
Qed.

Lemma CInv_upd_chan_le s t c (f : chan -> chan) :
  CInv s -> (forall ch, chan_le (f ch) ch) -> CInv (upd_chan s t c f).
Proof.
  intros HI Hf. apply CInv_upd_topic_chans; [exact HI|].
  intros tp. exists (fun x => if c_id x =? c then f x else x). split; [reflexivity|split; [reflexivity|]].
  intros ch. destruct (c_id ch =? c); [apply Hf|apply chan_le_refl].
Qed.

Lemma CInv_filter_chans s t (p : chan -> bool) :
  CInv s -> CInv (upd_topic s t (fun tp => tp <| t_chans ::= filter p |>)).
Proof.
  intros HI. apply CInv_upd_topic; [exact HI|]. intros tp Htp _. cbn. repeat split.
  - apply NoDup_map_filter, HI, Htp.
  - intros ch' Hch. apply filter_In in Hch. right. exists ch'. split; [apply Hch|apply chan_le_refl].
Qed.

Lemma CInv_filter_topics s (p : topic -> bool) :
  CInv s -> CInv (s <| s_topics ::= filter p |>).
Proof.
  intros HI. apply (CInv_sim s); cbn; auto; try apply HI.
  - apply NoDup_map_filter, HI.
  - intros tp' Htp. apply filter_In in Htp. apply HI, Htp.
  - intros tp' ch' Htp Hch. apply filter_In in Htp. right. exists tp', ch'.
    repeat split; try tauto. apply incl_refl.
  - intros kl Hkl. exists kl. auto.
Qed.

Lemma CInv_ensure_topic s t eph : CInv s -> CInv (ensure_topic s t eph).
Proof.
  intros HI. unfold ensure_topic. destruct (find_topic s t) eqn:E; [exact HI|].
  apply (CInv_sim s); cbn; auto; try apply HI.
  - apply NoDup_map_app_one; [apply HI|]. cbn. apply find_none_notin. exact E.
  - intros tp' Htp. apply in_app_iff in Htp. destruct Htp as [Htp|[<-|[]]]; [apply HI, Htp|constructor].
  - intros tp' ch' Htp Hch. apply in_app_iff in Htp. destruct Htp as [Htp|[<-|[]]]; [|destruct Hch].
    right. exists tp', ch'. repeat split; auto. apply incl_refl.
  - intros kl Hkl. exists kl. auto.
Qed.

Lemma CInv_ensure_chan s t c teph ceph : CInv s -> CInv (ensure_chan s t c teph ceph).
Proof.
  intros HI. unfold ensure_chan. apply CInv_upd_topic; [apply CInv_ensure_topic, HI|].
  intros tp Htp _. pose proof (CInv_ensure_topic s t teph HI) as HI1.
  destruct (find_chan tp c) eqn:E.
  - repeat split; [apply HI1, Htp|]. intros ch' Hch. right. exists ch'. split; [exact Hch|apply chan_le_refl].
  - cbn. repeat split.
    + apply NoDup_map_app_one; [apply HI1, Htp|]. cbn. apply find_none_notin. exact E.
    + intros ch' Hch. apply in_app_iff in Hch. destruct Hch as [Hch|[<-|[]]]; [|left; split; reflexivity].
      right. exists ch'. split; [exact Hch|apply chan_le_refl].
Qed.

(* ------------------------------------------------------------------ channel transformers that keep the skeleton *)
Lemma chan_le_trans a b c : chan_le a b -> chan_le b c -> chan_le a c.
Proof.
  intros (A1 & A2 & A3) (B1 & B2 & B3). repeat split; [congruence|eapply incl_tran; eassumption|congruence].
Qed.

Lemma chan_put_le cfg m ch : chan_le (chan_put cfg m ch) ch.
Proof. unfold chan_put. destruct (c_eph ch && _); repeat split; apply incl_refl. Qed.

Lemma chan_receive_le cfg now m ch : chan_le (chan_receive cfg now m ch) ch.
Proof.
  unfold chan_receive. destruct (m_defer m =? 0)%Z.
  - eapply chan_le_trans; [apply chan_put_le|]. repeat split; apply incl_refl.
  - repeat split; apply incl_refl.
Qed.

Lemma fold_chan_receive_le cfg now q ch :
  chan_le (fold_left (fun ch m => chan_receive cfg now m ch) q ch) ch.
Proof.
  revert ch. induction q as [|m q IH]; intros ch; cbn; [apply chan_le_refl|].
  eapply chan_le_trans; [apply IH|apply chan_receive_le].
Qed.

Lemma CInv_pump_topic cfg now s t : CInv s -> CInv (pump_topic cfg now s t).
Proof.
  intros HI. apply CInv_upd_topic_chans; [exact HI|]. intros tp. unfold pump.
  destruct (t_paused tp).
  - exists (fun ch => ch). rewrite map_id. split; [reflexivity|split; [reflexivity|intros; apply chan_le_refl]].
  - destruct (t_chans tp) as [|ch0 chs] eqn:E.
    + exists (fun ch => ch). rewrite E. split; [reflexivity|split; [reflexivity|intros; apply chan_le_refl]].
    + exists (fun ch => fold_left (fun ch m => chan_receive cfg now m ch) (t_queue tp) ch).
      cbn. rewrite E. split; [reflexivity|split; [reflexivity|intros; apply fold_chan_receive_le]].
Qed.

Lemma CInv_topic_only s t (F : topic -> topic) :
  CInv s -> (forall tp, t_id (F tp) = t_id tp /\ t_chans (F tp) = t_chans tp) -> CInv (upd_topic s t F).
Proof.
  intros HI HF. apply CInv_upd_topic_chans; [exact HI|]. intros tp. exists (fun ch => ch).
  rewrite map_id. destruct (HF tp). split; [assumption|split; [assumption|intros; apply chan_le_refl]].
Qed.

(* ------------------------------------------------------------------ clients only *)
Lemma CInv_map_clients s (G : client -> client) :
  CInv s ->
  (forall kl, k_id (G kl) = k_id kl /\ k_sub (G kl) = k_sub kl /\ k_ifl (G kl) = k_ifl kl
              /\ (k_state (G kl) = st_init -> k_state kl = st_init)) ->
  CInv (mkState (s_topics s) (map G (s_clients s))).
Proof.
  intros HI HG. apply (CInv_sim s); cbn [s_topics s_clients]; try apply HI.
  - rewrite map_map. rewrite (map_ext _ k_id); [apply HI|]. intros; apply HG.
  - intros tp' ch' Htp Hch. right. exists tp', ch'. repeat split; auto. apply incl_refl.
  - intros kl Hkl. exists (G kl). split; [apply in_map, Hkl|]. destruct (HG kl) as (A & B & C & _). auto.
  - intros kl' Hkl' Hst. apply in_map_iff in Hkl'. destruct Hkl' as [kl [<- Hkl]].
    destruct (HG kl) as (A & B & C & D). rewrite B, C. apply HI; auto.
Qed.

Lemma CInv_upd_client s k (g : client -> client) :
  CInv s ->
  (forall kl, k_id (g kl) = k_id kl /\ k_sub (g kl) = k_sub kl /\ k_ifl (g kl) = k_ifl kl
              /\ (k_state (g kl) = st_init -> k_state kl = st_init)) ->
  CInv (upd_client s k g).
Proof.
  intros HI Hg. rewrite (state_eta (upd_client s k g)).
  change (s_topics (upd_client s k g)) with (s_topics s).
  change (s_clients (upd_client s k g)) with (map (fun x => if k_id x =? k then g x else x) (s_clients s)).
  apply CInv_map_clients; [exact HI|]. intros kl. destruct (k_id kl =? k); [apply Hg|auto].
Qed.

Lemma CInv_close_clients ks s : CInv s -> CInv (close_clients ks s).
Proof.
  intros HI. rewrite (state_eta (close_clients ks s)).
  change (s_topics (close_clients ks s)) with (s_topics s).
  change (s_clients (close_clients ks s))
    with (map (fun k => if existsb (N.eqb (k_id k)) ks then k <| k_alive := false |> else k) (s_clients s)).
  apply CInv_map_clients; [exact HI|]. intros kl. destruct (existsb _ ks); auto.
Qed.

Lemma CInv_add_client s k timeout :
  CInv s -> find_client s k = None -> CInv (s <| s_clients ::= fun l => l ++ [new_client k timeout] |>).
Proof.
  intros HI E. apply (CInv_sim s); cbn; try apply HI; auto.
  - apply NoDup_map_app_one; [apply HI|]. cbn. apply find_none_notin. exact E.
  - intros tp' ch' Htp Hch. right. exists tp', ch'. repeat split; auto. apply incl_refl.
  - intros kl Hkl. exists kl. split; [apply in_app_iff; left; exact Hkl|auto].
  - intros kl' Hkl' Hst. apply in_app_iff in Hkl'. destruct Hkl' as [Hkl'|[<-|[]]]; [apply HI; auto|split; reflexivity].
Qed.

(* ------------------------------------------------------------------ counting facts *)
Lemma owned_cons k e l : owned k (e :: l) = ((if (i_cid e =? k)%N then 1 else 0) + owned k l)%Z.
Proof. unfold owned. cbn. destruct (i_cid e =? k); cbn [length]; lia. Qed.

Lemma owned_nil k : owned k [] = 0%Z.
Proof. reflexivity. Qed.

Lemma owned_app k l1 l2 : owned k (l1 ++ l2) = (owned k l1 + owned k l2)%Z.
Proof. unfold owned. rewrite filter_app, app_length. lia. Qed.

Lemma remove_ifl_spec id l e l' : remove_ifl id l = Some (e, l') ->
  In e l /\ (forall x, In x l' -> In x l) /\
  forall k, owned k l = ((if (i_cid e =? k)%N then 1 else 0) + owned k l')%Z.
Proof.
  revert e l'. induction l as [|a l IH]; intros e l'; cbn; [discriminate|].
  destruct (m_id (i_msg a) =? id).
  - intros H; inversion H; subst. split; [left; reflexivity|]. split; [intros x Hx; right; exact Hx|].
    intros k. apply owned_cons.
  - destruct (remove_ifl id l) as [[x r']|]; [|discriminate].
    intros H; inversion H; subst. destruct (IH e r' eq_refl) as (A & B & C).
    split; [right; exact A|]. split.
    + intros y [<-|Hy]; [left; reflexivity|right; apply B, Hy].
    + intros k. rewrite !owned_cons, C. lia.
Qed.

Lemma partition_owned k (p : ifl -> bool) l :
  owned k l = (owned k (fst (partition p l)) + owned k (snd (partition p l)))%Z.
Proof.
  induction l as [|a l IH]; cbn; [reflexivity|].
  destruct (partition p l) as [y n]. cbn in IH. destruct (p a); cbn; rewrite !owned_cons, IH; lia.
Qed.

(* ------------------------------------------------------------------ update where G only moves the counters *)
Section UpdateIfl.
  Variables (s : state) (t c : N) (f : chan -> chan) (tp0 : topic) (ch0 : chan) (G : client -> client).
  Hypothesis HI : CInv s.
  Hypothesis Htp0 : In tp0 (s_topics s).
  Hypothesis Et : t_id tp0 = t.
  Hypothesis Hch0 : In ch0 (t_chans tp0).
  Hypothesis Ec : c_id ch0 = c.
  Hypothesis Fid : c_id (f ch0) = c.
  Hypothesis Fcl : c_clients (f ch0) = c_clients ch0.
  Hypothesis Gkeep : forall kl, k_id (G kl) = k_id kl /\ k_sub (G kl) = k_sub kl /\ k_state (G kl) = k_state kl.
  Hypothesis Gother : forall kl, In kl (s_clients s) -> k_sub kl <> Some (t, c) -> k_ifl (G kl) = k_ifl kl.
  Hypothesis Gcount : forall kl, In kl (s_clients s) -> In (k_id kl) (c_clients ch0) -> k_sub kl = Some (t, c) ->
      k_ifl kl = owned (k_id kl) (c_ifl ch0) -> k_ifl (G kl) = owned (k_id kl) (c_ifl (f ch0)).
  Hypothesis Fown : forall e, In e (c_ifl (f ch0)) ->
      (exists e0, In e0 (c_ifl ch0) /\ i_cid e0 = i_cid e) \/
      (exists kl, In kl (s_clients s) /\ k_id kl = i_cid e /\ k_sub kl = Some (t, c)).

  Lemma CInv_update_ifl : CInv (mkState (s_topics (upd_chan s t c f)) (map G (s_clients s))).
  Proof.
    apply (CInv_update s t c f tp0 ch0 HI Htp0 Et Hch0 Ec G Fid).
    - intros kl. apply Gkeep.
    - intros kl x Hkl Es Hx. destruct (Gkeep kl) as (_ & B & _). split; [congruence|].
      apply Gother; [exact Hkl|]. rewrite Es. intros X; inversion X; contradiction.
    - intros k Hk. rewrite Fcl in Hk.
      destruct (ci_member s HI tp0 ch0 k Htp0 Hch0 Hk) as [kl (Hkl & Ek & Es & Ei)].
      rewrite Et, Ec in Es. exists kl. destruct (Gkeep kl) as (_ & B & _).
      repeat split; [exact Hkl|exact Ek|congruence|]. subst k. apply Gcount; auto.
    - intros e He. destruct (Fown e He) as [[e0 [He0 E0]]|[kl (Hkl & Ek & Es)]].
      + destruct (ci_owner s HI tp0 ch0 e0 Htp0 Hch0 He0) as [kl (Hkl & Ek & Es)].
        rewrite Et, Ec in Es. exists kl. destruct (Gkeep kl) as (_ & B & _). repeat split; [exact Hkl|congruence|congruence].
      + exists kl. destruct (Gkeep kl) as (_ & B & _). repeat split; [exact Hkl|exact Ek|congruence].
    - intros kl Hkl Hst. destruct (Gkeep kl) as (_ & B & C). rewrite C in Hst.
      destruct (ci_init s HI kl Hkl Hst) as [A1 A2]. split; [congruence|].
      rewrite Gother; [exact A2|exact Hkl|]. rewrite A1. discriminate.
  Qed.
End UpdateIfl.

(* ------------------------------------------------------------------ one consumer answers / receives on its channel *)
Lemma upd_client_eta s k g :
  upd_client s k g = mkState (s_topics s) (map (fun x => if k_id x =? k then g x else x) (s_clients s)).
Proof. destruct s; reflexivity. Qed.

Lemma upd_client_same s k : upd_client s k (fun x => x) = s.
Proof.
  rewrite upd_client_eta. rewrite (map_ext _ (fun x => x)); [rewrite map_id; destruct s; reflexivity|].
  intros x. destruct (k_id x =? k); reflexivity.
Qed.

Lemma client_is s k kl0 kl : CInv s -> find_client s k = Some kl0 -> In kl (s_clients s) -> k_id kl = k -> kl = kl0.
Proof.
  intros HI F Hkl E. apply find_client_in in F. destruct F as [H0 E0].
  apply (NoDup_map_unique k_id (s_clients s)); [apply HI|assumption|assumption|congruence].
Qed.

Lemma CInv_one_client s t c f k g kl0 ch0 (d : Z) :
  CInv s -> find_client s k = Some kl0 -> k_sub kl0 = Some (t, c) -> get_chan s t c = Some ch0 ->
  c_id (f ch0) = c_id ch0 -> c_clients (f ch0) = c_clients ch0 ->
  (forall kl, k_id (g kl) = k_id kl /\ k_sub (g kl) = k_sub kl /\ k_state (g kl) = k_state kl
              /\ k_ifl (g kl) = (k_ifl kl + d)%Z) ->
  (forall k', owned k' (c_ifl (f ch0)) = (owned k' (c_ifl ch0) + (if (k' =? k)%N then d else 0))%Z) ->
  (forall e, In e (c_ifl (f ch0)) -> (exists e0, In e0 (c_ifl ch0) /\ i_cid e0 = i_cid e) \/ i_cid e = k) ->
  CInv (upd_client (upd_chan s t c f) k g).
Proof.
  intros HI Fk Es Gc Fid Fcl Hg Hcnt Fown.
  destruct (get_chan_in s t c ch0 Gc) as (tp0 & Htp0 & Et & Hch0 & Ec).
  pose proof (find_client_in s k kl0 Fk) as [Hkl0 Ek0].
  rewrite upd_client_eta.
  change (s_clients (upd_chan s t c f)) with (s_clients s).
  apply (CInv_update_ifl s t c f tp0 ch0 _ HI Htp0 Et Hch0 Ec); try congruence.
  - intros kl. destruct (k_id kl =? k); [|auto]. destruct (Hg kl) as (A & B & C & _). auto.
  - intros kl Hkl Hs. destruct (N.eqb_spec (k_id kl) k) as [E|E]; [|reflexivity].
    rewrite (client_is s k kl0 kl HI Fk Hkl E) in Hs. contradiction.
  - intros kl Hkl Hmem Hs Hi. rewrite Hcnt. destruct (N.eqb_spec (k_id kl) k) as [E|E].
    + destruct (Hg kl) as (_ & _ & _ & D). rewrite D, Hi. reflexivity.
    + rewrite Hi. lia.
  - intros e He. destruct (Fown e He) as [H|H]; [left; exact H|right].
    exists kl0. repeat split; [exact Hkl0|congruence|exact Es].
Qed.

Lemma chan_put_skel cfg m ch :
  c_id (chan_put cfg m ch) = c_id ch /\ c_clients (chan_put cfg m ch) = c_clients ch
  /\ c_ifl (chan_put cfg m ch) = c_ifl ch.
Proof. unfold chan_put. destruct (c_eph ch && _); repeat split. Qed.

Lemma holds_spec ch k id : holds ch k id = true ->
  exists e l', remove_ifl id (c_ifl ch) = Some (e, l') /\ i_cid e = k.
Proof.
  unfold holds. destruct (remove_ifl id (c_ifl ch)) as [[e l']|]; [|discriminate].
  intros H. apply N.eqb_eq in H. exists e, l'. auto.
Qed.

Lemma answering_spec s k kl t c ch : answering s k = inl (Some (kl, t, c, ch)) ->
  find_client s k = Some kl /\ k_sub kl = Some (t, c) /\ get_chan s t c = Some ch.
Proof.
  unfold answering. destruct (find_client s k) as [kl'|]; [|discriminate].
  destruct ((k_state kl' =? st_subscribed) || (k_state kl' =? st_closing)); [|discriminate].
  destruct (k_sub kl') as [[t' c']|] eqn:E1; [|discriminate].
  destruct (get_chan s t' c') as [ch'|] eqn:E2; [|discriminate].
  intros H; inversion H; subst. auto.
Qed.

Lemma CInv_deliver cfg s k id now :
  CInv s -> CInv (fst (step cfg s (ODeliver k id now))).
Proof.
  intros HI. cbn.
  destruct (find_client s k) as [kl|] eqn:Fk; [|exact HI].
  destruct (k_sub kl) as [[t c]|] eqn:Es; [|exact HI].
  destruct (get_chan s t c) as [ch|] eqn:Gc; [|exact HI].
  destruct (deliverable s kl ch id) eqn:D; [|exact HI]. cbn [fst].
  unfold deliverable in D. apply andb_true_iff in D. destruct D as [_ D].
  destruct (remove_msg id (c_queue ch)) as [[m q']|] eqn:R; [|discriminate].
  apply (CInv_one_client s t c _ k _ kl ch 1%Z HI Fk Es Gc); unfold ch_deliver; rewrite ?R; cbn.
  - reflexivity.
  - reflexivity.
  - intros x. repeat split; try lia.
  - intros k'. rewrite owned_cons. cbn. rewrite (N.eqb_sym k k'). lia.
  - intros e [<-|He]; [right; reflexivity|left; exists e; auto].
Qed.

Lemma CInv_fin cfg s k id : CInv s -> CInv (fst (step cfg s (OFin k id))).
Proof.
  intros HI. cbn.
  destruct (answering s k) as [[[[[kl t] c] ch]|]|] eqn:A; try exact HI.
  destruct (holds ch k id) eqn:H; [|exact HI]. cbn [fst].
  apply answering_spec in A. destruct A as (Fk & Es & Gc).
  destruct (holds_spec ch k id H) as (e & l' & R & Ee).
  destruct (remove_ifl_spec id _ e l' R) as (He & Hsub & Hcnt).
  apply (CInv_one_client s t c _ k _ kl ch (-1)%Z HI Fk Es Gc); unfold ch_fin; rewrite ?R, ?Ee, ?N.eqb_refl; cbn.
  - reflexivity.
  - reflexivity.
  - intros x. repeat split; try lia.
  - intros k'. rewrite (Hcnt k'), Ee, (N.eqb_sym k k'). destruct (k' =? k); lia.
  - intros x Hx. left. exists x. split; [apply Hsub, Hx|reflexivity].
Qed.

Lemma CInv_req cfg s k id delay now : CInv s -> CInv (fst (step cfg s (OReq k id delay now))).
Proof.
  intros HI. cbn.
  destruct (answering s k) as [[[[[kl t] c] ch]|]|] eqn:A; try exact HI.
  destruct (holds ch k id) eqn:H; [|exact HI]. cbn [fst].
  apply answering_spec in A. destruct A as (Fk & Es & Gc).
  destruct (holds_spec ch k id H) as (e & l' & R & Ee).
  destruct (remove_ifl_spec id _ e l' R) as (He & Hsub & Hcnt).
  assert (Sk : c_id (ch_req cfg k id delay now ch) = c_id ch /\ c_clients (ch_req cfg k id delay now ch) = c_clients ch
               /\ c_ifl (ch_req cfg k id delay now ch) = l').
  { unfold ch_req. rewrite R, Ee, N.eqb_refl. destruct (delay =? 0)%Z.
    - destruct (chan_put_skel cfg (i_msg e) (ch <| c_ifl := l' |> <| c_requeue ::= N.succ |>)) as (A & B & C).
      rewrite A, B, C. repeat split.
    - repeat split. }
  destruct Sk as (S1 & S2 & S3).
  apply (CInv_one_client s t c _ k _ kl ch (-1)%Z HI Fk Es Gc); try assumption.
  - intros x. cbn. repeat split; try lia.
  - intros k'. rewrite S3, (Hcnt k'), Ee, (N.eqb_sym k k'). destruct (k' =? k); lia.
  - intros x Hx. rewrite S3 in Hx. left. exists x. split; [apply Hsub, Hx|reflexivity].
Qed.

Lemma CInv_touch cfg s k id now : CInv s -> CInv (fst (step cfg s (OTouch k id now))).
Proof.
  intros HI. cbn.
  destruct (answering s k) as [[[[[kl t] c] ch]|]|] eqn:A; try exact HI.
  destruct (holds ch k id) eqn:H; [|exact HI]. cbn [fst].
  apply answering_spec in A. destruct A as (Fk & Es & Gc).
  destruct (holds_spec ch k id H) as (e & l' & R & Ee).
  destruct (remove_ifl_spec id _ e l' R) as (He & Hsub & Hcnt).
  rewrite <- (upd_client_same (upd_chan s t c _) k).
  apply (CInv_one_client s t c _ k _ kl ch 0%Z HI Fk Es Gc); unfold ch_touch; rewrite ?R, ?Ee, ?N.eqb_refl; cbn.
  - reflexivity.
  - reflexivity.
  - intros x. repeat split; try lia.
  - intros k'. rewrite owned_cons. cbn. rewrite (Hcnt k'), Ee. destruct (k' =? k); lia.
  - intros x [<-|Hx]; [right; reflexivity|left; exists x; split; [apply Hsub, Hx|reflexivity]].
Qed.

(* ------------------------------------------------------------------ empty, scans *)
Lemma existsb_eqb_In x l : existsb (N.eqb x) l = true <-> In x l.
Proof.
  rewrite existsb_exists. split.
  - intros [y [Hy E]]. apply N.eqb_eq in E. subst. exact Hy.
  - intros H. exists x. split; [exact H|apply N.eqb_refl].
Qed.

Lemma member_sub s tp ch kl : CInv s -> In tp (s_topics s) -> In ch (t_chans tp) -> In kl (s_clients s) ->
  In (k_id kl) (c_clients ch) -> k_sub kl = Some (t_id tp, c_id ch).
Proof.
  intros HI Htp Hch Hkl Hm. destruct (ci_member s HI tp ch _ Htp Hch Hm) as [kl' (Hkl' & Ek & Es & _)].
  rewrite (NoDup_map_unique k_id (s_clients s) kl kl'); auto. apply HI.
Qed.

Lemma CInv_empty_chan cfg s t c : CInv s -> CInv (fst (step cfg s (OEmptyChan t c))).
Proof.
  intros HI. cbn. destruct (get_chan s t c) as [ch|] eqn:Gc; [|exact HI]. cbn [fst].
  destruct (get_chan_in s t c ch Gc) as (tp0 & Htp0 & Et & Hch0 & Ec).
  match goal with |- CInv (?s1 <| s_clients ::= map ?G |>) =>
    replace (s1 <| s_clients ::= map G |>) with (mkState (s_topics s1) (map G (s_clients s)))
      by (destruct s; reflexivity) end.
  apply (CInv_update_ifl s t c ch_empty tp0 ch _ HI Htp0 Et Hch0 Ec); try (cbn; congruence).
  - intros kl. destruct (existsb _ _); auto.
  - intros kl Hkl Hs. destruct (existsb (N.eqb (k_id kl)) (c_clients ch)) eqn:E; [|reflexivity].
    apply existsb_eqb_In in E. exfalso. apply Hs. rewrite <- Et, <- Ec. eapply member_sub; eassumption.
  - intros kl Hkl Hm _ _. apply existsb_eqb_In in Hm. rewrite Hm. reflexivity.
  - intros e [].
Qed.

Lemma fold_chan_put_skel {A} cfg (g : A -> msg) (h : chan -> chan) (ex : list A) ch :
  (forall x, c_id (h x) = c_id x /\ c_clients (h x) = c_clients x /\ c_ifl (h x) = c_ifl x) ->
  let r := fold_left (fun ch e => chan_put cfg (g e) (h ch)) ex ch in
  c_id r = c_id ch /\ c_clients r = c_clients ch /\ c_ifl r = c_ifl ch.
Proof.
  intros Hh. revert ch. induction ex as [|e ex IH]; intros ch; cbn; [auto|].
  destruct (IH (chan_put cfg (g e) (h ch))) as (A1 & A2 & A3).
  destruct (chan_put_skel cfg (g e) (h ch)) as (B1 & B2 & B3). destruct (Hh ch) as (C1 & C2 & C3).
  cbn in *. repeat split; congruence.
Qed.

Lemma scan_ifl_skel cfg now ch :
  c_id (ch_scan_ifl cfg now ch) = c_id ch /\ c_clients (ch_scan_ifl cfg now ch) = c_clients ch
  /\ c_ifl (ch_scan_ifl cfg now ch) = snd (expired_ifl now (c_ifl ch)).
Proof.
  unfold ch_scan_ifl. destruct (expired_ifl now (c_ifl ch)) as [ex keep].
  destruct (fold_chan_put_skel cfg i_msg (fun ch => ch <| c_timeout ::= N.succ |>) ex (ch <| c_ifl := keep |>)) as (A & B & C).
  { intros x. repeat split. }
  cbn in *. repeat split; assumption.
Qed.

Lemma scan_dfr_le cfg now ch : chan_le (ch_scan_dfr cfg now ch) ch.
Proof.
  unfold ch_scan_dfr. destruct (expired_dfr now (c_dfr ch)) as [ex keep].
  destruct (fold_chan_put_skel cfg d_msg (fun ch => ch) ex (ch <| c_dfr := keep |>)) as (A & B & C).
  { intros x. repeat split. }
  cbn in *. repeat split; [congruence|rewrite B; apply incl_refl|congruence].
Qed.

Lemma fold_dec_eta ks (ex : list ifl) s1 :
  fold_left (fun s e => dec_ifl ks (i_cid e) s) ex s1 =
  mkState (s_topics s1)
          (map (fun kl => if existsb (N.eqb (k_id kl)) ks
                          then kl <| k_ifl ::= fun x => (x - owned (k_id kl) ex)%Z |> else kl) (s_clients s1)).
Proof.
  revert s1. induction ex as [|e ex IH]; intros s1; cbn [fold_left].
  - rewrite (map_ext _ (fun x => x)); [rewrite map_id; destruct s1; reflexivity|].
    intros kl. destruct (existsb _ _); [|reflexivity]. destruct kl; unfold set; cbn -[Z.add Z.sub owned]. f_equal. rewrite owned_nil. lia.
  - rewrite IH. unfold dec_ifl. destruct (existsb (N.eqb (i_cid e)) ks) eqn:E.
    + rewrite upd_client_eta. cbn [s_topics s_clients]. f_equal. rewrite map_map. apply map_ext. intros kl.
      destruct (N.eqb_spec (k_id kl) (i_cid e)) as [Q|Q].
      * cbn [k_id]. replace (k_id (kl <| k_ifl ::= fun x => (x - 1)%Z |>)) with (k_id kl) by reflexivity.
        rewrite Q, E. rewrite owned_cons, N.eqb_refl. destruct kl; unfold set; cbn -[Z.add Z.sub owned]. f_equal. lia.
      * destruct (existsb (N.eqb (k_id kl)) ks); [|reflexivity].
        rewrite owned_cons. apply N.eqb_neq in Q. rewrite (N.eqb_sym (i_cid e)), Q. destruct kl; unfold set; cbn -[Z.add Z.sub owned]. f_equal.
    + f_equal. apply map_ext. intros kl. destruct (existsb (N.eqb (k_id kl)) ks) eqn:E2; [|reflexivity].
      rewrite owned_cons. destruct (N.eqb_spec (i_cid e) (k_id kl)) as [Q|Q]; [rewrite Q in E; congruence|].
      destruct kl; unfold set; cbn -[Z.add Z.sub owned]. f_equal.
Qed.

Lemma CInv_scan_ifl cfg s t c now : CInv s -> CInv (fst (step cfg s (OScanInFlight t c now))).
Proof.
  intros HI. cbn. destruct (get_chan s t c) as [ch|] eqn:Gc; [|exact HI]. cbn [fst].
  destruct (get_chan_in s t c ch Gc) as (tp0 & Htp0 & Et & Hch0 & Ec).
  rewrite fold_dec_eta. change (s_clients (upd_chan s t c (ch_scan_ifl cfg now))) with (s_clients s).
  destruct (scan_ifl_skel cfg now ch) as (S1 & S2 & S3).
  apply (CInv_update_ifl s t c (ch_scan_ifl cfg now) tp0 ch _ HI Htp0 Et Hch0 Ec); try congruence.
  - intros kl. destruct (existsb _ _); auto.
  - intros kl Hkl Hs. destruct (existsb (N.eqb (k_id kl)) (c_clients ch)) eqn:E; [|reflexivity].
    apply existsb_eqb_In in E. exfalso. apply Hs. rewrite <- Et, <- Ec. eapply member_sub; eassumption.
  - intros kl Hkl Hm _ Hi. apply existsb_eqb_In in Hm. rewrite Hm. cbn. rewrite S3, Hi.
    unfold expired_ifl. rewrite (partition_owned (k_id kl) (fun e => (i_deadline e <=? now)%Z) (c_ifl ch)). lia.
  - intros e He. rewrite S3 in He. left. exists e. split; [|reflexivity].
    unfold expired_ifl in He. destruct (partition _ (c_ifl ch)) as [y n] eqn:P.
    apply (elements_in_partition _ _ P). right. exact He.
Qed.

(* ------------------------------------------------------------------ SUB *)
Lemma ensure_topic_has s t eph : exists tp, In tp (s_topics (ensure_topic s t eph)) /\ t_id tp = t.
Proof.
  unfold ensure_topic. destruct (find_topic s t) as [tp|] eqn:E.
  - exists tp. apply find_topic_in, E.
  - exists (new_topic t eph). cbn. split; [apply in_app_iff; right; left; reflexivity|reflexivity].
Qed.

Lemma ensure_chan_has s t c teph ceph :
  exists tp ch, In tp (s_topics (ensure_chan s t c teph ceph)) /\ t_id tp = t /\ In ch (t_chans tp) /\ c_id ch = c.
Proof.
  unfold ensure_chan. destruct (ensure_topic_has s t teph) as [tp [Htp Et]].
  set (F := fun tp0 : topic => match find_chan tp0 c with Some _ => tp0 | None => tp0 <| t_chans ::= fun l => l ++ [new_chan c ceph] |> end).
  exists (F tp). 
  assert (HF : In (F tp) (s_topics (upd_topic (ensure_topic s t teph) t F))).
  { change (s_topics (upd_topic (ensure_topic s t teph) t F))
      with (map (fun x => if t_id x =? t then F x else x) (s_topics (ensure_topic s t teph))).
    apply in_map_iff. exists tp. rewrite Et, N.eqb_refl. auto. }
  unfold F in *. destruct (find_chan tp c) as [ch|] eqn:E.
  - exists ch. apply find_chan_in in E. tauto.
  - exists (new_chan c ceph). cbn. repeat split; auto. apply in_app_iff. right. left. reflexivity.
Qed.

Lemma owned_zero k l : (forall e, In e l -> i_cid e <> k) -> owned k l = 0%Z.
Proof.
  induction l as [|e l IH]; intros H; [reflexivity|]. rewrite owned_cons, IH.
  - assert (i_cid e <> k) by (apply H; left; reflexivity). apply N.eqb_neq in H0. rewrite H0. reflexivity.
  - intros x Hx. apply H. right. exact Hx.
Qed.

Lemma CInv_sub_member s t c k kl0 :
  CInv s -> find_client s k = Some kl0 -> k_state kl0 = st_init ->
  (exists tp ch, In tp (s_topics s) /\ t_id tp = t /\ In ch (t_chans tp) /\ c_id ch = c) ->
  CInv (upd_client (upd_chan s t c (fun ch => ch <| c_clients ::= fun l => l ++ [k] |>)) k
                   (fun x => x <| k_state := st_subscribed |> <| k_sub := Some (t, c) |>)).
Proof.
  intros HI Fk Hst (tp0 & ch0 & Htp0 & Et & Hch0 & Ec).
  pose proof (find_client_in s k kl0 Fk) as [Hkl0 Ek0].
  destruct (ci_init s HI kl0 Hkl0 Hst) as [Sn In0].
  assert (Hne : forall kl, In kl (s_clients s) -> k_sub kl <> None -> (k_id kl =? k) = false).
  { intros kl Hkl Hs. apply N.eqb_neq. intros E. rewrite (client_is s k kl0 kl HI Fk Hkl E) in Hs. contradiction. }
  rewrite upd_client_eta. change (s_clients (upd_chan s t c _)) with (s_clients s).
  apply (CInv_update s t c _ tp0 ch0 HI Htp0 Et Hch0 Ec).
  - cbn. exact Ec.
  - intros kl. destruct (k_id kl =? k); reflexivity.
  - intros kl x Hkl Es _. rewrite (Hne kl Hkl); [auto|]. rewrite Es. discriminate.
  - intros k' Hk'. cbn in Hk'. apply in_app_iff in Hk'. destruct Hk' as [Hk'|[<-|[]]].
    + destruct (ci_member s HI tp0 ch0 k' Htp0 Hch0 Hk') as [kl (Hkl & Ek & Es & Ei)].
      exists kl. rewrite (Hne kl Hkl); [|rewrite Es; discriminate]. rewrite Et, Ec in Es. cbn. auto.
    + exists kl0. rewrite Ek0, N.eqb_refl. cbn. repeat split; auto. rewrite In0. symmetry. apply owned_zero.
      intros e He E. destruct (ci_owner s HI tp0 ch0 e Htp0 Hch0 He) as [kl (Hkl & Ek & Es)].
      assert (X : (k_id kl =? k) = false) by (apply Hne; [exact Hkl|rewrite Es; discriminate]).
      apply N.eqb_neq in X. congruence.
  - intros e He. cbn in He. destruct (ci_owner s HI tp0 ch0 e Htp0 Hch0 He) as [kl (Hkl & Ek & Es)].
    exists kl. rewrite (Hne kl Hkl); [|rewrite Es; discriminate]. rewrite Et, Ec in Es. auto.
  - intros kl Hkl. destruct (k_id kl =? k); cbn; [discriminate|]. apply HI, Hkl.
Qed.

Lemma CInv_sub cfg s k t c teph ceph now : CInv s -> CInv (fst (step cfg s (OSub k t c teph ceph now))).
Proof.
  intros HI. cbn. destruct (find_client s k) as [kl|] eqn:Fk; [|exact HI].
  destruct ((k_state kl =? st_init) && k_alive kl) eqn:D; [|exact HI]. cbn [fst].
  apply andb_true_iff in D. destruct D as [D _]. apply N.eqb_eq in D.
  apply CInv_pump_topic. apply (CInv_sub_member _ t c k kl).
  - apply CInv_ensure_chan, HI.
  - replace (find_client (ensure_chan s t c teph ceph) k) with (find_client s k); [exact Fk|].
    unfold find_client, ensure_chan, ensure_topic. destruct (find_topic s t); reflexivity.
  - exact D.
  - apply ensure_chan_has.
Qed.

(* ------------------------------------------------------------------ disconnect, deletions *)
Lemma CInv_unsubscribe kl s : CInv s -> CInv (unsubscribe kl s).
Proof.
  intros HI. unfold unsubscribe. destruct (k_sub kl) as [[t c]|]; [|exact HI].
  apply CInv_filter_topics. apply CInv_filter_chans. apply CInv_upd_chan_le; [exact HI|].
  intros ch. repeat split. cbn. intros x Hx. apply filter_In in Hx. apply Hx.
Qed.

Lemma topic_put_id cfg m tp : t_id (topic_put cfg m tp) = t_id tp.
Proof.
  unfold topic_put. destruct (pump_runs tp); [reflexivity|].
  destruct (t_mem tp <? memcap cfg); [reflexivity|]. destruct (t_eph tp); reflexivity.
Qed.

Lemma fold_topic_put_id cfg defer ids tp :
  t_id (fold_left (fun tp id => topic_put cfg (mkMsg id 0 defer) tp) ids tp) = t_id tp.
Proof.
  revert tp. induction ids as [|i ids IH]; intros tp; cbn; [reflexivity|]. rewrite IH. apply topic_put_id.
Qed.

Theorem step_CInv cfg s o : CInv s -> CInv (fst (step cfg s o)).
Proof.
  intros HI. destruct o.
  - (* OCreateTopic *) cbn. apply CInv_ensure_topic, HI.
  - (* OCreateChan *) cbn. destruct (find_topic s t); cbn [fst]; [|exact HI].
    apply CInv_pump_topic, CInv_ensure_chan, HI.
  - (* OPub *) cbn. apply CInv_pump_topic. apply CInv_topic_only; [apply CInv_ensure_topic, HI|].
    intros tp. cbn. split; [apply fold_topic_put_id|apply fold_topic_put_chans].
  - (* OConnect *) cbn. destruct (find_client s k) eqn:E; cbn [fst]; [exact HI|]. apply CInv_add_client; assumption.
  - apply CInv_sub, HI.
  - (* ORdy *) cbn. destruct (find_client s k) as [kl|]; [|exact HI].
    destruct (k_state kl =? st_closing); [exact HI|]. destruct (k_state kl =? st_subscribed); [|exact HI].
    cbn [fst]. apply CInv_upd_client; [exact HI|]. intros x. cbn. auto.
  - apply CInv_deliver, HI.
  - apply CInv_fin, HI.
  - apply CInv_req, HI.
  - apply CInv_touch, HI.
  - (* OCls *) cbn. destruct (find_client s k) as [kl|]; [|exact HI].
    destruct (k_state kl =? st_subscribed); [|exact HI].
    cbn [fst]. apply CInv_upd_client; [exact HI|]. intros x. cbn. repeat split. discriminate.
  - (* ODisconnect *) cbn. destruct (find_client s k) as [kl|]; [|exact HI]. cbn [fst].
    apply CInv_upd_client; [apply CInv_unsubscribe, HI|]. intros x. cbn. auto.
  - (* OPauseChan *) cbn. destruct (get_chan s t c); [|exact HI]. cbn [fst].
    apply CInv_upd_chan_le; [exact HI|]. intros ch. repeat split. apply incl_refl.
  - (* OPauseTopic *) cbn. destruct (find_topic s t); [|exact HI]. cbn [fst].
    apply CInv_pump_topic. apply CInv_topic_only; [exact HI|]. intros tp. split; reflexivity.
  - apply CInv_empty_chan, HI.
  - (* OEmptyTopic *) cbn. destruct (find_topic s t); [|exact HI]. cbn [fst].
    apply CInv_topic_only; [exact HI|]. intros tp. split; reflexivity.
  - (* ODeleteChan *) cbn. destruct (find_topic s t) as [tp|]; [|exact HI].
    destruct (find_chan tp c) as [ch|]; [|exact HI]. cbn [fst].
    apply CInv_filter_topics. apply CInv_filter_chans. apply CInv_close_clients, HI.
  - (* ODeleteTopic *) cbn. destruct (find_topic s t) as [tp|]; [|exact HI]. cbn [fst].
    apply CInv_filter_topics. apply CInv_close_clients, HI.
  - apply CInv_scan_ifl, HI.
  - (* OScanDeferred *) cbn. destruct (get_chan s t c); [|exact HI]. cbn [fst].
    apply CInv_upd_chan_le; [exact HI|]. intros ch. apply scan_dfr_le.
Qed.

Lemma CInv_init : CInv init.
Proof. constructor; cbn; try constructor; intros; contradiction. Qed.

Theorem run_CInv cfg ops : CInv (run cfg init ops).
Proof.
  unfold run. generalize CInv_init. generalize init. induction ops as [|o ops IH]; intros s HI; cbn; [exact HI|].
  apply IH. apply step_CInv, HI.
Qed.

(* the statement users care about: the counter the RDY comparison reads is exact *)
Theorem counter_exact cfg ops tp ch kl :
  let s := run cfg init ops in
  In tp (s_topics s) -> In ch (t_chans tp) -> In kl (s_clients s) -> In (k_id kl) (c_clients ch) ->
  k_ifl kl = owned (k_id kl) (c_ifl ch) /\ k_sub kl = Some (t_id tp, c_id ch).
Proof.
  intros s Htp Hch Hkl Hm. pose proof (run_CInv cfg ops) as HI. fold s in HI.
  destruct (ci_member s HI tp ch _ Htp Hch Hm) as [kl' (Hkl' & Ek & Es & Ei)].
  assert (X : kl = kl') by (apply (NoDup_map_unique k_id (s_clients s)); [apply HI|assumption|assumption|congruence]).
  subst kl'. split; assumption.
Qed.

(* the RDY comparison therefore bounds the REAL number of unanswered, unexpired messages the
   consumer holds: at every delivery in every history, the in-flight entries it owns are
   strictly fewer than its RDY count *)
Theorem delivery_true_window cfg ops k id now att :
  let s := run cfg init ops in
  snd (step cfg s (ODeliver k id now)) = RDelivered att ->
  exists kl t c ch, find_client s k = Some kl /\ k_sub kl = Some (t, c) /\ get_chan s t c = Some ch /\
                    (owned k (c_ifl ch) < k_rdy kl)%Z.
Proof.
  intros s. pose proof (run_CInv cfg ops) as HI. fold s in HI. cbn [step].
  destruct (find_client s k) as [kl|] eqn:Fk; [|discriminate].
  destruct (k_sub kl) as [[t c]|] eqn:Es; [|discriminate].
  destruct (get_chan s t c) as [ch|] eqn:Gc; [|discriminate].
  destruct (deliverable s kl ch id) eqn:D; [|discriminate]. intros _.
  exists kl, t, c, ch. repeat split; auto.
  unfold deliverable in D. repeat (apply andb_true_iff in D; destruct D as [D ?]).
  destruct (get_chan_in s t c ch Gc) as (tp0 & Htp0 & Et & Hch0 & Ec).
  destruct (find_client_in s k kl Fk) as [Hkl Ek].
  match goal with H : existsb _ _ = true |- _ => apply existsb_eqb_In in H; rename H into Hm end.
  destruct (ci_member s HI tp0 ch _ Htp0 Hch0 Hm) as [kl' (Hkl' & Ek' & _ & Ei)].
  assert (X : kl' = kl) by (apply (NoDup_map_unique k_id (s_clients s)); [apply HI|assumption|assumption|congruence]).
  subst kl'. rewrite Ek in Ei. rewrite <- Ei. lia.
Qed.

Theorem counter_nonneg cfg ops tp ch kl :
  let s := run cfg init ops in
  In tp (s_topics s) -> In ch (t_chans tp) -> In kl (s_clients s) -> In (k_id kl) (c_clients ch) ->
  (0 <= k_ifl kl)%Z.
Proof.
  intros s Htp Hch Hkl Hm. destruct (counter_exact cfg ops tp ch kl Htp Hch Hkl Hm) as [E _].
  fold s in E. rewrite E. unfold owned. lia.
Qed.

(* ------------------------------------------------------------------ connected and subscribed => attached *)
(* Every consumer that is connected (alive) and subscribed is attached to its channel, so
   counter_exact applies to every connected subscribed consumer.  (Deleting a channel or a
   topic closes its consumers; an ephemeral channel only goes with its last consumer.) *)
Definition Attached (s : state) (k t c : N) : Prop :=
  exists tp ch, In tp (s_topics s) /\ t_id tp = t /\ In ch (t_chans tp) /\ c_id ch = c /\ In k (c_clients ch).

Definition AliveSub (s : state) : Prop :=
  forall kl t c, In kl (s_clients s) -> k_alive kl = true -> k_sub kl = Some (t, c) -> Attached s (k_id kl) t c.

(* attachments survive a per-channel map that keeps ids and members *)
Lemma Attached_upd_topic_chans s t0 (F : topic -> topic) k t c :
  (forall tp, exists g : chan -> chan, t_id (F tp) = t_id tp /\ t_chans (F tp) = map g (t_chans tp)
                                     /\ forall ch, c_id (g ch) = c_id ch /\ incl (c_clients ch) (c_clients (g ch))) ->
  Attached s k t c -> Attached (upd_topic s t0 F) k t c.
Proof.
  intros HF (tp & ch & Htp & Et & Hch & Ec & Hk).
  destruct (HF tp) as (g & E1 & E2 & Hg).
  destruct (N.eqb_spec (t_id tp) t0) as [Q|Q].
  - exists (F tp), (g ch). repeat split.
    + change (s_topics (upd_topic s t0 F)) with (map (fun x => if t_id x =? t0 then F x else x) (s_topics s)).
      apply in_map_iff. exists tp. rewrite Q, N.eqb_refl. auto.
    + congruence.
    + rewrite E2. apply in_map, Hch.
    + destruct (Hg ch) as [A _]. congruence.
    + destruct (Hg ch) as [_ B]. apply B, Hk.
  - exists tp, ch. repeat split; auto.
    change (s_topics (upd_topic s t0 F)) with (map (fun x => if t_id x =? t0 then F x else x) (s_topics s)).
    apply in_map_iff. exists tp. apply N.eqb_neq in Q. rewrite Q. auto.
Qed.

Lemma Attached_upd_chan s t0 c0 f k t c :
  (forall ch, c_id (f ch) = c_id ch /\ incl (c_clients ch) (c_clients (f ch))) ->
  Attached s k t c -> Attached (upd_chan s t0 c0 f) k t c.
Proof.
  intros Hf. apply Attached_upd_topic_chans. intros tp.
  exists (fun x => if c_id x =? c0 then f x else x). split; [reflexivity|split; [reflexivity|]].
  intros ch. destruct (c_id ch =? c0); [apply Hf|split; [reflexivity|apply incl_refl]].
Qed.

Lemma Attached_pump_topic cfg now s t0 k t c : Attached s k t c -> Attached (pump_topic cfg now s t0) k t c.
Proof.
  apply Attached_upd_topic_chans. intros tp. unfold pump. destruct (t_paused tp).
  - exists (fun ch => ch). rewrite map_id. split; [reflexivity|split; [reflexivity|]]. intros; split; [reflexivity|apply incl_refl].
  - destruct (t_chans tp) as [|ch0 chs] eqn:E.
    + exists (fun ch => ch). rewrite E. split; [reflexivity|split; [reflexivity|]]. intros; split; [reflexivity|apply incl_refl].
    + exists (fun ch => fold_left (fun ch m => chan_receive cfg now m ch) (t_queue tp) ch). cbn. rewrite E.
      split; [reflexivity|split; [reflexivity|]]. intros ch.
      destruct (fold_chan_receive_le cfg now (t_queue tp) ch) as (A & B & _).
      split; [congruence|]. 
      (* chan_receive keeps the members exactly *)
      clear. revert ch. induction (t_queue tp) as [|m q IH]; intros ch; cbn; [apply incl_refl|].
      eapply incl_tran; [|apply IH]. unfold chan_receive, chan_put.
      destruct (m_defer m =? 0)%Z; [destruct (c_eph _ && _)|]; cbn; apply incl_refl.
Qed.

Lemma Attached_topic_only s t0 (F : topic -> topic) k t c :
  (forall tp, t_id (F tp) = t_id tp /\ t_chans (F tp) = t_chans tp) ->
  Attached s k t c -> Attached (upd_topic s t0 F) k t c.
Proof.
  intros HF. apply Attached_upd_topic_chans. intros tp. exists (fun ch => ch). rewrite map_id.
  destruct (HF tp). split; [assumption|split; [assumption|]]. intros; split; [reflexivity|apply incl_refl].
Qed.

Lemma Attached_clients s l k t c : Attached (s <| s_clients := l |>) k t c <-> Attached s k t c.
Proof. unfold Attached. destruct s; cbn. reflexivity. Qed.

Lemma Attached_same_topics s s' k t c : s_topics s' = s_topics s -> Attached s k t c -> Attached s' k t c.
Proof. intros E (tp & ch & H). exists tp, ch. rewrite E. exact H. Qed.

Lemma Attached_ensure_topic s t0 eph k t c : Attached s k t c -> Attached (ensure_topic s t0 eph) k t c.
Proof.
  intros (tp & ch & Htp & H). unfold ensure_topic. destruct (find_topic s t0); [exists tp, ch; auto|].
  exists tp, ch. split; [cbn; apply in_app_iff; left; exact Htp|exact H].
Qed.

Lemma Attached_ensure_chan s t0 c0 teph ceph k t c : Attached s k t c -> Attached (ensure_chan s t0 c0 teph ceph) k t c.
Proof.
  intros H. apply (Attached_ensure_topic s t0 teph) in H. unfold ensure_chan.
  destruct H as (tp & ch & Htp & Et & Hch & Ec & Hk).
  set (F := fun tp0 : topic => match find_chan tp0 c0 with Some _ => tp0 | None => tp0 <| t_chans ::= fun l => l ++ [new_chan c0 ceph] |> end).
  exists (if t_id tp =? t0 then F tp else tp), ch. repeat split; auto.
  - change (s_topics (upd_topic (ensure_topic s t0 teph) t0 F))
      with (map (fun x => if t_id x =? t0 then F x else x) (s_topics (ensure_topic s t0 teph))).
    apply in_map_iff. exists tp. auto.
  - destruct (t_id tp =? t0); [|exact Et]. unfold F. destruct (find_chan tp c0); exact Et.
  - destruct (t_id tp =? t0); [|exact Hch]. unfold F. destruct (find_chan tp c0); [exact Hch|].
    cbn. apply in_app_iff. left. exact Hch.
Qed.
