(* C16 — the data path: pre-creation of lookupd-known channels before Start
   (C16_precreate), independence of publish / pump from the lookup loop and from every
   nsqlookupd fault (C16_publish_independent), and the bound on parked Notify
   goroutines. *)
From Coq Require Import List NArith ZArith Bool Lia Arith.
From RecordUpdate Require Import RecordUpdate.
From NSQV Require Import gen.Consts gen.SyncTab model.Judge model.Sync
  proofs.SyncBase proofs.SyncInv proofs.SyncLoop.
Import ListNotations.
Open Scope nat_scope.
Open Scope bool_scope.

(* ------------------------------------------------------------------ loop and fault operations never touch the data path *)
Lemma loop_step_data c s o s' : loop_step c s o = Run s' -> objs s' = objs s /\ dats s' = dats s.
Proof.
  unfold loop_step. destruct o; try (intros H; inversion H; subst; auto; fail).
  - destruct (nth_error (bag s) i); [|intros H; inversion H; subst; auto].
    match goal with |- context [on_links ?f 0 ?ls] => destruct (on_links f 0 ls) end;
      intros H; inversion H; subst; auto.
  - match goal with |- context [on_links ?f 0 ?ls] => destruct (on_links f 0 ls) end;
      intros H; inversion H; subst; auto.
  - match goal with |- context [on_links ?f 0 ?ls] => destruct (on_links f 0 ls) end;
      intros H; inversion H; subst; auto.
Qed.

Lemma fault_step_data s o : objs (fault_step s o) = objs s /\ dats (fault_step s o) = dats s /\ bag (fault_step s o) = bag s.
Proof. destruct o; cbn; auto. Qed.

Theorem lookup_side_cannot_touch_data c s o s' :
  is_loop_op o || is_fault_op o = true -> step c s o = Run s' ->
  objs s' = objs s /\ dats s' = dats s.
Proof.
  intros H X. unfold step in X. destruct (is_loop_op o).
  - eapply loop_step_data; eauto.
  - cbn in H. rewrite H in X. inversion X; subst. pose proof (fault_step_data s o). tauto.
Qed.

(* ------------------------------------------------------------------ data operations do not look at the bag, and at the links only through the channel query *)
Definition deq (x y : dstate) : Prop := x_objs x = x_objs y /\ x_dats x = x_dats y.

Lemma deq_set_exit i x y : deq x y -> deq (set_exit i x) (set_exit i y).
Proof. intros [A B]. unfold deq, set_exit; cbn. rewrite A, B. auto. Qed.
Lemma deq_set_unmap i x y : deq x y -> deq (set_unmap i x) (set_unmap i y).
Proof. intros [A B]. unfold deq, set_unmap; cbn. rewrite A, B. auto. Qed.
Lemma deq_set_dat i f x y : deq x y -> deq (set_dat i f x) (set_dat i f y).
Proof. intros [A B]. unfold deq, set_dat; cbn. rewrite A, B. auto. Qed.
Lemma deq_add_obj o d x y : deq x y -> deq (add_obj o d x) (add_obj o d y).
Proof. intros [A B]. unfold deq, add_obj; cbn. rewrite A, B. auto. Qed.
Lemma deq_get_channel p c x y : deq x y -> deq (get_channel p c x) (get_channel p c y).
Proof.
  intros H. pose proof H as [A B]. unfold get_channel. rewrite A.
  destruct (find_chan (x_objs y) p c); auto. apply deq_add_obj; auto.
Qed.
Lemma deq_drop_chans js : forall x y, deq x y -> deq (drop_chans js x) (drop_chans js y).
Proof.
  induction js as [|j r IH]; intros x y H; cbn; auto.
  apply IH. apply deq_set_unmap. pose proof H as [A B]. rewrite A.
  destruct (o_exit (getO (x_objs y) j)); auto. apply deq_set_exit; auto.
Qed.

Lemma data_step_deq c ls1 ls2 o x y :
  (forall t, query c ls1 t = query c ls2 t) -> deq x y ->
  deq (data_step c ls1 o x) (data_step c ls2 o y).
Proof.
  intros Q H. pose proof H as [A B].
  destruct o; cbn [data_step]; auto; rewrite ?A.
  - destruct (find_topic (x_objs y) t); auto. apply deq_add_obj; auto.
  - unfold topic_advance. rewrite A, B. destruct (find_topic (x_objs y) t) as [i|]; auto.
    destruct (d_pc (getD (x_dats y) i)) as [|[|n]]; auto.
    + rewrite Q. apply deq_set_dat; auto.
    + destruct (d_todo (getD (x_dats y) i)).
      * apply deq_set_dat; auto.
      * apply deq_set_dat. apply deq_get_channel; auto.
  - destruct (find_topic (x_objs y) t); auto. apply deq_get_channel; auto.
  - destruct (find_topic (x_objs y) t) as [i|]; auto.
    destruct (find_chan (x_objs y) i c0) as [j|]; auto.
    destruct (o_exit (getO (x_objs y) j)); auto. apply deq_set_exit; auto.
  - destruct (find_topic (x_objs y) t) as [i|]; auto.
    destruct (find_chan (x_objs y) i c0) as [j|]; auto.
    destruct (o_exit (getO (x_objs y) j)); auto. apply deq_set_unmap; auto.
  - destruct (find_topic (x_objs y) t) as [i|]; auto.
    destruct (o_exit (getO (x_objs y) i)); auto. apply deq_set_exit; auto.
  - destruct (find_topic (x_objs y) t) as [i|]; auto.
    destruct (o_exit (getO (x_objs y) i)); auto. apply deq_set_unmap. apply deq_drop_chans; auto.
  - destruct (find_topic (x_objs y) t) as [i|]; auto.
    destruct (o_exit (getO (x_objs y) i)); auto. apply deq_set_dat; auto.
  - destruct (find_topic (x_objs y) t) as [i|]; auto. rewrite B.
    destruct (d_started (getD (x_dats y) i) && negb (o_exit (getO (x_objs y) i))); auto.
    destruct (chans_of (x_objs y) i) as [|j0 js]; auto.
    destruct (d_q (getD (x_dats y) i)) as [|m q]; auto.
    assert (F : forall js0 x0 y0, deq x0 y0 ->
       deq (fold_left (fun acc j => set_dat j (fun d => d <| d_q ::= (fun z => z ++ [m]) |>) acc) js0 x0)
           (fold_left (fun acc j => set_dat j (fun d => d <| d_q ::= (fun z => z ++ [m]) |>) acc) js0 y0)).
    { induction js0; intros; cbn; auto. apply IHjs0. apply deq_set_dat; auto. }
    apply F. apply deq_set_dat; auto.
Qed.

Lemma data_step_no_ls c ls1 ls2 o x :
  match o with TopicAdvance _ => false | _ => true end = true ->
  data_step c ls1 o x = data_step c ls2 o x.
Proof. destruct o; try discriminate; reflexivity. Qed.

Definition no_advance (os : list op) : bool :=
  forallb (fun o => match o with TopicAdvance _ => false | _ => true end) os.
Definition is_data_op (o : op) : bool := negb (is_loop_op o || is_fault_op o).

(* publishes, pumps, creations and deletions give the same topics, channels and queues
   whatever the lookup loop does and whatever the nsqlookupds do in between *)
Theorem publish_independent c : forall os s1 s2 s1' s2',
  no_advance os = true ->
  objs s1 = objs s2 -> dats s1 = dats s2 ->
  run c (Run s1) os = Run s1' ->
  run c (Run s2) (filter is_data_op os) = Run s2' ->
  objs s1' = objs s2' /\ dats s1' = dats s2'.
Proof.
  induction os as [|o r IH]; intros s1 s2 s1' s2' NA E1 E2 X1 X2.
  - inversion X1; inversion X2; subst; auto.
  - cbn [no_advance forallb] in NA. apply andb_true_iff in NA. destruct NA as [NA1 NA2].
    rewrite run_cons in X1. cbn [filter] in X2.
    destruct (step c s1 o) as [t1|] eqn:S1; [|rewrite run_crashed in X1; discriminate].
    unfold is_data_op in X2 at 1.
    destruct (is_loop_op o || is_fault_op o) eqn:LF; cbn [negb] in X2.
    + destruct (lookup_side_cannot_touch_data c s1 o t1 LF S1) as [A B].
      apply (IH t1 s2 s1' s2'); auto; congruence.
    + rewrite run_cons in X2.
      destruct (step c s2 o) as [t2|] eqn:S2; [|rewrite run_crashed in X2; discriminate].
      apply orb_false_iff in LF. destruct LF as [L F].
      unfold step in S1, S2. rewrite L, F in S1, S2. inversion S1; inversion S2; subst; clear S1 S2.
      assert (D : deq (data_step c (links s1) o (mkDs (objs s1) (dats s1) (bag s1)))
                      (data_step c (links s2) o (mkDs (objs s2) (dats s2) (bag s2)))).
      { rewrite (data_step_no_ls c (links s2) (links s1)) by auto.
        apply data_step_deq; [reflexivity|split; auto]. }
      destruct D as [D1 D2].
      eapply IH; [exact NA2| | |exact X1|exact X2]; cbn; auto.
Qed.

(* ------------------------------------------------------------------ GetTopic's pre-creation *)
Lemma getD_upd d i x j : getD (upd d i x) j = if (j =? i) && (i <? length d) then x else getD d j.
Proof. apply nth_upd. Qed.

Lemma getD_app_new d x j :
  getD (d ++ [x]) j = if j <? length d then getD d j else if j =? length d then x else ddflt.
Proof.
  unfold getD. destruct (Nat.ltb_spec j (length d)).
  - apply app_nth1; auto.
  - rewrite app_nth2 by lia. destruct (Nat.eqb_spec j (length d)).
    + subst. rewrite Nat.sub_diag. reflexivity.
    + destruct (j - length d) as [|[|k]] eqn:E; try lia; reflexivity.
Qed.

Definition QI (l : list obj) (d : list dat) : Prop :=
  length d = length l /\
  (forall i, d_pc (getD d i) < 2 -> d_started (getD d i) = false) /\
  (forall i j, o_parent (getO l j) = Some i -> d_started (getD d i) = false -> d_q (getD d j) = []) /\
  (forall i c, 1 <= d_pc (getD d i) -> In c (d_want (getD d i)) ->
      In c (d_todo (getD d i)) \/ exists j, o_parent (getO l j) = Some i /\ o_c (getO l j) = c) /\
  (forall i, 2 <= d_pc (getD d i) -> d_todo (getD d i) = []).

Definition QX (x : dstate) : Prop := QI (x_objs x) (x_dats x).

Lemma QI_objs_fields l l' d :
  length l' = length l ->
  (forall j, o_parent (getO l' j) = o_parent (getO l j)) ->
  (forall j, o_c (getO l' j) = o_c (getO l j)) ->
  QI l d -> QI l' d.
Proof.
  intros L Pf Cf (Q0 & Q1 & Q2 & Q3 & Q5). split; [congruence|]. split; auto. split; [|split; auto].
  - intros i j H. rewrite Pf in H. eauto.
  - intros i c H1 H2. destruct (Q3 i c H1 H2) as [A|(j & A & B)]; auto.
    right. exists j. rewrite Pf, Cf. auto.
Qed.

Lemma QX_set_exit i x : QX x -> QX (set_exit i x).
Proof. unfold QX, set_exit; cbn. apply QI_objs_fields. apply ex_len. apply ex_parent. apply ex_c. Qed.
Lemma QX_set_unmap i x : QX x -> QX (set_unmap i x).
Proof. unfold QX, set_unmap; cbn. apply QI_objs_fields. apply um_len. apply um_parent. apply um_c. Qed.

Lemma QX_add o d x :
  WF (x_objs x) (x_bag x) ->
  (forall p, o_parent o = Some p -> p < length (x_objs x)) ->
  d_started d = false -> d_q d = [] -> d_want d = [] -> d_todo d = [] ->
  QX x -> QX (add_obj o d x).
Proof.
  intros W Hp D1 D2 D3 D4 (Q0 & Q1 & Q2 & Q3 & Q5). unfold QX, add_obj; cbn.
  destruct W as (_ & _ & W3 & _).
  set (n := length (x_objs x)).
  assert (GO : forall j, j < n -> getO (x_objs x ++ [o]) j = getO (x_objs x) j).
  { intros j H. rewrite getO_app_new. apply Nat.ltb_lt in H. fold n. rewrite H. auto. }
  assert (GD : forall j, j < n -> getD (x_dats x ++ [d]) j = getD (x_dats x) j).
  { intros j H. rewrite getD_app_new. rewrite Q0. apply Nat.ltb_lt in H. fold n. rewrite H. auto. }
  assert (GDn : getD (x_dats x ++ [d]) n = d).
  { rewrite getD_app_new, Q0. fold n. rewrite Nat.ltb_irrefl, Nat.eqb_refl. auto. }
  assert (GDo : forall j, n < j -> getD (x_dats x ++ [d]) j = ddflt).
  { intros j H. rewrite getD_app_new, Q0. fold n.
    destruct (Nat.ltb_spec j n); try lia. destruct (Nat.eqb_spec j n); try lia. auto. }
  assert (GOn : getO (x_objs x ++ [o]) n = o).
  { rewrite getO_app_new. fold n. rewrite Nat.ltb_irrefl, Nat.eqb_refl. auto. }
  assert (GOo : forall j, n < j -> getO (x_objs x ++ [o]) j = dflt).
  { intros j H. rewrite getO_app_new. fold n.
    destruct (Nat.ltb_spec j n); try lia. destruct (Nat.eqb_spec j n); try lia. auto. }
  split. { rewrite !app_length. cbn. lia. }
  split; [|split; [|split]].
  - intros i H. destruct (lt_eq_lt_dec i n) as [[A|A]|A].
    + rewrite GD in H by auto. rewrite GD by auto. auto.
    + rewrite A. rewrite GDn. auto.
    + rewrite GDo; auto.
  - intros i j Pj Si. destruct (lt_eq_lt_dec j n) as [[A|A]|A].
    + rewrite GO in Pj by auto. rewrite GD by auto.
      destruct (W3 _ _ Pj) as (Li & _). fold n in Li. rewrite GD in Si by auto. eauto.
    + rewrite A. rewrite GDn. auto.
    + rewrite GOo in Pj by auto. discriminate.
  - intros i c H1 H2. destruct (lt_eq_lt_dec i n) as [[A|A]|A].
    + rewrite GD in H1, H2 by auto. rewrite GD by auto. destruct (Q3 i c H1 H2) as [B|(j & B & C)]; auto.
      right. exists j. assert (j < n).
      { destruct (Nat.ltb_spec j n); auto. rewrite getO_overflow in B by auto. discriminate. }
      rewrite GO by auto. auto.
    + rewrite A in H2. rewrite GDn in H2. rewrite D3 in H2. destruct H2.
    + rewrite GDo in H2 by auto. destruct H2.
  - intros i H. destruct (lt_eq_lt_dec i n) as [[A|A]|A].
    + rewrite GD in H by auto. rewrite GD by auto. auto.
    + rewrite A. rewrite GDn. auto.
    + rewrite GDo by auto. auto.
Qed.

(* replacing the data part of object i *)
Lemma QI_set_dat l d i x' :
  QI l d ->
  (d_pc x' < 2 -> d_started x' = false) ->
  (d_started x' = false -> d_started (getD d i) = false) ->
  (forall p, o_parent (getO l i) = Some p -> d_started (getD (upd d i x') p) = false -> d_q x' = []) ->
  (forall c, 1 <= d_pc x' -> In c (d_want x') ->
      In c (d_todo x') \/ exists j, o_parent (getO l j) = Some i /\ o_c (getO l j) = c) ->
  (2 <= d_pc x' -> d_todo x' = []) ->
  QI l (upd d i x').
Proof.
  intros (Q0 & Q1 & Q2 & Q3 & Q5) C1 C2 C2' C3 C5.
  split. { rewrite length_upd. auto. }
  split; [|split; [|split]].
  - intros j. rewrite getD_upd. destruct ((j =? i) && (i <? length d)); auto.
  - intros p j Pj Sp. rewrite getD_upd.
    destruct ((j =? i) && (i <? length d)) eqn:E.
    + apply andb_true_iff in E. destruct E as [E _]. apply Nat.eqb_eq in E. subst j. eauto.
    + apply (Q2 p j Pj). rewrite getD_upd in Sp.
      destruct ((p =? i) && (i <? length d)) eqn:E'; auto.
      apply andb_true_iff in E'. destruct E' as [E' _]. apply Nat.eqb_eq in E'. subst p. auto.
  - intros j c. rewrite getD_upd. destruct ((j =? i) && (i <? length d)) eqn:E; auto.
    apply andb_true_iff in E. destruct E as [E _]. apply Nat.eqb_eq in E. subst j. auto.
  - intros j. rewrite getD_upd. destruct ((j =? i) && (i <? length d)); auto.
Qed.

Lemma get_channel_witness p c x :
  exists j, o_parent (getO (x_objs (get_channel p c x)) j) = Some p /\ o_c (getO (x_objs (get_channel p c x)) j) = c.
Proof.
  unfold get_channel. destruct (find_chan (x_objs x) p c) as [j|] eqn:F.
  - apply find_chan_some in F. destruct F as [_ F]. apply chan_named_facts in F. exists j. tauto.
  - exists (length (x_objs x)). unfold add_obj; cbn [x_objs]. rewrite getO_app_new, Nat.ltb_irrefl, Nat.eqb_refl. auto.
Qed.

Lemma get_channel_objs_mono p c x j :
  j < length (x_objs x) -> getO (x_objs (get_channel p c x)) j = getO (x_objs x) j.
Proof.
  intros H. unfold get_channel. destruct (find_chan (x_objs x) p c); auto.
  unfold add_obj; cbn [x_objs]. rewrite getO_app_new. apply Nat.ltb_lt in H. rewrite H. auto.
Qed.

Lemma QX_get_channel p c x :
  WF (x_objs x) (x_bag x) -> p < length (x_objs x) -> QX x -> QX (get_channel p c x).
Proof.
  intros W Lp H. unfold get_channel. destruct (find_chan (x_objs x) p c); auto.
  apply QX_add; auto. intros q E. cbn in E. inversion E; subst; auto.
Qed.

Lemma topic_is_no_channel l i : is_topic (getO l i) = true -> forall p, o_parent (getO l i) = Some p -> False.
Proof. intros T p E. apply is_topic_spec in T. congruence. Qed.

Lemma QX_data_step c ls o x :
  g_precreate_first c = true -> WF (x_objs x) (x_bag x) -> QX x -> QX (data_step c ls o x).
Proof.
  intros G W H. destruct o; cbn [data_step]; auto.
  - destruct (find_topic (x_objs x) t); auto. apply QX_add; auto. intros p E; discriminate.
  - (* TopicAdvance *)
    unfold topic_advance. destruct (find_topic (x_objs x) t) as [i|] eqn:F; auto.
    apply find_topic_some in F. destruct F as [Li Ti]. apply topic_named_facts in Ti. destruct Ti as (T1 & T2 & T3).
    pose proof H as (Q0 & Q1 & Q2 & Q3 & Q5).
    destruct (d_pc (getD (x_dats x) i)) as [|[|n]] eqn:PC; auto.
    + unfold QX, set_dat; cbn. rewrite G. apply QI_set_dat; cbn.
      * exact H.
      * intros _. apply Q1. lia.
      * auto.
      * intros p E. exfalso. eapply topic_is_no_channel; eauto.
      * intros c0 _ Hc. auto.
      * intros; lia.
    + destruct (d_todo (getD (x_dats x) i)) as [|ch r] eqn:TD.
      * unfold QX, set_dat; cbn. apply QI_set_dat; cbn.
        -- exact H.
        -- intros; lia.
        -- intros; discriminate.
        -- intros p E. exfalso. eapply topic_is_no_channel; eauto.
        -- intros c0 _ Hc. apply (Q3 i c0); auto. lia.
        -- auto.
      * pose proof (QX_get_channel i ch x W Li H) as H'.
        destruct (get_channel_witness i ch x) as (jw & Jw1 & Jw2).
        assert (Dsame : x_dats (get_channel i ch x) = x_dats x \/
                        x_dats (get_channel i ch x) = x_dats x ++ [mkDat false 2 [] [] []]).
        { unfold get_channel. destruct (find_chan (x_objs x) i ch); auto. }
        assert (GDi : getD (x_dats (get_channel i ch x)) i = getD (x_dats x) i).
        { destruct Dsame as [-> | ->]; auto. rewrite getD_app_new, Q0. apply Nat.ltb_lt in Li. rewrite Li. auto. }
        unfold QX, set_dat; cbn. apply QI_set_dat; cbn; rewrite ?GDi, ?PC.
        -- exact H'.
        -- intros _. apply Q1. lia.
        -- auto.
        -- intros p E. exfalso. rewrite get_channel_objs_mono in E by auto. eapply topic_is_no_channel; eauto.
        -- intros c0 _ Hc. destruct (Q3 i c0) as [A|(j & A & B)]; auto; try lia.
           ++ rewrite TD in A. destruct A as [<-|A]; auto. right. exists jw. auto.
           ++ right. exists j. assert (j < length (x_objs x)).
              { destruct (Nat.ltb_spec j (length (x_objs x))); auto. rewrite getO_overflow in A by auto. discriminate. }
              rewrite get_channel_objs_mono by auto. auto.
        -- intros; lia.
  - destruct (find_topic (x_objs x) t) as [i|] eqn:F; auto.
    apply find_topic_some in F. destruct F as [Li _]. apply QX_get_channel; auto.
  - destruct (find_topic (x_objs x) t) as [i|]; auto. destruct (find_chan (x_objs x) i c0) as [j|]; auto.
    destruct (o_exit (getO (x_objs x) j)); auto. apply QX_set_exit; auto.
  - destruct (find_topic (x_objs x) t) as [i|]; auto. destruct (find_chan (x_objs x) i c0) as [j|]; auto.
    destruct (o_exit (getO (x_objs x) j)); auto. apply QX_set_unmap; auto.
  - destruct (find_topic (x_objs x) t) as [i|]; auto.
    destruct (o_exit (getO (x_objs x) i)); auto. apply QX_set_exit; auto.
  - destruct (find_topic (x_objs x) t) as [i|]; auto.
    destruct (o_exit (getO (x_objs x) i)); auto. apply QX_set_unmap.
    assert (A : forall js y, QX y -> QX (drop_chans js y)).
    { induction js as [|j r IH]; intros y Hy; cbn; auto. apply IH. apply QX_set_unmap.
      destruct (o_exit (getO (x_objs y) j)); auto. apply QX_set_exit; auto. }
    apply A; auto.
  - (* Put *)
    destruct (find_topic (x_objs x) t) as [i|] eqn:F; auto.
    apply find_topic_some in F. destruct F as [Li Ti]. apply topic_named_facts in Ti. destruct Ti as (T1 & T2 & T3).
    destruct (o_exit (getO (x_objs x) i)); auto.
    pose proof H as (Q0 & Q1 & Q2 & Q3 & Q5).
    unfold QX, set_dat; cbn. apply QI_set_dat; cbn.
    + exact H.
    + apply Q1.
    + auto.
    + intros p E. exfalso. eapply topic_is_no_channel; eauto.
    + intros c0 H1 H2. apply (Q3 i c0); auto.
    + apply Q5.
  - (* Pump *)
    destruct (find_topic (x_objs x) t) as [i|] eqn:F; auto.
    apply find_topic_some in F. destruct F as [Li Ti]. apply topic_named_facts in Ti. destruct Ti as (T1 & T2 & T3).
    destruct (d_started (getD (x_dats x) i)) eqn:St; cbn [andb]; auto.
    destruct (negb (o_exit (getO (x_objs x) i))); auto.
    destruct (chans_of (x_objs x) i) as [|j0 js] eqn:CH; auto.
    destruct (d_q (getD (x_dats x) i)) as [|m q] eqn:Qi; auto.
    assert (Hjs : forall j, In j (j0 :: js) -> o_parent (getO (x_objs x) j) = Some i).
    { intros j Hj. rewrite <- CH in Hj. apply In_chans_of in Hj. apply is_chan_of_spec. tauto. }
    set (x0 := set_dat i (fun d => d <| d_q := q |>) x).
    assert (H0 : QX x0 /\ x_objs x0 = x_objs x /\ d_started (getD (x_dats x0) i) = true).
    { split; [|split; auto].
      - pose proof H as (Q0 & Q1 & Q2 & Q3 & Q5).
        unfold QX, x0, set_dat; cbn. apply QI_set_dat; cbn.
        + exact H.
        + apply Q1.
        + auto.
        + intros p E. exfalso. eapply topic_is_no_channel; eauto.
        + intros c0 H1 H2. apply (Q3 i c0); auto.
        + apply Q5.
      - unfold x0, set_dat; cbn [x_dats]. rewrite getD_upd, Nat.eqb_refl.
        destruct H as (Q0 & _). rewrite Q0. apply Nat.ltb_lt in Li. rewrite Li. cbn. auto. }
    clearbody x0. revert x0 H0. revert Hjs. generalize (j0 :: js) as l0.
    induction l0 as [|j r IH]; intros Hjs x0 (H0 & O0 & S0); cbn [fold_left]; auto.
    apply IH.
    + intros j' Hj'. apply Hjs. right. auto.
    + assert (Pj : o_parent (getO (x_objs x0) j) = Some i) by (rewrite O0; apply Hjs; left; auto).
      split; [|split; auto].
      * pose proof H0 as (Q0 & Q1 & Q2 & Q3 & Q5).
        unfold QX, set_dat; cbn. apply QI_set_dat; cbn.
        -- exact H0.
        -- apply Q1.
        -- auto.
        -- intros p E Sp. exfalso. rewrite Pj in E. inversion E; subst p.
           rewrite getD_upd in Sp. destruct ((i =? j) && (j <? length (x_dats x0))) eqn:E'.
           ++ apply andb_true_iff in E'. destruct E' as [E' _]. apply Nat.eqb_eq in E'. subst j.
              rewrite O0 in Pj. eapply topic_is_no_channel; eauto.
           ++ congruence.
        -- intros c0 H1 H2. apply (Q3 j c0); auto.
        -- apply Q5.
      * unfold set_dat; cbn [x_dats]. rewrite getD_upd.
        destruct ((i =? j) && (j <? length (x_dats x0))) eqn:E'; auto.
        apply andb_true_iff in E'. destruct E' as [E' _]. apply Nat.eqb_eq in E'. subst j.
        rewrite O0 in Pj. exfalso. eapply topic_is_no_channel; eauto.
Qed.

Lemma QI_init : QI [] [].
Proof.
  split; auto. split; [|split; [|split]].
  - intros i. unfold getD. destruct i; cbn; lia.
  - intros i j H. unfold getO in H. destruct j; discriminate.
  - intros i c _ H. unfold getD in H. destruct i; destruct H.
  - intros i _. unfold getD. destruct i; reflexivity.
Qed.

Lemma step_QI c s o s' :
  g_precreate_first c = true -> WF (objs s) (bag s) -> QI (objs s) (dats s) ->
  step c s o = Run s' -> QI (objs s') (dats s').
Proof.
  intros G W H X.
  destruct (is_loop_op o || is_fault_op o) eqn:LF.
  - destruct (lookup_side_cannot_touch_data c s o s' LF X) as [A B]. rewrite A, B. auto.
  - apply orb_false_iff in LF. destruct LF as [L F]. unfold step in X. rewrite L, F in X.
    inversion X; subst; clear X. cbn.
    apply (QX_data_step c (links s) o (mkDs (objs s) (dats s) (bag s))); auto.
Qed.

Lemma run_QI c : g_precreate_first c = true -> forall os s s',
  WF (objs s) (bag s) -> QI (objs s) (dats s) -> run c (Run s) os = Run s' -> QI (objs s') (dats s').
Proof.
  intros G. induction os as [|o r IH]; intros s s' W H X.
  - inversion X; subst; auto.
  - rewrite run_cons in X. destruct (step c s o) as [s1|] eqn:S; [|rewrite run_crashed in X; discriminate].
    apply (IH s1 s'); auto. eapply step_WF; eauto. eapply step_QI; eauto.
Qed.

(* the query step: everything a reachable nsqlookupd knows, minus #ephemeral *)
(* with the partial-result rule, a failing nsqlookupd takes nothing away from what the
   answering ones know — for every subset of failing lookupds *)
Lemma query_covers c ls t k ch :
  g_partial_query c = true -> g_ask_any_state c = true ->
  In k ls -> k_conf k = true -> k_info k = true -> l_up k = true -> l_http k = true ->
  In (t, ch) (l_known k) -> In ch (query c ls t).
Proof.
  intros G GA Hk C I U Ht Kn. unfold query. rewrite G. cbn [orb]. unfold query_union. apply in_flat_map. exists k. split; auto.
  unfold asked, answers. rewrite C, I, U, Ht, GA. cbn. apply in_map_iff. exists (t, ch). split; auto.
  apply filter_In. split; auto. cbn. apply N.eqb_refl.
Qed.

(* nothing is invented: a pre-created channel is known to some asked, answering nsqlookupd *)
Lemma query_sound c ls t ch :
  In ch (query c ls t) ->
  exists k, In k ls /\ k_conf k = true /\ k_info k = true /\ l_up k = true /\ l_http k = true /\ In (t, ch) (l_known k).
Proof.
  unfold query. intros H.
  assert (U : In ch (query_union c ls t)). { destruct (g_partial_query c || negb (query_fails c ls)); auto. destruct H. }
  unfold query_union in U. apply in_flat_map in U. destruct U as (k & Hk & Hc).
  unfold asked, answers in Hc.
  destruct (k_conf k) eqn:C, (k_info k) eqn:I, (l_up k) eqn:Up, (l_http k) eqn:Ht,
           (g_ask_any_state c || (k_state k =? st_connected)%Z); cbn in Hc; try (destruct Hc; fail).
  apply in_map_iff in Hc. destruct Hc as ((t', c') & E & F). cbn in E. subst c'.
  apply filter_In in F. destruct F as [F1 F2]. cbn in F2. apply N.eqb_eq in F2. subst t'.
  exists k. auto 10.
Qed.

(* all asked lookupds fail: nothing is pre-created (GetTopic logs a warning and starts the topic) *)
Lemma query_all_fail c ls t :
  (forall k, In k ls -> asked c k = true -> answers k = false) -> query c ls t = [].
Proof.
  intros H. unfold query.
  assert (U : query_union c ls t = []).
  { unfold query_union. induction ls as [|k r IH]; cbn; auto.
    rewrite IH by (intros; apply H; auto; right; auto).
    destruct (asked c k) eqn:A; cbn; auto. rewrite (H k (or_introl eq_refl) A). reflexivity. }
  rewrite U. destruct (_ || _); reflexivity.
Qed.

Lemma advance_query c ls t x i :
  QX x -> find_topic (x_objs x) t = Some i -> d_pc (getD (x_dats x) i) = 0 ->
  let x' := data_step c ls (TopicAdvance t) x in
  x_objs x' = x_objs x /\
  d_want (getD (x_dats x') i) = filter (fun ch => negb (g_skip_eph c && eph ch)) (query c ls t) /\
  d_todo (getD (x_dats x') i) = d_want (getD (x_dats x') i) /\
  d_pc (getD (x_dats x') i) = 1.
Proof.
  intros (Q0 & _) F PC. cbn [data_step]. unfold topic_advance. rewrite F, PC.
  apply find_topic_some in F. destruct F as [Li _].
  unfold set_dat; cbn [x_objs x_dats]. rewrite getD_upd, Nat.eqb_refl, Q0.
  apply Nat.ltb_lt in Li. rewrite Li. cbn. auto.
Qed.

(* the start step: every queried channel exists, and is still empty *)
Lemma advance_start c ls t x i :
  QX x -> find_topic (x_objs x) t = Some i ->
  d_pc (getD (x_dats x) i) = 1 -> d_todo (getD (x_dats x) i) = [] ->
  let x' := data_step c ls (TopicAdvance t) x in
  x_objs x' = x_objs x /\ d_started (getD (x_dats x') i) = true /\
  d_q (getD (x_dats x') i) = d_q (getD (x_dats x) i) /\
  forall ch, In ch (d_want (getD (x_dats x) i)) ->
    exists j, o_parent (getO (x_objs x) j) = Some i /\ o_c (getO (x_objs x) j) = ch /\
              d_q (getD (x_dats x') j) = [].
Proof.
  intros (Q0 & Q1 & Q2 & Q3 & Q5) F PC TD. cbn [data_step]. unfold topic_advance. rewrite F, PC, TD.
  apply find_topic_some in F. destruct F as [Li Ti]. apply topic_named_facts in Ti. destruct Ti as (T1 & _).
  unfold set_dat; cbn [x_objs x_dats]. pose proof Li as Li'. apply Nat.ltb_lt in Li'.
  split; auto. split. { rewrite getD_upd, Nat.eqb_refl, Q0, Li'. reflexivity. }
  split. { rewrite getD_upd, Nat.eqb_refl, Q0, Li'. reflexivity. }
  intros ch Hch. destruct (Q3 i ch) as [A|(j & A & B)]; auto; try lia.
  { rewrite TD in A. destruct A. }
  exists j. split; auto. split; auto.
  rewrite getD_upd. destruct (Nat.eqb_spec j i) as [->|N]; cbn [andb].
  - exfalso. eapply topic_is_no_channel; eauto.
  - apply (Q2 i j A). apply Q1. lia.
Qed.

(* no message leaves the topic before Start *)
Lemma pump_before_start c ls t x :
  (forall i, find_topic (x_objs x) t = Some i -> d_started (getD (x_dats x) i) = false) ->
  data_step c ls (Pump t) x = x.
Proof.
  intros H. cbn [data_step]. destruct (find_topic (x_objs x) t) as [i|]; auto.
  rewrite (H i eq_refl). reflexivity.
Qed.

Lemma fold_set_q m : forall js x,
  NoDup js ->
  let g := (fun d : dat => d <| d_q ::= (fun z => z ++ [m]) |>) in
  let x' := fold_left (fun acc j => set_dat j g acc) js x in
  x_objs x' = x_objs x /\ length (x_dats x') = length (x_dats x) /\
  forall j, getD (x_dats x') j =
            if mem j js && (j <? length (x_dats x)) then g (getD (x_dats x) j) else getD (x_dats x) j.
Proof.
  induction js as [|a r IH]; intros x ND; cbn [fold_left].
  - split; auto.
  - inversion ND as [|? ? Na NDr]; subst.
    destruct (IH (set_dat a (fun d => d <| d_q ::= (fun z => z ++ [m]) |>) x) NDr) as (A & L & B).
    cbn zeta in *. split; auto. split. { rewrite L. unfold set_dat; cbn. apply length_upd. }
    intros j. rewrite B. unfold set_dat; cbn [x_dats]. rewrite length_upd, !getD_upd.
    cbn [mem existsb]. fold (mem j r).
    destruct (Nat.eqb_spec j a) as [->|N]; cbn [orb andb].
    + assert (mem a r = false).
      { destruct (mem a r) eqn:E; auto. apply mem_In in E. contradiction. }
      rewrite H. cbn [andb]. destruct (a <? length (x_dats x)); reflexivity.
    + reflexivity.
Qed.

Lemma NoDup_chans_of l i : NoDup (chans_of l i).
Proof. unfold chans_of, ids. apply NoDup_filter. apply seq_NoDup. Qed.

(* once started, one pump iteration hands the head message to every channel in the map *)
Lemma pump_delivers c ls t x i m q :
  QX x -> find_topic (x_objs x) t = Some i ->
  d_started (getD (x_dats x) i) = true -> o_exit (getO (x_objs x) i) = false ->
  d_q (getD (x_dats x) i) = m :: q -> chans_of (x_objs x) i <> [] ->
  let x' := data_step c ls (Pump t) x in
  d_q (getD (x_dats x') i) = q /\
  forall j, In j (chans_of (x_objs x) i) -> d_q (getD (x_dats x') j) = d_q (getD (x_dats x) j) ++ [m].
Proof.
  intros (Q0 & _) F St Ex Qi NE. cbn [data_step]. rewrite F, St, Ex, Qi. cbn [andb negb].
  apply find_topic_some in F. destruct F as [Li Ti]. apply topic_named_facts in Ti. destruct Ti as (T1 & _).
  destruct (chans_of (x_objs x) i) as [|j0 js] eqn:CH; [congruence|]. rewrite <- CH.
  set (x0 := set_dat i (fun d => d <| d_q := q |>) x).
  destruct (fold_set_q m (chans_of (x_objs x) i) x0 (NoDup_chans_of _ _)) as (A & L & B). cbn zeta in B.
  assert (L0 : length (x_dats x0) = length (x_dats x)) by (unfold x0, set_dat; cbn; apply length_upd).
  assert (Ni : mem i (chans_of (x_objs x) i) = false).
  { destruct (mem i (chans_of (x_objs x) i)) eqn:E; auto. apply mem_In in E. apply In_chans_of in E.
    destruct E as (_ & E & _). apply is_chan_of_spec in E. exfalso. eapply topic_is_no_channel; eauto. }
  split.
  - rewrite B, Ni. cbn [andb]. unfold x0, set_dat; cbn [x_dats]. rewrite getD_upd, Nat.eqb_refl, Q0.
    apply Nat.ltb_lt in Li. rewrite Li. reflexivity.
  - intros j Hj. rewrite B. pose proof Hj as Hj'. apply mem_In in Hj'. rewrite Hj'.
    apply In_chans_of in Hj. destruct Hj as (Lj & Cj & _). rewrite L0, Q0. apply Nat.ltb_lt in Lj. rewrite Lj.
    cbn [andb]. unfold x0, set_dat; cbn [x_dats]. rewrite getD_upd.
    destruct (Nat.eqb_spec j i) as [->|N]; cbn [andb]; [|reflexivity].
    apply is_chan_of_spec in Cj. exfalso. eapply topic_is_no_channel; eauto.
Qed.

(* ------------------------------------------------------------------ how many Notify goroutines can be parked *)
Definition bag_bound (l : list obj) (b : list nat) : Prop :=
  forall i, count_occ Nat.eq_dec b i <= (if o_exit (getO l i) then 2 else 1).

Lemma count_occ_snoc b i j : count_occ Nat.eq_dec (b ++ [i]) j = count_occ Nat.eq_dec b j + (if Nat.eq_dec i j then 1 else 0).
Proof. rewrite count_occ_app. cbn. destruct (Nat.eq_dec i j); lia. Qed.

Lemma data_step_bag_bound c ls o x :
  WF (x_objs x) (x_bag x) -> bag_bound (x_objs x) (x_bag x) ->
  bag_bound (x_objs (data_step c ls o x)) (x_bag (data_step c ls o x)).
Proof.
  intros W K. apply (data_step_P bag_bound); try (split; auto; fail).
  - intros l i b E _ H j. rewrite count_occ_snoc, ex_exit. specialize (H j).
    destruct (Nat.eq_dec i j) as [->|N].
    + rewrite Nat.eqb_refl. cbn. rewrite E in H. lia.
    + apply Nat.eqb_neq in N. rewrite Nat.eqb_sym, N. cbn. lia.
  - intros l i b H j. rewrite um_exit. apply H.
  - intros l o0 b E (W1 & _) H j. rewrite count_occ_snoc, getO_app_new. specialize (H j).
    destruct (Nat.eq_dec (length l) j) as [<-|N].
    + rewrite Nat.ltb_irrefl, Nat.eqb_refl, E.
      assert (count_occ Nat.eq_dec b (length l) = 0).
      { apply count_occ_not_In. intros HI. apply W1 in HI. lia. }
      lia.
    + destruct (Nat.ltb_spec j (length l)).
      * lia.
      * destruct (Nat.eqb_spec j (length l)); try congruence. cbn.
        rewrite getO_overflow in H by auto. cbn in H. lia.
Qed.

Lemma count_occ_remove_at b i j : count_occ Nat.eq_dec (remove_at i b) j <= count_occ Nat.eq_dec b j.
Proof.
  revert i; induction b as [|a b IH]; intros [|i]; cbn; auto.
  - destruct (Nat.eq_dec a j); lia.
  - specialize (IH i). destruct (Nat.eq_dec a j); lia.
Qed.

Lemma step_bag_bound c s o s' :
  WF (objs s) (bag s) -> bag_bound (objs s) (bag s) -> step c s o = Run s' -> bag_bound (objs s') (bag s').
Proof.
  intros W K X. unfold step in X. destruct (is_loop_op o) eqn:L.
  - unfold loop_step in X. destruct o; try discriminate.
    + destruct (nth_error (bag s) i); [|inversion X; subst; auto].
      match type of X with context [on_links ?f 0 ?ls] => destruct (on_links f 0 ls); [|discriminate] end.
      inversion X; subst. cbn. intros j. specialize (K j). pose proof (count_occ_remove_at (bag s) i j). lia.
    + match type of X with context [on_links ?f 0 ?ls] => destruct (on_links f 0 ls); [|discriminate] end.
      inversion X; subst. auto.
    + match type of X with context [on_links ?f 0 ?ls] => destruct (on_links f 0 ls); [|discriminate] end.
      inversion X; subst. auto.
  - destruct (is_fault_op o).
    + inversion X; subst. destruct o; cbn; auto.
    + inversion X; subst; clear X. cbn.
      apply (data_step_bag_bound c (links s) o (mkDs (objs s) (dats s) (bag s))); auto.
Qed.

Lemma run_bag_bound c : forall os s s',
  WF (objs s) (bag s) -> bag_bound (objs s) (bag s) -> run c (Run s) os = Run s' -> bag_bound (objs s') (bag s').
Proof.
  induction os as [|o r IH]; intros s s' W K X.
  - inversion X; subst; auto.
  - rewrite run_cons in X. destruct (step c s o) as [s1|] eqn:S; [|rewrite run_crashed in X; discriminate].
    apply (IH s1 s'); auto. eapply step_WF; eauto. eapply step_bag_bound; eauto.
Qed.

Lemma length_split_count (b : list nat) n :
  length b = length (filter (fun x => negb (x =? n)) b) + count_occ Nat.eq_dec b n.
Proof.
  induction b as [|a b IH]; cbn; auto.
  destruct (Nat.eq_dec a n) as [->|N].
  - rewrite Nat.eqb_refl. cbn. lia.
  - apply Nat.eqb_neq in N. rewrite N. cbn. lia.
Qed.

Lemma count_occ_filter_le (f : nat -> bool) b j : count_occ Nat.eq_dec (filter f b) j <= count_occ Nat.eq_dec b j.
Proof.
  induction b as [|a b IH]; cbn; auto.
  destruct (f a); cbn; destruct (Nat.eq_dec a j); lia.
Qed.

Lemma length_le_twice : forall n b,
  (forall x, In x b -> x < n) -> (forall x, count_occ Nat.eq_dec b x <= 2) -> length b <= 2 * n.
Proof.
  induction n as [|n IH]; intros b Hlt Hc.
  - destruct b as [|a b]; cbn; auto. specialize (Hlt a (or_introl eq_refl)). lia.
  - rewrite (length_split_count b n). specialize (Hc n) as Hn.
    assert (length (filter (fun x => negb (x =? n)) b) <= 2 * n).
    { apply IH.
      - intros x Hx. apply filter_In in Hx. destruct Hx as [Hx Ne]. apply negb_true_iff, Nat.eqb_neq in Ne.
        apply Hlt in Hx. lia.
      - intros x. pose proof (count_occ_filter_le (fun x0 => negb (x0 =? n)) b x). specialize (Hc x). lia. }
    lia.
Qed.

(* each object has at most two parked goroutines (creation, deletion): at most
   2 * (number of topics and channels ever created) in total, whatever the loop does *)
Theorem parked_notifications_bounded c os s :
  run c (Run init) os = Run s -> length (bag s) <= 2 * length (objs s).
Proof.
  intros X.
  assert (W : WF (objs s) (bag s)). { eapply run_WF; eauto. destruct Inv_init as (W0 & _). exact W0. }
  assert (K : bag_bound (objs s) (bag s)).
  { apply (run_bag_bound c os init s); auto.
    - destruct Inv_init as (W0 & _). exact W0.
    - intros i. cbn. destruct (o_exit _); lia. }
  apply length_le_twice.
  - apply W.
  - intros x. specialize (K x). destruct (o_exit (getO (objs s) x)); lia.
Qed.
