(* C09: the accept loop (model/AcceptLoop.v) - what a script of Accept results leads to,
   for every script; and the loop's decision table against the source's
   (gen/AcceptTable.v, regenerated from internal/protocol/tcp_server.go on every run). *)
From Coq Require Import List NArith Bool String.
From NSQV Require Import gen.AcceptTable model.AcceptLoop.
Import ListNotations.

(* a result after which the loop goes on accepting *)
Definition passes (r : ares) : bool :=
  match r with AConn _ => true | AErr e => is_temporary e end.

Definition conn_ids (script : list ares) : list N :=
  flat_map (fun r => match r with AConn id => [id] | AErr _ => [] end) script.

(* what a result that ends the loop makes it return *)
Definition stop_ret (r : ares) : aret :=
  match r with AErr e => if e_closed e then RNil else RErr e | AConn _ => RRunning end.
Definition stop_waits (r : ares) : bool :=
  match r with AErr e => e_closed e | AConn _ => false end.

(* ------------------------------------------------------------------ one result *)
Lemma decide_conn : forall id, decide (AConn id) = DServe.
Proof. reflexivity. Qed.

(* a temporary error is retried whatever else is true of it (a timeout or not, even one that
   wraps net.ErrClosed); and only a temporary error is *)
Lemma decide_retry_iff : forall e, decide (AErr e) = DRetry <-> e_temporary e = Some true.
Proof.
  intros [[[|]|] tm cl]; unfold decide, is_temporary; cbn; split; intro H; try reflexivity; try discriminate;
    destruct cl; cbn in H; discriminate.
Qed.

Lemma decide_nil_iff : forall e, decide (AErr e) = DStopNil <-> (e_temporary e <> Some true /\ e_closed e = true).
Proof.
  intros [[[|]|] tm [|]]; unfold decide, is_temporary; cbn; split; intro H;
    try discriminate; try reflexivity; try (split; [discriminate | reflexivity]);
    try (destruct H as [H1 H2]; try discriminate; exfalso; apply H1; reflexivity).
Qed.

Lemma decide_err_iff : forall e, decide (AErr e) = DStopErr <-> (e_temporary e <> Some true /\ e_closed e = false).
Proof.
  intros [[[|]|] tm [|]]; unfold decide, is_temporary; cbn; split; intro H;
    try discriminate; try reflexivity; try (split; [discriminate | reflexivity]);
    try (destruct H as [H1 H2]; try discriminate; exfalso; apply H1; reflexivity).
Qed.

(* the decision does not look at Timeout() *)
Lemma decide_ignores_timeout : forall t o o' c,
  decide (AErr (mkAErr t o c)) = decide (AErr (mkAErr t o' c)).
Proof. reflexivity. Qed.

Lemma passes_decide : forall r, passes r = true <-> (decide r = DServe \/ decide r = DRetry).
Proof.
  intros [id|e]; cbn.
  - split; intro; [left; reflexivity | reflexivity].
  - unfold decide. destruct (is_temporary e); cbn.
    + split; intro; [right; reflexivity | reflexivity].
    + destruct (e_closed e); cbn; split; intro H; try discriminate; destruct H; discriminate.
Qed.

(* ------------------------------------------------------------------ the loop *)
Lemma loop_pass : forall pre rest n served,
  forallb passes pre = true ->
  accept_loop (pre ++ rest) n served
  = accept_loop rest (n + N.of_nat (List.length pre)) (rev (conn_ids pre) ++ served).
Proof.
  induction pre as [|r pre IH]; intros rest n served H.
  - cbn. rewrite N.add_0_r. reflexivity.
  - cbn in H. apply andb_prop in H. destruct H as [Hr Hp].
    assert (E : (n + N.of_nat (List.length (r :: pre)) = N.succ n + N.of_nat (List.length pre))%N).
    { cbn [List.length]. rewrite Nat2N.inj_succ. rewrite N.add_succ_l, N.add_succ_r. reflexivity. }
    rewrite E. destruct r as [id|e].
    + cbn [app accept_loop]. rewrite IH by exact Hp. cbn [conn_ids flat_map app rev].
      change (flat_map (fun r => match r with AConn id0 => [id0] | AErr _ => [] end) pre) with (conn_ids pre).
      rewrite <- app_assoc. reflexivity.
    + cbn in Hr. cbn [app accept_loop]. unfold decide. rewrite Hr.
      rewrite IH by exact Hp. reflexivity.
Qed.

(* while nothing but connections and temporary errors has come out of Accept: every
   connection offered has been handed to the handler, every result has been consumed, and
   the loop has not returned *)
Lemma run_all_pass : forall script,
  forallb passes script = true ->
  run_accept script = mkAOut (N.of_nat (List.length script)) (conn_ids script) RRunning false.
Proof.
  intros script H. unfold run_accept.
  rewrite <- (app_nil_r script) at 1. rewrite loop_pass by exact H.
  cbn. rewrite app_nil_r, rev_involutive. reflexivity.
Qed.

(* the first result that is neither: the loop ends there - nothing after it is consumed -
   with exactly the connections offered before it served; net.ErrClosed makes it return
   nil after waiting for the handlers, any other error is returned at once *)
Lemma run_stop : forall pre s post,
  forallb passes pre = true -> passes s = false ->
  run_accept (pre ++ s :: post)
  = mkAOut (N.of_nat (S (List.length pre))) (conn_ids pre) (stop_ret s) (stop_waits s).
Proof.
  intros pre s post H Hs. unfold run_accept. rewrite loop_pass by exact H.
  rewrite app_nil_r, N.add_0_l. destruct s as [id|e]; [discriminate|].
  cbn in Hs. cbn [accept_loop]. unfold decide. rewrite Hs.
  rewrite rev_involutive, Nat2N.inj_succ. cbn [stop_ret stop_waits].
  destruct (e_closed e); reflexivity.
Qed.

(* every script is one of the two *)
Lemma script_split : forall script,
  forallb passes script = true
  \/ exists pre s post, script = pre ++ s :: post /\ forallb passes pre = true /\ passes s = false.
Proof.
  induction script as [|r tl IH].
  - left. reflexivity.
  - destruct (passes r) eqn:Hr.
    + destruct IH as [IH | [pre [s [post [E [Hp Hs]]]]]].
      * left. cbn. rewrite Hr. exact IH.
      * right. exists (r :: pre), s, post. split; [rewrite E; reflexivity|].
        split; [cbn; rewrite Hr; exact Hp | exact Hs].
    + right. exists [], r, tl. split; [reflexivity|]. split; [reflexivity | exact Hr].
Qed.

(* the consumed counter plays no part in what is served and returned *)
Lemma loop_counter_irrelevant : forall script n n' served,
  let o := accept_loop script n served in
  let o' := accept_loop script n' served in
  o_served o = o_served o' /\ o_ret o = o_ret o' /\ o_waits o = o_waits o'.
Proof.
  induction script as [|r tl IH]; intros n n' served; cbn zeta.
  - cbn. repeat split.
  - destruct r as [id|e]; cbn [accept_loop].
    + apply IH.
    + destruct (decide (AErr e)); try apply IH; cbn; repeat split.
Qed.

(* a temporary error anywhere in a script changes nothing but the count of results
   consumed: the same connections are served, before it and after it, and the loop returns
   (or goes on) the same way *)
Lemma temporary_transparent_gen : forall e pre post n n' served,
  is_temporary e = true ->
  let o := accept_loop (pre ++ AErr e :: post) n served in
  let o' := accept_loop (pre ++ post) n' served in
  o_served o = o_served o' /\ o_ret o = o_ret o' /\ o_waits o = o_waits o'.
Proof.
  intros e pre post n n' served He. revert n n' served.
  induction pre as [|r pre IH]; intros n n' served; cbn zeta.
  - cbn [app accept_loop]. unfold decide. rewrite He. apply loop_counter_irrelevant.
  - destruct r as [id|e0]; cbn [app accept_loop].
    + apply IH.
    + destruct (decide (AErr e0)); try apply IH; cbn; repeat split.
Qed.

Lemma temporary_transparent : forall e pre post,
  e_temporary e = Some true ->
  o_served (run_accept (pre ++ AErr e :: post)) = o_served (run_accept (pre ++ post))
  /\ o_ret (run_accept (pre ++ AErr e :: post)) = o_ret (run_accept (pre ++ post))
  /\ o_waits (run_accept (pre ++ AErr e :: post)) = o_waits (run_accept (pre ++ post)).
Proof.
  intros e pre post H. unfold run_accept. apply temporary_transparent_gen.
  unfold is_temporary. rewrite H. reflexivity.
Qed.

(* the loop returns only at a non-temporary error, and has then consumed it last *)
Lemma returns_only_at_stop : forall script,
  o_ret (run_accept script) <> RRunning ->
  exists pre s post, script = pre ++ s :: post /\ forallb passes pre = true /\ passes s = false
    /\ o_consumed (run_accept script) = N.of_nat (S (List.length pre))
    /\ o_served (run_accept script) = conn_ids pre.
Proof.
  intros script H. destruct (script_split script) as [Hp | [pre [s [post [E [Hp Hs]]]]]].
  - rewrite run_all_pass in H by exact Hp. cbn in H. exfalso. apply H. reflexivity.
  - exists pre, s, post. split; [exact E|]. split; [exact Hp|]. split; [exact Hs|].
    rewrite E, run_stop by assumption. cbn. split; reflexivity.
Qed.

(* a connection offered before anything but temporary errors is served *)
Lemma offered_is_served : forall pre id post,
  forallb passes pre = true ->
  In id (o_served (run_accept (pre ++ AConn id :: post))).
Proof.
  intros pre id post Hp.
  destruct (script_split post) as [Hq | [mid [s [post' [E [Hm Hs]]]]]].
  - rewrite run_all_pass.
    + cbn. unfold conn_ids. rewrite flat_map_app. apply in_or_app. right. cbn. left. reflexivity.
    + rewrite forallb_app. rewrite Hp. cbn. exact Hq.
  - rewrite E. change (pre ++ AConn id :: mid ++ s :: post') with (pre ++ (AConn id :: mid) ++ s :: post').
    rewrite app_assoc. rewrite run_stop.
    + cbn. unfold conn_ids. rewrite flat_map_app. apply in_or_app. right. cbn. left. reflexivity.
    + rewrite forallb_app. rewrite Hp. cbn. exact Hm.
    + exact Hs.
Qed.

(* ------------------------------------------------------------------ the source's table *)
(* the error branch of TCPServer, read as a function of the error, is the model's decision -
   for every error *)
Lemma table_is_decide : forall e,
  table_decide accept_err_branches accept_err_default accept_after_loop e = dec_of (decide (AErr e)).
Proof. intros [[[|]|] [[|]|] [|]]; vm_compute; reflexivity. Qed.

Lemma ok_steps_match : accept_ok_steps = model_ok_steps.
Proof. vm_compute. reflexivity. Qed.

Definition name_listener_Accept : string := "listener.Accept".
Definition name_clientConn : string := "clientConn".
Definition users_expected : list (string * string) :=
  [("nsqd", "n.tcpListener"); ("nsqlookupd", "l.tcpListener")]%string.
Lemma accept_call_matches :
  accept_call = name_listener_Accept /\ accept_conn_var = name_clientConn /\ accept_loop_users = users_expected.
Proof. vm_compute. repeat split. Qed.
