(* Proofs about model/Meta.v (C06), part 3: with ONE mutating client at a time the document
   in nsqd.dat is the persisted form of a single live state the daemon passed through
   (GetMetadata reads the topics one by one, but a sequential client can change at most one
   of them while the NSQD lock is held: its next request blocks on RLock). *)
From Coq Require Import List NArith Bool Arith Lia.
From NSQV Require Import model.Judge model.Names model.MetaSrc model.Meta proofs.MetaProofs proofs.MetaPause.
Import ListNotations.
Open Scope nat_scope.
Open Scope bool_scope.

(* ------------------------------------------------------------------ how many lock-free changes a request still has *)
Definition relevant (m : micro) : bool :=
  match m with
  | MEnter _ | MFindChan _ _ _ _ => true          (* bound of what they expand to *)
  | MInsertChan _ _ _ | MDropChans _ _ | MRemoveChan _ _ _ | MFlipTopic _ _ _ | MFlipChan _ _ _ _ _ => true
  | _ => false
  end.
Definition nrel (p : list micro) : nat := length (filter relevant p).
Definition avail (p : list micro) : nat := match p with MEnter _ :: _ => 0 | _ => nrel p end.

Lemma nrel_app : forall p q, nrel (p ++ q) = nrel p + nrel q.
Proof. intros. unfold nrel. rewrite filter_app, app_length. reflexivity. Qed.

Lemma nrel_enter : forall pad o l, nrel (enter pad o l) <= 1.
Proof.
  intros pad o l. destruct o; cbn.
  - destruct (valid t); [destruct (find_topic t l)|]; cbn; lia.
  - destruct (find_topic t l); [|cbn; lia]. destruct (pad && negb (eph t)); cbn; lia.
  - destruct (find_topic t l); cbn; lia.
  - destruct (valid t && valid c); [destruct (find_topic t l)|]; cbn; lia.
  - destruct (valid t && valid c); [destruct (find_topic t l)|]; cbn; lia.
  - destruct (valid t && valid c); [destruct (find_topic t l)|]; cbn; lia.
  - cbn. lia.
Qed.

Lemma nrel_found_chan : forall pad g t c a l, nrel (found_chan pad g t c a l) <= 1.
Proof.
  intros. unfold found_chan. destruct (get_topic g t l) as [tp|]; [|cbn; lia].
  destruct (find_chan c (t_chans tp)); [|cbn; lia]. destruct a; cbn; [|lia].
  destruct (pad && negb (eph c) && negb (eph t)); cbn; lia.
Qed.

Lemma nrel_skip_drop : forall p, nrel (skip_drop p) <= nrel p.
Proof. intros [|[] p]; cbn; lia. Qed.

Lemma nrel_cons : forall m p, nrel (m :: p) = (if relevant m then 1 else 0) + nrel p.
Proof. intros. unfold nrel. cbn. destruct (relevant m); reflexivity. Qed.

Definition N1 (s : st) : Prop := forall i p, In (i, p) (threads s) -> nrel p <= 1.

Lemma N1_step : forall s e, N1 s -> N1 (step s e).
Proof.
  intros s e I. destruct e as [i o|i| |k| |]; rewrite step_fixed; cbn [step_].
  - destruct (up s); [|exact I]. destruct (get_thread i (threads s)); [exact I|].
    intros j q Hin. cbn in Hin. apply in_app_or in Hin. destruct Hin as [Hin|[Hin|[]]]; [eapply I; exact Hin|].
    inversion Hin; subst. cbn. lia.
  - destruct (get_thread i (threads s)) as [[|m rest]|] eqn:Hget; try exact I.
    assert (Hp : nrel (m :: rest) <= 1) by (eapply I; apply get_thread_in; exact Hget).
    rewrite nrel_cons in Hp.
    intros j q Hin.
    destruct (exec_threads true s i m rest) as [E|[(p & E & Hpp)|(Em & _ & E)]]; rewrite E in Hin.
    + eapply I. exact Hin.
    + destruct (in_put_thread _ _ _ _ _ Hin) as [H|(-> & -> & _)]; [eapply I; exact H|].
      destruct Hpp as [->|[->|[(o & -> & ->)|(g & x & c & a & -> & ->)]]].
      * lia.
      * pose proof (nrel_skip_drop rest). lia.
      * rewrite nrel_app. pose proof (nrel_enter true o (live_ s)). cbn in Hp. lia.
      * rewrite nrel_app. pose proof (nrel_found_chan true g x c a (live_ s)). cbn in Hp. lia.
    + assert (Hin' : In (j, q) (put_thread i (MAwait :: rest) (threads s))) by exact Hin.
      destruct (in_put_thread _ _ _ _ _ Hin') as [H|(-> & -> & _)]; [eapply I; exact H|].
      rewrite nrel_cons. cbn. lia.
  - destruct (lock s); [exact I|]. destruct (pending s); exact I.
  - destruct (lock s) as [j|]; [|exact I].
    intros i0 q Hin. destruct (persist_step_threads s j k) as [E|(i1 & rest & _ & Hg & E & _)]; rewrite E in Hin.
    + eapply I. exact Hin.
    + destruct (in_put_thread _ _ _ _ _ Hin) as [H|(-> & -> & _)]; [eapply I; exact H|].
      assert (Hp : nrel (MAwait :: rest) <= 1) by (eapply I; apply get_thread_in; exact Hg).
      rewrite nrel_cons in Hp. cbn in Hp. lia.
  - destruct (up s); [|exact I]. intros j q [].
  - destruct (up s || broken s); [exact I|]. unfold restart.
    destruct (dat (fs s)) as [c|]; [destruct (complete c); [destruct (load (f_doc c) (next_id s))|]|]; intros j q [].
Qed.

(* ------------------------------------------------------------------ every recorded live state has distinct topic objects *)
Definition HistIds (s : st) : Prop := Forall (fun L => NoDup (map t_id L)) (hist s).

Lemma hist_step : forall s e, hist (step s e) = hist s \/ hist (step s e) = live_ (step s e) :: hist s.
Proof.
  intros s e. destruct e as [i o|i| |k| |]; rewrite step_fixed; cbn [step_].
  - destruct (up s); [|auto]. destruct (get_thread i (threads s)); auto.
  - destruct (get_thread i (threads s)) as [[|m rest]|]; auto.
    destruct (exec_shape_holds true s i m rest) as (_ & _ & _ & [[_ H]|[H _]] & _); auto.
  - destruct (lock s); [auto|]. destruct (pending s); auto.
  - destruct (lock s) as [j|]; [|auto]. left. unfold persist_step.
    destruct (j_phase j).
    + destruct (first_unread (j_slots j)); reflexivity.
    + destruct (lookup (j_tmp j) (tmps (fs s))) as [c|]; [|reflexivity]. destruct (Nat.eqb _ _); reflexivity.
    + destruct (lookup (j_tmp j) (tmps (fs s))); reflexivity.
    + reflexivity.
    + destruct (lookup (j_tmp j) (tmps (fs s))) as [c|]; [|reflexivity].
      destruct (j_owner j) as [i|]; [|reflexivity]. cbn.
      destruct (get_thread i (threads s)) as [[|[] rest]|]; reflexivity.
  - destruct (up s); auto.
  - destruct (up s || broken s); [auto|]. unfold restart.
    destruct (dat (fs s)) as [c|]; [destruct (complete c); [destruct (load (f_doc c) (next_id s))|]|]; cbn; auto.
Qed.

Lemma HistIds_step : forall s e, Inv0 s -> HistIds s -> HistIds (step s e).
Proof.
  intros s e I0 H. unfold HistIds. destruct (hist_step s e) as [->| ->]; [exact H|].
  constructor; [|exact H]. apply (Inv0_step s e I0).
Qed.
