(* Proofs about model/Meta.v (C06), part 3: with ONE mutating client at a time the document
   in nsqd.dat is the persisted form of a single live state the daemon passed through
   (GetMetadata reads the topics one by one, but a sequential client can change at most one
   of them while the NSQD lock is held: its next request blocks on RLock). *)
From Coq Require Import List NArith Bool Arith Lia.
From NSQV Require Import model.Judge model.Names model.MetaSrc model.Meta proofs.MetaProofs proofs.MetaPause.
Import ListNotations.
Open Scope nat_scope.
Open Scope bool_scope.

(* ------------------------------------------------------------------ how many lock-free changes a request still has *)
Definition relevant (m : micro) : bool :=
  match m with
  | MEnter _ | MFindChan _ _ _ _ => true          (* bound of what they expand to *)
  | MInsertChan _ _ _ | MDropChans _ _ | MRemoveChan _ _ _ | MFlipTopic _ _ _ | MFlipChan _ _ _ _ _ => true
  | _ => false
  end.
Definition nrel (p : list micro) : nat := length (filter relevant p).
Definition avail (p : list micro) : nat := match p with MEnter _ :: _ => 0 | _ => nrel p end.

Lemma nrel_app : forall p q, nrel (p ++ q) = nrel p + nrel q.
Proof. intros. unfold nrel. rewrite filter_app, app_length. reflexivity. Qed.

Lemma nrel_enter : forall pad o l, nrel (enter pad o l) <= 1.
Proof.
  intros pad o l. destruct o; cbn.
  - destruct (valid t); [destruct (find_topic t l)|]; cbn; lia.
  - destruct (find_topic t l); [|cbn; lia]. destruct (pad && negb (eph t)); cbn; lia.
  - destruct (find_topic t l); cbn; lia.
  - destruct (valid t && valid c); [destruct (find_topic t l)|]; cbn; lia.
  - destruct (valid t && valid c); [destruct (find_topic t l)|]; cbn; lia.
  - destruct (valid t && valid c); [destruct (find_topic t l)|]; cbn; lia.
  - cbn. lia.
Qed.

Lemma nrel_found_chan : forall pad g t c a l, nrel (found_chan pad g t c a l) <= 1.
Proof.
  intros. unfold found_chan. destruct (get_topic g t l) as [tp|]; [|cbn; lia].
  destruct (find_chan c (t_chans tp)); [|cbn; lia]. destruct a; cbn; [|lia].
  destruct (pad && negb (eph c) && negb (eph t)); cbn; lia.
Qed.

Lemma nrel_skip_drop : forall p, nrel (skip_drop p) <= nrel p.
Proof. intros [|[] p]; cbn; lia. Qed.

Lemma nrel_cons : forall m p, nrel (m :: p) = (if relevant m then 1 else 0) + nrel p.
Proof. intros. unfold nrel. cbn. destruct (relevant m); reflexivity. Qed.

Definition N1 (s : st) : Prop := forall i p, In (i, p) (threads s) -> nrel p <= 1.

Lemma N1_step : forall s e, N1 s -> N1 (step s e).
Proof.
  intros s e I. destruct e as [i o|i| |k|kf| |]; rewrite step_fixed; cbn [step_].
  - destruct (up s); [|exact I]. destruct (get_thread i (threads s)); [exact I|].
    intros j q Hin. cbn in Hin. apply in_app_or in Hin. destruct Hin as [Hin|[Hin|[]]]; [eapply I; exact Hin|].
    inversion Hin; subst. cbn. lia.
  - destruct (get_thread i (threads s)) as [[|m rest]|] eqn:Hget; try exact I.
    assert (Hp : nrel (m :: rest) <= 1) by (eapply I; apply get_thread_in; exact Hget).
    rewrite nrel_cons in Hp.
    intros j q Hin.
    destruct (exec_threads true s i m rest) as [E|[(p & E & Hpp)|(Em & _ & E)]]; rewrite E in Hin.
    + eapply I. exact Hin.
    + destruct (in_put_thread _ _ _ _ _ Hin) as [H|(-> & -> & _)]; [eapply I; exact H|].
      destruct Hpp as [->|[->|[(o & -> & ->)|(g & x & c & a & -> & ->)]]].
      * lia.
      * pose proof (nrel_skip_drop rest). lia.
      * rewrite nrel_app. pose proof (nrel_enter true o (live_ s)). cbn in Hp. lia.
      * rewrite nrel_app. pose proof (nrel_found_chan true g x c a (live_ s)). cbn in Hp. lia.
    + assert (Hin' : In (j, q) (put_thread i (MAwait :: rest) (threads s))) by exact Hin.
      destruct (in_put_thread _ _ _ _ _ Hin') as [H|(-> & -> & _)]; [eapply I; exact H|].
      rewrite nrel_cons. cbn. lia.
  - destruct (lock s); [exact I|]. destruct (pending s); exact I.
  - destruct (lock s) as [j|]; [|exact I].
    intros i0 q Hin. destruct (persist_step_threads s j k) as [E|(i1 & rest & _ & Hg & E & _)]; rewrite E in Hin.
    + eapply I. exact Hin.
    + destruct (in_put_thread _ _ _ _ _ Hin) as [H|(-> & -> & _)]; [eapply I; exact H|].
      assert (Hp : nrel (MAwait :: rest) <= 1) by (eapply I; apply get_thread_in; exact Hg).
      rewrite nrel_cons in Hp. cbn in Hp. lia.
  - destruct (lock s) as [j|]; [|exact I].
    destruct (fail_step_fields s j kf) as [->|(_ & _ & _ & _ & _ & _ & _ & _ & _ & [E|(i1 & rest & _ & Hg & E)])]; [exact I| |].
    + intros i0 q Hin. rewrite E in Hin. eapply I. exact Hin.
    + intros i0 q Hin. rewrite E in Hin.
      destruct (in_put_thread _ _ _ _ _ Hin) as [H|(-> & -> & _)]; [eapply I; exact H|].
      assert (Hp : nrel (MAwait :: rest) <= 1) by (eapply I; apply get_thread_in; exact Hg).
      rewrite nrel_cons in Hp. cbn in Hp. lia.
  - destruct (up s); [|exact I]. intros j q [].
  - destruct (up s || broken s); [exact I|]. unfold restart.
    destruct (dat (fs s)) as [c|]; [destruct (complete c); [destruct (load (f_doc c) (next_id s))|]|]; intros j q [].
Qed.

(* ------------------------------------------------------------------ every recorded live state has distinct topic objects *)
Definition HistIds (s : st) : Prop := Forall (fun L => NoDup (map t_id L)) (hist s).

Lemma hist_step : forall s e, hist (step s e) = hist s \/ hist (step s e) = live_ (step s e) :: hist s.
Proof.
  intros s e. destruct e as [i o|i| |k|kf| |]; rewrite step_fixed; cbn [step_].
  - destruct (up s); [|auto]. destruct (get_thread i (threads s)); auto.
  - destruct (get_thread i (threads s)) as [[|m rest]|]; auto.
    destruct (exec_shape_holds true s i m rest) as (_ & _ & _ & [[_ H]|[H _]] & _); auto.
  - destruct (lock s); [auto|]. destruct (pending s); auto.
  - destruct (lock s) as [j|]; [|auto]. left. unfold persist_step.
    destruct (j_phase j).
    + destruct (first_unread (j_slots j)); reflexivity.
    + destruct (lookup (j_tmp j) (tmps (fs s))) as [c|]; [|reflexivity]. destruct (Nat.eqb _ _); reflexivity.
    + destruct (lookup (j_tmp j) (tmps (fs s))); reflexivity.
    + reflexivity.
    + destruct (lookup (j_tmp j) (tmps (fs s))) as [c|]; [|reflexivity].
      destruct (j_owner j) as [i|]; [|reflexivity]. cbn.
      destruct (get_thread i (threads s)) as [[|[] rest]|]; reflexivity.
  - destruct (lock s) as [j|]; [|auto]. left.
    destruct (fail_step_fields s j kf) as [->|(_ & _ & _ & _ & _ & E & _)]; [reflexivity|exact E].
  - destruct (up s); auto.
  - destruct (up s || broken s); [auto|]. unfold restart.
    destruct (dat (fs s)) as [c|]; [destruct (complete c); [destruct (load (f_doc c) (next_id s))|]|]; cbn; auto.
Qed.

Lemma HistIds_step : forall s e, Inv0 s -> HistIds s -> HistIds (step s e).
Proof.
  intros s e I0 H. unfold HistIds. destruct (hist_step s e) as [->| ->]; [exact H|].
  constructor; [|exact H]. apply (Inv0_step s e I0).
Qed.

(* ------------------------------------------------------------------ one mutation per snapshot window *)
(* the micro-steps that change a topic's persisted form without holding the NSQD lock *)
Definition mut_micro (m : micro) : bool :=
  match m with
  | MInsertChan _ _ _ | MDropChans _ _ | MRemoveChan _ _ _ | MFlipTopic _ _ _ | MFlipChan _ _ _ _ _ => true
  | _ => false
  end.
Definition snapping (s : st) : bool :=
  match lock s with Some j => match j_phase j with PSnap => true | _ => false end | None => false end.
Definition is_mut_step (s : st) (e : ev) : bool :=
  match e with
  | EStep i => match get_thread i (threads s) with Some (m :: _) => mut_micro m | _ => false end
  | _ => false
  end.
(* mutation steps executed since the running GetMetadata began *)
Definition wcount (n : nat) (s : st) (e : ev) : nat :=
  if snapping (step s e) then (if snapping s then (if is_mut_step s e then S n else n) else 0) else 0.
Fixpoint single_from (s : st) (n : nat) (evs : list ev) : Prop :=
  match evs with
  | [] => True
  | e :: r => wcount n s e <= 1 /\ single_from (step s e) (wcount n s e) r
  end.
(* no GetMetadata has two mutation steps between its first and its last topic read *)
Definition Single (evs : list ev) : Prop := single_from init 0 evs.

Definition unfilled_agree (sl : list (N * name * option dtopic)) (L l : live) : Prop :=
  forall g n, In (g, n, None) sl ->
    option_map snap_topic (get_topic g n L) = option_map snap_topic (get_topic g n l).
Definition Dirty (s : st) (j : job) (L : live) : Prop :=
  In L (hist s) /\ NoDup (map t_id L) /\ map fst (j_slots j) = map idname (filter keep_topic L) /\
  slots_fresh (j_slots j) L /\ unfilled_agree (j_slots j) L (live_ s).
Definition from_one (H : list live) (d : doc) : Prop := exists L, In L H /\ d = snapshot L.
Definition Lin (s : st) (n : nat) : Prop :=
  (forall c, dat (fs s) = Some c -> from_one (hist s) (f_doc c)) /\
  (forall j, lock s = Some j ->
     match j_phase j with
     | PSnap => slots_fresh (j_slots j) (live_ s) \/ (n = 1 /\ exists L, Dirty s j L)
     | _ => from_one (hist s) (j_doc j)
     end).

Lemma from_one_mono : forall H x d, from_one H d -> from_one (x :: H) d.
Proof. intros H x d (L & HL & E). exists L. split; [right; exact HL|exact E]. Qed.

Lemma from_one_step : forall s e d, from_one (hist s) d -> from_one (hist (step s e)) d.
Proof. intros s e d H. destruct (hist_step s e) as [->| ->]; [exact H|apply from_one_mono; exact H]. Qed.

Lemma fill_in_none : forall l i sl g n, In (g, n, None) (fill l i sl) -> In (g, n, None) sl.
Proof.
  intros l i sl. revert i. induction sl as [|x r IH]; intros i g n H; [destruct i; contradiction|].
  destruct i; cbn in H.
  - destruct H as [H|H]; [|right; exact H]. destruct x as [[g0 n0] o]. cbn in H.
    destruct (get_topic g0 n0 l); discriminate.
  - destruct H as [H|H]; [left; exact H|right; eapply IH; exact H].
Qed.

Lemma get_topic_unique' : forall l t, NoDup (map t_id l) -> In t l -> get_topic (t_id t) (t_name t) l = Some t.
Proof.
  intros l t H Hin. destruct (get_topic_in _ _ Hin) as [t' Ht']. rewrite Ht'. f_equal.
  destruct (get_topic_some _ _ _ _ Ht') as (Hin' & Eid & _).
  apply (nodup_map_inj t_id l); auto.
Qed.

Lemma name_eq_dec : forall a b : name, {a = b} + {a <> b}.
Proof. apply list_eq_dec. apply N.eq_dec. Qed.

Lemma filled_dec : forall g n (sl : list (N * name * option dtopic)),
  (exists e, In (g, n, Some e) sl) \/ ~ (exists e, In (g, n, Some e) sl).
Proof.
  intros g n sl. induction sl as [|[[g0 n0] o] sl IH].
  - right. intros (e & []).
  - destruct IH as [(e & H)|H]; [left; exists e; right; exact H|].
    destruct o as [e0|].
    + destruct (N.eq_dec g0 g) as [->|Hg]; [destruct (name_eq_dec n0 n) as [->|Hn]|].
      * left. exists e0. left. reflexivity.
      * right. intros (e & [E|Hin]); [inversion E; congruence|apply H; eauto].
      * right. intros (e & [E|Hin]); [inversion E; congruence|apply H; eauto].
    + right. intros (e & [E|Hin]); [discriminate|apply H; eauto].
Qed.

Lemma idname_nodup : forall l, NoDup (map t_id l) -> NoDup (map idname (filter keep_topic l)).
Proof.
  intros l H. induction l as [|t l IH]; cbn; [constructor|]. cbn in H. inversion H; subst.
  destruct (keep_topic t); [|auto]. cbn. constructor; [|auto].
  intros Hin. apply H2. apply in_map_iff in Hin. destruct Hin as (t' & E & Hin). apply filter_In in Hin.
  unfold idname in E. inversion E. apply in_map_iff. exists t'. tauto.
Qed.

(* what a micro-step can do to live while a persist job holds the lock *)
Lemma exec_locked_effect : forall pad s i m rest, lock s <> None ->
  live_ (exec pad s i m rest) = live_ s \/
  exists g n f, live_ (exec pad s i m rest) = upd_topic g n f (live_ s) /\ keeps_idname f /\
                (inert n f \/ mut_micro m = true).
Proof.
  intros pad s i m rest Hl.
  assert (Hlf : lock_free s = false) by (unfold lock_free; destruct (lock s); [reflexivity|contradiction]).
  destruct m; cbn [exec]; rewrite ?Hlf; try (left; reflexivity).
  - destruct (get_topic g t (live_ s)) as [tp|]; [|left; cbn; rewrite spawn_live; reflexivity].
    destruct (find_chan c (t_chans tp)); [left; reflexivity|].
    right. cbn. rewrite spawn_live. cbn. eexists _, _, _. split; [reflexivity|]. split; [intros x; split; reflexivity|right; reflexivity].
  - destruct (get_topic g t (live_ s)) as [tp|]; [|left; reflexivity]. destruct (t_exiting tp); [left; reflexivity|].
    right. cbn. rewrite spawn_live. cbn. eexists _, _, _. split; [reflexivity|]. split; [apply keeps_set_texiting|left; apply inert_texiting].
  - destruct (get_topic g t (live_ s)) as [tp|]; [|left; reflexivity].
    right. cbn. eexists _, _, _. split; [reflexivity|]. split; [apply keeps_set_chans|right; reflexivity].
  - destruct (get_topic g t (live_ s)) as [tp|]; [|left; reflexivity].
    destruct (find (is_chan h c) (t_chans tp)) as [ch|]; [|left; reflexivity]. destruct (c_exiting ch); [left; reflexivity|].
    right. cbn. rewrite spawn_live. cbn. eexists _, _, _. split; [reflexivity|]. split; [intros x; split; reflexivity|left; apply inert_cexiting].
  - right. cbn. eexists _, _, _. split; [reflexivity|]. split; [intros x; split; reflexivity|right; reflexivity].
  - right. cbn. eexists _, _, _. split; [reflexivity|]. split; [apply keeps_set_tpaused|right; reflexivity].
  - right. cbn. eexists _, _, _. split; [reflexivity|]. split; [intros x; split; reflexivity|right; reflexivity].
Qed.

Lemma snap_get_upd_inert : forall g n f g' n' l,
  inert n f -> eph n' = false ->
  option_map snap_topic (get_topic g' n' (upd_topic g n f l)) = option_map snap_topic (get_topic g' n' l).
Proof.
  intros g n f g' n' l [Hk Hi] He. rewrite get_topic_upd by assumption.
  destruct (get_topic g' n' l) as [t|] eqn:E; [|reflexivity]. cbn. f_equal.
  destruct (is_topic g n t) eqn:Ei; [|reflexivity].
  destruct Hi as [Heph|Hs]; [|apply Hs].
  exfalso. apply is_topic_spec in Ei. destruct (get_topic_some _ _ _ _ E) as (_ & _ & En'). destruct Ei as [_ Ei]. congruence.
Qed.

Lemma get_upd_other : forall g n f g' n' l, keeps_idname f -> (g', n') <> (g, n) ->
  get_topic g' n' (upd_topic g n f l) = get_topic g' n' l.
Proof.
  intros g n f g' n' l Hk Hne. rewrite get_topic_upd by assumption.
  destruct (get_topic g' n' l) as [t|] eqn:E; [|reflexivity]. cbn. f_equal.
  destruct (is_topic g n t) eqn:Ei; [|reflexivity].
  exfalso. apply is_topic_spec in Ei. destruct (get_topic_some _ _ _ _ E) as (_ & Eg & En). destruct Ei. apply Hne. congruence.
Qed.

Lemma slots_fst_nodup : forall s j, Inv0 s -> Inv1 s -> lock s = Some j -> j_phase j = PSnap ->
  NoDup (map fst (j_slots j)) /\ map fst (j_slots j) = map idname (filter keep_topic (live_ s)).
Proof.
  intros s j [Hnd _] I1 Hl Eph. destruct (i1_job s I1 j Hl) as [_ Hok]. unfold job_ok in Hok. rewrite Eph in Hok.
  destruct Hok as [Hs _]. split; [rewrite Hs; apply idname_nodup; exact Hnd|exact Hs].
Qed.

Lemma nodup_fst_slot : forall (sl : list (N * name * option dtopic)) g n o o',
  NoDup (map fst sl) -> In (g, n, o) sl -> In (g, n, o') sl -> o = o'.
Proof.
  intros sl g n o o' H H1 H2.
  assert (E : (g, n, o) = (g, n, o')) by (apply (nodup_map_inj fst sl); auto).
  inversion E. reflexivity.
Qed.

(* the step of a request thread while a job is reading the topics *)
Lemma Lin_exec_snap : forall s i m rest j n,
  Inv0 s -> Inv1 s -> lock s = Some j -> j_phase j = PSnap ->
  get_thread i (threads s) = Some (m :: rest) ->
  (slots_fresh (j_slots j) (live_ s) \/ (n = 1 /\ exists L, Dirty s j L)) ->
  (if mut_micro m then S n else n) <= 1 ->
  let s' := exec true s i m rest in
  slots_fresh (j_slots j) (live_ s') \/ ((if mut_micro m then S n else n) = 1 /\ exists L, Dirty s' j L).
Proof.
  intros s i m rest j n I0 I1 Hl Eph Hget Hlin Hle s'.
  destruct (slots_fst_nodup s j I0 I1 Hl Eph) as [Hnd Hs].
  pose proof (slot_names_kept_inv1 s I1 j Hl Eph) as Hkept.
  destruct (i1_hist s I1 (proj1 (i1_job s I1 j Hl))) as [r Hr].
  assert (Hh : hist s' = hist s \/ hist s' = live_ s' :: hist s).
  { destruct (exec_shape_holds true s i m rest) as (_ & _ & _ & [[_ H]|[H _]] & _); auto. }
  assert (Hin_mono : forall L, In L (hist s) -> In L (hist s')).
  { intros L H. destruct Hh as [->| ->]; [exact H|right; exact H]. }
  assert (Hl_ne : lock s <> None) by congruence.
  destruct (exec_locked_effect true s i m rest Hl_ne) as [E|(g & nm & f & E & Hk & Hcase)]; fold s' in E.
  - (* live unchanged *)
    destruct Hlin as [Hc|(En & L & HL & H2 & H3 & H4 & H5)].
    + left. rewrite E. exact Hc.
    + right. split; [destruct (mut_micro m); lia|]. exists L. unfold Dirty. rewrite E. auto 10.
  - destruct (mut_micro m) eqn:Emut.
    + (* a mutation: there was none before in this window *)
      assert (n = 0) by lia. subst n.
      destruct Hlin as [Hc|(En & _)]; [|discriminate].
      destruct (filled_dec g nm (j_slots j)) as [(e0 & Hfilled)|Hnot].
      * right. split; [reflexivity|]. exists (live_ s). unfold Dirty. repeat split.
        -- apply Hin_mono. rewrite Hr. left. reflexivity.
        -- apply I0.
        -- exact Hs.
        -- exact Hc.
        -- intros g' n' Hin'. rewrite E. symmetry. rewrite get_upd_other; [reflexivity|exact Hk|].
           intros Eq. inversion Eq; subst g' n'.
           pose proof (nodup_fst_slot _ _ _ _ _ Hnd Hin' Hfilled). discriminate.
      * left. rewrite E. intros g' n' e' Hin'. destruct (Hc g' n' e' Hin') as (t' & Ht' & He').
        exists t'. split; [|exact He']. rewrite get_upd_other; [exact Ht'|exact Hk|].
        intros Eq. inversion Eq; subst g' n'. apply Hnot. eauto.
    + (* not a mutation step: the change is invisible in the persisted form *)
      destruct Hcase as [Hi|Hd]; [|discriminate].
      destruct Hlin as [Hc|(En & L & HL & H2 & H3 & H4 & H5)].
      * left. rewrite E.
        pose proof (fresh_of_inert (Some j) g nm f (live_ s) None) as F. cbn in F. unfold job_fresh in F. rewrite Eph in F.
        apply F; [|exact Hi|exact Hc]. intros j0 Ej0. inversion Ej0; subst j0. intros _. exact Hkept.
      * right. split; [exact En|]. exists L. unfold Dirty. repeat split; auto.
        intros g' n' Hin'. rewrite E. rewrite snap_get_upd_inert; [apply H5; exact Hin'|exact Hi|eapply Hkept; exact Hin'].
Qed.

Lemma first_unread_some : forall sl i0, first_unread sl = Some i0 ->
  exists x, nth_error sl i0 = Some x /\ unread x = true.
Proof.
  induction sl as [|y sl IH]; intros i0 H; [discriminate|]. cbn in H.
  destruct (unread y) eqn:E.
  - inversion H; subst. exists y. auto.
  - destruct (first_unread sl) as [i1|] eqn:E1; [|discriminate]. cbn in H. inversion H; subst.
    destruct (IH i1 eq_refl) as (x & Hx & Hu). exists x. auto.
Qed.

Definition chosen (sl : list (N * name * option dtopic)) (k : N) (i0 : nat) : nat :=
  match nth_error sl (N.to_nat k) with Some x => if unread x then N.to_nat k else i0 | None => i0 end.

Lemma chosen_unread : forall sl k i0, first_unread sl = Some i0 ->
  exists x, nth_error sl (chosen sl k i0) = Some x /\ unread x = true.
Proof.
  intros sl k i0 H. unfold chosen. destruct (nth_error sl (N.to_nat k)) as [x|] eqn:E.
  - destruct (unread x) eqn:Eu; [exists x; auto|apply first_unread_some; exact H].
  - apply first_unread_some. exact H.
Qed.

Lemma fill_in_unread : forall l i sl x g n e,
  nth_error sl i = Some x -> unread x = true -> In (g, n, Some e) (fill l i sl) ->
  In (g, n, Some e) sl \/ (In (g, n, None) sl /\ (g, n, Some e) = read_slot l (g, n, None)).
Proof.
  intros l i sl. revert i. induction sl as [|y r IH]; intros i x g n e Hn Hu H; [destruct i; discriminate|].
  destruct i; cbn in *.
  - inversion Hn; subst y. destruct H as [H|H]; [|left; right; exact H].
    destruct x as [[g0 n0] o]. destruct o; [discriminate|]. right. cbn [read_slot] in H.
    assert (g0 = g /\ n0 = n) as [-> ->] by (destruct (get_topic g0 n0 l); inversion H; auto).
    split; [left; reflexivity|]. cbn [read_slot]. symmetry. exact H.
  - destruct H as [H|H]; [left; left; exact H|].
    destruct (IH _ _ _ _ _ Hn Hu H) as [H1|[H1 H2]]; [left; right; exact H1|right; split; [right; exact H1|exact H2]].
Qed.

Lemma Lin_new_job : forall o l lo, slots_fresh (j_slots (new_job o l lo)) l.
Proof. intros o l lo g n e H. exfalso. eapply slots_new_unfilled. exact H. Qed.
Lemma Lin_new_slots : forall l0 l, slots_fresh (map slot_of l0) l.
Proof. intros l0 l g n e H. exfalso. eapply slots_new_unfilled. exact H. Qed.

Lemma Lin_persist : forall s j k n,
  Inv0 s -> Inv1 s -> HistIds s -> lock s = Some j -> Lin s n ->
  Lin (persist_step s j k) (if snapping (persist_step s j k) then n else 0).
Proof.
  intros s j k n I0 I1 HI Hl [Hdat Hjob].
  destruct (i1_job s I1 j Hl) as [Hup Hok].
  destruct (i1_hist s I1 Hup) as [r Hr].
  specialize (Hjob j Hl). unfold snapping, persist_step in *. unfold job_ok in Hok.
  destruct (j_phase j) eqn:Eph.
  - destruct Hok as [Hs Hf].
    destruct (first_unread (j_slots j)) as [i0|] eqn:Efu.
    + (* read one more topic *)
      fold (chosen (j_slots j) k i0).
      destruct (chosen_unread _ k _ Efu) as (x & Hnth & Hunr).
      cbn. split; [exact Hdat|]. intros j' Hj'. inversion Hj'; subst j'. cbn.
      destruct Hjob as [Hc|(En & L & HL & H2 & H3 & H4 & H5)].
      * left. intros g nm e Hin. destruct (fill_in _ _ _ _ _ _ Hin) as [Hold|[Hin' Hrd]]; [apply (Hc g nm e Hold)|].
        rewrite Hs in Hin'. destruct (read_slot_ok s g nm e (ex_intro _ r Hr) Hin' Hrd) as (_ & _ & H). exact H.
      * right. split; [exact En|]. exists L. unfold Dirty. cbn. repeat split; auto.
        -- rewrite fill_fst. exact H3.
        -- intros g nm e Hin.
           destruct (fill_in_unread _ _ _ _ _ _ _ Hnth Hunr Hin) as [Hold|[Hnone Hrd]]; [apply (H4 g nm e Hold)|].
           assert (Hin' : In (g, nm) (map idname (filter keep_topic (live_ s)))).
           { rewrite <- Hs. apply in_map_iff. exists (g, nm, None). auto. }
           destruct (read_slot_ok s g nm e (ex_intro _ r Hr) Hin' Hrd) as (_ & _ & tp & Hget & ->).
           specialize (H5 g nm Hnone). rewrite Hget in H5. cbn in H5.
           destruct (get_topic g nm L) as [tL|]; [|discriminate]. cbn in H5. exists tL. split; [reflexivity|]. congruence.
        -- intros g nm Hin. apply H5. eapply fill_in_none. exact Hin.
    + (* all read: the document *)
      cbn. split; [exact Hdat|]. intros j' Hj'. inversion Hj'; subst j'. cbn.
      pose proof (first_unread_none _ Efu) as Hall.
      destruct Hjob as [Hc|(En & L & HL & H2 & H3 & H4 & H5)].
      * exists (live_ s). split; [rewrite Hr; left; reflexivity|].
        apply slot_doc_snapshot with (l := live_ s); auto.
        intros t Ht. apply filter_In in Ht. apply get_topic_unique'; [apply I0|tauto].
      * exists L. split; [exact HL|].
        apply slot_doc_snapshot with (l := L); auto.
        intros t Ht. apply filter_In in Ht. apply get_topic_unique'; [exact H2|tauto].
  - destruct Hok as (c & Hlk & Hdoc & Hfh). rewrite Hlk.
    destruct (Nat.eqb _ _); cbn; (split; [exact Hdat|]); intros j' Hj'.
    + inversion Hj'; subst j'. cbn. exact Hjob.
    + cbn in Hj'. rewrite Hl in Hj'. inversion Hj'; subst j'. rewrite Eph. exact Hjob.
  - destruct Hok as (c & Hlk & Hdoc & Hc & Hfh). rewrite Hlk. cbn. split; [exact Hdat|].
    intros j' Hj'. inversion Hj'; subst j'. cbn. exact Hjob.
  - cbn. split; [exact Hdat|]. intros j' Hj'. inversion Hj'; subst j'. cbn. exact Hjob.
  - destruct Hok as (c & Hlk & Hdoc & Hc & Hsy & Hfh). rewrite Hlk.
    set (s1 := w_lo (w_lock (w_fs s (mkFS (Some c) (delete (j_tmp j) (tmps (fs s))))) None) (j_lo j)).
    assert (G : forall ths, Lin (w_threads s1 ths) 0).
    { intros ths. split; cbn.
      - intros c' Hc'. inversion Hc'; subst c'. rewrite Hdoc. exact Hjob.
      - discriminate. }
    destruct (j_owner j) as [i|]; [|apply (G (threads s1))].
    destruct (get_thread i (threads s1)) as [[|[] rest]|]; cbn; apply (G (threads s1)) || apply G.
Qed.

Lemma snapping_true : forall s, snapping s = true -> exists j, lock s = Some j /\ j_phase j = PSnap.
Proof.
  intros s H. unfold snapping in H. destruct (lock s) as [j|]; [|discriminate].
  exists j. split; [reflexivity|]. destruct (j_phase j); try discriminate. reflexivity.
Qed.

Lemma snapping_of : forall s j, lock s = Some j -> j_phase j = PSnap -> snapping s = true.
Proof. intros s j H1 H2. unfold snapping. rewrite H1, H2. reflexivity. Qed.

Lemma snapping_not : forall s j, lock s = Some j -> j_phase j <> PSnap -> snapping s = false.
Proof. intros s j H1 H2. unfold snapping. rewrite H1. destruct (j_phase j); try reflexivity. contradiction. Qed.

Lemma Lin_indep : forall s n m, snapping s = false -> Lin s n -> Lin s m.
Proof.
  intros s n m Hs [A B]. split; [exact A|]. intros j Hj. specialize (B j Hj).
  destruct (j_phase j) eqn:Eph; try exact B. rewrite (snapping_of s j Hj Eph) in Hs. discriminate.
Qed.

Lemma Lin_frame : forall s s' n,
  lock s' = lock s -> live_ s' = live_ s -> dat (fs s') = dat (fs s) -> hist s' = hist s ->
  Lin s n -> Lin s' (if snapping s then n else 0).
Proof.
  intros s s' n El Ev Ed Eh [A B].
  assert (L1 : Lin s' n).
  { split.
    - rewrite Ed, Eh. exact A.
    - intros j Hj. rewrite El in Hj. specialize (B j Hj). rewrite Eh, Ev.
      destruct (j_phase j); try exact B.
      destruct B as [B|(En & L & HLd)]; [left; exact B|right; split; [exact En|]].
      exists L. unfold Dirty in *. rewrite Eh, Ev. exact HLd. }
  destruct (snapping s) eqn:Es; [exact L1|].
  apply Lin_indep with (n := n); [|exact L1]. unfold snapping in *. rewrite El. exact Es.
Qed.

Lemma Lin_new : forall s' o lo H0,
  lock s' = Some (new_job o (live_ s') lo) ->
  (forall c, dat (fs s') = Some c -> from_one H0 (f_doc c)) -> (forall d, from_one H0 d -> from_one (hist s') d) ->
  Lin s' 0.
Proof.
  intros s' o lo H0 El A M. split.
  - intros c Hc. apply M. apply A. exact Hc.
  - intros j Hj. rewrite El in Hj. inversion Hj; subst j. cbn. left. apply Lin_new_slots.
Qed.

Lemma persist_leaves_snap : forall s j k, lock s = Some j -> j_phase j <> PSnap -> snapping (persist_step s j k) = false.
Proof.
  intros s j k Hl Hne. unfold snapping, persist_step. destruct (j_phase j) eqn:Eph; [contradiction| | | |].
  - destruct (lookup (j_tmp j) (tmps (fs s))) as [c|]; [|rewrite Hl, Eph; reflexivity].
    destruct (Nat.eqb _ _); cbn; [reflexivity|rewrite Hl, Eph; reflexivity].
  - destruct (lookup (j_tmp j) (tmps (fs s))) as [c|]; [reflexivity|rewrite Hl, Eph; reflexivity].
  - reflexivity.
  - destruct (lookup (j_tmp j) (tmps (fs s))) as [c|]; [|rewrite Hl, Eph; reflexivity].
    destruct (j_owner j) as [i|]; [|reflexivity]. cbn.
    destruct (get_thread i (threads s)) as [[|[] rest]|]; reflexivity.
Qed.

Lemma Lin_step : forall s e n,
  Inv0 s -> Inv1 s -> HistIds s -> Lin s n -> wcount n s e <= 1 -> Lin (step s e) (wcount n s e).
Proof.
  intros s e n I0 I1 HI HL Hle. unfold wcount in *.
  assert (FRAME : forall s', step s e = s' -> is_mut_step s e = false ->
            lock s' = lock s -> live_ s' = live_ s -> dat (fs s') = dat (fs s) -> hist s' = hist s ->
            Lin (step s e) (if snapping (step s e) then if snapping s then if is_mut_step s e then S n else n else 0 else 0)).
  { intros s' Es Em El Ev Ed Eh. rewrite Es, Em.
    assert (Esn : snapping s' = snapping s) by (unfold snapping; rewrite El; reflexivity).
    rewrite Esn. pose proof (Lin_frame s s' n El Ev Ed Eh HL) as F. destruct (snapping s); exact F. }
  destruct e as [i o|i| |k|kf| |].
  - (* EStart *)
    apply (FRAME (step s (EStart i o))); try reflexivity;
      rewrite step_fixed; cbn [step_]; destruct (up s); try reflexivity; destruct (get_thread i (threads s)); reflexivity.
  - (* EStep *)
    destruct (get_thread i (threads s)) as [[|m rest]|] eqn:Hget.
    + apply (FRAME s); try reflexivity; try (rewrite step_fixed; cbn [step_]; rewrite Hget; reflexivity).
      cbn. rewrite Hget. reflexivity.
    + assert (Es : step s (EStep i) = exec true s i m rest) by (rewrite step_fixed; cbn [step_]; rewrite Hget; reflexivity).
      assert (Em : is_mut_step s (EStep i) = mut_micro m) by (cbn; rewrite Hget; reflexivity).
      rewrite Es, Em in *. set (s' := exec true s i m rest) in *.
      destruct (exec_shape_holds true s i m rest) as (_ & _ & Efs & Hlv & Hlock). fold s' in Efs, Hlv, Hlock.
      assert (Hh : forall d, from_one (hist s) d -> from_one (hist s') d).
      { intros d Hd. destruct Hlv as [[_ ->]|[-> _]]; [exact Hd|apply from_one_mono; exact Hd]. }
      destruct HL as [A B].
      assert (A' : forall c, dat (fs s') = Some c -> from_one (hist s') (f_doc c)).
      { intros c Hc. rewrite Efs in Hc. apply Hh. apply A. exact Hc. }
      destruct (lock s) as [j|] eqn:El.
      * (* a job holds the lock: it keeps it *)
        assert (El' : lock s' = Some j) by (destruct Hlock as [E|(E & _)]; [exact E|discriminate]).
        destruct (j_phase j) eqn:Eph.
        -- rewrite (snapping_of s' j El' Eph), (snapping_of s j El Eph) in *.
           split; [exact A'|]. intros j' Hj'. rewrite El' in Hj'. inversion Hj'; subst j'. rewrite Eph.
           apply Lin_exec_snap; auto. specialize (B j eq_refl). rewrite Eph in B. exact B.
        -- rewrite (snapping_not s' j El') by congruence. split; [exact A'|]. intros j' Hj'. rewrite El' in Hj'. inversion Hj'; subst j'.
           rewrite Eph. apply Hh. specialize (B j eq_refl). rewrite Eph in B. exact B.
        -- rewrite (snapping_not s' j El') by congruence. split; [exact A'|]. intros j' Hj'. rewrite El' in Hj'. inversion Hj'; subst j'.
           rewrite Eph. apply Hh. specialize (B j eq_refl). rewrite Eph in B. exact B.
        -- rewrite (snapping_not s' j El') by congruence. split; [exact A'|]. intros j' Hj'. rewrite El' in Hj'. inversion Hj'; subst j'.
           rewrite Eph. apply Hh. specialize (B j eq_refl). rewrite Eph in B. exact B.
        -- rewrite (snapping_not s' j El') by congruence. split; [exact A'|]. intros j' Hj'. rewrite El' in Hj'. inversion Hj'; subst j'.
           rewrite Eph. apply Hh. specialize (B j eq_refl). rewrite Eph in B. exact B.
      * (* the lock was free: it still is, or this thread's MSync just took it *)
        assert (Hsn : snapping s = false) by (unfold snapping; rewrite El; reflexivity). rewrite Hsn.
        destruct Hlock as [E|(_ & E & Ev & _)].
        -- assert (Hsn' : snapping s' = false) by (unfold snapping; rewrite E; reflexivity). rewrite Hsn'.
           split; [exact A'|]. intros j' Hj'. congruence.
        -- assert (Hsn' : snapping s' = true) by (unfold snapping; rewrite E; reflexivity). rewrite Hsn'.
           split; [exact A'|]. intros j' Hj'. rewrite E in Hj'. inversion Hj'; subst j'. cbn. left. apply Lin_new_slots.
    + apply (FRAME s); try reflexivity; try (rewrite step_fixed; cbn [step_]; rewrite Hget; reflexivity).
      cbn. rewrite Hget. reflexivity.
  - (* ETask *)
    destruct (lock s) as [j|] eqn:El.
    + apply (FRAME s); try reflexivity; try assumption; rewrite step_fixed; cbn [step_]; rewrite El; reflexivity.
    + destruct (pending s) as [|p] eqn:Ep.
      * apply (FRAME s); try reflexivity; try assumption; rewrite step_fixed; cbn [step_]; rewrite El, Ep; reflexivity.
      * assert (Es : step s ETask = w_lock (w_pending s p) (Some (new_job None (live_ s) (length (hist s)))))
          by (rewrite step_fixed; cbn [step_]; rewrite El, Ep; reflexivity).
        rewrite Es. assert (Hsn : snapping s = false) by (unfold snapping; rewrite El; reflexivity). rewrite Hsn.
        cbn [snapping lock w_lock new_job j_phase]. destruct HL as [A B].
        split; [exact A|]. intros j' Hj'. cbn in Hj'. inversion Hj'; subst j'. cbn. left. apply Lin_new_slots.
  - (* EPersist *)
    destruct (lock s) as [j|] eqn:El.
    + assert (Es : step s (EPersist k) = persist_step s j k) by (rewrite step_fixed; cbn [step_]; rewrite El; reflexivity).
      rewrite Es. cbn [is_mut_step]. pose proof (Lin_persist s j k n I0 I1 HI El HL) as P.
      destruct (snapping (persist_step s j k)) eqn:Esn'; [|exact P].
      destruct (snapping s) eqn:Esn; [exact P|].
      exfalso. destruct (j_phase j) eqn:Eph.
      * rewrite (snapping_of s j El Eph) in Esn. discriminate.
      * rewrite persist_leaves_snap in Esn'; [discriminate|exact El|congruence].
      * rewrite persist_leaves_snap in Esn'; [discriminate|exact El|congruence].
      * rewrite persist_leaves_snap in Esn'; [discriminate|exact El|congruence].
      * rewrite persist_leaves_snap in Esn'; [discriminate|exact El|congruence].
    + apply (FRAME s); try reflexivity; try assumption; rewrite step_fixed; cbn [step_]; rewrite El; reflexivity.
  - (* EFault: the job is over, nsqd.dat as before *)
    destruct (lock s) as [j|] eqn:El.
    + assert (Es : step s (EFault kf) = fail_step s j kf) by (rewrite step_fixed; cbn [step_]; rewrite El; reflexivity).
      destruct (fail_step_fields s j kf) as [E|(_ & _ & _ & _ & _ & E6 & _ & E8 & E9 & _)].
      * apply (FRAME s); try reflexivity; try assumption. rewrite Es. exact E.
      * rewrite Es. assert (Hsn : snapping (fail_step s j kf) = false) by (unfold snapping; rewrite E9; reflexivity).
        rewrite Hsn. destruct HL as [A B]. split.
        -- intros c Hc. rewrite E8 in Hc. rewrite E6. apply A. exact Hc.
        -- intros j' Hj'. rewrite E9 in Hj'. discriminate.
    + apply (FRAME s); try reflexivity; try assumption; rewrite step_fixed; cbn [step_]; rewrite El; reflexivity.
  - (* EKill *)
    destruct (up s) eqn:Hup.
    + assert (Es : step s EKill = kill s) by (rewrite step_fixed; cbn [step_]; rewrite Hup; reflexivity).
      rewrite Es. cbn [snapping lock kill]. destruct HL as [A B]. split; [exact A|]. intros j Hj. discriminate.
    + apply (FRAME s); try reflexivity; try assumption; rewrite step_fixed; cbn [step_]; rewrite Hup; reflexivity.
  - (* ERestart *)
    destruct (up s || broken s) eqn:E.
    + apply (FRAME s); try reflexivity; try assumption; rewrite step_fixed; cbn [step_]; rewrite E; reflexivity.
    + assert (Hup : up s = false) by (destruct (up s); [discriminate|reflexivity]).
      destruct (i1_down s I1 Hup) as (El & _ & _).
      assert (Hsn : snapping s = false) by (unfold snapping; rewrite El; reflexivity). rewrite Hsn.
      assert (Es : step s ERestart = restart s) by (rewrite step_fixed; cbn [step_]; rewrite E; reflexivity).
      rewrite Es. destruct HL as [A B].
      assert (G : forall l nid, Lin (boot s l nid) (if snapping (boot s l nid) then 0 else 0)).
      { intros l nid. cbn [snapping lock boot new_job j_phase]. split; cbn.
        - intros c Hc. apply from_one_mono. apply A. exact Hc.
        - intros j Hj. inversion Hj; subst j. cbn. left. apply Lin_new_slots. }
      unfold restart. destruct (dat (fs s)) as [c|] eqn:Ed; [|apply G].
      destruct (complete c).
      * destruct (load (f_doc c) (next_id s)) as [l nid]. apply G.
      * cbn. split; cbn; [rewrite Ed; exact A|discriminate].
Qed.

Record InvS (s : st) : Prop := { is0 : Inv0 s; is1 : Inv1 s; ish : HistIds s }.
Lemma InvS_step : forall s e, InvS s -> InvS (step s e).
Proof. intros s e [A B C]. constructor; [apply Inv0_step|apply Inv1_step|apply HistIds_step]; assumption. Qed.
Lemma InvS_init : InvS init.
Proof. constructor; [apply Inv0_init|apply Inv1_init|constructor]. Qed.

Lemma Lin_run : forall evs s n, InvS s -> Lin s n -> single_from s n evs -> exists n', Lin (run s evs) n'.
Proof.
  induction evs as [|e evs IH]; intros s n IS HL Hs; cbn; [eauto|].
  destruct Hs as [Hle Hs]. apply (IH (step s e) (wcount n s e)); [apply InvS_step; exact IS| |exact Hs].
  destruct IS as [A B C]. apply Lin_step; assumption.
Qed.

(* C06_atomic_outside: in every schedule in which no GetMetadata has two mutation steps
   between its topic reads (the complement of known finding K8), nsqd.dat is the persisted
   form of ONE live state the daemon passed through *)
Lemma atomic_outside : forall evs, Single evs ->
  let s := run init evs in
  forall c, dat (fs s) = Some c -> exists L, In L (hist s) /\ f_doc c = snapshot L.
Proof.
  intros evs Hs s c Hc.
  destruct (Lin_run evs init 0 InvS_init) as [n' [A _]]; [|exact Hs|apply A; exact Hc].
  split; cbn; [discriminate|discriminate].
Qed.

(* ------------------------------------------------------------------ a sequential client never leaves that region *)
Fixpoint seq_from (s : st) (evs : list ev) : Prop :=
  match evs with
  | [] => True
  | e :: r => length (threads s) <= 1 /\ seq_from (step s e) r
  end.
(* at most one request in progress at any time *)
Definition Sequential (evs : list ev) : Prop := seq_from init evs.

Definition Kinv (s : st) (n : nat) : Prop :=
  n <= 1 /\ (snapping s = true -> n = 1 -> forall i p, In (i, p) (threads s) -> avail p = 0).

Lemma avail_le_nrel : forall p, avail p <= nrel p.
Proof. intros [|[] p]; cbn; lia. Qed.

Lemma one_thread : forall (ths : list (N * list micro)) i p,
  length ths <= 1 -> get_thread i ths = Some p -> ths = [(i, p)].
Proof.
  intros [|[k q] [|y r]] i p H Hg; cbn in *; try lia; try discriminate.
  destruct (N.eqb_spec k i) as [->|]; [inversion Hg; reflexivity|discriminate].
Qed.

Lemma put_one : forall i p q, put_thread i q [(i, p)] = match q with [] => [] | _ => [(i, q)] end.
Proof. intros i p q. unfold put_thread. destruct q; cbn; rewrite N.eqb_refl; reflexivity. Qed.

(* a mutation micro-step is never blocked: the thread moves on to the rest of its program *)
Lemma exec_threads_mut : forall pad s i m rest, mut_micro m = true ->
  threads (exec pad s i m rest) = put_thread i rest (threads s).
Proof.
  intros pad s i m rest H. destruct m; try discriminate; cbn [exec];
    repeat match goal with
           | |- context [match ?c with Some _ => _ | None => _ end] => destruct c
           | |- context [if ?c then _ else _] => destruct c
           end; cbn; rewrite ?spawn_threads; reflexivity.
Qed.

Lemma exec_enter_blocked : forall pad s i o rest j, lock s = Some j -> exec pad s i (MEnter o) rest = s.
Proof. intros. cbn [exec]. unfold lock_free. rewrite H. reflexivity. Qed.

Lemma prog_after_nonmut : forall pad l m rest p',
  (forall o, m <> MEnter o) -> avail (m :: rest) = 0 ->
  (p' = rest \/ p' = skip_drop rest \/ (exists o, m = MEnter o /\ p' = enter pad o l ++ rest) \/
   (exists g x c a, m = MFindChan g x c a /\ p' = found_chan pad g x c a l ++ rest)) ->
  nrel p' = 0.
Proof.
  intros pad l m rest p' Hne Hav Hpp.
  assert (Hn : nrel (m :: rest) = 0) by (destruct m; cbn in *; try exact Hav; exfalso; eapply Hne; reflexivity).
  rewrite nrel_cons in Hn.
  destruct Hpp as [->|[->|[(o & -> & _)|(g & x & c & a & -> & _)]]].
  - lia.
  - pose proof (nrel_skip_drop rest). lia.
  - exfalso. eapply Hne. reflexivity.
  - cbn in Hn. lia.
Qed.

Lemma Kinv_step : forall s e n,
  Inv1 s -> N1 s -> length (threads s) <= 1 -> Kinv s n -> Kinv (step s e) (wcount n s e).
Proof.
  intros s e n I1 HN Hone [Hn HK]. unfold wcount.
  destruct (snapping (step s e)) eqn:Esn'; [|split; [lia|intros; discriminate]].
  destruct (snapping s) eqn:Esn; [|split; [lia|intros _ H; discriminate]].
  destruct (snapping_true _ Esn) as (j & El & Eph).
  destruct e as [i o|i| |k|kf| |]; cbn [is_mut_step].
  - (* EStart *)
    split; [exact Hn|]. intros _ En i0 p Hin.
    rewrite step_fixed in Hin. cbn [step_] in Hin. destruct (up s); [|eapply HK; eauto].
    destruct (get_thread i (threads s)); [eapply HK; eauto|]. cbn in Hin.
    apply in_app_or in Hin. destruct Hin as [Hin|[Hin|[]]]; [eapply HK; eauto|]. inversion Hin; subst. reflexivity.
  - (* EStep *)
    destruct (get_thread i (threads s)) as [[|m rest]|] eqn:Hget.
    + split; [exact Hn|]. rewrite step_fixed. cbn [step_]. rewrite Hget. intros _. apply HK. reflexivity.
    + assert (Hp1 : nrel (m :: rest) <= 1) by (eapply HN; apply get_thread_in; exact Hget).
      pose proof (one_thread _ _ _ Hone Hget) as Eths.
      assert (Es : step s (EStep i) = exec true s i m rest) by (rewrite step_fixed; cbn [step_]; rewrite Hget; reflexivity).
      rewrite Es in *.
      destruct (mut_micro m) eqn:Em.
      * (* a mutation: the first in this window, and the request has none left *)
        assert (Hrel : relevant m = true) by (destruct m; try discriminate; reflexivity).
        assert (Hne : forall o, m <> MEnter o) by (intros o E; subst m; discriminate).
        assert (n = 0).
        { destruct n as [|[|n]]; [reflexivity| |lia]. exfalso.
          specialize (HK eq_refl eq_refl i (m :: rest) (get_thread_in _ _ _ Hget)).
          rewrite nrel_cons, Hrel in Hp1.
          destruct m; try discriminate; cbn in HK; lia. }
        subst n. split; [lia|]. intros _ _ i0 p Hin.
        rewrite exec_threads_mut in Hin by exact Em. rewrite Eths, put_one in Hin.
        rewrite nrel_cons, Hrel in Hp1.
        destruct rest as [|m1 r1]; [contradiction|]. destruct Hin as [Hin|[]]. inversion Hin; subst.
        pose proof (avail_le_nrel (m1 :: r1)). lia.
      * split; [exact Hn|]. intros _ En i0 p Hin.
        specialize (HK eq_refl En).
        assert (Hav : avail (m :: rest) = 0) by (apply (HK i); apply get_thread_in; exact Hget).
        destruct (exec_threads true s i m rest) as [E|[(p' & E & Hpp)|(Em' & Hlk & _)]].
        -- rewrite E in Hin. eapply HK. exact Hin.
        -- (* the program was replaced *)
           assert (Hcase : (exists o, m = MEnter o) \/ (forall o, m <> MEnter o))
             by (destruct m; try (right; intros o' E'; discriminate); left; eauto).
           destruct Hcase as [(o & ->)|Hne].
           ++ rewrite (exec_enter_blocked true s i o rest j El) in Hin. eapply HK. exact Hin.
           ++ pose proof (prog_after_nonmut true (live_ s) m rest p' Hne Hav Hpp) as Hz.
              rewrite E, Eths, put_one in Hin.
              destruct p' as [|m1 r1]; [contradiction|]. destruct Hin as [Hin|[]]. inversion Hin; subst.
              pose proof (avail_le_nrel (m1 :: r1)). lia.
        -- congruence.
    + split; [exact Hn|]. rewrite step_fixed. cbn [step_]. rewrite Hget. intros _. apply HK. reflexivity.
  - (* ETask: the lock is held *)
    split; [exact Hn|]. rewrite step_fixed. cbn [step_]. rewrite El. intros _. apply HK. reflexivity.
  - (* EPersist: still reading topics, the thread list is untouched *)
    split; [exact Hn|]. intros _ En i0 p Hin.
    rewrite step_fixed in Hin, Esn'. cbn [step_] in Hin, Esn'. rewrite El in Hin, Esn'.
    destruct (persist_step_threads s j k) as [E|(i1 & rest & _ & _ & _ & Hnone)].
    + rewrite E in Hin. eapply HK; eauto.
    + unfold snapping in Esn'. rewrite Hnone in Esn'. discriminate.
  - (* EFault: either nothing happened or the lock is free again *)
    rewrite step_fixed in Esn'. cbn [step_] in Esn'. rewrite El in Esn'.
    destruct (fail_step_fields s j kf) as [E|(_ & _ & _ & _ & _ & _ & _ & _ & E9 & _)].
    + split; [exact Hn|]. rewrite step_fixed. cbn [step_]. rewrite El, E. intros _. apply HK. reflexivity.
    + unfold snapping in Esn'. rewrite E9 in Esn'. discriminate.
  - (* EKill *)
    exfalso. rewrite step_fixed in Esn'. cbn [step_] in Esn'. destruct (i1_job s I1 j El) as [Hup _]. rewrite Hup in Esn'.
    cbn in Esn'. discriminate.
  - (* ERestart: the daemon is up *)
    split; [exact Hn|]. rewrite step_fixed. cbn [step_]. destruct (i1_job s I1 j El) as [Hup _]. rewrite Hup. cbn. intros _. apply HK. reflexivity.
Qed.

Lemma seq_single : forall evs s n, Inv1 s -> N1 s -> Kinv s n -> seq_from s evs -> single_from s n evs.
Proof.
  induction evs as [|e evs IH]; intros s n I1 HN HK Hs; cbn; [exact I|].
  destruct Hs as [Hone Hs]. pose proof (Kinv_step s e n I1 HN Hone HK) as HK'.
  split; [apply HK'|]. apply IH; [apply Inv1_step; exact I1|apply N1_step; exact HN|exact HK'|exact Hs].
Qed.

Lemma sequential_single : forall evs, Sequential evs -> Single evs.
Proof.
  intros evs H. apply seq_single; [apply Inv1_init|intros i p []| |exact H].
  split; [lia|]. intros H0. discriminate.
Qed.

(* C06_atomic_sequential: with at most one request in progress at any time (any number of
   Notify goroutines, any interleaving of their persists with the request's steps, kills
   and restarts) nsqd.dat is the persisted form of ONE live state the daemon passed through *)
Lemma atomic_sequential : forall evs, Sequential evs ->
  let s := run init evs in
  forall c, dat (fs s) = Some c -> exists L, In L (hist s) /\ f_doc c = snapshot L.
Proof. intros evs H. apply atomic_outside. apply sequential_single. exact H. Qed.

(* ------------------------------------------------------------------ the full statement is false (known finding K8) *)
Definition atomic_full : Prop :=
  forall evs, let s := run init evs in
  forall c, dat (fs s) = Some c -> exists L, In L (hist s) /\ f_doc c = snapshot L.

Definition k8_a : name := [97%N].
Definition k8_b : name := [98%N].
Definition k8_x : name := [120%N].
Definition k8_y : name := [121%N].
Definition k8_P : list ev := repeat (EPersist 4096%N) 8.
Definition k8_steps (i : N) (n : nat) : list ev := repeat (EStep i) n.
(* topics a and b, then channel b/y, then channel a/x are created; the daemon is idle.  Requests 5 (delete a/x) and 6 (delete b/y)
   both look their channel up and mark it exiting (two Notify goroutines pending).  One of
   the Notify persists takes the lock and reads topic a (x still listed).  Request 5 removes
   a/x from its map, then request 6 removes b/y.  The persist reads topic b (no y), writes,
   renames: nsqd.dat = {a/x, b}, a set of channels the daemon never had. *)
Definition k8_schedule : list ev :=
  [ERestart] ++ k8_P
  ++ [EStart 1%N (OCreateTopic k8_a)] ++ k8_steps 1%N 4 ++ [ETask] ++ k8_P
  ++ [EStart 2%N (OCreateTopic k8_b)] ++ k8_steps 2%N 4 ++ [ETask] ++ k8_P
  ++ [EStart 3%N (OCreateChan k8_b k8_y)] ++ k8_steps 3%N 4 ++ [ETask] ++ k8_P
  ++ [EStart 4%N (OCreateChan k8_a k8_x)] ++ k8_steps 4%N 4 ++ [ETask] ++ k8_P
  ++ [EStart 5%N (ODeleteChan k8_a k8_x)] ++ k8_steps 5%N 3      (* lookup, find channel, Channel.exit *)
  ++ [EStart 6%N (ODeleteChan k8_b k8_y)] ++ k8_steps 6%N 3
  ++ [ETask; EPersist 0%N]                                        (* the persist reads topic a *)
  ++ [EStep 5%N; EStep 6%N]                                       (* a/x leaves its map, then b/y *)
  ++ k8_P.                                                        (* reads topic b, writes, renames *)

(* exact (order-sensitive) equality of documents, for the witness check *)
Definition dchan_eqb (a b : dchan) : bool := name_eqb (dc_name a) (dc_name b) && Bool.eqb (dc_paused a) (dc_paused b).
Definition dtopic_eqb (a b : dtopic) : bool :=
  name_eqb (dt_name a) (dt_name b) && Bool.eqb (dt_paused a) (dt_paused b) && list_eqb dchan_eqb (dt_chans a) (dt_chans b).
Definition doc_eqb (a b : doc) : bool := list_eqb dtopic_eqb a b.

Lemma list_eqb_refl {A} (f : A -> A -> bool) : (forall x, f x x = true) -> forall l, list_eqb f l l = true.
Proof. intros H l. induction l as [|x l IH]; cbn; [reflexivity|]. rewrite H, IH. reflexivity. Qed.

Lemma doc_eqb_refl : forall d, doc_eqb d d = true.
Proof.
  apply list_eqb_refl. intros [n p cs]. unfold dtopic_eqb. cbn. rewrite name_eqb_refl, Bool.eqb_reflx. cbn.
  apply list_eqb_refl. intros [cn cp]. unfold dchan_eqb. cbn. rewrite name_eqb_refl, Bool.eqb_reflx. reflexivity.
Qed.

(* the final state of that schedule, evaluated once *)
Definition k8_state : st := Eval vm_compute in run init k8_schedule.
Lemma k8_state_eq : run init k8_schedule = k8_state.
Proof. vm_compute. reflexivity. Qed.

Definition k8_check : bool :=
  match dat (fs k8_state) with
  | Some c => doc_eqb (f_doc c) [mkDT k8_a false [mkDC k8_x false]; mkDT k8_b false []]
              && forallb (fun L => negb (doc_eqb (f_doc c) (snapshot L))) (hist k8_state)
  | None => false
  end.

Lemma k8_check_true : k8_check = true.
Proof. vm_compute. reflexivity. Qed.

Lemma atomic_full_refuted : ~ atomic_full.
Proof.
  intros H. pose proof k8_check_true as K. unfold k8_check in K.
  specialize (H k8_schedule). cbv zeta in H. rewrite k8_state_eq in H.
  destruct (dat (fs k8_state)) as [c|]; [|discriminate].
  destruct (H c eq_refl) as (L & HL & EL).
  apply andb_true_iff in K. destruct K as [_ K]. rewrite forallb_forall in K. specialize (K L HL).
  rewrite EL, doc_eqb_refl in K. discriminate.
Qed.
