(* Progress for model/Handoff.v: from every reachable state every thread can run to its end. *)
From Coq Require Import List Bool Arith Lia.
From NSQV Require Import model.Handoff proofs.HandoffProofs.
Import ListNotations.

(* ---------- progress: the protocol cannot deadlock ---------- *)

(* a closer's program that also releases what it took *)
Fixpoint released (r : list finstr) (w rd : bool) : bool :=
  match r with
  | [] => negb w && negb rd
  | FLock WMode :: r => released r true rd
  | FLock RMode :: r => released r w true
  | FUnlock WMode :: r => released r false rd
  | FUnlock RMode :: r => released r w false
  | _ :: r => released r w rd
  end.

Definition mstep' (fl w : bool) (m : mover) : mover := match mstep fl w m with Some m' => m' | None => m end.
Fixpoint iter {A} (n : nat) (f : A -> A) (x : A) : A := match n with O => x | S k => iter k f (f x) end.
Definition mdone (m : mover) : bool := match m_st m with MSdone | MSref => true | _ => false end.
Definition at_start (m : mover) : bool := match m_st m with MS0 => true | _ => false end.

(* the states a mover can be in at all (a Bare mover has no lock states) *)
Definition wfm (m : mover) : bool :=
  match m_kind m, m_st m with
  | Bare, (MS0 | MS3 | MSdone | MSref) => true
  | Bare, _ => false
  | _, _ => true
  end.

Lemma wfm_step fl w m : wfm m = true -> wfm (mstep' fl w m) = true.
Proof. destruct fl, w; destruct m as [k s l]; destruct k, s, l; vm_compute; intros; try discriminate; reflexivity. Qed.

Lemma seven_turns fl w m : wfm m = true ->
  let m' := iter 7 (mstep' fl w) m in
  mdone m' || (at_start m' && w) = true.
Proof. destruct fl, w; destruct m as [k s l]; destruct k, s, l; vm_compute; intros; try discriminate; reflexivity. Qed.

Lemma seven_turns_free fl m : wfm m = true -> mdone (iter 7 (mstep' fl false) m) = true.
Proof. destruct fl; destruct m as [k s l]; destruct k, s, l; vm_compute; intros; try discriminate; reflexivity. Qed.

Lemma done_stays fl w m : mdone m = true -> mstep' fl w m = m.
Proof. destruct fl, w; destruct m as [k s l]; destruct k, s, l; cbn; intros; try discriminate; reflexivity. Qed.

Lemma settled_not_holding m : mdone m || at_start m = true -> holds m = false.
Proof. destruct m as [k s l]; destruct k, s; cbn; intros; try discriminate; reflexivity. Qed.

(* ---------- lifting to states ---------- *)
Definition with_movers (st : state) (l : list mover) : state :=
  mkState l (flag st) (fw st) (fr st) (rest st) (sealed st) (flushdone st) (missed st).

Lemma with_movers_id st : with_movers st (movers st) = st.
Proof. destruct st; reflexivity. Qed.

Lemma upd_at {A} (pre : list A) (m : A) (l : list A) (g : A -> A) :
  upd (length pre) g (pre ++ m :: l) = pre ++ g m :: l.
Proof. induction pre as [|a pre IH]; cbn; [reflexivity|rewrite IH; reflexivity]. Qed.

Lemma nth_at {A} (pre : list A) (m : A) (l : list A) : nth_error (pre ++ m :: l) (length pre) = Some m.
Proof. induction pre as [|a pre IH]; cbn; [reflexivity|exact IH]. Qed.

(* k turns of the mover at position |pre| *)
Lemma run_turns k : forall st pre m l,
  movers st = pre ++ m :: l ->
  run st (repeat (Some (length pre)) k)
  = with_movers st (pre ++ iter k (mstep' (flag st) (fw st)) m :: l).
Proof.
  induction k as [|k IH]; intros st pre m l E.
  - cbn. rewrite <- E. symmetry. apply with_movers_id.
  - unfold run in *. cbn [repeat fold_left iter].
    assert (S1 : step st (Some (length pre)) = with_movers st (pre ++ mstep' (flag st) (fw st) m :: l)).
    { unfold step. rewrite E, nth_at. unfold mstep'. destruct (mstep (flag st) (fw st) m) as [m'|].
      - rewrite upd_at. reflexivity.
      - rewrite <- E. symmetry. apply with_movers_id. }
    rewrite S1. rewrite (IH _ pre (mstep' (flag st) (fw st) m) l) by reflexivity. reflexivity.
Qed.

Fixpoint sched_from (off n k : nat) : list (option nat) :=
  match n with O => [] | S n' => repeat (Some off) k ++ sched_from (S off) n' k end.

Lemma run_app st a b : run st (a ++ b) = run (run st a) b.
Proof. unfold run. apply fold_left_app. Qed.

Lemma run_all_turns k : forall l st pre,
  movers st = pre ++ l ->
  run st (sched_from (length pre) (length l) k)
  = with_movers st (pre ++ map (iter k (mstep' (flag st) (fw st))) l).
Proof.
  induction l as [|m l IH]; intros st pre E.
  - cbn. rewrite app_nil_r in *. rewrite <- E. symmetry. apply with_movers_id.
  - cbn [length sched_from map]. rewrite run_app, (run_turns k st pre m l E).
    set (st1 := with_movers st (pre ++ iter k (mstep' (flag st) (fw st)) m :: l)).
    assert (E1 : movers st1 = (pre ++ [iter k (mstep' (flag st) (fw st)) m]) ++ l)
      by (unfold st1; cbn; rewrite <- app_assoc; reflexivity).
    replace (S (length pre)) with (length (pre ++ [iter k (mstep' (flag st) (fw st)) m]))
      by (rewrite app_length; cbn; lia).
    rewrite (IH st1 _ E1). unfold st1, with_movers. cbn. rewrite <- app_assoc. reflexivity.
Qed.

Definition everyone (n k : nat) : list (option nat) := sched_from 0 n k.

Lemma run_everyone k st :
  run st (everyone (length (movers st)) k) = with_movers st (map (iter k (mstep' (flag st) (fw st))) (movers st)).
Proof. apply (run_all_turns k (movers st) st []). reflexivity. Qed.

(* ---------- what progress needs of a reachable state ---------- *)
Record Live (st : state) : Prop := {
  l_ok : ok_rest (rest st) (flag st) (fw st) (fr st) (sealed st) = true;
  l_rel : released (rest st) (fw st) (fr st) = true;
  l_wf : forallb wfm (movers st) = true }.

Lemma wfm_flush m : wfm (flush_mover m) = wfm m.
Proof. destruct m as [k s l]; destruct k, s, l; reflexivity. Qed.
Lemma holds_flush m : holds (flush_mover m) = holds m.
Proof. destruct m as [k s l]; destruct k, s, l; reflexivity. Qed.
Lemma mdone_flush m : mdone (flush_mover m) = mdone m.
Proof. destruct m as [k s l]; destruct k, s, l; reflexivity. Qed.

Lemma forallb_map' {A B} (P : B -> bool) (f : A -> B) l : forallb P (map f l) = forallb (fun x => P (f x)) l.
Proof. induction l as [|a l IH]; cbn; [reflexivity|rewrite IH; reflexivity]. Qed.
Lemma forallb_ext' {A} (P Q : A -> bool) l : (forall x, P x = Q x) -> forallb P l = forallb Q l.
Proof. intros E. induction l as [|a l IH]; cbn; [reflexivity|rewrite E, IH; reflexivity]. Qed.

Lemma step_Live st who : Live st -> Live (step st who).
Proof.
  intros HL. pose proof HL as [Hok Hrel Hwf]. destruct who as [i|]; unfold step.
  - destruct (nth_error (movers st) i) as [m|] eqn:E; [|exact HL].
    destruct (mstep (flag st) (fw st) m) as [m'|] eqn:S; [|exact HL].
    split; cbn; try assumption. apply forallb_upd; [exact Hwf|].
    pose proof (wfm_step (flag st) (fw st) m (forallb_nth _ _ _ _ Hwf E)) as W. unfold mstep' in W. rewrite S in W. exact W.
  - unfold fstep. destruct (rest st) as [|ins r] eqn:R; [exact HL|].
    destruct ins as [|[|]|[|]| |]; cbn in Hok, Hrel.
    + split; cbn; assumption.
    + destruct (fw st) eqn:W; [exact HL|]. apply andb_prop in Hok. destruct Hok as [_ Hok]. split; cbn; rewrite ?W; assumption.
    + destruct (forallb (fun m => negb (holds m)) (movers st) && negb (fr st) && negb (fw st)) eqn:En; [|exact HL].
      apply andb_prop in Hok. destruct Hok as [_ Hok]. split; cbn; assumption.
    + apply andb_prop in Hok. destruct Hok as [_ Hok]. split; cbn; assumption.
    + apply andb_prop in Hok. destruct Hok as [_ Hok]. split; cbn; assumption.
    + apply andb_prop in Hok. destruct Hok as [_ Hok]. split; cbn; try assumption.
      rewrite forallb_map'. rewrite (forallb_ext' _ wfm); [exact Hwf|apply wfm_flush].
    + apply andb_prop in Hok. destruct Hok as [_ Hok]. split; cbn; try assumption.
      rewrite forallb_map'. rewrite (forallb_ext' _ wfm); [exact Hwf|apply wfm_flush].
Qed.

Lemma run_Live sched : forall st, Live st -> Live (run st sched).
Proof. induction sched as [|w sched IH]; intros st H; cbn; [exact H|]. apply IH, step_Live, H. Qed.

Lemma init_Live ks prog : ok_prog prog = true -> released prog false false = true -> Live (init ks prog).
Proof.
  intros Hp Hr. split; cbn; [exact Hp|exact Hr|]. rewrite forallb_map'. 
  induction ks as [|k ks IH]; cbn; [reflexivity|]. rewrite IH. destruct k; reflexivity.
Qed.

(* the closer runs to its end when nobody holds the lock *)
Lemma closer_runs : forall r st,
  rest st = r -> forallb (fun m => negb (holds m)) (movers st) = true ->
  ok_rest r (flag st) (fw st) (fr st) (sealed st) = true -> released r (fw st) (fr st) = true ->
  let st' := run st (repeat None (length r)) in
  rest st' = [] /\ fw st' = false /\ fr st' = false /\ length (movers st') = length (movers st) /\
  forallb mdone (movers st') = forallb mdone (movers st) /\ forallb wfm (movers st') = forallb wfm (movers st).
Proof.
  induction r as [|ins r IH]; intros st R Hh Hok Hrel.
  - cbn. cbn in Hrel. apply andb_prop in Hrel. destruct Hrel as [A B].
    destruct (fw st), (fr st); try discriminate. repeat split; assumption.
  - cbn [length repeat]. unfold run. cbn [fold_left]. change (fold_left step (repeat None (length r)) (step st None)) with (run (step st None) (repeat None (length r))).
    assert (Hflush : forall l, forallb (fun m => negb (holds m)) l = true ->
                               forallb (fun m => negb (holds m)) (map flush_mover l) = true).
    { intros l H. rewrite forallb_map'. rewrite (forallb_ext' _ (fun m => negb (holds m))); [exact H|].
      intros x. rewrite holds_flush. reflexivity. }
    destruct ins as [|[|]|[|]| |]; cbn in Hok, Hrel; unfold step, fstep; rewrite R.
    + specialize (IH (mkState (movers st) true (fw st) (fr st) r (sealed st || fw st) (flushdone st) (missed st))).
      cbn in IH. apply IH; auto.
    + apply andb_prop in Hok. destruct Hok as [Hc Hok]. apply andb_prop in Hc. destruct Hc as [Hw Hr].
      destruct (fw st) eqn:W; [discriminate|]. cbv iota.
      specialize (IH (mkState (movers st) (flag st) false true r (sealed st) (flushdone st) (missed st))).
      cbn in IH. apply IH; auto.
    + apply andb_prop in Hok. destruct Hok as [Hc Hok]. apply andb_prop in Hc. destruct Hc as [Hw Hr].
      rewrite Hh, Hw, Hr. cbv iota. cbn [andb].
      specialize (IH (mkState (movers st) (flag st) true (fr st) r (sealed st || flag st) (flushdone st) (missed st))).
      cbn in IH. apply IH; auto.
    + apply andb_prop in Hok. destruct Hok as [_ Hok].
      specialize (IH (mkState (movers st) (flag st) (fw st) false r (sealed st) (flushdone st) (missed st))).
      cbn in IH. apply IH; auto.
    + apply andb_prop in Hok. destruct Hok as [_ Hok].
      specialize (IH (mkState (movers st) (flag st) false (fr st) r (sealed st) (flushdone st) (missed st))).
      cbn in IH. apply IH; auto.
    + apply andb_prop in Hok. destruct Hok as [_ Hok].
      specialize (IH (mkState (map flush_mover (movers st)) (flag st) (fw st) (fr st) r (sealed st) true (missed st || existsb in_hand (movers st)))).
      cbn in IH. destruct IH as (A & B & C & D & E & F); auto.
      repeat split; auto.
      * rewrite D. apply map_length.
      * rewrite E, forallb_map'. apply forallb_ext'. apply mdone_flush.
      * rewrite F, forallb_map'. apply forallb_ext'. apply wfm_flush.
    + apply andb_prop in Hok. destruct Hok as [_ Hok].
      specialize (IH (mkState (map flush_mover (movers st)) (flag st) (fw st) (fr st) r (sealed st) (flushdone st) (missed st || existsb in_hand (movers st)))).
      cbn in IH. destruct IH as (A & B & C & D & E & F); auto.
      repeat split; auto.
      * rewrite D. apply map_length.
      * rewrite E, forallb_map'. apply forallb_ext'. apply mdone_flush.
      * rewrite F, forallb_map'. apply forallb_ext'. apply wfm_flush.
Qed.

Lemma wfm_iter fl w n : forall x, wfm x = true -> wfm (iter n (mstep' fl w) x) = true.
Proof. induction n as [|n IH]; intros x W; cbn; [exact W|]. apply IH, wfm_step, W. Qed.

Definition finished (st : state) : bool :=
  match rest st with [] => true | _ => false end && forallb mdone (movers st).

(* everybody who holds the lock finishes what he is doing; the closer runs to its end; the
   others run to theirs *)
Definition finishing_schedule (st : state) : list (option nat) :=
  everyone (length (movers st)) 7 ++ repeat None (length (rest st)) ++ everyone (length (movers st)) 7.

Theorem can_always_finish st : Live st -> finished (run st (finishing_schedule st)) = true.
Proof.
  intros [Hok Hrel Hwf]. unfold finishing_schedule. rewrite !run_app.
  rewrite (run_everyone 7 st).
  set (f := iter 7 (mstep' (flag st) (fw st))).
  set (st1 := with_movers st (map f (movers st))).
  assert (Hwf1 : forallb wfm (movers st1) = true).
  { unfold st1. cbn [movers with_movers]. rewrite forallb_map'. rewrite forallb_forall in *. intros x Hx. unfold f.
    apply wfm_iter, Hwf, Hx. }
  assert (Hh1 : forallb (fun m => negb (holds m)) (movers st1) = true).
  { unfold st1. cbn [movers with_movers]. rewrite forallb_map'. rewrite forallb_forall in *. intros x Hx.
    pose proof (seven_turns (flag st) (fw st) x (Hwf x Hx)) as S7. cbv zeta in S7. fold f in S7.
    rewrite settled_not_holding; [reflexivity|].
    apply orb_prop in S7. destruct S7 as [S7|S7]; [rewrite S7; reflexivity|].
    apply andb_prop in S7. destruct S7 as [S7 _]. rewrite S7. apply orb_true_r. }
  pose proof (closer_runs (rest st) st1 eq_refl Hh1 Hok Hrel) as CR. cbv zeta in CR.
  destruct CR as (R2 & W2 & F2 & L2 & D2 & WF2).
  set (st2 := run st1 (repeat None (length (rest st)))) in *.
  replace (length (movers st)) with (length (movers st2)) by (rewrite L2; unfold st1; cbn [movers with_movers]; apply map_length).
  rewrite (run_everyone 7 st2). unfold finished. cbn [rest movers with_movers]. rewrite R2, W2. cbn [andb].
  rewrite forallb_map'. rewrite Hwf1 in WF2. rewrite forallb_forall in *. intros x Hx.
  apply seven_turns_free. apply WF2, Hx.
Qed.

(* from EVERY reachable state of EVERY configuration whose closer's program is in order and
   releases what it takes, there is a way for all threads to finish: no deadlock *)
Theorem handoff_no_deadlock ks prog sched :
  ok_prog prog = true -> released prog false false = true ->
  exists more, finished (run (init ks prog) (sched ++ more)) = true.
Proof.
  intros Hp Hr. exists (finishing_schedule (run (init ks prog) sched)). rewrite run_app.
  apply can_always_finish, run_Live, init_Live; assumption.
Qed.

Lemma source_programs_release :
  released (topic_exit_prog WMode) false false = true /\ released (channel_exit_prog WMode) false false = true
  /\ released (channel_empty_prog WMode) false false = true.
Proof. repeat split; reflexivity. Qed.
