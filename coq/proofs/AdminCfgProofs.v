(* Proofs about the start-up configuration paths of nsqadmin (model/AdminCfg.v) for C17. *)
From Coq Require Import String List NArith Bool Ascii.
From NSQV Require Import model.Judge model.Names gen.AdminRoutes gen.AdminOptTable model.Admin model.AdminCfg proofs.AdminProofs.
Import ListNotations.
Open Scope bool_scope.
Open Scope list_scope.
Open Scope N_scope.

(* ------------------------------------------------------------------ the regenerated tables *)

Lemma bindings_current : bindings_ok admin_tables = true.
Proof. vm_compute. reflexivity. Qed.

Lemma docs_current : docs_ok admin_tables admin_doc_keys = true.
Proof. vm_compute. reflexivity. Qed.

Lemma start_shape_current : admin_start_shape = start_shape_expected /\ admin_validated_keys = validated_expected.
Proof. split; vm_compute; reflexivity. Qed.

(* ------------------------------------------------------------------ Resolve = the documented paths *)

Lemma bytess_eqb_nil : forall a, bytess_eqb a [] = true -> a = [].
Proof. intros [|x a]; simpl; intros H; [reflexivity|discriminate]. Qed.

Lemma binding_list : forall T field flag key l,
  String.eqb flag "" = false ->
  binding_ok T field "[]string" flag key (CVList []) = true ->
  field_list T l field = Some (spec_list flag key l).
Proof.
  intros T field flag key l Hne H. unfold binding_ok in H.
  destruct (find_field T field) as [f|] eqn:Ef; [|discriminate].
  repeat (apply andb_true_iff in H; destruct H as [H ?]).
  apply String.eqb_eq in H. rename H into Hty.
  match goal with h : String.eqb (of_flag f) flag = true |- _ => apply String.eqb_eq in h; rename h into Hfl end.
  match goal with h : String.eqb (cfg_key f) key = true |- _ => apply String.eqb_eq in h; rename h into Hk end.
  match goal with h : String.eqb (of_deprecated f) "" = true |- _ => rename h into Hd end.
  destruct (find_flag T flag) as [fd|] eqn:Efd; [|discriminate].
  match goal with h : _ && _ = true |- _ => apply andb_true_iff in h; destruct h as [Hkind Hdef] end.
  simpl in Hkind.
  unfold field_list, field_value. rewrite Ef, Hty, Hfl, Hne. simpl.
  unfold resolve_field. rewrite Hd, Hfl, Efd, Hk. simpl.
  unfold spec_list.
  destruct (arg_values flag l) as [|v vs] eqn:Ea.
  - destruct (file_value key l) as [v|]; [reflexivity|].
    destruct (flag_default T fd) as [[s|a]|]; try discriminate.
    apply bytess_eqb_nil in Hdef. subst a. reflexivity.
  - unfold flag_given. rewrite Hkind. reflexivity.
Qed.

Lemma kind_str_not_list : String.eqb kind_str kind_list = false.
Proof. reflexivity. Qed.

Lemma binding_str : forall T field flag key dflt l,
  String.eqb flag "" = false ->
  binding_ok T field "string" flag key (CVStr dflt) = true ->
  field_str T l field = Some (spec_str flag key dflt l).
Proof.
  intros T field flag key dflt l Hne H. unfold binding_ok in H.
  destruct (find_field T field) as [f|] eqn:Ef; [|discriminate].
  repeat (apply andb_true_iff in H; destruct H as [H ?]).
  apply String.eqb_eq in H. rename H into Hty.
  match goal with h : String.eqb (of_flag f) flag = true |- _ => apply String.eqb_eq in h; rename h into Hfl end.
  match goal with h : String.eqb (cfg_key f) key = true |- _ => apply String.eqb_eq in h; rename h into Hk end.
  match goal with h : String.eqb (of_deprecated f) "" = true |- _ => rename h into Hd end.
  destruct (find_flag T flag) as [fd|] eqn:Efd; [|discriminate].
  match goal with h : _ && _ = true |- _ => apply andb_true_iff in h; destruct h as [Hkind Hdef] end.
  simpl in Hkind. apply String.eqb_eq in Hkind.
  unfold field_str, field_value. rewrite Ef, Hty, Hfl, Hne. simpl.
  unfold resolve_field. rewrite Hd, Hfl, Efd, Hk. simpl.
  unfold spec_str.
  destruct (arg_values flag l) as [|v vs] eqn:Ea.
  - destruct (file_value key l) as [v|]; [reflexivity|].
    destruct (flag_default T fd) as [[s|a]|]; try discriminate.
    apply bytes_eqb_eq in Hdef. subst s. reflexivity.
  - unfold flag_given. rewrite Hkind, kind_str_not_list, String.eqb_refl. reflexivity.
Qed.

(* whatever the operator wrote, on the command line, in the file or both: a table that binds
   the five options to their documented flags and keys makes Resolve yield exactly the
   documented configuration *)
Theorem resolve_is_documented : forall T, bindings_ok T = true ->
  forall l, resolve_launch T l = Some (spec_config l).
Proof.
  intros T H l. unfold bindings_ok in H.
  repeat (apply andb_true_iff in H; destruct H as [H ?]).
  unfold resolve_launch. rewrite H.
  rewrite (binding_list T "AdminUsers" "admin-user" "admin_users" l eq_refl) by assumption.
  rewrite (binding_str T "ACLHTTPHeader" "acl-http-header" "acl_http_header" default_acl_header l eq_refl) by assumption.
  rewrite (binding_str T "AllowConfigFromCIDR" "allow-config-from-cidr" "allow_config_from_cidr" default_config_cidr l eq_refl) by assumption.
  rewrite (binding_list T "NSQLookupdHTTPAddresses" "lookupd-http-address" "nsqlookupd_http_addresses" l eq_refl) by assumption.
  rewrite (binding_list T "NSQDHTTPAddresses" "nsqd-http-address" "nsqd_http_addresses" l eq_refl) by assumption.
  reflexivity.
Qed.

Theorem resolve_current : forall l, resolve_launch admin_tables l = Some (spec_config l).
Proof. exact (resolve_is_documented admin_tables bindings_current). Qed.

Theorem launch_cfg_current : forall cp l,
  launch_cfg admin_tables cp l =
  match startup cp (spec_config l) with Some c => Some (c, spec_config l) | None => None end.
Proof. intros. unfold launch_cfg. rewrite resolve_current. reflexivity. Qed.

Lemma startup_fields : forall cp rc c, startup cp rc = Some c ->
  cf_admins c = rc_admins rc /\ cf_header c = rc_header rc /\ cidr_of cp (rc_cidr rc) = Some (cf_cidr c).
Proof.
  intros cp rc c. unfold startup.
  destruct (rc_lookupds rc), (rc_nsqds rc); try discriminate;
    destruct (cidr_of cp (rc_cidr rc)); try discriminate; intros H; inversion H; auto.
Qed.

(* nsqadmin comes up exactly when one of the two address lists is given (not both) and the
   CIDR text is empty or parses *)
Theorem launch_starts_iff : forall cp l,
  launch_cfg admin_tables cp l <> None <->
  ((rc_lookupds (spec_config l) = [] /\ rc_nsqds (spec_config l) <> []) \/
   (rc_lookupds (spec_config l) <> [] /\ rc_nsqds (spec_config l) = [])) /\
  cidr_of cp (rc_cidr (spec_config l)) <> None.
Proof.
  intros. rewrite launch_cfg_current. unfold startup.
  destruct (rc_lookupds (spec_config l)), (rc_nsqds (spec_config l)), (cidr_of cp (rc_cidr (spec_config l)));
    split; intros H; try congruence;
    try (split; [ (left; split; congruence) || (right; split; congruence) | congruence ]);
    try (destruct H as [[[? ?]|[? ?]] ?]; congruence).
Qed.

(* C17_guarded for a configuration given on ANY path: the admin list and the header name as
   the operator wrote them with the documented flag / key *)
Theorem launch_guarded : forall cp l cfg rc w p r rq,
  launch_cfg admin_tables cp l = Some (cfg, rc) ->
  find_route admin_routes (rq_method rq) p = RHandler r ->
  existsb is_amut (ar_events r) = true ->
  spec_list "admin-user" "admin_users" l <> [] ->
  ~ In (header_get (rq_headers rq) (spec_str "acl-http-header" "acl_http_header" default_acl_header l))
       (spec_list "admin-user" "admin_users" l) ->
  handle cfg w admin_routes p rq = mkOut 403 false [] false.
Proof.
  intros cp l cfg rc w p r rq Hl Hr Hm Hne Hnot.
  rewrite launch_cfg_current in Hl.
  destruct (startup cp (spec_config l)) as [c|] eqn:Es; [|discriminate].
  inversion Hl; subst c rc. apply startup_fields in Es. destruct Es as [Ha [Hh _]].
  apply (guarded_refused_full cfg w p r rq Hr Hm).
  - rewrite Ha. exact Hne.
  - unfold identity. rewrite Ha, Hh. exact Hnot.
Qed.

(* ... and with an admin identity, or no admin list on any path, the handler does what it does
   with no admin list *)
Theorem launch_allowed : forall cp l cfg rc w p rq,
  launch_cfg admin_tables cp l = Some (cfg, rc) ->
  spec_list "admin-user" "admin_users" l = [] \/
  In (header_get (rq_headers rq) (spec_str "acl-http-header" "acl_http_header" default_acl_header l))
     (spec_list "admin-user" "admin_users" l) ->
  handle cfg w admin_routes p rq = handle (open_cfg cfg) w admin_routes p rq.
Proof.
  intros cp l cfg rc w p rq Hl H.
  rewrite launch_cfg_current in Hl.
  destruct (startup cp (spec_config l)) as [c|] eqn:Es; [|discriminate].
  inversion Hl; subst c rc. apply startup_fields in Es. destruct Es as [Ha [Hh _]].
  apply authorized_as_open_full. unfold identity. rewrite Ha, Hh. exact H.
Qed.

(* /config: the CIDR as the operator wrote it with the documented flag / key (default 127.0.0.1/8) *)
Theorem launch_config_guarded : forall cp l cfg rc w p r rq c ip,
  launch_cfg admin_tables cp l = Some (cfg, rc) ->
  find_route admin_routes (rq_method rq) p = RHandler r ->
  existsb (aev_eqb ASwap) (ar_events r) = true ->
  cidr_of cp (spec_str "allow-config-from-cidr" "allow_config_from_cidr" default_config_cidr l) = Some (Some c) ->
  rq_remote rq = Some ip -> cidr_contains c ip = false ->
  handle cfg w admin_routes p rq = mkOut 403 false [] false.
Proof.
  intros cp l cfg rc w p r rq c ip Hl Hr Hs Hc Hip Hout.
  rewrite launch_cfg_current in Hl.
  destruct (startup cp (spec_config l)) as [c0|] eqn:Es; [|discriminate].
  inversion Hl; subst c0 rc. apply startup_fields in Es. destruct Es as [_ [_ Hcd]].
  simpl in Hcd. rewrite Hc in Hcd. inversion Hcd.
  apply (config_refused cfg w p r rq c ip Hr Hs); auto.
Qed.

(* the precedence itself: a flag given on the command line wins over the file, the file over
   the default *)
Theorem spec_list_paths : forall flag key l,
  (arg_values flag l <> [] -> spec_list flag key l = arg_values flag l) /\
  (arg_values flag l = [] -> forall v, file_value key l = Some v -> spec_list flag key l = coerce_list v) /\
  (arg_values flag l = [] -> file_value key l = None -> spec_list flag key l = []).
Proof.
  intros. unfold spec_list. destruct (arg_values flag l) as [|x xs].
  - split; [intros H; congruence|]. split; intros _.
    + intros v Hv. rewrite Hv. reflexivity.
    + intros Hv. rewrite Hv. reflexivity.
  - split; [intros _; reflexivity|]. split; intros H; discriminate.
Qed.

Theorem spec_str_paths : forall flag key dflt l,
  (arg_values flag l <> [] -> spec_str flag key dflt l = last (arg_values flag l) []) /\
  (arg_values flag l = [] -> forall v, file_value key l = Some v -> spec_str flag key dflt l = coerce_str v) /\
  (arg_values flag l = [] -> file_value key l = None -> spec_str flag key dflt l = dflt).
Proof.
  intros. unfold spec_str. destruct (arg_values flag l) as [|x xs].
  - split; [intros H; congruence|]. split; intros _.
    + intros v Hv. rewrite Hv. reflexivity.
    + intros Hv. rewrite Hv. reflexivity.
  - split; [intros _; reflexivity|]. split; intros H; discriminate.
Qed.
