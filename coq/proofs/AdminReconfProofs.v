(* C17: run-time reconfiguration of the upstream addresses (model/AdminReconf.v). *)
From Coq Require Import String List NArith Bool Lia.
From NSQV Require Import model.Judge model.Names gen.AdminRoutes gen.AdminModes model.Admin model.AdminReconf proofs.AdminProofs.
Import ListNotations.
Open Scope list_scope.
Open Scope N_scope.

(* ------------------------------------------------------------------ the generated tables *)

Lemma mode_choice_current : ci_mode_choice = mode_choice_model.
Proof. reflexivity. Qed.

Lemma call_opts_current : forallb call_opts_ok ci_call_opts = true /\ actions_called = true.
Proof. split; vm_compute; reflexivity. Qed.

Lemma put_options_current : cfg_put_options = put_options_model.
Proof. reflexivity. Qed.

(* ------------------------------------------------------------------ one /config request *)

Lemma cfgreq_handle : forall cfg q,
  cfgreq_outcome cfg admin_routes q = run_steps cfg no_world (cfgreq_req q) init_hst [SCidr; SPutSwap; SGetOpt].
Proof. intros cfg q. unfold cfgreq_outcome, handle, cfgreq_req. destruct (q_put q); reflexivity. Qed.

(* the outcome of a /config request, case by case *)
Lemma cfgreq_swapped_iff : forall cfg q,
  o_swapped (cfgreq_outcome cfg admin_routes q) = true <->
  q_put q = true /\ config_gate (cf_cidr cfg) (q_remote q) = GatePass /\ q_body q = PutValid /\
  (q_opt q = OptLookupdAddrs \/ q_opt q = OptLogLevel).
Proof.
  intros cfg q. rewrite cfgreq_handle.
  unfold cfgreq_req. destruct q as [put opt body value remote]. simpl.
  unfold run_step; simpl.
  destruct (config_gate (cf_cidr cfg) remote); simpl;
    [| split; [discriminate | intros [_ [H _]]; discriminate]
     | split; [discriminate | intros [_ [H _]]; discriminate]].
  destruct put; simpl.
  - destruct body; simpl; try (split; [discriminate | intros [_ [_ [H _]]]; discriminate]).
    + destruct opt; simpl; (split; [discriminate | intros [_ [_ [H _]]]; discriminate]).
    + destruct opt; simpl;
        try (split; [intros _; repeat split; auto | reflexivity]);
        (split; [discriminate | intros [_ [_ [_ [H|H]]]]; discriminate]).
  - destruct opt; simpl; (split; [discriminate | intros [H _]; discriminate]).
Qed.

Lemma cfgreq_swapped_200 : forall cfg q,
  o_swapped (cfgreq_outcome cfg admin_routes q) = true -> o_status (cfgreq_outcome cfg admin_routes q) = 200.
Proof.
  intros cfg q H. pose proof H as H'. apply cfgreq_swapped_iff in H'. destruct H' as [Hp [Hg [Hb Ho]]].
  rewrite cfgreq_handle in *. unfold cfgreq_req in *. destruct q as [put opt body value remote]. simpl in *.
  subst put body. unfold run_step; simpl. rewrite Hg. simpl. destruct Ho; subst opt; reflexivity.
Qed.

Lemma cfgreq_no_calls : forall cfg q, o_calls (cfgreq_outcome cfg admin_routes q) = [].
Proof.
  intros cfg q. rewrite cfgreq_handle. unfold cfgreq_req. destruct q as [put opt body value remote]. simpl.
  unfold run_step; simpl.
  destruct (config_gate (cf_cidr cfg) remote); simpl; try reflexivity.
  destruct put; simpl.
  - destruct body; simpl; try reflexivity; destruct opt; reflexivity.
  - destruct opt; reflexivity.
Qed.

(* a request is accepted as a new nsqlookupd list exactly when it is a PUT of
   nsqlookupd_http_addresses with a body that decodes, from no CIDR or inside it *)
Theorem apply_cfgreq_spec : forall cfg ad q,
  apply_cfgreq cfg admin_routes ad q =
  if sets_lookupds cfg q then mkAddrs (q_value q) (ad_nsqds ad) else ad.
Proof.
  intros cfg ad q. unfold apply_cfgreq.
  destruct (o_swapped (cfgreq_outcome cfg admin_routes q)) eqn:E.
  - apply cfgreq_swapped_iff in E. destruct E as [Hp [Hg [Hb Ho]]].
    unfold sets_lookupds. rewrite Hp, Hg, Hb. simpl. destruct Ho as [Ho|Ho]; rewrite Ho; reflexivity.
  - unfold sets_lookupds.
    destruct (q_put q) eqn:Hp; simpl; [|reflexivity].
    destruct (config_gate (cf_cidr cfg) (q_remote q)) eqn:Hg; simpl; try reflexivity.
    destruct (q_opt q) eqn:Ho; simpl; try reflexivity.
    destruct (q_body q) eqn:Hb; simpl; try reflexivity.
    exfalso. assert (o_swapped (cfgreq_outcome cfg admin_routes q) = true) as T.
    { apply cfgreq_swapped_iff. repeat split; auto. }
    congruence.
Qed.

(* outside the allowed CIDR (or with a RemoteAddr that does not parse) nothing changes *)
Theorem cfgreq_outside_ignored : forall cfg ad q,
  config_gate (cf_cidr cfg) (q_remote q) <> GatePass ->
  apply_cfgreq cfg admin_routes ad q = ad /\ o_swapped (cfgreq_outcome cfg admin_routes q) = false /\
  (o_status (cfgreq_outcome cfg admin_routes q) = 403 \/ o_status (cfgreq_outcome cfg admin_routes q) = 400).
Proof.
  intros cfg ad q Hg.
  assert (o_swapped (cfgreq_outcome cfg admin_routes q) = false) as Hs.
  { destruct (o_swapped (cfgreq_outcome cfg admin_routes q)) eqn:E; [|reflexivity].
    apply cfgreq_swapped_iff in E. destruct E as [_ [E _]]. contradiction. }
  split; [|split].
  - unfold apply_cfgreq. rewrite Hs. reflexivity.
  - exact Hs.
  - rewrite cfgreq_handle. unfold cfgreq_req. destruct q as [put opt body value remote]. simpl in *.
    unfold run_step; simpl. destruct (config_gate (cf_cidr cfg) remote); [contradiction| |]; simpl; auto.
Qed.

(* ------------------------------------------------------------------ a history of /config requests *)

(* the nsqd list is what nsqadmin was started with, whatever has been PUT *)
Theorem nsqds_never_change : forall cfg qs ad,
  ad_nsqds (run_cfgreqs cfg admin_routes ad qs) = ad_nsqds ad.
Proof.
  intros cfg qs. induction qs as [|q qs IH]; intro ad; [reflexivity|].
  unfold run_cfgreqs in *. simpl. rewrite IH. rewrite apply_cfgreq_spec.
  destruct (sets_lookupds cfg q); reflexivity.
Qed.

(* the last accepted PUT, if any *)
Fixpoint last_set (cfg : acfg) (qs : list cfgreq) (cur : option (list bytes)) : option (list bytes) :=
  match qs with
  | [] => cur
  | q :: r => last_set cfg r (if sets_lookupds cfg q then Some (q_value q) else cur)
  end.

Lemma lookupds_fold : forall cfg qs ad,
  ad_lookupds (run_cfgreqs cfg admin_routes ad qs) =
  match last_set cfg qs None with Some l => l | None => ad_lookupds ad end.
Proof.
  intros cfg qs.
  induction qs as [|q qs IH]; intro ad; [reflexivity|].
  unfold run_cfgreqs in *. simpl. rewrite IH. rewrite apply_cfgreq_spec.
  destruct (sets_lookupds cfg q) eqn:E; simpl.
  - clear IH. revert E. generalize (q_value q) as v. intros v _.
    assert (forall qs0 c, last_set cfg qs0 (Some c) <> None) as NN.
    { induction qs0 as [|x xs IHx]; intro c; simpl. discriminate. destruct (sets_lookupds cfg x); apply IHx. }
    assert (forall qs0 c, last_set cfg qs0 None = None -> last_set cfg qs0 (Some c) = Some c) as K1.
    { induction qs0 as [|x xs IHx]; intros c H; simpl in *. reflexivity.
      destruct (sets_lookupds cfg x). exfalso. exact (NN _ _ H). apply IHx. exact H. }
    assert (forall qs0 c l, last_set cfg qs0 None = Some l -> last_set cfg qs0 (Some c) = Some l) as K2.
    { induction qs0 as [|x xs IHx]; intros c l H; simpl in *. discriminate.
      destruct (sets_lookupds cfg x). exact H. apply IHx. exact H. }
    destruct (last_set cfg qs None) as [l|] eqn:L.
    + rewrite (K2 _ v _ L). reflexivity.
    + rewrite (K1 _ v L). reflexivity.
  - reflexivity.
Qed.

(* the nsqlookupd list in force: the value of the last accepted PUT, else the list of the start *)
Theorem lookupds_last_accepted : forall cfg qs ad,
  ad_lookupds (run_cfgreqs cfg admin_routes ad qs) =
  match last_set cfg qs None with Some l => l | None => ad_lookupds ad end.
Proof. exact lookupds_fold. Qed.

Theorem last_set_app : forall cfg qs q,
  last_set cfg (qs ++ [q]) None = if sets_lookupds cfg q then Some (q_value q) else last_set cfg qs None.
Proof.
  intros cfg qs q. generalize (@None (list bytes)) as cur.
  induction qs as [|x xs IH]; intro cur; simpl. reflexivity. apply IH.
Qed.

(* ------------------------------------------------------------------ the world seen through the lists *)

Lemma pick_fst : forall (A : Type) (d : A) univ l, map fst (pick d univ l) = l.
Proof. intros A d univ l. unfold pick. rewrite map_map. simpl. apply map_id. Qed.

Theorem world_at_lookupds : forall univ ad, lookupd_addrs (world_at univ ad) = ad_lookupds ad.
Proof. intros. unfold lookupd_addrs, world_at. simpl. apply pick_fst. Qed.

Theorem world_at_nsqds : forall univ ad, map fst (w_nsqds (world_at univ ad)) = ad_nsqds ad.
Proof. intros. unfold world_at. simpl. apply pick_fst. Qed.

(* the rule of GetTopicProducers: nsqlookupd mode iff an nsqlookupd address is in force, however
   it got there; the static nsqd list is used only when there is none *)
Theorem mode_rule : forall univ ad t,
  get_topic_producers (world_at univ ad) t =
  match ad_lookupds ad with
  | [] => get_nsqd_topic_producers (world_at univ ad) t
  | _ => get_lookupd_topic_producers (world_at univ ad) t
  end.
Proof.
  intros univ ad t. unfold get_topic_producers, world_at. simpl.
  destruct (ad_lookupds ad); reflexivity.
Qed.

(* in nsqlookupd mode the look-up asks exactly the nsqlookupds in force and no nsqd *)
Theorem lookup_asks_lookupds_in_force : forall univ ad t,
  ad_lookupds ad <> [] ->
  map uc_addr (lr_calls (get_topic_producers (world_at univ ad) t)) = ad_lookupds ad.
Proof.
  intros univ ad t H. rewrite mode_rule. destruct (ad_lookupds ad) eqn:E; [contradiction|].
  unfold get_lookupd_topic_producers.
  assert (forall ups nerr, map uc_addr (lr_calls
            (if Nat.eqb nerr (length ups)
             then mkLR (map (fun x : bytes * lookup_ans => mkCall UGet (fst x) "lookup" t [] []) ups) None nerr
             else mkLR (map (fun x : bytes * lookup_ans => mkCall UGet (fst x) "lookup" t [] []) ups)
                       (Some (dedup [] (flat_map (fun x => match snd x with LProducers ps => ps | LFail => [] end) ups))) nerr))
          = map fst ups) as G.
  { intros ups nerr. destruct (Nat.eqb nerr (length ups)); simpl; rewrite map_map; reflexivity. }
  rewrite G. rewrite <- E. change (lookupd_addrs (world_at univ ad) = ad_lookupds ad). apply world_at_lookupds.
Qed.

(* ------------------------------------------------------------------ actions after a history *)

(* pause / unpause / empty after any history of /config requests: one POST to every producer the
   look-up through the lists in force finds *)
Theorem reconf_producer_actions : forall cfg univ ad0 qs a name uri qf,
  In (name, uri, qf) producer_actions ->
  let ad := run_cfgreqs cfg admin_routes ad0 qs in
  let w := world_at univ ad in
  let r := match ad_lookupds ad with
           | [] => get_nsqd_topic_producers w (a_topic a)
           | _ => get_lookupd_topic_producers w (a_topic a)
           end in
  let o := run_action w name a in
  match lr_producers r with
  | None => o_status o = 502 /\ posts (o_calls o) = []
  | Some ps => o_status o = 200 /\ posts (o_calls o) = post_to uri qf a ps
  end.
Proof.
  intros cfg univ ad0 qs a name uri qf Hin. cbv zeta.
  pose proof (allowed_producer_actions (world_at univ (run_cfgreqs cfg admin_routes ad0 qs)) a name uri qf Hin) as H.
  cbv zeta in H. rewrite mode_rule in H.
  destruct (ad_lookupds (run_cfgreqs cfg admin_routes ad0 qs));
    match goal with |- match lr_producers ?r with _ => _ end => destruct (lr_producers r) end; tauto.
Qed.

(* delete topic / channel: every nsqlookupd IN FORCE, then every producer found *)
Theorem reconf_delete_actions : forall cfg univ ad0 qs a name uri qf,
  In (name, uri, qf) delete_actions ->
  let ad := run_cfgreqs cfg admin_routes ad0 qs in
  let w := world_at univ ad in
  let r := match ad_lookupds ad with
           | [] => get_nsqd_topic_producers w (a_topic a)
           | _ => get_lookupd_topic_producers w (a_topic a)
           end in
  let o := run_action w name a in
  match lr_producers r with
  | None => o_status o = 502 /\ posts (o_calls o) = []
  | Some ps => o_status o = 200 /\ posts (o_calls o) = post_to uri qf a (ad_lookupds ad) ++ post_to uri qf a ps
  end.
Proof.
  intros cfg univ ad0 qs a name uri qf Hin. cbv zeta.
  pose proof (allowed_delete_actions (world_at univ (run_cfgreqs cfg admin_routes ad0 qs)) a name uri qf Hin) as H.
  cbv zeta in H. rewrite mode_rule in H. rewrite world_at_lookupds in H.
  destruct (ad_lookupds (run_cfgreqs cfg admin_routes ad0 qs));
    match goal with |- match lr_producers ?r with _ => _ end => destruct (lr_producers r) end; tauto.
Qed.

(* create / tombstone go to the nsqlookupds in force *)
Theorem reconf_create_topic : forall cfg univ ad0 qs a,
  has_channel a = false ->
  let ad := run_cfgreqs cfg admin_routes ad0 qs in
  let o := run_action (world_at univ ad) "CreateTopicChannel" a in
  o_status o = 200 /\ posts (o_calls o) = post_to "topic/create" "topic=%s" a (ad_lookupds ad).
Proof.
  intros cfg univ ad0 qs a Hc. cbv zeta.
  pose proof (allowed_create (world_at univ (run_cfgreqs cfg admin_routes ad0 qs)) a) as H.
  cbv zeta in H. rewrite Hc in H. rewrite world_at_lookupds in H. exact H.
Qed.
