(* Proofs about model/ScanPick.v: UniqRands returns distinct in-range indices for EVERY
   random stream; with no more channels than QueueScanSelectionCount every tick scans
   every channel. *)
From Coq Require Import List Arith Lia Permutation.
From NSQV Require Import model.ScanPick.
Import ListNotations.

Lemma length_updn : forall l i x, length (updn l i x) = length l.
Proof. induction l as [|a r IH]; intros [|i] x; cbn; auto. Qed.

Lemma nth_updn : forall l i x k, i < length l ->
  nth k (updn l i x) 0 = if k =? i then x else nth k l 0.
Proof.
  induction l as [|a r IH]; intros i x k H; cbn in H; [lia|].
  destruct i as [|i]; destruct k as [|k]; cbn; auto. apply IH. lia.
Qed.

Lemma length_swapn : forall l i j, length (swapn l i j) = length l.
Proof. intros. unfold swapn. now rewrite !length_updn. Qed.

Lemma nth_swapn : forall l i j k, i < length l -> j < length l ->
  nth k (swapn l i j) 0 = if k =? j then nth i l 0 else if k =? i then nth j l 0 else nth k l 0.
Proof.
  intros l i j k Hi Hj. unfold swapn.
  rewrite nth_updn by (rewrite length_updn; exact Hj).
  destruct (k =? j); [reflexivity|]. now rewrite nth_updn by exact Hi.
Qed.

Lemma swapn_perm : forall l i j, i < length l -> j < length l -> Permutation (swapn l i j) l.
Proof.
  intros l i j Hi Hj. apply Permutation_sym, (Permutation_nth _ _ 0).
  rewrite length_swapn. split; [reflexivity|].
  exists (fun x => if x =? j then i else if x =? i then j else x).
  split; [|split].
  - intros x Hx. destruct (Nat.eqb_spec x j); [lia|]. destruct (Nat.eqb_spec x i); lia.
  - intros x y Hx Hy.
    destruct (Nat.eqb_spec x j); destruct (Nat.eqb_spec x i);
    destruct (Nat.eqb_spec y j); destruct (Nat.eqb_spec y i); lia.
  - intros x Hx. rewrite nth_swapn by assumption.
    destruct (Nat.eqb_spec x j); [reflexivity|]. destruct (Nat.eqb_spec x i); reflexivity.
Qed.

Lemma NoDup_app_l : forall (a b : list nat), NoDup (a ++ b) -> NoDup a.
Proof.
  induction a as [|x a IH]; intros b H; [constructor|].
  cbn in H. inversion H as [|? ? Nin N]. subst. constructor; [|eapply IH; eauto].
  intro X. apply Nin. apply in_or_app. now left.
Qed.

Lemma uniq_loop_perm : forall k i maxval rs sl, i + maxval = length sl -> k <= maxval ->
  Permutation (uniq_loop k i maxval rs sl) sl.
Proof.
  induction k as [|k IH]; intros i maxval rs sl L H; cbn [uniq_loop]; [reflexivity|].
  destruct rs as [|r rs']; [reflexivity|].
  assert (r mod maxval < maxval) by (apply Nat.mod_upper_bound; lia).
  etransitivity; [apply IH; [rewrite length_swapn; lia | lia]|].
  apply swapn_perm; lia.
Qed.

(* for every random stream: the picks are distinct, in range, and as many as asked for *)
Theorem uniq_rands_spec : forall quantity maxval rs,
  NoDup (uniq_rands quantity maxval rs) /\
  (forall x, In x (uniq_rands quantity maxval rs) -> x < maxval) /\
  length (uniq_rands quantity maxval rs) = Nat.min quantity maxval.
Proof.
  intros quantity maxval rs. unfold uniq_rands.
  set (q := Nat.min quantity maxval).
  assert (Pm : Permutation (uniq_loop q 0 maxval rs (seq 0 maxval)) (seq 0 maxval))
    by (apply uniq_loop_perm; [now rewrite seq_length | subst q; lia]).
  assert (Nd : NoDup (uniq_loop q 0 maxval rs (seq 0 maxval)))
    by (eapply Permutation_NoDup; [apply Permutation_sym, Pm | apply seq_NoDup]).
  split; [|split].
  - rewrite <- (firstn_skipn q) in Nd. now apply NoDup_app_l in Nd.
  - intros x Hx. apply (In_nth _ _ 0) in Hx. destruct Hx as [k [Hk <-]].
    assert (In (nth k (firstn q (uniq_loop q 0 maxval rs (seq 0 maxval))) 0)
               (uniq_loop q 0 maxval rs (seq 0 maxval))).
    { rewrite <- (firstn_skipn q (uniq_loop q 0 maxval rs (seq 0 maxval))) at 2.
      apply in_or_app. left. now apply nth_In. }
    eapply Permutation_in in H; [|exact Pm]. apply in_seq in H. lia.
  - rewrite firstn_length. apply Permutation_length in Pm. rewrite seq_length in Pm. subst q. lia.
Qed.

(* with no more channels than the selection count, one tick hands EVERY channel to a
   scan worker, whatever the random numbers *)
Theorem tick_scans_all : forall selection_count nchannels rs,
  nchannels <= selection_count ->
  Permutation (tick_picks selection_count nchannels rs) (seq 0 nchannels).
Proof.
  intros sc n rs H. unfold tick_picks, uniq_rands.
  replace (Nat.min (Nat.min sc n) n) with n by lia.
  assert (Pm : Permutation (uniq_loop n 0 n rs (seq 0 n)) (seq 0 n))
    by (apply uniq_loop_perm; [now rewrite seq_length | lia]).
  rewrite firstn_all2; [exact Pm|].
  apply Permutation_length in Pm. rewrite Pm, seq_length. lia.
Qed.

(* otherwise: selection_count distinct channels *)
Theorem tick_scans_count : forall selection_count nchannels rs,
  NoDup (tick_picks selection_count nchannels rs) /\
  (forall x, In x (tick_picks selection_count nchannels rs) -> x < nchannels) /\
  length (tick_picks selection_count nchannels rs) = Nat.min selection_count nchannels.
Proof.
  intros sc n rs. unfold tick_picks.
  destruct (uniq_rands_spec (Nat.min sc n) n rs) as [A [B C]]. repeat split; auto. lia.
Qed.
