(* model/Handoff.v's theorems for the closers and movers the CURRENT source has
   (proofs/HandoffSrc.v reads them off the regenerated statement skeletons). *)
From Coq Require Import List String Bool.
From NSQV Require Import model.Handoff gen.CoreShape proofs.HandoffProofs proofs.HandoffSrc.
Import ListNotations.

Definition src_topic_close := topic_closer (path_of false shape_Topic_exit).
Definition src_topic_delete := topic_closer (path_of true shape_Topic_exit).
Definition src_channel_close := channel_closer (path_of false shape_Channel_exit).
Definition src_channel_delete := channel_closer (path_of true shape_Channel_exit).
Definition src_channel_empty := channel_closer (path_of false shape_Channel_Empty).

Section AnySchedule.
  Variables (ks : list kind) (sched : list (option nat)).
  Hypothesis Hk : forallb locked ks = true.

  (* Topic.exit (close) against any number of PutMessage / PutMessages in progress *)
  Theorem topic_close_loses_no_publish m :
    let st := run (init ks src_topic_close) sched in
    In m (movers st) -> lost st m = false /\ missed st = false.
  Proof.
    cbn. intros Hin. destruct src_closers_in_order as (H & _). split.
    - apply handoff_safe; assumption.
    - apply handoff_never_missed; assumption.
  Qed.

  (* Channel.exit (close) against any number of REQ / timeout scans / deferred scans / puts
     from the topic pump in progress *)
  Theorem channel_close_loses_no_handoff m :
    let st := run (init ks src_channel_close) sched in
    In m (movers st) -> lost st m = false /\ missed st = false.
  Proof.
    cbn. intros Hin. destruct src_closers_in_order as (_ & _ & H & _). split.
    - apply handoff_safe; assumption.
    - apply handoff_never_missed; assumption.
  Qed.

  (* Channel.Empty, Channel.exit (delete) and Topic.exit (delete) never discard while a
     message is in somebody's hand: nothing that was there before outlives them *)
  Theorem discards_miss_nothing :
    missed (run (init ks src_channel_empty) sched) = false /\
    missed (run (init ks src_channel_delete) sched) = false /\
    missed (run (init ks src_topic_delete) sched) = false.
  Proof.
    destruct src_closers_in_order as (_ & H2 & _ & H4 & H5).
    repeat split; apply handoff_never_missed; assumption.
  Qed.
End AnySchedule.

(* ---- progress: the locks the repairs added cannot deadlock (within the modelled locks) ---- *)
From NSQV Require Import proofs.HandoffProgress.

Lemma src_closers_release :
  released src_topic_close false false = true /\ released src_topic_delete false false = true /\
  released src_channel_close false false = true /\ released src_channel_delete false false = true /\
  released src_channel_empty false false = true.
Proof. repeat split; vm_compute; reflexivity. Qed.

Theorem source_closers_cannot_deadlock ks sched prog :
  In prog [src_topic_close; src_topic_delete; src_channel_close; src_channel_delete; src_channel_empty] ->
  exists more, finished (run (init ks prog) (sched ++ more)) = true.
Proof.
  intros Hin. destruct src_closers_in_order as (O1 & O2 & O3 & O4 & O5).
  destruct src_closers_release as (R1 & R2 & R3 & R4 & R5).
  cbn in Hin. destruct Hin as [<-|[<-|[<-|[<-|[<-|[]]]]]]; apply handoff_no_deadlock; assumption.
Qed.

(* a SUB in progress against the closing / deletion of its channel *)
Theorem subscriber_closed_or_refused ks sched m (del : bool) :
  forallb locked ks = true ->
  In m (movers (run (init ks (channel_closer_clients (path_of del shape_Channel_exit))) sched)) ->
  lost (run (init ks (channel_closer_clients (path_of del shape_Channel_exit))) sched) m = false.
Proof.
  intros Hk. destruct src_channel_exit_closes_clients_in_order as (A & B).
  destruct del; [rewrite B|rewrite A]; intros Hin; apply handoff_safe; [exact Hk|exact channel_exit_ok|exact Hin|exact Hk|exact channel_exit_ok|exact Hin].
Qed.
