(* C05 over histories: the no-loss invariant J of C01 survives graceful Exit + restart, so an
   acknowledged message stays accounted for on its durable channel through ANY history of
   operations interleaved with ANY number of restarts. *)
From Coq Require Import List NArith ZArith Bool Lia.
From RecordUpdate Require Import RecordUpdate.
From NSQV Require Import model.Core proofs.CoreBase proofs.CoreOwes.
Import ListNotations.
Local Open Scope N_scope.

Inductive hop := HOp (o : op) | HRestart.

Definition hstep (cfg : config) (s : state) (h : hop) : state :=
  match h with HOp o => fst (step cfg s o) | HRestart => restart s end.
Definition hrun (cfg : config) (s : state) (hs : list hop) : state := fold_left (hstep cfg) hs s.
Definition hkeeps (t c : N) (h : hop) : bool := match h with HOp o => keeps t c o | HRestart => true end.

Lemma seen_restart_chan ch x : In x (seen ch) -> In x (seen (restart_chan ch)).
Proof.
  unfold seen, restart_chan. cbn. rewrite !map_app, !map_map, !in_app_iff. cbn. tauto.
Qed.

Lemma restart_J t c x s : J t c x s -> J t c x (restart s).
Proof.
  unfold J, restart. cbn. rewrite !Exists_exists. intros [tp [Htp (Et & Ee & H)]].
  exists (restart_topic tp). split.
  - apply in_map. apply filter_In. split; [exact Htp|]. rewrite Ee. reflexivity.
  - unfold TJ. cbn. split; [exact Et|]. split; [reflexivity|].
    assert (HCE : Exists (CE c) (t_chans tp) -> Exists (CE c) (map restart_chan (filter (fun ch => negb (c_eph ch)) (t_chans tp)))).
    { rewrite !Exists_exists. intros [ch [Hch [A B]]]. exists (restart_chan ch). split.
      - apply in_map, filter_In. split; [exact Hch|]. rewrite B. reflexivity.
      - split; [exact A|reflexivity]. }
    destruct H as [[Hq Hc]|Hc].
    + left. split; [|apply HCE, Hc]. rewrite map_map. cbn. exact Hq.
    + right. rewrite Exists_exists in *. destruct Hc as [ch [Hch [[A B] Hs]]]. exists (restart_chan ch). split.
      * apply in_map, filter_In. split; [exact Hch|]. rewrite B. reflexivity.
      * split; [split; [exact A|reflexivity]|]. apply seen_restart_chan, Hs.
Qed.

Theorem hrun_J cfg t c x hs : forall s, forallb (hkeeps t c) hs = true -> J t c x s -> J t c x (hrun cfg s hs).
Proof.
  unfold hrun. induction hs as [|h hs IH]; intros s K H; cbn; [exact H|].
  cbn in K. apply andb_prop in K. destruct K as [K1 K2]. apply IH; [exact K2|].
  destruct h; cbn in *; [apply step_J; assumption|apply restart_J, H].
Qed.

(* acknowledged publish, then any history with any number of graceful restarts *)
Theorem no_loss_across_restarts cfg t c x s teph ids bytes defer now hs :
  channel_exists t c s -> In x ids -> forallb (hkeeps t c) hs = true ->
  J t c x (hrun cfg (fst (step cfg s (OPub t teph ids bytes defer now))) hs).
Proof.
  intros He Hx K. apply hrun_J; [exact K|]. apply (no_loss cfg t c x s teph ids bytes defer now []); auto.
Qed.

(* after a restart nothing is in flight or deferred: what J accounts for as unfinished waits
   in the channel's queue *)
Lemma restart_queue_has ch x :
  In x (map m_id (c_queue ch) ++ map (fun e => m_id (i_msg e)) (c_ifl ch) ++ map (fun e => m_id (d_msg e)) (c_dfr ch)) ->
  In x (map m_id (c_queue (restart_chan ch))).
Proof. unfold restart_chan. cbn. rewrite !map_app, !map_map, !in_app_iff. tauto. Qed.
