(* C08: what an explicit empty discarded is never held by the channel again, in any
   reachable state (message ids are never reused: fresh_history). *)
From Coq Require Import List NArith ZArith Bool Lia.
From NSQV Require Import model.Core proofs.CoreBase proofs.CoreOwes proofs.CoreUnique.
Import ListNotations.
Local Open Scope N_scope.

Lemma cnt_in_pos x l : In x l -> (1 <= cnt x l)%nat.
Proof. intros H. pose proof (cnt_pos_in x l H). lia. Qed.

Lemma cnt_zero_notin x l : cnt x l = 0%nat -> ~ In x l.
Proof. intros H Hin. pose proof (cnt_pos_in x l Hin). lia. Qed.

Theorem discarded_stays_out tp ch x : UniqueTopic tp -> In ch (t_chans tp) -> In x (c_emptied ch) ->
  ~ In x (map m_id (c_queue ch)) /\ ~ In x (map (fun e => m_id (i_msg e)) (c_ifl ch)) /\
  ~ In x (map (fun e => m_id (d_msg e)) (c_dfr ch)) /\ ~ In x (map m_id (t_queue tp)).
Proof.
  intros [_ H2] Hin Hx. rewrite Forall_forall in H2. specialize (H2 ch Hin x).
  pose proof (cnt_in_pos x _ Hx) as He.
  unfold cs, seen in H2. rewrite !cnt_app in H2.
  repeat split; apply cnt_zero_notin; unfold tqids in *; lia.
Qed.

Theorem discarded_never_held_again cfg ops tp ch x :
  fresh_history [] ops = true ->
  In tp (s_topics (run cfg init ops)) -> In ch (t_chans tp) -> In x (c_emptied ch) ->
  ~ In x (map m_id (c_queue ch)) /\ ~ In x (map (fun e => m_id (i_msg e)) (c_ifl ch)) /\
  ~ In x (map (fun e => m_id (d_msg e)) (c_dfr ch)) /\ ~ In x (map m_id (t_queue tp)).
Proof.
  intros Hf Htp Hch Hx. pose proof (unique_reachable cfg ops Hf) as HU.
  unfold AllTopics in HU. rewrite Forall_forall in HU. apply (discarded_stays_out tp ch x (HU tp Htp) Hch Hx).
Qed.

(* and a delivery can only take a message from the queue: a discarded id is not deliverable *)
Theorem discarded_not_deliverable s kl ch x tp :
  UniqueTopic tp -> In ch (t_chans tp) -> In x (c_emptied ch) -> deliverable s kl ch x = false.
Proof.
  intros HU Hch Hx. destruct (discarded_stays_out tp ch x HU Hch Hx) as (Hq & _).
  unfold deliverable. destruct (remove_msg x (c_queue ch)) as [[m q']|] eqn:R; [|rewrite andb_false_r; reflexivity].
  exfalso. apply Hq. clear - R. revert m q' R. induction (c_queue ch) as [|a l IH]; cbn; [discriminate|].
  intros m q'. destruct (N.eqb_spec (m_id a) x) as [E|E]; [intros _; left; exact E|].
  destruct (remove_msg x l) as [[y r]|]; [|discriminate]. intros _. right. eapply IH. reflexivity.
Qed.
