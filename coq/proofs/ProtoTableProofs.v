(* C09: the model's dispatch list and the protocol table against what protocol_v2.go and
   tcp.go say now (gen/ProtoTable.v is regenerated from the repository on every run). *)
From Coq Require Import List NArith ZArith Bool String.
From NSQV Require Import gen.Consts gen.ProtoTable model.Judge model.Proto model.ProtoSpec.
Import ListNotations.

(* the model's Exec table, in the vocabulary of the generated one *)
Definition model_dispatch : list (list N * string * bool) :=
  map (fun e => (fst (fst e), handler_name (snd (fst e)), snd e)) dispatch_table.

Lemma dispatch_matches : model_dispatch = exec_dispatch.
Proof. vm_compute. reflexivity. Qed.

(* IDENTIFY is the only command dispatched before enforceTLSPolicy *)
Lemma only_identify_ungated :
  map (fun e => snd (fst e)) (filter (fun e => negb (snd e)) exec_dispatch) = ["IDENTIFY"%string].
Proof. vm_compute. reflexivity. Qed.

Lemma default_matches : exec_default = (code_name E_INVALID, is_fatal E_INVALID).
Proof. vm_compute. reflexivity. Qed.

Lemma gate_matches : tls_gate_codes = [(code_name E_INVALID, is_fatal E_INVALID)].
Proof. vm_compute. reflexivity. Qed.

Definition pair_eqb (a b : string * bool) : bool := String.eqb (fst a) (fst b) && Bool.eqb (snd a) (snd b).
Definition subset (l1 l2 : list (string * bool)) : bool := forallb (fun x => existsb (pair_eqb x) l2) l1.
Definition same_set (l1 l2 : list (string * bool)) : bool := subset l1 l2 && subset l2 l1.

Definition spec_codes (c : cmd) : list (string * bool) := map (fun e => (code_name e, is_fatal e)) (may_return c).
Definition gen_codes (h : string) : option (list (string * bool)) :=
  match find (fun e => String.eqb (fst e) h) handler_codes with Some (_, l) => Some l | None => None end.

(* every handler constructs exactly the (code, fatal?) pairs of its row of the table *)
Lemma codes_match :
  forallb (fun c => match gen_codes (handler_name c) with
                    | Some l => same_set (spec_codes c) l
                    | None => false
                    end) all_cmds = true.
Proof. vm_compute. reflexivity. Qed.

(* and there is no handler without a row *)
Lemma handlers_match : map fst handler_codes = map handler_name all_cmds.
Proof. vm_compute. reflexivity. Qed.

Lemma magic_matches : tcp_magics = [magic_v2] /\ tcp_bad_magic = code_name E_BAD_PROTOCOL.
Proof. split; vm_compute; reflexivity. Qed.

(* the read buffer of a connection is the generated defaultBufferSize *)
Lemma buffer_matches : Z.of_nat buffer_size = nsqd_defaultBufferSize.
Proof. vm_compute. reflexivity. Qed.

(* a command line is read by ReadSlice up to '\n' - the one bufio read that fails with
   ErrBufferFull instead of growing (model: read_slice) - and every reader a client
   connection gets (plain, TLS, deflate, snappy) has defaultBufferSize bytes *)
Definition name_ReadSlice : string := "ReadSlice".
Definition name_defaultBufferSize : string := "defaultBufferSize".
Lemma line_reader_matches :
  ioloop_line_reads = [(name_ReadSlice, NL)]
  /\ reader_sizes <> []
  /\ forallb (String.eqb name_defaultBufferSize) reader_sizes = true.
Proof. split; [vm_compute; reflexivity|]. split; [discriminate | vm_compute; reflexivity]. Qed.

(* the order of the tests, allocations, reads and core calls of every handler is the one
   the model was written against *)
Lemma checks_match : source_order = handler_checks.
Proof. vm_compute. reflexivity. Qed.
