(* C05 / C08: graceful restart, empty, delete — what the model's steps leave behind. *)
From Coq Require Import List NArith ZArith Bool Lia Permutation.
From RecordUpdate Require Import RecordUpdate.
From NSQV Require Import model.Core proofs.CoreBase.
Import ListNotations.
Open Scope N_scope.

(* ---------- restart (graceful Exit, new daemon on the same data path) ---------- *)
Definition all_msgs (ch : chan) : list msg := c_queue ch ++ map i_msg (c_ifl ch) ++ map d_msg (c_dfr ch).

(* every message a durable channel held — queued, in flight or deferred — is waiting on
   it after the restart, with the same id and the same attempts count; what was finished
   stays finished; nothing is in flight or deferred; the paused flag survives *)
Theorem restart_chan_keeps ch :
  c_queue (restart_chan ch) = all_msgs ch /\ c_ifl (restart_chan ch) = [] /\ c_dfr (restart_chan ch) = [] /\
  c_paused (restart_chan ch) = c_paused ch /\ c_id (restart_chan ch) = c_id ch /\
  c_fin (restart_chan ch) = c_fin ch /\ c_clients (restart_chan ch) = [].
Proof. unfold restart_chan, all_msgs. cbn. repeat split. Qed.

Theorem restart_chan_messages ch : Permutation (all_msgs (restart_chan ch)) (all_msgs ch).
Proof. unfold all_msgs at 1. unfold restart_chan. cbn. rewrite app_nil_r. apply Permutation_refl. Qed.

(* exactly the durable topics and, on them, exactly the durable channels come back *)
Theorem restart_structure s :
  map t_id (s_topics (restart s)) = map t_id (filter (fun tp => negb (t_eph tp)) (s_topics s)) /\
  forall tp, In tp (s_topics s) -> t_eph tp = false ->
    exists tp', In tp' (s_topics (restart s)) /\ t_id tp' = t_id tp /\ t_paused tp' = t_paused tp /\
      map m_id (t_queue tp') = map m_id (t_queue tp) /\
      map c_id (t_chans tp') = map c_id (filter (fun ch => negb (c_eph ch)) (t_chans tp)) /\
      forall ch, In ch (t_chans tp) -> c_eph ch = false -> In (restart_chan ch) (t_chans tp').
Proof.
  split.
  - unfold restart. cbn. rewrite map_map. cbn. reflexivity.
  - intros tp Hin He. exists (restart_topic tp). split.
    + unfold restart. cbn. apply in_map. apply filter_In. split; [exact Hin|]. rewrite He. reflexivity.
    + unfold restart_topic. cbn. repeat split.
      * rewrite map_map. cbn. reflexivity.
      * rewrite map_map. cbn. reflexivity.
      * intros ch Hc Hec. apply in_map. apply filter_In. split; [exact Hc|]. rewrite Hec. reflexivity.
Qed.

(* ephemeral topics and channels never come back *)
Theorem restart_no_ephemeral s :
  Forall (fun tp => t_eph tp = false /\ Forall (fun ch => c_eph ch = false) (t_chans tp)) (s_topics (restart s)).
Proof.
  unfold restart. cbn. apply Forall_forall. intros tp' H. apply in_map_iff in H. destruct H as [tp [<- Hin]].
  unfold restart_topic. cbn. split; [reflexivity|]. apply Forall_forall. intros ch' Hc.
  apply in_map_iff in Hc. destruct Hc as [ch [<- _]]. reflexivity.
Qed.

(* the statement composes: restarting twice in a row changes nothing more *)
Theorem restart_chan_idem ch : c_queue (restart_chan (restart_chan ch)) = c_queue (restart_chan ch).
Proof. unfold restart_chan. cbn. rewrite app_nil_r. reflexivity. Qed.

(* ---------- empty ---------- *)
Theorem empty_chan_result ch :
  c_queue (ch_empty ch) = [] /\ c_ifl (ch_empty ch) = [] /\ c_dfr (ch_empty ch) = [] /\
  c_clients (ch_empty ch) = c_clients ch /\ c_paused (ch_empty ch) = c_paused ch /\
  c_msgcount (ch_empty ch) = c_msgcount ch /\ c_fin (ch_empty ch) = c_fin ch /\
  (forall m, In m (all_msgs ch) -> In (m_id m) (c_emptied (ch_empty ch))).
Proof.
  unfold ch_empty, all_msgs. cbn. repeat split.
  intros m H. rewrite !in_app_iff in *. destruct H as [H|[H|H]].
  - left. left. apply in_map, H.
  - left. right. left. apply in_map_iff in H. destruct H as [e [<- He]]. apply in_map_iff. exists e. auto.
  - left. right. right. apply in_map_iff in H. destruct H as [e [<- He]]. apply in_map_iff. exists e. auto.
Qed.

(* emptying zeroes the in-flight counter of every subscriber of that channel and of nobody else *)
Theorem empty_chan_clients cfg s t c ch :
  get_chan s t c = Some ch ->
  snd (step cfg s (OEmptyChan t c)) = ROk /\
  s_clients (fst (step cfg s (OEmptyChan t c))) =
    map (fun k => if existsb (N.eqb (k_id k)) (c_clients ch) then mkClient (k_id k) (k_state k) (k_alive k) (k_rdy k) 0%Z (k_sub k) (k_timeout k) (k_fincount k) (k_reqcount k) (k_msgcount k) else k) (s_clients s).
Proof.
  intros H. cbn [step]. rewrite H. cbn [fst snd]. split; [reflexivity|]. cbn.
  apply map_ext. intros k. destruct (existsb _ _); reflexivity.
Qed.

(* ---------- delete ---------- *)
Theorem delete_chan_gone cfg s t c :
  forall tp, In tp (s_topics (fst (step cfg s (ODeleteChan t c)))) -> t_id tp = t ->
  snd (step cfg s (ODeleteChan t c)) = ROk ->
  forall ch, In ch (t_chans tp) -> c_id ch <> c.
Proof.
  intros tp Hin Ht Hok ch Hc. cbn [step] in *.
  destruct (find_topic s t) as [tp0|]; [|discriminate].
  destruct (find_chan tp0 c) as [ch0|]; [|discriminate].
  cbn [fst] in Hin. unfold drop_empty_eph_topic in Hin. cbn in Hin.
  apply filter_In in Hin. destruct Hin as [Hin _].
  apply in_map_iff in Hin. destruct Hin as [tp1 [E Hin1]].
  rewrite <- E in Hc, Ht. destruct (t_id tp1 =? t) eqn:Et.
  - cbn in Hc. apply filter_In in Hc. destruct Hc as [_ Hc]. apply negb_true_iff, N.eqb_neq in Hc. exact Hc.
  - apply N.eqb_neq in Et. contradiction.
Qed.

Theorem delete_topic_gone cfg s t :
  snd (step cfg s (ODeleteTopic t)) = ROk ->
  forall tp, In tp (s_topics (fst (step cfg s (ODeleteTopic t)))) -> t_id tp <> t.
Proof.
  intros Hok tp Hin. cbn [step] in *. destruct (find_topic s t) as [tp0|]; [|discriminate].
  cbn in Hin. apply filter_In in Hin. destruct Hin as [_ H]. apply negb_true_iff, N.eqb_neq in H. exact H.
Qed.

(* a re-created channel / topic starts empty with zero counters *)
Theorem recreated_chan_empty c eph :
  c_queue (new_chan c eph) = [] /\ c_ifl (new_chan c eph) = [] /\ c_dfr (new_chan c eph) = [] /\
  c_msgcount (new_chan c eph) = 0 /\ c_requeue (new_chan c eph) = 0 /\ c_timeout (new_chan c eph) = 0 /\
  c_clients (new_chan c eph) = [] /\ c_paused (new_chan c eph) = false.
Proof. cbn. repeat split. Qed.

Theorem recreated_topic_empty t eph :
  t_queue (new_topic t eph) = [] /\ t_chans (new_topic t eph) = [] /\ t_msgcount (new_topic t eph) = 0 /\
  t_bytes (new_topic t eph) = 0 /\ t_paused (new_topic t eph) = false.
Proof. cbn. repeat split. Qed.
