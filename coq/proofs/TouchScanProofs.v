From Coq Require Import List Bool.
From NSQV Require Import model.TouchScan.
Import ListNotations.

Definition all_ends (recheck oe ne : bool) : bool :=
  forallb (fun sched => good_end ne (run recheck oe ne sched)) (merges 4 4).

Lemma all_ends_true : forall oe ne, all_ends true oe ne = true.
Proof. intros [] []; vm_compute; reflexivity. Qed.

Lemma all_ends_spec r oe ne :
  all_ends r oe ne = true -> forall sched, In sched (merges 4 4) -> good_end ne (run r oe ne sched) = true.
Proof.
  unfold all_ends. generalize (merges 4 4). intros l H sched Hin.
  rewrite forallb_forall in H. exact (H sched Hin).
Qed.

(* the repaired scan: EVERY interleaving, every combination of the two comparisons *)
Theorem touch_vs_scan_every_interleaving :
  forall oe ne sched, In sched (merges 4 4) -> good_end ne (run true oe ne sched) = true.
Proof. intros oe ne. apply all_ends_spec, all_ends_true. Qed.

(* the schedules are all of them: every list with four steps of each is among the merges *)
Definition is_scan (w : who) : bool := match w with Scan => true | _ => false end.
Definition is_touch (w : who) : bool := match w with Touch => true | _ => false end.

Lemma only_touch : forall sched m,
  length (filter is_scan sched) = 0 -> length (filter is_touch sched) = m -> sched = repeat Touch m.
Proof.
  induction sched as [|w sched IH]; intros m Hs Ht; cbn in *.
  - subst. reflexivity.
  - destruct w; cbn in *; [discriminate|]. destruct m; [discriminate|]. cbn. f_equal. apply IH; congruence.
Qed.

Lemma only_scan : forall sched n,
  length (filter is_scan sched) = n -> length (filter is_touch sched) = 0 -> sched = repeat Scan n.
Proof.
  induction sched as [|w sched IH]; intros n Hs Ht; cbn in *.
  - subst. reflexivity.
  - destruct w; cbn in *; [|discriminate]. destruct n; [discriminate|]. cbn. f_equal. apply IH; congruence.
Qed.

Lemma merges_SS n m : merges (S n) (S m) = map (cons Scan) (merges n (S m)) ++ map (cons Touch) (merges (S n) m).
Proof. reflexivity. Qed.

Lemma merges_complete : forall n m sched,
  length (filter is_scan sched) = n -> length (filter is_touch sched) = m -> In sched (merges n m).
Proof.
  induction n as [|n IHn].
  - intros m sched Hs Ht. left. symmetry. apply only_touch; assumption.
  - induction m as [|m IHm]; intros sched Hs Ht.
    + left. symmetry. apply only_scan; assumption.
    + rewrite merges_SS. apply in_app_iff. destruct sched as [|w sched]; [cbn in Hs; discriminate|].
      destruct w; cbn in Hs, Ht.
      * left. apply in_map. apply IHn; congruence.
      * right. apply in_map. apply IHm; congruence.
Qed.

(* the scan before c9864ad (no re-read): refuted - the scan looks, the TOUCH is accepted and
   sets a deadline beyond the scan's clock, the scan pops and re-queues *)
Theorem scan_without_recheck_refuted :
  exists sched, In sched (merges 4 4) /\ good_end false (run false true false sched) = false.
Proof.
  exists [Scan; Touch; Touch; Touch; Touch; Scan; Scan; Scan]. split; [apply merges_complete; reflexivity|vm_compute; reflexivity].
Qed.

(* what the separate critical sections of a set-then-queue pair do allow: a second, stale
   queue entry (here: the scan pushes the message back while the TOUCH is between its two
   pushes).  It costs one aborted scan round when it comes due, nothing else. *)
Example stale_queue_entry_possible :
  exists sched, In sched (merges 4 4) /\ in_pq (run true true false sched) = 2 /\ good_end false (run true true false sched) = true.
Proof.
  exists [Scan; Touch; Touch; Touch; Scan; Scan; Scan; Touch]. split; [|split; vm_compute; reflexivity].
  apply merges_complete; reflexivity.
Qed.
