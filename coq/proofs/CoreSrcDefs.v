(* The source-order facts about nsqd's core functions that the core model (model/Core.v)
   assumes, stated as theorems about the skeletons REGENERATED from /repo on every run
   (gen/CoreShape.v, tools/gotables/coreshape.go).  A source change that reorders, drops,
   duplicates or conditions one of these effects breaks the lemma named after the function,
   and with it the source-shape theorem of every property that relies on it.  (A harmless
   rewrite of one of these functions breaks it too: the check then searches the
   implementation for a failing input and, finding none, reports that the property is no
   longer shown.)  The expectations below were written by tools/mk_coresrc.py from the tree
   the model was validated against and reviewed by hand; the comment on each says what the
   model takes from it. *)
From Coq Require Import List String Bool.
From NSQV Require Import gen.CoreShape.
Import ListNotations.
Open Scope string_scope.

Fixpoint drop_until (a : string) (l : list string) : list string :=
  match l with [] => [] | x :: r => if String.eqb x a then l else drop_until a r end.
Fixpoint take_through (b : string) (l : list string) : list string :=
  match l with [] => [] | x :: r => if String.eqb x b then [x] else x :: take_through b r end.
(* from the first occurrence of a through the next occurrence of b *)
Definition seg (a b : string) (l : list string) : list string := take_through b (drop_until a l).
Definition cases_of (l : list string) : list string :=
  filter (fun t => String.prefix "case " t) l.

(* FIN: state guard admits subscribed and closing; the client counter is decremented only after the channel accepted the FIN *)
Definition expect_protocolV2_FIN : list string :=
  [ "call atomic.LoadInt32"
  ; "if state != stateSubscribed && state != stateClosing {"
  ; "call protocol.NewFatalClientErr"
  ; "return"
  ; "}"
  ; "if len(params) < 2 {"
  ; "call protocol.NewFatalClientErr"
  ; "return"
  ; "}"
  ; "call getMessageID"
  ; "if err != nil {"
  ; "call err.Error"
  ; "call protocol.NewFatalClientErr"
  ; "return"
  ; "}"
  ; "call client.Channel.FinishMessage"
  ; "if err != nil {"
  ; "call err.Error"
  ; "call fmt.Sprintf"
  ; "call protocol.NewClientErr"
  ; "return"
  ; "}"
  ; "call client.FinishedMessage"
  ; "return" ].

(* REQ: same guard; delay clamped; the client counter moves only after the channel accepted the REQ *)
Definition expect_protocolV2_REQ : list string :=
  [ "call atomic.LoadInt32"
  ; "if state != stateSubscribed && state != stateClosing {"
  ; "call protocol.NewFatalClientErr"
  ; "return"
  ; "}"
  ; "if len(params) < 3 {"
  ; "call protocol.NewFatalClientErr"
  ; "return"
  ; "}"
  ; "call getMessageID"
  ; "if err != nil {"
  ; "call err.Error"
  ; "call protocol.NewFatalClientErr"
  ; "return"
  ; "}"
  ; "call protocol.ByteToBase10"
  ; "if err != nil {"
  ; "call fmt.Sprintf"
  ; "call protocol.NewFatalClientErr"
  ; "return"
  ; "}"
  ; "call msToDuration"
  ; "call p.nsqd.getOpts"
  ; "set clampedTimeout=timeoutDuration"
  ; "if timeoutDuration < 0 {"
  ; "set clampedTimeout=0"
  ; "} else {"
  ; "if timeoutDuration > maxReqTimeout {"
  ; "set clampedTimeout=maxReqTimeout"
  ; "}"
  ; "}"
  ; "if clampedTimeout != timeoutDuration {"
  ; "set timeoutDuration=clampedTimeout"
  ; "}"
  ; "call client.Channel.RequeueMessage"
  ; "if err != nil {"
  ; "call err.Error"
  ; "call fmt.Sprintf"
  ; "call protocol.NewClientErr"
  ; "return"
  ; "}"
  ; "call client.RequeuedMessage"
  ; "return" ].

(* TOUCH: same guard; the hold is restarted with the negotiated msg_timeout (client.MsgTimeout) *)
Definition expect_protocolV2_TOUCH : list string :=
  [ "call atomic.LoadInt32"
  ; "if state != stateSubscribed && state != stateClosing {"
  ; "call protocol.NewFatalClientErr"
  ; "return"
  ; "}"
  ; "if len(params) < 2 {"
  ; "call protocol.NewFatalClientErr"
  ; "return"
  ; "}"
  ; "call getMessageID"
  ; "if err != nil {"
  ; "call err.Error"
  ; "call protocol.NewFatalClientErr"
  ; "return"
  ; "}"
  ; "call client.writeLock.RLock"
  ; "set msgTimeout=client.MsgTimeout"
  ; "call client.writeLock.RUnlock"
  ; "call client.Channel.TouchMessage"
  ; "if err != nil {"
  ; "call err.Error"
  ; "call fmt.Sprintf"
  ; "call protocol.NewClientErr"
  ; "return"
  ; "}"
  ; "return" ].

(* CLS: only from subscribed; StartClose *)
Definition expect_protocolV2_CLS : list string :=
  [ "call atomic.LoadInt32"
  ; "if atomic.LoadInt32(&client.State) != stateSubscribed {"
  ; "call protocol.NewFatalClientErr"
  ; "return"
  ; "}"
  ; "call client.StartClose"
  ; "call []byte"
  ; "return" ].

(* the frame is the message as stored (WriteTo), one Send *)
Definition expect_protocolV2_SendMessage : list string :=
  [ "call bufferPoolGet"
  ; "defer bufferPoolPut"
  ; "call msg.WriteTo"
  ; "if err != nil {"
  ; "return"
  ; "}"
  ; "call buf.Bytes"
  ; "call p.Send"
  ; "if err != nil {"
  ; "return"
  ; "}"
  ; "return" ].

(* Channel.put: zone/region hand-off, memory queue, else backend; ephemeral: drop *)
Definition expect_Channel_put : list string :=
  [ "if c.topologyAwareConsumption {"
  ; "select {"
  ; "case c.zoneLocalMsgChan <- m:"
  ; "return"
  ; "default:"
  ; "}"
  ; "select {"
  ; "case c.zoneLocalMsgChan <- m:"
  ; "return"
  ; "case c.regionLocalMsgChan <- m:"
  ; "return"
  ; "default:"
  ; "}"
  ; "select {"
  ; "case c.zoneLocalMsgChan <- m:"
  ; "return"
  ; "case c.regionLocalMsgChan <- m:"
  ; "return"
  ; "case c.memoryMsgChan <- m:"
  ; "return"
  ; "default:"
  ; "}"
  ; "} else {"
  ; "select {"
  ; "case c.memoryMsgChan <- m:"
  ; "return"
  ; "default:"
  ; "}"
  ; "}"
  ; "call writeMessageToBackend"
  ; "call c.nsqd.SetHealth"
  ; "if err != nil {"
  ; "return"
  ; "}"
  ; "return" ].

(* PutMessage holds the exit lock (RLock) and counts the message *)
Definition expect_Channel_PutMessage : list string :=
  [ "call c.exitMutex.RLock"
  ; "defer c.exitMutex.RUnlock"
  ; "call c.Exiting"
  ; "if c.Exiting() {"
  ; "call errors.New"
  ; "return"
  ; "}"
  ; "call c.put"
  ; "if err != nil {"
  ; "return"
  ; "}"
  ; "call atomic.AddUint64"
  ; "return" ].

(* a deferred put counts the message and starts the deferred timeout *)
Definition expect_Channel_PutMessageDeferred : list string :=
  [ "call atomic.AddUint64"
  ; "call c.StartDeferredTimeout" ].

(* registration in flight: map insertion, then the timeout queue *)
Definition expect_Channel_StartInFlightTimeout : list string :=
  [ "call time.Now"
  ; "set msg.clientID=clientID"
  ; "set msg.deliveryTS=now"
  ; "call now.Add"
  ; "call now.Add(timeout).UnixNano"
  ; "call c.pushInFlightMessage"
  ; "if err != nil {"
  ; "return"
  ; "}"
  ; "call c.addToInFlightPQ"
  ; "return" ].

(* deferred registration: map, then the deferred queue *)
Definition expect_Channel_StartDeferredTimeout : list string :=
  [ "call time.Now"
  ; "call time.Now().Add"
  ; "call time.Now().Add(timeout).UnixNano"
  ; "call c.pushDeferredMessage"
  ; "if err != nil {"
  ; "return"
  ; "}"
  ; "call c.addToDeferredPQ"
  ; "return" ].

(* FIN: pop from the in-flight map (owner checked there), remove from the timeout queue *)
Definition expect_Channel_FinishMessage : list string :=
  [ "call c.popInFlightMessage"
  ; "if err != nil {"
  ; "return"
  ; "}"
  ; "if c.e2eProcessingLatencyStream != nil {"
  ; "call c.e2eProcessingLatencyStream.Insert"
  ; "}"
  ; "return" ].

(* REQ: exit lock held across pop and re-queue (F16); immediate put or deferred *)
Definition expect_Channel_RequeueMessage : list string :=
  [ "call c.exitMutex.RLock"
  ; "defer c.exitMutex.RUnlock"
  ; "call c.Exiting"
  ; "if c.Exiting() {"
  ; "call errors.New"
  ; "return"
  ; "}"
  ; "call c.popInFlightMessage"
  ; "if err != nil {"
  ; "return"
  ; "}"
  ; "call atomic.AddUint64"
  ; "if timeout == 0 {"
  ; "call c.put"
  ; "return"
  ; "}"
  ; "call c.StartDeferredTimeout"
  ; "return" ].

(* TOUCH: pop, new deadline capped at delivery + max-msg-timeout, push back into BOTH map and queue *)
Definition expect_Channel_TouchMessage : list string :=
  [ "call c.exitMutex.RLock"
  ; "defer c.exitMutex.RUnlock"
  ; "call c.Exiting"
  ; "if c.Exiting() {"
  ; "call errors.New"
  ; "return"
  ; "}"
  ; "call c.popInFlightMessage"
  ; "if err != nil {"
  ; "return"
  ; "}"
  ; "call time.Now"
  ; "call time.Now().Add"
  ; "call newTimeout.Sub"
  ; "call c.nsqd.getOpts"
  ; "if newTimeout.Sub(msg.deliveryTS) >= c.nsqd.getOpts().MaxMsgTimeout {"
  ; "call c.nsqd.getOpts"
  ; "call msg.deliveryTS.Add"
  ; "}"
  ; "call newTimeout.UnixNano"
  ; "call c.pushInFlightMessage"
  ; "if err != nil {"
  ; "return"
  ; "}"
  ; "call c.addToInFlightPQ"
  ; "return" ].

(* one entry per id *)
Definition expect_Channel_pushInFlightMessage : list string :=
  [ "call c.inFlightMutex.Lock"
  ; "if ok {"
  ; "call c.inFlightMutex.Unlock"
  ; "call errors.New"
  ; "return"
  ; "}"
  ; "set c.inFlightMessages[msg.ID]=msg"
  ; "call c.inFlightMutex.Unlock"
  ; "return" ].

(* pop checks the owner (client id) *)
Definition expect_Channel_popInFlightMessage : list string :=
  [ "call c.inFlightMutex.Lock"
  ; "if !ok {"
  ; "call c.inFlightMutex.Unlock"
  ; "call errors.New"
  ; "return"
  ; "}"
  ; "if msg.clientID != clientID {"
  ; "call c.inFlightMutex.Unlock"
  ; "call errors.New"
  ; "return"
  ; "}"
  ; "call delete"
  ; "if msg.index != -1 {"
  ; "call c.inFlightPQ.Remove"
  ; "}"
  ; "call c.inFlightMutex.Unlock"
  ; "return" ].

(* timeout scan: exit lock; every popped message whose deadline (re-read after the pop: a TOUCH may have landed since the peek) has passed is re-queued, any other goes back in flight; the owner counter moves only if the owner is still attached *)
Definition expect_Channel_processInFlightQueue : list string :=
  [ "call c.exitMutex.RLock"
  ; "defer c.exitMutex.RUnlock"
  ; "call c.Exiting"
  ; "if c.Exiting() {"
  ; "return"
  ; "}"
  ; "set dirty=false"
  ; "for {"
  ; "call c.inFlightMutex.Lock"
  ; "call c.inFlightPQ.PeekAndShift"
  ; "call c.inFlightMutex.Unlock"
  ; "if msg == nil {"
  ; "goto exit"
  ; "}"
  ; "set dirty=true"
  ; "call c.popInFlightMessage"
  ; "if err != nil {"
  ; "continue"
  ; "}"
  ; "if msg.pri > t {"
  ; "call c.pushInFlightMessage"
  ; "call c.addToInFlightPQ"
  ; "continue"
  ; "}"
  ; "call atomic.AddUint64"
  ; "call c.RLock"
  ; "call c.RUnlock"
  ; "if ok {"
  ; "call client.TimedOutMessage"
  ; "}"
  ; "call c.put"
  ; "}"
  ; "label exit:"
  ; "return" ].

(* deferred scan: exit lock; every popped message is re-queued *)
Definition expect_Channel_processDeferredQueue : list string :=
  [ "call c.exitMutex.RLock"
  ; "defer c.exitMutex.RUnlock"
  ; "call c.Exiting"
  ; "if c.Exiting() {"
  ; "return"
  ; "}"
  ; "set dirty=false"
  ; "for {"
  ; "call c.deferredMutex.Lock"
  ; "call c.deferredPQ.PeekAndShift"
  ; "call c.deferredMutex.Unlock"
  ; "if item == nil {"
  ; "goto exit"
  ; "}"
  ; "set dirty=true"
  ; "call c.popDeferredMessage"
  ; "if err != nil {"
  ; "goto exit"
  ; "}"
  ; "call c.put"
  ; "}"
  ; "label exit:"
  ; "return" ].

(* flush writes the hand-off queues, the memory queue, the in-flight set and the deferred set to the backend *)
Definition expect_Channel_flush : list string :=
  [ "if len(c.zoneLocalMsgChan) > 0 || len(c.regionLocalMsgChan) > 0 || len(c.memoryMsgChan) > 0 || len(c.inFlightMessages) > 0 || len(c.deferredMessages) > 0 {"
  ; "}"
  ; "for {"
  ; "select {"
  ; "case msg := <-c.zoneLocalMsgChan:"
  ; "call writeMessageToBackend"
  ; "if err != nil {"
  ; "}"
  ; "case msg := <-c.regionLocalMsgChan:"
  ; "call writeMessageToBackend"
  ; "if err != nil {"
  ; "}"
  ; "case msg := <-c.memoryMsgChan:"
  ; "call writeMessageToBackend"
  ; "if err != nil {"
  ; "}"
  ; "default:"
  ; "goto finish"
  ; "}"
  ; "}"
  ; "label finish:"
  ; "call c.inFlightMutex.Lock"
  ; "range c.inFlightMessages {"
  ; "call writeMessageToBackend"
  ; "if err != nil {"
  ; "}"
  ; "}"
  ; "call c.inFlightMutex.Unlock"
  ; "call c.deferredMutex.Lock"
  ; "range c.deferredMessages {"
  ; "call writeMessageToBackend"
  ; "if err != nil {"
  ; "}"
  ; "}"
  ; "call c.deferredMutex.Unlock"
  ; "return" ].

(* exit: exclusive exit lock, then flush (close) or empty (delete) *)
Definition expect_Channel_exit : list string :=
  [ "call c.exitMutex.Lock"
  ; "defer c.exitMutex.Unlock"
  ; "call atomic.CompareAndSwapInt32"
  ; "if !atomic.CompareAndSwapInt32(&c.exitFlag, 0, 1) {"
  ; "call errors.New"
  ; "return"
  ; "}"
  ; "if deleted {"
  ; "call c.nsqd.Notify"
  ; "} else {"
  ; "}"
  ; "call c.RLock"
  ; "range c.clients {"
  ; "call client.Close"
  ; "}"
  ; "call c.RUnlock"
  ; "if deleted {"
  ; "call c.empty"
  ; "call c.backend.Delete"
  ; "return"
  ; "}"
  ; "call c.flush"
  ; "call c.backend.Close"
  ; "return" ].

(* Empty: exclusive exit lock (waits for requeues in progress), then empty() *)
Definition expect_Channel_Empty : list string :=
  [ "call c.exitMutex.Lock"
  ; "defer c.exitMutex.Unlock"
  ; "call c.empty"
  ; "return" ].

(* empty: clears in-flight and deferred, drains the queues and the backend, THEN resets the consumers (F17) *)
Definition expect_Channel_empty : list string :=
  [ "call c.Lock"
  ; "defer c.Unlock"
  ; "call c.initPQ"
  ; "for {"
  ; "select {"
  ; "case <-c.zoneLocalMsgChan:"
  ; "case <-c.regionLocalMsgChan:"
  ; "case <-c.memoryMsgChan:"
  ; "default:"
  ; "goto finish"
  ; "}"
  ; "}"
  ; "label finish:"
  ; "call c.backend.Empty"
  ; "range discarded {"
  ; "if ok {"
  ; "call client.TimedOutMessage"
  ; "}"
  ; "}"
  ; "range c.clients {"
  ; "call client.Empty"
  ; "}"
  ; "return" ].

(* AddClient *)
Definition expect_Channel_AddClient : list string :=
  [ "call c.exitMutex.RLock"
  ; "defer c.exitMutex.RUnlock"
  ; "call c.Exiting"
  ; "if c.Exiting() {"
  ; "call errors.New"
  ; "return"
  ; "}"
  ; "call c.RLock"
  ; "call c.RUnlock"
  ; "if ok {"
  ; "return"
  ; "}"
  ; "call c.nsqd.getOpts"
  ; "if maxChannelConsumers != 0 && numClients >= maxChannelConsumers {"
  ; "call fmt.Errorf"
  ; "return"
  ; "}"
  ; "call c.Lock"
  ; "set c.clients[clientID]=client"
  ; "call c.Unlock"
  ; "return" ].

(* RemoveClient: an ephemeral channel deletes itself with its last consumer *)
Definition expect_Channel_RemoveClient : list string :=
  [ "call c.exitMutex.RLock"
  ; "defer c.exitMutex.RUnlock"
  ; "call c.Exiting"
  ; "if c.Exiting() {"
  ; "return"
  ; "}"
  ; "call c.RLock"
  ; "call c.RUnlock"
  ; "if !ok {"
  ; "return"
  ; "}"
  ; "call c.Lock"
  ; "call delete"
  ; "call c.Unlock"
  ; "if numClients == 0 && c.ephemeral {"
  ; "go c.deleter.Do"
  ; "}" ].

(* topic pump: every message goes to every current channel (copy for all but the first), deferred ones through PutMessageDeferred; paused or channel-less topics read nothing *)
Definition expect_Topic_messagePump : list string :=
  [ "var msg"
  ; "var buf"
  ; "var err"
  ; "var chans"
  ; "var memoryMsgChan"
  ; "var backendChan"
  ; "for {"
  ; "select {"
  ; "case <-t.channelUpdateChan:"
  ; "continue"
  ; "case <-t.pauseChan:"
  ; "continue"
  ; "case <-t.exitChan:"
  ; "goto exit"
  ; "case <-t.startChan:"
  ; "}"
  ; "break"
  ; "}"
  ; "call t.RLock"
  ; "range t.channelMap {"
  ; "}"
  ; "call t.RUnlock"
  ; "call t.IsPaused"
  ; "if len(chans) > 0 && !t.IsPaused() {"
  ; "set memoryMsgChan=t.memoryMsgChan"
  ; "call t.backend.ReadChan"
  ; "}"
  ; "for {"
  ; "select {"
  ; "case msg = <-memoryMsgChan:"
  ; "case buf = <-backendChan:"
  ; "call decodeMessage"
  ; "if err != nil {"
  ; "continue"
  ; "}"
  ; "case <-t.channelUpdateChan:"
  ; "call t.RLock"
  ; "range t.channelMap {"
  ; "}"
  ; "call t.RUnlock"
  ; "call t.IsPaused"
  ; "if len(chans) == 0 || t.IsPaused() {"
  ; "set memoryMsgChan=nil"
  ; "set backendChan=nil"
  ; "} else {"
  ; "set memoryMsgChan=t.memoryMsgChan"
  ; "call t.backend.ReadChan"
  ; "}"
  ; "continue"
  ; "case <-t.pauseChan:"
  ; "call t.IsPaused"
  ; "if len(chans) == 0 || t.IsPaused() {"
  ; "set memoryMsgChan=nil"
  ; "set backendChan=nil"
  ; "} else {"
  ; "set memoryMsgChan=t.memoryMsgChan"
  ; "call t.backend.ReadChan"
  ; "}"
  ; "continue"
  ; "case <-t.exitChan:"
  ; "goto exit"
  ; "}"
  ; "range chans {"
  ; "set chanMsg=msg"
  ; "if i > 0 {"
  ; "call NewMessage"
  ; "set chanMsg.Timestamp=msg.Timestamp"
  ; "set chanMsg.deferred=msg.deferred"
  ; "}"
  ; "if chanMsg.deferred != 0 {"
  ; "call channel.PutMessageDeferred"
  ; "continue"
  ; "}"
  ; "call channel.PutMessage"
  ; "if err != nil {"
  ; "}"
  ; "}"
  ; "}"
  ; "label exit:" ].

(* Topic.put: memory queue else backend (ephemeral topic: dummy backend) *)
Definition expect_Topic_put : list string :=
  [ "if cap(t.memoryMsgChan) > 0 || t.ephemeral || m.deferred != 0 {"
  ; "select {"
  ; "case t.memoryMsgChan <- m:"
  ; "return"
  ; "default:"
  ; "break"
  ; "}"
  ; "}"
  ; "call writeMessageToBackend"
  ; "call t.nsqd.SetHealth"
  ; "if err != nil {"
  ; "return"
  ; "}"
  ; "return" ].

(* PutMessage holds the read lock against exit and counts *)
Definition expect_Topic_PutMessage : list string :=
  [ "call t.RLock"
  ; "defer t.RUnlock"
  ; "call atomic.LoadInt32"
  ; "if atomic.LoadInt32(&t.exitFlag) == 1 {"
  ; "call errors.New"
  ; "return"
  ; "}"
  ; "call t.put"
  ; "if err != nil {"
  ; "return"
  ; "}"
  ; "call atomic.AddUint64"
  ; "call atomic.AddUint64"
  ; "return" ].

(* PutMessages likewise *)
Definition expect_Topic_PutMessages : list string :=
  [ "call t.RLock"
  ; "defer t.RUnlock"
  ; "call atomic.LoadInt32"
  ; "if atomic.LoadInt32(&t.exitFlag) == 1 {"
  ; "call errors.New"
  ; "return"
  ; "}"
  ; "set messageTotalBytes=0"
  ; "range msgs {"
  ; "call t.put"
  ; "if err != nil {"
  ; "call atomic.AddUint64"
  ; "call atomic.AddUint64"
  ; "return"
  ; "}"
  ; "set messageTotalBytes+="
  ; "}"
  ; "call atomic.AddUint64"
  ; "call atomic.AddUint64"
  ; "return" ].

(* flush writes the memory queue to the backend *)
Definition expect_Topic_flush : list string :=
  [ "if len(t.memoryMsgChan) > 0 {"
  ; "}"
  ; "for {"
  ; "select {"
  ; "case msg := <-t.memoryMsgChan:"
  ; "call writeMessageToBackend"
  ; "if err != nil {"
  ; "}"
  ; "default:"
  ; "goto finish"
  ; "}"
  ; "}"
  ; "label finish:"
  ; "return" ].

(* exit: close flushes channels, delete deletes them *)
Definition expect_Topic_exit : list string :=
  [ "call atomic.CompareAndSwapInt32"
  ; "if !atomic.CompareAndSwapInt32(&t.exitFlag, 0, 1) {"
  ; "call errors.New"
  ; "return"
  ; "}"
  ; "if deleted {"
  ; "call t.nsqd.Notify"
  ; "} else {"
  ; "}"
  ; "call close"
  ; "call t.waitGroup.Wait"
  ; "if deleted {"
  ; "call t.Lock"
  ; "range t.channelMap {"
  ; "call delete"
  ; "call channel.Delete"
  ; "}"
  ; "call t.Unlock"
  ; "call t.Empty"
  ; "call t.backend.Delete"
  ; "return"
  ; "}"
  ; "call t.Lock"
  ; "range t.channelMap {"
  ; "call channel.Close"
  ; "if err != nil {"
  ; "}"
  ; "}"
  ; "call t.Unlock"
  ; "call t.flush"
  ; "call t.backend.Close"
  ; "return" ].

(* GetChannel notifies the pump of a new channel *)
Definition expect_Topic_GetChannel : list string :=
  [ "call t.Lock"
  ; "call t.getOrCreateChannel"
  ; "call t.Unlock"
  ; "if isNew {"
  ; "select {"
  ; "case t.channelUpdateChan <- 1:"
  ; "case <-t.exitChan:"
  ; "}"
  ; "}"
  ; "return" ].

(* DeleteExistingChannel: remove from the map, delete the channel, tell the pump; ephemeral topic goes with its last channel *)
Definition expect_Topic_DeleteExistingChannel : list string :=
  [ "call t.RLock"
  ; "call t.RUnlock"
  ; "if !ok {"
  ; "call errors.New"
  ; "return"
  ; "}"
  ; "call channel.Delete"
  ; "call t.Lock"
  ; "call delete"
  ; "call t.Unlock"
  ; "select {"
  ; "case t.channelUpdateChan <- 1:"
  ; "case <-t.exitChan:"
  ; "}"
  ; "if numChannels == 0 && t.ephemeral {"
  ; "go t.deleter.Do"
  ; "}"
  ; "if !channel.ephemeral && !t.ephemeral {"
  ; "call t.nsqd.persistAfterDelete"
  ; "}"
  ; "return" ].

(* GetTopic: second lookup under the write lock (one Topic object per name) *)
Definition expect_NSQD_GetTopic : list string :=
  [ "call n.RLock"
  ; "call n.RUnlock"
  ; "if ok {"
  ; "return"
  ; "}"
  ; "call n.Lock"
  ; "if ok {"
  ; "call n.Unlock"
  ; "return"
  ; "}"
  ; "func {"
  ; "call n.DeleteExistingTopic"
  ; "}"
  ; "call NewTopic"
  ; "set n.topicMap[topicName]=t"
  ; "call n.Unlock"
  ; "call atomic.LoadInt32"
  ; "if atomic.LoadInt32(&n.isLoading) == 1 {"
  ; "return"
  ; "}"
  ; "call n.lookupdHTTPAddrs"
  ; "if len(lookupdHTTPAddrs) > 0 {"
  ; "call n.ci.GetLookupdTopicChannels"
  ; "if err != nil {"
  ; "}"
  ; "range channelNames {"
  ; "call strings.HasSuffix"
  ; "if strings.HasSuffix(channelName, ""#ephemeral"") {"
  ; "continue"
  ; "}"
  ; "call t.GetChannel"
  ; "}"
  ; "} else {"
  ; "call n.getOpts"
  ; "if len(n.getOpts().NSQLookupdTCPAddresses) > 0 {"
  ; "}"
  ; "}"
  ; "call t.Start"
  ; "return" ].

(* DeleteExistingTopic: the topic is torn down BEFORE its name is freed *)
Definition expect_NSQD_DeleteExistingTopic : list string :=
  [ "call n.RLock"
  ; "if !ok {"
  ; "call n.RUnlock"
  ; "call errors.New"
  ; "return"
  ; "}"
  ; "call n.RUnlock"
  ; "call topic.Delete"
  ; "call n.Lock"
  ; "call delete"
  ; "call n.Unlock"
  ; "if !topic.ephemeral {"
  ; "call n.persistAfterDelete"
  ; "}"
  ; "return" ].

(* Exit: listeners, metadata, topics closed *)
Definition expect_NSQD_Exit : list string :=
  [ "call atomic.CompareAndSwapInt32"
  ; "if !atomic.CompareAndSwapInt32(&n.isExiting, 0, 1) {"
  ; "return"
  ; "}"
  ; "if n.tcpListener != nil {"
  ; "call n.tcpListener.Close"
  ; "}"
  ; "if n.tcpServer != nil {"
  ; "call n.tcpServer.Close"
  ; "}"
  ; "if n.httpListener != nil {"
  ; "call n.httpListener.Close"
  ; "}"
  ; "if n.httpsListener != nil {"
  ; "call n.httpsListener.Close"
  ; "}"
  ; "call n.Lock"
  ; "call n.PersistMetadata"
  ; "if err != nil {"
  ; "}"
  ; "range n.topicMap {"
  ; "call topic.Close"
  ; "}"
  ; "call n.Unlock"
  ; "call close"
  ; "call n.waitGroup.Wait"
  ; "call n.dl.Unlock"
  ; "call n.ctxCancel" ].

(* any change of RDY wakes the pump *)
Definition expect_clientV2_SetReadyCount : list string :=
  [ "call atomic.SwapInt64"
  ; "if oldCount != count {"
  ; "call c.tryUpdateReadyState"
  ; "}" ].

(* the send guard: not paused, in-flight < RDY, RDY > 0 *)
Definition expect_clientV2_IsReadyForMessages : list string :=
  [ "call c.Channel.IsPaused"
  ; "if c.Channel.IsPaused() {"
  ; "return"
  ; "}"
  ; "call atomic.LoadInt64"
  ; "call atomic.LoadInt64"
  ; "if inFlightCount >= readyCount || readyCount <= 0 {"
  ; "return"
  ; "}"
  ; "return" ].

(* counters on delivery *)
Definition expect_clientV2_SendingMessage : list string :=
  [ "call atomic.AddInt64"
  ; "call atomic.AddUint64" ].

(* counters on FIN *)
Definition expect_clientV2_FinishedMessage : list string :=
  [ "call atomic.AddUint64"
  ; "call atomic.AddInt64"
  ; "call c.tryUpdateReadyState" ].

(* counters on timeout *)
Definition expect_clientV2_TimedOutMessage : list string :=
  [ "call atomic.AddInt64"
  ; "call c.tryUpdateReadyState" ].

(* counters on REQ *)
Definition expect_clientV2_RequeuedMessage : list string :=
  [ "call atomic.AddUint64"
  ; "call atomic.AddInt64"
  ; "call c.tryUpdateReadyState" ].

(* CLS: RDY 0, state closing *)
Definition expect_clientV2_StartClose : list string :=
  [ "call c.SetReadyCount"
  ; "call atomic.StoreInt32" ].

(* the consumer side of an Empty: wakes the pump, does NOT store into the in-flight count (the channel has released it per message: F23) *)
Definition expect_clientV2_Empty : list string :=
  [ "call c.tryUpdateReadyState" ].

(* fresh in-flight and deferred structures; the in-flight set that was replaced is handed back to the caller *)
Definition expect_Channel_initPQ : list string :=
  [ "call c.nsqd.getOpts"
  ; "call float64"
  ; "call math.Max"
  ; "call c.inFlightMutex.Lock"
  ; "set discarded=c.inFlightMessages"
  ; "call newInFlightPqueue"
  ; "call c.inFlightMutex.Unlock"
  ; "call c.deferredMutex.Lock"
  ; "call pqueue.New"
  ; "call c.deferredMutex.Unlock"
  ; "return" ].

(* connection ids come from ONE atomic increment (never reused, never shared) *)
Definition expect_protocolV2_NewClient : list string :=
  [ "call atomic.AddInt64"
  ; "call newClientV2"
  ; "return" ].

(* pause / unpause of a channel: the flag is stored FIRST, then every consumer is woken to re-read it *)
Definition expect_Channel_doPause : list string :=
  [ "if pause {"
  ; "call atomic.StoreInt32"
  ; "} else {"
  ; "call atomic.StoreInt32"
  ; "}"
  ; "call c.RLock"
  ; "range c.clients {"
  ; "if pause {"
  ; "call client.Pause"
  ; "} else {"
  ; "call client.UnPause"
  ; "}"
  ; "}"
  ; "call c.RUnlock"
  ; "return" ].

(* pause / unpause of a topic: the flag is stored, then the pump is told *)
Definition expect_Topic_doPause : list string :=
  [ "if pause {"
  ; "call atomic.StoreInt32"
  ; "} else {"
  ; "call atomic.StoreInt32"
  ; "}"
  ; "select {"
  ; "case t.pauseChan <- 1:"
  ; "case <-t.exitChan:"
  ; "}"
  ; "return" ].

(* pop from the deferred map *)
Definition expect_Channel_popDeferredMessage : list string :=
  [ "call c.deferredMutex.Lock"
  ; "if !ok {"
  ; "call c.deferredMutex.Unlock"
  ; "call errors.New"
  ; "return"
  ; "}"
  ; "call delete"
  ; "call c.deferredMutex.Unlock"
  ; "return" ].

(* one deferred entry per id *)
Definition expect_Channel_pushDeferredMessage : list string :=
  [ "call c.deferredMutex.Lock"
  ; "if ok {"
  ; "call c.deferredMutex.Unlock"
  ; "call errors.New"
  ; "return"
  ; "}"
  ; "set c.deferredMessages[id]=item"
  ; "call c.deferredMutex.Unlock"
  ; "return" ].

(* timeout queue insertion under the in-flight mutex *)
Definition expect_Channel_addToInFlightPQ : list string :=
  [ "call c.inFlightMutex.Lock"
  ; "call c.inFlightPQ.Push"
  ; "call c.inFlightMutex.Unlock" ].

(* deferred queue insertion under the deferred mutex *)
Definition expect_Channel_addToDeferredPQ : list string :=
  [ "call c.deferredMutex.Lock"
  ; "call heap.Push"
  ; "call c.deferredMutex.Unlock" ].

(* the consumer pump declares its per-iteration message variables INSIDE the loop (a stale disk buffer cannot be delivered twice) *)
Definition expect_pump_loop_head : list string :=
  [ "for {"
  ; "var b"
  ; "var msg"
  ; "call client.IsReadyForMessages" ].

(* a consumer that is not ready listens to NO message source (memory, zone, region, backend) *)
Definition expect_pump_not_ready : list string :=
  [ "if subChannel == nil || !client.IsReadyForMessages() {"
  ; "set memoryMsgChan=nil"
  ; "set regionMsgChan=nil"
  ; "set zoneMsgChan=nil"
  ; "set backendMsgChan=nil"
  ; "set flusherChan=nil"
  ; "call client.writeLock.Lock" ].

(* delivery: attempts+1, registered in flight BEFORE the frame is written, client counters, then SendMessage *)
Definition expect_pump_deliver : list string :=
  [ "if len(b) != 0 {"
  ; "call decodeMessage"
  ; "if err != nil {"
  ; "continue"
  ; "}"
  ; "}"
  ; "if msg != nil {"
  ; "call rand.Int31n"
  ; "if sampleRate > 0 && rand.Int31n(100) > sampleRate {"
  ; "continue"
  ; "}"
  ; "inc msg.Attempts++"
  ; "call subChannel.StartInFlightTimeout"
  ; "call client.SendingMessage"
  ; "call p.SendMessage"
  ; "if err != nil {"
  ; "goto exit"
  ; "}"
  ; "set flushed=false"
  ; "}"
  ; "}"
  ; "label exit:"
  ; "call heartbeatTicker.Stop"
  ; "call outputBufferTicker.Stop"
  ; "if err != nil {"
  ; "}" ].

(* the select cases of the consumer pump (the four message sources among them) *)
Definition expect_pump_sources : list string :=
  [ "case <-flusherChan:"
  ; "case <-client.ReadyStateChan:"
  ; "case subChannel = <-subEventChan:"
  ; "case identifyData := <-identifyEventChan:"
  ; "case <-heartbeatChan:"
  ; "case b = <-backendMsgChan:"
  ; "case msg = <-zoneMsgChan:"
  ; "case msg = <-regionMsgChan:"
  ; "case msg = <-memoryMsgChan:"
  ; "case <-client.ExitChan:" ].

Definition src_facts_C01 : Prop :=
  shape_protocolV2_FIN = expect_protocolV2_FIN
  /\ shape_protocolV2_REQ = expect_protocolV2_REQ
  /\ shape_protocolV2_TOUCH = expect_protocolV2_TOUCH
  /\ shape_protocolV2_CLS = expect_protocolV2_CLS
  /\ shape_protocolV2_SendMessage = expect_protocolV2_SendMessage
  /\ shape_Channel_put = expect_Channel_put
  /\ shape_Channel_PutMessage = expect_Channel_PutMessage
  /\ shape_Channel_PutMessageDeferred = expect_Channel_PutMessageDeferred
  /\ shape_Channel_StartInFlightTimeout = expect_Channel_StartInFlightTimeout
  /\ shape_Channel_StartDeferredTimeout = expect_Channel_StartDeferredTimeout
  /\ shape_Channel_FinishMessage = expect_Channel_FinishMessage
  /\ shape_Channel_RequeueMessage = expect_Channel_RequeueMessage
  /\ shape_Channel_TouchMessage = expect_Channel_TouchMessage
  /\ shape_Channel_pushInFlightMessage = expect_Channel_pushInFlightMessage
  /\ shape_Channel_popInFlightMessage = expect_Channel_popInFlightMessage
  /\ shape_Channel_processInFlightQueue = expect_Channel_processInFlightQueue
  /\ shape_Channel_processDeferredQueue = expect_Channel_processDeferredQueue
  /\ shape_Channel_flush = expect_Channel_flush
  /\ shape_Channel_exit = expect_Channel_exit
  /\ shape_Channel_Empty = expect_Channel_Empty
  /\ shape_Channel_empty = expect_Channel_empty
  /\ shape_Channel_AddClient = expect_Channel_AddClient
  /\ shape_Channel_RemoveClient = expect_Channel_RemoveClient
  /\ shape_Topic_messagePump = expect_Topic_messagePump
  /\ shape_Topic_put = expect_Topic_put
  /\ shape_Topic_PutMessage = expect_Topic_PutMessage
  /\ shape_Topic_PutMessages = expect_Topic_PutMessages
  /\ shape_Topic_flush = expect_Topic_flush
  /\ shape_Topic_exit = expect_Topic_exit
  /\ shape_Topic_GetChannel = expect_Topic_GetChannel
  /\ shape_Topic_DeleteExistingChannel = expect_Topic_DeleteExistingChannel
  /\ shape_NSQD_GetTopic = expect_NSQD_GetTopic
  /\ shape_NSQD_DeleteExistingTopic = expect_NSQD_DeleteExistingTopic
  /\ shape_NSQD_Exit = expect_NSQD_Exit
  /\ shape_clientV2_SetReadyCount = expect_clientV2_SetReadyCount
  /\ shape_clientV2_IsReadyForMessages = expect_clientV2_IsReadyForMessages
  /\ shape_clientV2_SendingMessage = expect_clientV2_SendingMessage
  /\ shape_clientV2_FinishedMessage = expect_clientV2_FinishedMessage
  /\ shape_clientV2_TimedOutMessage = expect_clientV2_TimedOutMessage
  /\ shape_clientV2_RequeuedMessage = expect_clientV2_RequeuedMessage
  /\ shape_clientV2_StartClose = expect_clientV2_StartClose
  /\ shape_clientV2_Empty = expect_clientV2_Empty
  /\ shape_Channel_initPQ = expect_Channel_initPQ
  /\ shape_protocolV2_NewClient = expect_protocolV2_NewClient
  /\ shape_Channel_doPause = expect_Channel_doPause
  /\ shape_Topic_doPause = expect_Topic_doPause
  /\ shape_Channel_popDeferredMessage = expect_Channel_popDeferredMessage
  /\ shape_Channel_pushDeferredMessage = expect_Channel_pushDeferredMessage
  /\ shape_Channel_addToInFlightPQ = expect_Channel_addToInFlightPQ
  /\ shape_Channel_addToDeferredPQ = expect_Channel_addToDeferredPQ
  /\ seg "for {" "call client.IsReadyForMessages" shape_protocolV2_messagePump = expect_pump_loop_head
  /\ seg "if subChannel == nil || !client.IsReadyForMessages() {" "call client.writeLock.Lock" shape_protocolV2_messagePump = expect_pump_not_ready
  /\ drop_until "if len(b) != 0 {" shape_protocolV2_messagePump = expect_pump_deliver
  /\ cases_of shape_protocolV2_messagePump = expect_pump_sources.

Definition src_facts_C02 : Prop :=
  shape_protocolV2_FIN = expect_protocolV2_FIN
  /\ shape_protocolV2_REQ = expect_protocolV2_REQ
  /\ shape_protocolV2_TOUCH = expect_protocolV2_TOUCH
  /\ shape_protocolV2_CLS = expect_protocolV2_CLS
  /\ shape_protocolV2_SendMessage = expect_protocolV2_SendMessage
  /\ shape_Channel_put = expect_Channel_put
  /\ shape_Channel_PutMessage = expect_Channel_PutMessage
  /\ shape_Channel_PutMessageDeferred = expect_Channel_PutMessageDeferred
  /\ shape_Channel_StartInFlightTimeout = expect_Channel_StartInFlightTimeout
  /\ shape_Channel_StartDeferredTimeout = expect_Channel_StartDeferredTimeout
  /\ shape_Channel_FinishMessage = expect_Channel_FinishMessage
  /\ shape_Channel_RequeueMessage = expect_Channel_RequeueMessage
  /\ shape_Channel_TouchMessage = expect_Channel_TouchMessage
  /\ shape_Channel_pushInFlightMessage = expect_Channel_pushInFlightMessage
  /\ shape_Channel_popInFlightMessage = expect_Channel_popInFlightMessage
  /\ shape_Channel_processInFlightQueue = expect_Channel_processInFlightQueue
  /\ shape_Channel_processDeferredQueue = expect_Channel_processDeferredQueue
  /\ shape_Channel_flush = expect_Channel_flush
  /\ shape_Channel_exit = expect_Channel_exit
  /\ shape_Channel_Empty = expect_Channel_Empty
  /\ shape_Channel_empty = expect_Channel_empty
  /\ shape_Channel_AddClient = expect_Channel_AddClient
  /\ shape_Channel_RemoveClient = expect_Channel_RemoveClient
  /\ shape_Topic_messagePump = expect_Topic_messagePump
  /\ shape_Topic_put = expect_Topic_put
  /\ shape_Topic_PutMessage = expect_Topic_PutMessage
  /\ shape_Topic_PutMessages = expect_Topic_PutMessages
  /\ shape_Topic_flush = expect_Topic_flush
  /\ shape_Topic_exit = expect_Topic_exit
  /\ shape_Topic_GetChannel = expect_Topic_GetChannel
  /\ shape_Topic_DeleteExistingChannel = expect_Topic_DeleteExistingChannel
  /\ shape_NSQD_GetTopic = expect_NSQD_GetTopic
  /\ shape_NSQD_DeleteExistingTopic = expect_NSQD_DeleteExistingTopic
  /\ shape_NSQD_Exit = expect_NSQD_Exit
  /\ shape_clientV2_SetReadyCount = expect_clientV2_SetReadyCount
  /\ shape_clientV2_IsReadyForMessages = expect_clientV2_IsReadyForMessages
  /\ shape_clientV2_SendingMessage = expect_clientV2_SendingMessage
  /\ shape_clientV2_FinishedMessage = expect_clientV2_FinishedMessage
  /\ shape_clientV2_TimedOutMessage = expect_clientV2_TimedOutMessage
  /\ shape_clientV2_RequeuedMessage = expect_clientV2_RequeuedMessage
  /\ shape_clientV2_StartClose = expect_clientV2_StartClose
  /\ shape_clientV2_Empty = expect_clientV2_Empty
  /\ shape_Channel_initPQ = expect_Channel_initPQ
  /\ shape_protocolV2_NewClient = expect_protocolV2_NewClient
  /\ shape_Channel_doPause = expect_Channel_doPause
  /\ shape_Topic_doPause = expect_Topic_doPause
  /\ shape_Channel_popDeferredMessage = expect_Channel_popDeferredMessage
  /\ shape_Channel_pushDeferredMessage = expect_Channel_pushDeferredMessage
  /\ shape_Channel_addToInFlightPQ = expect_Channel_addToInFlightPQ
  /\ shape_Channel_addToDeferredPQ = expect_Channel_addToDeferredPQ
  /\ seg "for {" "call client.IsReadyForMessages" shape_protocolV2_messagePump = expect_pump_loop_head
  /\ seg "if subChannel == nil || !client.IsReadyForMessages() {" "call client.writeLock.Lock" shape_protocolV2_messagePump = expect_pump_not_ready
  /\ drop_until "if len(b) != 0 {" shape_protocolV2_messagePump = expect_pump_deliver
  /\ cases_of shape_protocolV2_messagePump = expect_pump_sources.

Definition src_facts_C03 : Prop :=
  shape_protocolV2_FIN = expect_protocolV2_FIN
  /\ shape_protocolV2_REQ = expect_protocolV2_REQ
  /\ shape_protocolV2_TOUCH = expect_protocolV2_TOUCH
  /\ shape_protocolV2_CLS = expect_protocolV2_CLS
  /\ shape_protocolV2_SendMessage = expect_protocolV2_SendMessage
  /\ shape_Channel_put = expect_Channel_put
  /\ shape_Channel_PutMessage = expect_Channel_PutMessage
  /\ shape_Channel_PutMessageDeferred = expect_Channel_PutMessageDeferred
  /\ shape_Channel_StartInFlightTimeout = expect_Channel_StartInFlightTimeout
  /\ shape_Channel_StartDeferredTimeout = expect_Channel_StartDeferredTimeout
  /\ shape_Channel_FinishMessage = expect_Channel_FinishMessage
  /\ shape_Channel_RequeueMessage = expect_Channel_RequeueMessage
  /\ shape_Channel_TouchMessage = expect_Channel_TouchMessage
  /\ shape_Channel_pushInFlightMessage = expect_Channel_pushInFlightMessage
  /\ shape_Channel_popInFlightMessage = expect_Channel_popInFlightMessage
  /\ shape_Channel_processInFlightQueue = expect_Channel_processInFlightQueue
  /\ shape_Channel_processDeferredQueue = expect_Channel_processDeferredQueue
  /\ shape_Channel_flush = expect_Channel_flush
  /\ shape_Channel_exit = expect_Channel_exit
  /\ shape_Channel_Empty = expect_Channel_Empty
  /\ shape_Channel_empty = expect_Channel_empty
  /\ shape_Channel_AddClient = expect_Channel_AddClient
  /\ shape_Channel_RemoveClient = expect_Channel_RemoveClient
  /\ shape_Topic_messagePump = expect_Topic_messagePump
  /\ shape_Topic_put = expect_Topic_put
  /\ shape_Topic_PutMessage = expect_Topic_PutMessage
  /\ shape_Topic_PutMessages = expect_Topic_PutMessages
  /\ shape_Topic_flush = expect_Topic_flush
  /\ shape_Topic_exit = expect_Topic_exit
  /\ shape_Topic_GetChannel = expect_Topic_GetChannel
  /\ shape_Topic_DeleteExistingChannel = expect_Topic_DeleteExistingChannel
  /\ shape_NSQD_GetTopic = expect_NSQD_GetTopic
  /\ shape_NSQD_DeleteExistingTopic = expect_NSQD_DeleteExistingTopic
  /\ shape_NSQD_Exit = expect_NSQD_Exit
  /\ shape_clientV2_SetReadyCount = expect_clientV2_SetReadyCount
  /\ shape_clientV2_IsReadyForMessages = expect_clientV2_IsReadyForMessages
  /\ shape_clientV2_SendingMessage = expect_clientV2_SendingMessage
  /\ shape_clientV2_FinishedMessage = expect_clientV2_FinishedMessage
  /\ shape_clientV2_TimedOutMessage = expect_clientV2_TimedOutMessage
  /\ shape_clientV2_RequeuedMessage = expect_clientV2_RequeuedMessage
  /\ shape_clientV2_StartClose = expect_clientV2_StartClose
  /\ shape_clientV2_Empty = expect_clientV2_Empty
  /\ shape_Channel_initPQ = expect_Channel_initPQ
  /\ shape_protocolV2_NewClient = expect_protocolV2_NewClient
  /\ shape_Channel_doPause = expect_Channel_doPause
  /\ shape_Topic_doPause = expect_Topic_doPause
  /\ shape_Channel_popDeferredMessage = expect_Channel_popDeferredMessage
  /\ shape_Channel_pushDeferredMessage = expect_Channel_pushDeferredMessage
  /\ shape_Channel_addToInFlightPQ = expect_Channel_addToInFlightPQ
  /\ shape_Channel_addToDeferredPQ = expect_Channel_addToDeferredPQ
  /\ seg "for {" "call client.IsReadyForMessages" shape_protocolV2_messagePump = expect_pump_loop_head
  /\ seg "if subChannel == nil || !client.IsReadyForMessages() {" "call client.writeLock.Lock" shape_protocolV2_messagePump = expect_pump_not_ready
  /\ drop_until "if len(b) != 0 {" shape_protocolV2_messagePump = expect_pump_deliver
  /\ cases_of shape_protocolV2_messagePump = expect_pump_sources.

Definition src_facts_C04 : Prop :=
  shape_protocolV2_FIN = expect_protocolV2_FIN
  /\ shape_protocolV2_REQ = expect_protocolV2_REQ
  /\ shape_protocolV2_TOUCH = expect_protocolV2_TOUCH
  /\ shape_protocolV2_CLS = expect_protocolV2_CLS
  /\ shape_protocolV2_SendMessage = expect_protocolV2_SendMessage
  /\ shape_Channel_put = expect_Channel_put
  /\ shape_Channel_PutMessage = expect_Channel_PutMessage
  /\ shape_Channel_PutMessageDeferred = expect_Channel_PutMessageDeferred
  /\ shape_Channel_StartInFlightTimeout = expect_Channel_StartInFlightTimeout
  /\ shape_Channel_StartDeferredTimeout = expect_Channel_StartDeferredTimeout
  /\ shape_Channel_FinishMessage = expect_Channel_FinishMessage
  /\ shape_Channel_RequeueMessage = expect_Channel_RequeueMessage
  /\ shape_Channel_TouchMessage = expect_Channel_TouchMessage
  /\ shape_Channel_pushInFlightMessage = expect_Channel_pushInFlightMessage
  /\ shape_Channel_popInFlightMessage = expect_Channel_popInFlightMessage
  /\ shape_Channel_processInFlightQueue = expect_Channel_processInFlightQueue
  /\ shape_Channel_processDeferredQueue = expect_Channel_processDeferredQueue
  /\ shape_Channel_flush = expect_Channel_flush
  /\ shape_Channel_exit = expect_Channel_exit
  /\ shape_Channel_Empty = expect_Channel_Empty
  /\ shape_Channel_empty = expect_Channel_empty
  /\ shape_Channel_AddClient = expect_Channel_AddClient
  /\ shape_Channel_RemoveClient = expect_Channel_RemoveClient
  /\ shape_Topic_messagePump = expect_Topic_messagePump
  /\ shape_Topic_put = expect_Topic_put
  /\ shape_Topic_PutMessage = expect_Topic_PutMessage
  /\ shape_Topic_PutMessages = expect_Topic_PutMessages
  /\ shape_Topic_flush = expect_Topic_flush
  /\ shape_Topic_exit = expect_Topic_exit
  /\ shape_Topic_GetChannel = expect_Topic_GetChannel
  /\ shape_Topic_DeleteExistingChannel = expect_Topic_DeleteExistingChannel
  /\ shape_NSQD_GetTopic = expect_NSQD_GetTopic
  /\ shape_NSQD_DeleteExistingTopic = expect_NSQD_DeleteExistingTopic
  /\ shape_NSQD_Exit = expect_NSQD_Exit
  /\ shape_clientV2_SetReadyCount = expect_clientV2_SetReadyCount
  /\ shape_clientV2_IsReadyForMessages = expect_clientV2_IsReadyForMessages
  /\ shape_clientV2_SendingMessage = expect_clientV2_SendingMessage
  /\ shape_clientV2_FinishedMessage = expect_clientV2_FinishedMessage
  /\ shape_clientV2_TimedOutMessage = expect_clientV2_TimedOutMessage
  /\ shape_clientV2_RequeuedMessage = expect_clientV2_RequeuedMessage
  /\ shape_clientV2_StartClose = expect_clientV2_StartClose
  /\ shape_clientV2_Empty = expect_clientV2_Empty
  /\ shape_Channel_initPQ = expect_Channel_initPQ
  /\ shape_protocolV2_NewClient = expect_protocolV2_NewClient
  /\ shape_Channel_doPause = expect_Channel_doPause
  /\ shape_Topic_doPause = expect_Topic_doPause
  /\ shape_Channel_popDeferredMessage = expect_Channel_popDeferredMessage
  /\ shape_Channel_pushDeferredMessage = expect_Channel_pushDeferredMessage
  /\ shape_Channel_addToInFlightPQ = expect_Channel_addToInFlightPQ
  /\ shape_Channel_addToDeferredPQ = expect_Channel_addToDeferredPQ
  /\ seg "for {" "call client.IsReadyForMessages" shape_protocolV2_messagePump = expect_pump_loop_head
  /\ seg "if subChannel == nil || !client.IsReadyForMessages() {" "call client.writeLock.Lock" shape_protocolV2_messagePump = expect_pump_not_ready
  /\ drop_until "if len(b) != 0 {" shape_protocolV2_messagePump = expect_pump_deliver
  /\ cases_of shape_protocolV2_messagePump = expect_pump_sources.

Definition src_facts_C05 : Prop :=
  shape_protocolV2_FIN = expect_protocolV2_FIN
  /\ shape_protocolV2_REQ = expect_protocolV2_REQ
  /\ shape_protocolV2_TOUCH = expect_protocolV2_TOUCH
  /\ shape_protocolV2_CLS = expect_protocolV2_CLS
  /\ shape_protocolV2_SendMessage = expect_protocolV2_SendMessage
  /\ shape_Channel_put = expect_Channel_put
  /\ shape_Channel_PutMessage = expect_Channel_PutMessage
  /\ shape_Channel_PutMessageDeferred = expect_Channel_PutMessageDeferred
  /\ shape_Channel_StartInFlightTimeout = expect_Channel_StartInFlightTimeout
  /\ shape_Channel_StartDeferredTimeout = expect_Channel_StartDeferredTimeout
  /\ shape_Channel_FinishMessage = expect_Channel_FinishMessage
  /\ shape_Channel_RequeueMessage = expect_Channel_RequeueMessage
  /\ shape_Channel_TouchMessage = expect_Channel_TouchMessage
  /\ shape_Channel_pushInFlightMessage = expect_Channel_pushInFlightMessage
  /\ shape_Channel_popInFlightMessage = expect_Channel_popInFlightMessage
  /\ shape_Channel_processInFlightQueue = expect_Channel_processInFlightQueue
  /\ shape_Channel_processDeferredQueue = expect_Channel_processDeferredQueue
  /\ shape_Channel_flush = expect_Channel_flush
  /\ shape_Channel_exit = expect_Channel_exit
  /\ shape_Channel_Empty = expect_Channel_Empty
  /\ shape_Channel_empty = expect_Channel_empty
  /\ shape_Channel_AddClient = expect_Channel_AddClient
  /\ shape_Channel_RemoveClient = expect_Channel_RemoveClient
  /\ shape_Topic_messagePump = expect_Topic_messagePump
  /\ shape_Topic_put = expect_Topic_put
  /\ shape_Topic_PutMessage = expect_Topic_PutMessage
  /\ shape_Topic_PutMessages = expect_Topic_PutMessages
  /\ shape_Topic_flush = expect_Topic_flush
  /\ shape_Topic_exit = expect_Topic_exit
  /\ shape_Topic_GetChannel = expect_Topic_GetChannel
  /\ shape_Topic_DeleteExistingChannel = expect_Topic_DeleteExistingChannel
  /\ shape_NSQD_GetTopic = expect_NSQD_GetTopic
  /\ shape_NSQD_DeleteExistingTopic = expect_NSQD_DeleteExistingTopic
  /\ shape_NSQD_Exit = expect_NSQD_Exit
  /\ shape_clientV2_SetReadyCount = expect_clientV2_SetReadyCount
  /\ shape_clientV2_IsReadyForMessages = expect_clientV2_IsReadyForMessages
  /\ shape_clientV2_SendingMessage = expect_clientV2_SendingMessage
  /\ shape_clientV2_FinishedMessage = expect_clientV2_FinishedMessage
  /\ shape_clientV2_TimedOutMessage = expect_clientV2_TimedOutMessage
  /\ shape_clientV2_RequeuedMessage = expect_clientV2_RequeuedMessage
  /\ shape_clientV2_StartClose = expect_clientV2_StartClose
  /\ shape_clientV2_Empty = expect_clientV2_Empty
  /\ shape_Channel_initPQ = expect_Channel_initPQ
  /\ shape_protocolV2_NewClient = expect_protocolV2_NewClient
  /\ shape_Channel_doPause = expect_Channel_doPause
  /\ shape_Topic_doPause = expect_Topic_doPause
  /\ shape_Channel_popDeferredMessage = expect_Channel_popDeferredMessage
  /\ shape_Channel_pushDeferredMessage = expect_Channel_pushDeferredMessage
  /\ shape_Channel_addToInFlightPQ = expect_Channel_addToInFlightPQ
  /\ shape_Channel_addToDeferredPQ = expect_Channel_addToDeferredPQ
  /\ seg "for {" "call client.IsReadyForMessages" shape_protocolV2_messagePump = expect_pump_loop_head
  /\ seg "if subChannel == nil || !client.IsReadyForMessages() {" "call client.writeLock.Lock" shape_protocolV2_messagePump = expect_pump_not_ready
  /\ drop_until "if len(b) != 0 {" shape_protocolV2_messagePump = expect_pump_deliver
  /\ cases_of shape_protocolV2_messagePump = expect_pump_sources.

Definition src_facts_C08 : Prop :=
  shape_protocolV2_FIN = expect_protocolV2_FIN
  /\ shape_protocolV2_REQ = expect_protocolV2_REQ
  /\ shape_protocolV2_TOUCH = expect_protocolV2_TOUCH
  /\ shape_protocolV2_CLS = expect_protocolV2_CLS
  /\ shape_protocolV2_SendMessage = expect_protocolV2_SendMessage
  /\ shape_Channel_put = expect_Channel_put
  /\ shape_Channel_PutMessage = expect_Channel_PutMessage
  /\ shape_Channel_PutMessageDeferred = expect_Channel_PutMessageDeferred
  /\ shape_Channel_StartInFlightTimeout = expect_Channel_StartInFlightTimeout
  /\ shape_Channel_StartDeferredTimeout = expect_Channel_StartDeferredTimeout
  /\ shape_Channel_FinishMessage = expect_Channel_FinishMessage
  /\ shape_Channel_RequeueMessage = expect_Channel_RequeueMessage
  /\ shape_Channel_TouchMessage = expect_Channel_TouchMessage
  /\ shape_Channel_pushInFlightMessage = expect_Channel_pushInFlightMessage
  /\ shape_Channel_popInFlightMessage = expect_Channel_popInFlightMessage
  /\ shape_Channel_processInFlightQueue = expect_Channel_processInFlightQueue
  /\ shape_Channel_processDeferredQueue = expect_Channel_processDeferredQueue
  /\ shape_Channel_flush = expect_Channel_flush
  /\ shape_Channel_exit = expect_Channel_exit
  /\ shape_Channel_Empty = expect_Channel_Empty
  /\ shape_Channel_empty = expect_Channel_empty
  /\ shape_Channel_AddClient = expect_Channel_AddClient
  /\ shape_Channel_RemoveClient = expect_Channel_RemoveClient
  /\ shape_Topic_messagePump = expect_Topic_messagePump
  /\ shape_Topic_put = expect_Topic_put
  /\ shape_Topic_PutMessage = expect_Topic_PutMessage
  /\ shape_Topic_PutMessages = expect_Topic_PutMessages
  /\ shape_Topic_flush = expect_Topic_flush
  /\ shape_Topic_exit = expect_Topic_exit
  /\ shape_Topic_GetChannel = expect_Topic_GetChannel
  /\ shape_Topic_DeleteExistingChannel = expect_Topic_DeleteExistingChannel
  /\ shape_NSQD_GetTopic = expect_NSQD_GetTopic
  /\ shape_NSQD_DeleteExistingTopic = expect_NSQD_DeleteExistingTopic
  /\ shape_NSQD_Exit = expect_NSQD_Exit
  /\ shape_clientV2_SetReadyCount = expect_clientV2_SetReadyCount
  /\ shape_clientV2_IsReadyForMessages = expect_clientV2_IsReadyForMessages
  /\ shape_clientV2_SendingMessage = expect_clientV2_SendingMessage
  /\ shape_clientV2_FinishedMessage = expect_clientV2_FinishedMessage
  /\ shape_clientV2_TimedOutMessage = expect_clientV2_TimedOutMessage
  /\ shape_clientV2_RequeuedMessage = expect_clientV2_RequeuedMessage
  /\ shape_clientV2_StartClose = expect_clientV2_StartClose
  /\ shape_clientV2_Empty = expect_clientV2_Empty
  /\ shape_Channel_initPQ = expect_Channel_initPQ
  /\ shape_protocolV2_NewClient = expect_protocolV2_NewClient
  /\ shape_Channel_doPause = expect_Channel_doPause
  /\ shape_Topic_doPause = expect_Topic_doPause
  /\ shape_Channel_popDeferredMessage = expect_Channel_popDeferredMessage
  /\ shape_Channel_pushDeferredMessage = expect_Channel_pushDeferredMessage
  /\ shape_Channel_addToInFlightPQ = expect_Channel_addToInFlightPQ
  /\ shape_Channel_addToDeferredPQ = expect_Channel_addToDeferredPQ
  /\ seg "for {" "call client.IsReadyForMessages" shape_protocolV2_messagePump = expect_pump_loop_head
  /\ seg "if subChannel == nil || !client.IsReadyForMessages() {" "call client.writeLock.Lock" shape_protocolV2_messagePump = expect_pump_not_ready
  /\ drop_until "if len(b) != 0 {" shape_protocolV2_messagePump = expect_pump_deliver
  /\ cases_of shape_protocolV2_messagePump = expect_pump_sources.

Definition src_facts_C13 : Prop :=
  shape_protocolV2_FIN = expect_protocolV2_FIN
  /\ shape_protocolV2_REQ = expect_protocolV2_REQ
  /\ shape_protocolV2_TOUCH = expect_protocolV2_TOUCH
  /\ shape_protocolV2_CLS = expect_protocolV2_CLS
  /\ shape_protocolV2_SendMessage = expect_protocolV2_SendMessage
  /\ shape_Channel_put = expect_Channel_put
  /\ shape_Channel_PutMessage = expect_Channel_PutMessage
  /\ shape_Channel_PutMessageDeferred = expect_Channel_PutMessageDeferred
  /\ shape_Channel_StartInFlightTimeout = expect_Channel_StartInFlightTimeout
  /\ shape_Channel_StartDeferredTimeout = expect_Channel_StartDeferredTimeout
  /\ shape_Channel_FinishMessage = expect_Channel_FinishMessage
  /\ shape_Channel_RequeueMessage = expect_Channel_RequeueMessage
  /\ shape_Channel_TouchMessage = expect_Channel_TouchMessage
  /\ shape_Channel_pushInFlightMessage = expect_Channel_pushInFlightMessage
  /\ shape_Channel_popInFlightMessage = expect_Channel_popInFlightMessage
  /\ shape_Channel_processInFlightQueue = expect_Channel_processInFlightQueue
  /\ shape_Channel_processDeferredQueue = expect_Channel_processDeferredQueue
  /\ shape_Channel_flush = expect_Channel_flush
  /\ shape_Channel_exit = expect_Channel_exit
  /\ shape_Channel_Empty = expect_Channel_Empty
  /\ shape_Channel_empty = expect_Channel_empty
  /\ shape_Channel_AddClient = expect_Channel_AddClient
  /\ shape_Channel_RemoveClient = expect_Channel_RemoveClient
  /\ shape_Topic_messagePump = expect_Topic_messagePump
  /\ shape_Topic_put = expect_Topic_put
  /\ shape_Topic_PutMessage = expect_Topic_PutMessage
  /\ shape_Topic_PutMessages = expect_Topic_PutMessages
  /\ shape_Topic_flush = expect_Topic_flush
  /\ shape_Topic_exit = expect_Topic_exit
  /\ shape_Topic_GetChannel = expect_Topic_GetChannel
  /\ shape_Topic_DeleteExistingChannel = expect_Topic_DeleteExistingChannel
  /\ shape_NSQD_GetTopic = expect_NSQD_GetTopic
  /\ shape_NSQD_DeleteExistingTopic = expect_NSQD_DeleteExistingTopic
  /\ shape_NSQD_Exit = expect_NSQD_Exit
  /\ shape_clientV2_SetReadyCount = expect_clientV2_SetReadyCount
  /\ shape_clientV2_IsReadyForMessages = expect_clientV2_IsReadyForMessages
  /\ shape_clientV2_SendingMessage = expect_clientV2_SendingMessage
  /\ shape_clientV2_FinishedMessage = expect_clientV2_FinishedMessage
  /\ shape_clientV2_TimedOutMessage = expect_clientV2_TimedOutMessage
  /\ shape_clientV2_RequeuedMessage = expect_clientV2_RequeuedMessage
  /\ shape_clientV2_StartClose = expect_clientV2_StartClose
  /\ shape_clientV2_Empty = expect_clientV2_Empty
  /\ shape_Channel_initPQ = expect_Channel_initPQ
  /\ shape_protocolV2_NewClient = expect_protocolV2_NewClient
  /\ shape_Channel_doPause = expect_Channel_doPause
  /\ shape_Topic_doPause = expect_Topic_doPause
  /\ shape_Channel_popDeferredMessage = expect_Channel_popDeferredMessage
  /\ shape_Channel_pushDeferredMessage = expect_Channel_pushDeferredMessage
  /\ shape_Channel_addToInFlightPQ = expect_Channel_addToInFlightPQ
  /\ shape_Channel_addToDeferredPQ = expect_Channel_addToDeferredPQ
  /\ seg "for {" "call client.IsReadyForMessages" shape_protocolV2_messagePump = expect_pump_loop_head
  /\ seg "if subChannel == nil || !client.IsReadyForMessages() {" "call client.writeLock.Lock" shape_protocolV2_messagePump = expect_pump_not_ready
  /\ drop_until "if len(b) != 0 {" shape_protocolV2_messagePump = expect_pump_deliver
  /\ cases_of shape_protocolV2_messagePump = expect_pump_sources.

Definition src_facts_C12 : Prop :=
  shape_NSQD_GetTopic = expect_NSQD_GetTopic.
