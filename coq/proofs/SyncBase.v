(* C16 — basic facts about the Sync model: list plumbing, object lookup, the bounded
   response reader, and "no reply byte sequence crashes nsqd". *)
From Coq Require Import List NArith ZArith Bool Lia Arith.
From RecordUpdate Require Import RecordUpdate.
From NSQV Require Import gen.Consts gen.SyncTab model.Judge model.Sync.
Import ListNotations.
Open Scope nat_scope.
Open Scope bool_scope.

(* ------------------------------------------------------------------ upd / nth *)
Lemma length_upd {A} (l : list A) i x : length (upd l i x) = length l.
Proof. revert i; induction l; intros [|i]; cbn; auto. Qed.

Lemma nth_upd {A} (l : list A) i x j d :
  nth j (upd l i x) d = if (j =? i) && (i <? length l) then x else nth j l d.
Proof.
  revert i j; induction l as [|a l IH]; intros i j; cbn.
  - destruct (j =? i); cbn; destruct i, j; reflexivity.
  - destruct i as [|i], j as [|j]; cbn; auto.
    rewrite IH. reflexivity.
Qed.

Lemma nth_upd_same {A} (l : list A) i x d : i < length l -> nth i (upd l i x) d = x.
Proof. intros. rewrite nth_upd, Nat.eqb_refl. apply Nat.ltb_lt in H. rewrite H. reflexivity. Qed.

Lemma nth_upd_other {A} (l : list A) i x j d : j <> i -> nth j (upd l i x) d = nth j l d.
Proof. intros. rewrite nth_upd. apply Nat.eqb_neq in H. rewrite H. reflexivity. Qed.

Lemma getO_upd l i o j : getO (upd l i o) j = if (j =? i) && (i <? length l) then o else getO l j.
Proof. apply nth_upd. Qed.

Lemma getO_app_new l o j :
  getO (l ++ [o]) j = if j <? length l then getO l j else if j =? length l then o else dflt.
Proof.
  unfold getO. destruct (Nat.ltb_spec j (length l)).
  - apply app_nth1; auto.
  - rewrite app_nth2 by lia. destruct (Nat.eqb_spec j (length l)).
    + subst. rewrite Nat.sub_diag. reflexivity.
    + destruct (j - length l) as [|[|k]] eqn:E; try lia; reflexivity.
Qed.

Lemma getO_overflow l j : length l <= j -> getO l j = dflt.
Proof. intros. apply nth_overflow; auto. Qed.

(* ------------------------------------------------------------------ remove_at *)
Lemma remove_at_In {A} (l : list A) i x : In x (remove_at i l) -> In x l.
Proof.
  revert i; induction l as [|a l IH]; intros [|i]; cbn; auto.
  intros [H|H]; eauto.
Qed.

Lemma In_remove_at {A} (l : list A) i x y :
  In x l -> nth_error l i = Some y -> x <> y -> In x (remove_at i l).
Proof.
  revert i; induction l as [|a l IH]; intros [|i]; cbn; try tauto.
  - intros [H|H] E N; auto. congruence.
  - intros [H|H] E N; [left; auto | right; eapply IH; eauto].
Qed.

Lemma length_remove_at {A} (l : list A) i y :
  nth_error l i = Some y -> S (length (remove_at i l)) = length l.
Proof.
  revert i; induction l as [|a l IH]; intros [|i]; cbn; try discriminate; auto.
Qed.

(* ------------------------------------------------------------------ find_from *)
Lemma find_from_some p l i j :
  find_from p l i = Some j -> i <= j /\ j - i < length l /\ p (nth (j - i) l dflt) = true.
Proof.
  revert i; induction l as [|o l IH]; intros i; cbn; try discriminate.
  destruct (p o) eqn:E.
  - intros H; inversion H; subst. rewrite Nat.sub_diag. repeat split; auto; lia.
  - intros H. apply IH in H. destruct H as (H1 & H2 & H3).
    replace (j - i) with (S (j - S i)) by lia. repeat split; auto; lia.
Qed.

Lemma find_from_none p l i : find_from p l i = None -> forall o, In o l -> p o = false.
Proof.
  revert i; induction l as [|o l IH]; intros i; cbn; try tauto.
  destruct (p o) eqn:E; try discriminate.
  intros H o' [<-|H']; eauto.
Qed.

Lemma find_topic_some l t i : find_topic l t = Some i -> i < length l /\ topic_named t (getO l i) = true.
Proof.
  unfold find_topic. intros H. apply find_from_some in H. rewrite Nat.sub_0_r in H. tauto.
Qed.

Lemma find_topic_none l t j : find_topic l t = None -> topic_named t (getO l j) = false.
Proof.
  unfold find_topic. intros H.
  destruct (Nat.ltb_spec j (length l)).
  - eapply find_from_none; eauto. apply nth_In; auto.
  - rewrite getO_overflow by auto. reflexivity.
Qed.

Lemma find_chan_some l p c i : find_chan l p c = Some i -> i < length l /\ chan_named p c (getO l i) = true.
Proof.
  unfold find_chan. intros H. apply find_from_some in H. rewrite Nat.sub_0_r in H. tauto.
Qed.

Lemma find_chan_none l p c j : find_chan l p c = None -> chan_named p c (getO l j) = false.
Proof.
  unfold find_chan. intros H.
  destruct (Nat.ltb_spec j (length l)).
  - eapply find_from_none; eauto. apply nth_In; auto.
  - rewrite getO_overflow by auto. reflexivity.
Qed.

Lemma In_ids l i : In i (ids l) <-> i < length l.
Proof. unfold ids. rewrite in_seq. lia. Qed.

Lemma In_chans_of l p j :
  In j (chans_of l p) <-> j < length l /\ is_chan_of p (getO l j) = true /\ o_map (getO l j) = true.
Proof.
  unfold chans_of. rewrite filter_In, In_ids, andb_true_iff. tauto.
Qed.

Lemma is_chan_of_spec p o : is_chan_of p o = true <-> o_parent o = Some p.
Proof.
  unfold is_chan_of. destruct (o_parent o) as [q|]; split; intros H; try discriminate.
  - apply Nat.eqb_eq in H. congruence.
  - inversion H. apply Nat.eqb_refl.
Qed.

Lemma is_topic_spec o : is_topic o = true <-> o_parent o = None.
Proof. unfold is_topic. destruct (o_parent o); split; intros; congruence. Qed.

(* ------------------------------------------------------------------ keys *)
Lemma key_eqb_eq a b : key_eqb a b = true <-> a = b.
Proof.
  destruct a, b; cbn; try (split; intros; congruence).
  - rewrite N.eqb_eq. split; intros; congruence.
  - rewrite andb_true_iff, !N.eqb_eq. split; [intros []|intros H; inversion H]; subst; auto.
Qed.

Lemma key_eqb_refl a : key_eqb a a = true.
Proof. apply key_eqb_eq. reflexivity. Qed.

Lemma key_in_In k l : key_in k l = true <-> In k l.
Proof.
  unfold key_in. rewrite existsb_exists. split.
  - intros (x & H & E). apply key_eqb_eq in E. subst; auto.
  - intros H. exists k. split; auto. apply key_eqb_refl.
Qed.

Lemma keys_eqb_spec a b : keys_eqb a b = true <-> (forall k, In k a <-> In k b).
Proof.
  unfold keys_eqb, keys_sub. rewrite andb_true_iff, !forallb_forall. split.
  - intros [H1 H2] k. split; intros H; [apply H1 in H|apply H2 in H]; apply key_in_In in H; auto.
  - intros H. split; intros k Hk; apply key_in_In; apply H; auto.
Qed.

(* ------------------------------------------------------------------ the reader never panics *)
Lemma rrb_no_panic c buf : g_neg c = true -> read_response_bounded c buf <> RRPanic.
Proof.
  intros G. unfold read_response_bounded.
  destruct buf as [|b0 [|b1 [|b2 [|b3 rest]]]]; try discriminate.
  cbv zeta. rewrite G. cbn [andb].
  destruct (to_i32 (be32 b0 b1 b2 b3) <? 0)%Z eqn:E; try discriminate.
  destruct (g_limit c && _); try discriminate.
  destruct (Z.of_nat _ <? _)%Z; discriminate.
Qed.

Lemma exchange_no_panic c cm k : g_neg c = true -> snd (exchange c cm k) <> XPanic.
Proof.
  intros G. unfold exchange.
  match goal with |- context [read_response_bounded c ?b] =>
    pose proof (rrb_no_panic c b G); destruct (read_response_bounded c b) end;
    cbn; congruence.
Qed.

Lemma send_all_no_panic c cms k : g_neg c = true -> snd (send_all c cms k) <> XPanic.
Proof.
  intros G. revert k; induction cms as [|cm r IH]; intros k; cbn; try discriminate.
  pose proof (exchange_no_panic c cm k G).
  destruct (exchange c cm k) as [k' [b| |]]; cbn in *; auto; congruence.
Qed.

Lemma callback_no_panic c rc k : g_neg c = true -> snd (callback c rc k) <> XPanic.
Proof.
  intros G. unfold callback.
  pose proof (exchange_no_panic c CIdentify k G).
  destruct (exchange c CIdentify k) as [k' [b| |]]; cbn in *; try congruence.
  destruct (bytes_eqb b einvalid_body); cbn; try discriminate.
  destruct (json_parse b); cbn; try discriminate.
  apply send_all_no_panic; auto.
Qed.

Lemma connect_no_panic c rc k : g_neg c = true -> snd (connect c rc k) <> XPanic.
Proof.
  intros G. unfold connect.
  destruct (k_state k =? st_connected)%Z; cbn; try discriminate.
  destruct (negb (l_up k)); cbn; try discriminate.
  destruct (l_accept k) as [|[|] r]; cbn; try discriminate; apply callback_no_panic; auto.
Qed.

Lemma finish_no_panic c cm k r : g_neg c = true -> r <> XPanic -> snd (finish c cm k r) <> XPanic.
Proof.
  intros G H. unfold finish. destruct r; cbn; try congruence.
  destruct (_ =? _)%Z; cbn; try discriminate.
  destruct cm; cbn; try discriminate. apply exchange_no_panic; auto.
Qed.

Lemma command_no_panic c rc cm k : g_neg c = true -> snd (command c rc cm k) <> XPanic.
Proof.
  intros G. unfold command. apply finish_no_panic; auto. apply connect_no_panic; auto.
Qed.

Lemma on_links_some f a ls :
  (forall a k, snd (f a k) <> XPanic) -> exists ls', on_links f a ls = Some ls'.
Proof.
  intros H. revert a; induction ls as [|k r IH]; intros a; cbn; eauto.
  specialize (H a k). destruct (f a k) as [k' x]. cbn in H.
  destruct (IH (S a)) as [r' E]. rewrite E.
  destruct x; eauto. congruence.
Qed.

Lemma loop_step_no_panic c s o : g_neg c = true -> loop_step c s o <> Crashed.
Proof.
  intros G. unfold loop_step. destruct o; try discriminate.
  - destruct (nth_error (bag s) i); try discriminate.
    match goal with |- context [on_links ?f 0 ?l] => destruct (on_links_some f 0 l) as [ls' E] end.
    { intros a k. destruct (k_conf k); cbn; try discriminate. apply command_no_panic; auto. }
    rewrite E. discriminate.
  - match goal with |- context [on_links ?f 0 ?l] => destruct (on_links_some f 0 l) as [ls' E] end.
    { intros a k. destruct (k_conf k); cbn; try discriminate. apply command_no_panic; auto. }
    rewrite E. discriminate.
  - match goal with |- context [on_links ?f 0 ?l] => destruct (on_links_some f 0 l) as [ls' E] end.
    { intros a k. destruct (mem a addrs), (k_conf k); cbn; try discriminate. apply command_no_panic; auto. }
    rewrite E. discriminate.
Qed.

Lemma step_no_panic c s o : g_neg c = true -> step c s o <> Crashed.
Proof.
  intros G. unfold step. destruct (is_loop_op o).
  - apply loop_step_no_panic; auto.
  - destruct (is_fault_op o); discriminate.
Qed.

Lemma run_no_panic c s os : g_neg c = true -> run c (Run s) os <> Crashed.
Proof.
  intros G. revert s; induction os as [|o r IH]; intros s; cbn; try discriminate.
  pose proof (step_no_panic c s o G). destruct (step c s o); try congruence. apply IH.
Qed.

Lemma run_app c x a b : run c x (a ++ b) = run c (run c x a) b.
Proof. apply fold_left_app. Qed.

Lemma run_crashed c os : run c Crashed os = Crashed.
Proof. induction os; cbn; auto. Qed.

(* the unchecked make is a real outcome of the model: without the refusal a negative
   length prefix does crash the daemon *)
Definition cfg_without_neg_guard : cfg := repo_cfg <| g_neg := false |>.

Lemma unguarded_make_panics :
  run cfg_without_neg_guard (Run init)
      [Reconfigure [0]; FReply 0 [RBytes [255; 255; 255; 255]%N]; Tick] = Crashed.
Proof. vm_compute. reflexivity. Qed.
